package kv

import (
	"fmt"
	"strings"

	"olverif/harness/rng"
)

const (
	K1   = "6b31"
	K2   = "6b32"
	V1   = "01"
	V2   = "0202"
	Tomb = "e29bbc" // "⛼"
)

// Alphabet of the exhaustive small-scope enumeration (DESIGN §6 C09 (a)).
func Alphabet() []string {
	a := []string{}
	for _, k := range []string{K1, K2} {
		for _, v := range []string{V1, V2, Tomb} {
			a = append(a, "set "+k+" "+v)
		}
		a = append(a, "del "+k, "get "+k, "has "+k)
	}
	a = append(a, "iter ~ ~ 1", "itera ~ ~ 1", "begin", "csess", "dsess", "write", "commit", "reopen",
		"getv 1 "+K1, "getv 2 "+K1)
	return a
}

// A Case is one op list (without its leading "new" line).
type Case struct {
	New string
	Ops []string
}

func (c Case) Lines() []string { return append([]string{c.New}, c.Ops...) }

// Exhaustive enumerates every sequence of exactly n alphabet symbols; fn is called per case.
func Exhaustive(n int, fn func(Case)) {
	a := Alphabet()
	idx := make([]int, n)
	for {
		ops := make([]string, n)
		for i, j := range idx {
			ops[i] = a[j]
		}
		fn(Case{New: "new 1 0 0", Ops: ops})
		i := n - 1
		for i >= 0 {
			idx[i]++
			if idx[i] < len(a) {
				break
			}
			idx[i] = 0
			i--
		}
		if i < 0 {
			return
		}
	}
}

var randKeys = []string{"61", "6162", "616263", "6164", "62", "625f31", "625f3130", "625f32", "63"}

func randVal(r *rng.R) string {
	switch r.Intn(12) {
	case 0:
		return Tomb
	case 1:
		return "e29bbc00" // tombstone prefix, not the tombstone
	}
	n := 1 + r.Intn(4)
	return fmt.Sprintf("%x", r.Bytes(n))
}

func optKey(r *rng.R) string {
	if r.Chance(1, 3) {
		return "~"
	}
	return randKeys[r.Intn(len(randKeys))]
}

// Random builds one long random case. gasFamily=true adds metered states with small limits.
func Random(r *rng.R, maxLen int, gasFamily bool) Case {
	rots := []string{"new 0 0 0", "new 1 0 0", "new 3 0 0", "new 2 2 0", "new 1 2 1", "new 0 1 0", "new 2 3 2", "new 0 2 1"}
	c := Case{New: rots[r.Intn(len(rots))]}
	n := 5 + r.Intn(maxLen)
	if gasFamily {
		c.Ops = append(c.Ops, fmt.Sprintf("state %d", []int{0, 150, 400, 1000, 5000}[r.Intn(5)]))
	}
	ver := 0
	for i := 0; i < n; i++ {
		k := randKeys[r.Intn(len(randKeys))]
		switch x := r.Intn(100); {
		case x < 22:
			c.Ops = append(c.Ops, "set "+k+" "+randVal(r))
		case x < 32:
			c.Ops = append(c.Ops, "del "+k)
		case x < 47:
			c.Ops = append(c.Ops, "get "+k)
		case x < 55:
			c.Ops = append(c.Ops, "has "+k)
		case x < 61:
			asc := "1"
			if r.Chance(1, 4) {
				asc = "0"
			}
			op := "iter "
			if r.Chance(1, 2) {
				op = "itera " // IterateRangeAll: also the keys pending in the block cache / session
			}
			c.Ops = append(c.Ops, op+optKey(r)+" "+optKey(r)+" "+asc)
		case x < 69:
			c.Ops = append(c.Ops, "begin")
		case x < 75:
			c.Ops = append(c.Ops, "csess")
		case x < 80:
			c.Ops = append(c.Ops, "dsess")
		case x < 82:
			c.Ops = append(c.Ops, "write")
		case x < 90:
			c.Ops = append(c.Ops, "commit")
			ver++
			if gasFamily || r.Chance(1, 3) {
				// the application creates a fresh State after every Commit
				if gasFamily {
					c.Ops = append(c.Ops, fmt.Sprintf("state %d", []int{0, 150, 400, 1000, 5000}[r.Intn(5)]))
				} else {
					c.Ops = append(c.Ops, "state ~")
				}
			}
		case x < 93:
			c.Ops = append(c.Ops, "reopen")
		case x < 99:
			v := ver - r.Intn(5) + 1
			c.Ops = append(c.Ops, fmt.Sprintf("getv %d %s", v, k))
		default:
			c.Ops = append(c.Ops, "gas")
		}
	}
	c.Ops = append(c.Ops, "commit", "get "+randKeys[0], "iter ~ ~ 1")
	return c
}

func isRead(op string) bool {
	return strings.HasPrefix(op, "get ") || strings.HasPrefix(op, "has ") || strings.HasPrefix(op, "iter ") || strings.HasPrefix(op, "itera ") ||
		strings.HasPrefix(op, "getv ") || op == "gas"
}

// EraseReads drops every read and every session that does not end in a session commit
// (C09: "reads, existence checks and discarded sessions do not influence the root hash").
// A session ends at csess (kept), or at dsess / begin / commit / reopen / state (its writes are
// lost, so the whole span is dropped; `write` lines inside it are kept, they flush the block cache).
func EraseReads(ops []string) []string {
	var out, span []string
	open := false
	closeSpan := func(keep bool) {
		if keep {
			out = append(out, span...)
		} else {
			for _, o := range span {
				if o == "write" {
					out = append(out, o)
				}
			}
		}
		span = nil
		open = false
	}
	for _, o := range ops {
		if isRead(o) {
			continue
		}
		switch o {
		case "begin":
			if open {
				closeSpan(false)
			}
			open = true
			span = []string{o}
			continue
		case "csess":
			if open {
				span = append(span, o)
				closeSpan(true)
				continue
			}
		case "dsess":
			if open {
				closeSpan(false)
				continue
			}
			continue // a discard without a session is a no-op
		case "commit", "reopen":
			if open {
				closeSpan(false)
			}
		}
		if strings.HasPrefix(o, "state ") && open {
			closeSpan(false)
		}
		if open {
			span = append(span, o)
		} else {
			out = append(out, o)
		}
	}
	if open {
		closeSpan(false)
	}
	return out
}

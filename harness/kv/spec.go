package kv

import (
	"fmt"
	"sort"
	"strconv"
	"strings"
)

// Monitor is the property C09 itself, evaluated on the implementation's observed outputs:
// a plain layered map (session ▹ block ▹ last write-out ▹ saved versions), written
// independently of both the Go implementation and the Lean model.
type Monitor struct {
	tree    map[string]string
	saved   map[int]map[string]string
	version int
	block   map[string]*string // nil value = deleted
	sess    map[string]*string // nil map = no session
	// lastKind[k] remembers what the latest write in scope to k was ("set", "del", "tombset")
	metered bool
}

type Hit struct {
	Signature string `json:"signature"`
	Line      int    `json:"line"`
	Op        string `json:"op"`
	Got       string `json:"got"`
	Want      string `json:"want"`
}

func NewMonitor() *Monitor {
	return &Monitor{tree: map[string]string{}, saved: map[int]map[string]string{}, block: map[string]*string{}}
}

func cp(m map[string]string) map[string]string {
	n := make(map[string]string, len(m))
	for k, v := range m {
		n[k] = v
	}
	return n
}

// cur returns (value, present, kindOfLatestWrite)
func (m *Monitor) cur(k string) (string, bool, string) {
	for _, lay := range []map[string]*string{m.sess, m.block} {
		if lay == nil {
			continue
		}
		if p, ok := lay[k]; ok {
			if p == nil {
				return "", false, "del"
			}
			if *p == Tomb {
				return *p, true, "tombset"
			}
			return *p, true, "set"
		}
	}
	v, ok := m.tree[k]
	return v, ok, "tree"
}

func (m *Monitor) flush() {
	for k, p := range m.block {
		if p == nil {
			delete(m.tree, k)
		} else {
			m.tree[k] = *p
		}
	}
}

func classify(kind string) string {
	switch kind {
	case "del":
		return "deleted-key-visible"
	case "tombset":
		return "tombstone-literal-value"
	}
	return "read-mismatch"
}

// Step checks one (op, impl output) pair and advances the reference map.
func (m *Monitor) Step(ln int, op, got string) *Hit {
	t := strings.Fields(op)
	if len(t) == 0 {
		return nil
	}
	hit := func(sig, want string) *Hit { return &Hit{Signature: sig, Line: ln, Op: op, Got: got, Want: want} }
	switch t[0] {
	case "state":
		m.block = map[string]*string{}
		m.sess = nil
		m.metered = t[1] != "~"
	case "set":
		if got == "err reserved" {
			// an explicitly refused write is not a write: nothing changes (only the reserved
			// TOMBSTONE marker may be refused)
			if t[2] != Tomb {
				return hit("write-refused", "ok")
			}
			return nil
		}
		if got != "ok" {
			if m.metered {
				return nil
			}
			return hit("write-refused", "ok")
		}
		v := t[2]
		if m.sess != nil {
			m.sess[t[1]] = &v
		} else {
			m.block[t[1]] = &v
		}
	case "del":
		if m.sess != nil {
			m.sess[t[1]] = nil
		} else {
			m.block[t[1]] = nil
		}
	case "get":
		v, ok, kind := m.cur(t[1])
		want := "val ~"
		if ok {
			want = "val " + v
		}
		if got == "err gas" && m.metered {
			// a metered state may refuse a read; what it must never do is answer with another
			// value than the most recent write in scope
			return nil
		}
		if got != want {
			if kind == "tree" {
				// the tree may legitimately hold a literal tombstone that was written out
				if tv, has := m.tree[t[1]]; has && tv == Tomb {
					return hit("tombstone-literal-value", want)
				}
			}
			return hit(classify(kind), want)
		}
	case "has":
		_, ok, kind := m.cur(t[1])
		want := "bool 0"
		if ok {
			want = "bool 1"
		}
		if got != want {
			if kind == "tree" {
				if tv, has := m.tree[t[1]]; has && tv == Tomb {
					return hit("tombstone-literal-value", want)
				}
			}
			return hit(classify(kind), want)
		}
	case "iter", "itera":
		if !strings.HasPrefix(got, "list ") {
			return hit("iter-failed", "list …")
		}
		body := strings.TrimPrefix(got, "list ")
		// IterateRangeAll is complete: every key of the range that a read would find is listed,
		// whether it is in the tree or only pending in the block or in the session (a metered
		// state may skip keys whose read it refuses). IterateRange lists keys of the tree only.
		if t[0] == "itera" && !m.metered {
			listed := map[string]bool{}
			if body != "-" {
				for _, it := range strings.Split(body, ",") {
					listed[strings.SplitN(it, "=", 2)[0]] = true
				}
			}
			all := map[string]bool{}
			for k := range m.tree {
				all[k] = true
			}
			for _, lay := range []map[string]*string{m.sess, m.block} {
				for k := range lay {
					all[k] = true
				}
			}
			for k := range all {
				if t[1] != "~" && k < t[1] || t[2] != "~" && k >= t[2] {
					continue
				}
				if _, ok, _ := m.cur(k); ok && !listed[k] {
					return hit("iterall-misses-visible-key", "key "+k+" listed")
				}
			}
		}
		if body == "-" {
			return nil
		}
		prev := ""
		for i, it := range strings.Split(body, ",") {
			kv := strings.SplitN(it, "=", 2)
			k := kv[0]
			if t[1] != "~" && k < t[1] || t[2] != "~" && k >= t[2] {
				return hit("iter-out-of-range", "key in ["+t[1]+","+t[2]+")")
			}
			if i > 0 && (t[3] == "1" && !(prev < k) || t[3] != "1" && !(prev > k)) {
				return hit("iter-order", "strictly monotone keys")
			}
			prev = k
			v, ok, kind := m.cur(k)
			want := "~"
			if ok {
				want = v
			}
			if kv[1] != want {
				if kind == "tree" {
					if tv, has := m.tree[k]; has && tv == Tomb {
						return hit("tombstone-literal-value", k+"="+want)
					}
				}
				return hit(classify(kind), k+"="+want)
			}
		}
	case "begin":
		m.sess = map[string]*string{}
	case "csess":
		if m.sess == nil {
			if got != "panic" {
				return hit("commit-without-session", "panic")
			}
			return nil
		}
		for k, p := range m.sess {
			m.block[k] = p
		}
		m.sess = nil
	case "dsess":
		m.sess = nil
	case "write":
		m.flush()
	case "commit":
		m.flush()
		m.version++
		m.saved[m.version] = cp(m.tree)
		m.block = map[string]*string{}
		m.sess = nil
		want := fmt.Sprintf("commit %d", m.version)
		if !strings.HasPrefix(got, want+" ") && got != want {
			return hit("commit-version", want)
		}
	case "reopen":
		if s, ok := m.saved[m.version]; ok {
			m.tree = cp(s)
		} else {
			m.tree = map[string]string{}
		}
		m.block = map[string]*string{}
		m.sess = nil
		m.metered = false
	case "getv":
		ver, _ := strconv.Atoi(t[1])
		s, ok := m.saved[ver]
		if got == "val ~" {
			// absent: fine when the version never existed, was rotated away, or lacks the key;
			// the latest version is never rotated away
			if ok && ver == m.version {
				if v, has := s[t[2]]; has && v != Tomb {
					return hit("latest-version-lost", "val "+v)
				}
			}
			return nil
		}
		if !ok {
			return hit("phantom-version", "val ~")
		}
		v, has := s[t[2]]
		if !has || got != "val "+v {
			return hit("old-version-changed", "val "+v)
		}
	}
	return nil
}

// sortedKeys is used by tests of the monitor itself.
func sortedKeys(m map[string]string) []string {
	ks := make([]string, 0, len(m))
	for k := range m {
		ks = append(ks, k)
	}
	sort.Strings(ks)
	return ks
}

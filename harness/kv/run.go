package kv

import (
	"bytes"
	"crypto/sha256"
	"encoding/hex"
	"encoding/json"
	"fmt"
	"io/ioutil"
	"os"
	"os/exec"
	"strings"

	"github.com/tendermint/iavl"
	tmdb "github.com/tendermint/tm-db"

	"olverif/harness/rng"
)

type Disagreement struct {
	Kind  string   `json:"kind"` // "output", "hash"
	Case  int      `json:"case"`
	Line  int      `json:"line"`
	Op    string   `json:"op"`
	Impl  string   `json:"impl"`
	Model string   `json:"model"`
	Ops   []string `json:"ops"`
}

type MonitorHit struct {
	Hit
	Case int      `json:"case"`
	Ops  []string `json:"ops"`
}

type Result struct {
	Engine             string         `json:"engine"`
	Seed               uint64         `json:"seed"`
	Evaluations        int            `json:"evaluations"`
	DistinctNontrivial int            `json:"distinct_nontrivial"`
	Rule               string         `json:"rule"`
	Exhaustive         bool           `json:"exhaustive"`
	ExhaustiveLen      int            `json:"exhaustive_len"`
	OpsExecuted        int            `json:"ops_executed"`
	Samples            [][]string     `json:"samples"`
	Disagreements      []Disagreement `json:"disagreements"`
	DisagreementCount  int            `json:"disagreement_count"`
	MonitorHits        []MonitorHit   `json:"monitor_hits"`
	MonitorHitCount    map[string]int `json:"monitor_hit_count"`
	HashReplays        int            `json:"hash_replays"`
	TwinRuns           int            `json:"twin_runs"`
	TwinMismatches     []Disagreement `json:"twin_mismatches"`
	Distribution       map[string]int `json:"distribution"`
}

// runImpl executes a case against the real store, returning one output per line.
func runImpl(c Case, leveldb bool) []string {
	lines := c.Lines()
	out := make([]string, len(lines))
	var im *Impl
	for i, l := range lines {
		t := strings.Fields(l)
		if t[0] == "new" {
			var r, e, cy int64
			fmt.Sscanf(l, "new %d %d %d", &r, &e, &cy)
			im = NewImpl(r, e, cy, leveldb)
			out[i] = "ok"
			continue
		}
		out[i] = im.Exec(l)
	}
	if im != nil {
		im.Close()
	}
	return out
}

// RunDriver pipes all lines through the Lean model.
func RunDriver(driver string, engine string, lines []string) ([]string, error) {
	cmd := exec.Command(driver, engine)
	cmd.Stdin = strings.NewReader(strings.Join(lines, "\n") + "\n")
	var ob, eb bytes.Buffer
	cmd.Stdout = &ob
	cmd.Stderr = &eb
	if err := cmd.Run(); err != nil {
		return nil, fmt.Errorf("driver: %v: %s", err, eb.String())
	}
	res := strings.Split(strings.TrimSuffix(ob.String(), "\n"), "\n")
	if len(res) != len(lines) {
		return nil, fmt.Errorf("driver returned %d lines for %d inputs", len(res), len(lines))
	}
	return res, nil
}

func stripSuffix(s string) (head, tail string) {
	if strings.HasPrefix(s, "commit ") {
		p := strings.SplitN(s, " ", 3)
		if len(p) == 3 {
			return p[0] + " " + p[1], p[2]
		}
	}
	return s, ""
}

func nontrivial(ops []string) bool {
	w, rAfter, boundary := false, false, false
	for _, o := range ops {
		switch {
		case strings.HasPrefix(o, "set ") || strings.HasPrefix(o, "del "):
			w = true
		case isRead(o):
			if w {
				rAfter = true
			}
		case o == "csess" || o == "dsess" || o == "commit" || o == "reopen" || o == "write":
			if w {
				boundary = true
			}
		}
	}
	return w && rAfter && boundary
}

const Rule = "case = one op list on a fresh store (exhaustive: every sequence of the stated length over the 21-symbol alphabet " +
	"{set/del/get/has on 2 keys x {v1,v2,tombstone literal}, iter, begin, csess, dsess, write, commit, reopen, getv 1|2}; " +
	"random: weighted ops over 9 prefix-sharing keys, 8 rotation settings, optional gas limits); " +
	"non-trivial = contains a write, a later read, and a session/commit/reopen boundary after a write; distinct = SHA-256 of the op lines"

type Options struct {
	Driver        string
	Seed          uint64
	ExhaustiveLen int // 0 = none
	RandomCases   int
	GasCases      int
	LevelDBCases  int
	MaxLen        int
	Corpus        []Case
}

type compareCtx struct {
	res   *Result
	seen  map[[32]byte]bool
	batch []Case
	opt   Options
}

func (cc *compareCtx) flush(gas bool) error {
	if len(cc.batch) == 0 {
		return nil
	}
	var all []string
	starts := make([]int, len(cc.batch))
	impl := make([][]string, len(cc.batch))
	for i, c := range cc.batch {
		starts[i] = len(all)
		all = append(all, c.Lines()...)
		impl[i] = runImpl(c, false)
	}
	model, err := RunDriver(cc.opt.Driver, "kv", all)
	if err != nil {
		return err
	}
	for i, c := range cc.batch {
		lines := c.Lines()
		cc.res.Evaluations++
		cc.res.OpsExecuted += len(lines)
		h := sha256.Sum256([]byte(strings.Join(lines, "\n")))
		if !cc.seen[h] {
			cc.seen[h] = true
			if nontrivial(c.Ops) {
				cc.res.DistinctNontrivial++
			}
		}
		caseNo := cc.res.Evaluations
		// shadow IAVL tree for the "hash is a function of the write log" assumption
		shadow, _ := iavl.NewMutableTree(tmdb.NewDB("shadow", tmdb.MemDBBackend, ""), 100)
		mon := NewMonitor()
		monDead := false
		// (A) the property monitor runs on the implementation's outputs alone, on every line; also
		// on metered states, where a write or a read may be refused but a read must never answer
		// with another value than the most recent write in scope. State.Delete reports success
		// also when the meter refused it (outside of a session): the reference cannot follow from
		// there, so the monitor stops at the first such delete
		for j, l := range lines {
			if gas && mon.metered && mon.sess == nil && strings.HasPrefix(l, "del ") {
				monDead = true
			}
			if monDead {
				break
			}
			ih, _ := stripSuffix(impl[i][j])
			if hit := mon.Step(j, l, ih); hit != nil {
				cc.res.MonitorHitCount[hit.Signature]++
				n := 0
				for _, mh := range cc.res.MonitorHits {
					if mh.Signature == hit.Signature {
						n++
					}
				}
				if n < 5 && len(cc.res.MonitorHits) < 40 {
					cc.res.MonitorHits = append(cc.res.MonitorHits, MonitorHit{*hit, caseNo, lines})
				}
				monDead = true // the reference map is out of step after a hit
			}
		}
		// (B) correspondence: implementation vs Lean model, line by line
		for j, l := range lines {
			ih, it := stripSuffix(impl[i][j])
			mh, mt := stripSuffix(model[starts[i]+j])
			cc.res.Distribution[strings.Fields(l)[0]]++
			cc.res.Distribution["out:"+strings.Fields(ih + " x")[0]]++
			if ih != mh {
				cc.res.DisagreementCount++
				if len(cc.res.Disagreements) < 10 {
					cc.res.Disagreements = append(cc.res.Disagreements, Disagreement{"output", caseNo, j, l, impl[i][j], model[starts[i]+j], lines})
				}
				break
			}
			if strings.HasPrefix(ih, "commit ") {
				hh, err := ReplayLog(shadow, strings.TrimPrefix(mt, "log="))
				cc.res.HashReplays++
				if err != nil || "hash="+hex.EncodeToString(hh) != it {
					cc.res.DisagreementCount++
					if len(cc.res.Disagreements) < 10 {
						cc.res.Disagreements = append(cc.res.Disagreements, Disagreement{"hash", caseNo, j, l, it, mt + " => " + hex.EncodeToString(hh), lines})
					}
					break
				}
			}
		}
	}
	cc.batch = cc.batch[:0]
	return nil
}

// twin: the same case with all reads and discarded sessions erased must produce the same
// commit hashes (the property's last clause, observed on the implementation alone).
func (cc *compareCtx) twin(c Case, caseNo int) {
	full := runImpl(c, false)
	er := Case{New: c.New, Ops: EraseReads(c.Ops)}
	red := runImpl(er, false)
	var a, b []string
	for _, o := range full {
		if strings.HasPrefix(o, "commit ") {
			a = append(a, o)
		}
	}
	for _, o := range red {
		if strings.HasPrefix(o, "commit ") {
			b = append(b, o)
		}
	}
	cc.res.TwinRuns++
	if strings.Join(a, "|") != strings.Join(b, "|") {
		cc.res.MonitorHitCount["hash-depends-on-reads"]++
		if len(cc.res.TwinMismatches) < 5 {
			cc.res.TwinMismatches = append(cc.res.TwinMismatches, Disagreement{"twin-hash", caseNo, 0, "", strings.Join(a, "|"), strings.Join(b, "|"), c.Lines()})
			cc.res.MonitorHits = append(cc.res.MonitorHits, MonitorHit{Hit{"hash-depends-on-reads", 0, "", strings.Join(a, "|"), strings.Join(b, "|")}, caseNo, c.Lines()})
		}
	}
}

func Run(opt Options) (*Result, error) {
	res := &Result{Engine: "kv", Seed: opt.Seed, Rule: Rule, MonitorHitCount: map[string]int{}, Distribution: map[string]int{}}
	cc := &compareCtx{res: res, seen: map[[32]byte]bool{}, opt: opt}
	add := func(c Case, gas bool) error {
		cc.batch = append(cc.batch, c)
		if len(res.Samples) < 3 && nontrivial(c.Ops) && len(c.Ops) < 30 {
			res.Samples = append(res.Samples, c.Lines())
		}
		if len(cc.batch) >= 20000 {
			return cc.flush(gas)
		}
		return nil
	}
	for _, c := range opt.Corpus {
		if err := add(c, false); err != nil {
			return nil, err
		}
	}
	if err := cc.flush(false); err != nil {
		return nil, err
	}
	if opt.ExhaustiveLen > 0 {
		var err error
		for n := 1; n <= opt.ExhaustiveLen; n++ {
			Exhaustive(n, func(c Case) {
				if err == nil {
					err = add(c, false)
				}
			})
		}
		if err != nil {
			return nil, err
		}
		if err := cc.flush(false); err != nil {
			return nil, err
		}
		res.Exhaustive = true
		res.ExhaustiveLen = opt.ExhaustiveLen
	}
	r := rng.New(opt.Seed)
	for i := 0; i < opt.RandomCases; i++ {
		c := Random(r.Fork(), opt.MaxLen, false)
		if err := add(c, false); err != nil {
			return nil, err
		}
		if i%4 == 0 {
			cc.twin(c, i)
		}
	}
	if err := cc.flush(false); err != nil {
		return nil, err
	}
	for i := 0; i < opt.GasCases; i++ {
		if err := add(Random(r.Fork(), opt.MaxLen, true), true); err != nil {
			return nil, err
		}
	}
	if err := cc.flush(true); err != nil {
		return nil, err
	}
	// goleveldb on disk: same cases must give the same outputs as memdb (reopen is a real reopen)
	for i := 0; i < opt.LevelDBCases; i++ {
		c := Random(r.Fork(), opt.MaxLen, false)
		a := runImpl(c, false)
		b := runImpl(c, true)
		res.Distribution["leveldb_cases"]++
		if strings.Join(a, "\n") != strings.Join(b, "\n") {
			res.DisagreementCount++
			if len(res.Disagreements) < 10 {
				res.Disagreements = append(res.Disagreements, Disagreement{"memdb-vs-leveldb", i, 0, "", strings.Join(a, "|"), strings.Join(b, "|"), c.Lines()})
			}
		}
		if err := add(c, false); err != nil {
			return nil, err
		}
	}
	if err := cc.flush(false); err != nil {
		return nil, err
	}
	return res, nil
}

func WriteResult(path string, v interface{}) error {
	b, err := json.MarshalIndent(v, "", " ")
	if err != nil {
		return err
	}
	return ioutil.WriteFile(path, b, 0644)
}

// LoadCorpus reads every *.ops file of a directory as one case (first line "new …").
func LoadCorpus(dir string) []Case {
	var cs []Case
	fis, err := ioutil.ReadDir(dir)
	if err != nil {
		return nil
	}
	for _, fi := range fis {
		if !strings.HasSuffix(fi.Name(), ".ops") {
			continue
		}
		b, err := ioutil.ReadFile(dir + string(os.PathSeparator) + fi.Name())
		if err != nil {
			continue
		}
		var lines []string
		for _, l := range strings.Split(string(b), "\n") {
			l = strings.TrimSpace(l)
			if l == "" || strings.HasPrefix(l, "#") {
				continue
			}
			lines = append(lines, l)
		}
		if len(lines) > 0 && strings.HasPrefix(lines[0], "new ") {
			cs = append(cs, Case{New: lines[0], Ops: lines[1:]})
		}
	}
	return cs
}

// Package kv: correspondence harness for layer K (storage.State / sessionCache / GasStore /
// ChainState over real IAVL).  It executes op lines against the real code and prints the
// canonical output lines the Lean driver (`olpdriver kv`) must reproduce.
package kv

import (
	"bufio"
	"encoding/hex"
	"fmt"
	"io"
	"io/ioutil"
	"os"
	"strconv"
	"strings"

	"github.com/tendermint/iavl"
	tmdb "github.com/tendermint/tm-db"

	"github.com/Oneledger/protocol/config"
	"github.com/Oneledger/protocol/storage"
)

// Impl is one real store stack.
type Impl struct {
	db    tmdb.DB
	dir   string // non-empty for goleveldb
	cs    *storage.ChainState
	st    *storage.State
	gc    storage.GasCalculator
	rot   config.ChainStateRotationCfg
	level bool
}

func (im *Impl) Close() {
	if im.db != nil {
		im.db.Close()
	}
	if im.dir != "" {
		os.RemoveAll(im.dir)
	}
}

func NewImpl(recent, every, cycles int64, leveldb bool) *Impl {
	im := &Impl{level: leveldb}
	im.rot = config.ChainStateRotationCfg{Recent: recent, Every: every, Cycles: cycles}
	if leveldb {
		dir, err := ioutil.TempDir("", "olh-kv-")
		if err != nil {
			panic(err)
		}
		im.dir = dir
		db, err := storage.GetDatabase("chainstate", dir, "goleveldb")
		if err != nil {
			panic(err)
		}
		im.db = db
	} else {
		im.db = tmdb.NewDB("chainstate", tmdb.MemDBBackend, "")
	}
	im.open()
	return im
}

func (im *Impl) open() {
	im.cs = storage.NewChainState("chainstate", im.db)
	if err := im.cs.SetupRotation(im.rot); err != nil {
		panic(err)
	}
	im.st = storage.NewState(im.cs)
	im.gc = nil
}

func (im *Impl) reopen() {
	if im.level {
		im.db.Close()
		db, err := storage.GetDatabase("chainstate", im.dir, "goleveldb")
		if err != nil {
			panic(err)
		}
		im.db = db
	}
	im.open()
}

func hx(b []byte) string {
	if b == nil {
		return "~"
	}
	if len(b) == 0 {
		return "-"
	}
	return hex.EncodeToString(b)
}

func unhx(s string) []byte {
	if s == "~" {
		return nil
	}
	if s == "-" {
		return []byte{}
	}
	b, err := hex.DecodeString(s)
	if err != nil {
		panic("bad hex " + s)
	}
	return b
}

// valTok canonicalises a read result: nil and empty both mean "absent" for every caller in
// the repo (they test len()==0); the generator never stores empty values.
func valTok(b []byte) string {
	if len(b) == 0 {
		return "~"
	}
	return hex.EncodeToString(b)
}

// Exec runs one op line, returning the canonical output line.
func (im *Impl) Exec(line string) (out string) {
	defer func() {
		if r := recover(); r != nil {
			out = "panic"
		}
	}()
	t := strings.Fields(line)
	if len(t) == 0 {
		return ""
	}
	switch t[0] {
	case "state":
		if t[1] == "~" {
			im.st = storage.NewState(im.cs)
			im.gc = nil
		} else {
			l, _ := strconv.ParseInt(t[1], 10, 64)
			im.gc = storage.NewGasCalculator(storage.Gas(l))
			im.st = storage.NewState(im.cs).WithGas(im.gc)
		}
		return "ok"
	case "set":
		if err := im.st.Set(unhx(t[1]), unhx(t[2])); err != nil {
			if err == storage.ErrExceedGasLimit {
				return "err gas"
			}
			if err == storage.ErrReservedValue {
				return "err reserved"
			}
			return "err other"
		}
		return "ok"
	case "del":
		im.st.Delete(unhx(t[1]))
		return "ok"
	case "get":
		v, err := im.st.Get(unhx(t[1]))
		if err == storage.ErrExceedGasLimit {
			return "err gas"
		}
		if err != nil {
			return "err get"
		}
		return "val " + valTok(v)
	case "has":
		if im.st.Exists(unhx(t[1])) {
			return "bool 1"
		}
		return "bool 0"
	case "iter":
		var items []string
		im.st.IterateRange(unhx(t[1]), unhx(t[2]), t[3] == "1", func(k, v []byte) bool {
			items = append(items, hx(k)+"="+valTok(v))
			return false
		})
		if len(items) == 0 {
			return "list -"
		}
		return "list " + strings.Join(items, ",")
	case "itera":
		var items []string
		im.st.IterateRangeAll(unhx(t[1]), unhx(t[2]), t[3] == "1", func(k, v []byte) bool {
			items = append(items, hx(k)+"="+valTok(v))
			return false
		})
		if len(items) == 0 {
			return "list -"
		}
		return "list " + strings.Join(items, ",")
	case "begin":
		im.st.BeginTxSession()
		return "ok"
	case "csess":
		im.st.CommitTxSession()
		return "ok"
	case "dsess":
		im.st.DiscardTxSession()
		return "ok"
	case "write":
		im.st.Write()
		return "ok"
	case "commit":
		h, v := im.st.Commit()
		return fmt.Sprintf("commit %d hash=%s", v, hex.EncodeToString(h))
	case "reopen":
		im.reopen()
		return "ok"
	case "getv":
		ver, _ := strconv.ParseInt(t[1], 10, 64)
		return "val " + valTok(im.st.GetVersioned(ver, unhx(t[2])))
	case "gas":
		if im.gc == nil {
			return "gas 0"
		}
		return fmt.Sprintf("gas %d", im.gc.GetConsumed())
	}
	return "bad-op"
}

// RunFile executes an ops file (cases separated by "# case" lines, each starting with a
// "new r e c" line) and writes the impl output file.
func RunFile(ops io.Reader, out io.Writer, leveldb bool) error {
	sc := bufio.NewScanner(ops)
	sc.Buffer(make([]byte, 1<<20), 1<<24)
	w := bufio.NewWriter(out)
	defer w.Flush()
	var im *Impl
	defer func() {
		if im != nil {
			im.Close()
		}
	}()
	for sc.Scan() {
		line := sc.Text()
		if strings.HasPrefix(line, "#") {
			fmt.Fprintln(w, line)
			continue
		}
		t := strings.Fields(line)
		if len(t) == 0 {
			fmt.Fprintln(w, "")
			continue
		}
		if t[0] == "new" {
			if im != nil {
				im.Close()
			}
			r, _ := strconv.ParseInt(t[1], 10, 64)
			e, _ := strconv.ParseInt(t[2], 10, 64)
			c, _ := strconv.ParseInt(t[3], 10, 64)
			im = NewImpl(r, e, c, leveldb)
			fmt.Fprintln(w, "ok")
			continue
		}
		if im == nil {
			im = NewImpl(0, 0, 0, leveldb)
		}
		fmt.Fprintln(w, im.Exec(line))
	}
	return sc.Err()
}

// ReplayLog applies a model write-log delta ("s:k:v;r:k;S") to a shadow IAVL tree and returns
// the root hash after it (the log always ends in S for a commit line).
func ReplayLog(t *iavl.MutableTree, lg string) ([]byte, error) {
	var h []byte
	if lg == "-" {
		return t.Hash(), nil
	}
	for _, e := range strings.Split(lg, ";") {
		p := strings.Split(e, ":")
		switch p[0] {
		case "s":
			t.Set(unhx(p[1]), unhx(p[2]))
		case "r":
			t.Remove(unhx(p[1]))
		case "S":
			hh, _, err := t.SaveVersion()
			if err != nil {
				return nil, err
			}
			h = hh
		default:
			return nil, fmt.Errorf("bad log entry %q", e)
		}
	}
	return h, nil
}

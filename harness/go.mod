module olverif/harness

go 1.13

require (
	github.com/Oneledger/protocol v0.0.0
	github.com/btcsuite/btcd v0.20.1-beta
	github.com/ethereum/go-ethereum v1.10.8
	github.com/pkg/errors v0.9.1
	github.com/tendermint/go-amino v0.14.1
	github.com/tendermint/iavl v0.13.3
	github.com/tendermint/tendermint v0.33.3
	github.com/tendermint/tm-db v0.5.1
)

replace github.com/Oneledger/protocol => /repo

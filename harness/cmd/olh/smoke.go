package main

import (
	"fmt"
	"os"

	"github.com/Oneledger/protocol/action/transfer"

	"olverif/harness/apph"
)

func smoke() {
	out := apph.SilenceAppLogs()
	defer apph.Cleanup()
	w := apph.NewWorld(apph.SmallParams(1))
	r, err := apph.NewReplica(w, apph.Identity{Name: "n0", Val: w.Vals[0]})
	if err != nil {
		fmt.Fprintln(out, "new replica:", err)
		os.Exit(2)
	}
	ic := r.InitChain()
	fmt.Fprintln(out, "initchain validators:", len(ic.Validators), "crashed:", r.Crashed)
	sim := apph.NewSim(w)
	for i := 0; i < 6; i++ {
		var txs [][]byte
		if i == 1 {
			txs = append(txs, apph.Tx(&transfer.Send{From: w.Accts[0].Addr, To: w.Accts[1].Addr, Amount: apph.OLT(5)}, "m", w.Accts[0]))
		}
		b := sim.NextBlock(txs, apph.BlockOpts{})
		if i == 1 {
			c := r.CheckTx(txs[0])
			fmt.Fprintln(out, "checktx:", c.Code, c.Log)
		}
		res := r.ExecBlock(b)
		sim.Absorb(b, res)
		fmt.Fprintln(out, res.Transcript(), "crashed:", r.Crashed)
		for _, t := range res.Txs {
			fmt.Fprintln(out, "   tx log:", t.Log)
		}
	}
	fmt.Fprintln(out, "tm errors:", sim.TMErrors)
	d := r.Dump()
	fmt.Fprintln(out, "dump keys:", len(d))
	for _, kv := range d {
		k := string(kv[0])
		if len(k) > 60 {
			k = k[:60]
		}
		v := string(kv[1])
		if len(v) > 100 {
			v = v[:100]
		}
		fmt.Fprintf(out, "  %q = %q\n", k, v)
	}
	r.Close()
}

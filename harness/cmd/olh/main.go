// olh — the Go side of the correspondence checks (DESIGN §3): drives the real
// Oneledger/protocol code (built from /repo's working tree with -tags verif) and the Lean
// model's driver with the same inputs and reports where they differ.
package main

import (
	"flag"
	"fmt"
	"io/ioutil"
	"os"
	"path/filepath"
	"strings"

	"olverif/harness/apph"
	"olverif/harness/kv"
)

func main() {
	if len(os.Args) < 2 {
		fmt.Fprintln(os.Stderr, "usage: olh <engine> [flags]")
		os.Exit(2)
	}
	switch os.Args[1] {
	case "kv":
		fs := flag.NewFlagSet("kv", flag.ExitOnError)
		driver := fs.String("driver", "", "path to olpdriver")
		seed := fs.Uint64("seed", 1, "seed")
		exh := fs.Int("exhaustive", 0, "enumerate all sequences up to this length")
		rnd := fs.Int("random", 0, "random cases")
		gas := fs.Int("gas", 0, "random metered cases")
		ldb := fs.Int("leveldb", 0, "random cases also run on goleveldb")
		maxLen := fs.Int("maxlen", 60, "max random length")
		corpus := fs.String("corpus", "", "corpus dir")
		out := fs.String("out", "", "result json")
		replay := fs.String("replay", "", "replay one ops file")
		fs.Parse(os.Args[2:])
		opt := kv.Options{Driver: *driver, Seed: *seed, ExhaustiveLen: *exh, RandomCases: *rnd, GasCases: *gas, LevelDBCases: *ldb, MaxLen: *maxLen}
		if *corpus != "" {
			opt.Corpus = kv.LoadCorpus(*corpus)
		}
		if *replay != "" {
			f, err := os.Open(*replay)
			if err != nil {
				fmt.Fprintln(os.Stderr, err)
				os.Exit(2)
			}
			kv.RunFile(f, os.Stdout, false)
			return
		}
		res, err := kv.Run(opt)
		if err != nil {
			fmt.Fprintln(os.Stderr, "olh kv:", err)
			os.Exit(2)
		}
		if *out != "" {
			if err := kv.WriteResult(*out, res); err != nil {
				fmt.Fprintln(os.Stderr, err)
				os.Exit(2)
			}
		}
		fmt.Printf("kv: cases=%d nontrivial=%d ops=%d disagreements=%d monitor=%v twin=%d/%d hashreplays=%d\n",
			res.Evaluations, res.DistinctNontrivial, res.OpsExecuted, res.DisagreementCount, res.MonitorHitCount, len(res.TwinMismatches), res.TwinRuns, res.HashReplays)
	case "smoke":
		smoke()
	case "dumpkeys":
		dumpkeys(3)
	case "replay":
		fs := flag.NewFlagSet("replay", flag.ExitOnError)
		_ = fs.String("driver", "", "path to olpdriver")
		seed := fs.Uint64("seed", 1, "seed")
		hist := fs.Int("histories", 10, "histories")
		blocks := fs.Int("blocks", 10, "blocks per history")
		maxtx := fs.Int("maxtxs", 6, "max txs per block")
		out := fs.String("out", "", "result json")
		fs.Parse(os.Args[2:])
		stdout := apph.SilenceAppLogs()
		res, err := apph.RunReplay(*seed, *hist, *blocks, *maxtx)
		apph.Cleanup()
		if err != nil {
			fmt.Fprintln(stdout, "olh replay:", err)
			os.Exit(2)
		}
		if *out != "" {
			kv.WriteResult(*out, res)
		}
		fmt.Fprintf(stdout, "replay: cases=%d nontrivial=%d monitor=%v counters=%v\n", res.Evaluations, res.DistinctNontrivial, res.MonitorHitCount, res.Counters)
	case "gassweep":
		fs := flag.NewFlagSet("gassweep", flag.ExitOnError)
		_ = fs.String("driver", "", "path to olpdriver")
		seed := fs.Uint64("seed", 1, "seed")
		cases := fs.Int("cases", 6, "cases (warm-up history + sweeps)")
		warm := fs.Int("warm", 6, "warm-up blocks per case")
		targets := fs.Int("targets", 4, "swept transactions per case")
		only := fs.String("monitors", "", "comma separated signature prefixes to report (default all)")
		onlyCase := fs.Int("case", -1, "run this case only (replay: seed and case are in the header of the replay file)")
		out := fs.String("out", "", "result json")
		fs.Parse(os.Args[2:])
		stdout := apph.SilenceAppLogs()
		res, err := apph.RunGasSweep(*seed, *cases, *warm, *targets, *only, *onlyCase)
		apph.Cleanup()
		if err != nil {
			fmt.Fprintln(stdout, "olh gassweep:", err)
			os.Exit(2)
		}
		if *out != "" {
			kv.WriteResult(*out, res)
		}
		fmt.Fprintf(stdout, "gassweep: cases=%d nontrivial=%d monitor=%v counters=%v\n", res.Evaluations, res.DistinctNontrivial, res.MonitorHitCount, res.Counters)
	case "ledger", "ledger-direct":
		fs := flag.NewFlagSet(os.Args[1], flag.ExitOnError)
		_ = fs.String("driver", "", "path to olpdriver")
		seed := fs.Uint64("seed", 1, "seed")
		hist := fs.Int("histories", 10, "histories")
		blocks := fs.Int("blocks", 10, "blocks per history")
		maxtx := fs.Int("maxtxs", 6, "max txs per block")
		out := fs.String("out", "", "result json")
		fs.Parse(os.Args[2:])
		stdout := apph.SilenceAppLogs()
		res, err := apph.RunLedger(apph.LedgerOptions{Seed: *seed, Histories: *hist, Blocks: *blocks, MaxTxs: *maxtx, Direct: os.Args[1] == "ledger-direct"})
		apph.Cleanup()
		if err != nil {
			fmt.Fprintln(stdout, "olh ledger:", err)
			os.Exit(2)
		}
		if *out != "" {
			kv.WriteResult(*out, res)
		}
		fmt.Fprintf(stdout, "%s: cases=%d nontrivial=%d monitor=%v\n", os.Args[1], res.Evaluations, res.DistinctNontrivial, res.MonitorHitCount)
	case "sig":
		fs := flag.NewFlagSet("sig", flag.ExitOnError)
		_ = fs.String("driver", "", "path to olpdriver")
		seed := fs.Uint64("seed", 1, "seed")
		hist := fs.Int("histories", 10, "histories")
		blocks := fs.Int("blocks", 10, "blocks per history")
		maxtx := fs.Int("maxtxs", 6, "max txs per block")
		out := fs.String("out", "", "result json")
		fs.Parse(os.Args[2:])
		stdout := apph.SilenceAppLogs()
		res, err := apph.RunSig(*seed, *hist, *blocks, *maxtx)
		apph.Cleanup()
		if err != nil {
			fmt.Fprintln(stdout, "olh sig:", err)
			os.Exit(2)
		}
		if *out != "" {
			kv.WriteResult(*out, res)
		}
		fmt.Fprintf(stdout, "sig: cases=%d nontrivial=%d monitor=%v\n", res.Evaluations, res.DistinctNontrivial, res.MonitorHitCount)
	case "nocrash-child":
		fs := flag.NewFlagSet("nocrash-child", flag.ExitOnError)
		seed := fs.Uint64("seed", 1, "seed")
		fuzz := fs.Int("fuzz", 50, "fuzzed inputs")
		from := fs.Int("from", 0, "first input")
		fs.Parse(os.Args[2:])
		stdout := apph.SilenceAppLogs()
		apph.NoCrashChild(*seed, *fuzz, *from, stdout)
		apph.Cleanup()
	case "nocrash":
		fs := flag.NewFlagSet("nocrash", flag.ExitOnError)
		_ = fs.String("driver", "", "path to olpdriver")
		seed := fs.Uint64("seed", 1, "seed")
		seeds := fs.Int("seeds", 4, "number of child seeds")
		fuzz := fs.Int("fuzz", 60, "fuzzed inputs per seed")
		par := fs.Int("parallel", 8, "children in parallel")
		out := fs.String("out", "", "result json")
		fs.Parse(os.Args[2:])
		self, _ := os.Executable()
		res, err := apph.RunNoCrash(self, *seed, *seeds, *fuzz, *par)
		if err != nil {
			fmt.Println("olh nocrash:", err)
			os.Exit(2)
		}
		if *out != "" {
			kv.WriteResult(*out, res)
		}
		fmt.Printf("nocrash: cases=%d distinct=%d monitor=%v\n", res.Evaluations, res.DistinctNontrivial, res.MonitorHitCount)
	case "shell":
		fs := flag.NewFlagSet("shell", flag.ExitOnError)
		driver := fs.String("driver", "", "path to olpdriver")
		seed := fs.Uint64("seed", 1, "seed")
		hist := fs.Int("histories", 10, "histories")
		blocks := fs.Int("blocks", 10, "blocks per history")
		maxtx := fs.Int("maxtxs", 6, "max txs per block")
		out := fs.String("out", "", "result json")
		fs.Parse(os.Args[2:])
		stdout := apph.SilenceAppLogs()
		res, err := apph.RunShellTrace(*driver, *seed, *hist, *blocks, *maxtx)
		apph.Cleanup()
		if err != nil {
			fmt.Fprintln(stdout, "olh shell:", err)
			os.Exit(2)
		}
		if *out != "" {
			kv.WriteResult(*out, res)
		}
		fmt.Fprintf(stdout, "shell: cases=%d nontrivial=%d disagreements=%d counters=%v\n", res.Evaluations, res.DistinctNontrivial, res.DisagreementCount, res.Counters)
	case "ons":
		fs := flag.NewFlagSet("ons", flag.ExitOnError)
		driver := fs.String("driver", "", "path to olpdriver")
		seed := fs.Uint64("seed", 1, "seed")
		hist := fs.Int("histories", 10, "histories")
		blocks := fs.Int("blocks", 20, "blocks per history")
		maxtx := fs.Int("maxtxs", 5, "max txs per block")
		corpus := fs.String("corpus", "", "corpus dir (*.hist replayed first)")
		out := fs.String("out", "", "result json")
		replay := fs.String("replay", "", "replay one history file")
		debug := fs.Bool("debug", false, "print every op and log")
		fs.Parse(os.Args[2:])
		stdout := apph.SilenceAppLogs()
		if *replay != "" {
			rc := apph.ReplayOns(*driver, *replay, stdout)
			apph.Cleanup()
			os.Exit(rc)
		}
		res, err := apph.RunOns(apph.OnsOptions{Driver: *driver, Seed: *seed, Histories: *hist, Blocks: *blocks, MaxTxs: *maxtx, Corpus: *corpus, Debug: *debug})
		apph.Cleanup()
		if err != nil {
			fmt.Fprintln(stdout, "olh ons:", err)
			os.Exit(2)
		}
		if *out != "" {
			if err := kv.WriteResult(*out, res); err != nil {
				fmt.Fprintln(stdout, err)
				os.Exit(2)
			}
		}
		fmt.Fprintf(stdout, "ons: cases=%d nontrivial=%d disagreements=%d monitor=%v counters=%v\n", res.Evaluations, res.DistinctNontrivial, res.DisagreementCount, res.MonitorHitCount, res.Counters)
	case "funcs":
		fs := flag.NewFlagSet("funcs", flag.ExitOnError)
		driver := fs.String("driver", "", "path to olpdriver (olpfuncs<group> is taken from the same directory)")
		seed := fs.Uint64("seed", 1, "seed")
		group := fs.String("group", "02", "02 | 09 | 15 | 20")
		cases := fs.Int("cases", 4000, "calls")
		out := fs.String("out", "", "result json")
		fs.Parse(os.Args[2:])
		stdout := apph.SilenceAppLogs()
		exe := filepath.Join(filepath.Dir(*driver), "olpfuncs"+*group)
		res, err := apph.RunFuncs(apph.FuncsOptions{Driver: exe, Group: *group, Seed: *seed, Cases: *cases})
		apph.Cleanup()
		if err != nil {
			fmt.Fprintln(stdout, "olh funcs:", err)
			os.Exit(2)
		}
		if *out != "" {
			if err := kv.WriteResult(*out, res); err != nil {
				fmt.Fprintln(stdout, err)
				os.Exit(2)
			}
		}
		fmt.Fprintf(stdout, "funcs%s: cases=%d distinct=%d disagreements=%d\n", *group, res.Evaluations, res.DistinctNontrivial, res.DisagreementCount)
	case "bidm":
		fs := flag.NewFlagSet("bidm", flag.ExitOnError)
		driver := fs.String("driver", "", "path to olpdriver")
		seed := fs.Uint64("seed", 1, "seed")
		hist := fs.Int("histories", 40, "histories")
		blocks := fs.Int("blocks", 16, "blocks per history")
		maxtx := fs.Int("maxtxs", 6, "max txs per block")
		out := fs.String("out", "", "result json")
		debug := fs.Bool("debug", false, "print every op and log")
		fs.Parse(os.Args[2:])
		stdout := apph.SilenceAppLogs()
		res, err := apph.RunBidm(apph.BidmOptions{Driver: *driver, Seed: *seed, Histories: *hist, Blocks: *blocks, MaxTxs: *maxtx, Debug: *debug})
		apph.Cleanup()
		if err != nil {
			fmt.Fprintln(stdout, "olh bidm:", err)
			os.Exit(2)
		}
		if *out != "" {
			if err := kv.WriteResult(*out, res); err != nil {
				fmt.Fprintln(stdout, err)
				os.Exit(2)
			}
		}
		fmt.Fprintf(stdout, "bidm: cases=%d nontrivial=%d disagreements=%d monitor=%v counters=%v\n", res.Evaluations, res.DistinctNontrivial, res.DisagreementCount, res.MonitorHitCount, res.Counters)
	case "twin", "dropfailed", "inject", "crash":
		fs := flag.NewFlagSet(os.Args[1], flag.ExitOnError)
		_ = fs.String("driver", "", "path to olpdriver")
		seed := fs.Uint64("seed", 1, "seed")
		hist := fs.Int("histories", 10, "histories")
		blocks := fs.Int("blocks", 10, "blocks per history")
		maxtx := fs.Int("maxtxs", 6, "max txs per block")
		rep := fs.Int("repeats", 1, "repeats")
		out := fs.String("out", "", "result json")
		fs.Parse(os.Args[2:])
		stdout := apph.SilenceAppLogs()
		res, err := apph.RunTwin(apph.TwinOptions{Seed: *seed, Mode: apph.Mode(os.Args[1]), Histories: *hist, Blocks: *blocks, MaxTxs: *maxtx, Repeats: *rep})
		apph.Cleanup()
		if err != nil {
			fmt.Fprintln(stdout, "olh", os.Args[1], ":", err)
			os.Exit(2)
		}
		if *out != "" {
			if err := kv.WriteResult(*out, res); err != nil {
				fmt.Fprintln(stdout, err)
				os.Exit(2)
			}
		}
		fmt.Fprintf(stdout, "%s: cases=%d nontrivial=%d monitor=%v counters=%v\n", os.Args[1], res.Evaluations, res.DistinctNontrivial, res.MonitorHitCount, res.Counters)
	case "deleg":
		fs := flag.NewFlagSet("deleg", flag.ExitOnError)
		driver := fs.String("driver", "", "path to olpdriver")
		seed := fs.Uint64("seed", 1, "seed")
		hist := fs.Int("histories", 10, "histories")
		blocks := fs.Int("blocks", 16, "blocks per history")
		maxtx := fs.Int("maxtxs", 8, "max txs per block")
		iter := fs.Int("iter", 200, "range-iterator cases on the real pending stores")
		corpus := fs.String("corpus", "", "corpus dir (*.hist scripts, run first)")
		out := fs.String("out", "", "result json")
		replay := fs.String("replay", "", "re-execute one history script")
		fs.Parse(os.Args[2:])
		stdout := apph.SilenceAppLogs()
		if *replay != "" {
			rc, err := apph.ReplayDeleg(*driver, *replay, func(f string, a ...interface{}) { fmt.Fprintf(stdout, f, a...) })
			apph.Cleanup()
			if err != nil {
				fmt.Fprintln(stdout, "olh deleg:", err)
			}
			os.Exit(rc)
		}
		res, err := apph.RunDeleg(apph.DelegOptions{Driver: *driver, Seed: *seed, Histories: *hist, Blocks: *blocks, MaxTxs: *maxtx, IterCases: *iter, Corpus: *corpus})
		apph.Cleanup()
		if err != nil {
			fmt.Fprintln(stdout, "olh deleg:", err)
			os.Exit(2)
		}
		if *out != "" {
			if err := kv.WriteResult(*out, res); err != nil {
				fmt.Fprintln(stdout, err)
				os.Exit(2)
			}
		}
		fmt.Fprintf(stdout, "deleg: cases=%d nontrivial=%d disagreements=%d monitor=%v counters=%v\n", res.Evaluations, res.DistinctNontrivial, res.DisagreementCount, res.MonitorHitCount, res.Counters)
	case "ethtrk":
		fs := flag.NewFlagSet("ethtrk", flag.ExitOnError)
		driver := fs.String("driver", "", "path to olpdriver")
		seed := fs.Uint64("seed", 1, "seed")
		hist := fs.Int("histories", 10, "histories")
		blocks := fs.Int("blocks", 12, "blocks per history")
		maxtx := fs.Int("maxtxs", 6, "max txs per block")
		maxwit := fs.Int("maxwit", 4, "witness counts 1..maxwit (0 now and then)")
		exh := fs.Int("exhaustive", 0, "component part: all vote sequences up to this length")
		exhwit := fs.Int("exhwit", 4, "component part: witness counts 1..exhwit")
		only := fs.Int("only", -1000, "run only this case (>= 0 generated, -1.. scripted scenarios)")
		replay := fs.String("replay", "", "replay file written by ./check (re-runs the recorded case)")
		out := fs.String("out", "", "result json")
		fs.Parse(os.Args[2:])
		stdout := apph.SilenceAppLogs()
		opt := apph.EthOptions{Driver: *driver, Seed: *seed, Histories: *hist, Blocks: *blocks, MaxTxs: *maxtx, MaxWit: *maxwit, Exhaustive: *exh, ExhWit: *exhwit, Only: *only}
		if *replay != "" {
			if err := apph.EthReplayOptions(*replay, &opt); err != nil {
				fmt.Fprintln(stdout, "olh ethtrk:", err)
				os.Exit(2)
			}
		}
		res, err := apph.RunEthTrk(opt)
		apph.Cleanup()
		if err != nil {
			fmt.Fprintln(stdout, "olh ethtrk:", err)
			os.Exit(2)
		}
		if *out != "" {
			if err := kv.WriteResult(*out, res); err != nil {
				fmt.Fprintln(stdout, err)
				os.Exit(2)
			}
		}
		fmt.Fprintf(stdout, "ethtrk: cases=%d nontrivial=%d disagreements=%d monitor=%v counters=%v\n", res.Evaluations, res.DistinctNontrivial, res.DisagreementCount, res.MonitorHitCount, res.Counters)
		if *replay != "" {
			for _, h := range res.MonitorHits {
				fmt.Fprintf(stdout, "MONITOR %s: %s\n", h.Signature, h.Detail)
			}
			for _, d := range res.Disagreements {
				fmt.Fprintf(stdout, "DISAGREEMENT %s\n  op    %s\n  impl  %s\n  model %s\n", d.Kind, d.Op, d.Impl, d.Model)
			}
			if len(res.MonitorHits) > 0 || res.DisagreementCount > 0 {
				os.Exit(1)
			}
		}
	case "stake":
		fs := flag.NewFlagSet("stake", flag.ExitOnError)
		driver := fs.String("driver", "", "path to olpdriver")
		seed := fs.Uint64("seed", 1, "seed")
		hist := fs.Int("histories", 10, "histories")
		blocks := fs.Int("blocks", 20, "blocks per history")
		maxtx := fs.Int("maxtxs", 5, "max txs per block")
		corpus := fs.String("corpus", "", "corpus dir (*.script run first)")
		replay := fs.String("replay", "", "replay one script file")
		out := fs.String("out", "", "result json")
		fs.Parse(os.Args[2:])
		stdout := apph.SilenceAppLogs()
		if *replay != "" {
			rc := apph.ReplayStake(*driver, *replay, stdout)
			apph.Cleanup()
			os.Exit(rc)
		}
		res, err := apph.RunStake(apph.StakeOptions{Driver: *driver, Seed: *seed, Histories: *hist, Blocks: *blocks, MaxTxs: *maxtx, Corpus: *corpus})
		apph.Cleanup()
		if err != nil {
			fmt.Fprintln(stdout, "olh stake:", err)
			os.Exit(2)
		}
		if *out != "" {
			kv.WriteResult(*out, res)
		}
		fmt.Fprintf(stdout, "stake: cases=%d nontrivial=%d disagreements=%d monitor=%v counters=%v\n", res.Evaluations, res.DistinctNontrivial, res.DisagreementCount, res.MonitorHitCount, res.Counters)
	case "rewards":
		fs := flag.NewFlagSet("rewards", flag.ExitOnError)
		driver := fs.String("driver", "", "path to olpdriver")
		seed := fs.Uint64("seed", 1, "seed")
		hist := fs.Int("histories", 10, "histories")
		blocks := fs.Int("blocks", 30, "blocks per history")
		maxtx := fs.Int("maxtxs", 4, "max txs per block")
		only := fs.Int("case", -1, "run only this case")
		verbose := fs.Bool("v", false, "print every correspondence line")
		replay := fs.String("replay", "", "replay file written by ./check (re-executes the case it names)")
		out := fs.String("out", "", "result json")
		fs.Parse(os.Args[2:])
		stdout := apph.SilenceAppLogs()
		var res *apph.Result
		var err error
		if *replay != "" {
			res, err = apph.ReplayRewards(*driver, *replay)
		} else {
			res, err = apph.RunRewards(apph.RewardsOptions{Driver: *driver, Seed: *seed, Histories: *hist, Blocks: *blocks, MaxTxs: *maxtx, OnlyCase: *only, Verbose: *verbose})
		}
		apph.Cleanup()
		if err != nil {
			fmt.Fprintln(stdout, "olh rewards:", err)
			os.Exit(2)
		}
		if *out != "" {
			kv.WriteResult(*out, res)
		}
		fmt.Fprintf(stdout, "rewards: cases=%d nontrivial=%d disagreements=%d monitor=%v counters=%v\n", res.Evaluations, res.DistinctNontrivial, res.DisagreementCount, res.MonitorHitCount, res.Counters)
		for _, h := range res.MonitorHits {
			fmt.Fprintf(stdout, "HIT %s case %d: %s\n", h.Signature, h.Case, h.Detail)
		}
		for _, d := range res.Disagreements {
			fmt.Fprintf(stdout, "DISAGREE case %d: %s\n", d.Case, d.Op)
		}
		if *replay != "" && (len(res.MonitorHits) > 0 || res.DisagreementCount > 0) {
			os.Exit(1)
		}
	case "olvm":
		fs := flag.NewFlagSet("olvm", flag.ExitOnError)
		driver := fs.String("driver", "", "path to olpdriver")
		seed := fs.Uint64("seed", 1, "seed")
		hist := fs.Int("histories", 10, "histories")
		blocks := fs.Int("blocks", 10, "blocks per history")
		maxtx := fs.Int("maxtxs", 6, "max txs per block")
		only := fs.Int("only", -1, "run only this case")
		out := fs.String("out", "", "result json")
		replay := fs.String("replay", "", "replay file written by ./check (its header names seed and case)")
		fs.Parse(os.Args[2:])
		stdout := apph.SilenceAppLogs()
		opt := apph.OlvmOptions{Driver: *driver, Seed: *seed, Histories: *hist, Blocks: *blocks, MaxTxs: *maxtx, Only: *only}
		if *replay != "" {
			if err := apph.OlvmReplayOptions(*replay, &opt); err != nil {
				fmt.Fprintln(stdout, "olh olvm:", err)
				os.Exit(2)
			}
		}
		res, err := apph.RunOlvm(opt)
		apph.Cleanup()
		if err != nil {
			fmt.Fprintln(stdout, "olh olvm:", err)
			os.Exit(2)
		}
		if *out != "" {
			kv.WriteResult(*out, res)
		}
		fmt.Fprintf(stdout, "olvm: cases=%d nontrivial=%d disagreements=%d monitor=%v counters=%v\n", res.Evaluations, res.DistinctNontrivial, res.DisagreementCount, res.MonitorHitCount, res.Counters)
		if *replay != "" || *only >= 0 {
			apph.OlvmPrintFindings(stdout, res)
			if len(res.MonitorHits) > 0 || res.DisagreementCount > 0 {
				os.Exit(1)
			}
		}
	case "olvm-smoke":
		stdout := apph.SilenceAppLogs()
		apph.OlvmSmoke(stdout)
		apph.Cleanup()
	case "sigm":
		fs := flag.NewFlagSet("sigm", flag.ExitOnError)
		driver := fs.String("driver", "", "path to olpdriver")
		seed := fs.Uint64("seed", 1, "seed")
		rawN := fs.Int("raw", 2000, "RawTx serialisation cases")
		vbN := fs.Int("vb", 3000, "ValidateBasic cases")
		olvmN := fs.Int("olvm", 0, "OLVM transactions offered to CheckTx (fork-family chain)")
		out := fs.String("out", "", "result json")
		replay := fs.String("replay", "", "replay the op lines of one file")
		corpus := fs.String("corpus", "", "corpus directory (*.ops run first)")
		fs.Parse(os.Args[2:])
		stdout := apph.SilenceAppLogs()
		if *replay != "" {
			b, err := ioutil.ReadFile(*replay)
			if err != nil {
				fmt.Fprintln(stdout, err)
				os.Exit(2)
			}
			bad, err := apph.ReplaySigm(*driver, strings.Split(string(b), "\n"), func(s string) { fmt.Fprintln(stdout, s) })
			apph.Cleanup()
			if err != nil {
				fmt.Fprintln(stdout, "olh sigm -replay:", err)
				os.Exit(2)
			}
			fmt.Fprintf(stdout, "replay: %d disagreement(s) / monitor hit(s)\n", bad)
			if bad > 0 {
				os.Exit(1)
			}
			return
		}
		res, err := apph.RunSigm(apph.SigmOptions{Corpus: *corpus, Driver: *driver, Seed: *seed, RawCases: *rawN, VBCases: *vbN, OlvmCases: *olvmN})
		apph.Cleanup()
		if err != nil {
			fmt.Fprintln(stdout, "olh sigm:", err)
			os.Exit(2)
		}
		if *out != "" {
			kv.WriteResult(*out, res)
		}
		fmt.Fprintf(stdout, "sigm: cases=%d nontrivial=%d disagreements=%d monitor=%v\n", res.Evaluations, res.DistinctNontrivial, res.DisagreementCount, res.MonitorHitCount)
	case "alleg":
		fs := flag.NewFlagSet("alleg", flag.ExitOnError)
		driver := fs.String("driver", "", "path to olpdriver")
		seed := fs.Uint64("seed", 1, "seed")
		hist := fs.Int("histories", 10, "histories")
		blocks := fs.Int("blocks", 20, "blocks per history")
		maxtx := fs.Int("maxtxs", 6, "max txs per block")
		out := fs.String("out", "", "result json")
		replay := fs.String("replay", "", "replay one stored history")
		fs.Parse(os.Args[2:])
		stdout := apph.SilenceAppLogs()
		if *replay != "" {
			rc := apph.ReplayAlleg(*driver, *replay, stdout)
			apph.Cleanup()
			os.Exit(rc)
		}
		res, err := apph.RunAlleg(apph.AllegOptions{Driver: *driver, Seed: *seed, Histories: *hist, Blocks: *blocks, MaxTxs: *maxtx})
		apph.Cleanup()
		if err != nil {
			fmt.Fprintln(stdout, "olh alleg:", err)
			os.Exit(2)
		}
		if *out != "" {
			kv.WriteResult(*out, res)
		}
		fmt.Fprintf(stdout, "alleg: cases=%d nontrivial=%d disagreements=%d monitor=%v counters=%v\n", res.Evaluations, res.DistinctNontrivial, res.DisagreementCount, res.MonitorHitCount, res.Counters)
	case "gov":
		fs := flag.NewFlagSet("gov", flag.ExitOnError)
		driver := fs.String("driver", "", "path to olpdriver")
		seed := fs.Uint64("seed", 1, "seed")
		hist := fs.Int("histories", 10, "histories")
		blocks := fs.Int("blocks", 20, "blocks per history")
		maxtx := fs.Int("maxtxs", 6, "max txs per block")
		out := fs.String("out", "", "result json")
		replay := fs.String("replay", "", "re-execute the history recorded in a replay file")
		fs.Parse(os.Args[2:])
		stdout := apph.SilenceAppLogs()
		res, err := apph.RunGov(apph.GovOptions{Driver: *driver, Seed: *seed, Histories: *hist, Blocks: *blocks, MaxTxs: *maxtx, Replay: *replay})
		apph.Cleanup()
		if err != nil {
			fmt.Fprintln(stdout, "olh gov:", err)
			os.Exit(2)
		}
		if *out != "" {
			kv.WriteResult(*out, res)
		}
		fmt.Fprintf(stdout, "gov: cases=%d nontrivial=%d disagreements=%d monitor=%v counters=%v\n", res.Evaluations, res.DistinctNontrivial, res.DisagreementCount, res.MonitorHitCount, res.Counters)
		if *replay != "" {
			for _, h := range res.MonitorHits {
				fmt.Fprintf(stdout, "  %s: %s\n", h.Signature, h.Detail)
			}
			for _, d := range res.Disagreements {
				fmt.Fprintf(stdout, "  disagreement %s\n    impl  %s\n    model %s\n", d.Op, d.Impl, d.Model)
			}
			if len(res.MonitorHits) > 0 || res.DisagreementCount > 0 {
				os.Exit(1)
			}
		}
	case "elect":
		fs := flag.NewFlagSet("elect", flag.ExitOnError)
		driver := fs.String("driver", "", "path to olpdriver")
		seed := fs.Uint64("seed", 1, "seed")
		hist := fs.Int("histories", 10, "generated histories (the scripted ones always run)")
		blocks := fs.Int("blocks", 20, "blocks per history")
		maxtx := fs.Int("maxtxs", 4, "max txs per block")
		heapc := fs.Int("heap", 300, "random heap cases (the exhaustive small ones always run)")
		out := fs.String("out", "", "result json")
		replay := fs.String("replay", "", "replay one history file")
		corpus := fs.String("corpus", "", "directory of *.replay histories run first")
		fs.Parse(os.Args[2:])
		stdout := apph.SilenceAppLogs()
		res, err := apph.RunElect(apph.ElectOptions{Corpus: *corpus, Driver: *driver, Seed: *seed, Histories: *hist, Blocks: *blocks, MaxTxs: *maxtx, HeapCases: *heapc, Replay: *replay})
		apph.Cleanup()
		if err != nil {
			fmt.Fprintln(stdout, "olh elect:", err)
			os.Exit(2)
		}
		if *out != "" {
			kv.WriteResult(*out, res)
		}
		fmt.Fprintf(stdout, "elect: cases=%d nontrivial=%d disagreements=%d monitor=%v counters=%v\n", res.Evaluations, res.DistinctNontrivial, res.DisagreementCount, res.MonitorHitCount, res.Counters)
		if *replay != "" {
			for _, h := range res.MonitorHits {
				fmt.Fprintf(stdout, "  monitor %s: %s\n", h.Signature, h.Detail)
			}
			for _, d := range res.Disagreements {
				fmt.Fprintf(stdout, "  disagreement %s\n    op    %s\n    impl  %s\n    model %s\n", d.Kind, d.Op, d.Impl, d.Model)
			}
			if len(res.MonitorHits) > 0 || res.DisagreementCount > 0 {
				os.Exit(1)
			}
		}
	case "evm":
		fs := flag.NewFlagSet("evm", flag.ExitOnError)
		driver := fs.String("driver", "", "path to olpdriver")
		seed := fs.Uint64("seed", 1, "seed")
		cases := fs.Int("cases", 200, "interface-op cases")
		maxops := fs.Int("maxops", 40, "max ops per case")
		progs := fs.Int("programs", 50, "bytecode program cases")
		out := fs.String("out", "", "result json")
		replay := fs.String("replay", "", "replay one ops file")
		corpus := fs.String("corpus", "", "corpus dir")
		fs.Parse(os.Args[2:])
		stdout := apph.SilenceAppLogs()
		if *replay != "" {
			rc := apph.ReplayEvm(*driver, *replay, stdout)
			apph.Cleanup()
			os.Exit(rc)
		}
		res, err := apph.RunEvm(apph.EvmOptions{Driver: *driver, Seed: *seed, OpCases: *cases, MaxOps: *maxops, Programs: *progs, Corpus: *corpus})
		apph.Cleanup()
		if err != nil {
			fmt.Fprintln(stdout, "olh evm:", err)
			os.Exit(2)
		}
		if *out != "" {
			kv.WriteResult(*out, res)
		}
		fmt.Fprintln(stdout, apph.EvSummary(res))
	default:
		fmt.Fprintln(os.Stderr, "unknown engine", os.Args[1])
		os.Exit(2)
	}
}

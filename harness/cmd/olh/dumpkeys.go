package main

import (
	"fmt"
	"sort"
	"strings"

	"olverif/harness/apph"
	"olverif/harness/rng"
)

// dumpkeys: run one busy history and print one sample per key shape (development aid).
func dumpkeys(seed uint64) {
	out := apph.SilenceAppLogs()
	defer apph.Cleanup()
	r := rng.New(seed)
	p := apph.SmallParams(seed)
	p.NVals, p.TopValidators = 4, 4
	w := apph.NewWorld(p)
	A, _ := apph.NewReplica(w, apph.Identity{Name: "A", Val: w.Vals[0]})
	A.InitChain()
	sim := apph.NewSim(w)
	g := apph.NewGen(w, r.Fork())
	for i := 0; i < 30; i++ {
		g.Height = sim.Height + 1
		var txs [][]byte
		for j := 0; j < 8; j++ {
			txs = append(txs, g.Next(apph.AllWeights()).Bytes)
		}
		b := sim.NextBlock(txs, apph.BlockOpts{})
		res := A.ExecBlock(b)
		sim.Absorb(b, res)
	}
	shapes := map[string]string{}
	for _, kv := range A.Dump() {
		k := string(kv[0])
		// shape: replace hex runs / addresses by placeholders
		parts := strings.Split(k, "_")
		for i, p := range parts {
			if strings.HasPrefix(p, "0lt") {
				parts[i] = "<addr>"
			} else if len(p) >= 20 {
				parts[i] = "<id>"
			} else if len(p) > 0 && p[0] >= '0' && p[0] <= '9' {
				parts[i] = "<n>"
			}
		}
		sh := strings.Join(parts, "_")
		if len(sh) > 40 {
			sh = fmt.Sprintf("%q", sh[:40])
		}
		if _, ok := shapes[sh]; !ok {
			v := string(kv[1])
			if len(v) > 160 {
				v = v[:160]
			}
			shapes[sh] = fmt.Sprintf("%q = %s", k, v)
		}
	}
	var ks []string
	for k := range shapes {
		ks = append(ks, k)
	}
	sort.Strings(ks)
	for _, k := range ks {
		fmt.Fprintf(out, "%-42s %s\n", k, shapes[k])
	}
	A.Close()
}

package apph

// C11 engine: focused generator, script replay, correspondence with the Lean model.

import (
	"crypto/sha256"
	"fmt"
	"io/ioutil"
	"math/big"
	"os"
	"path/filepath"
	"sort"
	"strings"

	"olverif/harness/kv"
	"olverif/harness/rng"
)

type StakeOptions struct {
	Driver    string
	Seed      uint64
	Histories int
	Blocks    int
	MaxTxs    int
	Corpus    string
}

func bigS(s string) *big.Int {
	n, ok := new(big.Int).SetString(s, 10)
	if !ok {
		panic(s)
	}
	return n
}

// amounts that are hostile but do not crash the node: around the int64 boundary of
// Amount.ToCoinWithBase (Value.Int64() * 10^18), of both signs
var hostileAmounts = []*big.Int{
	bigS("9223372036854775807"), bigS("9223372036854775808"), bigS("18446744073709551615"), bigS("18446744073709551616"),
	bigS("18446744073709551617"), bigS("18446744073709551621"), bigS("-1"), bigS("-18446744073709551615"), bigS("-18446744073709551611"),
	bigS("36893488147419103233"),
}

func stakeParams(r *rng.R, seed uint64) Params {
	p := SmallParams(seed)
	p.NVals = 2 + r.Intn(2)
	p.NCandidates = 1 + r.Intn(2)
	p.NAccts = 1
	p.TopValidators = int64(2 + r.Intn(3))
	p.MinSelfDeleg = int64(1 + r.Intn(6))
	p.StakeMaturity = int64(1 + r.Intn(3))
	p.BlockVotesDiff = int64(2 + r.Intn(2))
	p.MinVotesReq = int64(1 + r.Intn(2))
	p.ReleaseTimeDays = 0
	p.RewardInterval = 1
	p.Witnesses = 0
	for i := 0; i < p.NVals; i++ {
		p.GenesisStake = append(p.GenesisStake, int64(6+r.Intn(10)))
	}
	return p
}

// stakeGen chooses the commands of the next block from the last committed view.
type stakeGen struct {
	R       *rng.R
	E       *stakeExec
	Huge    bool // this history also tries amounts outside int64 (all refused since 9ac9bcb)
	Alleg   bool
	reqs    []int // request numbers created so far
	nextReq int
	victim  int // index in the Tendermint set that stays absent for a while (missed-vote freeze)
	victimT int
}

func (g *stakeGen) stakeAddrIdx(s *sview, vi int) int {
	a := g.E.A
	if rec := s.Vals[a.vRank(vi)]; rec != nil {
		for i := range a.Dels {
			if a.dRank(i) == rec.SA {
				return i
			}
		}
	}
	if vi < len(a.W.Vals) {
		return vi // the owner account of that validator identity
	}
	return g.R.Intn(len(a.Dels))
}

func (g *stakeGen) amount(base *big.Int) *big.Int {
	r := g.R
	if g.Huge && r.Intn(4) == 0 {
		return new(big.Int).Set(hostileAmounts[r.Intn(len(hostileAmounts))])
	}
	b := int64(0)
	if base != nil && base.IsInt64() {
		b = base.Int64()
	}
	switch r.Intn(10) {
	case 0:
		return big.NewInt(b) // exactly everything (may be 0)
	case 1:
		return big.NewInt(b + 1) // one too many
	case 2, 3:
		if b > 1 {
			return big.NewInt(1 + int64(r.Intn(int(b))))
		}
	case 4:
		if r.Intn(6) == 0 {
			return big.NewInt(0)
		}
	}
	return big.NewInt(int64(1 + r.Intn(12)))
}

func (g *stakeGen) next(maxTxs int) (sb stakeBlock) {
	r, e := g.R, g.E
	a := e.A
	s := e.prev
	h := e.Sim.Height + 1
	sb = stakeBlock{Dt: int64(1 + r.Intn(5)), SetMaturity: -1}
	if h >= 3 && r.Intn(9) == 0 {
		sb.SetMaturity = int64(r.Intn(4))
	}
	// absences: a victim stays away long enough to be frozen for missed votes
	if g.victimT > 0 {
		sb.Absent = append(sb.Absent, g.victim)
		g.victimT--
	} else if r.Intn(8) == 0 {
		g.victim = r.Intn(e.P.NVals + 1)
		g.victimT = 2 + r.Intn(4)
	}
	nReal := len(a.Vals) - 1 // the last identity never stakes (stays a non-existent validator)
	n := r.Intn(maxTxs + 1)
	defer func() {
		for i := range sb.Cmds {
			if sb.Cmds[i].Amt != nil && r.Intn(5) == 0 {
				sb.Cmds[i].Force = true
			}
		}
	}()
	for i := 0; i < n; i++ {
		x := r.Intn(100)
		switch {
		case x < 28:
			vi := r.Intn(nReal)
			di := g.stakeAddrIdx(s, vi)
			if r.Intn(4) == 0 {
				di = r.Intn(len(a.Dels))
			}
			sb.Cmds = append(sb.Cmds, stakeCmd{Kind: "stake", V: vi, D: di, Amt: g.amount(nil)})
		case x < 58:
			vi := r.Intn(nReal)
			di := g.stakeAddrIdx(s, vi)
			if r.Intn(8) == 0 {
				di = r.Intn(len(a.Dels))
			}
			amt := g.amount(bzv(s.VD, a.vRank(vi), a.dRank(di)))
			if r.Intn(7) == 0 && bzv(s.VD, a.vRank(vi), a.dRank(di)).Sign() > 0 {
				// everything unstaked and, in the same block, a stake under another stake address:
				// the old one still has the amount of this block waiting for maturity
				sb.Cmds = append(sb.Cmds, stakeCmd{Kind: "unstake", V: vi, D: di, Amt: new(big.Int).Set(bzv(s.VD, a.vRank(vi), a.dRank(di)))})
				sb.Cmds = append(sb.Cmds, stakeCmd{Kind: "stake", V: vi, D: r.Intn(len(a.Dels)), Amt: g.amount(nil), Force: true})
				continue
			}
			sb.Cmds = append(sb.Cmds, stakeCmd{Kind: "unstake", V: vi, D: di, Amt: amt})
		case x < 84:
			di := r.Intn(len(a.Dels))
			// prefer delegators that have something unlocked or maturing
			for t := 0; t < 3 && bz(s.Bnd, a.dRank(di)).Sign() == 0; t++ {
				di = r.Intn(len(a.Dels))
			}
			vi := r.Intn(len(a.Vals))
			for t := 0; t < 4; t++ {
				if rec := s.Vals[a.vRank(vi)]; rec != nil && rec.SA == a.dRank(di) {
					break
				}
				vi = r.Intn(len(a.Vals))
			}
			sb.Cmds = append(sb.Cmds, stakeCmd{Kind: "withdraw", V: vi, D: di, Amt: g.amount(bz(s.Bnd, a.dRank(di)))})
		default:
			if !g.Alleg {
				// releases of validators frozen for missed votes
				sb.Cmds = append(sb.Cmds, stakeCmd{Kind: "release", V: r.Intn(nReal)})
				continue
			}
			switch y := r.Intn(10); {
			case y < 3 || len(g.reqs) == 0:
				g.nextReq++
				g.reqs = append(g.reqs, g.nextReq)
				sb.Cmds = append(sb.Cmds, stakeCmd{Kind: "allege", V: r.Intn(nReal), D: r.Intn(nReal), ID: g.nextReq})
			case y < 8:
				id := g.reqs[len(g.reqs)-1-r.Intn(min(len(g.reqs), 2))]
				ch := 1
				if r.Intn(5) == 0 {
					ch = 2
				}
				// all validators vote so that a verdict is reached
				for vi := 0; vi < nReal; vi++ {
					if r.Intn(4) != 0 {
						sb.Cmds = append(sb.Cmds, stakeCmd{Kind: "vote", V: vi, ID: id, Choice: ch})
					}
				}
			default:
				sb.Cmds = append(sb.Cmds, stakeCmd{Kind: "release", V: r.Intn(nReal)})
			}
		}
	}
	return sb
}

const stakeRule = "case = one generated block history on the real application (2-3 genesis validators + 1-2 candidates + one never-staking identity, their owners + 1 account as delegators, staking maturity 1-3 with option changes to 0-3, 20+ blocks so that every maturity height is crossed; STAKE/UNSTAKE/WITHDRAW with boundary amounts (everything, one too many, 0) and, in a quarter of the histories, amounts around +-2^63/2^64; unstakes down to zero and restakes onto powerless records, stakes under another stake address; allegations with votes reaching verdicts, releases, missed-vote freezes), every tx offered to CheckTx first and delivered when admitted (one refused staking tx in five is delivered anyway, as a proposer may); the property monitors run on the decoded stake records after every BeginBlock/DeliverTx/EndBlock/Commit and every begin/tx/end step is re-run statelessly by the Lean model; non-trivial = at least one unstake reached maturity and was credited, one WITHDRAW succeeded and one guarded branch (frozen / insufficient / address in use / purge rule / pending allegation) rejected an operation; distinct = SHA-256 of the script lines"

// RunStake is the C11 engine.
func RunStake(opt StakeOptions) (*Result, error) {
	res := NewResult("stake", opt.Seed, stakeRule)
	res.Samples = [][]string{} // never null in the result file, also when no history is non-trivial
	res.MonitorHits = []Hit{}
	res.Disagreements = []Disagreement{}
	seen := map[[32]byte]bool{}
	finish := func(e *stakeExec, nontriv bool) error {
		defer e.Close()
		res.Evaluations++
		hs := sha256.Sum256([]byte(strings.Join(e.Script, "\n")))
		if !seen[hs] {
			seen[hs] = true
			if nontriv {
				res.DistinctNontrivial++
			}
		}
		if len(res.Samples) < 2 && nontriv {
			res.Samples = append(res.Samples, shortAll(e.Script[:min(len(e.Script), 40)]))
		}
		res.Counters["steps"] += len(e.Ops)
		if len(e.Ops) == 0 {
			return nil
		}
		model, err := kv.RunDriver(opt.Driver, "stake", e.Ops)
		if err != nil {
			return err
		}
		for i := range e.Ops {
			if model[i] != e.Impl[i] {
				res.DisagreementCount++
				if len(res.Disagreements) < 5 {
					res.Disagreements = append(res.Disagreements, Disagreement{"stake-step", e.Case, e.Ops[i], e.Impl[i], model[i], append([]string{}, e.Script...)})
				}
				break
			}
			res.Counters["steps_agreed"]++
		}
		TruncateAppLog()
		return nil
	}
	// corpus first
	if opt.Corpus != "" {
		files, _ := filepath.Glob(filepath.Join(opt.Corpus, "*.script"))
		sort.Strings(files)
		for i, f := range files {
			b, err := ioutil.ReadFile(f)
			if err != nil {
				return nil, err
			}
			e, err := runStakeScript(strings.Split(string(b), "\n"), -1-i, res)
			if err != nil {
				return nil, fmt.Errorf("%s: %v", f, err)
			}
			res.Counters["corpus_scripts"]++
			if err := finish(e, e.nontrivial()); err != nil {
				return nil, err
			}
		}
	}
	root := rng.New(opt.Seed*131 + 11)
	for c := 0; c < opt.Histories; c++ {
		r := root.Fork()
		p := stakeParams(r, opt.Seed*1000+uint64(c))
		e, err := newStakeExec(p, c, res)
		if err != nil {
			return nil, err
		}
		g := &stakeGen{R: r.Fork(), E: e}
		switch c % 4 {
		case 0:
			g.Huge = true
			res.Counters["histories_with_int64_boundary_amounts"]++
		case 1, 2:
			g.Alleg = true
			res.Counters["histories_with_allegations"]++
		}
		for b := 0; b < opt.Blocks && !e.stopped; b++ {
			sb := g.next(opt.MaxTxs)
			if tf := os.Getenv("OLH_STAKE_TRACE"); tf != "" {
				// debugging aid: the script so far plus the block about to run, in case the
				// application exits the process
				var ab []string
				for _, i := range sb.Absent {
					ab = append(ab, fmt.Sprint(i))
				}
				nb := []string{fmt.Sprintf("block dt=%d absent=%s setmaturity=%d", sb.Dt, strings.Join(ab, ","), sb.SetMaturity)}
				for _, c := range sb.Cmds {
					nb = append(nb, c.String())
				}
				ioutil.WriteFile(tf, []byte(fmt.Sprintf("# case %d\n%s\n%s\n", c, strings.Join(e.Script, "\n"), strings.Join(nb, "\n"))), 0644)
			}
			if err := e.Block(sb); err != nil {
				e.Close()
				return nil, fmt.Errorf("case %d: %v\n%s", c, err, strings.Join(e.Script, "\n"))
			}
		}
		if err := finish(e, e.nontrivial()); err != nil {
			return nil, err
		}
	}
	return res, nil
}

func (e *stakeExec) nontrivial() bool {
	return e.nUnlock > 0 && e.nWithdrawOK > 0 && e.nGuarded > 0
}

// runStakeScript executes a script (corpus file or replay).
func runStakeScript(lines []string, c int, res *Result) (*stakeExec, error) {
	var e *stakeExec
	var cur *stakeBlock
	flush := func() error {
		if cur != nil && e != nil && !e.stopped {
			if err := e.Block(*cur); err != nil {
				return err
			}
		}
		cur = nil
		return nil
	}
	for _, raw := range lines {
		line := strings.TrimSpace(raw)
		if line == "" || strings.HasPrefix(line, "#") {
			continue
		}
		f := strings.Fields(line)
		switch f[0] {
		case "params":
			m := stakeKVArgs(f[1:])
			p := SmallParams(uint64(stakeAtoi(m["seed"])))
			p.NVals, p.NCandidates, p.NAccts = stakeAtoi(m["nvals"]), stakeAtoi(m["ncand"]), stakeAtoi(m["naccts"])
			p.TopValidators, p.MinSelfDeleg, p.StakeMaturity = int64(stakeAtoi(m["top"])), int64(stakeAtoi(m["minself"])), int64(stakeAtoi(m["maturity"]))
			p.BlockVotesDiff, p.MinVotesReq, p.ReleaseTimeDays = int64(stakeAtoi(m["vdiff"])), int64(stakeAtoi(m["minvotes"])), int64(stakeAtoi(m["release"]))
			p.RewardInterval, p.Witnesses = 1, 0
			if gs, ok := m["genesisstake"]; ok && gs != "" {
				for _, x := range strings.Split(gs, ",") {
					p.GenesisStake = append(p.GenesisStake, int64(stakeAtoi(x)))
				}
			}
			var err error
			e, err = newStakeExec(p, c, res)
			if err != nil {
				return nil, err
			}
			e.Script = e.Script[:0]
			e.Script = append(e.Script, line)
			e.Scripted = true
		case "block":
			if e == nil {
				return nil, fmt.Errorf("script: block before params")
			}
			if err := flush(); err != nil {
				return e, err
			}
			m := stakeKVArgs(f[1:])
			cur = &stakeBlock{Dt: int64(stakeAtoi(m["dt"])), SetMaturity: -1}
			if v, ok := m["setmaturity"]; ok {
				cur.SetMaturity = int64(stakeAtoi(v))
			}
			if m["absent"] != "" {
				for _, x := range strings.Split(m["absent"], ",") {
					cur.Absent = append(cur.Absent, stakeAtoi(x))
				}
			}
		case "tx":
			if cur == nil {
				return nil, fmt.Errorf("script: tx before block")
			}
			cmd, err := parseStakeCmd(line)
			if err != nil {
				return nil, err
			}
			cur.Cmds = append(cur.Cmds, cmd)
		default:
			return nil, fmt.Errorf("script: unknown line %q", line)
		}
	}
	if e == nil {
		return nil, fmt.Errorf("script: no params line")
	}
	if err := flush(); err != nil {
		return e, err
	}
	return e, nil
}

// ReplayStake re-executes a replay / corpus file and prints what happens; exit code 1 when a
// monitor fires or the model disagrees.
func ReplayStake(driver, path string, out *os.File) int {
	b, err := ioutil.ReadFile(path)
	if err != nil {
		fmt.Fprintln(out, err)
		return 2
	}
	res := NewResult("stake", 0, stakeRule)
	e, err := runStakeScript(strings.Split(string(b), "\n"), 0, res)
	if err != nil {
		fmt.Fprintln(out, "replay:", err)
		return 2
	}
	defer e.Close()
	rc := 0
	var model []string
	if driver != "" && len(e.Ops) > 0 {
		model, err = kv.RunDriver(driver, "stake", e.Ops)
		if err != nil {
			fmt.Fprintln(out, "replay:", err)
			return 2
		}
	}
	for i := range e.Ops {
		fmt.Fprintln(out, "op   ", e.Ops[i])
		fmt.Fprintln(out, "impl ", e.Impl[i])
		if model != nil {
			if model[i] != e.Impl[i] {
				fmt.Fprintln(out, "model", model[i], "   <-- DISAGREEMENT")
				rc = 1
			}
		}
	}
	for _, h := range res.MonitorHits {
		fmt.Fprintf(out, "MONITOR %s: %s\n", h.Signature, h.Detail)
		rc = 1
	}
	fmt.Fprintf(out, "replay: steps=%d monitor=%v distribution=%v\n", len(e.Ops), res.MonitorHitCount, res.Distribution)
	return rc
}

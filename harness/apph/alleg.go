package apph

// C19 — allegations: verdicts follow votes, frozen stays frozen, penalties bounded.
//
// Engine `alleg`: generated block histories (allegation / vote / release / stake / unstake /
// withdraw transactions by active validators, candidates, frozen validators and outsiders;
// concurrent allegations; changing active sets; block times around the release time) executed
// on the real application through ABCI.
//   * MONITOR (independent of the Lean model): a reference tally and a frozen-validator ledger
//     evaluated on the decoded state views (allegMonitor, alleg_monitor.go).
//   * CORRESPONDENCE: every allegation-related step (BeginBlock freeze check, each transaction,
//     the election pass and the tally of EndBlock) is written as one stateless line = decoded
//     pre-state records + operation; the Lean model (olpdriver alleg) must print the
//     implementation's result code and post-state records.

import (
	"crypto/sha256"
	"encoding/hex"
	"encoding/json"
	"fmt"
	"io/ioutil"
	"math"
	"math/big"
	"os"
	"sort"
	"strconv"
	"strings"

	abci "github.com/tendermint/tendermint/abci/types"
	"github.com/tendermint/tendermint/crypto/ed25519"

	"github.com/Oneledger/protocol/action"
	aevid "github.com/Oneledger/protocol/action/evidence"
	"github.com/Oneledger/protocol/action/staking"
	"github.com/Oneledger/protocol/action/transfer"
	"github.com/Oneledger/protocol/consensus"
	"github.com/Oneledger/protocol/data/evidence"
	"github.com/Oneledger/protocol/serialize"

	"olverif/harness/kv"
	"olverif/harness/rng"
)

var bountyAddr = []byte("oneledgerBountyProgram")

// ---------------------------------------------------------------- world

// AllegWorld builds a world whose evidence options are the given ones (NewWorld hard-codes them).
func AllegWorld(p Params, eo evidence.Options) *World {
	w := NewWorld(p)
	w.State.Governance.EvidenceOptions = eo
	gd, err := consensus.NewGenesisDoc(w.ChainID, w.State)
	if err != nil {
		panic(err)
	}
	gd.GenesisTime = w.GenesisTime
	gd.Validators = w.Genesis.Validators
	gd.ForkParams = w.Genesis.ForkParams
	gd.ConsensusParams.Block.MaxGas = p.MaxGas
	w.Genesis = gd
	return w
}

func allegParams(r *rng.R, seed uint64) (Params, evidence.Options) {
	p := SmallParams(seed)
	p.NVals = 4 + r.Intn(4)
	p.NCandidates = 1 + r.Intn(2)
	p.NAccts = 3
	p.TopValidators = int64(p.NVals - 1 + r.Intn(3))
	p.MinSelfDeleg = int64(1 + r.Intn(3))
	p.StakeMaturity = int64(1 + r.Intn(2))
	p.BlockVotesDiff = int64(2 + r.Intn(3))
	p.MinVotesReq = 1
	if r.Intn(3) == 0 {
		// the cumulative count covers BlockVotesDiff blocks: leave room for one or two misses
		p.BlockVotesDiff = int64(3 + r.Intn(2))
		p.MinVotesReq = int64(2 + r.Intn(int(p.BlockVotesDiff)-2))
	}
	p.ReleaseTimeDays = int64(r.Intn(3))
	if p.ReleaseTimeDays == 2 && r.Bool() {
		p.ReleaseTimeDays = 1
	}
	// boundary stakes: products with the penalty percentages below land on x.5, x.49, x.51
	pool := []int64{5, 15, 25, 35, 2, 6, 10, 50, 150, 17, 33, 83, 117, 1000, 999, 1001, 123457, 45, 55, 65, 20, 30, 7, 13}
	for i := 0; i < p.NVals+p.NCandidates; i++ {
		p.GenesisStake = append(p.GenesisStake, pool[r.Intn(len(pool))])
	}
	pick := func(xs []int64) int64 { return xs[r.Intn(len(xs))] }
	eo := evidence.Options{MinVotesRequired: p.MinVotesReq, BlockVotesDiff: p.BlockVotesDiff,
		PenaltyBasePercentage: pick([]int64{30, 30, 10, 25, 33, 40, 15}), PenaltyBaseDecimals: 100,
		PenaltyBountyPercentage: pick([]int64{50, 50, 0, 100, 13}), PenaltyBountyDecimals: 100,
		PenaltyBurnPercentage: 50, PenaltyBurnDecimals: 100, ValidatorReleaseTime: p.ReleaseTimeDays,
		ValidatorVotePercentage: pick([]int64{50, 50, 60, 67, 75, 100}), ValidatorVoteDecimals: 100,
		AllegationPercentage: pick([]int64{50, 50, 50, 25, 75, 60, 70, 80, 90, 40}), AllegationDecimals: 100}
	if r.Intn(4) == 0 { // same shares with four decimal digits (e.g. 13.43 % stored as 1343)
		eo.PenaltyBaseDecimals, eo.PenaltyBasePercentage = 10000, eo.PenaltyBasePercentage*100+int64(r.Intn(3))*25
		eo.PenaltyBountyDecimals, eo.PenaltyBountyPercentage = 10000, 1343
		eo.ValidatorVoteDecimals, eo.ValidatorVotePercentage = 10000, eo.ValidatorVotePercentage*100
	}
	return p, eo
}

// ---------------------------------------------------------------- transactions

// aTx is a transaction of the engine, described by what its bytes say (decoded, so that a
// replayed history needs nothing but the bytes).
type aTx struct {
	GenTx
	Op        string // allege vote release stake unstake withdraw other
	Signer    string // the payload's own validator-ish address field (reporter / voter / validator)
	Val       string
	StakeAddr string
	Accused   string
	ID        string
	Choice    int64
	BH        int64
	Amount    *big.Int
	SigOK     bool
}

func decodeATx(b []byte) aTx {
	t := aTx{GenTx: GenTx{Bytes: b}, Op: "other", Amount: new(big.Int)}
	st := &action.SignedTx{}
	if err := serialize.GetSerializer(serialize.NETWORK).Deserialize(b, st); err != nil {
		return t
	}
	t.Kind = st.Type.String()
	var msg action.Msg
	switch st.Type {
	case action.ALLEGATION:
		m := &aevid.Allegation{}
		if m.Unmarshal(st.Data) == nil {
			t.Op, t.Signer, t.Accused, t.ID, t.BH = "allege", hex.EncodeToString(m.ValidatorAddress), hex.EncodeToString(m.MaliciousAddress), m.RequestID, m.BlockHeight
			msg = m
		}
	case action.ALLEGATION_VOTE:
		m := &aevid.AllegationVote{}
		if m.Unmarshal(st.Data) == nil {
			t.Op, t.Signer, t.ID, t.Choice = "vote", hex.EncodeToString(m.Address), m.RequestID, int64(m.Choice)
			msg = m
		}
	case action.RELEASE:
		m := &aevid.Release{}
		if m.Unmarshal(st.Data) == nil {
			t.Op, t.Signer = "release", hex.EncodeToString(m.ValidatorAddress)
			msg = m
		}
	case action.STAKE:
		m := &staking.Stake{}
		if m.Unmarshal(st.Data) == nil {
			t.Op, t.Val, t.StakeAddr, t.Amount = "stake", hex.EncodeToString(m.ValidatorAddress), hex.EncodeToString(m.StakeAddress), m.Stake.Value.BigInt()
			msg = m
		}
	case action.UNSTAKE:
		m := &staking.Unstake{}
		if m.Unmarshal(st.Data) == nil {
			t.Op, t.Val, t.StakeAddr, t.Amount = "unstake", hex.EncodeToString(m.ValidatorAddress), hex.EncodeToString(m.StakeAddress), m.Stake.Value.BigInt()
			msg = m
		}
	case action.WITHDRAW:
		m := &staking.Withdraw{}
		if m.Unmarshal(st.Data) == nil {
			t.Op, t.Val, t.StakeAddr, t.Amount = "withdraw", hex.EncodeToString(m.ValidatorAddress), hex.EncodeToString(m.StakeAddress), m.Stake.Value.BigInt()
			msg = m
		}
	}
	if msg != nil {
		t.SigOK = action.ValidateBasic(st.RawBytes(), msg.Signers(), st.Signatures) == nil
		if t.Signer == "" {
			t.Signer = t.Val
		}
	}
	return t
}

// ---------------------------------------------------------------- generator

type allegGen struct {
	*Gen
	eo     evidence.Options
	nextID int
	lazy   int // index of the validator that tends to miss blocks (-1 none)
}

func (g *allegGen) valByAddr(a string) *Val {
	for _, v := range g.W.Vals {
		if hex.EncodeToString(v.Key.Addr) == a {
			return v
		}
	}
	return nil
}

func (g *allegGen) pickVal(st *AState, pred func(v *Val, a string) bool) *Val {
	var c []*Val
	for _, v := range g.W.Vals {
		a := hex.EncodeToString(v.Key.Addr)
		if pred(v, a) {
			c = append(c, v)
		}
	}
	if len(c) == 0 {
		return nil
	}
	return c[g.R.Intn(len(c))]
}

func (g *allegGen) anyVal() *Val { return g.W.Vals[g.R.Intn(len(g.W.Vals))] }

func (g *allegGen) tx(kind, note string, msg action.Msg, signers ...*Acct) aTx {
	raw := RawOf(msg, DefaultFee(), g.nextMemo())
	g.Kinds[kind]++
	t := decodeATx(Sign(raw, signers...))
	t.Note = note
	return t
}

func (g *allegGen) allege(st *AState) aTx {
	note := "active"
	rep := g.pickVal(st, func(v *Val, a string) bool { return st.isActive(a) })
	switch x := g.R.Intn(20); {
	case x < 2:
		rep, note = g.pickVal(st, func(v *Val, a string) bool { return !st.isActive(a) }), "inactive-reporter"
	case x < 3:
		rep, note = g.pickVal(st, func(v *Val, a string) bool { return st.isFrozen(a) }), "frozen-reporter"
	case x < 5:
		// an outsider: an ordinary account signs with its own key
		o := g.acct()
		acc := g.anyVal()
		id := g.newID()
		return g.tx("ALLEGATION", "outsider-reporter", &aevid.Allegation{RequestID: id, ValidatorAddress: o.Addr, MaliciousAddress: acc.Key.Addr, BlockHeight: g.Height - 1, ProofMsg: "p"}, o)
	}
	if rep == nil {
		rep = g.anyVal()
	}
	open := map[string]bool{}
	for _, q := range st.Reqs {
		open[q.Accused] = true
	}
	acc := g.pickVal(st, func(v *Val, a string) bool { return !open[a] && !st.isFrozen(a) && v != rep })
	accAddr := []byte(nil)
	switch x := g.R.Intn(20); {
	case x < 1:
		acc, note = rep, note+"/self"
	case x < 3:
		acc, note = g.pickVal(st, func(v *Val, a string) bool { return open[a] }), note+"/already-accused"
	case x < 5:
		acc, note = g.pickVal(st, func(v *Val, a string) bool { return st.isFrozen(a) }), note+"/frozen-accused"
	case x < 6:
		accAddr, note = g.acct().Addr, note+"/outsider-accused"
	case x < 8:
		acc, note = g.pickVal(st, func(v *Val, a string) bool { return st.Vals[a] == nil }), note+"/unstaked-candidate-accused"
	}
	if accAddr == nil {
		if acc == nil {
			acc = g.anyVal()
		}
		accAddr = acc.Key.Addr
	}
	id := g.newID()
	switch x := g.R.Intn(20); {
	case x < 2 && len(st.Reqs) > 0:
		ids := sortedKeys(st.Reqs)
		id, note = ids[g.R.Intn(len(ids))], note+"/busy-id"
	case x < 3:
		id, note = "", note+"/empty-id"
	}
	if g.R.Intn(25) == 0 {
		// signed by a key that is not the reporter's
		return g.tx("ALLEGATION", note+"/wrong-signer", &aevid.Allegation{RequestID: id, ValidatorAddress: rep.Key.Addr, MaliciousAddress: accAddr, BlockHeight: g.Height - 1, ProofMsg: "p"}, g.acct())
	}
	bh := g.Height - 1
	if g.R.Intn(12) == 0 {
		bh, note = g.Height+int64(1+g.R.Intn(3)), note+"/future-height"
	} else if g.R.Intn(6) == 0 {
		bh = g.Height
	}
	return g.tx("ALLEGATION", note, &aevid.Allegation{RequestID: id, ValidatorAddress: rep.Key.Addr, MaliciousAddress: accAddr, BlockHeight: bh, ProofMsg: "p"}, rep.Key)
}

func (g *allegGen) newID() string {
	g.nextID++
	// ids of different lengths and cases so that the sorted processing order differs from creation order
	forms := []string{"req-%d", "R%d", "a-%d", "zz%d", "%d"}
	return fmt.Sprintf(forms[g.R.Intn(len(forms))], g.nextID)
}

func (g *allegGen) vote(st *AState) aTx {
	ids := sortedKeys(st.Reqs)
	if len(ids) == 0 {
		return g.allege(st)
	}
	id := ids[g.R.Intn(len(ids))]
	q := st.Reqs[id]
	voted := map[string]bool{}
	for _, v := range q.Votes {
		voted[v.Addr] = true
	}
	ch := int8(1)
	if g.R.Intn(100) < 40 {
		ch = 2
	}
	note := "active"
	voter := g.pickVal(st, func(v *Val, a string) bool { return st.isActive(a) && !voted[a] && !st.isFrozen(a) })
	switch x := g.R.Intn(40); {
	case x < 4:
		voter, note = g.pickVal(st, func(v *Val, a string) bool { return voted[a] }), "duplicate"
	case x < 7:
		voter, note = g.pickVal(st, func(v *Val, a string) bool { return !st.isActive(a) }), "inactive-voter"
	case x < 9:
		voter, note = g.pickVal(st, func(v *Val, a string) bool { return st.isFrozen(a) }), "frozen-voter"
	case x < 12:
		o := g.acct()
		return g.tx("ALLEGATION_VOTE", "outsider-voter", &aevid.AllegationVote{RequestID: id, Address: o.Addr, Choice: ch}, o)
	case x < 14:
		id, note = "nope-"+id, "unknown-id"
	case x < 17:
		ch, note = []int8{0, 3, -1}[g.R.Intn(3)], "bad-choice"
	case x < 18:
		// signed by a key that is not the voter's
		if voter != nil {
			return g.tx("ALLEGATION_VOTE", "wrong-signer", &aevid.AllegationVote{RequestID: id, Address: voter.Key.Addr, Choice: ch}, g.acct())
		}
	}
	if voter == nil {
		voter = g.anyVal()
		note += "/fallback"
	}
	return g.tx("ALLEGATION_VOTE", note, &aevid.AllegationVote{RequestID: id, Address: voter.Key.Addr, Choice: ch}, voter.Key)
}

func (g *allegGen) release(st *AState) aTx {
	v := g.pickVal(st, func(v *Val, a string) bool { return st.isFrozen(a) })
	note := "frozen"
	if v == nil || g.R.Intn(5) == 0 {
		v, note = g.anyVal(), "maybe-not-frozen"
	}
	if g.R.Intn(10) == 0 {
		o := g.acct()
		return g.tx("RELEASE", "outsider", &aevid.Release{ValidatorAddress: o.Addr}, o)
	}
	if g.R.Intn(15) == 0 {
		return g.tx("RELEASE", note+"/wrong-signer", &aevid.Release{ValidatorAddress: v.Key.Addr}, g.acct())
	}
	return g.tx("RELEASE", note, &aevid.Release{ValidatorAddress: v.Key.Addr}, v.Key)
}

func (g *allegGen) stakeOps(st *AState) aTx {
	v := g.anyVal()
	note := "any"
	if f := g.pickVal(st, func(v *Val, a string) bool { return st.isFrozen(a) }); f != nil && g.R.Intn(100) < 45 {
		v, note = f, "frozen"
	} else if g.R.Intn(4) == 0 {
		if c := g.pickVal(st, func(v *Val, a string) bool { return st.Vals[a] == nil }); c != nil {
			v, note = c, "candidate"
		}
	}
	a := hex.EncodeToString(v.Key.Addr)
	n := int64(1 + g.R.Intn(12))
	switch x := g.R.Intn(10); {
	case x < 4 || note == "candidate":
		if note == "candidate" {
			n = int64(5 + g.R.Intn(60))
		}
		return g.tx("STAKE", note, &staking.Stake{ValidatorAddress: v.Key.Addr, StakeAddress: v.Owner.Addr, ValidatorPubKey: v.Key.Pub,
			ValidatorECDSAPubKey: v.EcPub, NodeName: v.Name, Stake: OLTInt(n)}, v.Owner, v.Key)
	case x < 7:
		// never unstake down to zero: EndBlock deletes a zero-power validator record together with
		// whatever was staked to it in the meantime, after which a full unstake drives the power
		// negative and the fee distribution ends in logger.Fatal (a C10/C11/C18 matter that would
		// take the harness process down with it)
		t := st.Total[a]
		if t == nil || t.Int64() <= 1 {
			return g.tx("STAKE", note, &staking.Stake{ValidatorAddress: v.Key.Addr, StakeAddress: v.Owner.Addr, ValidatorPubKey: v.Key.Pub,
				ValidatorECDSAPubKey: v.EcPub, NodeName: v.Name, Stake: OLTInt(n)}, v.Owner, v.Key)
		}
		if g.R.Intn(4) == 0 || n >= t.Int64() {
			// unstake (almost) everything: the validator leaves the active set
			n = t.Int64() - int64(1+g.R.Intn(2))
			if n <= 0 {
				n = 1
			}
		}
		return g.tx("UNSTAKE", note, &staking.Unstake{ValidatorAddress: v.Key.Addr, StakeAddress: v.Owner.Addr, Stake: OLTInt(n)}, v.Owner, v.Key)
	case x < 9:
		if b := st.DB[hex.EncodeToString(v.Owner.Addr)]; b != nil && b.Sign() > 0 {
			n = 1 + int64(g.R.Intn(int(b.Int64())))
		}
		return g.tx("WITHDRAW", note, &staking.Withdraw{ValidatorAddress: v.Key.Addr, StakeAddress: v.Owner.Addr, Stake: OLTInt(n)}, v.Owner, v.Key)
	default:
		// the stake account withdraws naming an address that is no validator (both keys are the owner's friends)
		o := g.acct()
		if b := st.DB[hex.EncodeToString(v.Owner.Addr)]; b != nil && b.Sign() > 0 {
			n = 1 + int64(g.R.Intn(int(b.Int64())))
		}
		return g.tx("WITHDRAW", note+"/foreign-validator-address", &staking.Withdraw{ValidatorAddress: o.Addr, StakeAddress: v.Owner.Addr, Stake: OLTInt(n)}, v.Owner, o)
	}
}

func (g *allegGen) next(st *AState) aTx {
	switch x := g.R.Intn(100); {
	case x < 18:
		return g.allege(st)
	case x < 60:
		return g.vote(st)
	case x < 70:
		return g.release(st)
	case x < 96:
		return g.stakeOps(st)
	default:
		a, b := g.acct(), g.acct()
		return g.tx("SEND", "filler", &transfer.Send{From: a.Addr, To: b.Addr, Amount: OLT(int64(1 + g.R.Intn(9)))}, a)
	}
}

func (g *allegGen) blockOpts(nvals int) BlockOpts {
	o := BlockOpts{DtSeconds: int64(1 + g.R.Intn(5))}
	if g.eo.ValidatorReleaseTime > 0 {
		switch g.R.Intn(7) {
		case 0:
			o.DtSeconds = 86400
		case 1:
			o.DtSeconds = 86399
		case 2:
			o.DtSeconds = 43200
		case 3:
			o.DtSeconds = 86401
		}
	}
	if g.lazy >= 0 && g.R.Intn(10) < 7 {
		o.Absent = map[int]bool{g.lazy: true}
	} else if g.R.Intn(6) == 0 {
		o.Absent = map[int]bool{g.R.Intn(nvals + 1): true}
	}
	return o
}

// ---------------------------------------------------------------- float expressions of the tally
// (the expressions of ExecuteAllegationTracker, evaluated by the Go runtime; the Lean model takes
// their values as parameters and the theorems assume they agree with exact rationals)

func fRequired(active, vp, vd int64) int {
	return int(math.Ceil(float64(active) * float64(vp) / float64(vd)))
}

func fGuilty(yes, required int, ap, ad int64) bool {
	yesP := float64(yes) / float64(required)
	percentage := float64(ap) / float64(ad)
	return yesP > percentage
}

func fInnocent(no, required int, ap, ad int64) bool {
	noP := float64(no) / float64(required)
	percentage := float64(ap) / float64(ad)
	return noP > 1-percentage
}

func fPenalty(stake *big.Int, bp, bd int64) *big.Int {
	x := new(big.Float).Mul(new(big.Float).SetInt(stake), big.NewFloat(float64(bp)))
	x = new(big.Float).Quo(x, big.NewFloat(float64(bd)))
	x.Add(x, new(big.Float).SetFloat64(0.5))
	p, _ := x.Int(nil)
	return p
}

// exact-rational versions (the reference of the monitor and of the Lean theorems)
func xRequired(active, vp, vd int64) int64 { return (active*vp + vd - 1) / vd }
func xGuilty(yes, required, ap, ad int64) bool {
	return yes*ad > ap*required
}
func xInnocent(no, required, ap, ad int64) bool {
	return no*ad > (ad-ap)*required
}
func xPenalty(stake *big.Int, bp, bd int64) *big.Int {
	n := new(big.Int).Mul(stake, big.NewInt(2*bp))
	n.Add(n, big.NewInt(bd))
	return n.Div(n, big.NewInt(2*bd))
}

const voteTable = 12

// ---------------------------------------------------------------- one history

type allegRun struct {
	w         *World
	eo        evidence.Options
	A         *Replica
	sim       *Sim
	res       *Result
	c         int
	hl        *HistoryLog
	lines     []string
	impl      []string
	committed map[string]string
	cst       *AState // decoded committed state
	mon       *allegMonitor
	pub2addr  map[string]string
	verdicts  int
	guards    int
	okTx      int
}

func newAllegRun(w *World, eo evidence.Options, res *Result, c int, hl *HistoryLog) (*allegRun, error) {
	A, err := NewReplica(w, Identity{Name: "A", Val: w.Vals[0]})
	if err != nil {
		return nil, err
	}
	A.InitChain()
	x := &allegRun{w: w, eo: eo, A: A, sim: NewSim(w), res: res, c: c, hl: hl, pub2addr: map[string]string{}}
	for _, v := range w.Vals {
		pk := v.Key.tm.PubKey().(ed25519.PubKeyEd25519)
		x.pub2addr[string(pk[:])] = hex.EncodeToString(v.Key.Addr)
	}
	x.committed = A.DumpMap()
	x.cst = DecodeAState(x.committed, bountyAddr)
	x.mon = newAllegMonitor(x)
	return x, nil
}

func (x *allegRun) view() *AState {
	return DecodeAState(alViewOf(x.committed, pendingOf(x.A.App.VerifDeliverState())), bountyAddr)
}

func (x *allegRun) emit(line, impl string) {
	x.lines = append(x.lines, line)
	x.impl = append(x.impl, impl)
}

func alB01(b bool) int {
	if b {
		return 1
	}
	return 0
}

// classify maps a DeliverTx response of an allegation-related transaction to the result enum.
func classify(op string, tr TxResult) string {
	if tr.Code == 0 {
		return "ok"
	}
	l := tr.Log
	has := func(s string) bool { return strings.Contains(l, s) }
	switch op {
	case "allege":
		switch {
		case has("error invalid height"):
			return "invalidHeight"
		case has("error frozen validator"):
			return "frozen"
		case has("non active validator"):
			return "nonActive"
		case has("address incorrect"):
			return "selfAccused"
		case has("failed to create allegation request") && has("already handled"):
			return "idBusy"
		case has("failed to create allegation request") && has("already exists"):
			return "exists"
		}
	case "vote":
		switch {
		case has("error frozen validator"):
			return "frozen"
		case has("non active validator"):
			return "nonActive"
		case has("not found"):
			return "voteNotFound"
		case has("Invalid choice"):
			return "badChoice"
		case has("closed requet"):
			return "closed"
		case has("already voted"):
			return "dupVote"
		}
	case "release":
		switch {
		case has("failed to handle release") && has("not found"):
			return "suspNotFound"
		case has("already released"):
			return "alreadyReleased"
		case has("could be released after"):
			return "tooEarly"
		case has("not ready for release"):
			return "notReady"
		case has("Unsupported status"):
			return "unsupported"
		}
	case "stake", "unstake", "withdraw":
		switch {
		case has("error frozen validator"):
			return "frozen"
		case has("allegation request already exists"):
			return "openRequest"
		}
		return "otherFailure"
	}
	return "rejected"
}

func (x *allegRun) optTok() string {
	o := x.eo
	return fmt.Sprintf("o=%d/%d/%d/%d/%d/%d/%d/%d", o.ValidatorVotePercentage, o.ValidatorVoteDecimals, o.AllegationPercentage, o.AllegationDecimals,
		o.PenaltyBasePercentage, o.PenaltyBaseDecimals, o.PenaltyBountyPercentage, o.PenaltyBountyDecimals)
}

// popOrder replays InitValidatorQueue on the committed validator records (key order, the
// repo's own priority queue and container/heap) and returns the order GetEndBlockUpdate pops them.
func popOrder(vals map[string]*aVal) []string {
	return heapPopOrder(vals)
}

// execBlock runs one block with monitor and correspondence lines. The transactions are asked
// for one at a time so that a generator can look at the view left by the previous one.
func (x *allegRun) execBlock(nextTx func(i int, view *AState) *aTx, bo BlockOpts) bool {
	var raw [][]byte
	var gts []GenTx
	var txs []*aTx
	b := x.sim.NextBlock(nil, bo)
	// logged as it happens, so that a monitor hit carries the block it fired in
	logBlock(x.hl, b, nil, bo)
	x.trace()
	h, now := b.Height, b.Time.Unix()
	A := x.A
	A.SaveBlock(b)
	pre := x.cst
	A.BeginBlock(b)
	if A.Crashed {
		x.res.Hit("app-closed-by-panic", x.c, fmt.Sprintf("BeginBlock %d", h), x.hl.Lines)
		return false
	}
	afterBegin := x.view()
	x.problems(afterBegin, "after BeginBlock", h)
	// ---- begin line: CheckMaliciousValidators
	var cv []string
	for _, a := range sortedKeys(afterBegin.CumVotes) {
		cv = append(cv, fmt.Sprintf("%s:%d", a, afterBegin.CumVotes[a]))
	}
	cvs := "-"
	if len(cv) > 0 {
		cvs = strings.Join(cv, ",")
	}
	x.emit(strings.Join(append(append([]string{"begin", fmt.Sprintf("h=%d now=%d diff=%d minv=%d cv=%s", h, now, x.eo.BlockVotesDiff, x.eo.MinVotesRequired, cvs)},
		valTokens(pre.Vals)...), pre.evTokens()...), " "),
		strings.Join(append([]string{"begun"}, filterTok(afterBegin.evTokens(), "s=")...), " "))
	for a, sr := range afterBegin.Susp {
		if sr.Status == 1 && sr.FH == h && sr.RAt == nil {
			x.res.Distribution["begin:missed-votes-record-written"]++
			if o := pre.Susp[a]; o != nil && o.Status == 2 && o.frozen() {
				x.res.Distribution["begin:missed-votes-record-overwrote-guilty-record"]++
			}
		}
	}
	x.mon.afterBegin(h, now, pre, afterBegin)
	// ---- transactions
	br := &BlockResult{Height: h}
	for i := 0; ; i++ {
		before := x.view()
		t := nextTx(i, before)
		if t == nil {
			break
		}
		txs = append(txs, t)
		raw = append(raw, t.Bytes)
		gts = append(gts, t.GenTx)
		x.hl.Add("  tx %d %s (%s) %s", i, t.Kind, t.Note, hex.EncodeToString(t.Bytes))
		x.trace()
		b.Txs = raw
		tr := A.DeliverTx(t.Bytes)
		if A.Crashed {
			x.res.Hit("app-closed-by-panic", x.c, fmt.Sprintf("DeliverTx %d of block %d (%s %s)", i, h, t.Kind, t.Note), x.hl.Lines)
			return false
		}
		after := x.view()
		x.problems(after, "after "+t.Kind, h)
		br.Txs = append(br.Txs, tr)
		cls := classify(t.Op, tr)
		x.res.Distribution[fmt.Sprintf("tx:%s:%s", t.Op, cls)]++
		x.res.Distribution[fmt.Sprintf("gen:%s(%s):%d", t.Kind, t.Note, tr.Code)]++
		if tr.Code == 0 {
			x.okTx++
		}
		x.txLine(t, h, now, before, after, cls)
		x.mon.afterTx(h, now, t, tr, cls, before, after)
	}
	// ---- EndBlock
	beforeEnd := x.view()
	eb := A.EndBlock(h)
	if A.Crashed {
		x.res.Hit("app-closed-by-panic", x.c, fmt.Sprintf("EndBlock %d", h), x.hl.Lines)
		return false
	}
	afterEnd := x.view()
	x.problems(afterEnd, "after EndBlock", h)
	br.Updates = eb.ValidatorUpdates
	br.EndEvents = eb.Events
	elected := x.electedOf(eb.ValidatorUpdates)
	if h > 1 {
		x.endLines(h, now, pre, afterBegin, beforeEnd, afterEnd, elected)
	}
	x.mon.afterEnd(h, now, pre, afterBegin, beforeEnd, afterEnd, elected, eb.Events)
	br.AppHash = A.Commit()
	A.IndexBlock(b, br)
	x.sim.Absorb(b, br)
	x.committed = A.DumpMap()
	x.cst = DecodeAState(x.committed, bountyAddr)
	x.problems(x.cst, "committed", h)
	x.mon.afterCommit(h, now, x.cst)
	return true
}

// trace (development aid): OLH_ALLEG_TRACE=<file> keeps the history written so far on disk, so that
// a history that makes the application exit the process (logger.Fatal) can still be inspected.
func (x *allegRun) trace() {
	if p := os.Getenv("OLH_ALLEG_TRACE"); p != "" {
		ioutil.WriteFile(p, []byte(strings.Join(x.hl.Lines, "\n")+"\n"), 0644)
	}
}

func (x *allegRun) problems(st *AState, where string, h int64) {
	if len(st.Problems) > 0 {
		x.res.Hit("harness-undecodable-record", x.c, fmt.Sprintf("block %d %s: %s", h, where, strings.Join(st.Problems, "; ")), x.hl.Lines)
	}
}

func filterTok(toks []string, prefixes ...string) []string {
	var out []string
	for _, t := range toks {
		for _, p := range prefixes {
			if strings.HasPrefix(t, p) {
				out = append(out, t)
				break
			}
		}
	}
	return out
}

func (x *allegRun) electedOf(ups []abci.ValidatorUpdate) []string {
	var el []string
	for _, u := range ups {
		if u.Power > 0 {
			a, ok := x.pub2addr[string(u.PubKey.Data)]
			if !ok {
				a = "unknown-" + hex.EncodeToString(u.PubKey.Data)
			}
			el = append(el, a)
		}
	}
	sort.Strings(el)
	return el
}

func listTok(xs []string) string {
	if len(xs) == 0 {
		return "-"
	}
	return strings.Join(xs, ",")
}

// txLine writes the correspondence line of one transaction.
func (x *allegRun) txLine(t *aTx, h, now int64, before, after *AState, cls string) {
	feeOK := before.Vals[t.Signer] != nil
	pre := before.evTokens()
	switch t.Op {
	case "allege":
		x.emit(strings.Join(append([]string{"allege", fmt.Sprintf("h=%d rep=%s acc=%s id=%s bh=%d sig=%d fee=%d", h, t.Signer, t.Accused, hexID(t.ID), t.BH, alB01(t.SigOK), alB01(feeOK))},
			pre...), " "), strings.Join(append([]string{"res=" + cls}, after.evTokens()...), " "))
	case "vote":
		x.emit(strings.Join(append([]string{"vote", fmt.Sprintf("voter=%s id=%s ch=%d sig=%d fee=%d", t.Signer, hexID(t.ID), t.Choice, alB01(t.SigOK), alB01(feeOK))},
			pre...), " "), strings.Join(append([]string{"res=" + cls}, after.evTokens()...), " "))
	case "release":
		x.emit(strings.Join(append([]string{"release", fmt.Sprintf("h=%d now=%d days=%d val=%s sig=%d fee=%d", h, now, x.eo.ValidatorReleaseTime, t.Signer, alB01(t.SigOK), alB01(feeOK))},
			pre...), " "), strings.Join(append([]string{"res=" + cls}, after.evTokens()...), " "))
	case "stake", "unstake", "withdraw":
		// the guards of the staking handlers: the model answers frozen / openRequest / pass; the
		// implementation may fail for other (C11) reasons after passing the guards
		g := cls
		if cls == "ok" || cls == "otherFailure" {
			g = "pass"
		}
		if !t.SigOK {
			return
		}
		if cls == "frozen" || cls == "openRequest" {
			x.guards++
		}
		// Validators.Iterate: records whose key is in the committed tree, with their current values
		gt := filterTok(pre, "q=", "s=")
		iter := map[string]*aVal{}
		for a := range x.cst.Vals {
			if v := before.Vals[a]; v != nil {
				iter[a] = v
			}
		}
		gt = append(gt, valTokens(iter)...)
		x.emit(strings.Join(append([]string{"guard", fmt.Sprintf("kind=%s val=%s sa=%s", t.Op, t.Val, t.StakeAddr)}, gt...), " "), "guard="+g)
	}
}

// endLines writes the election and tally lines of EndBlock.
func (x *allegRun) endLines(h, now int64, pre, afterBegin, beforeEnd, afterEnd *AState, elected []string) {
	// election: pop order from the committed records, malicious set from the histories as of BeginBlock
	var pop []string
	for _, a := range popOrder(pre.Vals) {
		pop = append(pop, fmt.Sprintf("%s:%d", a, pre.Vals[a].Power))
	}
	var sb []string
	for _, t := range filterTok(afterBegin.evTokens(), "s=") {
		sb = append(sb, "z="+t[2:])
	}
	st, _ := x.stakingOpts()
	// which branch of the election loop each popped validator takes (classification of the inputs)
	{
		mal := map[string]bool{}
		for a := range afterBegin.Susp {
			if afterBegin.isFrozen(a) {
				mal[a] = true
			}
		}
		cnt := int64(0)
		for _, a := range popOrder(pre.Vals) {
			switch {
			case pre.Vals[a].Power < st[0]:
				x.res.Distribution["elect:skipped-below-min-self-delegation"]++
			case cnt >= st[1]:
				x.res.Distribution["elect:skipped-beyond-top-n"]++
			case mal[a]:
				x.res.Distribution["elect:skipped-frozen"]++
			default:
				cnt++
				x.res.Distribution["elect:elected"]++
			}
		}
	}
	x.emit(strings.Join(append(append([]string{"elect", fmt.Sprintf("h=%d minself=%d top=%d pop=%s", h, st[0], st[1], listTok(pop))}, sb...),
		filterTok(beforeEnd.evTokens(), "v=")...), " "),
		strings.Join(append([]string{fmt.Sprintf("active=%d el=%s", len(elected), listTok(elected))}, filterTok(afterEnd.evTokens(), "v=")...), " "))
	// tally
	o := x.eo
	active := int64(len(elected))
	if active > 0 {
		// the thresholds are integer arithmetic in the code; what float64 would have said is still
		// counted, as a record of why it was replaced
		req := int(xRequired(active, o.ValidatorVotePercentage, o.ValidatorVoteDecimals))
		for n := 0; n <= voteTable; n++ {
			if fInnocent(n, req, o.AllegationPercentage, o.AllegationDecimals) != xInnocent(int64(n), int64(req), o.AllegationPercentage, o.AllegationDecimals) {
				x.res.Distribution["float:innocent-test-would-differ-from-exact"]++
			}
		}
	}
	var pf []string
	for _, a := range sortedKeys(beforeEnd.Total) {
		s := beforeEnd.Total[a]
		p := fPenalty(s, o.PenaltyBasePercentage, o.PenaltyBaseDecimals)
		if p.Cmp(xPenalty(s, o.PenaltyBasePercentage, o.PenaltyBaseDecimals)) != 0 {
			x.res.Distribution["float:penalty-differs-from-exact"]++
		}
		pf = append(pf, fmt.Sprintf("%s:%s", s, p))
	}
	head := []string{"tally", fmt.Sprintf("h=%d now=%d active=%d %s pf=%s", h, now, active, x.optTok(), listTok(pf))}
	in := append(head, valTokens(pre.Vals)...)
	// the validator records as they are when the tally runs (the slash charges the current stake address)
	for _, t := range valTokens(afterEnd.Vals) {
		in = append(in, "k="+t[2:])
	}
	in = append(in, filterTok(beforeEnd.evTokens(), "q=", "t=", "s=")...)
	// the status records the tally reads are those the election pass of this EndBlock left
	in = append(in, filterTok(afterEnd.evTokens(), "v=")...)
	in = append(in, filterTok(beforeEnd.stakeTokens(), "T=", "E=", "D=", "B=", "U=")...)
	out := append([]string{"tallied"}, filterTok(afterEnd.evTokens(), "q=", "t=", "s=")...)
	out = append(out, filterTok(afterEnd.stakeTokens(), "T=", "E=", "D=", "B=", "U=")...)
	x.emit(strings.Join(in, " "), strings.Join(out, " "))
}

// stakingOpts reads minimal self delegation and top validator count from the world.
func (x *allegRun) stakingOpts() ([2]int64, error) {
	so := x.w.State.Governance.StakingOptions
	return [2]int64{so.MinSelfDelegationAmount.BigInt().Int64(), so.TopValidatorCount}, nil
}

// ---------------------------------------------------------------- engine

type AllegOptions struct {
	Driver    string
	Seed      uint64
	Histories int
	Blocks    int
	MaxTxs    int
}

const allegRule = "case = one block history on the real application: 4-7 genesis validators + candidates + outsider accounts, generated evidence options (vote share 50-100 %, allegation share 25-90 %, penalty 10-40 %, bounty 0-100 %, release time 0-2 days, missed-vote window 2-4 blocks) and boundary stakes (penalty products on x.5); transactions ALLEGATION / ALLEGATION_VOTE / RELEASE / STAKE / UNSTAKE / WITHDRAW by active, inactive, frozen validators and outsiders (duplicate votes, bad choices, busy / empty ids, future heights, foreign validator address), concurrent allegations, absent signers, day-sized time jumps; plus scripted witnesses run first. Every BeginBlock, transaction, election pass and tally is one correspondence line re-run by the Lean model; the monitor evaluates the reference tally and the frozen-validator ledger on the decoded views. non-trivial = at least one verdict (guilty or innocent) reached by votes AND at least one rejected guarded action (non-active / frozen / duplicate / too-early release / blocked staking); distinct = SHA-256 of the history lines"

func RunAlleg(opt AllegOptions) (*Result, error) {
	res := NewResult("alleg", opt.Seed, allegRule)
	root := rng.New(opt.Seed*977 + 19)
	seen := map[[32]byte]bool{}
	var allLines, allImpl []string
	var lineCase []int
	var caseOps [][]string
	runCase := func(c int, body func(hl *HistoryLog) (*allegRun, error)) error {
		hl := &HistoryLog{}
		x, err := body(hl)
		if err != nil {
			return err
		}
		defer x.A.Close()
		res.Evaluations++
		h := sha256.Sum256([]byte(strings.Join(hl.Lines, "\n")))
		nontriv := x.verdicts > 0 && x.guards > 0
		if !seen[h] {
			seen[h] = true
			if nontriv {
				res.DistinctNontrivial++
			}
		}
		if len(res.Samples) < 2 && nontriv {
			res.Samples = append(res.Samples, shortAll(hl.Lines[:min(len(hl.Lines), 30)]))
		}
		allLines = append(allLines, fmt.Sprintf("# case %d", c))
		allImpl = append(allImpl, fmt.Sprintf("# case %d", c))
		lineCase = append(lineCase, c)
		for i := range x.lines {
			allLines = append(allLines, x.lines[i])
			allImpl = append(allImpl, x.impl[i])
			lineCase = append(lineCase, c)
		}
		caseOps = append(caseOps, hl.Lines)
		if len(x.sim.TMErrors) > 0 {
			res.Counters["tm_rejected_updates"] += len(x.sim.TMErrors)
		}
		res.Counters["verdicts"] += x.verdicts
		res.Counters["guarded_rejections"] += x.guards
		res.Counters["ok_txs"] += x.okTx
		TruncateAppLog()
		return nil
	}
	c := 0
	for _, w := range allegWitnesses() {
		w := w
		if err := runCase(c, func(hl *HistoryLog) (*allegRun, error) { return runWitness(w, res, c, hl) }); err != nil {
			return nil, err
		}
		c++
	}
	only := -1
	if s := os.Getenv("OLH_ALLEG_ONLY"); s != "" {
		only, _ = strconv.Atoi(s)
	}
	for i := 0; i < opt.Histories; i++ {
		r := root.Fork()
		if only >= 0 && i != only {
			c++
			continue
		}
		if err := runCase(c, func(hl *HistoryLog) (*allegRun, error) { return runGenerated(opt, r, res, c, hl) }); err != nil {
			return nil, err
		}
		c++
	}
	// ---- correspondence
	if opt.Driver != "" {
		model, err := kv.RunDriver(opt.Driver, "alleg", allLines)
		if err != nil {
			return nil, err
		}
		for i := range allLines {
			res.Counters["lines"]++
			if model[i] != allImpl[i] {
				res.DisagreementCount++
				if len(res.Disagreements) < 5 {
					res.Disagreements = append(res.Disagreements, Disagreement{Kind: "alleg-step", Case: lineCase[i], Op: short(allLines[i]), Impl: alFirstDiff(allImpl[i], model[i]), Model: alFirstDiff(model[i], allImpl[i]), Ops: append([]string{"# line: " + allLines[i], "# impl: " + allImpl[i], "# model: " + model[i]}, caseOps[lineCase[i]]...)})
				}
			} else if !strings.HasPrefix(allLines[i], "#") {
				res.Distribution["line:"+strings.SplitN(allLines[i], " ", 2)[0]+":"+strings.SplitN(model[i], " ", 2)[0]]++
			}
		}
	}
	return res, nil
}

// alFirstDiff returns the tokens of a that are not in b (for readable disagreement reports).
func alFirstDiff(a, b string) string {
	in := map[string]bool{}
	for _, t := range strings.Split(b, " ") {
		in[t] = true
	}
	var out []string
	for _, t := range strings.Split(a, " ") {
		if !in[t] {
			out = append(out, t)
		}
	}
	if len(out) == 0 {
		return "(same tokens, different order) " + short(a)
	}
	return strings.Join(out, " ")
}

func genesisLine(p Params, eo evidence.Options) string {
	gs, _ := json.Marshal(p.GenesisStake)
	es, _ := json.Marshal(eo)
	return fmt.Sprintf("genesis seed=%d vals=%d cand=%d accts=%d top=%d minself=%d maturity=%d stakes=%s evidence=%s", p.Seed, p.NVals, p.NCandidates, p.NAccts, p.TopValidators, p.MinSelfDeleg, p.StakeMaturity, gs, es)
}

func runGenerated(opt AllegOptions, r *rng.R, res *Result, c int, hl *HistoryLog) (*allegRun, error) {
	p, eo := allegParams(r, opt.Seed*1000+uint64(c))
	w := AllegWorld(p, eo)
	hl.Add("%s", genesisLine(p, eo))
	x, err := newAllegRun(w, eo, res, c, hl)
	if err != nil {
		return nil, err
	}
	g := &allegGen{Gen: NewGen(w, r.Fork()), eo: eo, lazy: -1}
	if eo.MinVotesRequired > 1 {
		g.lazy = r.Intn(p.NVals)
	}
	for bi := 0; bi < opt.Blocks; bi++ {
		g.Height = x.sim.Height + 1
		n := r.Intn(opt.MaxTxs + 1)
		// the generator looks at the view left by the transactions already delivered in this block
		if !x.execBlock(func(i int, view *AState) *aTx {
			if i >= n {
				return nil
			}
			t := g.next(view)
			return &t
		}, g.blockOpts(p.NVals)) {
			break
		}
	}
	return x, nil
}

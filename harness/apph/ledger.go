package apph

import (
	"encoding/base64"
	"encoding/hex"
	"encoding/json"
	"fmt"
	"math/big"
	"os"
	"sort"
	"strings"

	abci "github.com/tendermint/tendermint/abci/types"

	"github.com/Oneledger/protocol/action"
	aeth "github.com/Oneledger/protocol/action/eth"
	agov "github.com/Oneledger/protocol/action/governance"
	adeleg "github.com/Oneledger/protocol/action/network_delegation"
	arew "github.com/Oneledger/protocol/action/rewards"
	"github.com/Oneledger/protocol/action/staking"
	"github.com/Oneledger/protocol/action/transfer"
	"github.com/Oneledger/protocol/data/balance"
	"github.com/Oneledger/protocol/data/ethereum"
	"github.com/Oneledger/protocol/data/keys"
	"github.com/ethereum/go-ethereum/common"

	"olverif/harness/rng"
)

// Ledger is the value-bearing part of a state dump, decoded (DESIGN §6 C02/C03).
type Ledger struct {
	SupplyCounter map[string]*big.Int            // wrapped currency -> value of the supply counter record (not part of Total)
	Total         map[string]*big.Int            // currency -> total value held on chain
	Holdings      map[string]map[string]*big.Int // owner (0lt…) -> currency -> holdings
	Negative      []string                       // stored amounts below zero
	Undecoded     []string
}

var e18 = new(big.Int).Exp(big.NewInt(10), big.NewInt(18), nil)

// amountAny decodes every amount representation found in the tree.
func amountAny(v string) *big.Int {
	if n := AmountOf(v); n != nil {
		return n
	}
	// coin with base64-wrapped amount: {"currency":{…},"amount":"<base64 of JSON string>"}
	var c struct {
		Amount string `json:"amount"`
	}
	if err := json.Unmarshal([]byte(v), &c); err == nil && c.Amount != "" {
		if raw, err := base64.StdEncoding.DecodeString(c.Amount); err == nil {
			return AmountOf(string(raw))
		}
	}
	return nil
}

func (l *Ledger) add(owner, cur string, n *big.Int, key string) {
	if n == nil {
		l.Undecoded = append(l.Undecoded, key)
		return
	}
	if n.Sign() < 0 {
		l.Negative = append(l.Negative, fmt.Sprintf("%q=%s", key, n))
	}
	if l.Total[cur] == nil {
		l.Total[cur] = new(big.Int)
	}
	l.Total[cur].Add(l.Total[cur], n)
	if owner != "" {
		if l.Holdings[owner] == nil {
			l.Holdings[owner] = map[string]*big.Int{}
		}
		if l.Holdings[owner][cur] == nil {
			l.Holdings[owner][cur] = new(big.Int)
		}
		l.Holdings[owner][cur].Add(l.Holdings[owner][cur], n)
	}
}

// DecodeLedger sums every value-bearing record class. Stake records are whole OLT (x10^18).
// Active network delegations are mirrored by the delegation pool's balance, so they count as the
// delegator's holdings (C03) but only once, through the pool balance, in the total (C02).
func DecodeLedger(m map[string]string) *Ledger {
	l := &Ledger{Total: map[string]*big.Int{}, Holdings: map[string]map[string]*big.Int{}, SupplyCounter: map[string]*big.Int{}}
	keys := make([]string, 0, len(m))
	for k := range m {
		keys = append(keys, k)
	}
	sort.Strings(keys)
	stake := func(n *big.Int) *big.Int {
		if n == nil {
			return nil
		}
		return new(big.Int).Mul(n, e18)
	}
	for _, k := range keys {
		v := m[k]
		switch {
		case strings.HasPrefix(k, "b_"):
			p := strings.Split(k, "_")
			if len(p) == 3 {
				if p[1] == supplyCounterOwner && p[2] != "OLT" {
					// the wrapped-currency supply counter (ChainDriverOption.TotalSupplyAddr): a mirror of
					// what was minted, kept in a balance record; not value anybody holds
					l.SupplyCounter[p[2]] = amountAny(v)
					continue
				}
				l.add(p[1], p[2], amountAny(v), k)
			}
		case strings.HasPrefix(k, "f_"):
			l.add("", "OLT", amountAny(v), k) // fee pool and per-validator fee shares
		case strings.HasPrefix(k, "st__d_e_"), strings.HasPrefix(k, "st__d_b_"):
			l.add(k[len("st__d_e_"):], "OLT", stake(amountAny(v)), k)
		case strings.HasPrefix(k, "st__m_"):
			var mb struct {
				Data []struct {
					Address string
					Amount  string
				}
			}
			if err := json.Unmarshal([]byte(v), &mb); err != nil {
				l.Undecoded = append(l.Undecoded, k)
				continue
			}
			for _, d := range mb.Data {
				n, _ := new(big.Int).SetString(d.Amount, 10)
				l.add(d.Address, "OLT", stake(n), k)
			}
		case strings.HasPrefix(k, "deleg_a_"):
			// holdings only (the value itself sits in the pool balance)
			n := amountAny(v)
			owner := k[len("deleg_a_"):]
			if n == nil {
				l.Undecoded = append(l.Undecoded, k)
				continue
			}
			if n.Sign() < 0 {
				l.Negative = append(l.Negative, fmt.Sprintf("%q=%s", k, n))
			}
			if l.Holdings[owner] == nil {
				l.Holdings[owner] = map[string]*big.Int{}
			}
			if l.Holdings[owner]["OLT"] == nil {
				l.Holdings[owner]["OLT"] = new(big.Int)
			}
			l.Holdings[owner]["OLT"].Add(l.Holdings[owner]["OLT"], n)
		case strings.HasPrefix(k, "deleg_p_"):
			p := strings.SplitN(k[len("deleg_p_"):], "_", 2)
			if len(p) == 2 {
				l.add(p[1], "OLT", amountAny(v), k)
			}
		case strings.HasPrefix(k, "delegRwz_balance_"):
			l.add(k[len("delegRwz_balance_"):], "OLT", amountAny(v), k)
		case strings.HasPrefix(k, "delegRwz_pending_"):
			p := strings.SplitN(k[len("delegRwz_pending_"):], "_", 2)
			if len(p) == 2 {
				l.add(p[1], "OLT", amountAny(v), k)
			}
		case strings.HasPrefix(k, "propFunds_i_"):
			l.add("", "OLT", amountAny(v), k)
		case strings.HasPrefix(k, "extBidOffer_ACTIVE_"):
			l.addBidEscrow(m, k, v) // OLT locked in the bidder's active offer (bid.go)
		}
	}
	return l
}

// hostile amounts (none of them can crash the process: the currency is always known)
func hostileValues() []*big.Int {
	two := big.NewInt(2)
	p63 := new(big.Int).Exp(two, big.NewInt(63), nil)
	p64 := new(big.Int).Exp(two, big.NewInt(64), nil)
	return []*big.Int{
		new(big.Int).Neg(p64), big.NewInt(-1000000000000000000), big.NewInt(-1), big.NewInt(0), big.NewInt(1),
		new(big.Int).Sub(p63, big.NewInt(1)), p63, new(big.Int).Add(p64, big.NewInt(1)),
	}
}

func amtOf(cur string, n *big.Int) action.Amount {
	return action.Amount{Currency: cur, Value: *balance.NewAmountFromBigInt(new(big.Int).Set(n))}
}

// hostileTx builds a correctly signed transaction of a value-moving kind with a hostile amount.
func (g *Gen) hostileTx() GenTx {
	hv := hostileValues()
	n := hv[g.R.Intn(len(hv))]
	a, b := g.acct(), g.acct()
	v := g.W.Vals[g.R.Intn(len(g.W.Vals))]
	note := "hostile:" + n.String()
	switch g.R.Intn(15) {
	case 0:
		return g.mk("SEND", note, &transfer.Send{From: a.Addr, To: b.Addr, Amount: amtOf("OLT", n)}, a)
	case 1:
		return g.mk("SENDPOOL", note, &transfer.SendPool{From: a.Addr, PoolName: "DelegationPool", Amount: amtOf("OLT", n)}, a)
	case 2:
		return g.mk("STAKE", note, &staking.Stake{ValidatorAddress: v.Key.Addr, StakeAddress: v.Owner.Addr, ValidatorPubKey: v.Key.Pub,
			ValidatorECDSAPubKey: v.EcPub, NodeName: v.Name, Stake: amtOf("OLT", n)}, v.Owner, v.Key)
	case 3:
		return g.mk("UNSTAKE", note, &staking.Unstake{ValidatorAddress: v.Key.Addr, StakeAddress: v.Owner.Addr, Stake: amtOf("OLT", n)}, v.Owner, v.Key)
	case 4:
		return g.mk("WITHDRAW", note, &staking.Withdraw{ValidatorAddress: v.Key.Addr, StakeAddress: v.Owner.Addr, Stake: amtOf("OLT", n)}, v.Owner, v.Key)
	case 5:
		return g.mk("DELEGATE", note, &adeleg.AddNetworkDelegation{DelegationAddress: a.Addr, Amount: amtOf("OLT", n)}, a)
	case 6:
		return g.mk("UNDELEGATE", note, &adeleg.Undelegate{Delegator: a.Addr, Amount: amtOf("OLT", n)}, a)
	case 7:
		return g.mk("DELEG_WITHDRAW", note, &adeleg.Withdraw{Delegator: a.Addr, Amount: amtOf("OLT", n)}, a)
	case 8:
		return g.mk("DELEG_REINVEST", note, &adeleg.Reinvest{Delegator: a.Addr, Amount: amtOf("OLT", n)}, a)
	case 9:
		return g.mk("WITHDRAW_REWARD", note, &arew.Withdraw{ValidatorAddress: v.Key.Addr, SignerAddress: v.Owner.Addr, WithdrawAmount: amtOf("OLT", n)}, v.Owner)
	case 10:
		if len(g.Proposals) > 0 {
			p := g.Proposals[g.R.Intn(len(g.Proposals))]
			return g.mk("PROPOSAL_FUND", note, &agov.FundProposal{ProposalId: p.ID, FunderAddress: a.Addr, FundValue: amtOf("OLT", n)}, a)
		}
	case 11:
		if len(g.Proposals) > 0 {
			p := g.Proposals[g.R.Intn(len(g.Proposals))]
			f := p.Proposer
			return g.mk("PROPOSAL_WITHDRAW_FUNDS", note, &agov.WithdrawFunds{ProposalID: p.ID, Funder: f.Addr, WithdrawValue: amtOf("OLT", n), Beneficiary: b.Addr}, f)
		}
	case 12, 13, 14:
		return g.hostileBidTx(n, note)
	}
	return g.mk("SEND", note, &transfer.Send{From: a.Addr, To: b.Addr, Amount: amtOf("VT", n)}, a)
}

// forgedCopy keeps the signed content and the signer keys of an executed transaction and replaces
// the signature bytes: by a changed byte, by bytes of another length, or by nothing at all. The
// result is a different transaction (another hash) that nobody signed; its Signer list is empty,
// so the value ledger treats every debit it causes as unauthorised.
func forgedCopy(orig GenTx, r *rng.R) GenTx {
	st, ok := parseSigned(orig.Bytes)
	if !ok || len(st.Signatures) == 0 {
		return GenTx{}
	}
	for i := range st.Signatures {
		sig := append([]byte{}, st.Signatures[i].Signed...)
		switch r.Intn(3) {
		case 0:
			if len(sig) > 0 {
				sig[r.Intn(len(sig))] ^= 0x40
			}
		case 1:
			sig = []byte("these bytes are not a signature of anybody")
		default:
			sig = nil
		}
		st.Signatures[i].Signed = sig
	}
	return GenTx{Kind: orig.Kind, Note: "forged-copy:" + orig.Note, Bytes: serSigned(st)}
}

// strangerTx: the signer is an attacker, an address field of the payload names a third party.
func (g *Gen) strangerTx() GenTx {
	att, victim := g.acct(), g.acct()
	for victim == att {
		victim = g.acct()
	}
	v := g.W.Vals[g.R.Intn(len(g.W.Vals))]
	switch g.R.Intn(11) {
	case 8, 9, 10:
		return g.strangerBidTx(att, victim)
	case 0:
		return g.mk("SEND", "stranger-from", &transfer.Send{From: victim.Addr, To: att.Addr, Amount: OLT(7)}, att)
	case 1:
		return g.mk("UNDELEGATE", "stranger", &adeleg.Undelegate{Delegator: victim.Addr, Amount: OLT(1)}, att)
	case 2:
		return g.mk("DELEG_WITHDRAW", "stranger", &adeleg.Withdraw{Delegator: victim.Addr, Amount: amtOf("OLT", big.NewInt(1000))}, att)
	case 3:
		return g.mk("WITHDRAW_REWARD", "stranger", &arew.Withdraw{ValidatorAddress: v.Key.Addr, SignerAddress: att.Addr, WithdrawAmount: amtOf("OLT", big.NewInt(1000))}, att)
	case 4:
		return g.mk("UNSTAKE", "stranger", &staking.Unstake{ValidatorAddress: v.Key.Addr, StakeAddress: v.Owner.Addr, Stake: OLTInt(1)}, att, att)
	case 5:
		return g.mk("WITHDRAW", "stranger", &staking.Withdraw{ValidatorAddress: v.Key.Addr, StakeAddress: v.Owner.Addr, Stake: OLTInt(1)}, att, att)
	case 6:
		if len(g.Proposals) > 0 {
			p := g.Proposals[g.R.Intn(len(g.Proposals))]
			return g.mk("PROPOSAL_WITHDRAW_FUNDS", "stranger", &agov.WithdrawFunds{ProposalID: p.ID, Funder: p.Proposer.Addr,
				WithdrawValue: amtOf("OLT", big.NewInt(1000000000)), Beneficiary: att.Addr}, att)
		}
	}
	return g.mk("SENDPOOL", "stranger-from", &transfer.SendPool{From: victim.Addr, PoolName: "BountyPool", Amount: OLT(3)}, att)
}

func delegationRewardsOf(events []abci.Event, pool string) *big.Int {
	for _, ev := range events {
		if ev.Type != "block_rewards" {
			continue
		}
		for _, a := range ev.Attributes {
			if string(a.Key) == pool {
				if n, ok := new(big.Int).SetString(string(a.Value), 10); ok {
					return n
				}
			}
		}
	}
	return new(big.Int)
}

// LedgerOptions: Direct=false means an honest proposer (a transaction enters a block only after
// CheckTx accepted it); Direct=true means transactions are delivered without the mempool check.
type LedgerOptions struct {
	Seed      uint64
	Histories int
	Blocks    int
	MaxTxs    int
	Direct    bool
}

// RunLedger is the C02/C03 engine: value conservation and authorised debits, monitored on the
// decoded dump of every block.
func RunLedger(opt LedgerOptions) (*Result, error) {
	name := "ledger"
	if opt.Direct {
		name = "ledger-direct"
	}
	res := NewResult(name, opt.Seed, "case = one generated block history (all native tx families and the bid application of external_apps, plus a hostile-amount stream {-2^64,-10^18,-1,0,1,2^63-1,2^63,2^64+1} and a stranger stream where the signer differs from the payload's source/owner/funder field); after every block the committed tree is decoded into the value ledger (OLT locked in an active bid offer counts as held by the bidder; what an accepted offer pays the owner is a debit the bidder authorised when it signed the offer); monitors: per-currency total(after) <= total(before) + delegation rewards of the block_rewards event (C02), no negative stored amount (C02), per-owner holdings decrease only for signers of the block's transactions, stake accounts of signing validators, or validators declared guilty in the block (C03); non-trivial = at least one hostile or stranger tx executed with code 0 or at least 5 successful value-moving txs; distinct = SHA-256 of the lines")
	root := rng.New(opt.Seed*131 + 17)
	seen := map[string]bool{}
	for c := 0; c < opt.Histories; c++ {
		r := root.Fork()
		if only := os.Getenv("LEDGER_ONLY"); only != "" && only != fmt.Sprint(c) {
			continue // replay aid: every case has its own fork of the generator state
		}
		hl := &HistoryLog{}
		p := paramsFor(r, opt.Seed*1000+uint64(c))
		w := NewWorld(p)
		A, err := NewReplica(w, Identity{Name: "A", Val: w.Vals[0]})
		if err != nil {
			return nil, err
		}
		A.InitChain()
		sim := NewSim(w)
		g := NewGen(w, r.Fork())
		wt := AllWeights()
		special := map[string]bool{}
		for _, s := range []string{"rewardpool", "oneledgerBountyProgram", "executionCostConfig", "executionCostCodeChange", "executionCostGeneral", "00000000000000000000", "00000000000000000001"} {
			special[AddrStr([]byte(s))] = true
		}
		valOwner := map[string]string{} // validator address -> stake address
		for _, v := range w.Vals {
			valOwner[AddrStr(v.Key.Addr)] = AddrStr(v.Owner.Addr)
		}
		pool := AddrStr([]byte("00000000000000000001"))
		var prev *Ledger
		prevDump := map[string]string{}
		hostileOK, movers := 0, 0
		var executed []GenTx // successfully executed transactions of earlier blocks (sources of forged copies)
		stop := false
		for bi := 0; bi < opt.Blocks && !stop; bi++ {
			g.Height = sim.Height + 1
			g.Now = sim.Time
			var gts []GenTx
			for i, n := 0, r.Intn(opt.MaxTxs+1); i < n; i++ {
				var t GenTx
				switch x := r.Intn(10); {
				case x < 2:
					t = g.hostileTx()
				case x < 3:
					t = g.strangerTx()
				case x < 4 && len(executed) > 0:
					// a copy of a transaction that was executed earlier, with the signer's key and
					// bytes its key never produced as the signature: nobody signed THIS transaction
					t = forgedCopy(executed[r.Intn(len(executed))], r)
					if t.Bytes == nil {
						t = g.Next(wt)
					}
				default:
					t = g.Next(wt)
				}
				if !opt.Direct {
					if cr := A.CheckTx(t.Bytes); cr.Code != 0 {
						res.Distribution["rejected-by-checktx:"+t.Kind]++
						continue
					}
				}
				gts = append(gts, t)
			}
			var txs [][]byte
			for _, t := range gts {
				txs = append(txs, t.Bytes)
			}
			bo := genBlockOpts(r, p.NVals)
			b := sim.NextBlock(txs, bo)
			logBlock(hl, b, gts, bo)
			A.SaveBlock(b)
			bb := A.BeginBlock(b)
			br := &BlockResult{Height: b.Height}
			for _, tx := range b.Txs {
				br.Txs = append(br.Txs, A.DeliverTx(tx))
			}
			eb := A.EndBlock(b.Height)
			br.Updates = eb.ValidatorUpdates
			br.AppHash = A.Commit()
			A.IndexBlock(b, br)
			if A.Crashed {
				res.Hit("app-closed-by-panic", c, fmt.Sprintf("block %d", b.Height), hl.Lines)
				break
			}
			sim.Absorb(b, br)
			dump := A.DumpMap()
			cur := DecodeLedger(dump)
			auth := map[string]string{}
			for i, t := range gts {
				res.Distribution[fmt.Sprintf("%s:%d", t.Kind, br.Txs[i].Code)]++
				if os.Getenv("LEDGER_LOGS") != "" && br.Txs[i].Code != 0 && strings.HasPrefix(t.Kind, os.Getenv("LEDGER_LOGS")) {
					// diagnosis aid: why the transactions of a family fail
					res.Distribution[fmt.Sprintf("log:%s(%s):%.90s", t.Kind, t.Note, br.Txs[i].Log)]++
				}
				if br.Txs[i].Code == 0 {
					if strings.HasPrefix(t.Note, "hostile") || strings.HasPrefix(t.Note, "stranger") {
						hostileOK++
					}
					movers++
					if strings.HasPrefix(t.Note, "forged-copy") {
						res.Hit("forged-copy-executed", c, fmt.Sprintf("block %d: a copy of an executed %s with the signer's key and a signature its key did not make was executed with code 0", b.Height, t.Kind), hl.Lines)
					} else if len(t.Signer) > 0 && len(executed) < 64 {
						executed = append(executed, t)
					}
				}
				if strings.HasPrefix(t.Note, "forged-copy") {
					res.Counters["forged_copies_delivered"]++
				}
				for _, s := range t.Signer {
					a := AddrStr(s)
					auth[a] = t.Kind
					if o, ok := valOwner[a]; ok {
						auth[o] = t.Kind + "(validator op charged to the stake account)"
					}
				}
			}
			for k := range dump {
				if strings.HasPrefix(k, "extBidConvExpired") {
					if _, was := prevDump[k]; !was {
						res.Counters["bid_conversations_expired"]++ // by a BID_EXPIRE transaction or by the block hooks
					}
				}
				if strings.HasPrefix(k, "es__ssvk_") {
					if _, was := prevDump[k]; !was || prevDump[k] != dump[k] {
						va := strings.TrimPrefix(k, "es__ssvk_")
						if o, ok := valOwner[va]; ok {
							auth[o] = "guilty verdict"
						}
					}
				}
			}
			if len(cur.Negative) > 0 {
				res.Hit("negative-stored-amount", c, fmt.Sprintf("block %d: %s; txs: %s", b.Height, strings.Join(cur.Negative, "; "), txSummary(gts, br)), hl.Lines)
				stop = true
			}
			if prev != nil {
				allow := delegationRewardsOf(bb.Events, pool)
				var codes []uint32
				for _, t := range br.Txs {
					codes = append(codes, t.Code)
				}
				var wits []keys.Address
				for _, v := range g.ethWitnesses() {
					wits = append(wits, v.Key.Addr)
				}
				wrapped := wrappedAllowance(prevDump, dump, b.Txs, codes, wits)
				for curName, tot := range cur.Total {
					before := prev.Total[curName]
					if before == nil {
						before = new(big.Int)
					}
					lim := new(big.Int).Set(before)
					if curName == "OLT" {
						lim.Add(lim, allow)
					} else if wa := wrapped[curName]; wa != nil {
						lim.Add(lim, wa)
					}
					if tot.Cmp(lim) > 0 {
						res.Hit("value-created", c, fmt.Sprintf("block %d currency %s: total %s -> %s (allowed accrual %s, excess %s); txs: %s", b.Height, curName, before, tot, allow, new(big.Int).Sub(tot, lim), txSummary(gts, br)), hl.Lines)
						stop = true
					}
				}
				deals := bidDealDebits(prevDump, dump)
				for owner, hc := range prev.Holdings {
					if special[owner] {
						continue
					}
					for curName, before := range hc {
						after := new(big.Int)
						if cur.Holdings[owner] != nil && cur.Holdings[owner][curName] != nil {
							after = cur.Holdings[owner][curName]
						}
						if after.Cmp(before) < 0 {
							// a contract pays out by its own code, whoever calls it: the authority of its
							// holdings is the code, not a signature
							if hasCode(prevDump, owner) || hasCode(dump, owner) {
								continue
							}
							// the amount a bidder locked in an offer it signed is paid out when the owner accepts
							if d := deals[owner]; d != nil && curName == "OLT" && new(big.Int).Sub(before, after).Cmp(d) <= 0 {
								continue
							}
							if _, ok := auth[owner]; !ok {
								res.Hit("unauthorised-debit", c, fmt.Sprintf("block %d: holdings of %s in %s fell %s -> %s but it signed nothing in the block; txs: %s", b.Height, owner, curName, before, after, txSummary(gts, br)), hl.Lines)
								stop = true
							}
						}
					}
				}
			}
			prev = cur
			prevDump = dump
		}
		A.Close()
		res.Evaluations++
		key := strings.Join(hl.Lines, "\n")
		if !seen[key] {
			seen[key] = true
			if hostileOK > 0 || movers >= 5 {
				res.DistinctNontrivial++
			}
		}
		if len(res.Samples) < 2 {
			res.Samples = append(res.Samples, shortAll(hl.Lines[:min(len(hl.Lines), 25)]))
		}
		TruncateAppLog()
	}
	return res, nil
}

func txSummary(gts []GenTx, br *BlockResult) string {
	var s []string
	for i, t := range gts {
		s = append(s, fmt.Sprintf("%s(%s)=%d", t.Kind, t.Note, br.Txs[i].Code))
	}
	return strings.Join(s, ", ")
}

// supplyCounterOwner is the owner part of the balance key of the wrapped-currency supply counter.
var supplyCounterOwner = AddrStr([]byte(ethSupplyAddr))

// wrappedAllowance is what the total of a wrapped currency may grow by in one block: the amounts
// of the lock trackers for which more than two thirds of the tracker's witnesses have reported
// success once the block's accepted finality reports are counted, and of the redeem trackers for
// which more than two thirds have reported failure, provided the threshold was not already met
// before the block. Votes are counted by the harness itself: the votes recorded in the previous
// committed state plus the reports delivered with code 0 in this block, one per witness, each at
// the witness's own index. Amounts are read with go-ethereum's transaction decoder and the ABI
// layout, not with the repo's parsers.
func wrappedAllowance(prev, cur map[string]string, txs [][]byte, codes []uint32, witnesses []keys.Address) map[string]*big.Int {
	out := map[string]*big.Int{}
	pv, err1 := decodeEthView(prev)
	_, err2 := decodeEthView(cur)
	if err1 != nil || err2 != nil {
		return out
	}
	type tally struct {
		t       *ethereum.Tracker
		yes, no map[string]bool
	}
	created := map[string]*ethereum.Tracker{}
	for i, tx := range txs {
		if i >= len(codes) || codes[i] != 0 {
			continue
		}
		st, ok := parseSigned(tx)
		if !ok {
			continue
		}
		var raw []byte
		var typ ethereum.ProcessType
		switch st.Type {
		case action.ETH_LOCK:
			m := &aeth.Lock{}
			if m.Unmarshal(st.Data) == nil {
				raw, typ = m.ETHTxn, ethereum.ProcessTypeLock
			}
		case action.ERC20_LOCK:
			m := &aeth.ERC20Lock{}
			if m.Unmarshal(st.Data) == nil {
				raw, typ = m.ETHTxn, ethereum.ProcessTypeLockERC
			}
		case action.ETH_REDEEM:
			m := &aeth.Redeem{}
			if m.Unmarshal(st.Data) == nil {
				raw, typ = m.ETHTxn, ethereum.ProcessTypeRedeem
			}
		case action.ERC20_REDEEM:
			m := &aeth.ERC20Redeem{}
			if m.Unmarshal(st.Data) == nil {
				raw, typ = m.ETHTxn, ethereum.ProcessTypeRedeemERC
			}
		}
		if raw != nil {
			h := common.BytesToHash(raw)
			created[new(big.Int).SetBytes(h[:]).String()] = &ethereum.Tracker{Type: typ, SignedETHTx: raw, Witnesses: witnesses}
		}
	}
	tl := map[string]*tally{}
	get := func(name string) *tally {
		if x := tl[name]; x != nil {
			return x
		}
		var t *ethereum.Tracker
		x := &tally{yes: map[string]bool{}, no: map[string]bool{}}
		if t = pv.Store[0][name]; t != nil {
			for i, v := range t.FinalityVotes {
				if i < len(t.Witnesses) {
					if v == 1 {
						x.yes[string(t.Witnesses[i])] = true
					}
					if v == 2 {
						x.no[string(t.Witnesses[i])] = true
					}
				}
			}
		} else {
			// submitted in this block (it may also be decided and cleaned up within it, and the cleaned
			// record keeps neither witnesses nor the external transaction): type and external
			// transaction come from the accepted submission, the witnesses are those of the chain
			t = created[name]
		}
		if t == nil {
			return nil
		}
		x.t = t
		tl[name] = x
		return x
	}
	met := func(x *tally) (bool, bool) {
		thr := len(x.t.Witnesses)*2/3 + 1
		return len(x.yes) >= thr, len(x.no) >= thr
	}
	before := map[string][2]bool{}
	for name := range pv.Store[0] {
		if x := get(name); x != nil {
			y, n := met(x)
			before[name] = [2]bool{y, n}
		}
	}
	for i, tx := range txs {
		if i >= len(codes) || codes[i] != 0 {
			continue
		}
		st, ok := parseSigned(tx)
		if !ok || st.Type != action.ETH_REPORT_FINALITY_MINT {
			continue
		}
		rf := &aeth.ReportFinality{}
		if rf.Unmarshal(st.Data) != nil {
			continue
		}
		name := new(big.Int).SetBytes(rf.TrackerName[:]).String()
		x := get(name)
		if x == nil || rf.VoteIndex < 0 || int(rf.VoteIndex) >= len(x.t.Witnesses) {
			continue
		}
		w := string(x.t.Witnesses[rf.VoteIndex])
		if w != string(rf.ValidatorAddress) {
			continue
		}
		// an accepted report of a witness at its own index counts once per side. A witness whose
		// recorded vote is on the other side is refused by the handler (code 1), so it is not
		// here; the one accepted case is a vote that was never recorded (the crossing failure
		// report of an ERC20 lock is dropped with the unsaved tracker), after which the witness's
		// next report is its vote
		if rf.Success {
			x.yes[w] = true
		} else {
			x.no[w] = true
		}
	}
	for name, x := range tl {
		y, n := met(x)
		kind := int(x.t.Type)
		curName := "ETH"
		if kind == 3 || kind == 4 {
			curName = "TTC"
		}
		lock := kind == 1 || kind == 3
		if (lock && y && !before[name][0]) || (!lock && n && !before[name][1]) {
			a, _ := new(big.Int).SetString(extAmount(kind, x.t.SignedETHTx), 10)
			if a != nil {
				if out[curName] == nil {
					out[curName] = new(big.Int)
				}
				out[curName].Add(out[curName], a)
			}
		}
	}
	return out
}

// hasCode: does the dump hold an account keeper record with contract code for the owner ("0lt<hex>")?
func hasCode(m map[string]string, owner string) bool {
	if !strings.HasPrefix(owner, "0lt") {
		return false
	}
	raw, err := hex.DecodeString(owner[3:])
	if err != nil {
		return false
	}
	v := &stateView{m: m}
	return v.keeper(raw).Code
}

package apph

// Focused generator for C14: several proposals in parallel, each following a scenario, observed
// through the decoded state at the start of the block, with boundary heights and hostile amounts.

import (
	"fmt"
	"math/big"

	"github.com/Oneledger/protocol/action"
	agov "github.com/Oneledger/protocol/action/governance"
	"github.com/Oneledger/protocol/action/staking"
	"github.com/Oneledger/protocol/action/transfer"
	"github.com/Oneledger/protocol/data/balance"
	"github.com/Oneledger/protocol/data/governance"

	"olverif/harness/rng"
)

// price per gas unit paid by every generated transaction: above every minimal fee the accepted
// configuration updates can set (10^(18-minFeeDecimal) with minFeeDecimal >= 6)
const govFeePrice = 1000000000000

type govTx struct {
	Kind, Note string
	Bytes      []byte
	Op         string // model operation without the fee token; "" = not a governance transaction
	PID        string
	Fee        bool   // BasicFeeHandling applies
	Signer     string // first signer
	Funder     string
	Benef      string
	Validator  string
	Value      *big.Int
	Opinion    int
}

const (
	scPass = iota
	scFail
	scExpire
	scCancel
	scMiss
	scChaos
	scCount
)

type govProp struct {
	ID       string
	Type     governance.ProposalType
	Proposer *Acct
	Scenario int
	Created  int64
	Funders  []*Acct
	Outsider *Acct
}

type govGen struct {
	W      *World
	R      *rng.R
	pass   int
	script string
	props  []*govProp
	memo   int
	valOf  map[string]*Val
	acctOf map[string]*Acct
}

func newGovGen(w *World, r *rng.R, pass int, script string) *govGen {
	g := &govGen{W: w, R: r, pass: pass, script: script, valOf: map[string]*Val{}, acctOf: map[string]*Acct{}}
	for _, v := range w.Vals {
		g.valOf[AddrStr(v.Key.Addr)] = v
	}
	for _, a := range w.Accts {
		g.acctOf[AddrStr(a.Addr)] = a
	}
	return g
}

// watchList: every account a governance step can debit or credit.
func (g *govGen) watchList() []string {
	l := []string{"feepool"}
	for _, a := range g.W.Accts {
		l = append(l, AddrStr(a.Addr))
	}
	for _, v := range g.W.Vals {
		l = append(l, AddrStr(v.Key.Addr), AddrStr(v.Owner.Addr))
	}
	for _, s := range govSpecialAddrs {
		l = append(l, AddrStr([]byte(s)))
	}
	return l
}

func (g *govGen) sign(kind, note string, msg action.Msg, signers ...*Acct) govTx {
	g.memo++
	fee := action.Fee{Price: action.Amount{Currency: "OLT", Value: *balance.NewAmount(govFeePrice)}, Gas: 2000000}
	raw := RawOf(msg, fee, fmt.Sprintf("gov-%d", g.memo))
	t := govTx{Kind: kind, Note: note, Bytes: Sign(raw, signers...)}
	if len(signers) > 0 {
		t.Signer = AddrStr(signers[0].Addr)
	}
	return t
}

func amtBig(n *big.Int) action.Amount {
	return action.Amount{Currency: "OLT", Value: *balance.NewAmountFromBigInt(new(big.Int).Set(n))}
}

func (g *govGen) acct() *Acct { return g.W.Accts[g.R.Intn(len(g.W.Accts))] }

var goalNue = big.NewInt(10000000000)

var cfgAccepted = []string{"feeOption.minFeeDecimal:8", "feeOption.minFeeDecimal:18", "feeOption.minFeeDecimal:6", "feeOption.minFeeDecimal:12",
	"onsOptions.perBlockFees:200000000000000", "onsOptions.perBlockFees:1", "onsOptions.baseDomainPrice:500000000000000000000", "onsOptions.baseDomainPrice:0"}
var cfgRejected = []string{"feeOption.minFeeDecimal:19", "feeOption.minFeeDecimal:-1", "feeOption.minFeeDecimal:abc", "onsOptions.perBlockFees:0", "onsOptions.baseDomainPrice:-5",
	"stakingOptions.maturityTime:3", "stakingOptions.topValidatorCount:8", "propOptions.general.passPercentage:60", "evidenceOptions.blockVotesDiff:1000",
	"bad", "", "a:b:c", "unknown.key:1", "feeOption.minFeeDecimal:"}

func (g *govGen) createTx(h int64, scenario int, typ governance.ProposalType, cfg string, note string, mut func(*agov.CreateProposal)) govTx {
	a := g.acct()
	id := string(pid(fmt.Sprintf("gov-%d-%d-%d", g.W.P.Seed, len(g.props), g.memo)))
	fd := h + int64(1+g.R.Intn(4))
	initial := []int64{1000000000, 1000000001, 2500000007, 9999999999}[g.R.Intn(4)]
	m := &agov.CreateProposal{ProposalID: governance.ProposalID(id), ProposalType: typ, Headline: "h", Description: "d", Proposer: a.Addr,
		InitialFunding: action.Amount{Currency: "OLT", Value: *balance.NewAmount(initial)}, FundingDeadline: fd,
		FundingGoal: balance.NewAmount(10000000000), VotingDeadline: fd + g.W.P.VotingDeadline, PassPercentage: g.pass, ConfigUpdate: cfg}
	if mut != nil {
		mut(m)
	}
	signer := g.acctOf[AddrStr(m.Proposer)]
	if signer == nil {
		if v := g.valOf[AddrStr(m.Proposer)]; v != nil {
			signer = v.Key
		} else {
			signer = a
		}
	}
	t := g.sign("PROPOSAL_CREATE", note, m, signer)
	t.PID = string(m.ProposalID)
	t.Fee = true
	t.Funder = AddrStr(m.Proposer)
	t.Value = m.InitialFunding.Value.BigInt()
	t.Op = fmt.Sprintf("create %s %s %s %s %d %s %d %d %s", m.ProposalID, ptypeName[int(typ)], AddrStr(m.Proposer), m.InitialFunding.Value.BigInt(), m.FundingDeadline,
		m.FundingGoal.BigInt(), m.VotingDeadline, m.PassPercentage, hexOrDash(cfg))
	if note == "valid" {
		g.props = append(g.props, &govProp{ID: id, Type: typ, Proposer: a, Scenario: scenario, Created: h, Funders: []*Acct{a}})
	}
	return t
}

func (g *govGen) create(h int64) govTx {
	types := []governance.ProposalType{governance.ProposalTypeGeneral, governance.ProposalTypeCodeChange, governance.ProposalTypeConfigUpdate, governance.ProposalTypeConfigUpdate}
	typ := types[g.R.Intn(len(types))]
	cfg := ""
	if typ == governance.ProposalTypeConfigUpdate {
		cfg = cfgAccepted[g.R.Intn(len(cfgAccepted))]
	} else if g.R.Intn(4) == 0 {
		cfg = "ignored for this type" // never parsed unless the type is config update
	}
	sc := g.R.Intn(scCount)
	if g.R.Intn(3) == 0 {
		sc = scPass
	}
	switch g.R.Intn(14) {
	case 0:
		if typ == governance.ProposalTypeConfigUpdate {
			return g.createTx(h, sc, typ, cfgRejected[g.R.Intn(len(cfgRejected))], "rejected-config", nil)
		}
	case 1:
		return g.createTx(h, sc, typ, cfg, "wrong-pass", func(m *agov.CreateProposal) { m.PassPercentage++ })
	case 2:
		return g.createTx(h, sc, typ, cfg, "wrong-goal", func(m *agov.CreateProposal) { m.FundingGoal = balance.NewAmount(10000000001) })
	case 3:
		return g.createTx(h, sc, typ, cfg, "wrong-voting-deadline", func(m *agov.CreateProposal) { m.VotingDeadline++ })
	case 4:
		return g.createTx(h, sc, typ, cfg, "funding-deadline-now", func(m *agov.CreateProposal) {
			m.FundingDeadline = h - int64(g.R.Intn(2))
			m.VotingDeadline = m.FundingDeadline + g.W.P.VotingDeadline
		})
	case 5:
		return g.createTx(h, sc, typ, cfg, "initial-too-small", func(m *agov.CreateProposal) { m.InitialFunding.Value = *balance.NewAmount(999999999) })
	case 6:
		return g.createTx(h, sc, typ, cfg, "initial-at-goal", func(m *agov.CreateProposal) { m.InitialFunding.Value = *balance.NewAmount(10000000000) })
	case 7:
		if len(g.props) > 0 {
			old := g.props[g.R.Intn(len(g.props))]
			return g.createTx(h, sc, typ, cfg, "duplicate-id", func(m *agov.CreateProposal) { m.ProposalID = governance.ProposalID(old.ID) })
		}
	case 8:
		return g.createTx(h, sc, typ, cfg, "initial-above-balance", func(m *agov.CreateProposal) {
			m.InitialFunding.Value = *balance.NewAmount(9999999999)
			m.Proposer = g.W.Vals[0].Key.Addr // a validator key account holds no OLT
		})
	}
	return g.createTx(h, sc, typ, cfg, "valid", nil)
}

func (g *govGen) fundTx(p *govProp, who *Acct, v *big.Int, note string) govTx {
	t := g.sign("PROPOSAL_FUND", note, &agov.FundProposal{ProposalId: governance.ProposalID(p.ID), FunderAddress: who.Addr, FundValue: amtBig(v)}, who)
	t.PID, t.Fee, t.Funder, t.Value = p.ID, true, AddrStr(who.Addr), v
	t.Op = fmt.Sprintf("fund %s %s %s", p.ID, AddrStr(who.Addr), v)
	known := false
	for _, f := range p.Funders {
		known = known || f == who
	}
	if !known {
		p.Funders = append(p.Funders, who)
	}
	return t
}

func (g *govGen) voteTx(p *govProp, v *Val, opinion int, note string) govTx {
	t := g.sign("PROPOSAL_VOTE", note, &agov.VoteProposal{ProposalID: governance.ProposalID(p.ID), Address: v.Owner.Addr, ValidatorAddress: v.Key.Addr, Opinion: governance.VoteOpinion(opinion)}, v.Owner, v.Key)
	t.PID, t.Fee, t.Validator, t.Opinion = p.ID, true, AddrStr(v.Key.Addr), opinion
	t.Op = fmt.Sprintf("vote %s %s %s %s", p.ID, AddrStr(v.Owner.Addr), AddrStr(v.Key.Addr), opinionName[opinion])
	return t
}

func (g *govGen) cancelTx(p *govProp, by *Acct, note string) govTx {
	t := g.sign("PROPOSAL_CANCEL", note, &agov.CancelProposal{ProposalId: governance.ProposalID(p.ID), Proposer: by.Addr, Reason: "r"}, by)
	t.PID, t.Fee = p.ID, true
	t.Op = fmt.Sprintf("cancel %s %s", p.ID, AddrStr(by.Addr))
	return t
}

func (g *govGen) withdrawTx(p *govProp, f *Acct, v *big.Int, benef *Acct, note string) govTx {
	t := g.sign("PROPOSAL_WITHDRAW_FUNDS", note, &agov.WithdrawFunds{ProposalID: governance.ProposalID(p.ID), Funder: f.Addr, WithdrawValue: amtBig(v), Beneficiary: benef.Addr}, f)
	t.PID, t.Fee, t.Funder, t.Benef, t.Value = p.ID, true, AddrStr(f.Addr), AddrStr(benef.Addr), v
	t.Op = fmt.Sprintf("withdraw %s %s %s %s", p.ID, AddrStr(f.Addr), v, AddrStr(benef.Addr))
	return t
}

func (g *govGen) expireTx(p *govProp, by *Acct) govTx {
	t := g.sign("EXPIRE_VOTES", "outsider", &agov.ExpireVotes{ProposalID: governance.ProposalID(p.ID), ValidatorAddress: by.Addr}, by)
	t.PID = p.ID
	t.Op = "expire " + p.ID
	return t
}

func (g *govGen) finalizeTx(p *govProp, by *Acct) govTx {
	t := g.sign("PROPOSAL_FINALIZE", "outsider", &agov.FinalizeProposal{ProposalID: governance.ProposalID(p.ID), ValidatorAddress: by.Addr}, by)
	t.PID = p.ID
	t.Op = "finalize " + p.ID
	return t
}

// env: transactions of other subsystems that change what governance reads (validator records, balances)
func (g *govGen) envTx() govTx {
	i := g.R.Intn(len(g.W.Vals))
	v := g.W.Vals[i]
	switch g.R.Intn(4) {
	case 0, 1:
		return g.sign("STAKE", "env", &staking.Stake{ValidatorAddress: v.Key.Addr, StakeAddress: v.Owner.Addr, ValidatorPubKey: v.Key.Pub,
			ValidatorECDSAPubKey: v.EcPub, NodeName: v.Name, Stake: OLTInt(int64(1 + g.R.Intn(12)))}, v.Owner, v.Key)
	case 2:
		return g.sign("UNSTAKE", "env", &staking.Unstake{ValidatorAddress: v.Key.Addr, StakeAddress: v.Owner.Addr, Stake: OLTInt(int64(1 + g.R.Intn(8)))}, v.Owner, v.Key)
	}
	a, b := g.acct(), g.acct()
	return g.sign("SEND", "env", &transfer.Send{From: a.Addr, To: b.Addr, Amount: OLT(int64(1 + g.R.Intn(100)))}, a)
}

func stageOfItem(it *GItem) string {
	switch {
	case it == nil:
		return "new"
	case it.Copies[3] != nil || it.Copies[4] != nil:
		return "final"
	case it.Copies[1] != nil || it.Copies[2] != nil:
		return "decided"
	case it.Copies[0] != nil && it.Copies[0].Status == int(governance.ProposalStatusVoting):
		return "voting"
	case it.Copies[0] != nil:
		return "funding"
	}
	return "new"
}

func (g *govGen) outsider(p *govProp) *Acct {
	for k := 0; k < 6; k++ {
		a := g.acct()
		ok := a != p.Proposer
		for _, f := range p.Funders {
			ok = ok && f != a
		}
		if ok {
			return a
		}
	}
	return g.acct()
}

func (g *govGen) someFunder(p *govProp) *Acct { return p.Funders[g.R.Intn(len(p.Funders))] }

func (g *govGen) partial() *big.Int {
	return big.NewInt([]int64{1, 1000000000, 2500000007, 3333333337, 0}[g.R.Intn(5)])
}

// toGoal: what is missing (as of the start of the block), sometimes with an odd surplus
func (g *govGen) toGoal(it *GItem) *big.Int {
	miss := new(big.Int).Set(goalNue)
	if it != nil {
		miss.Sub(miss, it.Total)
	}
	if miss.Sign() < 0 {
		miss.SetInt64(1)
	}
	if g.R.Intn(3) == 0 {
		miss.Add(miss, big.NewInt(int64(1+g.R.Intn(99999))))
	}
	return miss
}

// nextVoter: a validator of the snapshot that has not voted yet (else any)
func (g *govGen) nextVoter(it *GItem) *Val {
	if it != nil {
		var cand []*Val
		for _, v := range it.Votes {
			if v.Opinion == 0 {
				if val := g.valOf[v.Addr]; val != nil {
					cand = append(cand, val)
				}
			}
		}
		if len(cand) > 0 {
			return cand[g.R.Intn(len(cand))]
		}
	}
	return g.W.Vals[g.R.Intn(len(g.W.Vals))]
}

func (g *govGen) hostileFund(p *govProp) govTx {
	who := g.acct()
	switch g.R.Intn(3) {
	case 0:
		return g.fundTx(p, who, big.NewInt(-1000000000), "negative")
	case 1:
		n, _ := new(big.Int).SetString("2000000000000000000000000", 10)
		return g.fundTx(p, who, n, "above-balance")
	}
	return g.fundTx(p, who, new(big.Int), "zero")
}

func (g *govGen) someWithdraw(p *govProp, it *GItem) govTx {
	f := g.someFunder(p)
	rec := big.NewInt(1000000000)
	if it != nil {
		for _, fr := range it.Funds {
			if fr.Addr == AddrStr(f.Addr) {
				rec = fr.Amount
			}
		}
	}
	benef := f
	if g.R.Intn(3) == 0 {
		benef = g.acct()
	}
	switch g.R.Intn(9) {
	case 0:
		return g.withdrawTx(p, f, new(big.Int).Add(rec, big.NewInt(1)), benef, "more-than-record")
	case 1:
		return g.withdrawTx(p, f, big.NewInt(-1000000000), benef, "negative")
	case 2:
		return g.withdrawTx(p, f, new(big.Int), benef, "zero")
	case 3:
		o := g.outsider(p)
		return g.withdrawTx(p, o, big.NewInt(1000000000), o, "not-a-funder")
	case 4, 5:
		return g.withdrawTx(p, f, new(big.Int).Rsh(rec, 1), benef, "half")
	}
	return g.withdrawTx(p, f, rec, benef, "all")
}

func (g *govGen) next(h int64, st *GState) govTx {
	if len(g.props) == 0 || g.R.Intn(12) == 0 {
		return g.envTx()
	}
	// prefer proposals that are still moving; when none is, start a new one
	var p *govProp
	live := false
	for k := 0; k < 8 && !live; k++ {
		p = g.props[g.R.Intn(len(g.props))]
		it := st.Items[p.ID]
		switch stageOfItem(it) {
		case "new", "funding", "voting":
			live = true
		case "decided":
			// an expired proposal whose goal was met can neither be refunded nor finalised any more
			_, c, _ := it.where()
			stuck := c != nil && c.Outcome == ocInsVotes && it.Total.Cmp(c.Goal) >= 0
			live = !stuck && g.R.Intn(2) == 0
		}
	}
	if !live && len(g.props) < 14 && g.R.Intn(3) != 0 {
		return g.create(h)
	}
	it := st.Items[p.ID]
	stage := stageOfItem(it)
	noise := g.R.Intn(45)
	if p.Scenario == scChaos {
		noise = g.R.Intn(8)
	}
	switch noise {
	case 0:
		return g.expireTx(p, g.outsider(p))
	case 1:
		return g.finalizeTx(p, g.outsider(p))
	case 2:
		if g.R.Intn(2) == 0 {
			return g.someWithdraw(p, it)
		}
		return g.hostileFund(p)
	}
	switch stage {
	case "new", "funding":
		var fd int64 = h + 1
		if it != nil && it.Copies[0] != nil {
			fd = it.Copies[0].FD
		}
		switch p.Scenario {
		case scCancel:
			if g.R.Intn(2) == 0 || h >= fd {
				by := p.Proposer
				note := "proposer"
				if g.R.Intn(5) == 0 {
					by, note = g.outsider(p), "not-the-proposer"
				}
				return g.cancelTx(p, by, note)
			}
			return g.fundTx(p, g.acct(), g.partial(), "partial")
		case scMiss:
			if h > fd {
				return g.someWithdraw(p, it)
			}
			if g.R.Intn(2) == 0 {
				return g.fundTx(p, g.acct(), big.NewInt(int64(1+g.R.Intn(1000))), "tiny")
			}
			return g.someWithdraw(p, it) // before the deadline: not eligible
		default:
			who := g.acct()
			if g.R.Intn(4) == 0 {
				who = p.Proposer
			}
			if g.R.Intn(3) == 0 {
				return g.fundTx(p, who, g.partial(), "partial")
			}
			return g.fundTx(p, who, g.toGoal(it), "to-goal")
		}
	case "voting":
		vd := it.Copies[0].VD
		switch g.R.Intn(10) {
		case 0:
			return g.fundTx(p, g.acct(), g.partial(), "while-voting")
		case 1:
			return g.cancelTx(p, p.Proposer, "while-voting")
		case 2:
			return g.someWithdraw(p, it)
		}
		v := g.nextVoter(it)
		switch p.Scenario {
		case scPass:
			return g.voteTx(p, v, 1, "yes")
		case scFail:
			return g.voteTx(p, v, 2, "no")
		case scExpire:
			if h <= vd-1 && g.R.Intn(3) != 0 {
				return g.envTx() // stay undecided until the deadline has passed
			}
			return g.voteTx(p, v, []int{3, 0, 1, 3}[g.R.Intn(4)], "undecided")
		default:
			return g.voteTx(p, v, g.R.Intn(4), "any")
		}
	case "decided":
		switch g.R.Intn(6) {
		case 0:
			return g.finalizeTx(p, g.outsider(p))
		case 1:
			return g.voteTx(p, g.nextVoter(it), 1, "after-decision")
		case 2:
			return g.fundTx(p, g.acct(), g.partial(), "after-decision")
		}
		return g.someWithdraw(p, it)
	default: // final
		switch g.R.Intn(4) {
		case 0:
			return g.finalizeTx(p, g.outsider(p))
		case 1:
			return g.createTx(h, p.Scenario, p.Type, "", "duplicate-id", func(m *agov.CreateProposal) { m.ProposalID = governance.ProposalID(p.ID) })
		}
		return g.someWithdraw(p, it)
	}
}

// block generates the transactions of one block from the state decoded at its start.
func (g *govGen) block(h int64, st *GState, maxTxs int) []govTx {
	var out []govTx
	switch g.script {
	case "s19":
		// regression for the repaired S19 (KF-C14-1): an outsider's EXPIRE_VOTES on a proposal in its
		// funding stage must be refused without any effect
		switch h {
		case 1, 2:
			return nil
		case 3:
			out = append(out, g.createTx(h, scChaos, governance.ProposalTypeGeneral, "", "valid", func(m *agov.CreateProposal) {
				m.FundingDeadline = h + 4
				m.VotingDeadline = m.FundingDeadline + g.W.P.VotingDeadline
			}))
			return out
		case 4:
			return []govTx{g.expireTx(g.props[0], g.outsider(g.props[0]))}
		}
	case "boundary":
		// pass percentage 67, powers 33/33/34: one NO vote of power 33 is exactly the boundary
		// (100-33)/100 = 67/100; the proposal must stay undecided (the float expression
		// (1.0 - 0.33) < 0.67 used before the repair was true)
		switch h {
		case 1, 2:
			return nil
		case 3:
			out = append(out, g.createTx(h, scChaos, governance.ProposalTypeGeneral, "", "valid", func(m *agov.CreateProposal) {
				m.FundingDeadline = h + 4
				m.VotingDeadline = m.FundingDeadline + g.W.P.VotingDeadline
			}))
			return out
		case 4:
			return []govTx{g.fundTx(g.props[0], g.props[0].Proposer, new(big.Int).Set(goalNue), "to-goal")}
		case 5:
			return []govTx{g.voteTx(g.props[0], g.W.Vals[0], 2, "no-at-boundary")}
		}
	}
	n := g.R.Intn(maxTxs + 1)
	if len(g.props) < 7 && (len(g.props) == 0 || g.R.Intn(3) == 0) {
		out = append(out, g.create(h))
		if g.R.Intn(3) == 0 && len(g.props) > 0 {
			// same-block follow-ups on the proposal just created
			p := g.props[len(g.props)-1]
			switch g.R.Intn(4) {
			case 0:
				out = append(out, g.fundTx(p, g.acct(), g.toGoal(nil), "same-block-to-goal"), g.voteTx(p, g.W.Vals[0], 1, "same-block-vote"))
			case 1:
				out = append(out, g.cancelTx(p, p.Proposer, "same-block"), g.someWithdraw(p, nil))
			case 2:
				out = append(out, g.expireTx(p, g.outsider(p)))
			default:
				out = append(out, g.fundTx(p, p.Proposer, g.partial(), "same-block"))
			}
		}
	}
	for len(out) < n {
		out = append(out, g.next(h, st))
	}
	return out
}

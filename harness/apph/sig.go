package apph

import (
	"bytes"
	"crypto/sha256"
	"encoding/hex"
	"encoding/json"
	"fmt"
	"strings"

	"github.com/Oneledger/protocol/action"
	agov "github.com/Oneledger/protocol/action/governance"
	"github.com/Oneledger/protocol/data/balance"
	"github.com/Oneledger/protocol/data/governance"
	"github.com/Oneledger/protocol/data/keys"
	"github.com/Oneledger/protocol/serialize"

	"olverif/harness/rng"
)

// Mutant classes of C04: single-field mutations of a well-formed signed transaction. Every
// mutant is re-serialised canonically, so only the signature check stands between it and execution.
var MutantClasses = []string{"payload", "fee-price", "fee-gas", "fee-currency", "memo", "type", "signer-key", "sig-bytes",
	"no-signatures", "signer-order", "extra-signature", "resigned-by-attacker", "key-algorithm", "btcec-key",
	"sig-bytes-last", "signer-key-last", "btcec-empty-signer"}

// classes that need a transaction with at least two required signers
var multiSignerClasses = []string{"signer-order", "sig-bytes-last", "signer-key-last"}

var attackerBTCEC *sigKey

// btcecAttackerKey is a real (parseable) BTCEC public key anybody can generate.
func btcecAttackerKey() *sigKey {
	if attackerBTCEC == nil {
		attackerBTCEC = newSigKey(1, "attacker", keys.BTCECSECP)
	}
	return attackerBTCEC
}

func parseSigned(tx []byte) (*action.SignedTx, bool) {
	st := &action.SignedTx{}
	if err := serialize.GetSerializer(serialize.NETWORK).Deserialize(tx, st); err != nil {
		return nil, false
	}
	return st, true
}

func serSigned(st *action.SignedTx) []byte {
	b, err := serialize.GetSerializer(serialize.NETWORK).Serialize(st)
	if err != nil {
		panic(err)
	}
	return b
}

// Mutate returns the mutant of the class, or nil when the class does not apply to the transaction.
func Mutate(tx []byte, class string, attacker *Acct, r *rng.R) []byte {
	st, ok := parseSigned(tx)
	if !ok || len(st.Signatures) == 0 {
		return nil
	}
	switch class {
	case "payload":
		// change one digit inside the JSON payload (amounts, heights, indexes)
		d := append([]byte{}, st.Data...)
		var idx []int
		for i, c := range d {
			if c >= '1' && c <= '8' {
				idx = append(idx, i)
			}
		}
		if len(idx) == 0 {
			return nil
		}
		i := idx[r.Intn(len(idx))]
		d[i]++
		var js interface{}
		if json.Unmarshal(d, &js) != nil {
			return nil
		}
		st.Data = d
	case "fee-price":
		v := st.Fee.Price.Value.BigInt()
		v.Add(v, v) // double the price: still above the minimum
	case "fee-gas":
		st.Fee.Gas++
	case "fee-currency":
		st.Fee.Price.Currency = "VT"
	case "memo":
		st.Memo = st.Memo + "x"
	case "type":
		if st.Type == action.SEND {
			st.Type = action.SENDPOOL
		} else {
			st.Type = action.SEND
		}
	case "signer-key":
		st.Signatures[0].Signer = attacker.Pub
	case "sig-bytes":
		s := append([]byte{}, st.Signatures[0].Signed...)
		if len(s) == 0 {
			return nil
		}
		s[r.Intn(len(s))] ^= 1
		st.Signatures[0].Signed = s
	case "no-signatures":
		st.Signatures = []action.Signature{}
	case "signer-order":
		if len(st.Signatures) < 2 {
			return nil
		}
		st.Signatures[0], st.Signatures[1] = st.Signatures[1], st.Signatures[0]
	case "extra-signature":
		st.Signatures = append(st.Signatures, action.Signature{Signer: attacker.Pub, Signed: attacker.Sign(st.RawTx.RawBytes())})
	case "resigned-by-attacker":
		for i := range st.Signatures {
			st.Signatures[i] = action.Signature{Signer: attacker.Pub, Signed: attacker.Sign(st.RawTx.RawBytes())}
		}
	case "key-algorithm":
		if st.Signatures[0].Signer.KeyType == keys.SECP256K1 {
			st.Signatures[0].Signer.KeyType = keys.ED25519
		} else {
			st.Signatures[0].Signer.KeyType = keys.SECP256K1
		}
	case "btcec-key":
		if st.Signatures[0].Signer.KeyType == keys.BTCECSECP {
			return nil
		}
		st.Signatures[0].Signer = keys.PublicKey{KeyType: keys.BTCECSECP, Data: st.Signatures[0].Signer.Data}
	case "sig-bytes-last":
		n := len(st.Signatures)
		if n < 2 || len(st.Signatures[n-1].Signed) == 0 {
			return nil
		}
		sg := append([]byte{}, st.Signatures[n-1].Signed...)
		sg[r.Intn(len(sg))] ^= 1
		st.Signatures[n-1].Signed = sg
	case "signer-key-last":
		n := len(st.Signatures)
		if n < 2 {
			return nil
		}
		st.Signatures[n-1] = action.Signature{Signer: attacker.Pub, Signed: attacker.Sign(st.RawTx.RawBytes())}
	case "btcec-empty-signer":
		// regression of S24: every address the signatures speak for is blanked in the payload, and
		// every signature is replaced by a BTCEC public key with bytes that are no signature at all
		d := st.Data
		for _, g := range st.Signatures {
			h, err := g.Signer.GetHandler()
			if err != nil {
				return nil
			}
			d = bytes.ReplaceAll(d, []byte(`"`+h.Address().String()+`"`), []byte(`""`))
		}
		if bytes.Equal(d, st.Data) {
			return nil
		}
		st.Data = append([]byte{}, d...)
		for i := range st.Signatures {
			st.Signatures[i] = action.Signature{Signer: btcecAttackerKey().Pub, Signed: []byte("this is not a signature")}
		}
	default:
		return nil
	}
	return serSigned(st)
}

// RunSig is the C04 monitor engine: histories on twin replicas; for executed-or-pending valid
// transactions every mutant class is offered to CheckTx (must be rejected) and delivered directly
// inside A's block (must fail and leave A's state equal to B's, which never saw the mutant).
func RunSig(seed uint64, histories, blocks, maxTxs int) (*Result, error) {
	res := NewResult("sig", seed, "case = one generated block history on twin replicas (plus one scripted regression scenario: the formerly executed EXPIRE_VOTES naming the empty address with a BTCEC key and no signature); for fresh valid signed transactions of every generated kind each of the 17 mutant classes (payload digit, fee price/gas/currency, memo, type, substituted signer key, flipped signature byte, no signatures, swapped signer order, extra signature, re-signed by another key, changed key algorithm tag, BTCEC tag, flipped byte of the LAST signature, substituted LAST signer, signer addresses blanked + BTCEC keys + junk signatures) is re-serialised canonically, offered to CheckTx and delivered directly in a block on replica A only, classes rotating per kind so that every kind meets every applicable class; three of the four funded accounts hold a SECP256K1 key and two BTCEC keys (signing with the libraries directly as specified, one BTCEC account with the repo's own handler), so originals and mutants meet three key algorithms; the unmutated original is offered to CheckTx on the same state as a positive control; monitor: every mutant has CheckTx code != 0, DeliverTx code != 0, the application stays open, and A's application hash equals B's; non-trivial = at least 10 mutants of at least 3 kinds delivered and at least 3 originals admitted; distinct = SHA-256 of the history lines")
	root := rng.New(seed*911 + 29)
	kindRound, pairs, algPairs := map[string]int{}, map[string]bool{}, map[string]bool{}
	seenHist := map[[32]byte]bool{}
	for c := 0; c < histories; c++ {
		r := root.Fork()
		hl := &HistoryLog{}
		hl.Add("sig history seed=%d case=%d", seed, c)
		p := paramsFor(r, seed*1000+uint64(c))
		w := NewWorld(p)
		mixAccountAlgorithms(w)
		A, err := NewReplica(w, Identity{Name: "A", Val: w.Vals[0]})
		if err != nil {
			return nil, err
		}
		B, err := NewReplica(w, Identity{Name: "B", Val: w.Vals[0]})
		if err != nil {
			return nil, err
		}
		A.InitChain()
		B.InitChain()
		sim := NewSim(w)
		g := NewGen(w, r.Fork())
		attacker := NewAcct(seed, fmt.Sprintf("attacker-%d", c))
		wt := AllWeights()
		mutants, kinds, originalsAdmitted := 0, map[string]bool{}, 0
	hist:
		for bi := 0; bi < blocks; bi++ {
			g.Height = sim.Height + 1
			var gts []GenTx
			var txs [][]byte
			for i, n := 0, r.Intn(maxTxs+1); i < n; i++ {
				t := g.Next(wt)
				gts = append(gts, t)
				txs = append(txs, t.Bytes)
			}
			bo := genBlockOpts(r, p.NVals)
			b := sim.NextBlock(txs, bo)
			logBlock(hl, b, gts, bo)
			// mutants are derived from a fresh valid transaction that is NOT itself in the block,
			// so that a mutant's acceptance cannot be explained by an index hit
			var extra [][]byte
			var extraNote, extraClass []string
			for k := 0; k < 3; k++ {
				base := g.Next(wt)
				if base.Note == "wrong-signer" || base.Note == "low-gas" {
					continue
				}
				// classes rotate per kind, so that every kind meets every applicable class
				var class string
				var m []byte
				for try := 0; try < len(MutantClasses) && m == nil; try++ {
					class = MutantClasses[kindRound[base.Kind]%len(MutantClasses)]
					kindRound[base.Kind]++
					m = Mutate(base.Bytes, class, attacker, r)
				}
				if m == nil {
					continue
				}
				if bst, ok := parseSigned(base.Bytes); ok && len(bst.Signatures) > 0 {
					res.Distribution["base-signed-with:"+algNames[bst.Signatures[0].Signer.KeyType]]++
					algPairs[algNames[bst.Signatures[0].Signer.KeyType]+"/"+class] = true
				}
				pairs[base.Kind+"/"+class] = true
				res.Distribution["kind:"+base.Kind]++
				cr := A.CheckTx(m)
				res.Distribution[fmt.Sprintf("check:%s:%d", class, cr.Code)]++
				hl.Add("  mutant %s of %s checktx=%d %x", class, base.Kind, cr.Code, m)
				if A.Crashed {
					// a mutant that got past Validate far enough to panic: the application closed itself
					hitOnce(res, "app-closed-by-panic-in-checktx:"+class, c, fmt.Sprintf("%s mutant of %s at height %d", class, base.Kind, b.Height), hl.Lines)
					break hist
				}
				if cr.Code == 0 {
					hitOnce(res, "mutant-admitted-by-checktx:"+class, c, fmt.Sprintf("%s mutant of %s admitted at height %d", class, base.Kind, b.Height), hl.Lines)
				}
				extra = append(extra, m)
				extraNote = append(extraNote, class+" of "+base.Kind)
				extraClass = append(extraClass, class)
				mutants++
				kinds[base.Kind] = true
				// positive control: the unmutated transaction on the same state (so a rejected
				// mutant is not explained by the base being unacceptable anyway)
				c0 := A.CheckTx(base.Bytes)
				res.Distribution[fmt.Sprintf("check:original:%d", c0.Code)]++
				if c0.Code == 0 {
					if bst, ok := parseSigned(base.Bytes); ok && len(bst.Signatures) > 0 {
						res.Distribution["original-admitted-signed-with:"+algNames[bst.Signatures[0].Signer.KeyType]]++
					}
					originalsAdmitted++
					res.Counters["originals-admitted"]++
					res.Distribution["rejected-mutant-of-admitted-original:"+class] += int(cr.Code & 1)
				}
			}
			rb := B.ExecBlock(b)
			ba := *b
			ba.Txs = append(append([][]byte{}, b.Txs...), extra...)
			ra := A.ExecBlock(&ba)
			if B.Crashed {
				// the history itself stops the application, mutants or not: not this property's business (C18)
				res.Distribution["history-closed-the-app-without-mutants"]++
				break hist
			}
			if A.Crashed {
				hitOnce(res, "app-closed-by-panic-with-mutants", c, fmt.Sprintf("block %d with mutants %v (the twin executed the same block without them)", b.Height, extraNote), hl.Lines)
				break hist
			}
			var executed []string
			for i := range extra {
				tr := ra.Txs[len(b.Txs)+i]
				res.Distribution[fmt.Sprintf("deliver:%d", tr.Code)]++
				if tr.Code == 0 {
					executed = append(executed, extraClass[i])
					hitOnce(res, "mutant-executed-by-delivertx:"+extraClass[i], c, fmt.Sprintf("block %d: %s returned code 0 when delivered directly", b.Height, extraNote[i]), hl.Lines)
				}
			}
			cmp := &BlockResult{Height: ra.Height, Txs: ra.Txs[:len(rb.Txs)], Updates: ra.Updates, AppHash: ra.AppHash}
			if cmp.Transcript() != rb.Transcript() {
				sg := "mutant-changed-state"
				if len(executed) > 0 {
					sg += ":" + executed[0] // the state change of a mutant already reported as executed
				}
				hitOnce(res, sg, c, fmt.Sprintf("block %d mutants %v: %s", b.Height, extraNote, diffDumps(A.Dump(), B.Dump())), hl.Lines)
				break hist
			}
			sim.Absorb(b, rb)
		}
		A.Close()
		B.Close()
		res.Evaluations++
		hh := sha256.Sum256([]byte(strings.Join(hl.Lines, "\n")))
		if !seenHist[hh] {
			seenHist[hh] = true
			if mutants >= 10 && len(kinds) >= 3 && originalsAdmitted >= 3 {
				res.DistinctNontrivial++
			}
		}
		if len(res.Samples) < 2 {
			res.Samples = append(res.Samples, shortAll(hl.Lines[:min(len(hl.Lines), 25)]))
		}
		TruncateAppLog()
	}
	// every algorithm the originals were signed with must have been admitted at least once
	for _, alg := range []string{"ed25519", "secp256k1", "btcec"} {
		if res.Distribution["base-signed-with:"+alg] >= 100 && res.Distribution["original-admitted-signed-with:"+alg] == 0 {
			hitOnce(res, "originals-of-algorithm-never-admitted:"+alg, 0, fmt.Sprintf("%d correctly signed originals with %s keys, none admitted by CheckTx", res.Distribution["base-signed-with:"+alg], alg), nil)
		}
	}
	res.Counters["kind-class-pairs"] = len(pairs)
	res.Counters["kinds"] = len(kindRound)
	res.Counters["algorithm-class-pairs"] = len(algPairs)
	if histories > 0 && res.Counters["originals-admitted"] == 0 {
		return nil, fmt.Errorf("sig: no unmutated transaction was admitted by CheckTx in %d histories: the mutant verdicts would be vacuous", histories)
	}
	// the scripted regression of the repaired BTCEC defect (/repo d272d58), executed on the implementation
	if err := S24Probe(seed, res); err != nil {
		return nil, err
	}
	res.Evaluations++
	return res, nil
}

// S24Probe replays the scenario of the repaired defect S24 (BTCEC keys verified nothing and had
// the empty address; fixed in /repo d272d58) on the real application:
// block 1 creates a proposal (properly signed); block 2 carries, on replica A only, an
// EXPIRE_VOTES whose required signer is the empty address, "signed" by a BTCEC public key with
// bytes that are no signature. The property demands CheckTx != 0, DeliverTx != 0, A == B.
func S24Probe(seed uint64, res *Result) error {
	hl := &HistoryLog{}
	p := SmallParams(seed*1000 + 999)
	w := NewWorld(p)
	A, err := NewReplica(w, Identity{Name: "A", Val: w.Vals[0]})
	if err != nil {
		return err
	}
	defer A.Close()
	B, err := NewReplica(w, Identity{Name: "B", Val: w.Vals[0]})
	if err != nil {
		return err
	}
	defer B.Close()
	A.InitChain()
	B.InitChain()
	sim := NewSim(w)
	a := w.Accts[0]
	id := pid(fmt.Sprintf("s24-probe-%d", seed))
	create := Tx(&agov.CreateProposal{ProposalID: id, ProposalType: governance.ProposalTypeGeneral, Headline: "h", Description: "d", Proposer: a.Addr,
		InitialFunding: action.Amount{Currency: "OLT", Value: *balance.NewAmount(1000000000)}, FundingDeadline: 1 + p.FundingDeadline,
		FundingGoal: balance.NewAmount(10000000000), VotingDeadline: 1 + p.FundingDeadline + p.VotingDeadline, PassPercentage: 51}, "s24-create", a)
	b1 := sim.NextBlock([][]byte{create}, BlockOpts{DtSeconds: 1})
	hl.Add("probe s24 seed=%d", seed)
	hl.Add("block 1 txs=1")
	hl.Add("  tx 0 PROPOSAL_CREATE (valid) %x", create)
	r1 := A.ExecBlock(b1)
	B.ExecBlock(b1)
	sim.Absorb(b1, r1)
	if r1.Txs[0].Code != 0 {
		return fmt.Errorf("s24 probe: the proposal could not be created: %s", r1.Txs[0].Log)
	}
	raw := RawOf(&agov.ExpireVotes{ProposalID: id, ValidatorAddress: keys.Address{}}, DefaultFee(), "s24-unsigned")
	st := action.SignedTx{RawTx: raw, Signatures: []action.Signature{{Signer: btcecAttackerKey().Pub, Signed: []byte("this is not a signature")}}}
	unsigned := serSigned(&st)
	hl.Add("block 2 txs=1 (replica A only)")
	hl.Add("  tx 0 EXPIRE_VOTES validatorAddress=\"\" signer=BTCEC %x signed=%q : %x", btcecAttackerKey().Pub.Data, "this is not a signature", unsigned)
	cr := A.CheckTx(unsigned)
	res.Distribution[fmt.Sprintf("s24-probe:check:%d", cr.Code)]++
	if cr.Code == 0 {
		hitOnce(res, "unsigned-tx-admitted-by-checktx:btcec-empty-signer", 0, "EXPIRE_VOTES with the empty address as required signer, a BTCEC public key and 23 bytes of text as signature: CheckTx code 0", hl.Lines)
	}
	b2 := sim.NextBlock(nil, BlockOpts{DtSeconds: 1})
	rb := B.ExecBlock(b2)
	ba := *b2
	ba.Txs = [][]byte{unsigned}
	ra := A.ExecBlock(&ba)
	res.Distribution[fmt.Sprintf("s24-probe:deliver:%d", ra.Txs[0].Code)]++
	if ra.Txs[0].Code == 0 {
		var moved []string
		for _, kvp := range A.Dump() {
			if strings.Contains(string(kvp[0]), string(id)) {
				moved = append(moved, string(kvp[0]))
			}
		}
		d := diffDumps(A.Dump(), B.Dump())
		same := hex.EncodeToString(ra.AppHash) == hex.EncodeToString(rb.AppHash)
		hitOnce(res, "unsigned-tx-executed:btcec-empty-signer", 0, fmt.Sprintf("DeliverTx code 0; application hash equal to the replica that never saw it: %v; proposal keys on A: %v; %s", same, moved, d), hl.Lines)
	}
	return nil
}

// ReplaySigHistory re-executes a logged history of the sig engine (lines `sig history seed= case=`,
// `block …`, `  tx …`, `  mutant …`) on fresh twin replicas with the same monitors.
func ReplaySigHistory(lines []string, res *Result, out func(string)) error {
	var seed uint64
	var c int
	if _, err := fmt.Sscanf(lines[0], "sig history seed=%d case=%d", &seed, &c); err != nil {
		return fmt.Errorf("not a sig history: %v", err)
	}
	root := rng.New(seed*911 + 29)
	for i := 0; i < c; i++ {
		root.Fork()
	}
	r := root.Fork()
	p := paramsFor(r, seed*1000+uint64(c))
	w := NewWorld(p)
	mixAccountAlgorithms(w)
	A, err := NewReplica(w, Identity{Name: "A", Val: w.Vals[0]})
	if err != nil {
		return err
	}
	defer A.Close()
	B, err := NewReplica(w, Identity{Name: "B", Val: w.Vals[0]})
	if err != nil {
		return err
	}
	defer B.Close()
	A.InitChain()
	B.InitChain()
	sim := NewSim(w)
	type blk struct {
		head          string
		txs, mutants  [][]byte
		mutantClasses []string
	}
	var blocks []*blk
	for _, l := range lines[1:] {
		f := strings.Fields(l)
		switch {
		case len(f) > 1 && f[0] == "block":
			blocks = append(blocks, &blk{head: l})
		case len(f) > 2 && f[0] == "tx" && len(blocks) > 0:
			b, err := hex.DecodeString(f[len(f)-1])
			if err != nil {
				return err
			}
			blocks[len(blocks)-1].txs = append(blocks[len(blocks)-1].txs, b)
		case len(f) > 2 && f[0] == "mutant" && len(blocks) > 0:
			b, err := hex.DecodeString(f[len(f)-1])
			if err != nil {
				return err
			}
			blocks[len(blocks)-1].mutants = append(blocks[len(blocks)-1].mutants, b)
			blocks[len(blocks)-1].mutantClasses = append(blocks[len(blocks)-1].mutantClasses, f[1])
		}
	}
	for _, bl := range blocks {
		var h int64
		o := BlockOpts{}
		var absent, byz string
		var n int
		if _, err := fmt.Sscanf(strings.ReplaceAll(strings.ReplaceAll(bl.head, "[ ", "["), " ]", "]"), "block %d dt=%d absent=%s byz=%s", &h, &o.DtSeconds, &absent, &byz); err != nil {
			// byz may contain spaces ("[1 2]"): fall back to a tolerant parse
			fmt.Sscanf(bl.head, "block %d dt=%d absent=%s", &h, &o.DtSeconds, &absent)
			if i := strings.Index(bl.head, "byz="); i >= 0 {
				byz = bl.head[i+4:]
				if j := strings.Index(byz, "]"); j >= 0 {
					byz = byz[:j+1]
				}
			}
		}
		_ = n
		for _, x := range strings.FieldsFunc(strings.Trim(absent, "[]"), func(c rune) bool { return c == ',' }) {
			var i int
			if _, err := fmt.Sscan(x, &i); err == nil {
				if o.Absent == nil {
					o.Absent = map[int]bool{}
				}
				o.Absent[i] = true
			}
		}
		for _, x := range strings.Fields(strings.Trim(byz, "[]")) {
			var i int
			if _, err := fmt.Sscan(x, &i); err == nil {
				o.Byzantine = append(o.Byzantine, i)
			}
		}
		b := sim.NextBlock(bl.txs, o)
		for i, m := range bl.mutants {
			cr := A.CheckTx(m)
			out(fmt.Sprintf("block %d mutant %s checktx=%d closed=%v", b.Height, bl.mutantClasses[i], cr.Code, A.Crashed))
			if A.Crashed {
				hitOnce(res, "app-closed-by-panic-in-checktx:"+bl.mutantClasses[i], c, fmt.Sprintf("height %d", b.Height), nil)
				return nil
			}
			if cr.Code == 0 {
				hitOnce(res, "mutant-admitted-by-checktx:"+bl.mutantClasses[i], c, fmt.Sprintf("height %d", b.Height), nil)
			}
		}
		rb := B.ExecBlock(b)
		ba := *b
		ba.Txs = append(append([][]byte{}, b.Txs...), bl.mutants...)
		ra := A.ExecBlock(&ba)
		out(fmt.Sprintf("block %d txs=%d mutants=%d closed: A=%v B=%v", b.Height, len(bl.txs), len(bl.mutants), A.Crashed, B.Crashed))
		if B.Crashed {
			out("the history closes the application without any mutant (not a C04 matter)")
			return nil
		}
		if A.Crashed {
			hitOnce(res, "app-closed-by-panic-with-mutants", c, fmt.Sprintf("block %d with mutants %v", b.Height, bl.mutantClasses), nil)
			return nil
		}
		var executed []string
		for i := range bl.mutants {
			if tr := ra.Txs[len(b.Txs)+i]; tr.Code == 0 {
				executed = append(executed, bl.mutantClasses[i])
				hitOnce(res, "mutant-executed-by-delivertx:"+bl.mutantClasses[i], c, fmt.Sprintf("block %d", b.Height), nil)
			}
		}
		cmp := &BlockResult{Height: ra.Height, Txs: ra.Txs[:len(rb.Txs)], Updates: ra.Updates, AppHash: ra.AppHash}
		if cmp.Transcript() != rb.Transcript() {
			sg := "mutant-changed-state"
			if len(executed) > 0 {
				sg += ":" + executed[0]
			}
			hitOnce(res, sg, c, fmt.Sprintf("block %d: %s", b.Height, diffDumps(A.Dump(), B.Dump())), nil)
			return nil
		}
		sim.Absorb(b, rb)
	}
	return nil
}

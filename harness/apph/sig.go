package apph

import (
	"encoding/json"
	"fmt"

	"github.com/Oneledger/protocol/action"
	"github.com/Oneledger/protocol/data/keys"
	"github.com/Oneledger/protocol/serialize"

	"olverif/harness/rng"
)

// Mutant classes of C04: single-field mutations of a well-formed signed transaction. Every
// mutant is re-serialised canonically, so only the signature check stands between it and execution.
var MutantClasses = []string{"payload", "fee-price", "fee-gas", "fee-currency", "memo", "type", "signer-key", "sig-bytes",
	"no-signatures", "signer-order", "extra-signature", "resigned-by-attacker", "key-algorithm", "btcec-key"}

func parseSigned(tx []byte) (*action.SignedTx, bool) {
	st := &action.SignedTx{}
	if err := serialize.GetSerializer(serialize.NETWORK).Deserialize(tx, st); err != nil {
		return nil, false
	}
	return st, true
}

func serSigned(st *action.SignedTx) []byte {
	b, err := serialize.GetSerializer(serialize.NETWORK).Serialize(st)
	if err != nil {
		panic(err)
	}
	return b
}

// Mutate returns the mutant of the class, or nil when the class does not apply to the transaction.
func Mutate(tx []byte, class string, attacker *Acct, r *rng.R) []byte {
	st, ok := parseSigned(tx)
	if !ok || len(st.Signatures) == 0 {
		return nil
	}
	switch class {
	case "payload":
		// change one digit inside the JSON payload (amounts, heights, indexes)
		d := append([]byte{}, st.Data...)
		var idx []int
		for i, c := range d {
			if c >= '1' && c <= '8' {
				idx = append(idx, i)
			}
		}
		if len(idx) == 0 {
			return nil
		}
		i := idx[r.Intn(len(idx))]
		d[i]++
		var js interface{}
		if json.Unmarshal(d, &js) != nil {
			return nil
		}
		st.Data = d
	case "fee-price":
		v := st.Fee.Price.Value.BigInt()
		v.Add(v, v) // double the price: still above the minimum
	case "fee-gas":
		st.Fee.Gas++
	case "fee-currency":
		st.Fee.Price.Currency = "VT"
	case "memo":
		st.Memo = st.Memo + "x"
	case "type":
		if st.Type == action.SEND {
			st.Type = action.SENDPOOL
		} else {
			st.Type = action.SEND
		}
	case "signer-key":
		st.Signatures[0].Signer = attacker.Pub
	case "sig-bytes":
		s := append([]byte{}, st.Signatures[0].Signed...)
		if len(s) == 0 {
			return nil
		}
		s[r.Intn(len(s))] ^= 1
		st.Signatures[0].Signed = s
	case "no-signatures":
		st.Signatures = []action.Signature{}
	case "signer-order":
		if len(st.Signatures) < 2 {
			return nil
		}
		st.Signatures[0], st.Signatures[1] = st.Signatures[1], st.Signatures[0]
	case "extra-signature":
		st.Signatures = append(st.Signatures, action.Signature{Signer: attacker.Pub, Signed: attacker.Sign(st.RawTx.RawBytes())})
	case "resigned-by-attacker":
		for i := range st.Signatures {
			st.Signatures[i] = action.Signature{Signer: attacker.Pub, Signed: attacker.Sign(st.RawTx.RawBytes())}
		}
	case "key-algorithm":
		st.Signatures[0].Signer.KeyType = keys.SECP256K1
	case "btcec-key":
		st.Signatures[0].Signer = keys.PublicKey{KeyType: keys.BTCECSECP, Data: st.Signatures[0].Signer.Data}
	default:
		return nil
	}
	return serSigned(st)
}

// RunSig is the C04 monitor engine: histories on twin replicas; for executed-or-pending valid
// transactions every mutant class is offered to CheckTx (must be rejected) and delivered directly
// inside A's block (must fail and leave A's state equal to B's, which never saw the mutant).
func RunSig(seed uint64, histories, blocks, maxTxs int) (*Result, error) {
	res := NewResult("sig", seed, "case = one generated block history on twin replicas; for valid signed transactions of every kind each of the 14 mutant classes (payload digit, fee price/gas/currency, memo, type, substituted signer key, flipped signature byte, no signatures, swapped signer order, extra signature, re-signed by another key, changed key algorithm tag, BTCEC key) is re-serialised canonically, offered to CheckTx and delivered directly in a block on replica A only; monitor: the unmutated original is admitted, every mutant has CheckTx code != 0, DeliverTx code != 0, and A's application hash equals B's; non-trivial = at least 10 mutants of at least 3 kinds delivered; distinct = SHA-256 of the lines")
	root := rng.New(seed*911 + 29)
	for c := 0; c < histories; c++ {
		r := root.Fork()
		hl := &HistoryLog{}
		p := paramsFor(r, seed*1000+uint64(c))
		w := NewWorld(p)
		A, err := NewReplica(w, Identity{Name: "A", Val: w.Vals[0]})
		if err != nil {
			return nil, err
		}
		B, err := NewReplica(w, Identity{Name: "B", Val: w.Vals[0]})
		if err != nil {
			return nil, err
		}
		A.InitChain()
		B.InitChain()
		sim := NewSim(w)
		g := NewGen(w, r.Fork())
		attacker := NewAcct(seed, fmt.Sprintf("attacker-%d", c))
		wt := AllWeights()
		mutants, kinds := 0, map[string]bool{}
	hist:
		for bi := 0; bi < blocks; bi++ {
			g.Height = sim.Height + 1
			var gts []GenTx
			var txs [][]byte
			for i, n := 0, r.Intn(maxTxs+1); i < n; i++ {
				t := g.Next(wt)
				gts = append(gts, t)
				txs = append(txs, t.Bytes)
			}
			bo := genBlockOpts(r, p.NVals)
			b := sim.NextBlock(txs, bo)
			logBlock(hl, b, gts, bo)
			// mutants are derived from a fresh valid transaction that is NOT itself in the block,
			// so that a mutant's acceptance cannot be explained by an index hit
			var extra [][]byte
			var extraNote []string
			for k := 0; k < 3; k++ {
				base := g.Next(wt)
				if base.Note == "wrong-signer" || base.Note == "low-gas" {
					continue
				}
				class := MutantClasses[r.Intn(len(MutantClasses))]
				m := Mutate(base.Bytes, class, attacker, r)
				if m == nil {
					continue
				}
				cr := A.CheckTx(m)
				res.Distribution[fmt.Sprintf("check:%s:%d", class, cr.Code)]++
				hl.Add("  mutant %s of %s checktx=%d %x", class, base.Kind, cr.Code, m)
				if cr.Code == 0 {
					res.Hit("mutant-admitted-by-checktx:"+class, c, fmt.Sprintf("%s mutant of %s admitted at height %d", class, base.Kind, b.Height), hl.Lines)
				}
				extra = append(extra, m)
				extraNote = append(extraNote, class+" of "+base.Kind)
				mutants++
				kinds[base.Kind] = true
			}
			rb := B.ExecBlock(b)
			ba := *b
			ba.Txs = append(append([][]byte{}, b.Txs...), extra...)
			ra := A.ExecBlock(&ba)
			if A.Crashed {
				res.Hit("app-closed-by-panic", c, fmt.Sprintf("block %d with mutants %v", b.Height, extraNote), hl.Lines)
				break hist
			}
			for i := range extra {
				tr := ra.Txs[len(b.Txs)+i]
				res.Distribution[fmt.Sprintf("deliver:%d", tr.Code)]++
				if tr.Code == 0 {
					res.Hit("mutant-executed-by-delivertx", c, fmt.Sprintf("block %d: %s returned code 0 when delivered directly", b.Height, extraNote[i]), hl.Lines)
				}
			}
			cmp := &BlockResult{Height: ra.Height, Txs: ra.Txs[:len(rb.Txs)], Updates: ra.Updates, AppHash: ra.AppHash}
			if cmp.Transcript() != rb.Transcript() {
				res.Hit("mutant-changed-state", c, fmt.Sprintf("block %d mutants %v: %s", b.Height, extraNote, diffDumps(B.Dump(), A.Dump())), hl.Lines)
				break hist
			}
			sim.Absorb(b, rb)
		}
		A.Close()
		B.Close()
		res.Evaluations++
		if mutants >= 10 && len(kinds) >= 3 {
			res.DistinctNontrivial++
		}
		if len(res.Samples) < 2 {
			res.Samples = append(res.Samples, shortAll(hl.Lines[:min(len(hl.Lines), 25)]))
		}
		TruncateAppLog()
	}
	return res, nil
}

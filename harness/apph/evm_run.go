package apph

import (
	"crypto/sha256"
	"encoding/hex"
	"fmt"
	"math/big"
	"strings"

	ethcmn "github.com/ethereum/go-ethereum/common"

	"olverif/harness/rng"
)

// EvCase is one interface-op case: starting accounts + ops.
type EvCase struct {
	Start []EvAcct
	Ops   []EvOp
}

// evOutcome is what running a case on both implementations gave.
type evOutcome struct {
	Lines   []string // `new …` + the executed op lines (a subbal may have been clamped)
	Adapter []string // canonical outputs of the adapter, one per line ("ok" for `new`)
	Geth    []string // canonical outputs of go-ethereum's state
	DiffAt  int      // index of the first line on which the two differ (-1: none)
	Sig     string   // monitor signature of that difference
	Detail  string
	Feat    map[string]int
}

// case-level features the classifier uses (all taken from the reference side or the op text)
type evFeatures struct {
	deleted   map[ethcmn.Address]bool // existed, then gone at a Finalise (self-destruct or empty-account deletion)
	recreated map[ethcmn.Address]bool // CreateAccount over a live account
	tomb      map[ethcmn.Address]bool // code == the TOMBSTONE marker was set / started with
	emptyEx   map[ethcmn.Address]bool // existed as an empty account in committed state
	balRev    map[ethcmn.Address]bool // a balance change of the address was reverted in the current tx
	balTouch  map[ethcmn.Address][]int
	snaps     map[int]int // revision id -> number of balance ops seen when taken
	balOps    []ethcmn.Address
	before    map[ethcmn.Address]bool
}

func newEvFeatures() *evFeatures {
	return &evFeatures{deleted: map[ethcmn.Address]bool{}, recreated: map[ethcmn.Address]bool{}, tomb: map[ethcmn.Address]bool{},
		emptyEx: map[ethcmn.Address]bool{}, balRev: map[ethcmn.Address]bool{}, snaps: map[int]int{}}
}

// pre: execution-time adjustment of the op and feature tracking before it runs (reference side).
// Returns true when a SubBalance exceeds the reference balance and is kept (hostile).
func (f *evFeatures) pre(o *EvOp, ge evAPI, addrs []ethcmn.Address, hostile bool) (under bool) {
	switch o.K {
	case "subbal":
		if bal := ge.GetBalance(o.A); o.N.Cmp(bal) > 0 {
			if hostile {
				under = true
			} else {
				o.N = new(big.Int).Set(bal)
			}
		}
		f.balOps = append(f.balOps, o.A)
	case "addbal":
		if o.N.Sign() != 0 {
			f.balOps = append(f.balOps, o.A)
		}
	case "create":
		if ge.Exist(o.A) {
			f.recreated[o.A] = true
			f.balOps = append(f.balOps, o.A) // the adapter carries the balance over with a journaled SetBalance
		}
	case "suicide":
		if ge.Exist(o.A) {
			f.balOps = append(f.balOps, o.A)
		}
	case "setcode":
		if string(o.Code) == string(evTombCode) {
			f.tomb[o.A] = true
		}
	case "finalise":
		f.before = map[ethcmn.Address]bool{}
		for _, a := range addrs {
			f.before[a] = ge.Exist(a)
		}
	}
	return under
}

// post: feature tracking after the op ran on the reference (y = its output).
func (f *evFeatures) post(o EvOp, y string, ge evAPI, addrs []ethcmn.Address) {
	switch o.K {
	case "snap":
		if strings.HasPrefix(y, "n ") {
			var id int
			fmt.Sscanf(y, "n %d", &id)
			f.snaps[id] = len(f.balOps)
		}
	case "revert":
		if y == "u" {
			if n, ok := f.snaps[int(o.N.Int64())]; ok && n <= len(f.balOps) {
				for _, a := range f.balOps[n:] {
					f.balRev[a] = true
				}
			}
		}
	case "finalise":
		for _, a := range addrs {
			if f.before[a] && !ge.Exist(a) {
				f.deleted[a] = true
			}
			if isEmptyAcct(ge, a) {
				f.emptyEx[a] = true
			}
		}
		f.balOps = nil
		f.snaps = map[int]int{}
	}
}

func isEmptyAcct(s evAPI, a ethcmn.Address) bool { return s.Exist(a) && s.Empty(a) }

// runCase executes the case on a fresh adapter and a fresh reference.
// hostile: keep SubBalance amounts that exceed the balance (the adapter panics, go-ethereum goes
// negative: a precondition of the interface, counted, not a finding).
func (u *evUniverse) runCase(c EvCase, hostile bool) *evOutcome {
	names := codeNames{}
	for _, code := range u.Codes {
		names.add(code)
	}
	out := &evOutcome{DiffAt: -1, Feat: map[string]int{}}
	out.Lines = append(out.Lines, evStartLine(c.Start, names))
	out.Adapter = append(out.Adapter, "ok")
	out.Geth = append(out.Geth, "ok")
	w := NewEvAdapter(c.Start)
	g := NewEvGeth(c.Start)
	defer w.DB.Close()
	ad := adapterAPI{w.SDB, w}
	ge := &gethAPI{StateDB: g.S, g: g, touchC: true}
	f := newEvFeatures()
	for _, a := range c.Start {
		if string(a.Code) == string(evTombCode) {
			f.tomb[a.Addr] = true
		}
		if a.Keeper && a.Nonce == 0 && a.Balance.Sign() == 0 && len(a.Code) == 0 {
			f.emptyEx[a.Addr] = true
		}
	}
	for _, o := range c.Ops {
		under := f.pre(&o, ge, u.Addrs, hostile)
		line := o.Line()
		var x, y, pmsg string
		if o.K == "dump" {
			x = u.dumpAdapter(w, names, nil)
			y = u.dumpWorld(ge, names)
		} else {
			x = evExec(ad, o, names, &pmsg)
			y = evExec(ge, o, names, nil)
		}
		out.Lines = append(out.Lines, line)
		out.Adapter = append(out.Adapter, x)
		out.Geth = append(out.Geth, y)
		out.Feat["op:"+o.K]++
		f.post(o, y, ge, u.Addrs)
		if o.K == "dump" {
			// record level (8684164): right after Finalise the raw balance and storage records of every
			// address equal the reference's committed state; an account the reference does not have
			// has none (invisible through the interface: a created object hides old records)
			if d := u.recordsDiffer(w, ge); d != "" {
				out.DiffAt = len(out.Lines) - 1
				out.Sig, out.Detail = "records-differ-from-reference", d
				break
			}
			continue
		}
		if under {
			// SubBalance beyond the balance: outside the interface's precondition (the EVM checks
			// CanTransfer first); the adapter panics, go-ethereum's balance goes negative
			out.DiffAt = len(out.Lines) - 1
			out.Sig, out.Detail = "precondition:subbalance-underflow", fmt.Sprintf("op %q adapter=%q reference=%q", line, x, y)
			break
		}
		if o.K == "finalise" && x == "panic" && strings.Contains(pmsg, "reserved for pending deletes") {
			// a code equal to the store's deletion marker: the store refuses the record and Finalise
			// fails the transaction (078c4d3); the reference has no such error.  A documented
			// exclusion of the property's input class, not a divergence of what is read back.
			out.DiffAt = len(out.Lines) - 1
			out.Sig, out.Detail = "excluded:code-equals-deletion-marker", fmt.Sprintf("op %q adapter=%q (%s) reference=%q", line, x, pmsg, y)
			break
		}
		if x == "panic" && y == "panic" {
			out.Feat["both-panic:"+o.K]++
			break // both refuse: the case ends here
		}
		if x != y {
			out.DiffAt = len(out.Lines) - 1
			out.Sig, out.Detail = f.classify(o, x, y, pmsg)
			break
		}
	}
	return out
}

// recordsDiffer compares the adapter's raw balance and storage records of the universe with what
// the reference holds (valid right after Finalise, when nothing is pending in either).
func (u *evUniverse) recordsDiffer(w *EvAdapter, ge evAPI) string {
	for _, a := range u.sortedAddrs() {
		exists := ge.Exist(a)
		want := new(big.Int)
		if exists {
			want = ge.GetBalance(a)
		}
		if got := w.rawBalance(a); got.Cmp(want) != 0 {
			return fmt.Sprintf("balance record of %s: %s, reference %s (exists=%v)", natAddr(a), got, want, exists)
		}
		for _, k := range u.Slots {
			var wantS ethcmn.Hash
			if exists {
				wantS = ge.GetState(a, k)
			}
			if got := w.rawSlot(a, k); got != wantS {
				return fmt.Sprintf("storage record %s[%s]: %s, reference %s (exists=%v)", natAddr(a), natHash(k), natHash(got), natHash(wantS), exists)
			}
		}
	}
	return ""
}

func fieldsDiffer(x, y string) map[int]bool {
	fx, fy := strings.Fields(x), strings.Fields(y)
	d := map[int]bool{}
	for i := 0; i < len(fx) || i < len(fy); i++ {
		if i >= len(fx) || i >= len(fy) || fx[i] != fy[i] {
			d[i] = true
		}
	}
	return d
}

func subset(d map[int]bool, allowed ...int) bool {
	for i := range d {
		ok := false
		for _, a := range allowed {
			if a == i {
				ok = true
			}
		}
		if !ok {
			return false
		}
	}
	return true
}

// classify names the first adapter-vs-reference difference of a case.  Every signature other than
// the last is the fingerprint of one mechanism read in the code (DESIGN §7 S8 and the notes in
// OLP/Props/C16.lean), all repaired in /repo by now: they stay as the fingerprints of a regression
// and none of them is a listed known finding.  Anything that does not fit one exactly is
// "adapter-differs-from-reference".
func (f *evFeatures) classify(o EvOp, x, y, pmsg string) (string, string) {
	detail := fmt.Sprintf("op %q adapter=%q reference=%q", o.Line(), x, y)
	if pmsg != "" {
		detail += " panic=" + pmsg
	}
	if x == "panic" {
		switch {
		case strings.Contains(pmsg, "index out of range") && (o.K == "addbal" || o.K == "subbal" || o.K == "setnonce" || o.K == "setcode" || o.K == "setstate" || o.K == "suicide" || o.K == "create" || o.K == "revert"):
			return "journal-dirty-index-stale", detail
		case strings.Contains(pmsg, "Failed to minus balance") && o.K == "subbal":
			return "precondition:subbalance-underflow", detail
		}
		if y != "panic" {
			// inside a transaction this panic reaches handlePanic, which closes the application (C18)
			return "adapter-panics-where-reference-does-not", detail
		}
		return "adapter-differs-from-reference", detail
	}
	a := o.A
	switch o.K {
	case "obs", "exist", "empty", "getbal", "codehash", "code", "codesize", "getnonce":
		// acct <exist> <empty> <suicided> <nonce> <balance> <codehash> <code> <size>
		d := fieldsDiffer(x, y)
		fx, fy := strings.Fields(x), strings.Fields(y)
		if o.K == "obs" {
			if f.tomb[a] && subset(d, 7, 8) && fx[7] == "0" && fy[7] == natCode(evTombCode) {
				return "tombstone-literal-code", detail
			}
			if f.deleted[a] && subset(d, 1, 2, 5, 6) && fy[1] == "0" && fx[1] == "1" && fx[5] != "0" && fx[4] == "0" && fx[7] == "0" {
				// the reference has no account; the adapter shows a nonce-0 code-less account holding a balance
				return "deleted-account-keeps-balance", detail
			}
			if f.deleted[a] && subset(d, 2, 5) && d[5] && fx[1] == "1" && fy[1] == "1" && bigGreater(fx[5], fy[5]) {
				// the account was created again: the reference starts it at zero, the adapter on top of the old balance record
				return "deleted-account-keeps-balance", detail
			}
			if f.tomb[a] && f.deleted[a] && subset(d, 2, 5, 7, 8) && d[5] && fx[7] == "0" && fy[7] == natCode(evTombCode) && bigGreater(fx[5], fy[5]) {
				return "deleted-account-keeps-balance", detail // together with tombstone-literal-code in one observation
			}
			if f.emptyEx[a] && f.balRev[a] && subset(d, 1, 6) && fx[1] == "0" && fy[1] == "1" && fy[2] == "1" {
				return "reverted-balance-change-deletes-empty-account", detail
			}
		} else {
			switch {
			case f.tomb[a] && (o.K == "code" || o.K == "codesize"):
				if (o.K == "code" && x == "c 0" && y == "c "+natCode(evTombCode)) || (o.K == "codesize" && x == "n 0" && y == "n 3") {
					return "tombstone-literal-code", detail
				}
			case f.deleted[a] && (o.K == "exist" || o.K == "empty" || o.K == "getbal" || o.K == "codehash"):
				if (o.K == "exist" && y == "b 0") || (o.K == "empty" && y == "b 1") || (o.K == "getbal" && bigGreater(strings.TrimPrefix(x, "n "), strings.TrimPrefix(y, "n "))) || (o.K == "codehash" && y == "c ~" && x == "c 0") {
					return "deleted-account-keeps-balance", detail
				}
			case f.emptyEx[a] && f.balRev[a] && ((o.K == "exist" && x == "b 0") || (o.K == "codehash" && x == "c ~" && y == "c 0")):
				return "reverted-balance-change-deletes-empty-account", detail
			}
		}
	case "suicide":
		if f.deleted[a] && x == "b 1" && y == "b 0" {
			return "deleted-account-keeps-balance", detail
		}
		if f.emptyEx[a] && f.balRev[a] && x == "b 0" && y == "b 1" {
			return "reverted-balance-change-deletes-empty-account", detail
		}
	case "obsk", "state", "cstate":
		if f.deleted[a] || f.recreated[a] {
			// slot <current> <committed>: the reference reads zero where the adapter still reads the old record
			fx, fy := strings.Fields(x), strings.Fields(y)
			stale := false
			for i := 1; i < len(fx) && i < len(fy); i++ {
				if fx[i] != fy[i] && fy[i] == "0" {
					stale = true
				}
				if fx[i] != fy[i] && fy[i] != "0" && !(o.K == "obsk" && i == 1) {
					stale = false
					break
				}
			}
			if stale {
				return "recreated-account-keeps-storage", detail
			}
		}
	}
	return "adapter-differs-from-reference", detail
}

func bigGreater(x, y string) bool {
	a, ok1 := new(big.Int).SetString(x, 10)
	b, ok2 := new(big.Int).SetString(y, 10)
	return ok1 && ok2 && a.Cmp(b) > 0
}

func evCaseHash(lines []string) string {
	h := sha256.Sum256([]byte(strings.Join(lines, "\n")))
	return hex.EncodeToString(h[:8])
}

// evNontrivial: the rule of Result.Rule for interface-op cases.
func evNontrivial(o *evOutcome) bool {
	return o.Feat["op:revert"] > 0 && o.Feat["op:finalise"] > 1 &&
		(o.Feat["op:setstate"]+o.Feat["op:addbal"]+o.Feat["op:setnonce"]+o.Feat["op:setcode"]+o.Feat["op:create"]+o.Feat["op:suicide"]) > 0
}

// shrinkCase removes ops (greedily, to a fixpoint) while the same signature still fires first.
func (u *evUniverse) shrinkCase(c EvCase, sig string, hostile bool) EvCase {
	cur := c
	fires := func(x EvCase) bool {
		o := u.runCase(x, hostile)
		return o.DiffAt >= 0 && o.Sig == sig
	}
	for changed := true; changed; {
		changed = false
		for i := len(cur.Ops) - 1; i >= 0; i-- {
			try := EvCase{Start: cur.Start, Ops: append(append([]EvOp{}, cur.Ops[:i]...), cur.Ops[i+1:]...)}
			if fires(try) {
				cur = try
				changed = true
			}
		}
		for i := len(cur.Start) - 1; i >= 0; i-- {
			try := EvCase{Start: append(append([]EvAcct{}, cur.Start[:i]...), cur.Start[i+1:]...), Ops: cur.Ops}
			if fires(try) {
				cur = try
				changed = true
			}
		}
	}
	return cur
}

type EvmOptions struct {
	Driver   string
	Seed     uint64
	OpCases  int
	MaxOps   int
	Programs int
	Replay   string
	Corpus   string
}

func rngFor(seed uint64, i int) *rng.R { return rng.New(seed*1000003 + uint64(i)) }

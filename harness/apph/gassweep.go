package apph

import (
	"bytes"
	"fmt"
	"sort"
	"strings"

	"github.com/Oneledger/protocol/storage"

	"olverif/harness/rng"
)

// RunGasSweep enumerates the failure points that a finite block gas limit puts inside a handler.
//
// A metered read or write is refused once the block's gas counter has reached the limit
// (storage/gas.go: refused iff consumed >= limit before the operation). For a transaction that
// needs n units, each limit between "what BeginBlock consumed" and "that plus n" therefore cuts the
// handler at one particular store operation. The engine takes a generated transaction that
// succeeds with room, and delivers it again and again from the SAME committed state — BeginBlock at
// the same height creates a fresh deliver state, nothing is committed in between — with the limit
// stepped through that whole range (step 20 = the cheapest metered operation, so no window is
// jumped).
//
// Monitors, one trial = BeginBlock, DeliverTx, EndBlock under one limit:
//
//	C18  the application is still open after the trial (no panic reached handlePanic);
//	C06  a trial that answers with a non-zero code leaves the block's pending writes exactly as
//	     they were after BeginBlock;
//	C02  a trial that answers with code 0 has made exactly the writes of the run with room: a
//	     refused read must fail the transaction, not be taken for "no record".
func RunGasSweep(seed uint64, cases, warm, targets int, only string, onlyCase int) (*Result, error) {
	res := NewResult("gassweep", seed, "case = one generated warm-up history (unlimited gas) followed by gas sweeps: a generated transaction (up to four candidates per target, until one succeeds with room) is delivered from the same committed state once per refusable store operation of its handler, with the block gas limit equal to the gas counter in front of that operation in the run with room (recorded by a wrapper around the block's gas calculator), so that each metered read/write/exists/delete of the handler and of the fee step is in turn the first one refused (base = BeginBlock's own consumption, need = the transaction's consumption with room; BeginBlock at the same height starts each trial from a fresh deliver state, nothing is committed between trials; isolation is checked by comparing the pending writes after BeginBlock and by repeating the run with room at the end); monitors: application open after every trial (C18), non-zero code => pending writes unchanged (C06), code 0 => pending writes equal to those of the run with room (C02); non-trivial = case with at least one complete sweep; distinct = swept (kind, failure point) pairs")
	root := rng.New(seed*313 + 7)
	// the engine serves three properties; each run reports the monitors of its own
	hit := func(sig string, c int, detail string, ops []string) {
		if only != "" {
			keep := false
			for _, p := range strings.Split(only, ",") {
				keep = keep || strings.HasPrefix(sig, p)
			}
			if !keep {
				res.Counters["hits_of_other_properties"]++
				return
			}
		}
		res.Hit(sig, c, detail, ops)
	}
	for c := 0; c < cases; c++ {
		r := root.Fork()
		if onlyCase >= 0 && c != onlyCase {
			continue // replay aid: every case has its own fork of the generator state
		}
		hl := &HistoryLog{}
		sweptKinds := map[string]int{} // per case, so that a case replays alone
		p := paramsFor(r, seed*1000+uint64(c))
		w := NewWorld(p)
		A, err := NewReplica(w, Identity{Name: "A", Val: w.Vals[0]})
		if err != nil {
			return nil, err
		}
		A.InitChain()
		sim := NewSim(w)
		g := NewGen(w, r.Fork())
		wt := AllWeights()
		hl.Add("gassweep seed=%d case=%d", seed, c)
		setGas := func(v int64) { w.Genesis.ConsensusParams.Block.MaxGas = v }
		run := func(txs [][]byte, gts []GenTx) *BlockResult {
			setGas(-1)
			bo := genBlockOpts(r, p.NVals)
			b := sim.NextBlock(txs, bo)
			logBlock(hl, b, gts, bo)
			br := A.ExecBlock(b)
			if !A.Crashed {
				sim.Absorb(b, br)
			}
			return br
		}
		dead := false
		for bi := 0; bi < warm && !dead; bi++ {
			g.Height = sim.Height + 1
			var gts []GenTx
			var txs [][]byte
			for i, n := 0, 2+r.Intn(5); i < n; i++ {
				t := g.Next(wt)
				gts = append(gts, t)
				txs = append(txs, t.Bytes)
			}
			run(txs, gts)
			dead = A.Crashed
		}
		complete := 0
		// the hooks of the block start are not transactions: what BeginBlock does must not depend
		// on the block gas limit, and a limit it uses up itself must not take the node down. One
		// block per case: BeginBlock, a transaction, EndBlock under every limit 0, 20, 40, … up to
		// what BeginBlock consumes with room.
		beginSweep := func() {
			g.Height = sim.Height + 1
			probe := g.Next(Weights{Transfer: 1})
			b := sim.NextBlock([][]byte{probe.Bytes}, BlockOpts{DtSeconds: 1})
			A.SaveBlock(b)
			setGas(-1)
			A.BeginBlock(b)
			ref := pendingOf(A.App.VerifDeliverState())
			baseGas := A.App.VerifConsumedGas()
			A.DeliverTx(probe.Bytes)
			A.EndBlock(b.Height)
			if A.Crashed {
				hit("app-closed-by-panic", c, fmt.Sprintf("height %d with unlimited gas", b.Height), hl.Lines)
				dead = true
				return
			}
			hl.Add("  begin-sweep height=%d begin-block-gas=%d probe=%s tx=%x", b.Height, baseGas, probe.Kind, probe.Bytes)
			reported := false
			for limit := int64(r.Intn(20)); limit <= baseGas+40; limit += 20 {
				setGas(limit)
				A.BeginBlock(b)
				stage := "BeginBlock"
				var got []kvp
				if !A.Crashed {
					got = pendingOf(A.App.VerifDeliverState())
					stage = "DeliverTx after BeginBlock"
					A.DeliverTx(probe.Bytes)
				}
				if !A.Crashed {
					stage = "EndBlock"
					A.EndBlock(b.Height)
				}
				res.Counters["begin_trials"]++
				if A.Crashed {
					hit("gas-limit-below-begin-block-closes-application", c, fmt.Sprintf("height %d: block gas limit %d (BeginBlock consumes %d with room): panic in %s; the application closed itself", b.Height, limit, baseGas, stage), hl.Lines)
					setGas(-1)
					if err := A.Restart(); err != nil {
						dead = true
					}
					return
				}
				if !samePending(got, ref) && !reported {
					reported = true
					hit("begin-block-effect-depends-on-gas-limit", c, fmt.Sprintf("height %d: block gas limit %d (BeginBlock consumes %d with room): %s", b.Height, limit, baseGas, diffWrites(ref, got)), hl.Lines)
				}
			}
			res.Counters["begin_sweeps"]++
			setGas(-1)
		}
		if !dead {
			beginSweep()
		}
		for ti := 0; ti < targets && !dead; ti++ {
			g.Height = sim.Height + 1
			// candidates, those of the kinds swept least often so far in this case first; up to four
			// are swept, stopping at the first that succeeds with room (a transaction that fails with
			// room has failure points too: the refusals must not crash it or make it succeed)
			var cands []GenTx
			for k := 0; k < 12; k++ {
				cands = append(cands, g.Next(wt))
			}
			sort.SliceStable(cands, func(i, j int) bool { return sweptKinds[cands[i].Kind] < sweptKinds[cands[j].Kind] })
			bo := BlockOpts{DtSeconds: 1}
			var b *Block
			var cand GenTx
			var trace []int64
			trial := func(limit int64) (code uint32, base, after []kvp, baseGas, endGas int64) {
				setGas(limit)
				A.BeginBlock(b)
				base = pendingOf(A.App.VerifDeliverState())
				baseGas = A.App.VerifConsumedGas()
				if limit < 0 {
					trace = trace[:0]
					if gs, ok := A.App.VerifDeliverState().GetGasStore().(*storage.GasStore); ok {
						gs.GasCalculator = gasTracer{gs.GasCalculator, &trace}
					}
				}
				tr := A.DeliverTx(cand.Bytes)
				code = tr.Code
				if A.Crashed {
					return
				}
				after = pendingOf(A.App.VerifDeliverState())
				endGas = A.App.VerifConsumedGas()
				A.EndBlock(b.Height)
				return
			}
			recover := func() {
				// the application closed itself: reopen it from its committed state and go on
				setGas(-1)
				if err := A.Restart(); err != nil {
					dead = true
				}
			}
			// sweep runs the candidate with room and then once per failure point; it reports whether
			// the candidate succeeded with room (then the block is executed for good afterwards)
			sweep := func() (succeeded bool) {
				code0, base0, ref, baseGas, endGas := trial(-1)
				if A.Crashed {
					hit("app-closed-by-panic", c, fmt.Sprintf("height %d %s with unlimited gas", b.Height, cand.Kind), hl.Lines)
					recover()
					return false
				}
				res.Distribution[fmt.Sprintf("candidate:%s:%d", cand.Kind, code0)]++
				need := endGas - baseGas
				var points []int64
				for _, v := range trace {
					if len(points) == 0 || v > points[len(points)-1] {
						points = append(points, v)
					}
				}
				hl.Add("  sweep height=%d kind=%s note=%s code-with-room=%d base=%d need=%d failure-points=%d tx=%x", b.Height, cand.Kind, cand.Note, code0, baseGas, need, len(points), cand.Bytes)
				failed, okSame := 0, 0
				for _, limit := range points {
					x := limit - baseGas
					code, base, after, _, _ := trial(limit)
					res.Counters["trials"]++
					if A.Crashed {
						hit("gas-window-closes-application-"+strings.ToLower(cand.Kind), c, fmt.Sprintf("height %d: %s delivered with block gas limit %d (%d left at the start of the transaction, it needs %d) panicked; the application closed itself", b.Height, cand.Kind, limit, x, need), hl.Lines)
						recover()
						return false
					}
					if !samePending(base, base0) {
						res.Counters["isolation_lost"]++
						hl.Add("  isolation lost at limit %d: %s", limit, diffPending(base0, base))
						return false
					}
					if code != 0 {
						failed++
						if !samePending(after, base) {
							hit("failed-under-gas-limit-left-writes-"+strings.ToLower(cand.Kind), c, fmt.Sprintf("height %d: %s with %d gas left (needs %d) answered code %d and left writes: %s", b.Height, cand.Kind, x, need, code, diffWrites(base, after)), hl.Lines)
						}
					} else {
						if code0 == 0 && samePending(after, ref) {
							okSame++
						} else {
							hit("succeeded-under-gas-limit-with-other-effect-"+strings.ToLower(cand.Kind), c, fmt.Sprintf("height %d: %s with %d gas left (needs %d; code %d with room) answered code 0 but its writes differ from the run with room: %s", b.Height, cand.Kind, x, need, code0, diffWrites(ref, after)), hl.Lines)
						}
					}
				}
				// the same for the mempool connection: a fresh check state (as after a Commit) per
				// trial, each refusable operation of Validate / ProcessCheck / ProcessFee in turn the
				// first one refused; CheckTx must answer, whatever it answers
				var ctrace []int64
				setGas(-1)
				A.App.VerifResetCheckState()
				if gs, ok := A.App.VerifCheckState().GetGasStore().(*storage.GasStore); ok {
					gs.GasCalculator = gasTracer{gs.GasCalculator, &ctrace}
				}
				A.CheckTx(cand.Bytes)
				if A.Crashed {
					hit("app-closed-by-panic", c, fmt.Sprintf("height %d CheckTx of %s with unlimited gas", b.Height, cand.Kind), hl.Lines)
					recover()
					return false
				}
				var cpoints []int64
				for _, v := range ctrace {
					if len(cpoints) == 0 || v > cpoints[len(cpoints)-1] {
						cpoints = append(cpoints, v)
					}
				}
				for _, limit := range cpoints {
					setGas(limit)
					A.App.VerifResetCheckState()
					A.CheckTx(cand.Bytes)
					res.Counters["check_trials"]++
					if A.Crashed {
						hit("gas-window-closes-application-in-checktx-"+strings.ToLower(cand.Kind), c, fmt.Sprintf("height %d: CheckTx of %s on a check state with gas limit %d (the transaction's check needs %d) panicked; the application closed itself", b.Height, cand.Kind, limit, cpoints[len(cpoints)-1]), hl.Lines)
						recover()
						return false
					}
				}
				setGas(-1)
				A.App.VerifResetCheckState()
				// the run with room once more: nothing of the trials may have stayed anywhere
				code1, base1, ref1, _, _ := trial(-1)
				if A.Crashed {
					hit("app-closed-by-panic", c, fmt.Sprintf("height %d %s with unlimited gas, after its sweep", b.Height, cand.Kind), hl.Lines)
					recover()
					return false
				}
				if code1 != code0 || !samePending(base1, base0) || !samePending(ref1, ref) {
					res.Counters["isolation_lost"]++
					hl.Add("  isolation lost: the run with room repeats differently (code %d/%d) %s", code0, code1, diffPending(ref, ref1))
					return false
				}
				complete++
				sweptKinds[cand.Kind]++
				res.Distribution[fmt.Sprintf("swept:%s:%d", cand.Kind, code0)]++
				res.Counters["sweeps"]++
				res.Counters["trials_failed"] += failed
				res.Counters["trials_ok_same_effect"] += okSame
				return code0 == 0
			}
			ok := false
			for _, cx := range cands[:4] {
				cand = cx
				b = sim.NextBlock([][]byte{cand.Bytes}, bo)
				A.SaveBlock(b)
				if ok = sweep(); ok || dead {
					break
				}
			}
			if dead {
				break
			}
			// now execute the block for good so that the history moves on
			setGas(-1)
			if !ok {
				cand = cands[0]
				b = sim.NextBlock([][]byte{cand.Bytes}, bo)
			}
			logBlock(hl, b, []GenTx{cand}, bo)
			br := A.ExecBlock(b)
			if A.Crashed {
				hit("app-closed-by-panic", c, fmt.Sprintf("height %d", b.Height), hl.Lines)
				dead = true
				break
			}
			sim.Absorb(b, br)
			// a few ordinary blocks between targets keep the state moving
			for k := 0; k < 2 && !dead; k++ {
				g.Height = sim.Height + 1
				var gts []GenTx
				var txs [][]byte
				for i, n := 0, 1+r.Intn(4); i < n; i++ {
					t := g.Next(wt)
					gts = append(gts, t)
					txs = append(txs, t.Bytes)
				}
				run(txs, gts)
				dead = A.Crashed
			}
		}
		setGas(-1)
		A.Close()
		res.Evaluations++
		if complete > 0 {
			res.DistinctNontrivial++
		}
		if len(res.Samples) < 2 {
			res.Samples = append(res.Samples, shortAll(hl.Lines[:min(len(hl.Lines), 25)]))
		}
		TruncateAppLog()
	}
	return res, nil
}

func samePending(a, b []kvp) bool {
	if len(a) != len(b) {
		return false
	}
	for i := range a {
		if !bytes.Equal(a[i].k, b[i].k) || !bytes.Equal(a[i].v, b[i].v) {
			return false
		}
	}
	return true
}

// gasTracer records the counter value in front of every operation the calculator may refuse.
type gasTracer struct {
	storage.GasCalculator
	at *[]int64
}

func (t gasTracer) Consume(amount, category storage.Gas, allowOverflow bool) bool {
	if !allowOverflow {
		*t.at = append(*t.at, int64(t.GasCalculator.GetConsumed()))
	}
	return t.GasCalculator.Consume(amount, category, allowOverflow)
}

// diffWrites names the first write that differs and shows the values around their first
// differing byte.
func diffWrites(a, b []kvp) string {
	n := min(len(a), len(b))
	for i := 0; i < n; i++ {
		if !bytes.Equal(a[i].k, b[i].k) {
			return fmt.Sprintf("write %d of %d/%d goes to key %q in one run and to %q in the other", i, len(a), len(b), a[i].k, b[i].k)
		}
		if !bytes.Equal(a[i].v, b[i].v) {
			j := 0
			for j < len(a[i].v) && j < len(b[i].v) && a[i].v[j] == b[i].v[j] {
				j++
			}
			from := j - 40
			if from < 0 {
				from = 0
			}
			return fmt.Sprintf("write %d of %d/%d, key %q: values differ from byte %d: …%q vs …%q", i, len(a), len(b), a[i].k, j, a[i].v[from:min(len(a[i].v), j+80)], b[i].v[from:min(len(b[i].v), j+80)])
		}
	}
	if len(a) != len(b) {
		longer := a
		if len(b) > len(a) {
			longer = b
		}
		return fmt.Sprintf("%d vs %d writes; the first extra one: %q=%.80q", len(a), len(b), longer[n].k, longer[n].v)
	}
	return "identical ordered writes"
}

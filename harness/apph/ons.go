package apph

// C20 — domain names (ONS).  Engine "ons":
//   * histories of DOMAIN_CREATE / UPDATE / SELL / PURCHASE / SEND / RENEW / DELETE_SUB by owners and
//     strangers on a handful of names and sub-names, several per block, with lifetimes of a few
//     blocks so that every name crosses its expiry height inside the history;
//   * MONITOR: the property's own predicates evaluated on the implementation's decoded state
//     (d_ records, OLT balances, fee pool) before and after every DeliverTx and after every commit;
//   * CORRESPONDENCE: every DeliverTx becomes one stateless line (environment, operation, decoded
//     pre-state) for the Lean model `OLP.Ons.step`, whose post-state / result must equal the
//     implementation's.

import (
	"bytes"
	"crypto/sha256"
	"encoding/binary"
	"encoding/hex"
	"encoding/json"
	"fmt"
	"io/ioutil"
	"math/big"
	"net/url"
	"os"
	"path/filepath"
	"sort"
	"strconv"
	"strings"

	"github.com/Oneledger/protocol/action"
	agov "github.com/Oneledger/protocol/action/governance"
	aons "github.com/Oneledger/protocol/action/ons"
	"github.com/Oneledger/protocol/consensus"
	"github.com/Oneledger/protocol/data/balance"
	"github.com/Oneledger/protocol/data/governance"
	"github.com/Oneledger/protocol/data/ons"
	"github.com/Oneledger/protocol/serialize"

	"olverif/harness/kv"
	"olverif/harness/rng"
)

// ---------------------------------------------------------------- world

type onsParams struct {
	Seed     uint64
	NAccts   int
	Base     *big.Int
	PerBlock *big.Int
	Poor     *big.Int // balance of the last account (nil = like the others)
}

func (p onsParams) String() string {
	poor := "-"
	if p.Poor != nil {
		poor = p.Poor.String()
	}
	return fmt.Sprintf("genesis seed=%d accts=%d base=%s perblock=%s poor=%s", p.Seed, p.NAccts, p.Base, p.PerBlock, poor)
}

func parseOnsParams(line string) (onsParams, error) {
	p := onsParams{}
	f := strings.Fields(line)
	if len(f) < 6 || f[0] != "genesis" {
		return p, fmt.Errorf("not a genesis line: %q", line)
	}
	for _, t := range f[1:] {
		kvp := strings.SplitN(t, "=", 2)
		if len(kvp) != 2 {
			continue
		}
		switch kvp[0] {
		case "seed":
			p.Seed, _ = strconv.ParseUint(kvp[1], 10, 64)
		case "accts":
			p.NAccts, _ = strconv.Atoi(kvp[1])
		case "base":
			p.Base, _ = new(big.Int).SetString(kvp[1], 10)
		case "perblock":
			p.PerBlock, _ = new(big.Int).SetString(kvp[1], 10)
		case "poor":
			if kvp[1] != "-" {
				p.Poor, _ = new(big.Int).SetString(kvp[1], 10)
			}
		}
	}
	if p.Base == nil || p.PerBlock == nil || p.NAccts < 2 {
		return p, fmt.Errorf("bad genesis line: %q", line)
	}
	return p, nil
}

func newOnsWorld(op onsParams) *World {
	p := SmallParams(op.Seed)
	p.NVals, p.NCandidates, p.NAccts, p.TopValidators = 2, 1, op.NAccts, 2
	w := NewWorld(p)
	w.State.Governance.ONSOptions.BaseDomainPrice = *balance.NewAmountFromBigInt(op.Base)
	w.State.Governance.ONSOptions.PerBlockFees = *balance.NewAmountFromBigInt(op.PerBlock)
	if op.Poor != nil {
		poor := w.Accts[len(w.Accts)-1]
		for i := range w.State.Balances {
			if bytes.Equal(w.State.Balances[i].Address, poor.Addr) && w.State.Balances[i].Currency == "OLT" {
				w.State.Balances[i].Amount = *balance.NewAmountFromBigInt(op.Poor)
			}
		}
	}
	gd, err := consensus.NewGenesisDoc(w.ChainID, w.State)
	if err != nil {
		panic(err)
	}
	gd.GenesisTime = w.GenesisTime
	gd.Validators = w.Genesis.Validators
	gd.ForkParams = w.Genesis.ForkParams
	gd.ConsensusParams.Block.MaxGas = p.MaxGas
	w.Genesis = gd
	return w
}

// ---------------------------------------------------------------- operations (the history DSL)

// onsOp is one generated transaction: Signer is the account that signs it and whose address is
// the message's signer field; Other is the beneficiary / account (-1 = empty address).
type onsOp struct {
	Kind   string // create update sale purchase send renew delsub | gov-create gov-fund gov-vote (price-option change by proposal)
	Signer int
	Other  int
	Name   string
	Uri    string
	Flag   bool // update: active; sale: cancel
	Amt    *big.Int
	Gas    int64 // fee gas limit (0 = default)
	Note   string
	Cur    string // payment currency ("" = OLT)
	Forge  int    // k > 0: the signer *field* carries the address of account k-1 although Signer signs (must be refused)
	BadSig bool   // the signature is over other bytes (must be refused)
	LowFee bool   // fee price below the minimum (must be refused)
}

func (o onsOp) cur() string {
	if o.Cur == "" {
		return "OLT"
	}
	return o.Cur
}

func (o onsOp) String() string {
	amt := "0"
	if o.Amt != nil {
		amt = o.Amt.String()
	}
	uri := "-"
	if o.Uri != "" {
		uri = hex.EncodeToString([]byte(o.Uri))
	}
	fl := 0
	if o.Flag {
		fl = 1
	}
	note := o.Note
	if note == "" {
		note = "-"
	}
	name := o.Name
	if name == "" {
		name = "-"
	}
	line := fmt.Sprintf("  op %s signer=%d other=%d name=%s uri=%s flag=%d amt=%s gas=%d note=%s", o.Kind, o.Signer, o.Other, name, uri, fl, amt, o.Gas, note)
	if o.Cur != "" && o.Cur != "OLT" {
		line += " cur=" + o.Cur
	}
	if o.Forge > 0 {
		line += fmt.Sprintf(" forge=%d", o.Forge)
	}
	if o.BadSig {
		line += " badsig=1"
	}
	if o.LowFee {
		line += " lowfee=1"
	}
	return line
}

func parseOnsOp(line string) (onsOp, error) {
	f := strings.Fields(line)
	o := onsOp{Other: -1}
	if len(f) < 3 || f[0] != "op" {
		return o, fmt.Errorf("not an op line: %q", line)
	}
	o.Kind = f[1]
	for _, t := range f[2:] {
		kvp := strings.SplitN(t, "=", 2)
		if len(kvp) != 2 {
			continue
		}
		switch kvp[0] {
		case "signer":
			o.Signer, _ = strconv.Atoi(kvp[1])
		case "other":
			o.Other, _ = strconv.Atoi(kvp[1])
		case "name":
			o.Name = kvp[1]
			if o.Name == "-" && !strings.HasPrefix(o.Kind, "gov-") {
				o.Name = ""
			}
		case "cur":
			o.Cur = kvp[1]
		case "forge":
			o.Forge, _ = strconv.Atoi(kvp[1])
		case "badsig":
			o.BadSig = kvp[1] == "1"
		case "lowfee":
			o.LowFee = kvp[1] == "1"
		case "uri":
			if kvp[1] != "-" {
				b, err := hex.DecodeString(kvp[1])
				if err != nil {
					return o, err
				}
				o.Uri = string(b)
			}
		case "flag":
			o.Flag = kvp[1] == "1"
		case "amt":
			o.Amt, _ = new(big.Int).SetString(kvp[1], 10)
		case "gas":
			o.Gas, _ = strconv.ParseInt(kvp[1], 10, 64)
		case "note":
			o.Note = kvp[1]
		}
	}
	if o.Amt == nil {
		o.Amt = new(big.Int)
	}
	return o, nil
}

func oltRaw(v *big.Int) action.Amount {
	if v == nil {
		v = new(big.Int)
	}
	return action.Amount{Currency: "OLT", Value: *balance.NewAmountFromBigInt(new(big.Int).Set(v))}
}

func (e *onsRun) addrOf(i int) []byte {
	if i < 0 || i >= len(e.w.Accts) {
		return nil
	}
	return e.w.Accts[i].Addr
}

// msgOf builds the repo's own message value for an op; `owner` overrides the signer *field*
// (used only by the forged-owner CheckTx probe), `cur` the payment currency.
func (e *onsRun) msgOf(o onsOp, owner []byte, cur string) action.Msg {
	amt := oltRaw(o.Amt)
	amt.Currency = cur
	other := e.addrOf(o.Other)
	switch o.Kind {
	case "create":
		return &aons.DomainCreate{Owner: owner, Beneficiary: other, Name: ons.Name(o.Name), Uri: o.Uri, BuyingPrice: amt}
	case "update":
		return &aons.DomainUpdate{Owner: owner, Beneficiary: other, Name: ons.Name(o.Name), Active: o.Flag, Uri: o.Uri}
	case "sale":
		return &aons.DomainSale{Name: ons.Name(o.Name), OwnerAddress: owner, Price: amt, CancelSale: o.Flag}
	case "purchase":
		return &aons.DomainPurchase{Name: ons.Name(o.Name), Buyer: owner, Account: other, Offering: amt}
	case "send":
		return &aons.DomainSend{From: owner, Name: ons.Name(o.Name), Amount: amt}
	case "renew":
		return &aons.RenewDomain{Owner: owner, Name: ons.Name(o.Name), BuyingPrice: amt}
	case "delsub":
		return &aons.DeleteSub{Name: ons.Name(o.Name), Owner: owner}
	}
	panic("unknown ons op kind " + o.Kind)
}

// govTx builds the governance transactions that change the ONS price options: a config-update
// proposal (Name = "onsOptions.perBlockFees:<v>" or "onsOptions.baseDomainPrice:<v>"), its funding
// to the goal, and the validators' votes (Signer = validator index for gov-vote).
func (e *onsRun) govTx(o onsOp, height int64) []byte {
	e.memo++
	memo := fmt.Sprintf("ons-gov-%d", e.memo)
	switch o.Kind {
	case "gov-create":
		e.govN++
		e.govID = pid(fmt.Sprintf("ons-prop-%d-%d", e.p.Seed, e.govN))
		a := e.w.Accts[o.Signer]
		fd := height + e.w.P.FundingDeadline
		return Tx(&agov.CreateProposal{ProposalID: e.govID, ProposalType: governance.ProposalTypeConfigUpdate, Headline: "h", Description: "d", Proposer: a.Addr,
			InitialFunding: action.Amount{Currency: "OLT", Value: *balance.NewAmount(1000000000)}, FundingDeadline: fd,
			FundingGoal: balance.NewAmount(10000000000), VotingDeadline: fd + e.w.P.VotingDeadline, PassPercentage: 51, ConfigUpdate: o.Name}, memo, a)
	case "gov-fund":
		a := e.w.Accts[o.Signer]
		return Tx(&agov.FundProposal{ProposalId: e.govID, FunderAddress: a.Addr, FundValue: action.Amount{Currency: "OLT", Value: *balance.NewAmount(9000000000)}}, memo, a)
	default:
		v := e.w.Vals[o.Signer%len(e.w.Vals)]
		return Tx(&agov.VoteProposal{ProposalID: e.govID, Address: v.Owner.Addr, ValidatorAddress: v.Key.Addr, Opinion: governance.OPIN_POSITIVE}, memo, v.Owner, v.Key)
	}
}

func (e *onsRun) txOf(o onsOp) []byte {
	f := DefaultFee()
	if o.Gas > 0 {
		f.Gas = o.Gas
	}
	if o.LowFee {
		f.Price.Value = *balance.NewAmount(100000000) // minimum is 10^9
	}
	e.memo++
	s := e.w.Accts[o.Signer]
	owner := s.Addr
	if o.Forge > 0 {
		owner = e.w.Accts[o.Forge-1].Addr
	}
	raw := RawOf(e.msgOf(o, owner, o.cur()), f, fmt.Sprintf("ons-%d", e.memo))
	if o.BadSig {
		// a genuine signature of the same key, but over another transaction
		other := raw
		other.Memo += "-x"
		st := action.SignedTx{RawTx: raw, Signatures: []action.Signature{{Signer: s.Pub, Signed: s.Sign(other.RawBytes())}}}
		b, err := serialize.GetSerializer(serialize.NETWORK).Serialize(&st)
		if err != nil {
			panic(err)
		}
		return b
	}
	return Sign(raw, s)
}

// ---------------------------------------------------------------- decoded state

type domRec struct {
	Name       string
	Owner      string // hex
	Benef      string // hex
	Creation   int64
	LastUpdate int64
	Expire     int64
	Active     bool
	OnSale     bool
	SalePrice  *big.Int
	URI        string
}

func (d *domRec) eq(o *domRec) bool {
	if d == nil || o == nil {
		return d == o
	}
	return d.token() == o.token()
}

func (d *domRec) String() string {
	if d == nil {
		return "<absent>"
	}
	return d.token()
}

func (d *domRec) token() string {
	sp := "~"
	if d.SalePrice != nil {
		sp = d.SalePrice.String()
	}
	b2 := func(b bool) string {
		if b {
			return "1"
		}
		return "0"
	}
	dash := func(s string) string {
		if s == "" {
			return "-"
		}
		return s
	}
	return strings.Join([]string{d.Name, dash(d.Owner), dash(d.Benef), fmt.Sprint(d.Creation), fmt.Sprint(d.LastUpdate), fmt.Sprint(d.Expire),
		b2(d.Active), b2(d.OnSale), sp, dash(hex.EncodeToString([]byte(d.URI)))}, ";")
}

type onsState struct {
	Recs map[string]*domRec  // by name
	Keys map[string]string   // name -> raw key (sorted order of the store)
	Bals map[string]*big.Int // "<hex address>/<currency>" -> balance
	Pool *big.Int
	Base *big.Int
	PerB *big.Int
	Tlds []string
	Bad  []string // decoding problems (monitor)
}

func reverseStr(s string) string {
	b := []byte(s)
	for i, j := 0, len(b)-1; i < j; i, j = i+1, j-1 {
		b[i], b[j] = b[j], b[i]
	}
	return string(b)
}

const tombstone = "\xe2\x9b\xbc"
const poolKey = "f_00000000000000000000"

func decodeOns(view map[string]string) *onsState {
	st := &onsState{Recs: map[string]*domRec{}, Keys: map[string]string{}, Bals: map[string]*big.Int{}, Pool: new(big.Int)}
	szlr := serialize.GetSerializer(serialize.PERSISTENT)
	for k, v := range view {
		switch {
		case strings.HasPrefix(k, "d_"):
			d := &ons.Domain{}
			if err := szlr.Deserialize([]byte(v), d); err != nil {
				st.Bad = append(st.Bad, fmt.Sprintf("undecodable domain record %q: %v", k, err))
				continue
			}
			name := reverseStr(k[2:])
			r := &domRec{Name: d.Name.String(), Owner: hex.EncodeToString(d.Owner), Benef: hex.EncodeToString(d.Beneficiary), Creation: d.CreationHeight,
				LastUpdate: d.LastUpdateHeight, Expire: d.ExpireHeight, Active: d.ActiveFlag, OnSale: d.OnSaleFlag, URI: d.URI}
			if d.SalePrice != nil {
				r.SalePrice = new(big.Int).Set(d.SalePrice.BigInt())
			}
			if r.Name != name {
				st.Bad = append(st.Bad, fmt.Sprintf("record under key %q carries name %q", k, r.Name))
			}
			st.Recs[name] = r
			st.Keys[name] = k
		case strings.HasPrefix(k, "b_0lt"):
			if i := strings.LastIndex(k, "_"); i > 5 {
				if n := AmountOf(v); n != nil {
					st.Bals[k[5:i]+"/"+k[i+1:]] = n
				}
			}
		case k == poolKey:
			if n := AmountOf(v); n != nil {
				st.Pool = n
			}
		}
	}
	if luh, ok := view["g_onsOptions_defaultOptions"]; ok && len(luh) == 8 {
		h := int64(binary.LittleEndian.Uint64([]byte(luh)))
		if ov, ok := view["g_"+string(rune(h))+"_onsopt"]; ok {
			o := &ons.Options{}
			if err := szlr.Deserialize([]byte(ov), o); err == nil {
				st.Base = new(big.Int).Set(o.BaseDomainPrice.BigInt())
				st.PerB = new(big.Int).Set(o.PerBlockFees.BigInt())
				st.Tlds = o.FirstLevelDomains
			}
		}
	}
	if st.Base == nil {
		st.Bad = append(st.Bad, "ONS options not found in the state")
		st.Base, st.PerB = new(big.Int), new(big.Int)
	}
	return st
}

func (s *onsState) names() []string {
	var ns []string
	for n := range s.Recs {
		ns = append(ns, n)
	}
	sort.Slice(ns, func(i, j int) bool { return s.Keys[ns[i]] < s.Keys[ns[j]] })
	return ns
}

func (s *onsState) bal(a string) *big.Int {
	if b, ok := s.Bals[a]; ok {
		return b
	}
	return new(big.Int)
}

func labels(n string) []string { return strings.Split(n, ".") }

// rootOf is the name whose owner has authority over n: n itself, or its last two labels.
func rootOf(n string) string {
	l := labels(n)
	if len(l) <= 2 {
		return n
	}
	return l[len(l)-2] + "." + l[len(l)-1]
}

func isSubName(n string) bool { return len(labels(n)) >= 3 }

// ---------------------------------------------------------------- one history

type onsRun struct {
	w         *World
	p         onsParams
	A         *Replica
	sim       *Sim
	res       *Result
	c         int
	hl        *HistoryLog
	memo      int
	govN      int
	govID     governance.ProposalID
	lastOpts  string
	committed map[string]string
	tainted   map[string]string // sub-name -> known-finding signature that explains its stale state
	listed    map[string]string // name -> owner (hex) whose successful DOMAIN_SELL put it on sale
	lines     []string          // correspondence input lines
	impl      []string          // implementation's canonical output lines
	okOps     map[string]int
	nontriv   map[string]bool
	debug     bool
}

func (e *onsRun) view() map[string]string {
	v := make(map[string]string, len(e.committed)+16)
	for k, x := range e.committed {
		v[k] = x
	}
	for _, p := range pendingOf(e.A.App.VerifDeliverState()) {
		if string(p.v) == tombstone {
			delete(v, string(p.k))
		} else {
			v[string(p.k)] = string(p.v)
		}
	}
	return v
}

func newOnsRun(p onsParams, res *Result, c int, hl *HistoryLog) (*onsRun, error) {
	w := newOnsWorld(p)
	A, err := NewReplica(w, Identity{Name: "A", Val: w.Vals[0]})
	if err != nil {
		return nil, err
	}
	A.InitChain()
	e := &onsRun{w: w, p: p, A: A, sim: NewSim(w), res: res, c: c, hl: hl, tainted: map[string]string{}, listed: map[string]string{}, okOps: map[string]int{}, nontriv: map[string]bool{}}
	e.committed = A.DumpMap()
	st := decodeOns(e.committed)
	e.lastOpts = st.Base.String() + "/" + st.PerB.String()
	hl.Add("%s", p.String())
	return e, nil
}

func (e *onsRun) close() { e.A.Close() }

func (e *onsRun) hit(sig, detail string) {
	e.res.Hit(sig, e.c, detail, append([]string{}, e.hl.Lines...))
}

// errClass maps the implementation's log of a failed DeliverTx to the model's error enum
// (never compared as text beyond this table) and extracts the fee-step observation.
func errClass(kind string, log string) (handlerErr string, feeErr string) {
	var obj struct {
		Code int    `json:"code"`
		Msg  string `json:"msg"`
	}
	msg := log
	if err := json.Unmarshal([]byte(log), &obj); err == nil {
		msg = obj.Msg
	} else {
		// not the handler's marshalled ProtocolError: DeliverTx's Validate refused the transaction
		switch {
		case strings.Contains(log, "unmatch signers"):
			return "vSigner", ""
		case strings.Contains(log, "invalid signatures"):
			return "vSignature", ""
		case strings.Contains(log, "fee price is smaller than minimal fee"):
			return "vFee", ""
		case strings.Contains(log, "missing data in transaction"):
			return "vMissing", ""
		case strings.Contains(log, "invalid domain name"):
			return "vBadName", ""
		case strings.Contains(log, "300104: invalid amount"):
			return "vBadAmount", ""
		}
		return "other:" + strconv.Quote(log), ""
	}
	hmsg := msg
	if i := strings.Index(msg, ", fee response log: "); i >= 0 {
		hmsg = msg[:i]
		fl := msg[i+len(", fee response log: "):]
		switch {
		case strings.Contains(fl, "gas overflow") || strings.Contains(fl, "Gas overflow") || strings.Contains(fl, "gas"):
			feeErr = "feeGas"
		default:
			feeErr = "feeDebit"
		}
	}
	if hmsg == "" && obj.Code == 0 {
		return "", feeErr
	}
	has := func(s string) bool { return strings.Contains(hmsg, s) }
	switch {
	case obj.Code == 100704:
		return "exists", feeErr
	case obj.Code == 100705:
		return "debit", feeErr
	case obj.Code == 100714:
		return "badName", feeErr
	case obj.Code == 100707 || has("invalid uri provided"):
		return "badUri", feeErr
	case obj.Code == 100709 || has("Parent domain doesn't exist"):
		return "noParent", feeErr
	case obj.Code == 100710:
		return "parentNotOwned", feeErr
	case has("Buying price too high"):
		return "priceTooHigh", feeErr
	case has("Invalid Base Domain Price") || has("Less than per block fees") || has("Buying price too less") || has("No Err String"):
		return "priceTooLow", feeErr
	case has("domain doesn't exist") || has("domain not found") || has("Domain doesn't exist") || has("error getting domain:"):
		return "notFound", feeErr
	case has("not changable") || has("not changeable"):
		return "notChangeable", feeErr
	case has("domain is not owned by") || has("not the owner") || has("only domain owner can renew") || has("parent domain not owned"):
		return "notOwner", feeErr
	case has("put sub domain on sale not allowed") || has("renew sub domain is not possible") || has("cannot buy subdomain"):
		return "isSub", feeErr
	case has("domain is not on sale or expired"):
		return "notForSale", feeErr
	case has("domain expired") || has("domain already expired"):
		return "expired", feeErr
	case has("offering is not enough"):
		return "offerTooLow", feeErr
	case has("amount is invalid") || has("invalid price amount"):
		return "invalidAmount", feeErr
	case has("domain inactive"):
		return "inactive", feeErr
	case has("domain account address not set"):
		return "noBeneficiary", feeErr
	case has("failed to debit sender balance") || has("minus from address") || has("error deducting balance") || has("insufficient"):
		return "debit", feeErr
	}
	return "other:" + strconv.Quote(hmsg), feeErr
}

func uriOK(u string) bool {
	// data/ons/genesis.go Options.IsValidURI, re-stated with net/url (URI syntax is a parameter of the model)
	p, err := url.Parse(u)
	if err != nil {
		return false
	}
	switch p.Scheme {
	case "http", "https", "ipfs", "ftp":
		return true
	}
	return false
}

func feePrice() *big.Int {
	f := DefaultFee()
	return new(big.Int).Set(f.Price.Value.BigInt())
}

func dashHex(b []byte) string {
	if len(b) == 0 {
		return "-"
	}
	return hex.EncodeToString(b)
}

func b01(b bool) string {
	if b {
		return "1"
	}
	return "0"
}

// opTokens renders the operation part of a correspondence line.
func (e *onsRun) opTokens(o onsOp) string {
	s := dashHex(e.addrOf(o.Signer))
	if o.Forge > 0 {
		s = dashHex(e.addrOf(o.Forge - 1))
	}
	name := o.Name
	if name == "" {
		name = "-"
	}
	o.Name = name
	ot := dashHex(e.addrOf(o.Other))
	uri := "-"
	if o.Uri != "" {
		uri = hex.EncodeToString([]byte(o.Uri))
	}
	switch o.Kind {
	case "create":
		return fmt.Sprintf("create %s %s %s %s %s %s %s", s, ot, o.Name, uri, b01(uriOK(o.Uri)), o.Amt, o.cur())
	case "update":
		return fmt.Sprintf("update %s %s %s %s %s %s", s, ot, o.Name, b01(o.Flag), uri, b01(uriOK(o.Uri)))
	case "sale":
		return fmt.Sprintf("sale %s %s %s %s %s", s, o.Name, o.Amt, o.cur(), b01(o.Flag))
	case "purchase":
		return fmt.Sprintf("purchase %s %s %s %s %s", s, ot, o.Name, o.Amt, o.cur())
	case "send":
		return fmt.Sprintf("send %s %s %s %s", s, o.Name, o.Amt, o.cur())
	case "renew":
		return fmt.Sprintf("renew %s %s %s %s", s, o.Name, o.Amt, o.cur())
	default:
		return fmt.Sprintf("delsub %s %s", s, o.Name)
	}
}

func (e *onsRun) addrSet(o onsOp, pre *onsState) []string {
	set := map[string]bool{}
	for _, a := range e.w.Accts {
		set[hex.EncodeToString(a.Addr)] = true
	}
	for _, r := range pre.Recs {
		if r.Owner != "" {
			set[r.Owner] = true
		}
		if r.Benef != "" {
			set[r.Benef] = true
		}
	}
	var out []string
	for a := range set {
		out = append(out, a)
	}
	sort.Strings(out)
	return out
}

func stateTokens(names []string, st *onsState, addrs []string) string {
	var sb strings.Builder
	fmt.Fprintf(&sb, "R %d", len(names))
	for _, n := range names {
		sb.WriteByte(' ')
		sb.WriteString(st.Recs[n].token())
	}
	fmt.Fprintf(&sb, " B %d", 2*len(addrs))
	for _, a := range addrs {
		for _, c := range []string{"OLT", "VT"} {
			fmt.Fprintf(&sb, " %s/%s=%s", a, c, st.bal(a+"/"+c))
		}
	}
	fmt.Fprintf(&sb, " P %s", st.Pool)
	return sb.String()
}

// deliver executes one operation inside the current block and runs monitor + correspondence on it.
func (e *onsRun) deliver(o onsOp, tx []byte, height int64) TxResult {
	version := e.A.App.VerifChainState().Version
	preView := e.view()
	pre := decodeOns(preView)
	tr := e.A.DeliverTx(tx)
	post := decodeOns(e.view())
	if strings.HasPrefix(o.Kind, "gov-") {
		// not an ONS transaction: it must leave every domain record alone
		e.res.Distribution[fmt.Sprintf("%s:%d", o.Kind, tr.Code)]++
		e.hl.Add("    -> code %d", tr.Code)
		for n, r := range pre.Recs {
			if !r.eq(post.Recs[n]) {
				e.hit("domain-changed-by-non-ons-tx", fmt.Sprintf("height %d %s: %s -> %v", height, o.Kind, r.token(), post.Recs[n]))
			}
		}
		if len(post.Recs) != len(pre.Recs) {
			e.hit("domain-changed-by-non-ons-tx", fmt.Sprintf("height %d %s: %d records -> %d", height, o.Kind, len(pre.Recs), len(post.Recs)))
		}
		return tr
	}
	for _, b := range append(pre.Bad, post.Bad...) {
		e.hit("undecodable-ons-state", b)
	}
	herr, ferr := "", ""
	if tr.Code != 0 {
		herr, ferr = errClass(o.Kind, tr.Log)
	}
	code := "ok"
	switch {
	case tr.Code == 0:
	case herr != "":
		code = "fail:" + herr
	case ferr != "":
		code = "fail:" + ferr
	default:
		code = "fail:other:" + strconv.Quote(tr.Log)
	}
	e.res.Distribution[o.Kind+":"+code]++
	if strings.HasPrefix(o.Note, "listing-scenario:") {
		e.res.Distribution[o.Note+" => "+code]++
	}
	e.hl.Add("    -> %s gas=%d", code, tr.GasUsed)
	if e.debug {
		fmt.Fprintf(realStdout, "%s\n    -> code=%d %s log=%s\n", o.String(), tr.Code, code, tr.Log)
	}
	// ---- correspondence line
	feeObs := fmt.Sprint(tr.GasUsed)
	if tr.Code != 0 {
		switch ferr {
		case "feeGas":
			feeObs = "go"
		case "feeDebit":
			feeObs = "nf"
		default:
			feeObs = "0"
		}
	}
	feeP := feePrice()
	if o.LowFee {
		feeP = big.NewInt(100000000)
	}
	minFee := e.w.State.Governance.FeeOption.MinFee().Amount.BigInt()
	addrs := e.addrSet(o, pre)
	preNames := pre.names()
	in := fmt.Sprintf("ons %d %d %s %s %s %s %s %s %s %s OLT OLT,VT,BTC,ETH,TTC %s ", height, version, pre.Base, pre.PerB, strings.Join(pre.Tlds, ","),
		feeP, minFee, feeObs, hex.EncodeToString(e.w.Accts[o.Signer].Addr), b01(!o.BadSig), e.opTokens(o)) +
		stateTokens(preNames, pre, addrs)
	in = strings.Join(strings.Fields(in), " ")
	var postNames []string
	for _, n := range preNames {
		if post.Recs[n] != nil {
			postNames = append(postNames, n)
		}
	}
	var fresh []string
	for n := range post.Recs {
		if pre.Recs[n] == nil {
			fresh = append(fresh, n)
		}
	}
	sort.Strings(fresh)
	postNames = append(postNames, fresh...)
	out := code + " " + stateTokens(postNames, post, addrs)
	e.lines = append(e.lines, in)
	e.impl = append(e.impl, out)
	// ---- monitor
	e.monitorTx(o, tr, code, height, version, pre, post)
	if tr.Code == 0 {
		e.okOps[o.Kind]++
	}
	return tr
}

// ---------------------------------------------------------------- monitor (independent of the Lean model)

func floorDiv(a, b *big.Int) *big.Int {
	q, m := new(big.Int), new(big.Int)
	q.DivMod(a, b, m) // Euclidean; b > 0 in every generated genesis, so this is the floor
	return q
}

var int64Min = new(big.Int).Neg(new(big.Int).Lsh(big.NewInt(1), 63))
var int64Max = new(big.Int).Sub(new(big.Int).Lsh(big.NewInt(1), 63), big.NewInt(1))

func inInt64(x *big.Int) bool { return x.Cmp(int64Min) >= 0 && x.Cmp(int64Max) <= 0 }

// expirySig names the failed expiry predicate: a wrapped int64 (quotient or sum outside the int64
// range) is its own signature, anything else is a plain mismatch.
func expirySig(kind string, quotient, sum *big.Int) string {
	if !inInt64(quotient) || !inInt64(sum) {
		return "expiry-int64-overflow"
	}
	return kind + "-expiry-mismatch"
}

func (e *onsRun) monitorTx(o onsOp, tr TxResult, code string, height, version int64, pre, post *onsState) {
	signer := hex.EncodeToString(e.w.Accts[o.Signer].Addr)
	detail := func(f string, a ...interface{}) string {
		return fmt.Sprintf("height %d (version %d) %s => %s: ", height, version, strings.TrimSpace(o.String()), code) + fmt.Sprintf(f, a...)
	}
	// which records / balances changed
	var changed []string
	seen := map[string]bool{}
	for n, r := range pre.Recs {
		seen[n] = true
		if !r.eq(post.Recs[n]) {
			changed = append(changed, n)
		}
	}
	for n := range post.Recs {
		if !seen[n] {
			changed = append(changed, n)
		}
	}
	sort.Strings(changed)
	delta := map[string]*big.Int{}
	total := new(big.Int)
	for a, b := range post.Bals {
		d := new(big.Int).Sub(b, pre.bal(a))
		if d.Sign() != 0 {
			delta[a] = d
			total.Add(total, d)
		}
	}
	for a, b := range pre.Bals {
		if _, ok := post.Bals[a]; !ok && b.Sign() != 0 {
			delta[a] = new(big.Int).Neg(b)
			total.Add(total, delta[a])
		}
	}
	dPool := new(big.Int).Sub(post.Pool, pre.Pool)
	total.Add(total, dPool)
	if tr.Code != 0 {
		if len(changed) > 0 || len(delta) > 0 || dPool.Sign() != 0 {
			e.hit("failed-ons-tx-changed-state", detail("records %v balances %v pool %s", changed, delta, dPool))
		}
		return
	}
	if total.Sign() != 0 {
		e.hit("ons-tx-created-or-destroyed-value", detail("sum of OLT balance changes + fee pool change = %s", total))
	}
	fee := new(big.Int).Mul(feePrice(), big.NewInt(tr.GasUsed))
	// expected balance movement: map address -> delta, pool delta
	wantPool := new(big.Int).Set(fee)
	want := map[string]*big.Int{}
	add := func(a string, x *big.Int) {
		if want[a] == nil {
			want[a] = new(big.Int)
		}
		want[a].Add(want[a], x)
	}
	olt := func(a string) string { return a + "/OLT" }
	add(olt(signer), new(big.Int).Neg(fee))
	paySig := o.Kind + "-payment-mismatch"
	// rules of Validate, now enforced by DeliverTx itself
	if o.Forge > 0 && o.Forge-1 != o.Signer {
		e.hit("deliver-admits-forged-owner", detail("signer field of account %d, signed by account %d", o.Forge-1, o.Signer))
	}
	if o.BadSig {
		e.hit("deliver-admits-bad-signature", detail(""))
	}
	if o.LowFee {
		e.hit("deliver-admits-fee-below-minimum", detail(""))
	}
	if o.cur() != "OLT" && o.Kind != "send" && o.Kind != "update" && o.Kind != "delsub" {
		e.hit("deliver-admits-non-olt-payment", detail("currency %s", o.cur()))
	}
	root := rootOf(o.Name)
	d := pre.Recs[o.Name]
	perB := pre.PerB
	// ---- per kind: legitimacy, payment, expiry
	switch o.Kind {
	case "create":
		n := post.Recs[o.Name]
		if pre.Recs[o.Name] != nil {
			e.hit("create-overwrote-existing-name", detail("record existed with owner %s", pre.Recs[o.Name].Owner))
		}
		if n == nil {
			e.hit("create-left-no-record", detail(""))
			break
		}
		if n.Owner != signer {
			e.hit("created-record-owned-by-non-signer", detail("owner %s", n.Owner))
		}
		add(olt(signer), new(big.Int).Neg(o.Amt))
		wantPool.Add(wantPool, o.Amt)
		if isSubName(o.Name) {
			p := pre.Recs[root]
			if p == nil || p.Owner != signer {
				e.hit("subdomain-created-by-non-owner-of-parent", detail("parent %v", p))
			} else if n.Expire != p.Expire {
				e.hit("subdomain-created-with-other-expiry-than-parent", detail("sub %d parent %d", n.Expire, p.Expire))
			}
		} else {
			q := floorDiv(new(big.Int).Sub(o.Amt, pre.Base), perB)
			wantExp := new(big.Int).Add(big.NewInt(version), q)
			if o.Amt.Cmp(pre.Base) < 0 || big.NewInt(n.Expire).Cmp(wantExp) != 0 {
				e.hit(expirySig("create", q, wantExp), detail("expiry %d, payment %s buys (p-base)/perBlock = %s blocks => %s", n.Expire, o.Amt, q, wantExp))
			}
		}
	case "renew":
		n := post.Recs[o.Name]
		add(olt(signer), new(big.Int).Neg(o.Amt))
		wantPool.Add(wantPool, o.Amt)
		if d == nil || n == nil {
			e.hit("renew-of-missing-name-succeeded", detail(""))
			break
		}
		wantExp := new(big.Int).Add(big.NewInt(d.Expire), floorDiv(o.Amt, perB))
		if big.NewInt(n.Expire).Cmp(wantExp) != 0 {
			e.hit(expirySig("renew", floorDiv(o.Amt, perB), wantExp), detail("expiry %d -> %d, payment buys %s blocks", d.Expire, n.Expire, floorDiv(o.Amt, perB)))
		}
		if d.Expire < version {
			e.hit("renew-of-expired-name", detail("expiry %d", d.Expire))
		}
		for _, sn := range post.names() {
			sr := post.Recs[sn]
			if isSubName(sn) && rootOf(sn) == o.Name && sr.Expire != n.Expire {
				if _, inTree := e.committed["d_"+reverseStr(sn)]; !inTree {
					e.tainted[sn] = "pending-subdomain-misses-renewal"
					e.hit("pending-subdomain-misses-renewal", detail("sub-domain %s was created earlier in this block (its key is only in the block cache); it keeps expiry %d while the parent moved to %d", sn, sr.Expire, n.Expire))
				} else {
					e.hit("subdomain-misses-renewal", detail("sub-domain %s keeps expiry %d, parent %d", sn, sr.Expire, n.Expire))
				}
			}
		}
	case "purchase":
		n := post.Recs[o.Name]
		if d == nil || n == nil {
			e.hit("purchase-of-missing-name-succeeded", detail(""))
			break
		}
		if isSubName(o.Name) {
			e.hit("purchase-of-subdomain", detail(""))
		}
		onSale := d.OnSale && version <= d.Expire
		expired := version > d.Expire
		if !onSale && !expired {
			e.hit("purchase-of-name-not-for-sale", detail("onSale=%v expiry=%d", d.OnSale, d.Expire))
		}
		if n.Owner != signer {
			e.hit("purchase-did-not-transfer-to-buyer", detail("owner %s", n.Owner))
		}
		var wantExp, wantQ *big.Int
		if onSale && e.listed[o.Name] != d.Owner {
			e.hit("purchase-at-price-not-set-by-current-owner", detail("asking price %v was set by %q, the name belongs to %s", d.SalePrice, e.listed[o.Name], d.Owner))
		}
		if onSale {
			if d.SalePrice == nil || o.Amt.Cmp(d.SalePrice) < 0 {
				e.hit("purchase-below-asking-price", detail("asking %v", d.SalePrice))
				break
			}
			add(olt(signer), new(big.Int).Neg(o.Amt))
			add(olt(d.Owner), d.SalePrice)
			rem := new(big.Int).Sub(o.Amt, d.SalePrice)
			wantPool.Add(wantPool, rem)
			anchor := d.Expire
			if version > anchor {
				anchor = version
			}
			wantQ = floorDiv(rem, perB)
			wantExp = new(big.Int).Add(big.NewInt(anchor), wantQ)
		} else {
			if o.Amt.Cmp(pre.Base) < 0 {
				e.hit("expired-purchase-below-base-price", detail("base %s", pre.Base))
				break
			}
			add(olt(signer), new(big.Int).Neg(o.Amt))
			wantPool.Add(wantPool, o.Amt)
			wantQ = floorDiv(new(big.Int).Sub(o.Amt, pre.Base), perB)
			wantExp = new(big.Int).Add(big.NewInt(version), wantQ)
		}
		if big.NewInt(n.Expire).Cmp(wantExp) != 0 {
			e.hit(expirySig("purchase", wantQ, wantExp), detail("expiry %d -> %d, expected %s", d.Expire, n.Expire, wantExp))
		}
		for _, sn := range post.names() {
			sr := post.Recs[sn]
			if isSubName(sn) && rootOf(sn) == o.Name {
				if _, inTree := e.committed["d_"+reverseStr(sn)]; !inTree {
					e.tainted[sn] = "pending-subdomain-survives-purchase"
					e.hit("pending-subdomain-survives-purchase", detail("sub-domain %s (owner %s) was created earlier in this block (its key is only in the block cache); the purchase did not delete it and the name now belongs to %s", sn, sr.Owner, n.Owner))
				} else {
					e.hit("subdomain-survives-purchase", detail("sub-domain %s (owner %s) still exists, new owner %s", sn, sr.Owner, n.Owner))
				}
			}
		}
	case "send":
		if d == nil {
			e.hit("send-to-missing-name-succeeded", detail(""))
			break
		}
		if len(changed) > 0 {
			e.hit("send-changed-domain-record", detail("%v", changed))
		}
		if d.Benef == "" {
			e.hit("send-to-name-without-beneficiary", detail(""))
			break
		}
		if !d.Active || d.Expire <= version {
			e.hit("send-to-inactive-or-expired-name", detail("active=%v expiry=%d", d.Active, d.Expire))
		}
		add(signer+"/"+o.cur(), new(big.Int).Neg(o.Amt))
		add(d.Benef+"/"+o.cur(), o.Amt)
		if o.cur() != "OLT" {
			e.nontriv["send-other-currency"] = true
		}
	}
	// payment coupling
	okPay := dPool.Cmp(wantPool) == 0
	for a, x := range want {
		g := delta[a]
		if g == nil {
			g = new(big.Int)
		}
		if g.Cmp(x) != 0 {
			okPay = false
		}
	}
	for a, g := range delta {
		if want[a] == nil && g.Sign() != 0 {
			okPay = false
		}
	}
	if !okPay {
		e.hit(paySig, detail("balance changes %v pool %s, expected %v pool %s", delta, dPool, want, wantPool))
	}
	// ---- authority over every changed record
	for _, n := range changed {
		if sig, ok := e.tainted[n]; ok {
			e.res.Counters["changes_to_stale_subdomain("+sig+")"]++
			if post.Recs[n] == nil {
				delete(e.tainted, n)
			}
			continue
		}
		was, is := pre.Recs[n], post.Recs[n]
		r := rootOf(n)
		// sale status: set / cleared only by the owner's DOMAIN_SELL, cleared by every change of ownership
		if is != nil {
			listedNow := is.OnSale || is.SalePrice != nil
			switch {
			case was == nil:
				if listedNow {
					e.hit("sale-state-survives-ownership-change", detail("new record %s is on sale: %s", n, is))
				}
			default:
				if (was.Owner != is.Owner || (o.Kind == "purchase" && o.Name == n)) && listedNow {
					e.hit("sale-state-survives-ownership-change", detail("%s went from %s to %s but is still listed (onSale=%v price=%v): the new owner never listed it", n, was.Owner, is.Owner, is.OnSale, is.SalePrice))
				}
				samePrice := (was.SalePrice == nil) == (is.SalePrice == nil) && (was.SalePrice == nil || was.SalePrice.Cmp(is.SalePrice) == 0)
				if was.OnSale != is.OnSale || !samePrice {
					byOwner := o.Kind == "sale" && o.Name == n && was.Owner == signer
					byPurchase := o.Kind == "purchase" && o.Name == n && !listedNow
					if !byOwner && !byPurchase {
						e.hit("sale-state-changed-without-owner", detail("%s: onSale %v->%v price %v->%v", n, was.OnSale, is.OnSale, was.SalePrice, is.SalePrice))
					}
				}
			}
		}
		switch {
		case o.Kind == "send":
			// reported above
		case was == nil:
			if o.Kind != "create" || o.Name != n {
				e.hit("record-created-by-other-operation", detail("%s", n))
			}
		case o.Kind == "purchase" && r == o.Name:
			if n != o.Name && is != nil {
				e.hit("purchase-modified-subdomain", detail("%s", n))
			}
		default:
			p := pre.Recs[r]
			if p == nil || p.Owner != signer {
				e.hit("domain-changed-by-non-owner", detail("record %s (owner %s, owner of %s: %v) changed: %s -> %v", n, was.Owner, r, p, was.token(), is))
			}
			if o.Kind == "create" {
				e.hit("create-changed-existing-record", detail("%s", n))
			}
			if is != nil && was.Expire != is.Expire && o.Kind != "renew" {
				e.hit("expiry-changed-by-"+o.Kind, detail("%s: %d -> %d", n, was.Expire, is.Expire))
			}
			if is != nil && was.Owner != is.Owner {
				e.hit("owner-changed-by-"+o.Kind, detail("%s: %s -> %s", n, was.Owner, is.Owner))
			}
			if is == nil && !isSubName(n) {
				e.hit("root-domain-deleted", detail("%s", n))
			}
		}
	}
	// who listed what
	switch o.Kind {
	case "sale":
		if o.Flag {
			delete(e.listed, o.Name)
		} else {
			e.listed[o.Name] = signer
		}
	case "purchase":
		delete(e.listed, o.Name)
	}
	// non-trivial branches reached
	switch o.Kind {
	case "purchase":
		if d != nil && d.OnSale && version <= d.Expire {
			e.nontriv["purchase-on-sale"] = true
		} else {
			e.nontriv["purchase-expired"] = true
		}
	case "create":
		if isSubName(o.Name) {
			e.nontriv["create-sub"] = true
		}
	case "renew", "update", "sale", "delsub":
		if d != nil && d.Owner == signer || o.Kind == "delsub" {
			e.nontriv[o.Kind+"-by-owner"] = true
		}
	}
}

// monitorCommit checks the registry invariants on the committed state.
func (e *onsRun) monitorCommit(height int64) {
	st := decodeOns(e.committed)
	for _, b := range st.Bad {
		e.hit("undecodable-ons-state", b)
	}
	for _, n := range st.names() {
		r := st.Recs[n]
		if !isSubName(n) {
			continue
		}
		if _, ok := e.tainted[n]; ok {
			e.res.Counters["stale_subdomain_blocks"]++
			continue
		}
		p := st.Recs[rootOf(n)]
		switch {
		case p == nil:
			e.hit("orphan-subdomain", fmt.Sprintf("after block %d: %s has no parent record", height, n))
		case p.Owner != r.Owner:
			e.hit("subdomain-owner-differs-from-parent", fmt.Sprintf("after block %d: %s owner %s, %s owner %s", height, n, r.Owner, rootOf(n), p.Owner))
		case p.Expire != r.Expire:
			e.hit("subdomain-expiry-differs-from-parent", fmt.Sprintf("after block %d: %s expiry %d, %s expiry %d", height, n, r.Expire, rootOf(n), p.Expire))
		}
	}
	for n := range e.tainted {
		if st.Recs[n] == nil {
			delete(e.tainted, n)
		}
	}
	for _, n := range st.names() {
		r := st.Recs[n]
		switch {
		case r.OnSale && e.listed[n] != r.Owner:
			e.hit("name-on-sale-not-listed-by-current-owner", fmt.Sprintf("after block %d: %s is on sale for %v, owner %s, listed by %q", height, n, r.SalePrice, r.Owner, e.listed[n]))
		case !r.OnSale && r.SalePrice != nil:
			e.hit("asking-price-without-listing", fmt.Sprintf("after block %d: %s carries price %v but is not on sale", height, n, r.SalePrice))
		}
	}
}

// probes: CheckTx must refuse an ONS message whose owner field is somebody else's address, and a
// payment in another currency than OLT (both rules live in Validate only).
func (e *onsRun) probe(o onsOp, victim int, cur string) {
	f := DefaultFee()
	e.memo++
	s := e.w.Accts[o.Signer]
	owner := s.Addr
	what := "non-olt"
	if victim >= 0 {
		owner = e.w.Accts[victim].Addr
		what = "forged-owner"
	}
	tx := Sign(RawOf(e.msgOf(o, owner, cur), f, fmt.Sprintf("ons-probe-%d", e.memo)), s)
	cr := e.A.CheckTx(tx)
	e.res.Counters["checktx_probe_"+what]++
	if cr.Code == 0 {
		if victim >= 0 {
			e.hit("checktx-admits-forged-owner", fmt.Sprintf("%s with owner field of account %d signed by account %d passed CheckTx", o.Kind, victim, o.Signer))
		} else {
			e.hit("checktx-admits-non-olt-payment", fmt.Sprintf("%s paying in %s passed CheckTx", o.Kind, cur))
		}
	}
}

// block executes one block of operations.
func (e *onsRun) block(ops []onsOp, dt int64) error {
	var txs [][]byte
	for _, o := range ops {
		if strings.HasPrefix(o.Kind, "gov-") {
			txs = append(txs, e.govTx(o, e.sim.Height+1))
		} else {
			txs = append(txs, e.txOf(o))
		}
	}
	b := e.sim.NextBlock(txs, BlockOpts{DtSeconds: dt})
	e.hl.Add("block %d dt=%d txs=%d", b.Height, dt, len(ops))
	e.A.SaveBlock(b)
	br := &BlockResult{Height: b.Height}
	bb := e.A.BeginBlock(b)
	br.BeginEvents = bb.Events
	for i, o := range ops {
		e.hl.Add("%s", o.String())
		br.Txs = append(br.Txs, e.deliver(o, txs[i], b.Height))
		if e.A.Crashed {
			e.hit("app-closed-by-panic", fmt.Sprintf("block %d op %s", b.Height, o.String()))
			return fmt.Errorf("application closed itself")
		}
	}
	eb := e.A.EndBlock(b.Height)
	br.Updates = eb.ValidatorUpdates
	br.AppHash = e.A.Commit()
	e.A.IndexBlock(b, br)
	e.sim.Absorb(b, br)
	e.committed = e.A.DumpMap()
	e.monitorCommit(b.Height)
	st := decodeOns(e.committed)
	if cur := st.Base.String() + "/" + st.PerB.String(); cur != e.lastOpts {
		if e.lastOpts != "" {
			e.res.Counters["ons_option_changes"]++
			e.nontriv["option-change"] = true
			e.hl.Add("# ONS options now base=%s perblock=%s (after block %d)", st.Base, st.PerB, b.Height)
		}
		e.lastOpts = cur
	}
	return nil
}

// correspond runs the collected lines through the Lean model.
func (e *onsRun) correspond(driver string) error {
	if driver == "" || len(e.lines) == 0 {
		return nil
	}
	model, err := kv.RunDriver(driver, "ons", e.lines)
	if err != nil {
		return err
	}
	for i := range e.lines {
		if model[i] != e.impl[i] {
			e.res.DisagreementCount++
			if len(e.res.Disagreements) < 5 {
				e.res.Disagreements = append(e.res.Disagreements, Disagreement{"ons-step", e.c, e.lines[i], e.impl[i], model[i], append([]string{}, e.hl.Lines...)})
			}
		}
	}
	e.res.Counters["steps_compared"] += len(e.lines)
	return nil
}

// ---------------------------------------------------------------- generator

type onsGen struct {
	r     *rng.R
	p     onsParams
	roots []string
	subs  []string
	nsub  int
}

func newOnsGen(r *rng.R, p onsParams) *onsGen {
	return &onsGen{r: r, p: p, roots: []string{"n0.ol", "n1.ol", "n2.ol", "Zed9.ol"}}
}

func (g *onsGen) mul(k int64, jitter bool) *big.Int {
	x := new(big.Int).Mul(g.p.PerBlock, big.NewInt(k))
	if jitter && g.p.PerBlock.Cmp(big.NewInt(1)) > 0 {
		j := new(big.Int).SetUint64(g.r.U64() >> 1)
		j.Mod(j, g.p.PerBlock)
		x.Add(x, j)
	}
	return x
}

func (g *onsGen) lifetime() int64 {
	return []int64{0, 1, 1, 2, 2, 3, 3, 4, 5, 8, 30}[g.r.Intn(11)]
}

func (g *onsGen) stranger(n int, not string, w *World) int {
	for i := 0; i < 8; i++ {
		k := g.r.Intn(n)
		if hex.EncodeToString(w.Accts[k].Addr) != not {
			return k
		}
	}
	return 0
}

func (g *onsGen) acctOf(w *World, addr string) int {
	for i, a := range w.Accts {
		if hex.EncodeToString(a.Addr) == addr {
			return i
		}
	}
	return 0
}

var onsUris = []string{"", "", "http://example.org/a", "https://x.io", "ipfs://Qm123", "ftp://files.example", "gopher://old.example", "no-scheme", "%zz://bad"}

// next produces one operation from the state at the start of the block (`st`) and the names the
// generator itself touched earlier in this block.
func (g *onsGen) next(w *World, st *onsState, version int64, fresh map[string]int) onsOp {
	n := len(w.Accts)
	r := g.r
	if st.PerB.Sign() > 0 {
		g.p.Base, g.p.PerBlock = st.Base, st.PerB // the options in force (a proposal may have changed them)
	}
	var existing []string
	for nm := range st.Recs {
		existing = append(existing, nm)
	}
	sort.Strings(existing)
	var existingRoots, existingSubs []string
	for _, nm := range existing {
		if isSubName(nm) {
			existingSubs = append(existingSubs, nm)
		} else {
			existingRoots = append(existingRoots, nm)
		}
	}
	base := g.p.Base
	pick := func(l []string) string { return l[r.Intn(len(l))] }
	ownerOf := func(nm string) (int, bool) {
		if d := st.Recs[nm]; d != nil {
			return g.acctOf(w, d.Owner), true
		}
		if i, ok := fresh[nm]; ok {
			return i, true
		}
		return 0, false
	}
	actor := func(nm string) (int, string) {
		own, ok := ownerOf(rootOf(nm))
		if ok && r.Intn(10) < 7 {
			return own, "owner"
		}
		if ok {
			return g.stranger(n, hex.EncodeToString(w.Accts[own].Addr), w), "stranger"
		}
		return r.Intn(n), "nobody-owns"
	}
	createRoot := func() onsOp {
		var nm string
		switch r.Intn(14) {
		case 0:
			nm = pick([]string{"bad", "x.com", "a_b.ol", "dot..ol", "t.o", "num.o1"})
		default:
			nm = pick(g.roots)
		}
		who := r.Intn(n)
		amt := new(big.Int).Add(base, g.mul(g.lifetime(), true))
		note := "valid"
		switch r.Intn(16) {
		case 0:
			amt = new(big.Int).Set(base)
			note = "price=base"
		case 1:
			amt = new(big.Int).Sub(base, big.NewInt(1))
			note = "price<base"
		case 2:
			amt = new(big.Int).Add(base, big.NewInt(1))
			note = "price=base+1"
		case 3:
			amt = new(big.Int).Mul(base, big.NewInt(100000))
			amt.Add(amt, new(big.Int).Exp(big.NewInt(10), big.NewInt(27), nil))
			note = "more-than-balance"
		case 4:
			who = n - 1
			note = "poor-account"
		}
		fresh[nm] = who
		other := who
		switch r.Intn(4) {
		case 0:
			other = -1
		case 1:
			other = r.Intn(n)
		}
		return onsOp{Kind: "create", Signer: who, Other: other, Name: nm, Uri: pick(onsUris), Amt: amt, Note: note}
	}
	createSub := func() onsOp {
		var cands []string
		cands = append(cands, existingRoots...)
		for nm := range fresh {
			if !isSubName(nm) {
				cands = append(cands, nm)
			}
		}
		sort.Strings(cands)
		if len(cands) == 0 {
			return createRoot()
		}
		root := pick(cands)
		g.nsub++
		nm := fmt.Sprintf("s%d.%s", g.nsub%4, root)
		if r.Intn(6) == 0 {
			nm = fmt.Sprintf("deep.s%d.%s", g.nsub%3, root)
		}
		who, note := actor(root)
		fresh[nm] = who
		amt := new(big.Int).Add(base, g.mul(int64(r.Intn(3)), true))
		if r.Intn(8) == 0 {
			amt = new(big.Int).Set(base)
			note += ",price=base"
		} else if amt.Cmp(base) == 0 {
			amt.Add(amt, big.NewInt(1))
		}
		other := who
		if r.Intn(3) == 0 {
			other = r.Intn(n)
		}
		return onsOp{Kind: "create", Signer: who, Other: other, Name: nm, Uri: pick(onsUris), Amt: amt, Note: "sub-by-" + note}
	}
	anyName := func() string {
		var c []string
		c = append(c, existing...)
		for nm := range fresh {
			c = append(c, nm)
		}
		sort.Strings(c)
		if len(c) == 0 || r.Intn(15) == 0 {
			return pick(append([]string{"ghost.ol", "s9.n0.ol"}, g.roots...))
		}
		return pick(c)
	}
	rootName := func() string {
		var c []string
		c = append(c, existingRoots...)
		for nm := range fresh {
			if !isSubName(nm) {
				c = append(c, nm)
			}
		}
		sort.Strings(c)
		if len(c) == 0 || r.Intn(12) == 0 {
			return anyName()
		}
		return pick(c)
	}
	if len(existingRoots)+len(fresh) == 0 || r.Intn(9) == 0 {
		return createRoot()
	}
	switch r.Intn(16) {
	case 0, 1:
		return createSub()
	case 2, 3:
		nm := anyName()
		who, note := actor(nm)
		if d := st.Recs[nm]; d != nil && isSubName(nm) && r.Intn(3) == 0 {
			// the recorded owner of the sub-domain itself (differs from the parent's only when stale)
			who, note = g.acctOf(w, d.Owner), "recorded-owner"
		}
		other := r.Intn(n)
		if r.Intn(5) == 0 {
			other = -1
		}
		return onsOp{Kind: "update", Signer: who, Other: other, Name: nm, Flag: r.Intn(3) != 0, Uri: pick(onsUris), Note: note}
	case 4, 5:
		nm := rootName()
		who, note := actor(nm)
		amt := new(big.Int).Add(g.p.PerBlock, big.NewInt(int64(1+r.Intn(1000))))
		switch r.Intn(6) {
		case 0:
			amt = new(big.Int).Set(g.p.PerBlock)
			note += ",price=perblock"
		case 1:
			amt = new(big.Int).Add(base, g.mul(int64(r.Intn(4)), true))
		case 2:
			amt = g.mul(int64(2+r.Intn(50)), true)
		}
		return onsOp{Kind: "sale", Signer: who, Name: nm, Amt: amt, Flag: r.Intn(5) == 0, Note: note}
	case 6, 7, 8, 9:
		nm := rootName()
		if r.Intn(12) == 0 {
			nm = anyName()
		}
		who := r.Intn(n)
		note := "buyer"
		d := st.Recs[nm]
		var amt *big.Int
		switch {
		case d != nil && d.OnSale && d.SalePrice != nil && r.Intn(5) != 0:
			amt = new(big.Int).Add(d.SalePrice, g.mul(g.lifetime(), true))
			switch r.Intn(6) {
			case 0:
				amt = new(big.Int).Sub(d.SalePrice, big.NewInt(1))
				note = "offer<asking"
			case 1:
				amt = new(big.Int).Set(d.SalePrice)
				note = "offer=asking"
			}
		default:
			amt = new(big.Int).Add(base, g.mul(g.lifetime(), true))
			switch r.Intn(8) {
			case 0:
				amt = new(big.Int).Sub(base, big.NewInt(1))
				note = "offer<base"
			case 1:
				amt = new(big.Int).Set(base)
				note = "offer=base"
			}
		}
		if d != nil && r.Intn(10) == 0 {
			who = g.acctOf(w, d.Owner)
			note += ",self"
		}
		if r.Intn(20) == 0 {
			who = n - 1
			note += ",poor"
		}
		other := who
		switch r.Intn(4) {
		case 0:
			other = -1
		case 1:
			other = r.Intn(n)
		}
		return onsOp{Kind: "purchase", Signer: who, Other: other, Name: nm, Amt: amt, Note: note}
	case 10:
		nm := anyName()
		who := r.Intn(n)
		amt := g.mul(int64(r.Intn(5)), true)
		note := "pay"
		switch r.Intn(8) {
		case 0:
			amt = new(big.Int)
			note = "zero"
		case 1:
			amt = new(big.Int).Exp(big.NewInt(10), big.NewInt(28), nil)
			note = "more-than-balance"
		case 2:
			amt = big.NewInt(-5)
			note = "negative"
		}
		return onsOp{Kind: "send", Signer: who, Name: nm, Amt: amt, Note: note}
	case 11, 12, 13:
		nm := rootName()
		who, note := actor(nm)
		amt := g.mul(1+g.lifetime(), true)
		switch r.Intn(8) {
		case 0:
			amt = new(big.Int).Set(g.p.PerBlock)
			note += ",price=perblock"
		case 1:
			amt = new(big.Int).Add(g.p.PerBlock, big.NewInt(1))
			note += ",price=perblock+1"
		}
		return onsOp{Kind: "renew", Signer: who, Name: nm, Amt: amt, Note: note}
	default:
		nm := anyName()
		who, note := actor(nm)
		return onsOp{Kind: "delsub", Signer: who, Name: nm, Note: note}
	}
}

func onsParamsFor(r *rng.R, seed uint64) onsParams {
	e18 := new(big.Int).Exp(big.NewInt(10), big.NewInt(18), nil)
	p := onsParams{Seed: seed, NAccts: 4 + r.Intn(3)}
	switch r.Intn(5) {
	case 0, 1:
		p.Base = new(big.Int).Mul(big.NewInt(1000), e18)
		p.PerBlock = new(big.Int).Exp(big.NewInt(10), big.NewInt(14), nil)
	case 2:
		p.Base = new(big.Int).Mul(big.NewInt(500), e18)
		p.PerBlock = new(big.Int).Set(e18)
	case 3:
		p.Base = new(big.Int).Mul(big.NewInt(7), e18)
		p.PerBlock, _ = new(big.Int).SetString("300000000000000007", 10)
	default:
		p.Base = new(big.Int)
		p.PerBlock = big.NewInt(1000000)
	}
	if r.Intn(8) == 0 {
		// the smallest per-block fee governance admits: block counts near and beyond the int64 range
		p.Base = big.NewInt(1000)
		p.PerBlock = big.NewInt(1)
	}
	if r.Intn(2) == 0 {
		// the last account can pay for one short-lived name and then runs dry (fee step failures)
		p.Poor = new(big.Int).Add(p.Base, new(big.Int).Mul(p.PerBlock, big.NewInt(int64(1+r.Intn(4)))))
		if r.Intn(2) == 0 {
			p.Poor.Add(p.Poor, big.NewInt(int64(r.Intn(1000000))))
		}
	}
	return p
}

// ---------------------------------------------------------------- engine

type OnsOptions struct {
	Driver    string
	Seed      uint64
	Histories int
	Blocks    int
	MaxTxs    int
	Corpus    string
	Debug     bool
}

const onsRule = "case = one generated block history of the ONS transaction kinds (create/update/sell/purchase/send/renew/delete-sub by owners and strangers on 4 root names, invalid names and sub-names, 0..maxtxs per block, lifetimes of 0-8 blocks, 5 genesis price families, a poor account, in one history of three a config-update proposal that changes perBlockFees or baseDomainPrice mid-history; about 1 op in 10 is a variant Validate must refuse: forged owner field, signature over other bytes, fee below minimum, payment in VT / an unregistered currency, empty name; sends also in VT) executed through DeliverTx on the real application; every DeliverTx is a stateless correspondence step (decoded pre-state + op -> result class + post-state, Lean model vs implementation) and a monitor evaluation; non-trivial = the history contains a successful purchase of a name on sale, a successful purchase of an expired name, a successful sub-domain creation and a successful renew or delete-sub by the owner; distinct = SHA-256 of the history lines"

func RunOns(opt OnsOptions) (*Result, error) {
	res := NewResult("ons", opt.Seed, onsRule)
	seen := map[[32]byte]bool{}
	finish := func(e *onsRun, hl *HistoryLog) error {
		defer e.close()
		if err := e.correspond(opt.Driver); err != nil {
			return err
		}
		res.Evaluations++
		nt := e.nontriv["purchase-on-sale"] && e.nontriv["purchase-expired"] && e.nontriv["create-sub"] && (e.nontriv["renew-by-owner"] || e.nontriv["delsub-by-owner"])
		h := sha256.Sum256([]byte(strings.Join(hl.Lines, "\n")))
		if !seen[h] {
			seen[h] = true
			if nt {
				res.DistinctNontrivial++
			}
		}
		if len(res.Samples) < 2 && nt {
			res.Samples = append(res.Samples, shortAll(hl.Lines[:min(len(hl.Lines), 40)]))
		}
		TruncateAppLog()
		return nil
	}
	// corpus first
	if opt.Corpus != "" {
		files, _ := filepath.Glob(filepath.Join(opt.Corpus, "*.hist"))
		sort.Strings(files)
		for i, f := range files {
			hl := &HistoryLog{}
			e, err := replayOnsFile(f, res, -1-i, hl, opt.Debug)
			if err != nil {
				return nil, fmt.Errorf("corpus %s: %v", f, err)
			}
			res.Counters["corpus_histories"]++
			if err := finish(e, hl); err != nil {
				return nil, err
			}
		}
	}
	root := rng.New(opt.Seed*2654435761 + 20)
	for c := 0; c < opt.Histories; c++ {
		r := root.Fork()
		hl := &HistoryLog{}
		p := onsParamsFor(r, opt.Seed*1000+uint64(c))
		e, err := newOnsRun(p, res, c, hl)
		if err != nil {
			return nil, err
		}
		e.debug = opt.Debug
		g := newOnsGen(r.Fork(), p)
		// one history in three changes a price option through a config-update proposal
		govStart, govCu := -1, ""
		if r.Intn(3) == 0 {
			govStart = 2 + r.Intn(6)
			switch r.Intn(4) {
			case 0:
				govCu = "onsOptions.perBlockFees:" + new(big.Int).Mul(p.PerBlock, big.NewInt(3)).String()
			case 1:
				govCu = "onsOptions.perBlockFees:" + new(big.Int).Add(new(big.Int).Div(p.PerBlock, big.NewInt(2)), big.NewInt(1)).String()
			case 2:
				govCu = "onsOptions.baseDomainPrice:" + new(big.Int).Add(new(big.Int).Div(p.Base, big.NewInt(2)), big.NewInt(12345)).String()
			default:
				govCu = "onsOptions.baseDomainPrice:" + new(big.Int).Add(new(big.Int).Mul(p.Base, big.NewInt(2)), big.NewInt(1)).String()
			}
		}
		// one history in two plays the listing scenario on a name of its own: A registers Lst.ol for two
		// blocks and lists it, it expires while listed, B buys it as an expired name, C (and A) then offer
		// the old asking price
		lstStart := -1
		var lstPrice *big.Int
		lstA, lstB, lstC := 0, 1, 2
		if r.Intn(2) == 0 {
			lstStart = 1 + r.Intn(opt.Blocks/2+1)
			perm := []int{0, 1, 2}
			if len(e.w.Accts) > 4 {
				perm = []int{r.Intn(2), 2, 3}
			}
			lstA, lstB, lstC = perm[0], perm[1], perm[2]
		}
		for bi := 0; bi < opt.Blocks; bi++ {
			st := decodeOns(e.committed)
			version := e.A.App.VerifChainState().Version
			n := r.Intn(opt.MaxTxs + 1)
			if bi < 2 && n == 0 {
				n = 2
			}
			fresh := map[string]int{}
			var ops []onsOp
			switch {
			case govStart < 0:
			case bi == govStart:
				ops = append(ops, onsOp{Kind: "gov-create", Signer: r.Intn(len(e.w.Accts) - 1), Other: -1, Name: govCu, Note: "price-option-proposal"})
			case bi == govStart+1:
				ops = append(ops, onsOp{Kind: "gov-fund", Signer: r.Intn(len(e.w.Accts) - 1), Other: -1, Name: "-", Note: "to-goal"})
			case bi == govStart+2:
				for vi := range e.w.Vals {
					if e.w.Vals[vi].Genesis {
						ops = append(ops, onsOp{Kind: "gov-vote", Signer: vi, Other: -1, Name: "-", Note: "yes"})
					}
				}
			}
			if lstStart >= 0 && st.PerB.Sign() > 0 {
				pb := st.PerB
				switch bi - lstStart {
				case 0:
					ops = append(ops, onsOp{Kind: "create", Signer: lstA, Other: lstA, Name: "Lst.ol", Amt: new(big.Int).Add(st.Base, new(big.Int).Mul(pb, big.NewInt(2))), Note: "listing-scenario:register-for-2-blocks"})
				case 1:
					lstPrice = new(big.Int).Add(pb, big.NewInt(int64(1+r.Intn(100000))))
					ops = append(ops, onsOp{Kind: "sale", Signer: lstA, Other: -1, Name: "Lst.ol", Amt: lstPrice, Note: "listing-scenario:list"})
				case 3:
					ops = append(ops, onsOp{Kind: "purchase", Signer: lstB, Other: lstB, Name: "Lst.ol", Amt: new(big.Int).Add(st.Base, new(big.Int).Mul(pb, big.NewInt(int64(3+r.Intn(4))))), Note: "listing-scenario:buy-expired-while-listed"})
				case 4:
					if lstPrice != nil {
						ops = append(ops, onsOp{Kind: "purchase", Signer: lstC, Other: lstC, Name: "Lst.ol", Amt: new(big.Int).Add(lstPrice, new(big.Int).Mul(pb, big.NewInt(int64(r.Intn(3))))), Note: "listing-scenario:third-party-offers-old-price"})
						if r.Intn(2) == 0 {
							ops = append(ops, onsOp{Kind: "purchase", Signer: lstA, Other: lstA, Name: "Lst.ol", Amt: new(big.Int).Set(lstPrice), Note: "listing-scenario:previous-owner-offers-old-price"})
						}
					}
				}
			}
			for i := 0; i < n; i++ {
				o := g.next(e.w, st, version, fresh)
				if r.Intn(60) == 0 {
					o.Gas = 10
					o.Note += ",low-gas"
				}
				// with a tiny per-block fee a payment can buy more blocks than an int64 holds: refused since f3370a9
				if st.PerB.Cmp(big.NewInt(1000)) < 0 && (o.Kind == "create" || o.Kind == "renew" || o.Kind == "purchase") && r.Intn(5) == 0 {
					huge := new(big.Int).Lsh(big.NewInt(1), 63)
					switch r.Intn(4) {
					case 0:
						huge.Sub(huge, big.NewInt(int64(1+r.Intn(40)))) // just inside, unless the height pushes it over
					case 1:
						huge.Add(huge, big.NewInt(int64(r.Intn(3))))
					}
					o.Amt = new(big.Int).Add(o.Amt, new(big.Int).Mul(huge, st.PerB))
					o.Note += ",block-count-near-2^63"
				}
				// variants that Validate (now part of DeliverTx) must refuse, and sends in another currency
				switch x := r.Intn(100); {
				case x < 4:
					victim := r.Intn(len(e.w.Accts))
					if d := st.Recs[rootOf(o.Name)]; d != nil {
						victim = g.acctOf(e.w, d.Owner)
					}
					if victim != o.Signer {
						o.Forge = victim + 1
						o.Note += ",forged-owner-field"
					}
				case x < 6:
					o.BadSig = true
					o.Note += ",bad-signature"
				case x < 7:
					o.LowFee = true
					o.Note += ",fee-below-minimum"
				case x < 10:
					if o.Kind == "create" || o.Kind == "sale" || o.Kind == "purchase" || o.Kind == "renew" {
						o.Cur = []string{"VT", "XYZ"}[r.Intn(2)]
						o.Note += ",not-olt"
					}
				case x < 11:
					o.Name = ""
					o.Note += ",empty-name"
				}
				if o.Kind == "send" && o.Cur == "" {
					switch r.Intn(6) {
					case 0, 1:
						o.Cur = "VT"
						if o.Amt.Sign() > 0 {
							o.Amt = big.NewInt(int64(r.Intn(700)))
						}
					case 2:
						if r.Intn(4) == 0 {
							o.Cur = "XYZ"
						}
					}
				}
				ops = append(ops, o)
				// Validate-only rules, probed through CheckTx (never delivered)
				if r.Intn(12) == 0 {
					if d := st.Recs[rootOf(o.Name)]; d != nil && o.Kind != "purchase" && o.Kind != "send" {
						victim := g.acctOf(e.w, d.Owner)
						if victim != o.Signer {
							e.probe(o, victim, "OLT")
						}
					}
				}
				if r.Intn(25) == 0 && (o.Kind == "create" || o.Kind == "purchase" || o.Kind == "renew" || o.Kind == "sale") {
					e.probe(o, -1, "VT")
				}
			}
			if err := e.block(ops, int64(1+r.Intn(5))); err != nil {
				break
			}
		}
		if err := finish(e, hl); err != nil {
			return nil, err
		}
	}
	return res, nil
}

// replayOnsFile re-executes a history file (genesis line, block lines, op lines; everything else is ignored).
func replayOnsFile(path string, res *Result, c int, hl *HistoryLog, debug bool) (*onsRun, error) {
	data, err := ioutil.ReadFile(path)
	if err != nil {
		return nil, err
	}
	var e *onsRun
	var ops []onsOp
	inBlock := false
	dt := int64(1)
	flush := func() error {
		if inBlock {
			if err := e.block(ops, dt); err != nil {
				return err
			}
		}
		ops, inBlock = nil, false
		return nil
	}
	for _, raw := range strings.Split(string(data), "\n") {
		line := strings.TrimSpace(raw)
		switch {
		case strings.HasPrefix(line, "genesis "):
			p, err := parseOnsParams(line)
			if err != nil {
				return nil, err
			}
			if e, err = newOnsRun(p, res, c, hl); err != nil {
				return nil, err
			}
			e.debug = debug
		case strings.HasPrefix(line, "block "):
			if e == nil {
				return nil, fmt.Errorf("block before genesis")
			}
			if err := flush(); err != nil {
				return e, nil
			}
			inBlock = true
			dt = 1
			for _, t := range strings.Fields(line) {
				if strings.HasPrefix(t, "dt=") {
					dt, _ = strconv.ParseInt(t[3:], 10, 64)
				}
			}
		case strings.HasPrefix(line, "op "):
			o, err := parseOnsOp(line)
			if err != nil {
				return nil, err
			}
			if e == nil || o.Signer < 0 || (o.Signer >= len(e.w.Accts) && o.Kind != "gov-vote") || o.Other >= len(e.w.Accts) || o.Forge > len(e.w.Accts) {
				return nil, fmt.Errorf("bad op line %q", line)
			}
			ops = append(ops, o)
		}
	}
	if e == nil {
		return nil, fmt.Errorf("no genesis line in %s", path)
	}
	if err := flush(); err != nil {
		return e, nil
	}
	return e, nil
}

// ReplayOns is `olh ons -replay file`: prints what happened and exits non-zero when the monitor
// fires or the model disagrees.
func ReplayOns(driver, path string, out *os.File) int {
	res := NewResult("ons", 0, onsRule)
	hl := &HistoryLog{}
	e, err := replayOnsFile(path, res, 0, hl, false)
	if err != nil {
		fmt.Fprintln(out, "replay:", err)
		return 2
	}
	defer e.close()
	if err := e.correspond(driver); err != nil {
		fmt.Fprintln(out, "replay:", err)
		return 2
	}
	for _, l := range hl.Lines {
		fmt.Fprintln(out, l)
	}
	for sig, n := range res.MonitorHitCount {
		fmt.Fprintf(out, "MONITOR %s x%d\n", sig, n)
	}
	for _, h := range res.MonitorHits {
		fmt.Fprintf(out, "  %s: %s\n", h.Signature, h.Detail)
	}
	for _, d := range res.Disagreements {
		fmt.Fprintf(out, "DISAGREEMENT %s\n  impl : %s\n  model: %s\n", d.Op, d.Impl, d.Model)
	}
	if len(res.MonitorHitCount) > 0 || res.DisagreementCount > 0 {
		return 1
	}
	fmt.Fprintln(out, "replay: property held, model agrees")
	return 0
}

package apph

// C19 (allegations) — decoding of the evidence / stake / validator records from a state view and
// their canonical rendering for the line protocol of the `alleg` engine.

import (
	"encoding/hex"
	"encoding/json"
	"fmt"
	"math/big"
	"sort"
	"strings"
	"time"
)

const alTombstone = "\xe2\x9b\xbc" // storage.TOMBSTONE

// alViewOf overlays the pending block cache (first-write order, tombstones = deletions) on the
// committed dump.
func alViewOf(committed map[string]string, pending []kvp) map[string]string {
	m := make(map[string]string, len(committed)+len(pending))
	for k, v := range committed {
		m[k] = v
	}
	for _, p := range pending {
		if string(p.v) == alTombstone {
			delete(m, string(p.k))
		} else {
			m[string(p.k)] = string(p.v)
		}
	}
	return m
}

type aVote struct {
	Addr   string
	Choice int64
}

type aReq struct {
	ID       string
	Reporter string
	Accused  string
	Height   int64
	Status   int64
	Votes    []aVote
}

type aSusp struct {
	Addr   string
	Status int64
	FH     int64
	FAt    int64 // unix seconds
	RH     int64
	RAt    *int64
}

func (s *aSusp) frozen() bool { return s.RAt == nil || !(*s.RAt > s.FAt) }

type aVStat struct {
	Addr   string
	Active bool
	Height int64
}

type aVal struct {
	Addr      string
	StakeAddr string
	Power     int64
	Staking   *big.Int
}

type aDelayed struct {
	Height int64
	Addr   string
	Amount *big.Int
}

// AState is the C19-relevant part of a state view, decoded.
type AState struct {
	Reqs     map[string]*aReq
	Tracker  map[string]bool
	Susp     map[string]*aSusp
	VStat    map[string]*aVStat
	Vals     map[string]*aVal
	Total    map[string]*big.Int // st__t_<val>
	VD       map[string]*big.Int // st__e_<val>_<deleg>   key "val/deleg"
	DE       map[string]*big.Int // st__d_e_<deleg>
	DB       map[string]*big.Int // st__d_b_<deleg>
	Bounty   *big.Int
	Delayed  []aDelayed
	CumVotes map[string]int64
	Problems []string
}

func unAddr(s string) string { return strings.TrimPrefix(s, "0lt") }

func unixOf(ts *time.Time, where string, probs *[]string) int64 {
	if ts.Nanosecond() != 0 {
		*probs = append(*probs, "sub-second time in "+where)
	}
	return ts.Unix()
}

// DecodeAState decodes the records; anything undecodable is listed in Problems (and reported
// by the engine as a harness problem, never silently skipped).
func DecodeAState(m map[string]string, bountyAddr []byte) *AState {
	a := &AState{Reqs: map[string]*aReq{}, Tracker: map[string]bool{}, Susp: map[string]*aSusp{}, VStat: map[string]*aVStat{},
		Vals: map[string]*aVal{}, Total: map[string]*big.Int{}, VD: map[string]*big.Int{}, DE: map[string]*big.Int{}, DB: map[string]*big.Int{},
		Bounty: BalanceOf(m, bountyAddr, "OLT"), CumVotes: map[string]int64{}}
	bad := func(k string, err interface{}) { a.Problems = append(a.Problems, fmt.Sprintf("%q: %v", k, err)) }
	for k, v := range m {
		switch {
		case strings.HasPrefix(k, "es__ark_"):
			var r struct {
				ID               string
				ReporterAddress  string
				MaliciousAddress string
				BlockHeight      int64
				ProofMsg         string
				Status           int64
				Votes            []struct {
					Address string
					Choice  int64
				}
			}
			if err := json.Unmarshal([]byte(v), &r); err != nil {
				bad(k, err)
				continue
			}
			if "es__ark_"+r.ID != k {
				bad(k, "request stored under a key that is not its id: "+r.ID)
			}
			q := &aReq{ID: r.ID, Reporter: unAddr(r.ReporterAddress), Accused: unAddr(r.MaliciousAddress), Height: r.BlockHeight, Status: r.Status}
			for _, vt := range r.Votes {
				q.Votes = append(q.Votes, aVote{unAddr(vt.Address), vt.Choice})
			}
			a.Reqs[r.ID] = q
		case k == "es__atark":
			var t struct{ Requests map[string]bool }
			if err := json.Unmarshal([]byte(v), &t); err != nil {
				bad(k, err)
				continue
			}
			for id, b := range t.Requests {
				if !b {
					bad(k, "tracker entry with value false: "+id)
				}
				a.Tracker[id] = true
			}
		case strings.HasPrefix(k, "es__ssvk_"):
			var s struct {
				Address       string
				Status        int64
				FrozenHeight  int64
				FrozenAt      *time.Time
				ReleaseHeight int64
				ReleaseAt     *time.Time
			}
			if err := json.Unmarshal([]byte(v), &s); err != nil {
				bad(k, err)
				continue
			}
			if s.FrozenAt == nil {
				bad(k, "FrozenAt is nil")
				continue
			}
			x := &aSusp{Addr: unAddr(s.Address), Status: s.Status, FH: s.FrozenHeight, FAt: unixOf(s.FrozenAt, k, &a.Problems), RH: s.ReleaseHeight}
			if s.ReleaseAt != nil {
				t := unixOf(s.ReleaseAt, k, &a.Problems)
				x.RAt = &t
			}
			if "es__ssvk_0lt"+x.Addr != k {
				bad(k, "history stored under a foreign key")
			}
			a.Susp[x.Addr] = x
		case strings.HasPrefix(k, "es__vss_"):
			var s struct {
				Address  string `json:"address"`
				IsActive bool   `json:"isActive"`
				Height   int64  `json:"height"`
			}
			if err := json.Unmarshal([]byte(v), &s); err != nil {
				bad(k, err)
				continue
			}
			a.VStat[unAddr(s.Address)] = &aVStat{unAddr(s.Address), s.IsActive, s.Height}
		case k == "es__scv":
			var s struct{ Addresses map[string]int64 }
			if err := json.Unmarshal([]byte(v), &s); err != nil {
				bad(k, err)
				continue
			}
			for ad, n := range s.Addresses {
				a.CumVotes[unAddr(ad)] = n
			}
		case strings.HasPrefix(k, "v_"):
			var s struct {
				Address      string `json:"address"`
				StakeAddress string `json:"stakeAddress"`
				Power        int64  `json:"power"`
				Staking      string `json:"staking"`
			}
			if err := json.Unmarshal([]byte(v), &s); err != nil {
				bad(k, err)
				continue
			}
			st, ok := new(big.Int).SetString(s.Staking, 10)
			if !ok {
				bad(k, "staking amount")
				continue
			}
			ad := hex.EncodeToString([]byte(k[2:]))
			if ad != unAddr(s.Address) {
				bad(k, "validator record under a foreign key")
			}
			a.Vals[ad] = &aVal{ad, unAddr(s.StakeAddress), s.Power, st}
		case strings.HasPrefix(k, "st__t_"):
			if n := AmountOf(v); n != nil {
				a.Total[unAddr(k[len("st__t_"):])] = n
			} else {
				bad(k, "amount")
			}
		case strings.HasPrefix(k, "st__e_"):
			p := strings.Split(k[len("st__e_"):], "_")
			if n := AmountOf(v); n != nil && len(p) == 2 {
				a.VD[unAddr(p[0])+"/"+unAddr(p[1])] = n
			} else {
				bad(k, "amount")
			}
		case strings.HasPrefix(k, "st__d_e_"):
			if n := AmountOf(v); n != nil {
				a.DE[unAddr(k[len("st__d_e_"):])] = n
			} else {
				bad(k, "amount")
			}
		case strings.HasPrefix(k, "st__d_b_"):
			if n := AmountOf(v); n != nil {
				a.DB[unAddr(k[len("st__d_b_"):])] = n
			} else {
				bad(k, "amount")
			}
		case strings.HasPrefix(k, "purged_unstake_"):
			rest := k[len("purged_unstake_"):]
			// <decimal height><20 raw address bytes>
			if len(rest) <= 20 {
				bad(k, "short delayed-unstake key")
				continue
			}
			var h int64
			if _, err := fmt.Sscanf(rest[:len(rest)-20], "%d", &h); err != nil {
				bad(k, err)
				continue
			}
			var u struct {
				Address string
				Amount  string
			}
			if err := json.Unmarshal([]byte(v), &u); err != nil {
				bad(k, err)
				continue
			}
			n, ok := new(big.Int).SetString(u.Amount, 10)
			if !ok {
				bad(k, "amount")
				continue
			}
			a.Delayed = append(a.Delayed, aDelayed{h, hex.EncodeToString([]byte(rest[len(rest)-20:])), n})
		}
	}
	sort.Slice(a.Delayed, func(i, j int) bool {
		if a.Delayed[i].Height != a.Delayed[j].Height {
			return a.Delayed[i].Height < a.Delayed[j].Height
		}
		return a.Delayed[i].Addr < a.Delayed[j].Addr
	})
	return a
}

func (a *AState) isFrozen(addr string) bool {
	s := a.Susp[addr]
	return s != nil && s.frozen()
}

func (a *AState) isActive(addr string) bool {
	s := a.VStat[addr]
	return s != nil && s.Active
}

func hexID(id string) string {
	if id == "" {
		return "-"
	}
	return hex.EncodeToString([]byte(id))
}

func sortedKeys(m interface{}) []string {
	var ks []string
	switch mm := m.(type) {
	case map[string]*aReq:
		for k := range mm {
			ks = append(ks, k)
		}
	case map[string]bool:
		for k := range mm {
			ks = append(ks, k)
		}
	case map[string]*aSusp:
		for k := range mm {
			ks = append(ks, k)
		}
	case map[string]*aVStat:
		for k := range mm {
			ks = append(ks, k)
		}
	case map[string]*aVal:
		for k := range mm {
			ks = append(ks, k)
		}
	case map[string]*big.Int:
		for k := range mm {
			ks = append(ks, k)
		}
	case map[string]int64:
		for k := range mm {
			ks = append(ks, k)
		}
	}
	sort.Strings(ks)
	return ks
}

// evTokens renders requests, tracker, suspicious-validator histories and validator statuses.
func (a *AState) evTokens() []string {
	var out []string
	for _, id := range sortedKeys(a.Reqs) {
		r := a.Reqs[id]
		vs := "-"
		if len(r.Votes) > 0 {
			var p []string
			for _, v := range r.Votes {
				p = append(p, fmt.Sprintf("%s:%d", v.Addr, v.Choice))
			}
			vs = strings.Join(p, ",")
		}
		out = append(out, fmt.Sprintf("q=%s/%s/%s/%d/%d/%s", hexID(r.ID), r.Reporter, r.Accused, r.Height, r.Status, vs))
	}
	for _, id := range sortedKeys(a.Tracker) {
		out = append(out, "t="+hexID(id))
	}
	for _, ad := range sortedKeys(a.Susp) {
		s := a.Susp[ad]
		ra := "~"
		if s.RAt != nil {
			ra = fmt.Sprint(*s.RAt)
		}
		out = append(out, fmt.Sprintf("s=%s/%d/%d/%d/%d/%s", ad, s.Status, s.FH, s.FAt, s.RH, ra))
	}
	for _, ad := range sortedKeys(a.VStat) {
		s := a.VStat[ad]
		b := 0
		if s.Active {
			b = 1
		}
		out = append(out, fmt.Sprintf("v=%s/%d/%d", ad, b, s.Height))
	}
	return out
}

// stakeTokens renders the delegation-store records, the bounty balance and the delayed unstakes.
func (a *AState) stakeTokens() []string {
	var out []string
	for _, k := range sortedKeys(a.Total) {
		out = append(out, fmt.Sprintf("T=%s/%s", k, a.Total[k]))
	}
	for _, k := range sortedKeys(a.VD) {
		out = append(out, fmt.Sprintf("E=%s/%s", k, a.VD[k]))
	}
	for _, k := range sortedKeys(a.DE) {
		out = append(out, fmt.Sprintf("D=%s/%s", k, a.DE[k]))
	}
	for _, k := range sortedKeys(a.DB) {
		out = append(out, fmt.Sprintf("W=%s/%s", k, a.DB[k]))
	}
	out = append(out, fmt.Sprintf("B=%s", a.Bounty))
	for _, d := range a.Delayed {
		out = append(out, fmt.Sprintf("U=%d/%s/%s", d.Height, d.Addr, d.Amount))
	}
	return out
}

// valTokens renders validator records (address, stake address, power).
func valTokens(vals map[string]*aVal) []string {
	var out []string
	for _, k := range sortedKeys(vals) {
		v := vals[k]
		out = append(out, fmt.Sprintf("r=%s/%s/%d", v.Addr, v.StakeAddr, v.Power))
	}
	return out
}

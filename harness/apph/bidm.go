package apph

// C02 / C03 on the external bid application (external_apps/bid).  Engine "bidm":
//   * histories of BID_CREATE / BID_CONTER_OFFER / BID_CANCEL / BID_BIDDER_DECISION / BID_EXPIRE /
//     BID_OWNER_DECISION on generated ONS names and on the example asset, by the parties and by
//     strangers, with hostile amounts / ids / addresses / decisions / deadlines, several per block,
//     deadlines that the block function (bid_block_func) crosses inside the history, and the ONS
//     traffic that makes and unmakes the assets (create, sell, purchase, update);
//   * MONITOR: the C02 / C03 predicates evaluated on the implementation's decoded state (bid
//     records, OLT balances, fee pool, `d_` records) before and after every DeliverTx, around the
//     block function at EndBlock, and over every commit — independent of the Lean model;
//   * CORRESPONDENCE: every bid DeliverTx, every EndBlock run of the block function and every
//     BeginBlock queue becomes one stateless line for the Lean model `OLP.Bid.step` / `hookQueue`.

import (
	"crypto/sha256"
	"encoding/hex"
	"encoding/json"
	"fmt"
	"math/big"
	"sort"
	"strconv"
	"strings"
	"time"

	"github.com/Oneledger/protocol/action"
	aons "github.com/Oneledger/protocol/action/ons"
	"github.com/Oneledger/protocol/data/keys"
	"github.com/Oneledger/protocol/data/ons"
	"github.com/Oneledger/protocol/external_apps/bid/bid_action"
	"github.com/Oneledger/protocol/external_apps/bid/bid_data"
	"github.com/Oneledger/protocol/serialize"

	"olverif/harness/kv"
	"olverif/harness/rng"
)

// ---------------------------------------------------------------- decoded state

type bidmConv struct {
	ID       string
	Owner    string // hex
	Asset    string
	AType    int
	Bidder   string // hex
	Deadline int64
}

func (c *bidmConv) fields() string {
	return strings.Join([]string{bidmDash(c.Owner), bidmHexTok(c.Asset), strconv.Itoa(c.AType), bidmDash(c.Bidder), strconv.FormatInt(c.Deadline, 10)}, ";")
}

type bidmOffer struct {
	Conv    string
	OType   int
	Time    int64
	Accept  int64
	Reject  int64
	Amount  *big.Int
	AStatus int
}

func (o *bidmOffer) fields() string {
	return strings.Join([]string{bidmDash(o.Conv), strconv.Itoa(o.OType), strconv.FormatInt(o.Time, 10), strconv.FormatInt(o.Accept, 10),
		strconv.FormatInt(o.Reject, 10), o.Amount.String(), strconv.Itoa(o.AStatus)}, ";")
}

func (o *bidmOffer) locked() bool {
	return o.OType == int(bid_data.TypeBidOffer) && o.AStatus == int(bid_data.BidAmountLocked)
}

type bidmState struct {
	Active    map[string]*bidmConv  // by id
	Committed map[string]bool       // the ACTIVE key of the id is in the committed tree
	Closed    map[string]*bidmConv  // "<status>;<id>"
	AOffers   map[string]*bidmOffer // by key id
	IOffers   map[string]*bidmOffer // "<id>;<type>;<time>"
	Ons       *onsState
	Bad       []string
}

func bidmDash(s string) string {
	if s == "" {
		return "-"
	}
	return s
}

func bidmHexTok(s string) string {
	if s == "" {
		return "-"
	}
	return hex.EncodeToString([]byte(s))
}

var bidmClosedPrefixes = []struct {
	pre    string
	status int
}{{"extBidConvSucceed", 2}, {"extBidConvCancelled", 3}, {"extBidConvExpired", 4}, {"extBidConvRejected", 5}}

func bidmConvOf(id, v string) *bidmConv {
	c := &bid_data.BidConv{}
	if serialize.GetSerializer(serialize.LOCAL).Deserialize([]byte(v), c) != nil {
		return nil
	}
	return &bidmConv{ID: id, Owner: hex.EncodeToString(c.AssetOwner), Asset: c.AssetName, AType: int(c.AssetType), Bidder: hex.EncodeToString(c.Bidder), Deadline: c.DeadlineUTC}
}

func bidmOfferOf(v string) *bidmOffer {
	o := &bid_data.BidOffer{}
	if serialize.GetSerializer(serialize.PERSISTENT).Deserialize([]byte(v), o) != nil {
		return nil
	}
	return &bidmOffer{Conv: string(o.BidConvId), OType: int(o.OfferType), Time: o.OfferTime, Accept: o.AcceptTime, Reject: o.RejectTime,
		Amount: new(big.Int).Set(o.Amount.Value.BigInt()), AStatus: int(o.AmountStatus)}
}

func decodeBidm(view map[string]string, committed map[string]string) *bidmState {
	st := &bidmState{Active: map[string]*bidmConv{}, Committed: map[string]bool{}, Closed: map[string]*bidmConv{}, AOffers: map[string]*bidmOffer{},
		IOffers: map[string]*bidmOffer{}, Ons: decodeOns(view)}
	const pa, poa, poi = "extBidConvActive", "extBidOffer_ACTIVE_", "extBidOffer_INACTIVE_"
	for k, v := range view {
		if !strings.HasPrefix(k, "extBid") {
			continue
		}
		switch {
		case strings.HasPrefix(k, pa):
			id := k[len(pa):]
			c := bidmConvOf(id, v)
			if c == nil {
				st.Bad = append(st.Bad, "undecodable conversation "+strconv.Quote(k))
				continue
			}
			st.Active[id] = c
			if _, ok := committed[k]; ok {
				st.Committed[id] = true
			}
		case strings.HasPrefix(k, poa):
			o := bidmOfferOf(v)
			if o == nil {
				st.Bad = append(st.Bad, "undecodable offer "+strconv.Quote(k))
				continue
			}
			st.AOffers[k[len(poa):]] = o
		case strings.HasPrefix(k, poi):
			o := bidmOfferOf(v)
			arr := strings.Split(k[len(poi):], "_")
			if o == nil || len(arr) < 3 {
				st.Bad = append(st.Bad, "undecodable inactive offer "+strconv.Quote(k))
				continue
			}
			st.IOffers[arr[0]+";"+arr[1]+";"+arr[len(arr)-1]] = o
		default:
			found := false
			for _, cp := range bidmClosedPrefixes {
				if strings.HasPrefix(k, cp.pre) {
					id := k[len(cp.pre):]
					c := bidmConvOf(id, v)
					if c == nil {
						st.Bad = append(st.Bad, "undecodable closed conversation "+strconv.Quote(k))
					} else {
						st.Closed[strconv.Itoa(cp.status)+";"+id] = c
					}
					found = true
					break
				}
			}
			if !found {
				st.Bad = append(st.Bad, "unknown bid record "+strconv.Quote(k))
			}
		}
	}
	return st
}

func (s *bidmState) olt(a string) *big.Int { return s.Ons.bal(a + "/OLT") }

// closedAny: the id sits in one of the closed stores.
func (s *bidmState) closedAny(id string) bool {
	for _, cp := range bidmClosedPrefixes {
		if s.Closed[strconv.Itoa(cp.status)+";"+id] != nil {
			return true
		}
	}
	return false
}

// lockedTotal: OLT held by active offers (type bid offer, amount status locked), as ledger.go counts it.
func (s *bidmState) lockedTotal() *big.Int {
	t := new(big.Int)
	for _, o := range s.AOffers {
		if o.locked() {
			t.Add(t, o.Amount)
		}
	}
	return t
}

func (s *bidmState) lockedOf(a string) *big.Int {
	t := new(big.Int)
	for k, o := range s.AOffers {
		if c := s.Active[k]; c != nil && c.Bidder == a && o.locked() {
			t.Add(t, o.Amount)
		}
	}
	return t
}

func (s *bidmState) sumOLT() *big.Int {
	t := new(big.Int)
	for k, v := range s.Ons.Bals {
		if strings.HasSuffix(k, "/OLT") {
			t.Add(t, v)
		}
	}
	return t
}

// tokens renders the state sections of a correspondence line; ids = the conversations whose closed
// records and inactive offers the step can reach (nil = all), pool = false prints `P 0`.
func (s *bidmState) tokens(addrs []string, ids map[string]bool, pool bool) string {
	var a, c, o, i, r, b []string
	for id, cv := range s.Active {
		cm := "0"
		if s.Committed[id] {
			cm = "1"
		}
		a = append(a, bidmDash(id)+";"+cv.fields()+";"+cm)
	}
	for k, cv := range s.Closed {
		if ids == nil || ids[cv.ID] {
			c = append(c, k+";"+cv.fields())
		}
	}
	for k, of := range s.AOffers {
		o = append(o, bidmDash(k)+";"+of.fields())
	}
	for k, of := range s.IOffers {
		if ids == nil || ids[strings.SplitN(k, ";", 2)[0]] {
			i = append(i, k+";"+of.fields())
		}
	}
	for _, d := range s.Ons.Recs {
		r = append(r, d.token())
	}
	for _, ad := range addrs {
		b = append(b, ad+"="+s.olt(ad).String())
	}
	var sb strings.Builder
	sec := func(tag string, l []string) {
		sort.Strings(l)
		fmt.Fprintf(&sb, "%s %d", tag, len(l))
		for _, t := range l {
			sb.WriteByte(' ')
			sb.WriteString(t)
		}
		sb.WriteByte(' ')
	}
	sec("A", a)
	sec("C", c)
	sec("O", o)
	sec("I", i)
	sec("R", r)
	sec("B", b)
	if pool {
		fmt.Fprintf(&sb, "P %s", s.Ons.Pool)
	} else {
		sb.WriteString("P 0")
	}
	return sb.String()
}

// ---------------------------------------------------------------- decoded transaction

type bidmTx struct {
	Kind     string // create counter cancel bdec expire odec
	Tokens   string
	Payer    string // hex address of the key that signed
	SigValid bool
	FeePrice *big.Int
	ID       string // the conversation the step works on (the new id for an opening create)
	Opens    bool
	Amount   *big.Int
	Decision int
	Field    string // the signer field of the message (hex)
	Desc     string
}

func bidmAddrTok(a keys.Address) string { return dashHex(a) }

// bidmDecodeTx reads a transaction back from its network bytes; nil = not a bid transaction.
func bidmDecodeTx(raw []byte, height int64) *bidmTx {
	tx := &action.SignedTx{}
	if err := serialize.GetSerializer(serialize.NETWORK).Deserialize(raw, tx); err != nil || len(tx.Signatures) == 0 {
		return nil
	}
	t := &bidmTx{FeePrice: new(big.Int).Set(tx.Fee.Price.Value.BigInt()), Amount: new(big.Int)}
	if h, err := tx.Signatures[0].Signer.GetHandler(); err == nil {
		t.Payer = hex.EncodeToString(h.Address())
		t.SigValid = h.VerifyBytes(tx.RawBytes(), tx.Signatures[0].Signed)
	}
	cur := func(a action.Amount) string { return bidmDash(a.Currency) }
	switch tx.Type {
	case bid_action.BID_CREATE:
		m := bid_action.CreateBid{}
		if json.Unmarshal(tx.Data, &m) != nil {
			return nil
		}
		nid := string(bidConvID(m.AssetOwner, m.AssetName, m.Bidder, height))
		t.Kind, t.ID, t.Amount, t.Field = "create", string(m.BidConvId), new(big.Int).Set(m.Amount.Value.BigInt()), hex.EncodeToString(m.Bidder)
		if len(m.BidConvId) == 0 {
			t.ID, t.Opens = nid, true
		}
		t.Tokens = fmt.Sprintf("create %s %s %s %d %s %s %s %d %s", bidmDash(string(m.BidConvId)), bidmAddrTok(m.AssetOwner), bidmHexTok(m.AssetName),
			int(m.AssetType), bidmAddrTok(m.Bidder), t.Amount, cur(m.Amount), m.Deadline, nid)
	case bid_action.BID_CONTER_OFFER:
		m := bid_action.CounterOffer{}
		if json.Unmarshal(tx.Data, &m) != nil {
			return nil
		}
		t.Kind, t.ID, t.Amount, t.Field = "counter", string(m.BidConvId), new(big.Int).Set(m.Amount.Value.BigInt()), hex.EncodeToString(m.AssetOwner)
		t.Tokens = fmt.Sprintf("counter %s %s %s %s", bidmDash(t.ID), bidmAddrTok(m.AssetOwner), t.Amount, cur(m.Amount))
	case bid_action.BID_CANCEL:
		m := bid_action.CancelBid{}
		if json.Unmarshal(tx.Data, &m) != nil {
			return nil
		}
		t.Kind, t.ID, t.Field = "cancel", string(m.BidConvId), hex.EncodeToString(m.Bidder)
		t.Tokens = fmt.Sprintf("cancel %s %s", bidmDash(t.ID), bidmAddrTok(m.Bidder))
	case bid_action.BID_BIDDER_DECISION:
		m := bid_action.BidderDecision{}
		if json.Unmarshal(tx.Data, &m) != nil {
			return nil
		}
		t.Kind, t.ID, t.Decision, t.Field = "bdec", string(m.BidConvId), int(m.Decision), hex.EncodeToString(m.Bidder)
		t.Tokens = fmt.Sprintf("bdec %s %s %d", bidmDash(t.ID), bidmAddrTok(m.Bidder), t.Decision)
	case bid_action.BID_EXPIRE:
		m := bid_action.ExpireBid{}
		if json.Unmarshal(tx.Data, &m) != nil {
			return nil
		}
		t.Kind, t.ID, t.Field = "expire", string(m.BidConvId), hex.EncodeToString(m.ValidatorAddress)
		t.Tokens = fmt.Sprintf("expire %s %s", bidmDash(t.ID), bidmAddrTok(m.ValidatorAddress))
	case bid_action.BID_OWNER_DECISION:
		m := bid_action.OwnerDecision{}
		if json.Unmarshal(tx.Data, &m) != nil {
			return nil
		}
		t.Kind, t.ID, t.Decision, t.Field = "odec", string(m.BidConvId), int(m.Decision), hex.EncodeToString(m.Owner)
		t.Tokens = fmt.Sprintf("odec %s %s %d", bidmDash(t.ID), bidmAddrTok(m.Owner), t.Decision)
	default:
		return nil
	}
	t.Desc = fmt.Sprintf("%s signer=%s sig=%v fee=%s/%d data=%s", tx.Type.String(), t.Payer, t.SigValid, t.FeePrice, tx.Fee.Gas, string(tx.Data))
	return t
}

// a token of the line protocol must not hold blanks or separators
func bidmTokenSafe(s string) bool {
	for _, c := range s {
		if c <= ' ' || c == ';' || c > '~' {
			return false
		}
	}
	return true
}

// bidmErrClass maps the log of a failed DeliverTx to the model's error enum.
func bidmErrClass(log string) (herr, ferr string) {
	var obj struct {
		Code int    `json:"code"`
		Msg  string `json:"msg"`
	}
	if err := json.Unmarshal([]byte(log), &obj); err != nil {
		switch {
		case strings.Contains(log, "unmatch signers"):
			return "vSigner", ""
		case strings.Contains(log, "invalid signatures"):
			return "vSignature", ""
		case strings.Contains(log, "fee price is smaller than minimal fee"):
			return "vFee", ""
		case strings.Contains(log, "invalid bid conversation id"):
			return "vBadId", ""
		case strings.Contains(log, "invalid amount"):
			return "vBadAmount", ""
		case strings.Contains(log, "address incorrect"):
			return "vBadAddr", ""
		}
		return "other:" + strconv.Quote(log), ""
	}
	if i := strings.Index(obj.Msg, ", fee response log: "); i >= 0 {
		fl := obj.Msg[i:]
		if strings.Contains(fl, "gas") || strings.Contains(fl, "Gas") {
			ferr = "feeGas"
		} else {
			ferr = "feeDebit"
		}
	}
	names := map[int]string{990002: "invalidAsset", 990003: "failedCreate", 990005: "notFound", 990006: "gettingConv", 990007: "expired",
		990008: "gettingActiveOffer", 990009: "gettingActiveBid", 990010: "gettingActiveCounter", 990011: "deactivate", 990013: "amountNotBelow",
		990014: "amountNotAbove", 990015: "lockAmount", 990022: "wrongBidder", 990023: "wrongOwner", 990024: "deduct", 990032: "badBidderDecision",
		990033: "badOwnerDecision", 990034: "exchange"}
	if obj.Code == 0 {
		return "", ferr
	}
	if n, ok := names[obj.Code]; ok {
		return n, ferr
	}
	return "other:" + strconv.Itoa(obj.Code), ferr
}

// ---------------------------------------------------------------- one history

type bidmRun struct {
	w         *World
	A         *Replica
	sim       *Sim
	g         *Gen
	r         *rng.R
	res       *Result
	c         int
	hl        *HistoryLog
	committed map[string]string
	lines     []string
	impl      []string
	kinds     []string
	nontriv   map[string]bool
	debug     bool
	extraDoms int
}

func (e *bidmRun) view() map[string]string {
	v := make(map[string]string, len(e.committed)+16)
	for k, x := range e.committed {
		v[k] = x
	}
	for _, p := range pendingOf(e.A.App.VerifDeliverState()) {
		if string(p.v) == tombstone {
			delete(v, string(p.k))
		} else {
			v[string(p.k)] = string(p.v)
		}
	}
	return v
}

func (e *bidmRun) hit(sig, detail string) {
	e.res.Hit(sig, e.c, detail, append([]string{}, e.hl.Lines...))
}

// addrs: every account whose OLT balance a line carries.
func (e *bidmRun) addrs(st *bidmState, extra ...string) []string {
	set := map[string]bool{}
	for _, a := range e.w.Accts {
		set[hex.EncodeToString(a.Addr)] = true
	}
	for _, c := range st.Active {
		set[c.Owner], set[c.Bidder] = true, true
	}
	for _, x := range extra {
		set[x] = true
	}
	var out []string
	for a := range set {
		if len(a) == 40 {
			out = append(out, a)
		}
	}
	sort.Strings(out)
	return out
}

func bidmEqConv(a, b *bidmConv) bool {
	if a == nil || b == nil {
		return a == b
	}
	return a.fields() == b.fields()
}

func bidmEqOffer(a, b *bidmOffer) bool {
	if a == nil || b == nil {
		return a == b
	}
	return a.fields() == b.fields()
}

// bidRecordsDiff names the first bid record that differs between two states ("" = none).
func bidmRecordsDiff(pre, post *bidmState) string {
	for k, c := range pre.Active {
		if !bidmEqConv(c, post.Active[k]) {
			return "active conversation " + k
		}
	}
	for k := range post.Active {
		if pre.Active[k] == nil {
			return "new active conversation " + k
		}
	}
	for k, c := range pre.Closed {
		if !bidmEqConv(c, post.Closed[k]) {
			return "closed conversation " + k
		}
	}
	for k := range post.Closed {
		if pre.Closed[k] == nil {
			return "new closed conversation " + k
		}
	}
	for k, o := range pre.AOffers {
		if !bidmEqOffer(o, post.AOffers[k]) {
			return "active offer " + k
		}
	}
	for k := range post.AOffers {
		if pre.AOffers[k] == nil {
			return "new active offer " + k
		}
	}
	for k, o := range pre.IOffers {
		if !bidmEqOffer(o, post.IOffers[k]) {
			return "inactive offer " + k
		}
	}
	for k := range post.IOffers {
		if pre.IOffers[k] == nil {
			return "new inactive offer " + k
		}
	}
	return ""
}

func bidmDomainsDiff(pre, post *bidmState) []string {
	var out []string
	for n, d := range pre.Ons.Recs {
		if !d.eq(post.Ons.Recs[n]) {
			out = append(out, n)
		}
	}
	for n := range post.Ons.Recs {
		if pre.Ons.Recs[n] == nil {
			out = append(out, n)
		}
	}
	sort.Strings(out)
	return out
}

// monitorShape: no stored amount is negative, every active offer is keyed by its own conversation
// and has the amount status of its type (C02 clause "no stored amount is ever negative").
func (e *bidmRun) monitorShape(where string, st *bidmState) {
	for _, b := range st.Bad {
		e.hit("bid-undecodable-state", where+": "+b)
	}
	for k, o := range st.AOffers {
		if o.Amount.Sign() < 0 {
			e.hit("bid-negative-offer", fmt.Sprintf("%s: active offer %s amount %s", where, k, o.Amount))
		}
		ok := (o.OType == 1 && o.AStatus == 1) || (o.OType == 2 && o.AStatus == 3)
		if !ok || o.Conv != k {
			e.hit("bid-offer-malformed", fmt.Sprintf("%s: active offer %s = %s", where, k, o.fields()))
		}
		if st.Active[k] == nil {
			e.hit("bid-offer-without-conversation", fmt.Sprintf("%s: active offer %s", where, k))
		}
	}
	for k := range st.Active {
		if st.AOffers[k] == nil {
			e.hit("bid-conversation-without-offer", fmt.Sprintf("%s: active conversation %s", where, k))
		}
	}
	for k, o := range st.IOffers {
		if o.Amount.Sign() < 0 {
			e.hit("bid-negative-offer", fmt.Sprintf("%s: inactive offer %s amount %s", where, k, o.Amount))
		}
	}
	for k, v := range st.Ons.Bals {
		if v.Sign() < 0 {
			e.hit("bid-negative-balance", fmt.Sprintf("%s: %s = %s", where, k, v))
		}
	}
}

// monitorClosed: a closed conversation never changes again, nor do its offers, and it does not
// come back into the active store. This is NOT a clause of C02 / C03 (no value moves by it) and the
// unchanged code does not have it: a conversation closed in the block that created it can be
// created again under the same id (OLP/Bid/NOTES.md, finding 1; `bid_reopen_counterexample`). It is
// therefore counted, not reported: a monitor that demanded it would demand more than the
// properties state.
func (e *bidmRun) observe(sig, detail string) {
	e.res.Counters["observed:"+sig]++
}

func (e *bidmRun) monitorClosed(where string, pre, post *bidmState) {
	for k, c := range pre.Closed {
		if !bidmEqConv(c, post.Closed[k]) {
			e.observe("bid-closed-conversation-changed", fmt.Sprintf("%s: %s: %s -> %v", where, k, c.fields(), post.Closed[k]))
		}
		if pre.Active[c.ID] == nil && post.Active[c.ID] != nil {
			e.observe("bid-conversation-reopened", fmt.Sprintf("%s: conversation %s (closed as %s) is active again", where, c.ID, k))
		}
		if pre.Active[c.ID] == nil {
			for ik, o := range post.IOffers {
				if strings.HasPrefix(ik, c.ID+";") && !bidmEqOffer(o, pre.IOffers[ik]) {
					e.observe("bid-closed-offers-changed", fmt.Sprintf("%s: inactive offer %s of closed conversation: %v -> %s", where, ik, pre.IOffers[ik], o.fields()))
				}
			}
			for ik := range pre.IOffers {
				if strings.HasPrefix(ik, c.ID+";") && post.IOffers[ik] == nil {
					e.observe("bid-closed-offers-changed", fmt.Sprintf("%s: inactive offer %s of closed conversation disappeared", where, ik))
				}
			}
		}
	}
}

// monitorTx: the C02 / C03 predicates on one delivered bid transaction.
func (e *bidmRun) monitorTx(t *bidmTx, tr TxResult, code string, height int64, pre, post *bidmState) {
	where := fmt.Sprintf("height %d %s => %s", height, t.Desc, code)
	e.monitorShape(where, post)
	e.monitorClosed(where, pre, post)
	ok := tr.Code == 0
	// ---- C06-style: a failed transaction changes nothing
	if !ok {
		if d := bidmRecordsDiff(pre, post); d != "" {
			e.hit("bid-failed-tx-changed-state", where+": "+d)
		}
		if d := bidmDomainsDiff(pre, post); len(d) > 0 {
			e.hit("bid-failed-tx-changed-state", where+": domains "+strings.Join(d, ","))
		}
		for k, v := range pre.Ons.Bals {
			if post.Ons.bal(k).Cmp(v) != 0 {
				e.hit("bid-failed-tx-changed-state", fmt.Sprintf("%s: balance %s %s -> %s", where, k, v, post.Ons.bal(k)))
			}
		}
		if pre.Ons.Pool.Cmp(post.Ons.Pool) != 0 {
			e.hit("bid-failed-tx-changed-state", where+": fee pool")
		}
		return
	}
	// ---- C02: balances + locked offers + fee pool unchanged
	tp := new(big.Int).Add(new(big.Int).Add(pre.sumOLT(), pre.lockedTotal()), pre.Ons.Pool)
	tq := new(big.Int).Add(new(big.Int).Add(post.sumOLT(), post.lockedTotal()), post.Ons.Pool)
	if tp.Cmp(tq) != 0 {
		e.hit("bid-value-not-conserved", fmt.Sprintf("%s: balances+locked+pool %s -> %s", where, tp, tq))
	}
	fee := new(big.Int).Sub(post.Ons.Pool, pre.Ons.Pool)
	if want := new(big.Int).Mul(t.FeePrice, big.NewInt(tr.GasUsed)); fee.Cmp(want) != 0 {
		e.hit("bid-fee-pool-mismatch", fmt.Sprintf("%s: pool moved by %s, fee is %s", where, fee, want))
	}
	// ---- what the step was entitled to do
	c := pre.Active[t.ID]
	if t.Opens {
		c = post.Active[t.ID]
	}
	o := pre.AOffers[t.ID]
	accept := (t.Kind == "odec" || t.Kind == "bdec") && t.Decision == int(bid_data.AcceptBid)
	closes := t.Kind == "cancel" || t.Kind == "expire" || t.Kind == "odec" || t.Kind == "bdec"
	want := map[string]*big.Int{} // expected balance movement per address
	add := func(a string, n *big.Int) {
		if want[a] == nil {
			want[a] = new(big.Int)
		}
		want[a].Add(want[a], n)
	}
	add(t.Payer, new(big.Int).Neg(fee))
	if c == nil {
		e.hit("bid-success-without-conversation", where)
		return
	}
	if !t.Opens && o == nil {
		e.hit("bid-success-without-active-offer", where)
		return
	}
	refund := func() {
		if o != nil && o.OType == 1 {
			add(c.Bidder, o.Amount)
		}
	}
	switch {
	case t.Kind == "create":
		refund() // (a counter offer: nothing)
		add(c.Bidder, new(big.Int).Neg(t.Amount))
		if n := post.AOffers[t.ID]; n == nil || !n.locked() || n.Amount.Cmp(t.Amount) != 0 {
			e.hit("bid-offer-not-recorded", where)
		}
		if c.Bidder != t.Payer {
			e.hit("bid-unauthorised-debit", where+": the locked amount is not the signer's")
		}
	case t.Kind == "counter":
		refund()
		if n := post.AOffers[t.ID]; n == nil || n.OType != 2 || n.Amount.Cmp(t.Amount) != 0 {
			e.hit("bid-offer-not-recorded", where)
		}
		if c.Owner != t.Payer {
			e.hit("bid-not-the-owner", where)
		}
	case accept && t.Kind == "odec":
		add(c.Owner, o.Amount) // paid from the lock
		if o.OType != 1 || c.Owner != t.Payer {
			e.hit("bid-payout-not-authorised", where)
		}
	case accept && t.Kind == "bdec":
		add(c.Bidder, new(big.Int).Neg(o.Amount))
		add(c.Owner, o.Amount)
		if o.OType != 2 || c.Bidder != t.Payer {
			e.hit("bid-payout-not-authorised", where)
		}
	default: // reject, cancel, expire
		refund()
		if (t.Kind == "cancel" || t.Kind == "bdec") && c.Bidder != t.Payer {
			e.hit("bid-not-the-bidder", where)
		}
		if t.Kind == "odec" && c.Owner != t.Payer {
			e.hit("bid-not-the-owner", where)
		}
	}
	// ---- e: refunds and payouts are exact, nobody else's balance moves
	seen := map[string]bool{}
	for k := range pre.Ons.Bals {
		seen[k] = true
	}
	for k := range post.Ons.Bals {
		seen[k] = true
	}
	for k := range seen {
		if !strings.HasSuffix(k, "/OLT") {
			if pre.Ons.bal(k).Cmp(post.Ons.bal(k)) != 0 {
				e.hit("bid-wrong-balance-movement", fmt.Sprintf("%s: %s moved", where, k))
			}
			continue
		}
		a := strings.TrimSuffix(k, "/OLT")
		d := new(big.Int).Sub(post.Ons.bal(k), pre.Ons.bal(k))
		w := want[a]
		if w == nil {
			w = new(big.Int)
		}
		if d.Cmp(w) != 0 {
			e.hit("bid-wrong-balance-movement", fmt.Sprintf("%s: %s moved by %s, entitled movement %s", where, a, d, w))
		}
		// ---- C03: holdings (balance + own locked offers) fall only for the signer, or for the
		// bidder whose locked offer the owner's acceptance pays out
		hp := new(big.Int).Add(pre.olt(a), pre.lockedOf(a))
		hq := new(big.Int).Add(post.olt(a), post.lockedOf(a))
		if hq.Cmp(hp) < 0 && a != t.Payer {
			paid := accept && t.Kind == "odec" && a == c.Bidder && c.Owner == t.Payer && new(big.Int).Sub(hp, hq).Cmp(o.Amount) == 0
			if !paid {
				e.hit("bid-unauthorised-debit", fmt.Sprintf("%s: holdings of %s fell %s -> %s", where, a, hp, hq))
			}
		}
	}
	// ---- the conversation ends exactly when it should, the asset moves exactly on acceptance
	if closes {
		status := map[string]int{"cancel": 3, "expire": 4}[t.Kind]
		if t.Kind == "odec" || t.Kind == "bdec" {
			status = 5
			if accept {
				status = 2
			}
		}
		if post.Active[t.ID] != nil || post.AOffers[t.ID] != nil || !bidmEqConv(post.Closed[strconv.Itoa(status)+";"+t.ID], c) {
			e.hit("bid-conversation-not-closed", where)
		}
		io := post.IOffers[fmt.Sprintf("%s;%d;%d", t.ID, o.OType, o.Time)]
		wantStatus := o.AStatus
		if o.OType == 1 {
			wantStatus = 2
			if accept {
				wantStatus = 4
			}
		}
		if io == nil || io.Amount.Cmp(o.Amount) != 0 || io.AStatus != wantStatus {
			e.hit("bid-offer-history-wrong", fmt.Sprintf("%s: %v", where, io))
		}
	} else if post.Active[t.ID] == nil {
		e.hit("bid-conversation-closed-unexpectedly", where)
	}
	dd := bidmDomainsDiff(pre, post)
	if accept && c.AType == int(bid_data.BidAssetOns) {
		d0, d1 := pre.Ons.Recs[c.Asset], post.Ons.Recs[c.Asset]
		if d0 == nil || d1 == nil || d0.Owner != c.Owner || d1.Owner != c.Bidder {
			e.hit("bid-asset-not-transferred", fmt.Sprintf("%s: %v -> %v", where, d0, d1))
		}
		for _, n := range dd {
			if n != c.Asset && !(strings.HasSuffix(n, "."+c.Asset) && post.Ons.Recs[n] == nil) {
				e.hit("bid-asset-moved-without-acceptance", fmt.Sprintf("%s: domain %s changed", where, n))
			}
		}
		e.nontriv["ons-deal"] = true
	} else if len(dd) > 0 {
		e.hit("bid-asset-moved-without-acceptance", fmt.Sprintf("%s: domains %s changed", where, strings.Join(dd, ",")))
	}
	// coverage marks
	switch {
	case accept && t.Kind == "odec":
		e.nontriv["owner-accept"] = true
	case accept:
		e.nontriv["bidder-accept"] = true
	case t.Kind == "counter":
		e.nontriv["counter"] = true
	case closes && o.OType == 1:
		e.nontriv["refund"] = true
	}
	if t.Opens && pre.closedAny(t.ID) {
		e.res.Counters["reopened_in_creating_block"]++
	}
}

// deliver executes one transaction inside the current block and runs monitor + correspondence on it.
func (e *bidmRun) deliver(gt GenTx, b *Block) TxResult {
	version := e.A.App.VerifChainState().Version
	pre := decodeBidm(e.view(), e.committed)
	tr := e.A.DeliverTx(gt.Bytes)
	post := decodeBidm(e.view(), e.committed)
	t := bidmDecodeTx(gt.Bytes, b.Height)
	if t == nil {
		// not a bid transaction: it must leave every bid record alone
		e.hl.Add("  tx %s (%s) -> code %d", gt.Kind, gt.Note, tr.Code)
		e.res.Distribution[fmt.Sprintf("other:%s:%d", gt.Kind, tr.Code)]++
		if d := bidmRecordsDiff(pre, post); d != "" {
			e.hit("bid-records-changed-by-other-tx", fmt.Sprintf("height %d %s: %s", b.Height, gt.Kind, d))
		}
		return tr
	}
	herr, ferr := "", ""
	if tr.Code != 0 {
		herr, ferr = bidmErrClass(tr.Log)
	}
	code := "ok"
	switch {
	case tr.Code == 0:
	case herr != "":
		code = "fail:" + herr
	case ferr != "":
		code = "fail:" + ferr
	default:
		code = "fail:other:" + strconv.Quote(tr.Log)
	}
	e.res.Distribution[t.Kind+":"+code]++
	e.res.Distribution["note:"+gt.Note+" => "+strings.SplitN(code, ":", 2)[0]]++
	e.hl.Add("  tx %s note=%s -> %s gas=%d", t.Desc, gt.Note, code, tr.GasUsed)
	if e.debug {
		fmt.Fprintf(realStdout, "h=%d %s note=%s\n    -> code=%d %s log=%s\n", b.Height, t.Desc, gt.Note, tr.Code, code, tr.Log)
	}
	e.monitorTx(t, tr, code, b.Height, pre, post)
	// ---- correspondence line
	if !bidmTokenSafe(strings.ReplaceAll(t.Tokens, " ", "")) {
		e.res.Counters["lines_skipped_unprintable"]++
		return tr
	}
	feeObs := fmt.Sprint(tr.GasUsed)
	if tr.Code != 0 {
		switch ferr {
		case "feeGas":
			feeObs = "go"
		case "feeDebit":
			feeObs = "nf"
		default:
			feeObs = "0"
		}
	}
	minFee := e.w.State.Governance.FeeOption.MinFee().Amount.BigInt()
	ids := map[string]bool{t.ID: true}
	addrs := e.addrs(pre, t.Payer, t.Field)
	in := fmt.Sprintf("bidm %d %d %d %s %s %s %s %s %s %s", b.Height, version, b.Time.Unix(), t.FeePrice, minFee, feeObs, bidmDash(t.Payer),
		b01(t.SigValid), t.Tokens, pre.tokens(addrs, ids, true))
	out := code + " " + post.tokens(addrs, ids, true)
	e.lines = append(e.lines, in)
	e.impl = append(e.impl, out)
	e.kinds = append(e.kinds, "bid-step")
	return tr
}

// block executes one block: BeginBlock (the queue of the block function), the transactions,
// EndBlock (the block function runs), Commit.
func (e *bidmRun) block(gts []GenTx, dt int64) error {
	var txs [][]byte
	for _, t := range gts {
		txs = append(txs, t.Bytes)
	}
	b := e.sim.NextBlock(txs, BlockOpts{DtSeconds: dt})
	e.hl.Add("block %d dt=%d time=%d txs=%d", b.Height, dt, b.Time.Unix(), len(gts))
	if b.Time.Nanosecond() != 0 {
		e.hit("bid-harness-subsecond-header", fmt.Sprint(b.Time))
	}
	e.A.SaveBlock(b)
	br := &BlockResult{Height: b.Height}
	begin := decodeBidm(e.committed, e.committed)
	bb := e.A.BeginBlock(b)
	br.BeginEvents = bb.Events
	// the queue BeginBlock builds: the committed active conversations past their deadline (the
	// implementation's own expression, evaluated here; its effect is observed at EndBlock)
	var queue []string
	for id, c := range begin.Active {
		if time.Unix(c.Deadline, 0).Before(b.Time) {
			queue = append(queue, id)
		}
	}
	sort.Strings(queue)
	if len(begin.Active) > 0 {
		e.lines = append(e.lines, fmt.Sprintf("bidq %d %s", b.Time.Unix(), strings.SplitN(begin.tokens(nil, nil, false), " C ", 2)[0]))
		e.impl = append(e.impl, strings.TrimSpace(fmt.Sprintf("Q %d %s", len(queue), strings.Join(queue, " "))))
		e.kinds = append(e.kinds, "bid-queue")
	}
	for _, gt := range gts {
		br.Txs = append(br.Txs, e.deliver(gt, b))
		if e.A.Crashed {
			e.hit("app-closed-by-panic", fmt.Sprintf("block %d tx %s %s", b.Height, gt.Kind, gt.Note))
			return fmt.Errorf("application closed itself")
		}
	}
	// ---- the block function
	version := e.A.App.VerifChainState().Version
	pre := decodeBidm(e.view(), e.committed)
	eb := e.A.EndBlock(b.Height)
	post := decodeBidm(e.view(), e.committed)
	e.monitorHook(b, queue, pre, post)
	if len(queue) > 0 || bidmRecordsDiff(pre, post) != "" {
		addrs := e.addrs(pre)
		ids := map[string]bool{}
		for _, q := range queue {
			ids[q] = true
		}
		e.lines = append(e.lines, fmt.Sprintf("bidm %d %d %d 0 0 0 - 1 hook %d %s %s", b.Height, version, b.Time.Unix(), len(queue), strings.Join(queue, " "), pre.tokens(addrs, ids, false)))
		e.impl = append(e.impl, "ok "+post.tokens(addrs, ids, false))
		e.kinds = append(e.kinds, "bid-hook")
		e.hl.Add("  hook queue=%d", len(queue))
	}
	br.Updates = eb.ValidatorUpdates
	br.AppHash = e.A.Commit()
	e.A.IndexBlock(b, br)
	e.sim.Absorb(b, br)
	e.committed = e.A.DumpMap()
	after := decodeBidm(e.committed, e.committed)
	if d := bidmRecordsDiff(post, after); d != "" {
		e.hit("bid-commit-changed-records", fmt.Sprintf("block %d: %s", b.Height, d))
	}
	e.monitorShape(fmt.Sprintf("after block %d", b.Height), after)
	return nil
}

// monitorHook: the block function gives back exactly the locked amounts of the conversations it
// expires, expires only conversations past their deadline, and takes from nobody.
func (e *bidmRun) monitorHook(b *Block, queue []string, pre, post *bidmState) {
	where := fmt.Sprintf("block function at height %d", b.Height)
	e.monitorShape(where, post)
	e.monitorClosed(where, pre, post)
	inQ := map[string]bool{}
	for _, q := range queue {
		inQ[q] = true
	}
	want := map[string]*big.Int{}
	for id, c := range pre.Active {
		if post.Active[id] != nil {
			if !bidmEqConv(c, post.Active[id]) || !bidmEqOffer(pre.AOffers[id], post.AOffers[id]) {
				e.hit("bid-hook-changed-live-conversation", where+": "+id)
			}
			continue
		}
		// the conversation left the active store in EndBlock
		if !inQ[id] || !time.Unix(c.Deadline, 0).Before(b.Time) {
			e.hit("bid-hook-expired-before-deadline", fmt.Sprintf("%s: %s deadline %d, block time %d", where, id, c.Deadline, b.Time.Unix()))
		}
		if !bidmEqConv(post.Closed["4;"+id], c) || post.AOffers[id] != nil {
			e.hit("bid-conversation-not-closed", where+": "+id)
		}
		if o := pre.AOffers[id]; o != nil && o.OType == 1 {
			if want[c.Bidder] == nil {
				want[c.Bidder] = new(big.Int)
			}
			want[c.Bidder].Add(want[c.Bidder], o.Amount)
			e.nontriv["hook-refund"] = true
		}
		e.nontriv["hook-expiry"] = true
		e.res.Counters["hook_expiries"]++
	}
	for id := range post.Active {
		if pre.Active[id] == nil {
			e.hit("bid-hook-opened-conversation", where+": "+id)
		}
	}
	for _, q := range queue {
		if pre.Active[q] != nil && post.Active[q] != nil {
			e.hit("bid-hook-missed-expiry", where+": "+q)
		}
	}
	// balances of the user accounts: only the refunds (validators' accounts receive fees and rewards here)
	for _, a := range e.addrs(pre) {
		d := new(big.Int).Sub(post.olt(a), pre.olt(a))
		w := want[a]
		if w == nil {
			w = new(big.Int)
		}
		if d.Cmp(w) != 0 {
			e.hit("bid-wrong-balance-movement", fmt.Sprintf("%s: %s moved by %s, refunds due %s", where, a, d, w))
		}
		hp := new(big.Int).Add(pre.olt(a), pre.lockedOf(a))
		hq := new(big.Int).Add(post.olt(a), post.lockedOf(a))
		if hq.Cmp(hp) != 0 {
			e.hit("bid-unauthorised-debit", fmt.Sprintf("%s: holdings of %s %s -> %s", where, a, hp, hq))
		}
	}
	if d := bidmDomainsDiff(pre, post); len(d) > 0 {
		e.hit("bid-asset-moved-without-acceptance", where+": "+strings.Join(d, ","))
	}
}

// correspond runs the collected lines through the Lean model.
func (e *bidmRun) correspond(driver string) error {
	if driver == "" || len(e.lines) == 0 {
		return nil
	}
	model, err := kv.RunDriver(driver, "bidm", e.lines)
	if err != nil {
		return err
	}
	for i := range e.lines {
		e.res.Counters["compared_"+e.kinds[i]]++
		if model[i] != e.impl[i] {
			e.res.DisagreementCount++
			if len(e.res.Disagreements) < 5 {
				e.res.Disagreements = append(e.res.Disagreements, Disagreement{e.kinds[i], e.c, e.lines[i], e.impl[i], model[i], append([]string{}, e.hl.Lines...)})
			}
		}
	}
	e.res.Counters["steps_compared"] += len(e.lines)
	return nil
}

// ---------------------------------------------------------------- generator

func bidmSign(msg action.Msg, fee action.Fee, memo string, signer *Acct, badSig bool) []byte {
	raw := RawOf(msg, fee, memo)
	if !badSig {
		return Sign(raw, signer)
	}
	other := raw
	other.Memo = memo + "x"
	st := action.SignedTx{RawTx: raw, Signatures: []action.Signature{{Signer: signer.Pub, Signed: signer.Sign(other.RawBytes())}}}
	b, err := serialize.GetSerializer(serialize.NETWORK).Serialize(&st)
	if err != nil {
		panic(err)
	}
	return b
}

// mk builds a transaction like Gen.mk, with the refusable variants (bad signature, fee below the minimum).
func (e *bidmRun) mk(kind, note string, msg action.Msg, signer *Acct) GenTx {
	switch e.r.Intn(40) {
	case 0:
		return GenTx{Kind: kind, Note: note + ",bad-signature", Bytes: bidmSign(msg, DefaultFee(), e.g.nextMemo(), signer, true), Signer: []keys.Address{signer.Addr}}
	case 1:
		f := DefaultFee()
		f.Price = OLTInt(100000000)
		return GenTx{Kind: kind, Note: note + ",fee-below-minimum", Bytes: bidmSign(msg, f, e.g.nextMemo(), signer, false), Signer: []keys.Address{signer.Addr}}
	}
	return e.g.mk(kind, note, msg, signer)
}

func (e *bidmRun) acctOf(addrHex string) *Acct {
	for _, a := range e.w.Accts {
		if hex.EncodeToString(a.Addr) == addrHex {
			return a
		}
	}
	return nil
}

func bidmAddr(h string) keys.Address {
	b, _ := hex.DecodeString(h)
	return keys.Address(b)
}

var bidmE18 = new(big.Int).Exp(big.NewInt(10), big.NewInt(18), nil)

// hostileAmount: 0, negative, above the balance, huge, one nue.
func (e *bidmRun) hostileAmount(st *bidmState, who *Acct) (*big.Int, string) {
	bal := st.olt(hex.EncodeToString(who.Addr))
	switch e.r.Intn(7) {
	case 0:
		return new(big.Int), "amount-0"
	case 1:
		return big.NewInt(-1), "amount-negative"
	case 2:
		return new(big.Int).Neg(new(big.Int).Mul(big.NewInt(int64(1+e.r.Intn(50))), bidmE18)), "amount-negative"
	case 3:
		return new(big.Int).Add(bal, big.NewInt(1)), "amount-balance+1"
	case 4:
		return new(big.Int).Set(bal), "amount-whole-balance"
	case 5:
		return new(big.Int).Lsh(big.NewInt(1), uint(64+e.r.Intn(200))), "amount-huge"
	}
	return big.NewInt(1), "amount-1-nue"
}

func (e *bidmRun) hostileID() (bid_data.BidConvId, string) {
	switch e.r.Intn(5) {
	case 0:
		return bid_data.BidConvId("x"), "id-short"
	case 1:
		return bid_data.BidConvId(strings.Repeat("0", 63)), "id-63"
	case 2:
		return bid_data.BidConvId(strings.Repeat("0", 65)), "id-65"
	case 3:
		return bid_data.BidConvId(strings.Repeat("z", 64)), "id-unknown"
	}
	h := sha256.Sum256([]byte(strconv.Itoa(e.r.Intn(1000))))
	return bid_data.BidConvId(hex.EncodeToString(h[:])), "id-unknown"
}

func (e *bidmRun) hostileDeadline(now int64) (int64, string) {
	lim := int64(9223372036854775807) - 62135596800
	switch e.r.Intn(8) {
	case 0:
		return 0, "deadline-0"
	case 1:
		return -1 - int64(e.r.Intn(100000)), "deadline-negative"
	case 2:
		return 9223372036854775807, "deadline-maxint64"
	case 3:
		return lim, "deadline-last-before-wrap"
	case 4:
		return lim + 1, "deadline-first-wrapped"
	case 5:
		return now, "deadline-now"
	case 6:
		return now - 1, "deadline-just-over"
	}
	return -9223372036854775808, "deadline-minint64"
}

// sorted ids of the active conversations
func bidmIDs(st *bidmState) []string {
	var ids []string
	for id := range st.Active {
		ids = append(ids, id)
	}
	sort.Strings(ids)
	return ids
}

// rightStep: the next sensible step of an active conversation by the right party (so that
// conversations run to deals), amounts taken from the decoded state.
func (e *bidmRun) rightStep(st *bidmState, id string) []GenTx {
	c, o := st.Active[id], st.AOffers[id]
	if c == nil || o == nil {
		return nil
	}
	owner, bidder := e.acctOf(c.Owner), e.acctOf(c.Bidder)
	if owner == nil || bidder == nil {
		return nil
	}
	cid := bid_data.BidConvId(id)
	x := e.r.Intn(10)
	if o.OType == 1 {
		switch {
		case x < 4:
			return []GenTx{e.mk("BID_OWNER_DECISION", "right-accept", &bid_action.OwnerDecision{BidConvId: cid, Owner: owner.Addr, Decision: bid_data.AcceptBid}, owner)}
		case x < 5:
			return []GenTx{e.mk("BID_OWNER_DECISION", "right-reject", &bid_action.OwnerDecision{BidConvId: cid, Owner: owner.Addr, Decision: bid_data.RejectBid}, owner)}
		case x < 6:
			return []GenTx{e.mk("BID_CANCEL", "right-cancel", &bid_action.CancelBid{BidConvId: cid, Bidder: bidder.Addr}, bidder)}
		case x < 7:
			n, note := e.hostileAmount(st, owner)
			return []GenTx{e.mk("BID_CONTER_OFFER", "hostile-"+note, &bid_action.CounterOffer{BidConvId: cid, AssetOwner: owner.Addr, Amount: amtOf("OLT", n)}, owner)}
		}
		n := new(big.Int).Add(o.Amount, big.NewInt(int64(e.r.Intn(3)))) // equal (refused), +1, +2 nue
		if e.r.Bool() {
			n.Add(o.Amount, new(big.Int).Mul(big.NewInt(int64(1+e.r.Intn(9))), bidmE18))
		}
		return []GenTx{e.mk("BID_CONTER_OFFER", "right-counter", &bid_action.CounterOffer{BidConvId: cid, AssetOwner: owner.Addr, Amount: amtOf("OLT", n)}, owner)}
	}
	switch {
	case x < 4:
		return []GenTx{e.mk("BID_BIDDER_DECISION", "right-accept", &bid_action.BidderDecision{BidConvId: cid, Bidder: bidder.Addr, Decision: bid_data.AcceptBid}, bidder)}
	case x < 5:
		return []GenTx{e.mk("BID_BIDDER_DECISION", "right-reject", &bid_action.BidderDecision{BidConvId: cid, Bidder: bidder.Addr, Decision: bid_data.RejectBid}, bidder)}
	case x < 6:
		return []GenTx{e.mk("BID_CANCEL", "right-cancel", &bid_action.CancelBid{BidConvId: cid, Bidder: bidder.Addr}, bidder)}
	case x < 7:
		n, note := e.hostileAmount(st, bidder)
		return []GenTx{e.mk("BID_OFFER", "hostile-"+note, &bid_action.CreateBid{BidConvId: cid, Bidder: bidder.Addr, Amount: amtOf("OLT", n)}, bidder)}
	}
	n := new(big.Int).Sub(o.Amount, big.NewInt(int64(e.r.Intn(3))))
	if e.r.Bool() && o.Amount.Cmp(bidmE18) > 0 {
		n.Sub(o.Amount, bidmE18)
	}
	if n.Sign() < 0 {
		n.SetInt64(0)
	}
	return []GenTx{e.mk("BID_OFFER", "right-offer", &bid_action.CreateBid{BidConvId: cid, Bidder: bidder.Addr, Amount: amtOf("OLT", n)}, bidder)}
}

// special: focused scripts (several transactions meant for one block) and hostile fields.
func (e *bidmRun) special(st *bidmState, height, now int64) []GenTx {
	owner := e.g.acct()
	bidder := e.g.otherAcct(owner)
	e.extraDoms++
	name := "ex-" + strconv.Itoa(e.extraDoms)
	far := now + 100000
	create := func(note string, dl int64, n int64) GenTx {
		return e.mk("BID_CREATE", note, &bid_action.CreateBid{AssetOwner: owner.Addr, AssetName: name, AssetType: bid_data.BidAssetExample, Bidder: bidder.Addr,
			Amount: OLT(n), Deadline: dl}, bidder)
	}
	id := bidConvID(owner.Addr, name, bidder.Addr, height)
	switch e.r.Intn(12) {
	case 0: // a conversation closed in the block that created it, created again under the same id
		closeTx := e.g.mk("BID_CANCEL", "reopen-script", &bid_action.CancelBid{BidConvId: id, Bidder: bidder.Addr}, bidder)
		switch e.r.Intn(3) {
		case 0:
			closeTx = e.g.mk("BID_OWNER_DECISION", "reopen-script", &bid_action.OwnerDecision{BidConvId: id, Owner: owner.Addr, Decision: bid_data.AcceptBid}, owner)
		case 1:
			closeTx = e.g.mk("BID_EXPIRE", "reopen-script", &bid_action.ExpireBid{BidConvId: id, ValidatorAddress: owner.Addr}, owner)
		}
		return []GenTx{e.g.mk("BID_CREATE", "reopen-script", &bid_action.CreateBid{AssetOwner: owner.Addr, AssetName: name, AssetType: bid_data.BidAssetExample, Bidder: bidder.Addr,
			Amount: OLT(7), Deadline: far}, bidder), closeTx,
			e.g.mk("BID_CREATE", "reopen-script", &bid_action.CreateBid{AssetOwner: owner.Addr, AssetName: name, AssetType: bid_data.BidAssetExample, Bidder: bidder.Addr,
				Amount: OLT(9), Deadline: far + 5}, bidder)}
	case 1: // opened twice in one block (the second Set overwrites the record; the active offer is in the way)
		return []GenTx{create("twice-script", far, 5), create("twice-script", far+7, 6)}
	case 2: // open, counter offer, open again in the same block: the record (and its deadline) is overwritten
		return []GenTx{create("overwrite-script", far, 5),
			e.g.mk("BID_CONTER_OFFER", "overwrite-script", &bid_action.CounterOffer{BidConvId: id, AssetOwner: owner.Addr, Amount: OLT(50)}, owner),
			create("overwrite-script", now+int64(e.r.Intn(4)), 20)}
	case 3: // offers of one type at one header time overwrite each other's history record
		return []GenTx{create("same-time-script", far, 5),
			e.g.mk("BID_CONTER_OFFER", "same-time-script", &bid_action.CounterOffer{BidConvId: id, AssetOwner: owner.Addr, Amount: OLT(50)}, owner),
			e.g.mk("BID_OFFER", "same-time-script", &bid_action.CreateBid{BidConvId: id, Bidder: bidder.Addr, Amount: OLT(30)}, bidder),
			e.g.mk("BID_CONTER_OFFER", "same-time-script", &bid_action.CounterOffer{BidConvId: id, AssetOwner: owner.Addr, Amount: OLT(40)}, owner),
			e.g.mk("BID_BIDDER_DECISION", "same-time-script", &bid_action.BidderDecision{BidConvId: id, Bidder: bidder.Addr, Decision: bid_data.AcceptBid}, bidder)}
	case 4:
		dl, note := e.hostileDeadline(now + 1)
		return []GenTx{create("hostile-"+note, dl, 3)}
	case 5:
		n, note := e.hostileAmount(st, bidder)
		return []GenTx{e.mk("BID_CREATE", "hostile-"+note, &bid_action.CreateBid{AssetOwner: owner.Addr, AssetName: name, AssetType: bid_data.BidAssetExample, Bidder: bidder.Addr,
			Amount: amtOf("OLT", n), Deadline: far}, bidder)}
	case 6: // another currency, an unknown one
		cur := []string{"VT", "XYZ", ""}[e.r.Intn(3)]
		if e.r.Bool() {
			return []GenTx{e.mk("BID_CREATE", "hostile-currency", &bid_action.CreateBid{AssetOwner: owner.Addr, AssetName: name, AssetType: bid_data.BidAssetExample, Bidder: bidder.Addr,
				Amount: action.Amount{Currency: cur, Value: OLT(1).Value}, Deadline: far}, bidder)}
		}
		if ids := bidmIDs(st); len(ids) > 0 {
			c := st.Active[ids[e.r.Intn(len(ids))]]
			if o := e.acctOf(c.Owner); o != nil {
				return []GenTx{e.mk("BID_CONTER_OFFER", "hostile-currency", &bid_action.CounterOffer{BidConvId: bid_data.BidConvId(c.ID), AssetOwner: o.Addr,
					Amount: action.Amount{Currency: cur, Value: OLT(1000).Value}}, o)}
			}
		}
	case 7: // ids of the wrong shape, unknown ids
		hid, note := e.hostileID()
		a := e.g.acct()
		switch e.r.Intn(6) {
		case 0:
			return []GenTx{e.mk("BID_OFFER", "hostile-"+note, &bid_action.CreateBid{BidConvId: hid, Bidder: a.Addr, Amount: OLT(1)}, a)}
		case 1:
			return []GenTx{e.mk("BID_CONTER_OFFER", "hostile-"+note, &bid_action.CounterOffer{BidConvId: hid, AssetOwner: a.Addr, Amount: OLT(2)}, a)}
		case 2:
			return []GenTx{e.mk("BID_CANCEL", "hostile-"+note, &bid_action.CancelBid{BidConvId: hid, Bidder: a.Addr}, a)}
		case 3:
			return []GenTx{e.mk("BID_BIDDER_DECISION", "hostile-"+note, &bid_action.BidderDecision{BidConvId: hid, Bidder: a.Addr, Decision: bid_data.AcceptBid}, a)}
		case 4:
			return []GenTx{e.mk("BID_OWNER_DECISION", "hostile-"+note, &bid_action.OwnerDecision{BidConvId: hid, Owner: a.Addr, Decision: bid_data.RejectBid}, a)}
		}
		return []GenTx{e.mk("BID_EXPIRE", "hostile-"+note, &bid_action.ExpireBid{BidConvId: hid, ValidatorAddress: a.Addr}, a)}
	case 8: // owner addresses of the wrong shape, unknown asset types, ill-formed names
		c := &bid_action.CreateBid{AssetOwner: owner.Addr, AssetName: name, AssetType: bid_data.BidAssetExample, Bidder: bidder.Addr, Amount: OLT(2), Deadline: far}
		note := ""
		switch e.r.Intn(6) {
		case 0:
			c.AssetOwner, note = nil, "owner-empty"
		case 1:
			c.AssetOwner, note = keys.Address{1, 2, 3}, "owner-short"
		case 2:
			c.AssetType, note = bid_data.BidAssetType([]int{0, -1, 0x23, 0xEE, 99}[e.r.Intn(5)]), "asset-type-unknown"
		case 3:
			c.AssetType, c.AssetName, note = bid_data.BidAssetOns, []string{"", "ol", "a..ol", "no such name", "nosuch.ol", "x.y.z.ol"}[e.r.Intn(6)], "ons-name-bad"
		case 4:
			c.AssetName, note = "", "example-empty-name"
		default:
			c.AssetOwner, note = bidder.Addr, "self-bid"
		}
		return []GenTx{e.mk("BID_CREATE", "hostile-"+note, c, bidder)}
	case 9: // decisions that are neither accept nor reject
		if ids := bidmIDs(st); len(ids) > 0 {
			c := st.Active[ids[e.r.Intn(len(ids))]]
			d := bid_data.BidDecision([]int{0, 3, 255, -1, 256}[e.r.Intn(5)])
			if o, b := e.acctOf(c.Owner), e.acctOf(c.Bidder); o != nil && b != nil {
				if st.AOffers[c.ID] != nil && st.AOffers[c.ID].OType == 1 {
					return []GenTx{e.mk("BID_OWNER_DECISION", "hostile-decision", &bid_action.OwnerDecision{BidConvId: bid_data.BidConvId(c.ID), Owner: o.Addr, Decision: d}, o)}
				}
				return []GenTx{e.mk("BID_BIDDER_DECISION", "hostile-decision", &bid_action.BidderDecision{BidConvId: bid_data.BidConvId(c.ID), Bidder: b.Addr, Decision: d}, b)}
			}
		}
	case 10: // the signer names somebody else in the party field (Validate must refuse)
		if ids := bidmIDs(st); len(ids) > 0 {
			c := st.Active[ids[e.r.Intn(len(ids))]]
			att := e.g.acct()
			cid := bid_data.BidConvId(c.ID)
			switch e.r.Intn(4) {
			case 0:
				return []GenTx{e.g.mk("BID_OWNER_DECISION", "forged-party", &bid_action.OwnerDecision{BidConvId: cid, Owner: bidmAddr(c.Owner), Decision: bid_data.AcceptBid}, att)}
			case 1:
				return []GenTx{e.g.mk("BID_BIDDER_DECISION", "forged-party", &bid_action.BidderDecision{BidConvId: cid, Bidder: bidmAddr(c.Bidder), Decision: bid_data.AcceptBid}, att)}
			case 2:
				return []GenTx{e.g.mk("BID_CANCEL", "forged-party", &bid_action.CancelBid{BidConvId: cid, Bidder: bidmAddr(c.Bidder)}, att)}
			}
			return []GenTx{e.g.mk("BID_OFFER", "forged-party", &bid_action.CreateBid{BidConvId: cid, Bidder: bidmAddr(c.Bidder), Amount: OLT(1)}, att)}
		}
	}
	// a conversation on the example asset with a deadline a few blocks away (the block function expires it)
	return []GenTx{create("near-deadline", now+int64(1+e.r.Intn(12)), int64(1+e.r.Intn(40)))}
}

// domain registers a name for a bid to name: mostly long-lived, sometimes for a few blocks only.
func (e *bidmRun) domain(st *bidmState) GenTx {
	a := e.g.acct()
	e.extraDoms++
	name := fmt.Sprintf("n%d.ol", e.extraDoms)
	price := new(big.Int).Add(st.Ons.Base, new(big.Int).Mul(st.Ons.PerB, big.NewInt(int64(2+e.r.Intn(7)))))
	note := "short-lived"
	if e.r.Intn(3) > 0 {
		price.Add(st.Ons.Base, new(big.Int).Mul(st.Ons.PerB, big.NewInt(100000)))
		note = "long-lived"
	}
	e.g.Domains = append(e.g.Domains, &genDomain{Name: name, Owner: a})
	return e.g.mk("DOMAIN_CREATE", note, &aons.DomainCreate{Owner: a.Addr, Beneficiary: a.Addr, Name: ons.Name(name), Uri: "", BuyingPrice: amtOf("OLT", price)}, a)
}

// ---------------------------------------------------------------- engine

type BidmOptions struct {
	Driver    string
	Seed      uint64
	Histories int
	Blocks    int
	MaxTxs    int
	Debug     bool
}

const bidmRule = "case = one generated block history on the real application: ONS names registered (long- and short-lived), put on sale, bought, updated; bid conversations on those names and on the example asset: first offers, counter offers, further offers, both decisions (accept / reject / other values), cancel, BID_EXPIRE by outsiders and validators, the block function's expiry (deadlines 1-12 s ahead, blocks of 1-5 s, now and then 3000 s), the shared generator's bid / hostile-amount / stranger streams, state-aware right-party steps, scripts inside one block (close and re-create under the same id, open twice, overwrite after a counter offer, offers of one type at one header time), hostile amounts (0, negative, balance+1, whole balance, 2^64..2^264), currencies, ids of the wrong shape, owner addresses of the wrong shape, unknown asset types, ill-formed names, deadlines at the int64 / time.Unix wrap, forged party fields, bad signatures, fees below the minimum, low gas; every bid DeliverTx, every EndBlock run of the block function and every BeginBlock queue is a stateless correspondence step (decoded pre-state + op -> result class + post-state, Lean model vs implementation) and a monitor evaluation; non-trivial = the history contains a successful acceptance by the owner, one by the bidder, a counter offer, a refund of a locked offer (reject / cancel / expire) and an expiry by the block function; distinct = SHA-256 of the history lines"

func RunBidm(opt BidmOptions) (*Result, error) {
	res := NewResult("bidm", opt.Seed, bidmRule)
	seen := map[[32]byte]bool{}
	root := rng.New(opt.Seed*2654435761 + 902)
	for c := 0; c < opt.Histories; c++ {
		r := root.Fork()
		hl := &HistoryLog{}
		e18 := bidmE18
		p := onsParams{Seed: opt.Seed*1000 + uint64(c), NAccts: 4 + r.Intn(3), Base: new(big.Int).Mul(big.NewInt(int64(5+r.Intn(1000))), e18),
			PerBlock: new(big.Int).Exp(big.NewInt(10), big.NewInt(int64(12+r.Intn(5))), nil)}
		if r.Intn(3) == 0 {
			// the last account runs dry quickly: lock and fee-step failures
			p.Poor = new(big.Int).Mul(big.NewInt(int64(1+r.Intn(60))), e18)
		}
		w := newOnsWorld(p)
		A, err := NewReplica(w, Identity{Name: "A", Val: w.Vals[0]})
		if err != nil {
			return nil, err
		}
		A.InitChain()
		e := &bidmRun{w: w, A: A, sim: NewSim(w), g: NewGen(w, r.Fork()), r: r, res: res, c: c, hl: hl, nontriv: map[string]bool{}, debug: opt.Debug}
		e.committed = A.DumpMap()
		hl.Add("%s", p.String())
		for bi := 0; bi < opt.Blocks; bi++ {
			st := decodeBidm(e.committed, e.committed)
			e.g.Height = e.sim.Height + 1
			e.g.Now = e.sim.Time
			now := e.sim.Time.Unix()
			n := r.Intn(opt.MaxTxs + 1)
			if bi < 3 && n < 2 {
				n = 2
			}
			var gts []GenTx
			for len(gts) < n {
				ids := bidmIDs(st)
				switch x := r.Intn(100); {
				case len(e.g.Domains) < 2 || x < 6:
					gts = append(gts, e.domain(st))
				case x < 14:
					gts = append(gts, e.g.ons())
				case x < 44:
					gts = append(gts, e.g.bid())
				case x < 50:
					hv := hostileValues()
					h := hv[r.Intn(len(hv))]
					gts = append(gts, e.g.hostileBidTx(h, "hostile-amount:"+short(h.String())))
				case x < 57:
					att := e.g.acct()
					gts = append(gts, e.g.strangerBidTx(att, e.g.otherAcct(att)))
				case x < 80 && len(ids) > 0:
					gts = append(gts, e.rightStep(st, ids[r.Intn(len(ids))])...)
				default:
					gts = append(gts, e.special(st, e.g.Height, now)...)
				}
			}
			dt := int64(1 + r.Intn(5))
			if r.Intn(12) == 0 {
				dt = 3000
			}
			if err := e.block(gts, dt); err != nil {
				break
			}
		}
		if err := e.correspond(opt.Driver); err != nil {
			e.A.Close()
			return nil, err
		}
		e.A.Close()
		res.Evaluations++
		nt := e.nontriv["owner-accept"] && e.nontriv["bidder-accept"] && e.nontriv["counter"] && e.nontriv["refund"] && e.nontriv["hook-expiry"]
		for k := range e.nontriv {
			res.Counters["histories_with_"+k]++
		}
		h := sha256.Sum256([]byte(strings.Join(hl.Lines, "\n")))
		if !seen[h] {
			seen[h] = true
			if nt {
				res.DistinctNontrivial++
			}
		}
		if len(res.Samples) < 2 && nt {
			res.Samples = append(res.Samples, shortAll(hl.Lines[:min(len(hl.Lines), 40)]))
		}
		TruncateAppLog()
	}
	return res, nil
}

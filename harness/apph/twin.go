package apph

import (
	"bytes"
	"crypto/sha256"
	"encoding/hex"
	"fmt"
	"os"
	"os/exec"
	"path/filepath"
	"sort"
	"strings"
	"time"

	"github.com/Oneledger/protocol/action"
	aevid "github.com/Oneledger/protocol/action/evidence"
	agov "github.com/Oneledger/protocol/action/governance"
	"github.com/Oneledger/protocol/data/balance"
	"github.com/Oneledger/protocol/data/governance"

	"olverif/harness/rng"
)

// Hit is a property-monitor failure observed on the implementation.
type Hit struct {
	Signature string   `json:"signature"`
	Case      int      `json:"case"`
	Detail    string   `json:"detail"`
	Ops       []string `json:"ops"`
}

type Disagreement struct {
	Kind  string   `json:"kind"`
	Case  int      `json:"case"`
	Op    string   `json:"op"`
	Impl  string   `json:"impl"`
	Model string   `json:"model"`
	Ops   []string `json:"ops"`
}

// Result is the common result record of the app-level engines (same shape as the kv engine's).
type Result struct {
	Engine             string         `json:"engine"`
	Seed               uint64         `json:"seed"`
	Evaluations        int            `json:"evaluations"`
	DistinctNontrivial int            `json:"distinct_nontrivial"`
	Rule               string         `json:"rule"`
	Exhaustive         bool           `json:"exhaustive"`
	Samples            [][]string     `json:"samples"`
	Disagreements      []Disagreement `json:"disagreements"`
	DisagreementCount  int            `json:"disagreement_count"`
	MonitorHits        []Hit          `json:"monitor_hits"`
	MonitorHitCount    map[string]int `json:"monitor_hit_count"`
	Distribution       map[string]int `json:"distribution"`
	Counters           map[string]int `json:"counters"`
}

func NewResult(engine string, seed uint64, rule string) *Result {
	return &Result{Engine: engine, Seed: seed, Rule: rule, MonitorHitCount: map[string]int{}, Distribution: map[string]int{}, Counters: map[string]int{}}
}

func (r *Result) Hit(sig string, c int, detail string, ops []string) {
	r.MonitorHitCount[sig]++
	n := 0
	for _, h := range r.MonitorHits {
		if h.Signature == sig {
			n++
		}
	}
	if n < 3 && len(r.MonitorHits) < 30 {
		r.MonitorHits = append(r.MonitorHits, Hit{sig, c, detail, ops})
	}
}

// HistoryLog records a history as replayable text lines.
type HistoryLog struct{ Lines []string }

func (h *HistoryLog) Add(f string, a ...interface{}) { h.Lines = append(h.Lines, fmt.Sprintf(f, a...)) }

func logBlock(h *HistoryLog, b *Block, gts []GenTx, o BlockOpts) {
	var ab []string
	for i := range o.Absent {
		ab = append(ab, fmt.Sprint(i))
	}
	sort.Strings(ab)
	h.Add("block %d dt=%d absent=[%s] byz=%v txs=%d", b.Height, o.DtSeconds, strings.Join(ab, ","), o.Byzantine, len(b.Txs))
	for i, t := range gts {
		h.Add("  tx %d %s (%s) %s", i, t.Kind, t.Note, hex.EncodeToString(t.Bytes))
	}
}

// Mode selects which shell property a history is run for.
type Mode string

const (
	ModeTwin       Mode = "twin"       // C01: replicas with different identities / roles
	ModeDropFailed Mode = "dropfailed" // C06: same blocks minus the failed transactions
	ModeInject     Mode = "inject"     // C07: CheckTx calls injected at every boundary
	ModeCrash      Mode = "crash"      // C08: restart from a byte copy of the data directory at ABCI boundaries
)

type TwinOptions struct {
	Seed      uint64
	Mode      Mode
	Histories int
	Blocks    int
	MaxTxs    int
	Repeats   int // C01: how many times the same history is re-executed (Go map order differs per run)
}

func genBlockOpts(r *rng.R, nvals int) BlockOpts {
	o := BlockOpts{DtSeconds: int64(1 + r.Intn(5))}
	if r.Intn(5) == 0 {
		o.DtSeconds = int64(500 + r.Intn(3000)) // cross calculator cycles
	}
	if r.Intn(3) == 0 {
		o.Absent = map[int]bool{r.Intn(nvals + 1): true}
	}
	if r.Intn(25) == 0 {
		o.Byzantine = []int{r.Intn(nvals + 1)}
	}
	return o
}

// paramsFor draws a genesis of the shared generator: the small family, sometimes with an ETH
// chain-driver option, sometimes of the fork family.
func paramsFor(r *rng.R, seed uint64) Params {
	p := paramsBase(r, seed)
	// every fourth genesis belongs to the fork family: the Frankenstein update (OLVM on, minimal
	// self delegation 500000) happens at an early block, the genesis validators stake enough to
	// survive it, and three Ethereum-keyed accounts are funded
	if r.Intn(4) == 0 {
		p.Frankenstein = int64(1 + r.Intn(5))
		p.NEth = 3
		p.GenesisStake = nil
		for i := 0; i < p.NVals; i++ {
			p.GenesisStake = append(p.GenesisStake, int64(500000+100000*r.Intn(4)+i))
		}
	}
	return p
}

// paramsBase is paramsFor without the fork family (engines whose scripted scenarios fix the
// genesis stakes, or whose monitors read the governance options, use it).
func paramsBase(r *rng.R, seed uint64) Params {
	p := SmallParams(seed)
	p.NVals = 2 + r.Intn(4)
	p.NCandidates = 1 + r.Intn(3)
	p.TopValidators = int64(1 + r.Intn(4))
	p.MinSelfDeleg = int64(1 + r.Intn(10))
	p.StakeMaturity = int64(1 + r.Intn(3))
	p.FundingDeadline = int64(2 + r.Intn(4))
	p.VotingDeadline = int64(2 + r.Intn(4))
	p.RewardInterval = int64(1 + r.Intn(2))
	p.BlockSpeedCycle = int64(2 + r.Intn(2))
	p.BlockVotesDiff = int64(2 + r.Intn(3))
	p.MinVotesReq = int64(1 + r.Intn(3))
	p.Witnesses = r.Intn(p.NVals + 1)
	if r.Intn(3) == 0 {
		p.GenesisMatures = 2 + r.Intn(4)
	}
	// every third genesis with witnesses carries an ETH chain-driver option, so that lock / redeem
	// trackers and their role-dependent block-end transitions are part of the history
	if p.Witnesses > 0 && r.Intn(3) == 0 {
		p.ETH = EthOption(int64(200+r.Intn(600)), int64(200+r.Intn(600)))
	}
	return p
}

func diffDumps(a, b [][2][]byte) string {
	ma := map[string]string{}
	for _, kv := range a {
		ma[string(kv[0])] = string(kv[1])
	}
	var out []string
	mb := map[string]bool{}
	for _, kv := range b {
		mb[string(kv[0])] = true
		if v, ok := ma[string(kv[0])]; !ok {
			out = append(out, fmt.Sprintf("only-in-B %q=%.80q", kv[0], kv[1]))
		} else if v != string(kv[1]) {
			out = append(out, fmt.Sprintf("differs %q A=%.80q B=%.80q", kv[0], v, kv[1]))
		}
	}
	for _, kv := range a {
		if !mb[string(kv[0])] {
			out = append(out, fmt.Sprintf("only-in-A %q=%.80q", kv[0], kv[1]))
		}
	}
	if len(out) > 6 {
		out = out[:6]
	}
	return strings.Join(out, "; ")
}

// copyDir takes a byte copy of a data directory whose databases are open (the crash point). The
// application is idle while it runs, but goleveldb's background compaction may still create and
// delete table files: a copy during which the set of files changed is thrown away and taken again.
func copyDir(src, dst string) error {
	listing := func() string {
		var sb strings.Builder
		filepath.Walk(src, func(p string, fi os.FileInfo, err error) error {
			if err == nil && !fi.IsDir() {
				fmt.Fprintf(&sb, "%s %d %d\n", p, fi.Size(), fi.ModTime().UnixNano())
			}
			return nil
		})
		return sb.String()
	}
	var err error
	for try := 0; try < 20; try++ {
		os.RemoveAll(dst)
		before := listing()
		err = exec.Command("cp", "-a", src, dst).Run()
		if err == nil && listing() == before {
			return nil
		}
		time.Sleep(30 * time.Millisecond)
	}
	if err == nil {
		err = fmt.Errorf("data directory %s kept changing while it was copied", src)
	}
	return err
}

// RunTwin runs the selected shell-property engine.
func RunTwin(opt TwinOptions) (*Result, error) {
	rule := map[Mode]string{
		ModeTwin:       "case = one generated block history (genesis family small, 2-5 validators + candidates, all native tx families, absent signers, byzantine evidence, time jumps) executed on 3 replicas that differ in identity/role (validator, candidate, outsider; witness flag) and re-executed `repeats` times; non-trivial = at least one successful state-changing tx and one block hook effect (validator update or reward credit); distinct = SHA-256 of the block/tx lines",
		ModeDropFailed: "case = one generated block history executed on replica A, and on replica B with every transaction that failed on A removed; non-trivial = contains at least one failed tx in a block that also has a successful tx; distinct = SHA-256 of the block/tx lines",
		ModeInject:     "case = one generated block history executed plainly on replica A and on replica B with CheckTx calls (valid, invalid and state-changing kinds, including the block's own txs and future txs) injected before/after BeginBlock, between DeliverTx calls, before/after EndBlock and after Commit; non-trivial = at least 3 injected CheckTx calls returned code 0; distinct = SHA-256 of the lines",
		ModeCrash:      "case = one generated block history executed uninterrupted on replica A and on replica B which is killed (byte copy of its data directory reopened) at a generated ABCI boundary in every block (after BeginBlock, after the k-th DeliverTx, after EndBlock, after Commit), with Info compared to the last completed commit and the interrupted block replayed; non-trivial = at least one mid-block crash in a block with a successful tx; distinct = SHA-256 of the lines",
	}[opt.Mode]
	res := NewResult(string(opt.Mode), opt.Seed, rule)
	seen := map[[32]byte]bool{}
	root := rng.New(opt.Seed ^ uint64(len(opt.Mode))*7919)
	for c := 0; c < opt.Histories; c++ {
		r := root.Fork()
		hl := &HistoryLog{}
		nontriv, err := runOneHistory(opt, c, r, res, hl)
		if err != nil {
			return nil, err
		}
		res.Evaluations++
		h := sha256.Sum256([]byte(strings.Join(hl.Lines, "\n")))
		if !seen[h] {
			seen[h] = true
			if nontriv {
				res.DistinctNontrivial++
			}
		}
		if len(res.Samples) < 2 && nontriv {
			s := hl.Lines
			if len(s) > 40 {
				s = s[:40]
			}
			short := make([]string, len(s))
			for i, l := range s {
				if len(l) > 200 {
					l = l[:200] + "…"
				}
				short[i] = l
			}
			res.Samples = append(res.Samples, short)
		}
		TruncateAppLog()
	}
	return res, nil
}

func runOneHistory(opt TwinOptions, c int, r *rng.R, res *Result, hl *HistoryLog) (bool, error) {
	p := paramsFor(r, opt.Seed*1000+uint64(c))
	doubleVerdict := opt.Mode == ModeTwin && c%4 == 3
	if doubleVerdict {
		p.NVals, p.TopValidators, p.MinSelfDeleg = 5, 5, 1
	}
	w := NewWorld(p)
	hl.Add("genesis seed=%d vals=%d cand=%d top=%d minself=%d maturity=%d fund=%d vote=%d rint=%d cycle=%d vdiff=%d minvotes=%d witnesses=%d",
		p.Seed, p.NVals, p.NCandidates, p.TopValidators, p.MinSelfDeleg, p.StakeMaturity, p.FundingDeadline, p.VotingDeadline, p.RewardInterval, p.BlockSpeedCycle, p.BlockVotesDiff, p.MinVotesReq, p.Witnesses)
	outsider := NewVal(p.Seed, "outsider", 0, false)
	ids := []Identity{{Name: "A", Val: w.Vals[0]}}
	switch opt.Mode {
	case ModeTwin:
		ids = append(ids, Identity{Name: "B", Val: w.Vals[len(w.Vals)-1]}, Identity{Name: "C", Val: outsider})
	default:
		ids = append(ids, Identity{Name: "B", Val: w.Vals[0]})
	}
	var reps []*Replica
	defer func() {
		_ = 0
		for _, rp := range reps {
			rp.Close()
		}
	}()
	for i, id := range ids {
		rp, err := NewReplica(w, id)
		if err != nil {
			return false, err
		}
		reps = append(reps, rp)
		rp.KeepPending = true
		rp.InitChain()
		if opt.Mode == ModeTwin {
			// roles differ: A is a witness node when the genesis has witnesses, C never
			rp.IsWitness = (i == 0 && p.Witnesses > 0) || (i == 1 && r.Bool())
		}
	}
	sim := NewSim(w)
	g := NewGen(w, r.Fork())
	wt := AllWeights()
	var script func(g *Gen, h int64) []GenTx
	if doubleVerdict {
		script = doubleVerdictScript
	}
	feeScript := opt.Mode == ModeInject && c%4 == 1
	if feeScript {
		script = govFeeScript
	}
	okTx, hook, failedWithOk, injectedOK, midCrash := 0, 0, 0, 0, 0
	flipAt := int64(2 + c%7) // derived from the case number, not from the generator state
	var future [][]byte
	var origOfForged [][]byte // valid originals of the forged copies the blocks carry (inject mode)
	for bi := 0; bi < opt.Blocks; bi++ {
		g.Height = sim.Height + 1
		n := r.Intn(opt.MaxTxs + 1)
		var gts []GenTx
		var txs [][]byte
		for i := 0; i < n; i++ {
			t := g.Next(wt)
			gts = append(gts, t)
			txs = append(txs, t.Bytes)
		}
		// scripted scenario (every 4th history in twin mode): two allegations opened in block 4, all
		// votes cast in block 5, so that two verdicts are reached in the same block end
		if script != nil {
			for _, t := range script(g, sim.Height+1) {
				gts = append(gts, t)
				txs = append(txs, t.Bytes)
			}
		}
		// occasionally resubmit an old tx (exercises the index short-circuit)
		if len(future) > 0 && r.Intn(6) == 0 {
			old := future[r.Intn(len(future))]
			gts = append(gts, GenTx{Kind: "RESUBMIT", Note: "old-bytes", Bytes: old})
			txs = append(txs, old)
		}
		future = append(future, txs...)
		// C07: a block may carry a transaction nobody signed — the copy of a valid one with other
		// bytes as signature (a faulty proposer can include anything). Every node refuses it, unless
		// the mempool check of the VALID original, which only some nodes have seen, left something
		// behind that the consensus path picks up: the original goes to CheckTx on replica B only
		if opt.Mode == ModeInject && r.Intn(3) == 0 {
			o := g.Next(wt) // the valid original is in no block: only the mempool check of B sees it
			if f := forgedCopy(o, r); f.Bytes != nil {
				origOfForged = append(origOfForged, o.Bytes)
				if len(origOfForged) > 8 {
					origOfForged = origOfForged[1:]
				}
				gts = append(gts, f)
				txs = append(txs, f.Bytes)
			}
		}
		bo := genBlockOpts(r, p.NVals)
		b := sim.NextBlock(txs, bo)
		logBlock(hl, b, gts, bo)
		A := reps[0]
		ra := A.ExecBlock(b)
		if A.Crashed {
			res.Hit("app-closed-by-panic", c, fmt.Sprintf("replica A closed itself in block %d", b.Height), hl.Lines)
			return false, nil
		}
		nOK := 0
		for i, t := range ra.Txs {
			res.Distribution[gts[i].Kind+fmt.Sprintf(":%d", t.Code)]++
			if t.Code == 0 {
				nOK++
			}
		}
		okTx += nOK
		if len(ra.Updates) > 0 {
			hook++
		}
		if nOK > 0 && nOK < len(ra.Txs) {
			failedWithOk++
		}
		switch opt.Mode {
		case ModeTwin:
			// a node's witness role is a flag computed at start-up: a genesis witness acts as one only
			// after its first restart. The third replica changes its role at a generated block, the
			// way a restart does (it has no jobs of the trackers in flight then)
			if len(reps) > 2 && flipAt == b.Height {
				// a real restart between two blocks: databases closed and reopened, every in-memory
				// cache (reward calculator, validator queue, witness flag) rebuilt by the start-up code
				was := reps[2].IsWitness
				if err := reps[2].Restart(); err != nil {
					return false, err
				}
				hl.Add("  replica C restarts before block %d", b.Height)
				if p.Witnesses > 0 {
					reps[2].IsWitness = !was
					hl.Add("  replica C changes its witness role to %v", reps[2].IsWitness)
				}
			}
			for _, rp := range reps[1:] {
				rb := rp.ExecBlock(b)
				if rb.Transcript() != ra.Transcript() {
					res.Hit("replica-divergence", c, fmt.Sprintf("block %d replica %s vs A: %s | A: %.300s | %s: %.300s", b.Height, rp.ID.Name, diffDumps(A.Dump(), rp.Dump()), ra.Transcript(), rp.ID.Name, rb.Transcript()), hl.Lines)
					return true, nil
				}
			}
		case ModeDropFailed:
			B := reps[1]
			var keep [][]byte
			var keepRes []TxResult
			for i, t := range ra.Txs {
				if t.Code == 0 {
					keep = append(keep, b.Txs[i])
					keepRes = append(keepRes, t)
				}
			}
			b2 := *b
			b2.Txs = keep
			rb := B.ExecBlock(&b2)
			exp := &BlockResult{Height: ra.Height, Txs: keepRes, Updates: ra.Updates, AppHash: ra.AppHash}
			if rb.Transcript() != exp.Transcript() {
				res.Hit("failed-tx-left-a-trace", c, fmt.Sprintf("block %d: %s | with failed: %.400s | without: %.400s", b.Height, diffDumps(A.Dump(), B.Dump()), exp.Transcript(), rb.Transcript()), hl.Lines)
				return true, nil
			}
		case ModeInject:
			B := reps[1]
			inj := func(where string) {
				k := r.Intn(3)
				for i := 0; i < k; i++ {
					var tx []byte
					switch r.Intn(4) {
					case 0:
						if len(b.Txs) > 0 {
							tx = b.Txs[r.Intn(len(b.Txs))]
						}
					case 1:
						if len(future) > 0 {
							tx = future[r.Intn(len(future))]
						}
					case 2:
						if len(origOfForged) > 0 {
							tx = origOfForged[len(origOfForged)-1-r.Intn(min(2, len(origOfForged)))]
							res.Counters["checktx_of_original_of_forged_copy"]++
						}
					}
					if tx == nil && feeScript && b.Height >= 5 && b.Height <= 7 {
						a := g.acct()
						tx = g.mk("PROPOSAL_FINALIZE", "script", &agov.FinalizeProposal{ProposalID: pid(fmt.Sprintf("feescript-%d", g.W.P.Seed)), ValidatorAddress: a.Addr}, a).Bytes
					}
					if tx == nil && r.Intn(3) == 0 {
						tx = g.FinalizeAny().Bytes
					}
					if tx == nil {
						tx = g.Next(wt).Bytes
					}
					cr := B.CheckTx(tx)
					res.Counters["checktx"]++
					if cr.Code == 0 {
						injectedOK++
						res.Counters["checktx_ok"]++
					}
					hl.Add("  inject %s code=%d %s", where, cr.Code, hex.EncodeToString(tx))
				}
			}
			B.SaveBlock(b)
			rb := &BlockResult{Height: b.Height}
			inj("before-begin")
			B.BeginBlock(b)
			inj("after-begin")
			for _, tx := range b.Txs {
				rb.Txs = append(rb.Txs, B.DeliverTx(tx))
				inj("after-deliver")
			}
			inj("before-end")
			eb := B.EndBlock(b.Height)
			rb.Updates = eb.ValidatorUpdates
			inj("after-end")
			pb := pendingOf(B.App.VerifDeliverState())
			rb.AppHash = B.Commit()
			B.IndexBlock(b, rb)
			inj("after-commit")
			if B.Crashed {
				res.Hit("app-closed-by-panic", c, fmt.Sprintf("replica B (with CheckTx) closed itself in block %d", b.Height), hl.Lines)
				return true, nil
			}
			if rb.Transcript() != ra.Transcript() {
				res.Hit("checktx-changed-consensus", c, fmt.Sprintf("block %d: %s | write order: %s | plain: %.400s | with CheckTx: %.400s", b.Height, diffDumps(A.Dump(), B.Dump()), diffPending(A.LastPending, pb), ra.Transcript(), rb.Transcript()), hl.Lines)
				return true, nil
			}
		case ModeCrash:
			B := reps[1]
			// choose the crash point: 0 none, 1 after begin, 2 after k-th deliver, 3 after end, 4 after commit
			cp := r.Intn(5)
			k := 0
			if len(b.Txs) > 0 {
				k = r.Intn(len(b.Txs))
			}
			crash := func(where string) error {
				hl.Add("  crash %s", where)
				lastH, lastHash := sim.Height, sim.LastAppHash
				if where == "after-commit" {
					lastH, lastHash = b.Height, ra.AppHash
				}
				nd := B.Dir + "-r"
				os.RemoveAll(nd)
				if err := copyDir(B.Dir, nd); err != nil {
					return err
				}
				old := B.App
				oldDir := B.Dir
				B.Dir = nd
				os.Remove(filepath.Join(nd, "nodedata", "OneLedger-chainstate.db", "LOCK"))
				if err := B.open(); err != nil {
					return fmt.Errorf("reopen after crash: %v", err)
				}
				old.VerifCloseDBs()
				os.RemoveAll(oldDir)
				info := B.Info()
				if info.LastBlockHeight == 0 {
					// Tendermint's handshake calls InitChain again when the application reports height 0
					B.InitChain()
				}
				res.Counters["crashes"]++
				if info.LastBlockHeight != lastH || !bytes.Equal(info.LastBlockAppHash, lastHash) {
					res.Hit("info-after-crash", c, fmt.Sprintf("crash %s in block %d: Info says height %d hash %x, last completed commit was height %d hash %x", where, b.Height, info.LastBlockHeight, info.LastBlockAppHash, lastH, lastHash), hl.Lines)
				}
				return nil
			}
			exec := func() (*BlockResult, bool, error) {
				B.SaveBlock(b)
				rb := &BlockResult{Height: b.Height}
				B.BeginBlock(b)
				if cp == 1 {
					return nil, true, crash("after-begin")
				}
				for i, tx := range b.Txs {
					rb.Txs = append(rb.Txs, B.DeliverTx(tx))
					if cp == 2 && i == k {
						if nOK > 0 {
							midCrash++
						}
						return nil, true, crash(fmt.Sprintf("after-deliver-%d", i))
					}
				}
				eb := B.EndBlock(b.Height)
				rb.Updates = eb.ValidatorUpdates
				if cp == 3 {
					return nil, true, crash("after-end")
				}
				rb.AppHash = B.Commit()
				B.IndexBlock(b, rb)
				if cp == 4 {
					return rb, false, crash("after-commit")
				}
				return rb, false, nil
			}
			rb, again, err := exec()
			if err != nil {
				return false, err
			}
			if again {
				cp = 0
				rb, _, err = exec()
				if err != nil {
					return false, err
				}
			}
			if rb.Transcript() != ra.Transcript() {
				res.Hit("replay-after-crash-diverged", c, fmt.Sprintf("block %d: %s | uninterrupted: %.400s | restarted: %.400s", b.Height, diffDumps(A.Dump(), B.Dump()), ra.Transcript(), rb.Transcript()), hl.Lines)
				return true, nil
			}
		}
		sim.Absorb(b, ra)
	}
	if len(sim.TMErrors) > 0 {
		res.Counters["tm_rejected_updates"] += len(sim.TMErrors)
		if os.Getenv("OLH_SHOW_TM") != "" {
			hl.Add("TM: %s", strings.Join(sim.TMErrors, " | "))
			res.Hit("tm-rejected-updates", c, strings.Join(sim.TMErrors, " | "), hl.Lines)
		}
	}
	switch opt.Mode {
	case ModeDropFailed:
		return failedWithOk > 0, nil
	case ModeInject:
		return injectedOK >= 3, nil
	case ModeCrash:
		return midCrash > 0, nil
	}
	return okTx > 0 && hook > 0, nil
}

// doubleVerdictScript opens allegations against validators 3 and 4 in block 4 and has validators
// 0, 1 and 2 vote yes on both in block 5.
func doubleVerdictScript(g *Gen, h int64) []GenTx {
	var out []GenTx
	v := g.W.Vals
	switch h {
	case 4:
		for i, m := range []int{3, 4} {
			id := fmt.Sprintf("dv-%d-%d", g.W.P.Seed, i)
			out = append(out, g.mk("ALLEGATION", "script", &aevid.Allegation{RequestID: id, ValidatorAddress: v[0].Key.Addr, MaliciousAddress: v[m].Key.Addr, BlockHeight: 3, ProofMsg: "p"}, v[0].Key))
		}
	case 5:
		for i := range []int{3, 4} {
			id := fmt.Sprintf("dv-%d-%d", g.W.P.Seed, i)
			for _, voter := range []int{0, 1, 2} {
				out = append(out, g.mk("ALLEGATION_VOTE", "script", &aevid.AllegationVote{RequestID: id, Address: v[voter].Key.Addr, Choice: 1}, v[voter].Key))
			}
		}
	}
	return out
}

// govFeeScript drives a configuration proposal that raises the minimal fee to 10^18 through
// create (block 2), funding to the goal (block 3) and a yes vote of every staked validator
// (block 4); it is finalised by the internal transaction of block 5 or 6. PROPOSAL_FINALIZE
// offered to CheckTx around those blocks runs the same finalisation on the check state.
func govFeeScript(g *Gen, h int64) []GenTx {
	id := pid(fmt.Sprintf("feescript-%d", g.W.P.Seed))
	a := g.W.Accts[0]
	switch h {
	case 2:
		return []GenTx{g.mk("PROPOSAL_CREATE", "script", &agov.CreateProposal{ProposalID: id, ProposalType: governance.ProposalTypeConfigUpdate, Headline: "h", Description: "d",
			Proposer: a.Addr, InitialFunding: action.Amount{Currency: "OLT", Value: *balance.NewAmount(1000000000)}, FundingDeadline: h + g.W.P.FundingDeadline,
			FundingGoal: balance.NewAmount(10000000000), VotingDeadline: h + g.W.P.FundingDeadline + g.W.P.VotingDeadline, PassPercentage: 51, ConfigUpdate: "feeOption.minFeeDecimal:18"}, a)}
	case 3:
		return []GenTx{g.mk("PROPOSAL_FUND", "script", &agov.FundProposal{ProposalId: id, FunderAddress: a.Addr, FundValue: action.Amount{Currency: "OLT", Value: *balance.NewAmount(9000000000)}}, a)}
	case 4:
		var out []GenTx
		for i, v := range g.W.Vals {
			if g.Staked[i] && v.Genesis {
				out = append(out, g.mk("PROPOSAL_VOTE", "script", &agov.VoteProposal{ProposalID: id, Address: v.Owner.Addr, ValidatorAddress: v.Key.Addr, Opinion: governance.OPIN_POSITIVE}, v.Owner, v.Key))
			}
		}
		return out
	}
	return nil
}

func diffPending(a, b []kvp) string {
	n := len(a)
	if len(b) < n {
		n = len(b)
	}
	for i := 0; i < n; i++ {
		if string(a[i].k) != string(b[i].k) || string(a[i].v) != string(b[i].v) {
			return fmt.Sprintf("first difference at write %d of %d/%d: plain %q=%.60q, other %q=%.60q", i, len(a), len(b), a[i].k, a[i].v, b[i].k, b[i].v)
		}
	}
	if len(a) != len(b) {
		return fmt.Sprintf("one list is a prefix of the other (%d vs %d writes)", len(a), len(b))
	}
	return "identical ordered writes"
}

package apph

import (
	"bufio"
	"fmt"
	"io"
	"math/big"
	"os"
	"strings"

	ethcmn "github.com/ethereum/go-ethereum/common"

	"olverif/harness/kv"
)

type evCorrCase struct {
	Index int
	Out   *evOutcome
}

// splitModel cuts a driver line `I <Impl output> R <Ref output> G <guard>`.
func splitModel(line string) (impl, ref string, ok bool) {
	impl, ref, _, ok = splitModelG(line)
	return
}

func splitModelG(line string) (impl, ref, guard string, ok bool) {
	if !strings.HasPrefix(line, "I ") {
		return "", "", "", false
	}
	i := strings.Index(line, " R ")
	j := strings.LastIndex(line, " G ")
	if i < 0 || j < i {
		return "", "", "", false
	}
	return line[2:i], line[i+3 : j], line[j+3:], true
}

// evCorrespond runs every executed line through the Lean driver: the model's port of the adapter
// must print what the adapter printed, the model's reference semantics what go-ethereum printed.
func evCorrespond(driver string, cases []evCorrCase, res *Result) error {
	var lines []string
	type pos struct{ c, l int }
	var at []pos
	for ci, c := range cases {
		lines = append(lines, fmt.Sprintf("# case %d", c.Index))
		at = append(at, pos{ci, -1})
		for li, l := range c.Out.Lines {
			lines = append(lines, l)
			at = append(at, pos{ci, li})
		}
	}
	if len(lines) == 0 {
		return nil
	}
	model, err := kv.RunDriver(driver, "evm", lines)
	if err != nil {
		return err
	}
	bad := map[int]bool{}
	for i, m := range model {
		p := at[i]
		if p.l < 0 {
			continue
		}
		c := cases[p.c]
		im, rf, gk, ok := splitModelG(m)
		opTok := strings.Fields(lines[i])[0]
		if !ok {
			if !bad[p.c] {
				bad[p.c] = true
				res.Disagreements = append(res.Disagreements, Disagreement{Kind: "driver-output", Case: c.Index, Op: lines[i], Impl: c.Out.Adapter[p.l], Model: m, Ops: c.Out.Lines[:p.l+1]})
			}
			continue
		}
		res.Distribution["corr:"+opTok+":"+strings.Fields(im + " ?")[0]]++
		res.Counters["lines-compared"]++
		evCountGuard(res, gk, c.Index, lines[i], c.Out.Lines[:p.l+1])
		if bad[p.c] {
			continue
		}
		if im != c.Out.Adapter[p.l] {
			bad[p.c] = true
			res.Disagreements = append(res.Disagreements, Disagreement{Kind: "adapter-vs-model-Impl", Case: c.Index, Op: lines[i], Impl: c.Out.Adapter[p.l], Model: im, Ops: c.Out.Lines[:p.l+1]})
			continue
		}
		if p.l == c.Out.DiffAt && (c.Out.Sig == "precondition:subbalance-underflow" || c.Out.Sig == "excluded:code-equals-deletion-marker") {
			continue // go-ethereum lets the balance go negative; both models refuse like the adapter
		}
		if rf != c.Out.Geth[p.l] {
			bad[p.c] = true
			res.Disagreements = append(res.Disagreements, Disagreement{Kind: "go-ethereum-vs-model-Ref", Case: c.Index, Op: lines[i], Impl: c.Out.Geth[p.l], Model: rf, Ops: c.Out.Lines[:p.l+1]})
		}
	}
	if len(res.Disagreements) > 12 {
		res.Counters["disagreements-total"] = len(res.Disagreements)
		res.Disagreements = res.Disagreements[:12]
	}
	return nil
}

// evCountGuard records what the model says about the guards of impl_refines_ref_partial on this
// line: inside the guards (ok), the first guard that fails in the case (by name), or after it (-).
func evCountGuard(res *Result, gk string, caseNo int, op string, ops []string) {
	switch gk {
	case "ok":
		res.Counters["guard:lines-inside"]++
	case "-":
		res.Counters["guard:lines-after-a-failed-guard"]++
	case "THEOREM-VIOLATED", "PANIC-NOT-SHARED", "INVARIANT-BROKEN:dirty-slot-without-origin", "GUARD-UNKNOWN":
		// what Props/C16.lean proves of the model, observed on the executable model: a mismatch is a bug of ours
		res.Disagreements = append(res.Disagreements, Disagreement{Kind: "model-Impl-vs-model-Ref-inside-guards", Case: caseNo, Op: op, Impl: "", Model: gk, Ops: ops})
	default:
		res.Distribution["guard-first-failure:"+gk]++
	}
}

// ---------------------------------------------------------------- parsing lines back (replay)

func evBigOf(s string) *big.Int {
	n, ok := new(big.Int).SetString(s, 10)
	if !ok {
		panic("bad number " + s)
	}
	return n
}
func addrOf(s string) ethcmn.Address { return ethcmn.BigToAddress(evBigOf(s)) }
func hashOf(s string) ethcmn.Hash    { return ethcmn.BigToHash(evBigOf(s)) }
func codeOf(s string) []byte {
	n := evBigOf(s)
	if n.Sign() == 0 {
		return nil
	}
	return n.Bytes()[1:]
}

func fieldOf(toks []string, name string) []string {
	for _, t := range toks {
		if strings.HasPrefix(t, name+"=") {
			v := t[len(name)+1:]
			if v == "-" || v == "" {
				return nil
			}
			return strings.Split(v, ",")
		}
	}
	return nil
}

func parseEvStart(line string) []EvAcct {
	toks := strings.Fields(line)
	m := map[ethcmn.Address]*EvAcct{}
	var order []ethcmn.Address
	get := func(a ethcmn.Address) *EvAcct {
		if x, ok := m[a]; ok {
			return x
		}
		x := &EvAcct{Addr: a, Balance: new(big.Int), Storage: map[ethcmn.Hash]ethcmn.Hash{}}
		m[a] = x
		order = append(order, a)
		return x
	}
	for _, it := range fieldOf(toks, "acct") {
		p := strings.Split(it, ":")
		x := get(addrOf(p[0]))
		x.Keeper = true
		x.Nonce = evBigOf(p[1]).Uint64()
		x.Code = codeOf(p[2])
	}
	for _, it := range fieldOf(toks, "bal") {
		p := strings.Split(it, ":")
		get(addrOf(p[0])).Balance = evBigOf(p[1])
	}
	for _, it := range fieldOf(toks, "stor") {
		p := strings.Split(it, ":")
		get(addrOf(p[0])).Storage[hashOf(p[1])] = hashOf(p[2])
	}
	var out []EvAcct
	for _, a := range order {
		out = append(out, *m[a])
	}
	return out
}

func parseEvOp(line string) (EvOp, bool) {
	t := strings.Fields(line)
	if len(t) == 0 {
		return EvOp{}, false
	}
	o := EvOp{K: t[0]}
	switch t[0] {
	case "create", "getbal", "getnonce", "codehash", "code", "codesize", "suicide", "suicided", "exist", "empty", "aladdr", "inaddr", "obs":
		o.A = addrOf(t[1])
	case "addbal", "subbal", "setnonce", "addlog":
		o.A, o.N = addrOf(t[1]), evBigOf(t[2])
	case "setcode":
		o.A, o.Code = addrOf(t[1]), codeOf(t[2])
	case "addrefund", "subrefund", "revert", "prepare":
		o.N = evBigOf(t[1])
	case "refund", "logs", "snap", "reset", "commit", "dump":
	case "cstate", "state", "alslot", "inslot", "obsk":
		o.A, o.S = addrOf(t[1]), hashOf(t[2])
	case "setstate":
		o.A, o.S, o.V = addrOf(t[1]), hashOf(t[2]), hashOf(t[3])
	case "finalise":
		o.B = t[1] == "1"
	default:
		return o, false
	}
	return o, true
}

// universeOf collects the addresses / slots / codes a case mentions (for dumps of a replayed case).
func universeOf(c EvCase) *evUniverse {
	u := evDefaultUniverse()
	hasA := map[ethcmn.Address]bool{}
	hasS := map[ethcmn.Hash]bool{}
	for _, a := range u.Addrs {
		hasA[a] = true
	}
	for _, s := range u.Slots {
		hasS[s] = true
	}
	addA := func(a ethcmn.Address) {
		if !hasA[a] {
			hasA[a] = true
			u.Addrs = append(u.Addrs, a)
		}
	}
	addS := func(s ethcmn.Hash) {
		if !hasS[s] {
			hasS[s] = true
			u.Slots = append(u.Slots, s)
		}
	}
	for _, a := range c.Start {
		addA(a.Addr)
		for k := range a.Storage {
			addS(k)
		}
		if len(a.Code) > 0 {
			u.Codes = append(u.Codes, a.Code)
		}
	}
	for _, o := range c.Ops {
		switch o.K {
		case "addrefund", "subrefund", "revert", "prepare", "refund", "logs", "snap", "reset", "commit", "dump", "finalise":
		default:
			addA(o.A)
		}
		switch o.K {
		case "cstate", "state", "alslot", "inslot", "obsk", "setstate":
			addS(o.S)
		}
		if o.K == "setcode" && len(o.Code) > 0 {
			u.Codes = append(u.Codes, o.Code)
		}
	}
	return u
}

// ReplayEvm re-executes one replay / corpus file (header lines `# …`, then `new …` and op lines):
// prints adapter, reference and model outputs per line; exit code 1 when the monitor fires.
func ReplayEvm(driver, path string, stdout io.Writer) int {
	f, err := os.Open(path)
	if err != nil {
		fmt.Fprintln(stdout, err)
		return 2
	}
	defer f.Close()
	var c EvCase
	started := false
	sc := bufio.NewScanner(f)
	sc.Buffer(make([]byte, 1<<20), 1<<24)
	for sc.Scan() {
		l := strings.TrimSpace(sc.Text())
		if l == "" || strings.HasPrefix(l, "#") {
			continue
		}
		if strings.HasPrefix(l, "new ") {
			c.Start = parseEvStart(l)
			started = true
			continue
		}
		if strings.HasPrefix(l, "tx ") || strings.HasPrefix(l, "prog ") {
			return replayEvmProgram(path, stdout)
		}
		o, ok := parseEvOp(l)
		if !ok || !started {
			fmt.Fprintln(stdout, "bad line:", l)
			return 2
		}
		c.Ops = append(c.Ops, o)
	}
	u := universeOf(c)
	o := u.runCase(c, true)
	var model []string
	if driver != "" {
		model, err = kv.RunDriver(driver, "evm", o.Lines)
		if err != nil {
			fmt.Fprintln(stdout, err)
			return 2
		}
	}
	for i, l := range o.Lines {
		fmt.Fprintf(stdout, "%-40s adapter: %s\n%-40s go-eth : %s\n", l, o.Adapter[i], "", o.Geth[i])
		if model != nil {
			fmt.Fprintf(stdout, "%-40s model  : %s\n", "", model[i])
		}
	}
	if o.DiffAt >= 0 {
		fmt.Fprintf(stdout, "MONITOR %s: %s\n", o.Sig, o.Detail)
		return 1
	}
	fmt.Fprintln(stdout, "no difference between the adapter and the reference")
	return 0
}

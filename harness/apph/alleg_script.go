package apph

// C19: scripted witnesses (the concrete counterexamples proved in lean/OLP/Props/C19.lean, replayed
// on the implementation in every run), replay of stored histories, and the pop order of the
// validator queue.

import (
	"bufio"
	"encoding/hex"
	"encoding/json"
	"fmt"
	"io"
	"io/ioutil"
	"os"
	"path/filepath"
	"regexp"
	"sort"
	"strconv"
	"strings"

	"github.com/Oneledger/protocol/action"
	aevid "github.com/Oneledger/protocol/action/evidence"
	"github.com/Oneledger/protocol/action/staking"
	"github.com/Oneledger/protocol/data/evidence"
	"github.com/Oneledger/protocol/identity"
	"github.com/Oneledger/protocol/utils"

	"olverif/harness/kv"
	"olverif/harness/rng"
)

// heapPopOrder: InitValidatorQueue pushes the validator records in key order with their power as
// priority, heap.Init, then GetEndBlockUpdate pops until empty (the repo's own queue types).
func heapPopOrder(vals map[string]*aVal) []string {
	q := identity.ValidatorQueue{PriorityQueue: make(utils.PriorityQueue, 0, 100)}
	ks := sortedKeys(vals)
	for i, k := range ks {
		raw, _ := hex.DecodeString(k)
		q.Push(utils.NewQueued(raw, vals[k].Power, i))
	}
	q.Init()
	var out []string
	for q.Len() > 0 {
		out = append(out, hex.EncodeToString(q.Pop().Value()))
	}
	return out
}

// ---------------------------------------------------------------- witnesses

type wBlock struct {
	Dt     int64
	Absent []int // indices into World.Vals
	Txs    []func(g *allegGen) aTx
}

type witness struct {
	Name   string
	P      Params
	EO     evidence.Options
	Blocks []wBlock
	Expect string // monitor signature the witness must raise ("" = must stay silent)
	// Check inspects the committed state at the end of the scenario and returns what is wrong
	// with it ("" = the expected outcome)
	Check func(x *allegRun) string
}

func baseEO(p Params) evidence.Options {
	return evidence.Options{MinVotesRequired: p.MinVotesReq, BlockVotesDiff: p.BlockVotesDiff,
		PenaltyBasePercentage: 30, PenaltyBaseDecimals: 100, PenaltyBountyPercentage: 50, PenaltyBountyDecimals: 100,
		PenaltyBurnPercentage: 50, PenaltyBurnDecimals: 100, ValidatorReleaseTime: p.ReleaseTimeDays,
		ValidatorVotePercentage: 50, ValidatorVoteDecimals: 100, AllegationPercentage: 50, AllegationDecimals: 100}
}

func wAllege(rep, acc int, id string) func(g *allegGen) aTx {
	return func(g *allegGen) aTx {
		v := g.W.Vals
		return g.tx("ALLEGATION", "script", &aevid.Allegation{RequestID: id, ValidatorAddress: v[rep].Key.Addr, MaliciousAddress: v[acc].Key.Addr, BlockHeight: g.Height - 1, ProofMsg: "p"}, v[rep].Key)
	}
}

func wVote(voter int, id string, ch int8) func(g *allegGen) aTx {
	return func(g *allegGen) aTx {
		v := g.W.Vals
		return g.tx("ALLEGATION_VOTE", "script", &aevid.AllegationVote{RequestID: id, Address: v[voter].Key.Addr, Choice: ch}, v[voter].Key)
	}
}

func wRelease(val int) func(g *allegGen) aTx {
	return func(g *allegGen) aTx {
		v := g.W.Vals[val]
		return g.tx("RELEASE", "script", &aevid.Release{ValidatorAddress: v.Key.Addr}, v.Key)
	}
}

func wUnstake(val int, n int64) func(g *allegGen) aTx {
	return func(g *allegGen) aTx {
		v := g.W.Vals[val]
		return g.tx("UNSTAKE", "script", &staking.Unstake{ValidatorAddress: v.Key.Addr, StakeAddress: v.Owner.Addr, Stake: OLTInt(n)}, v.Owner, v.Key)
	}
}

func wStake(val int, n int64) func(g *allegGen) aTx {
	return func(g *allegGen) aTx {
		v := g.W.Vals[val]
		return g.tx("STAKE", "script", &staking.Stake{ValidatorAddress: v.Key.Addr, StakeAddress: v.Owner.Addr, ValidatorPubKey: v.Key.Pub,
			ValidatorECDSAPubKey: v.EcPub, NodeName: v.Name, Stake: OLTInt(n)}, v.Owner, v.Key)
	}
}

// wWithdraw: foreign >= 0 names account #foreign as the validator address instead of the validator
func wWithdraw(val int, n int64, foreign int) func(g *allegGen) aTx {
	return func(g *allegGen) aTx {
		v := g.W.Vals[val]
		if foreign >= 0 {
			o := g.W.Accts[foreign]
			return g.tx("WITHDRAW", "script/foreign-validator-address", &staking.Withdraw{ValidatorAddress: o.Addr, StakeAddress: v.Owner.Addr, Stake: OLTInt(n)}, v.Owner, o)
		}
		return g.tx("WITHDRAW", "script", &staking.Withdraw{ValidatorAddress: v.Key.Addr, StakeAddress: v.Owner.Addr, Stake: OLTInt(n)}, v.Owner, v.Key)
	}
}

func txs(fs ...func(g *allegGen) aTx) []func(g *allegGen) aTx { return fs }

func allegWitnesses() []witness {
	var ws []witness
	addr := func(x *allegRun, i int) string { return hex.EncodeToString(x.w.Vals[i].Key.Addr) }
	owner := func(x *allegRun, i int) string { return hex.EncodeToString(x.w.Vals[i].Owner.Addr) }
	mk := func(name string, nvals int, mod func(p *Params, eo *evidence.Options), check func(x *allegRun) string, blocks []wBlock) {
		p := SmallParams(uint64(7000 + len(ws)))
		p.NVals, p.NCandidates, p.NAccts, p.TopValidators, p.MinSelfDeleg, p.StakeMaturity = nvals, 1, 2, int64(nvals), 5, 1
		p.BlockVotesDiff, p.MinVotesReq, p.ReleaseTimeDays = 2, 1, 0
		p.GenesisStake = []int64{10, 10, 10, 10, 10, 10, 10, 10}[:nvals+1]
		eo := baseEO(p)
		if mod != nil {
			mod(&p, &eo)
			eo.MinVotesRequired, eo.BlockVotesDiff, eo.ValidatorReleaseTime = p.MinVotesReq, p.BlockVotesDiff, p.ReleaseTimeDays
		}
		ws = append(ws, witness{name, p, eo, blocks, "", check})
	}
	// regression scenarios: the seven witnesses of the defects this check found (all repaired);
	// each must stay silent and end in the repaired outcome.
	// (6709f41) validator 0 votes yes while active, leaves the active set, then one more yes vote:
	// only one currently active validator voted yes (required 2) - no verdict
	mk("s25-vote-of-departed-validator-counts", 4, nil, func(x *allegRun) string {
		if x.cst.Reqs["w1"] == nil || x.cst.isFrozen(addr(x, 3)) {
			return fmt.Sprintf("the vote of the departed validator decided: request %+v, accused frozen %v", x.cst.Reqs["w1"], x.cst.isFrozen(addr(x, 3)))
		}
		return ""
	}, []wBlock{
		{}, {}, {Txs: txs(wAllege(0, 3, "w1"), wVote(0, "w1", 1))}, {Txs: txs(wUnstake(0, 9))}, {}, {}, {Txs: txs(wVote(1, "w1", 1))}, {}})
	// (1d3139c) share 80/100, five required: ONE no vote is exactly 20 %, not more - no verdict
	mk("innocent-at-exact-share", 5, func(p *Params, eo *evidence.Options) {
		eo.AllegationPercentage, eo.ValidatorVotePercentage = 80, 100
	}, func(x *allegRun) string {
		if q := x.cst.Reqs["w2"]; q == nil || len(q.Votes) != 1 {
			return fmt.Sprintf("one no vote of five required decided the request: %+v", q)
		}
		return ""
	}, []wBlock{
		{}, {}, {Txs: txs(wAllege(0, 4, "w2"), wVote(1, "w2", 2))}, {}})
	// (7eb2406) a verdict before the chain is BlockVotesDiff blocks old: the frozen validator is out at once
	mk("frozen-elected-inside-first-window", 4, func(p *Params, eo *evidence.Options) { p.BlockVotesDiff = 5 },
		func(x *allegRun) string {
			if !x.cst.isFrozen(addr(x, 3)) || x.cst.isActive(addr(x, 3)) {
				return fmt.Sprintf("convicted validator: frozen %v active %v", x.cst.isFrozen(addr(x, 3)), x.cst.isActive(addr(x, 3)))
			}
			return ""
		}, []wBlock{
			{}, {}, {Txs: txs(wAllege(0, 3, "w3"), wVote(0, "w3", 1), wVote(1, "w3", 1), wVote(2, "w3", 1))}, {}, {}, {}, {}})
	// (df2e1ab) the stake account of a frozen validator names a non-validator address: refused
	mk("frozen-withdraws-via-foreign-address", 4, nil, func(x *allegRun) string {
		if b := x.cst.DB[owner(x, 3)]; b == nil || b.Int64() != 3 {
			return fmt.Sprintf("matured stake of the frozen validator's account is %v, expected the untouched 3", b)
		}
		return ""
	}, []wBlock{
		{}, {Txs: txs(wUnstake(3, 3))}, {}, {Txs: txs(wAllege(0, 3, "w4"), wVote(0, "w4", 1), wVote(1, "w4", 1), wVote(2, "w4", 1))}, {},
		{Txs: txs(wWithdraw(3, 1, -1), wStake(3, 1), wUnstake(3, 1))}, {Txs: txs(wWithdraw(3, 2, 0))}, {}})
	// (92417eb) frozen for missed votes by the BeginBlock of this very block (the record is only in the
	// block cache): the stake account naming a non-validator address is refused in that block already
	mk("withdraw-in-block-of-missed-votes-freeze", 4, func(p *Params, eo *evidence.Options) {
		p.BlockVotesDiff, p.MinVotesReq = 3, 2
	}, func(x *allegRun) string {
		s := x.cst.Susp[addr(x, 3)]
		if b := x.cst.DB[owner(x, 3)]; s == nil || s.Status != 1 || s.FH != 6 || b == nil || b.Int64() != 3 {
			return fmt.Sprintf("record %+v (expected missed-votes record of height 6), matured stake %v (expected the untouched 3)", s, b)
		}
		return ""
	}, []wBlock{
		{}, {Txs: txs(wUnstake(3, 3))}, {}, {}, {Absent: []int{3}}, {Absent: []int{3}, Txs: txs(wWithdraw(3, 2, 0))}, {}})
	// (73dca0f) a guilty validator that also misses votes keeps its byzantine-fault record: no early release
	mk("guilty-overwritten-by-missed-votes", 4, func(p *Params, eo *evidence.Options) {
		p.BlockVotesDiff, p.MinVotesReq, p.ReleaseTimeDays = 3, 2, 1
	}, func(x *allegRun) string {
		if s := x.cst.Susp[addr(x, 3)]; s == nil || s.Status != 2 || !s.frozen() {
			return fmt.Sprintf("record of the convicted validator: %+v", s)
		}
		return ""
	}, []wBlock{
		{}, {}, {}, {Txs: txs(wAllege(0, 3, "w5"))}, {Absent: []int{3}, Txs: txs(wVote(0, "w5", 1), wVote(1, "w5", 1), wVote(2, "w5", 1))},
		{Absent: []int{3}}, {Absent: []int{3}, Txs: txs(wRelease(3))}, {}})
	// (8e5280a) an allegation under the EMPTY request id is decided by its votes like any other
	mk("empty-id-request-dropped", 4, nil, func(x *allegRun) string {
		if s := x.cst.Susp[addr(x, 3)]; s == nil || s.Status != 2 || !s.frozen() || x.cst.Reqs[""] != nil {
			return fmt.Sprintf("three yes votes of four under the empty id: record %+v request %+v", s, x.cst.Reqs[""])
		}
		return ""
	}, []wBlock{
		{}, {}, {Txs: txs(wAllege(0, 3, ""), wVote(0, "", 1), wVote(1, "", 1), wVote(2, "", 1))}, {}})
	// (d2f2af2) two allegations against one validator in ONE block: the duplicate check sees the first
	// (IterateRequests used to walk committed keys only, and CleanTracker deleted the second at the
	// block end, votes and all); an unstake of the accused in the same block is refused as well
	mk("second-allegation-in-one-block", 4, nil, func(x *allegRun) string {
		q := x.cst.Reqs["w9a"]
		if q == nil || len(q.Votes) != 1 || x.cst.Reqs["w9b"] != nil || x.cst.Total[addr(x, 3)] == nil || x.cst.Total[addr(x, 3)].Int64() != 10 {
			return fmt.Sprintf("first request %+v, second request %+v, stake of the accused %v (expected: first open with one vote, second refused, stake untouched 10)", q, x.cst.Reqs["w9b"], x.cst.Total[addr(x, 3)])
		}
		return ""
	}, []wBlock{
		{}, {}, {Txs: txs(wAllege(0, 3, "w9a"), wAllege(1, 3, "w9b"), wVote(2, "w9b", 1), wVote(2, "w9a", 1), wUnstake(3, 2))}, {}})
	// control: a plain conviction, early release attempts, release after the day has passed (must stay silent)
	mk("control-conviction-and-release", 5, func(p *Params, eo *evidence.Options) { p.ReleaseTimeDays = 1 }, func(x *allegRun) string {
		if x.cst.isFrozen(addr(x, 4)) {
			return "the convicted validator is still frozen after its release"
		}
		return ""
	}, []wBlock{
		{}, {}, {Txs: txs(wAllege(0, 4, "w6"), wVote(0, "w6", 1), wVote(1, "w6", 2))}, {Txs: txs(wVote(2, "w6", 1), wVote(2, "w6", 1))},
		{Txs: txs(wRelease(4), wStake(4, 1), wUnstake(4, 1))}, {Dt: 86390, Txs: txs(wRelease(4))}, {Dt: 20, Txs: txs(wRelease(4), wStake(4, 2))}, {}, {}})
	return ws
}

func runWitness(wn witness, res *Result, c int, hl *HistoryLog) (*allegRun, error) {
	w := AllegWorld(wn.P, wn.EO)
	hl.Add("%s", genesisLine(wn.P, wn.EO))
	hl.Add("# witness %s", wn.Name)
	x, err := newAllegRun(w, wn.EO, res, c, hl)
	if err != nil {
		return nil, err
	}
	before := map[string]int{}
	for k, v := range res.MonitorHitCount {
		before[k] = v
	}
	g := &allegGen{Gen: NewGen(w, rng.New(wn.P.Seed)), eo: wn.EO, lazy: -1}
	for _, wb := range wn.Blocks {
		g.Height = x.sim.Height + 1
		bo := BlockOpts{DtSeconds: wb.Dt}
		if len(wb.Absent) > 0 && x.sim.Sets[g.Height-1] != nil {
			bo.Absent = map[int]bool{}
			for _, vi := range wb.Absent {
				for i, tv := range x.sim.Sets[g.Height-1].Validators {
					if hex.EncodeToString(tv.Address) == hex.EncodeToString(w.Vals[vi].Key.Addr) {
						bo.Absent[i] = true
					}
				}
			}
		}
		wb := wb
		if !x.execBlock(func(i int, view *AState) *aTx {
			if i >= len(wb.Txs) {
				return nil
			}
			t := wb.Txs[i](g)
			return &t
		}, bo) {
			break
		}
	}
	// what did this witness raise?
	raised := map[string]int{}
	for k, v := range res.MonitorHitCount {
		if v > before[k] {
			raised[k] = v - before[k]
		}
	}
	if d := os.Getenv("OLH_ALLEG_EXPORT"); d != "" {
		ioutil.WriteFile(filepath.Join(d, wn.Name+".replay"), []byte(strings.Join(hl.Lines, "\n")+"\n"), 0644)
	}
	if wn.Expect != "" {
		if raised[wn.Expect] > 0 {
			res.Counters["witness-reproduced:"+wn.Name]++
		} else {
			res.Counters["witness-NOT-reproduced:"+wn.Name]++
		}
	} else if len(raised) > 0 {
		res.Hit("regression-scenario-raised-a-signature", c, fmt.Sprintf("%s: %v", wn.Name, raised), hl.Lines)
	}
	if wn.Check != nil {
		if msg := wn.Check(x); msg != "" {
			res.Hit("regression-scenario-wrong-outcome", c, fmt.Sprintf("%s: %s", wn.Name, msg), hl.Lines)
		} else {
			res.Counters["regression-scenario-ok:"+wn.Name]++
		}
	}
	return x, nil
}

// ---------------------------------------------------------------- replay

var reKV = regexp.MustCompile(`(\w+)=(\S+)`)

// ReplayAlleg re-executes a stored history (the lines written by HistoryLog: genesis line, block
// lines, tx lines with the transaction bytes) with monitor and correspondence. Returns 1 when a
// monitor fires or the model disagrees.
func ReplayAlleg(driver, path string, out io.Writer) int {
	f, err := os.Open(path)
	if err != nil {
		fmt.Fprintln(out, err)
		return 2
	}
	defer f.Close()
	type rb struct {
		dt     int64
		absent map[int]bool
		txs    [][]byte
	}
	var blocks []*rb
	var p Params
	var eo evidence.Options
	haveGen := false
	sc := bufio.NewScanner(f)
	sc.Buffer(make([]byte, 1<<20), 1<<26)
	for sc.Scan() {
		line := sc.Text()
		tl := strings.TrimSpace(line)
		switch {
		case strings.HasPrefix(tl, "genesis "):
			p = SmallParams(1)
			i := strings.Index(tl, " evidence=")
			if i < 0 || json.Unmarshal([]byte(tl[i+len(" evidence="):]), &eo) != nil {
				fmt.Fprintln(out, "replay: bad genesis line")
				return 2
			}
			for _, m := range reKV.FindAllStringSubmatch(tl[:i], -1) {
				n, _ := strconv.ParseInt(m[2], 10, 64)
				switch m[1] {
				case "seed":
					u, _ := strconv.ParseUint(m[2], 10, 64)
					p.Seed = u
				case "vals":
					p.NVals = int(n)
				case "cand":
					p.NCandidates = int(n)
				case "accts":
					p.NAccts = int(n)
				case "top":
					p.TopValidators = n
				case "minself":
					p.MinSelfDeleg = n
				case "maturity":
					p.StakeMaturity = n
				case "stakes":
					json.Unmarshal([]byte(m[2]), &p.GenesisStake)
				}
			}
			p.BlockVotesDiff, p.MinVotesReq, p.ReleaseTimeDays = eo.BlockVotesDiff, eo.MinVotesRequired, eo.ValidatorReleaseTime
			haveGen = true
		case strings.HasPrefix(tl, "block "):
			b := &rb{absent: map[int]bool{}}
			for _, m := range reKV.FindAllStringSubmatch(tl, -1) {
				switch m[1] {
				case "dt":
					b.dt, _ = strconv.ParseInt(m[2], 10, 64)
				case "absent":
					for _, s := range strings.Split(strings.Trim(m[2], "[]"), ",") {
						if s != "" {
							n, _ := strconv.Atoi(s)
							b.absent[n] = true
						}
					}
				}
			}
			blocks = append(blocks, b)
		case strings.HasPrefix(tl, "tx "):
			fs := strings.Fields(tl)
			raw, err := hex.DecodeString(fs[len(fs)-1])
			if err != nil || len(blocks) == 0 {
				fmt.Fprintln(out, "replay: bad tx line")
				return 2
			}
			blocks[len(blocks)-1].txs = append(blocks[len(blocks)-1].txs, raw)
		}
	}
	if !haveGen {
		fmt.Fprintln(out, "replay: no genesis line (not an alleg history)")
		return 2
	}
	res := NewResult("alleg", 0, "replay")
	hl := &HistoryLog{}
	w := AllegWorld(p, eo)
	hl.Add("%s", genesisLine(p, eo))
	x, err := newAllegRun(w, eo, res, 0, hl)
	if err != nil {
		fmt.Fprintln(out, err)
		return 2
	}
	defer x.A.Close()
	for _, b := range blocks {
		b := b
		if !x.execBlock(func(i int, view *AState) *aTx {
			if i >= len(b.txs) {
				return nil
			}
			t := decodeATx(b.txs[i])
			t.Note = "replay"
			return &t
		}, BlockOpts{DtSeconds: b.dt, Absent: b.absent}) {
			break
		}
	}
	if os.Getenv("OLH_ALLEG_VERBOSE") != "" {
		for i := range x.lines {
			fmt.Fprintf(out, "LINE %s\n  => %s\n", x.lines[i], x.impl[i])
		}
	}
	rc := 0
	var sigs []string
	for s := range res.MonitorHitCount {
		sigs = append(sigs, s)
	}
	sort.Strings(sigs)
	for _, s := range sigs {
		fmt.Fprintf(out, "monitor %s x%d\n", s, res.MonitorHitCount[s])
		rc = 1
	}
	for _, h := range res.MonitorHits {
		fmt.Fprintf(out, "  %s: %s\n", h.Signature, h.Detail)
	}
	if driver != "" {
		model, err := kv.RunDriver(driver, "alleg", x.lines)
		if err != nil {
			fmt.Fprintln(out, err)
			return 2
		}
		for i := range x.lines {
			if model[i] != x.impl[i] {
				fmt.Fprintf(out, "disagreement at %s\n  impl : %s\n  model: %s\n", short(x.lines[i]), alFirstDiff(x.impl[i], model[i]), alFirstDiff(model[i], x.impl[i]))
				rc = 1
			}
		}
	}
	fmt.Fprintf(out, "replayed %d blocks, %d lines, verdicts=%d, rc=%d\n", len(blocks), len(x.lines), x.verdicts, rc)
	return rc
}

var _ = action.ALLEGATION

package apph

// sigm — correspondence of the Lean signature model (OLP/Sig/Model.lean) with the implementation,
// plus component-level monitors of C04 that do not involve the model:
//
//   raw   RawTx.RawBytes() byte for byte against `serBytes`, on generated RawTx values with hostile
//         strings; monitors: distinct values never share signed bytes, every single-field mutation
//         changes them, json.Unmarshal gives the value back, parsed strings are valid UTF-8
//   vb    action.ValidateBasic decisions (and the key handlers' Address()/VerifyBytes) against
//         `validateBasicK`, with real keys of all four algorithms; monitor: accepted iff every
//         required signer has, at its position, a signature that verifies with the LIBRARY
//         primitives (tendermint ed25519 / secp256k1, go-ethereum, btcec DER) under a key whose
//         library-computed address is the signer
//   olvm  (see sigolvm.go) the OLVM handler's validateSigner through CheckTx on a fork-family chain

import (
	"bytes"
	"crypto/ecdsa"
	"crypto/sha256"
	"crypto/sha512"
	"encoding/hex"
	"encoding/json"
	"fmt"
	"io/ioutil"
	"math/big"
	"path/filepath"
	"sort"
	"strconv"
	"strings"
	"unicode/utf8"

	"github.com/btcsuite/btcd/btcec"
	ethcrypto "github.com/ethereum/go-ethereum/crypto"
	"github.com/pkg/errors"
	tmed "github.com/tendermint/tendermint/crypto/ed25519"
	tmsecp "github.com/tendermint/tendermint/crypto/secp256k1"

	"github.com/Oneledger/protocol/action"
	"github.com/Oneledger/protocol/data/balance"
	"github.com/Oneledger/protocol/data/keys"

	"olverif/harness/kv"
	"olverif/harness/rng"
)

// ---------------------------------------------------------------- keys of all four algorithms

type sigKey struct {
	Alg  keys.Algorithm
	Priv keys.PrivateKey
	Pub  keys.PublicKey
	Addr keys.Address // what the repo's handler says
	raw  []byte       // private key bytes, for signing with the libraries directly
}

func newSigKey(seed uint64, name string, alg keys.Algorithm) *sigKey {
	h := sha256.Sum256([]byte(fmt.Sprintf("olverif-sigm-%d-%s-%d", seed, name, alg)))
	var raw []byte
	switch alg {
	case keys.ED25519:
		k := tmed.GenPrivKeyFromSecret(h[:])
		raw = k[:]
	default:
		raw = h[:]
	}
	priv, err := keys.GetPrivateKeyFromBytes(raw, alg)
	if err != nil {
		panic(err)
	}
	ph, err := priv.GetHandler()
	if err != nil {
		panic(err)
	}
	pub := ph.PubKey()
	if alg == keys.SECP256K1 {
		// PrivateKeySECP256K1.PubKey() returns the amino-prefixed 38 bytes, which GetHandler refuses
		// (size must be 33); build the public key from the raw compressed point as a client would
		var sk tmsecp.PrivKeySecp256k1
		copy(sk[:], raw)
		pk33 := sk.PubKey().(tmsecp.PubKeySecp256k1)
		pub = keys.PublicKey{KeyType: keys.SECP256K1, Data: append([]byte{}, pk33[:]...)}
	}
	k := &sigKey{Alg: alg, Priv: priv, Pub: pub, raw: raw}
	if hh, err := pub.GetHandler(); err == nil {
		k.Addr = hh.Address()
	} else {
		panic(err)
	}
	return k
}

// sign produces the signature a client holding the key would produce over msg, with the
// LIBRARIES directly (not with data/keys' private-key handlers): ed25519 and secp256k1 as
// tendermint defines them, ETHSECP = go-ethereum over a 32-byte digest, BTCEC = ECDSA over
// SHA-256(SHA-256(msg)), DER encoded.
func (k *sigKey) sign(msg []byte) []byte {
	var s []byte
	var err error
	switch k.Alg {
	case keys.ED25519:
		var sk tmed.PrivKeyEd25519
		copy(sk[:], k.raw)
		s, err = sk.Sign(msg)
	case keys.SECP256K1:
		var sk tmsecp.PrivKeySecp256k1
		copy(sk[:], k.raw)
		s, err = sk.Sign(msg)
	case keys.ETHSECP:
		m := msg
		if len(msg) != 32 {
			m = ethcrypto.Keccak256(msg) // crypto.Sign only signs 32-byte digests
		}
		var ek *ecdsa.PrivateKey
		if ek, err = ethcrypto.ToECDSA(k.raw); err == nil {
			s, err = ethcrypto.Sign(m, ek)
		}
	case keys.BTCECSECP:
		priv, _ := btcec.PrivKeyFromBytes(btcec.S256(), k.raw)
		var ds *btcec.Signature
		if ds, err = priv.Sign(btcecDigest(msg)); err == nil {
			s = ds.Serialize()
		}
	}
	if err != nil {
		panic(err)
	}
	return s
}

// signRepo signs with the repo's own private-key handler (what the repo's client tools produce);
// falls back to the library where the handler refuses (ETHSECP signs 32-byte digests only).
func (k *sigKey) signRepo(msg []byte) []byte {
	if ph, err := k.Priv.GetHandler(); err == nil {
		if s, err := ph.Sign(msg); err == nil {
			return s
		}
	}
	return k.sign(msg)
}

// acct presents the key as an account of the application-level generator; repoSigner selects
// the repo's private-key handler instead of the libraries for signing.
func (k *sigKey) acct(name string, repoSigner bool) *Acct {
	a := &Acct{Name: name, Priv: k.Priv, Pub: k.Pub, Addr: append(keys.Address{}, k.Addr...), signWith: k.sign}
	if repoSigner {
		a.signWith = k.signRepo
	}
	return a
}

// ---- the library primitives, called directly (independent of data/keys' handlers)

func primParses(pk keys.PublicKey) bool {
	switch pk.KeyType {
	case keys.ETHSECP:
		_, err := ethcrypto.DecompressPubkey(pk.Data)
		return err == nil
	case keys.BTCECSECP:
		_, err := btcec.ParsePubKey(pk.Data, btcec.S256())
		return err == nil
	}
	return false
}

func primAddr(pk keys.PublicKey) ([]byte, bool) {
	switch pk.KeyType {
	case keys.ED25519:
		if len(pk.Data) != 32 {
			return nil, false
		}
		var k tmed.PubKeyEd25519
		copy(k[:], pk.Data)
		return k.Address().Bytes(), true
	case keys.SECP256K1:
		if len(pk.Data) != 33 {
			return nil, false
		}
		var k tmsecp.PubKeySecp256k1
		copy(k[:], pk.Data)
		return k.Address().Bytes(), true
	case keys.ETHSECP:
		p, err := ethcrypto.DecompressPubkey(pk.Data)
		if err != nil {
			return nil, false
		}
		return ethcrypto.PubkeyToAddress(*p).Bytes(), true
	case keys.BTCECSECP:
		// a BTCEC key is the 33-byte compressed point (one spelling, as for SECP256K1 above)
		if len(pk.Data) != 33 {
			return nil, false
		}
		p, err := btcec.ParsePubKey(pk.Data, btcec.S256())
		if err != nil {
			return nil, false
		}
		var k tmsecp.PubKeySecp256k1
		copy(k[:], p.SerializeCompressed())
		return k.Address().Bytes(), true
	}
	return nil, false
}

// primVerify: does sig verify over msg under pk, by the underlying library alone. BTCEC is
// DEFINED here independently of the handler: ECDSA over the double SHA-256 of msg, DER encoded (an earlier
// version of this oracle copied the handler, which handed msg to ECDSA as a digest — cut to 32
// bytes — and so mirrored the defect repaired in /repo b2b7e17).
func primVerify(pk keys.PublicKey, msg, sig []byte) (ok bool) {
	defer func() {
		if recover() != nil {
			ok = false
		}
	}()
	switch pk.KeyType {
	case keys.ED25519:
		if len(pk.Data) != 32 {
			return false
		}
		var k tmed.PubKeyEd25519
		copy(k[:], pk.Data)
		// Ledger pre-hash mode: a 6-byte hash name followed by the signature over the digest
		if len(sig) > 64 {
			var d []byte
			switch string(sig[:6]) {
			case "SHA224":
				x := sha256.Sum224(msg)
				d = x[:]
			case "SHA256":
				x := sha256.Sum256(msg)
				d = x[:]
			case "SHA384":
				x := sha512.Sum384(msg)
				d = x[:]
			case "SHA512":
				x := sha512.Sum512(msg)
				d = x[:]
			}
			if d != nil {
				return k.VerifyBytes(d, sig[6:])
			}
		}
		return k.VerifyBytes(msg, sig)
	case keys.SECP256K1:
		if len(pk.Data) != 33 {
			return false
		}
		var k tmsecp.PubKeySecp256k1
		copy(k[:], pk.Data)
		return k.VerifyBytes(msg, sig)
	case keys.ETHSECP:
		p, err := ethcrypto.DecompressPubkey(pk.Data)
		if err != nil {
			return false
		}
		s := sig
		if len(s) == 65 {
			s = s[:64]
		}
		return ethcrypto.VerifySignature(ethcrypto.CompressPubkey(p), msg, s)
	case keys.BTCECSECP:
		p, err := btcec.ParsePubKey(pk.Data, btcec.S256())
		if err != nil {
			return false
		}
		ds, err := btcec.ParseDERSignature(sig, btcec.S256())
		if err != nil {
			return false
		}
		// one spelling per signature (the rule of the handler, restated here from the library
		// alone): low s, minimal DER, nothing after it — which is what Serialize produces
		if !bytes.Equal(ds.Serialize(), sig) {
			return false
		}
		return ds.Verify(btcecDigest(msg), p)
	}
	return false
}

// btcecDigest: a BTCEC key signs the double SHA-256 of the message (Bitcoin's digest), NOT the
// single SHA-256 a SECP256K1 key signs: both algorithms take the same 33 key bytes and give the
// same address, so with one digest a signature entry of either kind could be re-spelled as the
// other (replay class 13 of the C05 engine found exactly that on the unchanged tree).
func btcecDigest(msg []byte) []byte {
	a := sha256.Sum256(msg)
	b := sha256.Sum256(a[:])
	return b[:]
}

func hexTok(b []byte) string {
	if len(b) == 0 {
		return "-"
	}
	return hex.EncodeToString(b)
}

// ---------------------------------------------------------------- raw: RawBytes vs serBytes

var hostilePieces = []string{
	"", "a", "OLT", "m1-1", "memo with spaces", "\"", "\\", "\\\"", "<", ">", "&", "<script>&amp;</script>", "'", "/", "\n", "\r", "\t", "\b", "\f",
	"\x00", "\x01", "\x1f", "\x7f", "\x0b", "\x1b[0m", "\u00e9", "\u00df", "\u4e2d\u6587", "\U0001f600", "\u2028", "\u2029", "\ufffd", "\ufeff", "\u0080", "\u07ff", "\u0800", "\uffff", "\U00010000", "\U0010ffff",
	"{\"type\":1}", "\",\"memo\":\"x", "\\u0041", "\\n", "null", "}", "0", "-1", "1e9", " ", "  ", "\"}", "},\"memo\":\"", "%s%d", "\u202e", "a\u0300",
}

var invalidUTF8Pieces = []string{"\xff", "\xfe", "\xc0\xaf", "\xed\xa0\x80", "\xf4\x90\x80\x80", "\xe2\x80", "a\x80b", "\xc3"}

func genString(r *rng.R, hostile bool) string {
	switch r.Intn(10) {
	case 0:
		return ""
	case 1:
		return "OLT"
	case 2:
		return fmt.Sprintf("m%d-%d", r.Intn(50), r.Intn(1000))
	}
	var sb strings.Builder
	for i, n := 0, 1+r.Intn(6); i < n; i++ {
		switch {
		case hostile && r.Intn(3) == 0:
			sb.WriteString(invalidUTF8Pieces[r.Intn(len(invalidUTF8Pieces))])
		case r.Intn(6) == 0:
			// any single code point (valid scalar values only)
			for {
				c := rune(r.Intn(0x110000))
				if c < 0xd800 || c > 0xdfff {
					sb.WriteRune(c)
					break
				}
			}
		case r.Intn(8) == 0:
			sb.WriteByte(byte(r.Intn(128)))
		default:
			sb.WriteString(hostilePieces[r.Intn(len(hostilePieces))])
		}
	}
	if r.Intn(40) == 0 {
		return strings.Repeat(sb.String(), 1+r.Intn(60))
	}
	return sb.String()
}

var boundaryInts = []string{"0", "1", "-1", "9", "10", "11", "99", "100", "101", "400000", "10000000000", "9223372036854775807", "-9223372036854775808",
	"2147483647", "-2147483648", "4294967296", "1000000000000000000", "999999999999999999"}
var boundaryBig = []string{"18446744073709551615", "18446744073709551616", "18446744073709551617", "-18446744073709551617", "1000000000000000000000000000000",
	"-1000000000000000000000000000000", "340282366920938463463374607431768211456", "99999999999999999999", "100000000000000000000"}

func genInt64(r *rng.R) int64 {
	switch r.Intn(4) {
	case 0:
		v, _ := new(big.Int).SetString(boundaryInts[r.Intn(len(boundaryInts))], 10)
		return v.Int64()
	case 1:
		return int64(r.Intn(60)) - 10
	case 2:
		return int64(r.U64() >> uint(r.Intn(64)))
	default:
		return -int64(r.U64() >> uint(1+r.Intn(63)))
	}
}

func genBig(r *rng.R) *big.Int {
	switch r.Intn(4) {
	case 0:
		v, _ := new(big.Int).SetString(boundaryBig[r.Intn(len(boundaryBig))], 10)
		return v
	case 1:
		return big.NewInt(genInt64(r))
	default:
		v := new(big.Int).SetBytes(r.Bytes(1 + r.Intn(20)))
		if r.Intn(4) == 0 {
			v.Neg(v)
		}
		return v
	}
}

func genData(r *rng.R) []byte {
	switch r.Intn(8) {
	case 0:
		return nil
	case 1:
		return []byte{}
	case 2:
		return []byte(fmt.Sprintf(`{"from":"0lt%x","to":"0lt%x","amount":{"currency":"OLT","value":"%d"}}`, r.Bytes(20), r.Bytes(20), r.Intn(100000)))
	default:
		return r.Bytes(1 + r.Intn(40))
	}
}

func genRawTx(r *rng.R, hostile bool) action.RawTx {
	return action.RawTx{Type: action.Type(genInt64(r)), Data: genData(r),
		Fee:  action.Fee{Price: action.Amount{Currency: genString(r, hostile), Value: *balance.NewAmountFromBigInt(genBig(r))}, Gas: genInt64(r)},
		Memo: genString(r, hostile)}
}

func rawLine(t *action.RawTx) string {
	d := "~"
	if t.Data != nil {
		d = hexTok(t.Data)
	}
	return fmt.Sprintf("raw %d %s %s %s %d %s", int64(t.Type), d, hexTok([]byte(t.Fee.Price.Currency)), t.Fee.Price.Value.BigInt().String(), t.Fee.Gas, hexTok([]byte(t.Memo)))
}

func rawEqual(a, b *action.RawTx) bool {
	return a.Type == b.Type && bytes.Equal(a.Data, b.Data) && (a.Data == nil) == (b.Data == nil) && a.Fee.Price.Currency == b.Fee.Price.Currency &&
		a.Fee.Price.Value.BigInt().Cmp(b.Fee.Price.Value.BigInt()) == 0 && a.Fee.Gas == b.Fee.Gas && a.Memo == b.Memo
}

func rawInClass(t *action.RawTx) bool {
	return utf8.ValidString(t.Memo) && utf8.ValidString(t.Fee.Price.Currency)
}

var rawFields = []string{"type", "data", "currency", "value", "gas", "memo"}

// mutateRaw changes exactly one field to a different value.
func mutateRaw(r *rng.R, t action.RawTx, field string) action.RawTx {
	m := t
	switch field {
	case "type":
		m.Type = t.Type + action.Type(1+r.Intn(3))
	case "data":
		switch {
		case t.Data == nil:
			m.Data = []byte{}
		case len(t.Data) == 0:
			m.Data = nil
		default:
			d := append([]byte{}, t.Data...)
			switch r.Intn(3) {
			case 0:
				d[r.Intn(len(d))] ^= 1 << uint(r.Intn(8))
			case 1:
				d = append(d, 0)
			default:
				d = d[:len(d)-1]
			}
			m.Data = d
		}
	case "currency":
		m.Fee.Price.Currency = mutateString(r, t.Fee.Price.Currency)
	case "value":
		v := new(big.Int).Set(t.Fee.Price.Value.BigInt())
		switch r.Intn(3) {
		case 0:
			v.Add(v, big.NewInt(1))
		case 1:
			v.Mul(v, big.NewInt(10))
			if v.Sign() == 0 {
				v.SetInt64(10)
			}
		default:
			v.Neg(v)
			if v.Sign() == 0 {
				v.SetInt64(-1)
			}
		}
		m.Fee.Price.Value = *balance.NewAmountFromBigInt(v)
	case "gas":
		m.Fee.Gas = t.Fee.Gas + int64(1+r.Intn(9))
	case "memo":
		m.Memo = mutateString(r, t.Memo)
	}
	return m
}

func mutateString(r *rng.R, s string) string {
	rs := []rune(s)
	switch {
	case len(rs) == 0 || r.Intn(3) == 0:
		return s + hostilePieces[1+r.Intn(len(hostilePieces)-1)]
	case r.Intn(2) == 0:
		return string(rs[:len(rs)-1])
	default:
		// swap an escaped spelling for the raw one and similar near misses
		near := map[rune]string{'<': "\\u003c", '"': "'", '\\': "/", '\n': "\\n", ' ': "\u00a0", 'a': "A"}
		i := r.Intn(len(rs))
		if rep, ok := near[rs[i]]; ok {
			return string(rs[:i]) + rep + string(rs[i+1:])
		}
		return string(rs[:i]) + string(rs[i]+1) + string(rs[i+1:])
	}
}

// ---------------------------------------------------------------- vb: ValidateBasic

type vbCase struct {
	Class   string
	Data    []byte
	Signers []action.Address
	Sigs    []action.Signature
}

type keyPool struct {
	byAlg map[keys.Algorithm][]*sigKey
}

func newKeyPool(seed uint64) *keyPool {
	p := &keyPool{byAlg: map[keys.Algorithm][]*sigKey{}}
	for _, alg := range []keys.Algorithm{keys.ED25519, keys.SECP256K1, keys.ETHSECP, keys.BTCECSECP} {
		for i := 0; i < 4; i++ {
			p.byAlg[alg] = append(p.byAlg[alg], newSigKey(seed, fmt.Sprintf("k%d", i), alg))
		}
	}
	return p
}

func (p *keyPool) pick(r *rng.R, alg keys.Algorithm) *sigKey {
	l := p.byAlg[alg]
	return l[r.Intn(len(l))]
}

func (p *keyPool) other(r *rng.R, k *sigKey) *sigKey {
	for {
		o := p.pick(r, k.Alg)
		if o != k {
			return o
		}
	}
}

var vbClasses = []string{"valid", "valid", "valid", "drop-last-sig", "drop-first-sig", "extra-sig", "swap-sigs", "substitute-key", "flip-sig-byte", "sig-over-other-data",
	"sig-by-other-key", "alg-tag-changed", "pk-truncated", "pk-extended", "alg-unknown", "signer-prefix", "signer-extended", "signer-bitflip", "empty-signer-btcec-junk",
	"empty-signer-btcec-signed", "nil-signer-btcec-junk", "btcec-key-nonempty-signer", "btcec-unparseable", "ed25519-prehash", "ed25519-prehash-wrong-digest", "eth-sig-64", "eth-sig-65-badv",
	"eth-key-undecompressable", "btcec-uncompressed-key", "btcec-high-s", "btcec-sig-trailing", "no-signers", "no-signers-one-sig", "dup-signer", "sig-empty", "sig-truncated", "sig-swapped-between-keys", "signer-order-swapped"}

func genVB(r *rng.R, pool *keyPool) vbCase {
	class := vbClasses[r.Intn(len(vbClasses))]
	var data []byte
	digest := r.Intn(4) == 0
	if digest {
		data = r.Bytes(32)
	} else {
		t := genRawTx(r, false)
		data = t.RawBytes()
	}
	n := []int{1, 1, 1, 2, 2, 3}[r.Intn(6)]
	algs := []keys.Algorithm{keys.ED25519, keys.ED25519, keys.SECP256K1, keys.SECP256K1, keys.ETHSECP, keys.BTCECSECP}
	var ks []*sigKey
	for i := 0; i < n; i++ {
		a := algs[r.Intn(len(algs))]
		if a == keys.ETHSECP && !digest && r.Intn(4) != 0 {
			a = keys.ED25519 // an ETHSECP signature over non-digest bytes never verifies; keep that a minority
		}
		ks = append(ks, pool.pick(r, a))
	}
	c := vbCase{Class: class, Data: data}
	// two kinds of client: one signing with the libraries as the scheme is specified, one with
	// the repo's own private-key handlers
	repoClient := r.Intn(3) == 0
	for _, k := range ks {
		c.Signers = append(c.Signers, append(keys.Address{}, k.Addr...))
		sg := k.sign(data)
		if repoClient {
			sg = k.signRepo(data)
		}
		c.Sigs = append(c.Sigs, action.Signature{Signer: k.Pub, Signed: sg})
	}
	i := r.Intn(n)
	if n > 1 && r.Intn(2) == 0 {
		i = n - 1 // positions after the first matter as much as the first
	}
	clonePK := func(pk keys.PublicKey) keys.PublicKey {
		return keys.PublicKey{KeyType: pk.KeyType, Data: append([]byte{}, pk.Data...)}
	}
	switch class {
	case "valid":
	case "drop-last-sig":
		c.Sigs = c.Sigs[:n-1]
	case "drop-first-sig":
		c.Sigs = c.Sigs[1:]
	case "extra-sig":
		k := pool.pick(r, keys.ED25519)
		c.Sigs = append(c.Sigs, action.Signature{Signer: k.Pub, Signed: k.sign(data)})
	case "swap-sigs", "signer-order-swapped":
		if n < 2 {
			k := pool.other(r, ks[0])
			ks = append(ks, k)
			c.Signers = append(c.Signers, append(keys.Address{}, k.Addr...))
			c.Sigs = append(c.Sigs, action.Signature{Signer: k.Pub, Signed: k.sign(data)})
			n = 2
		}
		j := (i + 1) % n
		if class == "swap-sigs" {
			c.Sigs[i], c.Sigs[j] = c.Sigs[j], c.Sigs[i]
		} else {
			c.Signers[i], c.Signers[j] = c.Signers[j], c.Signers[i]
		}
	case "substitute-key":
		o := pool.other(r, ks[i])
		c.Sigs[i] = action.Signature{Signer: o.Pub, Signed: o.sign(data)}
	case "flip-sig-byte":
		s := append([]byte{}, c.Sigs[i].Signed...)
		s[r.Intn(len(s))] ^= 1 << uint(r.Intn(8))
		c.Sigs[i].Signed = s
	case "sig-over-other-data":
		d2 := append([]byte{}, data...)
		d2[r.Intn(len(d2))] ^= 1
		c.Sigs[i].Signed = ks[i].sign(d2)
	case "sig-by-other-key":
		c.Sigs[i].Signed = pool.other(r, ks[i]).sign(data)
	case "alg-tag-changed":
		pk := clonePK(c.Sigs[i].Signer)
		for {
			a := keys.Algorithm(1 + r.Intn(4))
			if a != pk.KeyType {
				pk.KeyType = a
				break
			}
		}
		c.Sigs[i].Signer = pk
	case "pk-truncated":
		pk := clonePK(c.Sigs[i].Signer)
		pk.Data = pk.Data[:len(pk.Data)-1-r.Intn(3)]
		c.Sigs[i].Signer = pk
	case "pk-extended":
		pk := clonePK(c.Sigs[i].Signer)
		pk.Data = append(pk.Data, byte(r.Intn(256)))
		c.Sigs[i].Signer = pk
	case "alg-unknown":
		pk := clonePK(c.Sigs[i].Signer)
		pk.KeyType = []keys.Algorithm{0, 5, 99, -1}[r.Intn(4)]
		c.Sigs[i].Signer = pk
	case "signer-prefix":
		if len(c.Signers[i]) < 2 { // a handler without an address (never on the repaired tree)
			c.Signers[i] = append(c.Signers[i], 1)
			break
		}
		c.Signers[i] = c.Signers[i][:1+r.Intn(len(c.Signers[i])-1)]
	case "signer-extended":
		c.Signers[i] = append(c.Signers[i], byte(r.Intn(256)))
	case "signer-bitflip":
		if len(c.Signers[i]) == 0 {
			c.Signers[i] = append(c.Signers[i], 1)
			break
		}
		c.Signers[i][r.Intn(len(c.Signers[i]))] ^= 1 << uint(r.Intn(8))
	case "empty-signer-btcec-junk", "nil-signer-btcec-junk", "empty-signer-btcec-signed", "btcec-key-nonempty-signer", "btcec-unparseable":
		b := pool.pick(r, keys.BTCECSECP)
		sig := r.Bytes(1 + r.Intn(70))
		pk := clonePK(b.Pub)
		switch class {
		case "empty-signer-btcec-junk":
			c.Signers[i] = keys.Address{}
		case "nil-signer-btcec-junk":
			c.Signers[i] = nil
		case "empty-signer-btcec-signed":
			c.Signers[i] = keys.Address{}
			sig = b.sign(data)
		case "btcec-unparseable":
			c.Signers[i] = keys.Address{}
			pk.Data[0] = 0x09
		}
		c.Sigs[i] = action.Signature{Signer: pk, Signed: sig}
	case "btcec-uncompressed-key", "btcec-high-s", "btcec-sig-trailing":
		// another spelling of an authentic key / signature: the point uncompressed, (r, N-s), a byte
		// after the signature; the libraries accept all three, the handler has one spelling of each
		b := pool.pick(r, keys.BTCECSECP)
		pk := clonePK(b.Pub)
		sig := b.sign(data)
		switch class {
		case "btcec-uncompressed-key":
			if p, err := btcec.ParsePubKey(pk.Data, btcec.S256()); err == nil {
				pk.Data = p.SerializeUncompressed()
				if r.Bool() {
					pk.Data[0] = 6 | pk.Data[64]&1 // hybrid
				}
			}
		case "btcec-high-s":
			if t := twinSignature(keys.BTCECSECP, sig); t != nil {
				sig = t
			}
		default:
			sig = append(sig, byte(r.Intn(256)))
		}
		c.Signers[i] = append(keys.Address{}, b.Addr...)
		c.Sigs[i] = action.Signature{Signer: pk, Signed: sig}
	case "ed25519-prehash", "ed25519-prehash-wrong-digest":
		k := pool.pick(r, keys.ED25519)
		names := []string{"SHA224", "SHA256", "SHA384", "SHA512"}
		hn := names[r.Intn(4)]
		var d []byte
		switch hn {
		case "SHA224":
			x := sha256.Sum224(data)
			d = x[:]
		case "SHA256":
			x := sha256.Sum256(data)
			d = x[:]
		case "SHA384":
			x := sha512.Sum384(data)
			d = x[:]
		default:
			x := sha512.Sum512(data)
			d = x[:]
		}
		if class == "ed25519-prehash-wrong-digest" {
			d[0] ^= 1
		}
		c.Signers[i] = append(keys.Address{}, k.Addr...)
		c.Sigs[i] = action.Signature{Signer: k.Pub, Signed: append([]byte(hn), k.sign(d)...)}
	case "eth-sig-64", "eth-sig-65-badv", "eth-key-undecompressable":
		k := pool.pick(r, keys.ETHSECP)
		c.Signers[i] = append(keys.Address{}, k.Addr...)
		s := k.sign(data)
		pk := clonePK(k.Pub)
		switch class {
		case "eth-sig-64":
			s = s[:64]
		case "eth-sig-65-badv":
			s = append(s[:64:64], byte(27+r.Intn(4)))
		default:
			pk.Data[0] = 0x05
		}
		c.Sigs[i] = action.Signature{Signer: pk, Signed: s}
	case "no-signers":
		c.Signers, c.Sigs = nil, nil
	case "no-signers-one-sig":
		c.Signers = nil
		c.Sigs = c.Sigs[:1]
	case "dup-signer":
		c.Signers = append(c.Signers, append(keys.Address{}, ks[i].Addr...))
		c.Sigs = append(c.Sigs, action.Signature{Signer: ks[i].Pub, Signed: ks[i].sign(data)})
	case "sig-empty":
		c.Sigs[i].Signed = nil
	case "sig-truncated":
		c.Sigs[i].Signed = c.Sigs[i].Signed[:len(c.Sigs[i].Signed)-1-r.Intn(5)]
	case "sig-swapped-between-keys":
		o := pool.other(r, ks[i])
		c.Sigs[i] = action.Signature{Signer: o.Pub, Signed: ks[i].sign(data)}
	}
	return c
}

func vbLine(c *vbCase) string {
	var sb strings.Builder
	fmt.Fprintf(&sb, "vb %d", len(c.Signers))
	for _, s := range c.Signers {
		sb.WriteString(" " + hexTok(s))
	}
	fmt.Fprintf(&sb, " %d", len(c.Sigs))
	for _, g := range c.Sigs {
		a, ok := primAddr(g.Signer)
		as := "~"
		if ok {
			as = hexTok(a)
		}
		alg := int(g.Signer.KeyType)
		if alg < 0 {
			alg = 0 // the line protocol carries naturals; every value outside 1..4 is "unknown"
		}
		v := primVerify(g.Signer, c.Data, g.Signed)
		fmt.Fprintf(&sb, " %d %s %s %s %s", alg, hexTok(g.Signer.Data), b01(primParses(g.Signer)), as, b01(v))
	}
	return sb.String()
}

func vbCode(err error) string {
	if err == nil {
		return "ok"
	}
	switch errors.Cause(err) {
	case error(action.ErrUnmatchSigner):
		return "unmatch"
	case error(action.ErrInvalidPubkey):
		return "badkey"
	case error(action.ErrInvalidSignature):
		return "badsig"
	}
	return "other:" + err.Error()
}

// vbImpl runs the real ValidateBasic and the real handlers.
func vbImpl(c *vbCase) (line string, accepted bool) {
	var err error
	func() {
		defer func() {
			if p := recover(); p != nil {
				err = fmt.Errorf("panic: %v", p)
			}
		}()
		err = action.ValidateBasic(c.Data, c.Signers, c.Sigs)
	}()
	var per []string
	for _, g := range c.Sigs {
		h, e := g.Signer.GetHandler()
		if e != nil {
			per = append(per, "~:0")
			continue
		}
		ok := false
		func() {
			defer func() { recover() }()
			ok = h.VerifyBytes(c.Data, g.Signed)
		}()
		per = append(per, hexTok(h.Address())+":"+b01(ok))
	}
	p := "-"
	if len(per) > 0 {
		p = strings.Join(per, ",")
	}
	code := vbCode(err)
	if strings.HasPrefix(code, "other:panic") {
		code = "panic"
	}
	return "vb " + code + " " + p, err == nil
}

// vbxLine carries the complete inputs of a case, so that a replay can rebuild it.
func vbxLine(c *vbCase) string {
	var sb strings.Builder
	fmt.Fprintf(&sb, "vbx %s %d", hexTok(c.Data), len(c.Signers))
	for _, s := range c.Signers {
		sb.WriteString(" " + hexTok(s))
	}
	fmt.Fprintf(&sb, " %d", len(c.Sigs))
	for _, g := range c.Sigs {
		fmt.Fprintf(&sb, " %d %s %s", int(g.Signer.KeyType), hexTok(g.Signer.Data), hexTok(g.Signed))
	}
	return sb.String()
}

func unhexTok(s string) ([]byte, error) {
	if s == "-" {
		return []byte{}, nil
	}
	return hex.DecodeString(s)
}

func parseVBX(line string) (*vbCase, error) {
	t := strings.Fields(line)
	bad := fmt.Errorf("malformed vbx line")
	if len(t) < 4 || t[0] != "vbx" {
		return nil, bad
	}
	c := &vbCase{Class: "replay"}
	var err error
	if c.Data, err = unhexTok(t[1]); err != nil {
		return nil, err
	}
	n, err := strconv.Atoi(t[2])
	if err != nil || len(t) < 3+n+1 {
		return nil, bad
	}
	for i := 0; i < n; i++ {
		a, err := unhexTok(t[3+i])
		if err != nil {
			return nil, err
		}
		c.Signers = append(c.Signers, a)
	}
	m, err := strconv.Atoi(t[3+n])
	if err != nil || len(t) != 4+n+3*m {
		return nil, bad
	}
	for i := 0; i < m; i++ {
		o := 4 + n + 3*i
		alg, err := strconv.Atoi(t[o])
		if err != nil {
			return nil, err
		}
		pk, err := unhexTok(t[o+1])
		if err != nil {
			return nil, err
		}
		sg, err := unhexTok(t[o+2])
		if err != nil {
			return nil, err
		}
		c.Sigs = append(c.Sigs, action.Signature{Signer: keys.PublicKey{KeyType: keys.Algorithm(alg), Data: pk}, Signed: sg})
	}
	return c, nil
}

// replayOp, when set just before an `add`, is the self-contained line a replay needs instead of
// the model's op line (which carries precomputed answers only).
var replayOp string

// evalVB runs one ValidateBasic case: op / impl lines for the correspondence and the monitor.
func evalVB(vc *vbCase, c int, res *Result, add func(op, im string, nt bool)) {
	op := vbLine(vc)
	im, accepted := vbImpl(vc)
	replayOp = vbxLine(vc)
	add(op, im, len(vc.Signers) > 0)
	code := strings.Fields(im)[1]
	res.Distribution["vb:"+vc.Class+":"+code]++
	for _, g := range vc.Sigs {
		res.Distribution[fmt.Sprintf("vb:alg:%d", int(g.Signer.KeyType))]++
	}
	if len(vc.Signers) > 1 {
		res.Distribution["vb:multi-signer"]++
	}
	auth, why := vbAuthentic(vc)
	ops := []string{"# class " + vc.Class, vbxLine(vc), "# " + op, "# impl " + im}
	switch {
	case accepted && !auth:
		hitOnce(res, "validatebasic-accepted-unauthentic", c, vc.Class+": accepted although "+why, ops)
	case !accepted && auth:
		hitOnce(res, "validatebasic-rejected-authentic", c, vc.Class+": every required signer signed, yet "+im, ops)
	}
	if code == "panic" {
		hitOnce(res, "validatebasic-panic", c, vc.Class, ops)
	}
	if accepted {
		messageChangeMonitor(vc, c, res)
	}
}

var algNames = map[keys.Algorithm]string{keys.ED25519: "ed25519", keys.SECP256K1: "secp256k1", keys.BTCECSECP: "btcec", keys.ETHSECP: "ethsecp"}

// messageChangeMonitor is algorithm independent and involves neither the model nor an oracle:
// every (key, signature) of an ACCEPTED case is offered again, alone, for the message changed at
// one position — inside the first 32 bytes, at or after byte 32, the last byte, one byte
// appended, the last byte dropped — and must be rejected (assumption MessageBinding of the Lean
// theorems accepted_signatures_bind_message / _transaction).
func messageChangeMonitor(vc *vbCase, c int, res *Result) {
	n := len(vc.Data)
	if n == 0 {
		return
	}
	// deterministic positions derived from the message itself
	hd := sha256.Sum256(vc.Data)
	pick := func(lo, hi int, salt byte) int { // position in [lo,hi)
		return lo + (int(hd[salt])<<8|int(hd[salt+1]))%(hi-lo)
	}
	type change struct {
		class string
		data  []byte
	}
	flip := func(i int, bit byte) []byte {
		d := append([]byte{}, vc.Data...)
		d[i] ^= 1 << (bit % 8)
		return d
	}
	var changes []change
	lim := n
	if lim > 32 {
		lim = 32
	}
	changes = append(changes, change{"byte<32", flip(pick(0, lim, 0), hd[2])})
	if n > 32 {
		changes = append(changes, change{"byte>=32", flip(pick(32, n, 3), hd[5])})
		changes = append(changes, change{"byte32", flip(32, hd[6])})
	}
	changes = append(changes, change{"last-byte", flip(n-1, hd[7])})
	changes = append(changes, change{"appended", append(append([]byte{}, vc.Data...), hd[8])})
	changes = append(changes, change{"truncated", append([]byte{}, vc.Data[:n-1]...)})
	for i, g := range vc.Sigs {
		if i >= len(vc.Signers) {
			break
		}
		alg := algNames[g.Signer.KeyType]
		for _, ch := range changes {
			res.Distribution["msgchange:"+alg+":"+ch.class]++
			var err error
			func() {
				defer func() {
					if p := recover(); p != nil {
						err = fmt.Errorf("panic: %v", p)
					}
				}()
				err = action.ValidateBasic(ch.data, []action.Address{vc.Signers[i]}, []action.Signature{g})
			}()
			if err == nil {
				one := &vbCase{Class: "msgchange", Data: ch.data, Signers: []action.Address{vc.Signers[i]}, Sigs: []action.Signature{g}}
				hitOnce(res, "accepted-signature-survives-message-change:"+alg+":"+ch.class, c,
					fmt.Sprintf("a signature accepted for a %d-byte message is accepted, under the same key, for the message with %s", n, ch.class),
					[]string{"# the accepted original, then the changed message with the same key and signature", vbxLine(&vbCase{Data: vc.Data, Signers: one.Signers, Sigs: one.Sigs}), vbxLine(one)})
			}
		}
	}
}

// vbAuthentic is the property's own predicate, evaluated with the library primitives only.
func vbAuthentic(c *vbCase) (ok bool, why string) {
	if len(c.Sigs) != len(c.Signers) {
		return false, "signature count differs from required signer count"
	}
	for i, s := range c.Signers {
		g := c.Sigs[i]
		a, has := primAddr(g.Signer)
		if !has || !bytes.Equal(a, s) {
			return false, fmt.Sprintf("position %d: key address %x is not the required signer %x", i, a, []byte(s))
		}
		if !primVerify(g.Signer, c.Data, g.Signed) {
			return false, fmt.Sprintf("position %d: signature does not verify", i)
		}
	}
	return true, ""
}

// ---------------------------------------------------------------- engine

// prevRaw remembers which transaction produced given signed bytes (by hash, to keep memory flat).
type prevRaw struct {
	lineHash [32]byte
	line     string // kept when short
}

func rememberRaw(op string) prevRaw {
	p := prevRaw{lineHash: sha256.Sum256([]byte(op))}
	if len(op) <= 240 {
		p.line = op
	} else {
		p.line = fmt.Sprintf("# (a %d-character raw line, sha256 %x)", len(op), p.lineHash[:8])
	}
	return p
}

// evalRaw runs one RawTx case: correspondence lines and the monitors that involve no model.
func evalRaw(t action.RawTx, c int, r *rng.R, res *Result, add func(op, im string, nt bool), byBytes map[[32]byte]prevRaw) {
	rb := t.RawBytes()
	op := rawLine(&t)
	bh, me := sha256.Sum256(rb), rememberRaw(rawLine(&t))
	if !rawInClass(&t) {
		res.Distribution["raw:outside-class(invalid-utf8,not-covered)"]++
		add(op, "invalid-utf8", false)
		// outside the class json.Marshal is not injective (every invalid byte becomes U+FFFD):
		// record that it is observed, it is not a finding because no parsed transaction has such strings
		if prev, ok := byBytes[bh]; ok && prev.lineHash != me.lineHash {
			res.Distribution["raw:outside-class-collision-observed"]++
		}
		byBytes[bh] = me
		return
	}
	res.Distribution["raw:in-class"]++
	var back action.RawTx
	rt := json.Unmarshal(rb, &back) == nil && rawEqual(&back, &t)
	add(op, fmt.Sprintf("bytes %s rt=%s", hexTok(rb), b01(rt)), needsEscape(t.Memo) || needsEscape(t.Fee.Price.Currency) || len(t.Data) > 0)
	if !rt {
		hitOnce(res, "rawbytes-lose-information", c, "json.Unmarshal(RawBytes(t)) != t", []string{op, "# bytes " + string(rb)})
	}
	if prev, ok := byBytes[bh]; ok && prev.lineHash != me.lineHash {
		hitOnce(res, "rawbytes-collision", c, "two different transactions have the same signed bytes", []string{prev.line, op, "# bytes " + string(rb)})
	}
	byBytes[bh] = me
	for _, f := range rawFields {
		m := mutateRaw(r, t, f)
		if !rawInClass(&m) || rawEqual(&m, &t) {
			continue
		}
		res.Distribution["raw:mutant:"+f]++
		if bytes.Equal(m.RawBytes(), rb) {
			hitOnce(res, "mutation-kept-signed-bytes:"+f, c, "a changed "+f+" left RawBytes() unchanged", []string{op, rawLine(&m), "# bytes " + string(rb)})
		}
	}
	res.Distribution[fmt.Sprintf("raw:data:%s", dataClass(t.Data))]++
	if needsEscape(t.Memo) {
		res.Distribution["raw:memo-needs-escape"]++
	}
}

func parseRawLine(line string) (*action.RawTx, error) {
	t := strings.Fields(line)
	if len(t) != 7 || t[0] != "raw" {
		return nil, fmt.Errorf("malformed raw line")
	}
	ty, err := strconv.ParseInt(t[1], 10, 64)
	if err != nil {
		return nil, err
	}
	var data []byte
	if t[2] != "~" {
		if data, err = unhexTok(t[2]); err != nil {
			return nil, err
		}
	}
	cur, err := unhexTok(t[3])
	if err != nil {
		return nil, err
	}
	v, ok := new(big.Int).SetString(t[4], 10)
	if !ok {
		return nil, fmt.Errorf("bad value")
	}
	gas, err := strconv.ParseInt(t[5], 10, 64)
	if err != nil {
		return nil, err
	}
	memo, err := unhexTok(t[6])
	if err != nil {
		return nil, err
	}
	return &action.RawTx{Type: action.Type(ty), Data: data, Fee: action.Fee{Price: action.Amount{Currency: string(cur), Value: *balance.NewAmountFromBigInt(v)}, Gas: gas}, Memo: string(memo)}, nil
}

// replayInto executes the op lines of a replay / corpus file, feeding correspondence lines to
// `add` and monitor hits to `res`.
func replayInto(lines []string, res *Result, add func(op, im string, nt bool), out func(string)) error {
	byBytes := map[[32]byte]prevRaw{}
	r := rng.New(1)
	for i, l := range lines {
		f := strings.Fields(l)
		if len(f) == 0 {
			continue
		}
		switch f[0] {
		case "sig":
			if len(f) > 1 && f[1] == "history" {
				// a logged history of the sig engine: everything up to the end of the file belongs to it
				if err := ReplaySigHistory(lines[i:], res, out); err != nil {
					return err
				}
			}
		case "raw":
			t, err := parseRawLine(l)
			if err != nil {
				return fmt.Errorf("line %d: %v", i+1, err)
			}
			evalRaw(*t, i, r, res, add, byBytes)
		case "vbx":
			vc, err := parseVBX(l)
			if err != nil {
				return fmt.Errorf("line %d: %v", i+1, err)
			}
			evalVB(vc, i, res, add)
		case "olvm":
			var c int
			var s uint64
			if len(f) >= 4 && f[1] == "case" {
				if _, err := fmt.Sscanf(f[2]+" "+f[3], "%d engine-seed=%d", &c, &s); err == nil {
					if err := runSigOlvmCase(s, c, res, add); err != nil {
						return err
					}
				}
			}
		case "probe":
			var s uint64
			if len(f) >= 3 && f[1] == "s24" {
				if _, err := fmt.Sscanf(f[2], "seed=%d", &s); err == nil {
					if err := S24Probe(s, res); err != nil {
						return err
					}
				}
			}
		}
	}
	return nil
}

// ReplaySigm re-executes the op lines of a replay file (`raw …`, `vbx …`, `olvm case <c>
// engine-seed=<s> …`, `probe s24 seed=<s>`; everything else is commentary) on the implementation
// and on the model, prints both, and returns the number of disagreements plus monitor hits.
func ReplaySigm(driver string, lines []string, out func(string)) (int, error) {
	res := NewResult("sigm", 0, "replay")
	var ops, impl []string
	add := func(op, im string, nt bool) { ops = append(ops, op); impl = append(impl, im) }
	if err := replayInto(lines, res, add, out); err != nil {
		return 0, err
	}
	bad := 0
	if len(ops) > 0 {
		model, err := kv.RunDriver(driver, "sigm", ops)
		if err != nil {
			return 0, err
		}
		for i := range ops {
			v := "agree"
			if model[i] != impl[i] {
				v = "DISAGREE"
				bad++
			}
			out(fmt.Sprintf("%s\n  impl  %s\n  model %s\n  %s", shortLine(ops[i]), shortLine(impl[i]), shortLine(model[i]), v))
		}
	}
	for _, h := range res.MonitorHits {
		out(fmt.Sprintf("MONITOR %s (x%d): %s", h.Signature, res.MonitorHitCount[h.Signature], h.Detail))
		bad++
	}
	return bad, nil
}

type SigmOptions struct {
	Corpus    string // directory of *.ops files executed first
	Driver    string
	Seed      uint64
	RawCases  int
	VBCases   int
	OlvmCases int
}

func RunSigm(opt SigmOptions) (*Result, error) {
	res := NewResult("sigm", opt.Seed, "case = one op line: `raw` = a generated RawTx (boundary/negative/huge integers, nil/empty/1..40-byte payloads, memo and fee currency built from quotes, backslashes, <>&, all control characters, DEL, multi-byte and astral code points, U+2028/9, U+FFFD, JSON fragments) whose RawBytes() must equal the model's serBytes byte for byte (strings that are not valid UTF-8 are a separate stream: the model must answer invalid-utf8, they are counted as outside the proved class); `vb` = ValidateBasic on 0-4 required signers with real ED25519 / SECP256K1 / ETHSECP / BTCEC keys and one of 33 mutation classes applied at a generated position (incl. positions after the first), decision and per-signature handler answers compared with validateBasicK; `olvm` = an OLVM transaction (or mutant) offered to CheckTx of a fork-family chain, verdict (ok / reject / panic = the handler panicked and handlePanic closed the application) of validateSigner + memo rule compared with olvmSig; non-trivial = raw: a string needing an escape or a multi-byte character, or a non-empty payload; vb: at least one required signer; olvm: all; distinct = SHA-256 of the op line")
	root := rng.New(opt.Seed*7907 + 5)
	seen := map[[32]byte]bool{}
	var lines, impl, replayOps []string
	nontriv := []bool{}
	add := func(op, im string, nt bool) {
		lines = append(lines, op)
		impl = append(impl, im)
		nontriv = append(nontriv, nt)
		ro := op
		if replayOp != "" {
			ro, replayOp = replayOp, ""
		}
		replayOps = append(replayOps, ro)
	}
	if opt.Driver == "" {
		return nil, fmt.Errorf("sigm needs -driver")
	}
	total := 0
	// flush runs the model on the lines collected so far and compares (batches keep memory flat)
	flush := func() error {
		if len(lines) == 0 {
			return nil
		}
		model, err := kv.RunDriver(opt.Driver, "sigm", lines)
		if err != nil {
			return err
		}
		for i := range lines {
			res.Evaluations++
			h := sha256.Sum256([]byte(lines[i]))
			if !seen[h] {
				seen[h] = true
				if nontriv[i] {
					res.DistinctNontrivial++
				}
			}
			if model[i] != impl[i] {
				res.DisagreementCount++
				if len(res.Disagreements) < 10 {
					res.Disagreements = append(res.Disagreements, Disagreement{Kind: strings.Fields(lines[i])[0], Case: total + i, Op: shortLine(lines[i]), Impl: shortLine(impl[i]), Model: shortLine(model[i]), Ops: []string{replayOps[i], "# " + lines[i], "# impl " + impl[i], "# model " + model[i]}})
				}
			}
		}
		for i := 0; i < len(lines) && len(res.Samples) < 6; i += 1 + len(lines)/3 {
			res.Samples = append(res.Samples, []string{shortLine(lines[i]), shortLine(impl[i])})
		}
		total += len(lines)
		lines, impl, replayOps, nontriv = nil, nil, nil, nil
		return nil
	}
	const batch = 20000
	// ---- corpus first: the minimised replays of past failures
	if opt.Corpus != "" {
		files, _ := filepath.Glob(filepath.Join(opt.Corpus, "*.ops"))
		sort.Strings(files)
		for _, f := range files {
			b, err := ioutil.ReadFile(f)
			if err != nil {
				return nil, err
			}
			before := len(lines)
			if err := replayInto(strings.Split(string(b), "\n"), res, add, func(string) {}); err != nil {
				return nil, fmt.Errorf("%s: %v", f, err)
			}
			res.Counters["corpus-files"]++
			res.Counters["corpus-lines"] += len(lines) - before
		}
		if err := flush(); err != nil {
			return nil, err
		}
	}

	// ---- raw
	r := root.Fork()
	byBytes := map[[32]byte]prevRaw{}
	if opt.RawCases > 0 {
		// outside the proved class json.Marshal is NOT injective: every invalid byte becomes U+FFFD
		for _, memo := range []string{"\xff", "\xfe"} {
			evalRaw(action.RawTx{Type: action.SEND, Data: []byte("{}"), Fee: DefaultFee(), Memo: memo}, -1, r, res, add, byBytes)
		}
	}
	for c := 0; c < opt.RawCases; c++ {
		hostile := c%5 == 4
		t := genRawTx(r, hostile)
		if c < len(hostilePieces) { // every hostile piece alone, as memo and as currency
			t.Memo = hostilePieces[c]
			t.Fee.Price.Currency = hostilePieces[len(hostilePieces)-1-c]
		}
		if c >= len(hostilePieces) && c < len(hostilePieces)+160 { // every ASCII code alone, then with a tail
			b := byte((c - len(hostilePieces)) % 128)
			t.Memo = string([]byte{b})
			if c-len(hostilePieces) >= 128 {
				t.Memo += "x"
			}
		}
		evalRaw(t, c, r, res, add, byBytes)
		if len(lines) >= batch {
			if err := flush(); err != nil {
				return nil, err
			}
		}
	}
	// parsed strings are valid UTF-8 (the domain of ser_injective): invalid bytes in the JSON text
	for c := 0; c < opt.RawCases/20; c++ {
		bad := invalidUTF8Pieces[r.Intn(len(invalidUTF8Pieces))]
		js := []byte(`{"type":1,"data":"e30=","fee":{"price":{"currency":"OLT` + bad + `","value":"1"},"gas":1},"memo":"m` + bad + `","signatures":[]}`)
		st := &action.SignedTx{}
		if err := json.Unmarshal(js, st); err == nil {
			res.Distribution["raw:parsed-hostile-json"]++
			if !utf8.ValidString(st.Memo) || !utf8.ValidString(st.Fee.Price.Currency) {
				hitOnce(res, "parsed-string-not-utf8", c, "json.Unmarshal produced a string that is not valid UTF-8", []string{hex.EncodeToString(js)})
			}
			if bytes.Equal(st.SignedBytes(), js) {
				hitOnce(res, "non-utf8-encoding-canonical", c, "a transaction text with invalid UTF-8 equals its own re-serialisation", []string{hex.EncodeToString(js)})
			}
		}
	}

	// ---- vb
	r = root.Fork()
	pool := newKeyPool(opt.Seed)
	for c := 0; c < opt.VBCases; c++ {
		vc := genVB(r, pool)
		evalVB(&vc, c, res, add)
		if len(lines) >= batch {
			if err := flush(); err != nil {
				return nil, err
			}
		}
	}
	if err := flush(); err != nil {
		return nil, err
	}

	// ---- olvm
	if opt.OlvmCases > 0 {
		if err := runSigOlvm(opt, res, add); err != nil {
			return nil, err
		}
	}

	if err := flush(); err != nil {
		return nil, err
	}
	res.Counters["lines"] = total
	return res, nil
}

// hitOnce counts every monitor hit and keeps the first occurrence of EVERY signature (the shared
// Result.Hit keeps at most 30 hits in total, which would let many hits of a listed signature
// crowd out the single hit of a new one).
func hitOnce(r *Result, sig string, c int, detail string, ops []string) {
	r.MonitorHitCount[sig]++
	for _, h := range r.MonitorHits {
		if h.Signature == sig {
			return
		}
	}
	r.MonitorHits = append(r.MonitorHits, Hit{sig, c, detail, ops})
}

func shortLine(s string) string {
	if len(s) > 400 {
		return s[:400] + "…"
	}
	return s
}

func needsEscape(s string) bool {
	for _, c := range s {
		if c < 0x20 || c == '"' || c == '\\' || c == '<' || c == '>' || c == '&' || c >= 0x80 {
			return true
		}
	}
	return false
}

func dataClass(d []byte) string {
	switch {
	case d == nil:
		return "nil"
	case len(d) == 0:
		return "empty"
	}
	return fmt.Sprintf("len%%3=%d", len(d)%3)
}

package apph

import (
	"github.com/Oneledger/protocol/action"
	"github.com/Oneledger/protocol/data/balance"
	"github.com/Oneledger/protocol/serialize"
)

// DefaultFee is a fee every handler accepts: price 10^10 nue (min fee is 10^9), ample gas.
func DefaultFee() action.Fee {
	return action.Fee{Price: action.Amount{Currency: "OLT", Value: *balance.NewAmount(10000000000)}, Gas: 400000}
}

// RawOf builds the unsigned transaction for a message.
func RawOf(msg action.Msg, fee action.Fee, memo string) action.RawTx {
	data, err := msg.Marshal()
	if err != nil {
		panic(err)
	}
	return action.RawTx{Type: msg.Type(), Data: data, Fee: fee, Memo: memo}
}

// Sign produces the network bytes of the transaction signed by the given accounts, in order.
func Sign(raw action.RawTx, signers ...*Acct) []byte {
	msg := raw.RawBytes()
	st := action.SignedTx{RawTx: raw}
	for _, s := range signers {
		st.Signatures = append(st.Signatures, action.Signature{Signer: s.Pub, Signed: s.Sign(msg)})
	}
	b, err := serialize.GetSerializer(serialize.NETWORK).Serialize(&st)
	if err != nil {
		panic(err)
	}
	return b
}

// Tx builds and signs a message with the default fee.
func Tx(msg action.Msg, memo string, signers ...*Acct) []byte {
	return Sign(RawOf(msg, DefaultFee(), memo), signers...)
}

func OLT(whole int64) action.Amount {
	return action.Amount{Currency: "OLT", Value: oltUnits(whole)}
}

// OLTInt is an OLT amount given in whole tokens *as the integer itself* (staking handlers
// take whole-token integers and scale by 10^18 themselves).
func OLTInt(n int64) action.Amount {
	return action.Amount{Currency: "OLT", Value: *balance.NewAmount(n)}
}

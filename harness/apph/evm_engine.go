package apph

import (
	"bufio"
	"fmt"
	"os"
	"path/filepath"
	"sort"
	"strings"
)

func evCorpusFiles(dir string) []string {
	if dir == "" {
		return nil
	}
	fs, _ := filepath.Glob(filepath.Join(dir, "*.ops"))
	sort.Strings(fs)
	return fs
}

// evLoadCorpus reads one corpus file: `# expect: <signature>` header, then either an interface-op
// case (`new …` + op lines) or a program (`prog`, `acct`, `tx` lines).
func evLoadCorpus(path string) (expect string, c EvCase, pr *EvProgram, err error) {
	f, err := os.Open(path)
	if err != nil {
		return
	}
	defer f.Close()
	var body []string
	sc := bufio.NewScanner(f)
	sc.Buffer(make([]byte, 1<<20), 1<<24)
	isProg := false
	for sc.Scan() {
		l := strings.TrimSpace(sc.Text())
		if strings.HasPrefix(l, "# expect:") {
			expect = strings.TrimSpace(strings.TrimPrefix(l, "# expect:"))
		}
		if l == "" || strings.HasPrefix(l, "#") {
			continue
		}
		if strings.HasPrefix(l, "prog ") || strings.HasPrefix(l, "tx ") {
			isProg = true
		}
		body = append(body, l)
	}
	if isProg {
		p, e := parseProgram(strings.NewReader(strings.Join(body, "\n")))
		return expect, c, &p, e
	}
	for _, l := range body {
		if strings.HasPrefix(l, "new ") {
			c.Start = parseEvStart(l)
			continue
		}
		o, ok := parseEvOp(l)
		if !ok {
			return expect, c, nil, fmt.Errorf("bad line %q", l)
		}
		c.Ops = append(c.Ops, o)
	}
	return expect, c, nil, nil
}

// RunEvm is the `olh evm` engine.
func RunEvm(opt EvmOptions) (*Result, error) {
	res := NewResult("evm", opt.Seed,
		"interface-op case: at least one RevertToSnapshot, two Finalise and one state-changing call, all compared call by call with go-ethereum's state; "+
			"program case: a transaction sequence with at least one successful state-changing transaction and one of {revert, out-of-gas, self-destruct, create, nested call}")
	u := evDefaultUniverse()
	seen := map[string]bool{}
	var corr []evCorrCase
	// corpus first: the minimal replays of the known findings (and of past failures)
	for ci, f := range evCorpusFiles(opt.Corpus) {
		name := filepath.Base(f)
		expect, c, pr, err := evLoadCorpus(f)
		if err != nil {
			return nil, fmt.Errorf("corpus %s: %v", f, err)
		}
		res.Evaluations++
		got := ""
		if pr != nil {
			o := runProgram(*pr, res)
			got = o.Sig
			if o.Sig != "" {
				res.Hit(o.Sig, 2_000_000+ci, "corpus "+name+": "+o.Detail, o.Lines)
			}
		} else {
			cu := universeOf(c)
			o := cu.runCase(c, true)
			got = o.Sig
			if o.DiffAt >= 0 && o.Sig != "precondition:subbalance-underflow" && o.Sig != "excluded:code-equals-deletion-marker" {
				res.Hit(o.Sig, 2_000_000+ci, "corpus "+name+": "+o.Detail, o.Lines[:o.DiffAt+1])
			}
			corr = append(corr, evCorrCase{Index: 2_000_000 + ci, Out: o})
		}
		switch {
		case got == expect && expect == "":
			res.Distribution["corpus:regression-holds:"+name]++ // repaired: adapter = reference on this input
		case got == expect:
			res.Distribution["corpus:reproduced:"+expect]++
		case got == "":
			res.Distribution["corpus:no-longer-reproduces:"+name]++
		default:
			res.Distribution["corpus:other-signature:"+name+":"+got]++
		}
	}
	for i := 0; i < opt.OpCases; i++ {
		r := rngFor(opt.Seed, i)
		clean := i%2 == 0 // half of the cases avoid the known mechanisms so that they run to the end
		c := EvCase{Start: u.genStartMode(r, clean), Ops: u.genOpsMode(r, opt.MaxOps, clean)}
		hostile := !clean && r.Chance(1, 10)
		o := u.runCase(c, hostile)
		res.Evaluations++
		for k, v := range o.Feat {
			res.Distribution[k] += v
		}
		h := evCaseHash(o.Lines)
		if !seen[h] && evNontrivial(o) {
			seen[h] = true
			res.DistinctNontrivial++
		}
		if len(res.Samples) < 3 && evNontrivial(o) {
			n := len(o.Lines)
			if n > 14 {
				n = 14
			}
			res.Samples = append(res.Samples, o.Lines[:n])
		}
		if o.DiffAt >= 0 {
			res.Distribution["diff:"+o.Sig]++
			if o.Sig == "precondition:subbalance-underflow" {
				res.Counters["precondition-subbalance-underflow"]++
			} else if o.Sig == "excluded:code-equals-deletion-marker" {
				res.Counters["excluded-code-equals-deletion-marker"]++
			} else {
				lines := o.Lines[:o.DiffAt+1]
				if res.MonitorHitCount[o.Sig] < 2 {
					sc := u.shrinkCase(EvCase{Start: c.Start, Ops: c.Ops}, o.Sig, hostile)
					so := u.runCase(sc, hostile)
					if so.DiffAt >= 0 && so.Sig == o.Sig {
						lines = so.Lines[:so.DiffAt+1]
						o.Detail = so.Detail
					}
				}
				res.Hit(o.Sig, i, o.Detail, lines)
			}
		} else {
			res.Distribution["case:ran-to-end"]++
		}
		corr = append(corr, evCorrCase{Index: i, Out: o})
		if opt.Driver != "" && len(corr) >= 1000 {
			if err := evCorrespond(opt.Driver, corr, res); err != nil {
				return nil, err
			}
			corr = nil
		}
	}
	if opt.Driver != "" {
		if err := evCorrespond(opt.Driver, corr, res); err != nil {
			return nil, err
		}
	}
	if opt.Programs > 0 {
		if err := runEvmPrograms(opt, res); err != nil {
			return nil, err
		}
	}
	res.DisagreementCount = len(res.Disagreements)
	return res, nil
}

func (u *evUniverse) genStartMode(r rngT, clean bool) []EvAcct {
	st := u.genStart(r)
	if !clean {
		return st
	}
	// clean cases: no empty committed accounts, no marker code
	var out []EvAcct
	for _, a := range st {
		if a.Keeper && a.Nonce == 0 && a.Balance.Sign() == 0 && len(a.Code) == 0 {
			continue
		}
		if string(a.Code) == string(evTombCode) {
			a.Code = []byte{0x00}
		}
		out = append(out, a)
	}
	return out
}

func (u *evUniverse) genOpsMode(r rngT, maxOps int, clean bool) []EvOp {
	ops := u.genOps(r, maxOps, clean)
	if !clean {
		return ops
	}
	var out []EvOp
	for _, o := range ops {
		switch o.K {
		case "suicide":
			o = EvOp{K: "exist", A: o.A}
		case "create":
			o = EvOp{K: "getnonce", A: o.A}
		case "finalise":
			o.B = true
		}
		out = append(out, o)
	}
	return out
}

func evSortedKeys(m map[string]int) []string {
	var ks []string
	for k := range m {
		ks = append(ks, k)
	}
	sort.Strings(ks)
	return ks
}

func EvSummary(res *Result) string {
	s := fmt.Sprintf("evm: cases=%d nontrivial=%d disagreements=%d monitor=%v counters=%v", res.Evaluations, res.DistinctNontrivial, res.DisagreementCount, res.MonitorHitCount, res.Counters)
	return s
}

package apph

// C11 — stake lifecycle engine ("olh stake").
//
// Histories of STAKE / UNSTAKE / WITHDRAW by several delegators and validators, interleaved with
// block progress past every maturity height, allegation verdicts (slashing, freezing), releases,
// missed-vote freezes and changes of the staking maturity option, are executed on the real
// application through ABCI.  Every transaction is first offered to CheckTx (as a mempool would) and
// admitted transactions are put into blocks; a fraction of the refused staking transactions is
// delivered nevertheless (a proposer is free to do that; DeliverTx validates since 626f990).
//
//   - MONITOR (independent of the Lean model): the property's own predicates are evaluated on the
//     stake records decoded from the application's state after every DeliverTx, BeginBlock,
//     EndBlock and Commit (see monitor* below).
//   - CORRESPONDENCE: every step (begin / tx / end) is written as one stateless line
//     "decoded pre-state records + operation" for `olpdriver stake`; the Lean model
//     (OLP/Stake/Model.lean) prints the post-state records and the result class, which must equal
//     what the implementation produced.
//
// A history is a script of text commands (see runScript); generated histories and corpus files
// use the same format, so every failing history is its own replay.

import (
	"bytes"
	"fmt"
	"math/big"
	"os"
	"sort"
	"strconv"
	"strings"

	"github.com/Oneledger/protocol/action"
	aevid "github.com/Oneledger/protocol/action/evidence"
	"github.com/Oneledger/protocol/action/staking"
	"github.com/Oneledger/protocol/data/balance"
	"github.com/Oneledger/protocol/data/delegation"
	"github.com/Oneledger/protocol/data/evidence"
	"github.com/Oneledger/protocol/data/governance"
	"github.com/Oneledger/protocol/identity"
	"github.com/Oneledger/protocol/serialize"
)

// ------------------------------------------------------------------ decoded state

type svRec struct {
	Staking *big.Int
	Power   int64
	SA      int // rank of the stake address
}

type svMat struct {
	Addr int
	Amt  *big.Int
}

// sview is the abstraction of the application state the property talks about; addresses are
// ranks in the byte order of the address universe (order preserving, so "sorted by address"
// means the same on both sides).
type sview struct {
	Tot      map[int]*big.Int
	VD       map[[2]int]*big.Int
	Eff      map[int]*big.Int
	Bnd      map[int]*big.Int
	Mat      map[int64][]svMat
	Vals     map[int]*svRec
	Frozen   map[int]bool
	Req      map[int]bool
	Purge    map[int]int64
	Delayed  map[int64]map[int]*big.Int
	Bal      map[int]*big.Int
	IterVals map[int]bool     // validator records ValidatorStore.Iterate enumerates (committed v_ key, not deleted in the cache)
	Status   map[int][2]int64 // es__vss_: {isActive, height}
	Foreign  []string         // stake records naming an address outside the universe (must stay empty)
}

type stakeActors struct {
	W    *World
	Vals []*Val  // validator identities (genesis, candidates, and "ghosts" that never stake)
	Dels []*Acct // delegators (stake addresses)
	rank map[string]int
	N    int
}

func newStakeActors(w *World, ghosts int) *stakeActors {
	a := &stakeActors{W: w, rank: map[string]int{}}
	a.Vals = append(a.Vals, w.Vals...)
	for i := 0; i < ghosts; i++ {
		a.Vals = append(a.Vals, NewVal(w.P.Seed, fmt.Sprintf("ghost%d", i), 0, false))
	}
	for _, v := range w.Vals {
		a.Dels = append(a.Dels, v.Owner)
	}
	a.Dels = append(a.Dels, w.Accts...)
	var all [][]byte
	for _, v := range a.Vals {
		all = append(all, v.Key.Addr)
	}
	for _, d := range a.Dels {
		all = append(all, d.Addr)
	}
	sort.Slice(all, func(i, j int) bool { return bytes.Compare(all[i], all[j]) < 0 })
	for i, b := range all {
		a.rank[AddrStr(b)] = i
	}
	a.N = len(all)
	return a
}

func (a *stakeActors) vRank(i int) int { return a.rank[AddrStr(a.Vals[i].Key.Addr)] }
func (a *stakeActors) dRank(i int) int { return a.rank[AddrStr(a.Dels[i].Addr)] }

var persistent = serialize.GetSerializer(serialize.PERSISTENT)

func bigOfJSON(v string) *big.Int {
	n := AmountOf(v)
	if n == nil {
		return new(big.Int)
	}
	return n
}

// decodeStake builds the view from a key/value map of the whole state.
func (a *stakeActors) decodeStake(m map[string]string) *sview {
	s := &sview{Tot: map[int]*big.Int{}, VD: map[[2]int]*big.Int{}, Eff: map[int]*big.Int{}, Bnd: map[int]*big.Int{},
		Mat: map[int64][]svMat{}, Vals: map[int]*svRec{}, Frozen: map[int]bool{}, Req: map[int]bool{}, Purge: map[int]int64{},
		Delayed: map[int64]map[int]*big.Int{}, Bal: map[int]*big.Int{}, IterVals: map[int]bool{}, Status: map[int][2]int64{}}
	rk := func(addr string, what string) (int, bool) {
		r, ok := a.rank[addr]
		if !ok {
			s.Foreign = append(s.Foreign, what+" "+addr)
		}
		return r, ok
	}
	for k, v := range m {
		switch {
		case strings.HasPrefix(k, "st__t_"):
			if r, ok := rk(k[6:], "tot"); ok {
				s.Tot[r] = bigOfJSON(v)
			}
		case strings.HasPrefix(k, "st__e_"):
			p := strings.Split(k[6:], "_")
			if len(p) == 2 {
				rv, ok1 := rk(p[0], "vd")
				rd, ok2 := rk(p[1], "vd")
				if ok1 && ok2 {
					s.VD[[2]int{rv, rd}] = bigOfJSON(v)
				}
			}
		case strings.HasPrefix(k, "st__d_e_"):
			if r, ok := rk(k[8:], "eff"); ok {
				s.Eff[r] = bigOfJSON(v)
			}
		case strings.HasPrefix(k, "st__d_b_"):
			if r, ok := rk(k[8:], "bnd"); ok {
				s.Bnd[r] = bigOfJSON(v)
			}
		case strings.HasPrefix(k, "st__m_"):
			h, err := strconv.ParseInt(k[6:], 10, 64)
			if err != nil {
				s.Foreign = append(s.Foreign, "mat key "+k)
				continue
			}
			mb := &delegation.MatureBlock{}
			if err := persistent.Deserialize([]byte(v), mb); err != nil {
				s.Foreign = append(s.Foreign, "mat value "+k)
				continue
			}
			var l []svMat
			for _, d := range mb.Data {
				if r, ok := rk(d.Address.String(), "mat"); ok {
					l = append(l, svMat{r, new(big.Int).Set(d.Amount.BigInt())})
				}
			}
			if len(l) > 0 {
				s.Mat[h] = l
			}
		case strings.HasPrefix(k, "v_") && len(k) == 22:
			val, err := (&identity.Validator{}).FromBytes([]byte(v))
			if err != nil {
				s.Foreign = append(s.Foreign, "validator value "+k)
				continue
			}
			rv, ok1 := rk(AddrStr([]byte(k[2:])), "val")
			rs, ok2 := rk(val.StakeAddress.String(), "val-stakeaddr")
			if ok1 && ok2 {
				s.Vals[rv] = &svRec{Staking: new(big.Int).Set(val.Staking.BigInt()), Power: val.Power, SA: rs}
				s.IterVals[rv] = true // corrected by overlayVisible when an overlay is in play
			}
		case strings.HasPrefix(k, "purged_unstake_"):
			rest := k[len("purged_unstake_"):]
			if len(rest) < 21 {
				continue
			}
			hs, ab := rest[:len(rest)-20], rest[len(rest)-20:]
			h, err := strconv.ParseInt(hs, 10, 64)
			if err != nil {
				s.Foreign = append(s.Foreign, "delayed key "+k)
				continue
			}
			un := &identity.Unstake{}
			if err := persistent.Deserialize([]byte(v), un); err != nil {
				s.Foreign = append(s.Foreign, "delayed value "+k)
				continue
			}
			if r, ok := rk(AddrStr([]byte(ab)), "delayed"); ok {
				if s.Delayed[h] == nil {
					s.Delayed[h] = map[int]*big.Int{}
				}
				s.Delayed[h][r] = new(big.Int).Set(un.Amount.BigInt())
			}
		case strings.HasPrefix(k, "purged_") && len(k) == 27:
			var h int64
			if err := persistent.Deserialize([]byte(v), &h); err == nil {
				if r, ok := rk(AddrStr([]byte(k[7:])), "purge"); ok {
					s.Purge[r] = h
				}
			}
		case strings.HasPrefix(k, "es__ssvk_"):
			lvh := &evidence.LastValidatorHistory{}
			if err := persistent.Deserialize([]byte(v), lvh); err == nil && lvh.IsFrozen() {
				if r, ok := a.rank[k[9:]]; ok {
					s.Frozen[r] = true
				}
			}
		case strings.HasPrefix(k, "es__vss_"):
			st := &evidence.ValidatorStatus{}
			if err := persistent.Deserialize([]byte(v), st); err == nil {
				if r, ok := a.rank[k[len("es__vss_"):]]; ok {
					act := int64(0)
					if st.IsActive {
						act = 1
					}
					s.Status[r] = [2]int64{act, st.Height}
				}
			}
		case strings.HasPrefix(k, "es__ark_"):
			ar := &evidence.AllegationRequest{}
			if err := persistent.Deserialize([]byte(v), ar); err == nil {
				if r, ok := a.rank[ar.MaliciousAddress.String()]; ok {
					s.Req[r] = true
				}
			}
		case strings.HasPrefix(k, "b_") && strings.HasSuffix(k, "_OLT"):
			if r, ok := a.rank[k[2:len(k)-4]]; ok {
				s.Bal[r] = bigOfJSON(v)
			}
		}
	}
	return s
}

func bz(m map[int]*big.Int, k int) *big.Int {
	if v, ok := m[k]; ok {
		return v
	}
	return new(big.Int)
}

// ------------------------------------------------------------------ canonical text (line protocol)

func sortedInts(m map[int]*big.Int) []int {
	var ks []int
	for k, v := range m {
		if v.Sign() != 0 {
			ks = append(ks, k)
		}
	}
	sort.Ints(ks)
	return ks
}

func secAmt(name string, m map[int]*big.Int) string {
	var sb strings.Builder
	sb.WriteString(name)
	for _, k := range sortedInts(m) {
		fmt.Fprintf(&sb, " %d:%s", k, m[k])
	}
	return sb.String()
}

func secVD(m map[[2]int]*big.Int) string {
	var ks [][2]int
	for k, v := range m {
		if v.Sign() != 0 {
			ks = append(ks, k)
		}
	}
	sort.Slice(ks, func(i, j int) bool { return ks[i][0] < ks[j][0] || (ks[i][0] == ks[j][0] && ks[i][1] < ks[j][1]) })
	var sb strings.Builder
	sb.WriteString("vd")
	for _, k := range ks {
		fmt.Fprintf(&sb, " %d:%d:%s", k[0], k[1], m[k])
	}
	return sb.String()
}

func secMat(m map[int64][]svMat) string {
	var hs []int64
	for h, l := range m {
		if len(l) > 0 {
			hs = append(hs, h)
		}
	}
	sort.Slice(hs, func(i, j int) bool { return hs[i] < hs[j] })
	var sb strings.Builder
	sb.WriteString("mat")
	for _, h := range hs {
		fmt.Fprintf(&sb, " %d", h)
		for _, e := range m[h] {
			fmt.Fprintf(&sb, ":%d:%s", e.Addr, e.Amt)
		}
	}
	return sb.String()
}

func secVals(name string, m map[int]*svRec) string {
	var ks []int
	for k := range m {
		ks = append(ks, k)
	}
	sort.Ints(ks)
	var sb strings.Builder
	sb.WriteString(name)
	for _, k := range ks {
		fmt.Fprintf(&sb, " %d:%s:%d:%d", k, m[k].Staking, m[k].Power, m[k].SA)
	}
	return sb.String()
}

func secSet(name string, m map[int]bool) string {
	var ks []int
	for k, v := range m {
		if v {
			ks = append(ks, k)
		}
	}
	sort.Ints(ks)
	var sb strings.Builder
	sb.WriteString(name)
	for _, k := range ks {
		fmt.Fprintf(&sb, " %d", k)
	}
	return sb.String()
}

func secPurge(m map[int]int64) string {
	var ks []int
	for k := range m {
		ks = append(ks, k)
	}
	sort.Ints(ks)
	var sb strings.Builder
	sb.WriteString("purge")
	for _, k := range ks {
		fmt.Fprintf(&sb, " %d:%d", k, m[k])
	}
	return sb.String()
}

func secDelayed(m map[int64]map[int]*big.Int) string {
	var hs []int64
	for h := range m {
		hs = append(hs, h)
	}
	sort.Slice(hs, func(i, j int) bool { return hs[i] < hs[j] })
	var sb strings.Builder
	sb.WriteString("delayed")
	for _, h := range hs {
		var ks []int
		for k := range m[h] {
			ks = append(ks, k)
		}
		sort.Ints(ks)
		for _, k := range ks {
			fmt.Fprintf(&sb, " %d:%d:%s", h, k, m[h][k])
		}
	}
	return sb.String()
}

// balSection prints the OLT balances of the delegators only, corrected by `adj` (the fee the
// implementation charged in this step, which the model does not know about).
func (a *stakeActors) balSection(s *sview, adjAddr int, adj *big.Int) string {
	m := map[int]*big.Int{}
	for _, d := range a.Dels {
		r := a.rank[AddrStr(d.Addr)]
		v := new(big.Int).Set(bz(s.Bal, r))
		if r == adjAddr && adj != nil {
			v.Add(v, adj)
		}
		m[r] = v
	}
	return secAmt("bal", m)
}

// preLine renders "pre-state | op" for the driver.
func (a *stakeActors) preLine(kind string, h, maturity int64, pre, prev *sview, op string) string {
	parts := []string{
		fmt.Sprintf("step %s h=%d M=%d N=%d", kind, h, maturity, a.N),
		secAmt("tot", pre.Tot), secVD(pre.VD), secAmt("eff", pre.Eff), secAmt("bnd", pre.Bnd), secMat(pre.Mat),
		secVals("val", pre.Vals), secVals("prev", prev.Vals), a.balSection(pre, -1, nil), secSet("frozen", pre.Frozen), secSet("iter", pre.IterVals), secSet("req", pre.Req),
		secPurge(pre.Purge), secDelayed(pre.Delayed), "op " + op,
	}
	return strings.Join(parts, " | ")
}

// postLine renders the part of the post-state the model predicts for this kind of step.
func (a *stakeActors) postLine(kind, code string, post *sview, feeAddr int, fee *big.Int) string {
	parts := []string{"code " + code, secAmt("tot", post.Tot), secVD(post.VD), secAmt("eff", post.Eff), secAmt("bnd", post.Bnd), secMat(post.Mat),
		secVals("val", post.Vals), secDelayed(post.Delayed)}
	if kind == "tx" {
		parts = append(parts, a.balSection(post, feeAddr, fee))
	}
	return strings.Join(parts, " | ")
}

// ------------------------------------------------------------------ script commands

type stakeCmd struct {
	Kind   string // stake unstake withdraw allege vote release
	V, D   int    // indices into Vals / Dels (allege: V = reporter, D = accused validator index; vote: V = voter)
	Amt    *big.Int
	ID     int // allegation request number
	Choice int
	Force  bool // put into the block even when CheckTx refuses it (the proposer chooses the txs)
}

func (c stakeCmd) String() string {
	switch c.Kind {
	case "stake", "unstake", "withdraw":
		f := ""
		if c.Force {
			f = " force=1"
		}
		return fmt.Sprintf("tx %s v=%d d=%d amt=%s%s", c.Kind, c.V, c.D, c.Amt, f)
	case "allege":
		return fmt.Sprintf("tx allege by=%d on=%d id=%d", c.V, c.D, c.ID)
	case "vote":
		return fmt.Sprintf("tx vote by=%d id=%d choice=%d", c.V, c.ID, c.Choice)
	case "release":
		return fmt.Sprintf("tx release v=%d", c.V)
	}
	return "tx ?"
}

type stakeBlock struct {
	Dt          int64
	Absent      []int
	SetMaturity int64 // -1 = unchanged
	Cmds        []stakeCmd
}

func stakeKVArgs(fields []string) map[string]string {
	m := map[string]string{}
	for _, f := range fields {
		if i := strings.IndexByte(f, '='); i > 0 {
			m[f[:i]] = f[i+1:]
		}
	}
	return m
}

func stakeAtoi(s string) int { n, _ := strconv.Atoi(s); return n }

func parseStakeCmd(line string) (stakeCmd, error) {
	f := strings.Fields(line)
	if len(f) < 2 || f[0] != "tx" {
		return stakeCmd{}, fmt.Errorf("bad tx line %q", line)
	}
	m := stakeKVArgs(f[2:])
	c := stakeCmd{Kind: f[1]}
	switch f[1] {
	case "stake", "unstake", "withdraw":
		c.V, c.D = stakeAtoi(m["v"]), stakeAtoi(m["d"])
		n, ok := new(big.Int).SetString(m["amt"], 10)
		if !ok {
			return c, fmt.Errorf("bad amount in %q", line)
		}
		c.Amt = n
		c.Force = m["force"] == "1"
	case "allege":
		c.V, c.D, c.ID = stakeAtoi(m["by"]), stakeAtoi(m["on"]), stakeAtoi(m["id"])
	case "vote":
		c.V, c.ID, c.Choice = stakeAtoi(m["by"]), stakeAtoi(m["id"]), stakeAtoi(m["choice"])
	case "release":
		c.V = stakeAtoi(m["v"])
	default:
		return c, fmt.Errorf("unknown tx kind in %q", line)
	}
	return c, nil
}

// ------------------------------------------------------------------ executor

var two63 = new(big.Int).Lsh(big.NewInt(1), 63)
var ten18 = new(big.Int).Exp(big.NewInt(10), big.NewInt(18), nil)

func inInt64Range(n *big.Int) bool { return n.Sign() >= 0 && n.Cmp(two63) < 0 }

type pendingCredit struct {
	D   int // rank
	Amt *big.Int
}

// stakeExec runs one history and holds the monitor's own bookkeeping (all of it derived from the
// implementation's responses and state, never from the Lean model).
type stakeExec struct {
	P             Params
	W             *World
	A             *stakeActors
	R             *Replica
	Sim           *Sim
	Case          int
	Res           *Result
	Script        []string // the replayable history
	Ops           []string // driver input lines
	Impl          []string // implementation's canonical answers
	Maturity      int64
	checkMaturity int64 // the option as the mempool state sees it (committed value)

	committed  map[string]string
	reqAccused map[string]int // request id -> index of the accused validator
	prev       *sview         // view of the last committed state (version h-1 during block h)
	memo       int

	// monitor bookkeeping
	tainted      bool                      // a successful tx carried an amount outside [0, 2^63)
	credits      map[int64][]pendingCredit // expected unlocks per height, from successful unstakes
	stakedRec    map[int]*big.Int          // per delegator: whole tokens staked (incl. genesis)
	withdRec     map[int]*big.Int          // whole tokens withdrawn
	unstakedFrom map[int]map[int]*big.Int  // per delegator and validator: whole tokens unstaked from it and not yet withdrawn
	penalRec     map[int]*big.Int          // whole tokens slashed
	paidIn       map[int]*big.Int          // smallest units debited by successful stakes (+ genesis stake)
	paidOut      map[int]*big.Int          // smallest units credited by successful withdrawals
	monOff       bool                      // a monitor fired; the monitors are off for the rest of the history
	stopped      bool                      // the history ends
	Scripted     bool                      // corpus / replay script (not ended by a tainted amount)
	aborted      bool                      // the application closed itself (panic): history ends

	// non-triviality evidence
	nUnlock, nWithdrawOK, nGuarded, nSlash, nFrozenRej int
}

func (e *stakeExec) hit(sig, detail string) {
	if e.tainted {
		detail = "[" + sig + "] " + detail
		sig = "int64-wrap-amount-admitted"
	}
	e.Res.Hit(sig, e.Case, detail, append([]string{}, e.Script...))
	// the history goes on (the correspondence with the model is still checked on the states that
	// follow), but the monitors stop: everything after the first failure is a consequence of it
	e.monOff = os.Getenv("OLH_STAKE_KEEPGOING") == "" // (debugging aid for replays: keep monitoring after a hit)
}

func newStakeExec(p Params, c int, res *Result) (*stakeExec, error) {
	w := NewWorld(p)
	e := &stakeExec{P: p, W: w, Case: c, Res: res, Maturity: p.StakeMaturity, checkMaturity: p.StakeMaturity, credits: map[int64][]pendingCredit{}, reqAccused: map[string]int{},
		stakedRec: map[int]*big.Int{}, withdRec: map[int]*big.Int{}, unstakedFrom: map[int]map[int]*big.Int{}, penalRec: map[int]*big.Int{}, paidIn: map[int]*big.Int{}, paidOut: map[int]*big.Int{}}
	e.A = newStakeActors(w, 1)
	r, err := NewReplica(w, Identity{Name: "S", Val: w.Vals[0]})
	if err != nil {
		return nil, err
	}
	e.R = r
	r.InitChain()
	e.Sim = NewSim(w)
	e.committed = r.DumpMap()
	e.prev = e.A.decodeStake(e.committed)
	for _, v := range w.Vals {
		if v.Genesis {
			d := e.A.rank[AddrStr(v.Owner.Addr)]
			addAmt(e.stakedRec, d, big.NewInt(v.Stake))
			addAmt(e.paidIn, d, new(big.Int).Mul(big.NewInt(v.Stake), ten18))
		}
	}
	e.Script = append(e.Script, fmt.Sprintf("params seed=%d nvals=%d ncand=%d naccts=%d top=%d minself=%d maturity=%d vdiff=%d minvotes=%d release=%d",
		p.Seed, p.NVals, p.NCandidates, p.NAccts, p.TopValidators, p.MinSelfDeleg, p.StakeMaturity, p.BlockVotesDiff, p.MinVotesReq, p.ReleaseTimeDays))
	return e, nil
}

func addAmt(m map[int]*big.Int, k int, v *big.Int) {
	if m[k] == nil {
		m[k] = new(big.Int)
	}
	m[k].Add(m[k], v)
}

func (e *stakeExec) Close() {
	if e.R != nil {
		e.R.Close()
		e.R = nil
	}
}

const stakeTombstone = "\xe2\x9b\xbc"

// view = committed tree overlaid with the deliver state's block cache (tombstones delete).
func (e *stakeExec) view() *sview {
	ks, vs := e.R.App.VerifPendingWrites()
	if len(ks) == 0 {
		return e.A.decodeStake(e.committed)
	}
	m := make(map[string]string, len(e.committed)+len(ks))
	for k, v := range e.committed {
		m[k] = v
	}
	for i := range ks {
		if string(vs[i]) == stakeTombstone {
			delete(m, string(ks[i]))
		} else {
			m[string(ks[i])] = string(vs[i])
		}
	}
	s := e.A.decodeStake(m)
	e.overlayVisible(s, m)
	return s
}

// overlayVisible corrects the set that the implementation obtains by *iterating* the store with
// State.IterateRange, which enumerates the keys of the committed tree only (storage/state.go: "we
// can't get the key for anything that's only in the cache") and reads their current values:
//   - ValidatorStore.Iterate (frozen-owner guard of WITHDRAW, 92417eb) does not see a validator
//     record created in the running block (`IterVals`).
//
// The allegation requests are different since d2f2af2: IterateRequests uses IterateRangeAll (tree
// keys plus the pending keys of the block cache / open session), so CheckRequestExists — the
// UNSTAKE guard and the duplicate check of ALLEGATION — sees every request of the decoded view,
// also one opened earlier in the same block (`Req` is left as decoded).
func (e *stakeExec) overlayVisible(s *sview, m map[string]string) {
	iter := map[int]bool{}
	for k := range m {
		if _, committed := e.committed[k]; committed && strings.HasPrefix(k, "v_") && len(k) == 22 {
			if r, ok := e.A.rank[AddrStr([]byte(k[2:]))]; ok {
				iter[r] = true
			}
		}
	}
	s.IterVals = iter
}

// checkView = committed tree overlaid with the block cache of the mempool (check) state.
func (e *stakeExec) checkView() *sview {
	pend := pendingOf(e.R.App.VerifCheckState())
	m := make(map[string]string, len(e.committed)+len(pend))
	for k, v := range e.committed {
		m[k] = v
	}
	for _, p := range pend {
		if string(p.v) == stakeTombstone {
			delete(m, string(p.k))
		} else {
			m[string(p.k)] = string(p.v)
		}
	}
	s := e.A.decodeStake(m)
	e.overlayVisible(s, m)
	return s
}

func (e *stakeExec) buildTx(c stakeCmd, h int64) (kind string, tx []byte) {
	e.memo++
	memo := fmt.Sprintf("c11-%d-%d", h, e.memo)
	amt := func() action.Amount {
		return action.Amount{Currency: "OLT", Value: *balance.NewAmountFromBigInt(new(big.Int).Set(c.Amt))}
	}
	switch c.Kind {
	case "stake":
		v, d := e.A.Vals[c.V], e.A.Dels[c.D]
		return "STAKE", Tx(&staking.Stake{ValidatorAddress: v.Key.Addr, StakeAddress: d.Addr, ValidatorPubKey: v.Key.Pub,
			ValidatorECDSAPubKey: v.EcPub, NodeName: v.Name, Stake: amt()}, memo, d, v.Key)
	case "unstake":
		v, d := e.A.Vals[c.V], e.A.Dels[c.D]
		return "UNSTAKE", Tx(&staking.Unstake{ValidatorAddress: v.Key.Addr, StakeAddress: d.Addr, Stake: amt()}, memo, d, v.Key)
	case "withdraw":
		v, d := e.A.Vals[c.V], e.A.Dels[c.D]
		return "WITHDRAW", Tx(&staking.Withdraw{ValidatorAddress: v.Key.Addr, StakeAddress: d.Addr, Stake: amt()}, memo, d, v.Key)
	case "allege":
		by, on := e.A.Vals[c.V], e.A.Vals[c.D]
		e.reqAccused[fmt.Sprintf("req-%d", c.ID)] = c.D
		return "ALLEGATION", Tx(&aevid.Allegation{RequestID: fmt.Sprintf("req-%d", c.ID), ValidatorAddress: by.Key.Addr, MaliciousAddress: on.Key.Addr,
			BlockHeight: h - 1, ProofMsg: "p"}, memo, by.Key)
	case "vote":
		by := e.A.Vals[c.V]
		return "ALLEGATION_VOTE", Tx(&aevid.AllegationVote{RequestID: fmt.Sprintf("req-%d", c.ID), Address: by.Key.Addr, Choice: int8(c.Choice)}, memo, by.Key)
	case "release":
		v := e.A.Vals[c.V]
		return "RELEASE", Tx(&aevid.Release{ValidatorAddress: v.Key.Addr}, memo, v.Key)
	}
	panic("unknown command " + c.Kind)
}

// classify maps the implementation's response to the small result enum shared with the model.
func stakeClassify(t TxResult) string {
	if t.Code == 0 {
		return "ok"
	}
	l := t.Log
	switch {
	case strings.Contains(l, "stake address does not match"):
		return "mismatch"
	case strings.Contains(l, "invalid amount"):
		return "invalidamount"
	case strings.Contains(l, "not enough fund"):
		return "nofunds"
	case strings.Contains(l, "error frozen validator"):
		return "frozen"
	case strings.Contains(l, "current stake address is in use"):
		return "inuse"
	case strings.Contains(l, "allegation request already exists"):
		return "reqexists"
	case strings.Contains(l, "within 2 blocks after unstake"):
		return "purge"
	case strings.Contains(l, "failed to get validator from store"):
		return "novalidator"
	case strings.Contains(l, "minus from address"):
		return "balance"
	case strings.Contains(l, "insufficient balance"):
		return "insufficient"
	}
	return "other"
}

func (e *stakeExec) setMaturity(h, m int64) {
	p := e.P
	gs := governance.NewStore("g", e.R.App.VerifDeliverState())
	opts := delegation.Options{MinSelfDelegationAmount: *balance.NewAmount(p.MinSelfDeleg), MinDelegationAmount: *balance.NewAmount(1),
		TopValidatorCount: p.TopValidators, MaturityTime: m}
	if err := gs.WithHeight(h).SetStakingOptions(opts); err != nil {
		panic(err)
	}
	if err := gs.WithHeight(h).SetLUH(governance.LAST_UPDATE_HEIGHT_STAKING); err != nil {
		panic(err)
	}
	e.Maturity = m
}

// crashed: a panic closed the application.  Node crashes are property C18's subject: the history
// ends here, is counted (none occur since 72f5d18 / c5836bc: the generator roams down to a zero
// total power), and the steps completed so far are still checked.
func (e *stakeExec) crashed(where string) error {
	e.Res.Counters["histories_aborted_by_node_panic"]++
	e.Script = append(e.Script, "# application closed itself in "+where)
	e.stopped = true
	e.aborted = true
	return nil
}

// Block executes one block of the history.
func (e *stakeExec) Block(sb stakeBlock) error {
	h := e.Sim.Height + 1
	var ab []string
	absent := map[int]bool{}
	for _, i := range sb.Absent {
		absent[i] = true
		ab = append(ab, fmt.Sprint(i))
	}
	e.Script = append(e.Script, fmt.Sprintf("block dt=%d absent=%s setmaturity=%d", sb.Dt, strings.Join(ab, ","), sb.SetMaturity))
	// mempool admission first, in submission order
	type adm struct {
		c    stakeCmd
		kind string
		tx   []byte
	}
	var admitted []adm
	var txs [][]byte
	for _, c := range sb.Cmds {
		kind, tx := e.buildTx(c, h)
		e.Script = append(e.Script, c.String())
		var cpre *sview
		staking := c.Kind == "stake" || c.Kind == "unstake" || c.Kind == "withdraw"
		if staking {
			cpre = e.checkView()
		}
		cr := e.R.CheckTx(tx)
		if e.R.Crashed {
			return e.crashed(fmt.Sprintf("CheckTx of %s", c))
		}
		if staking && !e.R.Crashed {
			// CheckTx runs Validate and then the same handler function on the mempool state, under
			// the header of the last begun block
			cpost := e.checkView()
			code := stakeClassify(TxResult{Code: cr.Code, Log: cr.Log})
			fee := new(big.Int)
			if cr.Code == 0 {
				pr := DefaultFee().Price.Value
				fee.Mul(big.NewInt(cr.GasUsed), pr.BigInt())
			}
			v, d := e.A.vRank(c.V), e.A.dRank(c.D)
			e.Ops = append(e.Ops, e.A.preLine("check", h-1, e.checkMaturity, cpre, e.prev, fmt.Sprintf("%s %d %d %s", c.Kind, v, d, c.Amt)))
			e.Impl = append(e.Impl, e.A.postLine("tx", code, cpost, d, fee))
			e.Res.Distribution["check:"+kind+":"+code]++
			switch code {
			case "frozen", "insufficient", "inuse", "purge", "reqexists", "novalidator":
				e.nGuarded++ // a guard of the mechanism refused the operation (on the mempool state)
			}
		}
		if cr.Code != 0 {
			e.Res.Distribution["checktx-rejected:"+kind]++
			if !c.Force {
				continue
			}
			e.Res.Distribution["delivered-without-admission:"+kind]++
		}
		admitted = append(admitted, adm{c, kind, tx})
		txs = append(txs, tx)
	}
	b := e.Sim.NextBlock(txs, BlockOpts{DtSeconds: sb.Dt, Absent: absent})
	R := e.R
	R.SaveBlock(b)
	br := &BlockResult{Height: h}
	// ---- BeginBlock
	pre := e.prev
	R.BeginBlock(b)
	if R.Crashed {
		return e.crashed(fmt.Sprintf("BeginBlock %d", h))
	}
	post := e.view()
	e.Ops = append(e.Ops, e.A.preLine("begin", h, e.Maturity, pre, e.prev, "begin"))
	e.Impl = append(e.Impl, e.A.postLine("begin", "ok", post, -1, nil))
	e.Res.Distribution["step:begin"]++
	e.monitorHook("BeginBlock", h, pre, post)
	if sb.SetMaturity >= 0 && sb.SetMaturity != e.Maturity {
		e.setMaturity(h, sb.SetMaturity)
		e.Res.Distribution["env:setmaturity"]++
		post = e.view()
	}
	// ---- DeliverTx
	for _, a := range admitted {
		pre = post
		tr := R.DeliverTx(a.tx)
		if R.Crashed {
			return e.crashed(fmt.Sprintf("DeliverTx of %s", a.c))
		}
		br.Txs = append(br.Txs, tr)
		post = e.view()
		code := stakeClassify(tr)
		e.Res.Distribution[a.kind+":"+code]++
		switch a.c.Kind {
		case "stake", "unstake", "withdraw":
			v, d := e.A.vRank(a.c.V), e.A.dRank(a.c.D)
			fee := new(big.Int)
			if tr.Code == 0 {
				pr := DefaultFee().Price.Value
				fee.Mul(big.NewInt(tr.GasUsed), pr.BigInt())
			}
			e.Ops = append(e.Ops, e.A.preLine("tx", h, e.Maturity, pre, e.prev, fmt.Sprintf("%s %d %d %s", a.c.Kind, v, d, a.c.Amt)))
			e.Impl = append(e.Impl, e.A.postLine("tx", code, post, d, fee))
			if !e.monOff {
				e.monitorTx(a.c, h, v, d, tr, fee, pre, post)
			}
		default:
			// evidence transactions are environment for this property: they may only change the
			// frozen set / pending requests, never the stake records
			if !e.monOff {
				e.monitorHook(a.kind, h, pre, post)
			}
		}
	}
	// ---- EndBlock
	pre = post
	eb := R.EndBlock(h)
	if R.Crashed {
		return e.crashed(fmt.Sprintf("EndBlock %d", h))
	}
	br.Updates = eb.ValidatorUpdates
	post = e.view()
	// guilty verdicts observed in this EndBlock: an allegation request disappeared and its accused
	// validator carries a suspicious record of kind BYZANTINE_FAULT frozen at this height
	guilty := e.guiltyAt(h)
	// records that may be deleted once without power (d8b47b0): the validator did not sign the last
	// commit and its status record (as it is before this EndBlock) is inactive for more than two
	// blocks; both are the election's business (C10), so they are inputs of the stake model
	signed := map[string]bool{}
	for _, v := range b.Votes {
		signed[AddrStr(v.Validator.Address)] = true
	}
	var deletable []int
	for _, vv := range e.A.Vals {
		r := e.A.rank[AddrStr(vv.Key.Addr)]
		st, ok := pre.Status[r]
		if ok && st[0] == 0 && h > st[1]+2 && !signed[AddrStr(vv.Key.Addr)] {
			deletable = append(deletable, r)
		}
	}
	sort.Ints(deletable)
	lst := func(l []int) string {
		if len(l) == 0 {
			return "-"
		}
		var xs []string
		for _, x := range l {
			xs = append(xs, fmt.Sprint(x))
		}
		return strings.Join(xs, ",")
	}
	e.Ops = append(e.Ops, e.A.preLine("end", h, e.Maturity, pre, e.prev, "end "+lst(guilty)+" "+lst(deletable)))
	e.Impl = append(e.Impl, e.A.postLine("end", "ok", post, -1, nil))
	e.Res.Distribution["step:end"]++
	if len(guilty) > 0 {
		e.Res.Distribution["step:end-with-verdict"]++
		e.nSlash++
	}
	if !e.monOff {
		e.monitorEnd(h, pre, post, guilty)
	}
	// ---- Commit
	br.AppHash = R.Commit()
	R.IndexBlock(b, br)
	e.Sim.Absorb(b, br)
	e.committed = R.DumpMap()
	cv := e.A.decodeStake(e.committed)
	if a, b := e.A.postLine("end", "ok", post, -1, nil), e.A.postLine("end", "ok", cv, -1, nil); a != b {
		return fmt.Errorf("harness: overlay view before Commit differs from the committed dump at height %d:\n%s\n%s", h, a, b)
	}
	if len(cv.Foreign) > 0 {
		return fmt.Errorf("harness: stake records outside the address universe: %v", cv.Foreign)
	}
	if !e.monOff {
		e.monitorCommit(h, cv)
	}
	e.prev = cv
	e.checkMaturity = e.Maturity
	if (e.tainted || e.monOff) && !e.Scripted {
		// Generated histories end with the block in which a monitor fired (or, should the int64
		// guard regress, the first amount outside int64 succeeded): the states that follow are
		// corrupt and only produce consequences of the first failure.  Scripted corpus cases
		// carry such lifecycles on deliberately.
		e.stopped = true
	}
	return nil
}

// guiltyAt returns the ranks of validators found guilty in EndBlock h, in request-id order as the
// tracker processes them (at most one request per accused validator can exist): the request key
// was deleted in this EndBlock (stakeTombstone in the block cache) and the accused carries a suspicious
// record of kind BYZANTINE_FAULT frozen at this height.
func (e *stakeExec) guiltyAt(h int64) []int {
	ks, vs := e.R.App.VerifPendingWrites()
	susp := map[string]bool{}
	for i := range ks {
		k := string(ks[i])
		if strings.HasPrefix(k, "es__ssvk_") && string(vs[i]) != stakeTombstone {
			lvh := &evidence.LastValidatorHistory{}
			if err := persistent.Deserialize(vs[i], lvh); err == nil && lvh.Status == evidence.BYZANTINE_FAULT && lvh.FrozenHeight == h {
				susp[k[len("es__ssvk_"):]] = true
			}
		}
	}
	var ids []string
	for i := range ks {
		k := string(ks[i])
		if strings.HasPrefix(k, "es__ark_") && string(vs[i]) == stakeTombstone {
			ids = append(ids, k[len("es__ark_"):])
		}
	}
	sort.Strings(ids)
	// CleanTracker removes duplicate requests against the same validator before the tally (two
	// allegations of one block are both admitted: the duplicate check iterates the committed
	// tree only), so a validator is tried at most once per EndBlock
	var rs []int
	seen := map[int]bool{}
	for _, id := range ids {
		vi, ok := e.reqAccused[id]
		if !ok || seen[vi] {
			continue
		}
		if susp[AddrStr(e.A.Vals[vi].Key.Addr)] {
			seen[vi] = true
			rs = append(rs, e.A.vRank(vi))
		}
	}
	return rs
}

package apph

import (
	"crypto/sha256"
	"encoding/hex"
	"encoding/json"
	"math/big"
	"strconv"
	"strings"

	"github.com/Oneledger/protocol/action"
	"github.com/Oneledger/protocol/data/keys"
	"github.com/Oneledger/protocol/external_apps/bid/bid_action"
	"github.com/Oneledger/protocol/external_apps/bid/bid_data"
	"github.com/Oneledger/protocol/serialize"
)

// The bid application (external_apps/bid): a bidder locks OLT in an offer on an asset (an ONS
// name), the owner answers with a counter offer, either side accepts or rejects, the bidder
// cancels, anybody (and the block hook) expires. This file holds the generator family, the
// hostile / stranger / crash-table inputs and the ledger decoding of the locked amounts.

// genBid is a bid conversation the generator believes to exist.
type genBid struct {
	ID      bid_data.BidConvId
	Owner   *Acct
	Bidder  *Acct
	Asset   string
	Type    bid_data.BidAssetType
	Domain  *genDomain // nil for the example asset
	Created int64      // height of the block the BID_CREATE was generated for
	Counter bool       // the generator believes the active offer is the owner's counter offer
	Last    int64      // whole OLT of the active offer, as far as the generator can tell
	Closed  bool
}

// bidConvID is the id the handler gives a new conversation (bid_data.generateBidConvID): the
// SHA-256 of owner, asset name, bidder (both as 0lt… strings) and the height of the block.
func bidConvID(owner keys.Address, asset string, bidder keys.Address, height int64) bid_data.BidConvId {
	h := sha256.Sum256([]byte(owner.String() + asset + bidder.String() + strconv.FormatInt(height, 10)))
	return bid_data.BidConvId(hex.EncodeToString(h[:]))
}

// bidTimeBounds: between which instants the header time of the block being generated lies. An
// engine that knows the simulated clock sets g.Now (time of the last executed block); otherwise
// the bounds follow from the height alone (a block takes 1 … 3499 seconds, see genBlockOpts).
func (g *Gen) bidTimeBounds() (lo, hi int64) {
	if !g.Now.IsZero() {
		return g.Now.Unix() + 1, g.Now.Unix() + 3499
	}
	h := g.Height
	if h < 1 {
		h = 1
	}
	return g.W.GenesisTime.Unix() + h, g.W.GenesisTime.Unix() + 3499*h
}

// bidDeadline draws a deadline: mostly out of reach of the history, sometimes so near that the
// block hook expires the conversation a few blocks later, sometimes already over.
func (g *Gen) bidDeadline() (int64, string) {
	lo, hi := g.bidTimeBounds()
	switch g.R.Intn(10) {
	case 0:
		return lo - 1 - int64(g.R.Intn(1000)), "deadline-over"
	case 1, 2:
		return lo + int64(g.R.Intn(6)), "deadline-next-blocks"
	case 3, 4:
		if !g.Now.IsZero() {
			return lo + 300 + int64(g.R.Intn(3000)), "deadline-near"
		}
		return g.W.GenesisTime.Unix() + g.Height*int64(100+g.R.Intn(600)), "deadline-near"
	}
	return hi + int64(g.R.Intn(100000)), "valid"
}

func (g *Gen) otherAcct(not *Acct) *Acct {
	a := g.acct()
	for i := 0; a == not && i < 20; i++ {
		a = g.acct()
	}
	return a
}

// topDomains: the names the generator believes exist and that a bid may name (no sub names).
func (g *Gen) topDomains() []*genDomain {
	var ds []*genDomain
	for _, d := range g.Domains {
		if strings.Count(d.Name, ".") == 1 {
			ds = append(ds, d)
		}
	}
	return ds
}

func (g *Gen) openBids() []*genBid {
	var early, all []*genBid
	for _, b := range g.Bids {
		if b.Closed {
			continue
		}
		all = append(all, b)
		if b.Created < g.Height {
			early = append(early, b)
		}
	}
	// a conversation created in the block being generated has another id in the mempool check
	// (the check state still carries the header of the last block): mostly follow up older ones
	if len(early) > 0 && g.R.Intn(5) != 0 {
		return early
	}
	return all
}

// bid produces the traffic of the bid application.
func (g *Gen) bid() GenTx {
	open := g.openBids()
	if len(open) == 0 || g.R.Intn(4) == 0 {
		return g.bidCreate()
	}
	// mostly the newest conversations, so that they run to an end
	b := open[len(open)-1-g.R.Intn(minInt(len(open), 3))]
	if b.Counter {
		return g.bidAfterCounterOffer(b)
	}
	return g.bidAfterBidOffer(b)
}

func (g *Gen) bidCreate() GenTx {
	ds := g.topDomains()
	x := g.R.Intn(14)
	if len(ds) == 0 && x != 3 {
		// nothing to bid on yet: register a name
		return g.ons()
	}
	deadline, note := g.bidDeadline()
	amount := int64(1 + g.R.Intn(50))
	if x == 3 {
		// the example asset type of the code base: always available, nothing changes hands
		owner := g.acct()
		bidder := g.otherAcct(owner)
		name := "example-" + strconv.Itoa(len(g.Bids))
		if note == "valid" {
			note = "example-asset"
		}
		g.Bids = append(g.Bids, &genBid{ID: bidConvID(owner.Addr, name, bidder.Addr, g.Height), Owner: owner, Bidder: bidder, Asset: name,
			Type: bid_data.BidAssetExample, Created: g.Height, Last: amount})
		return g.mk("BID_CREATE", note, &bid_action.CreateBid{AssetOwner: owner.Addr, AssetName: name, AssetType: bid_data.BidAssetExample,
			Bidder: bidder.Addr, Amount: OLT(amount), Deadline: deadline}, bidder)
	}
	d := ds[g.R.Intn(len(ds))]
	owner := d.Owner
	bidder := g.otherAcct(owner)
	signer := bidder
	name := d.Name
	record := true
	switch x {
	case 0: // the named owner is somebody else (or, the belief being stale, the real one)
		owner, note, record = g.acct(), "maybe-wrong-owner", false
	case 1: // signed by somebody else
		signer, note, record = g.otherAcct(bidder), "wrong-signer", false
	case 2: // more than the bidder holds
		amount, note, record = 5000000, "insufficient", false
	case 4: // a sub name, or a name that is none
		name, note, record = "s0."+d.Name, "sub-name", false
		if g.R.Bool() {
			name = "no such name"
		}
	case 5: // the owner bids on the own name
		bidder, signer, note = owner, owner, "self-bid"
	}
	if note == "deadline-over" {
		record = false
	}
	if record {
		g.Bids = append(g.Bids, &genBid{ID: bidConvID(owner.Addr, name, bidder.Addr, g.Height), Owner: owner, Bidder: bidder, Asset: name,
			Type: bid_data.BidAssetOns, Domain: d, Created: g.Height, Last: amount})
	}
	return g.mk("BID_CREATE", note, &bid_action.CreateBid{AssetOwner: owner.Addr, AssetName: name, AssetType: bid_data.BidAssetOns,
		Bidder: bidder.Addr, Amount: OLT(amount), Deadline: deadline}, signer)
}

// party is the right account or, every fourth time, some account (which names itself in the
// payload and signs: the identity checks of the handlers, not the signature check, refuse it).
func (g *Gen) bidParty(right *Acct) (*Acct, string, bool) {
	if g.R.Intn(4) == 0 {
		a := g.acct()
		return a, "maybe-stranger", a == right
	}
	return right, "party", true
}

func (g *Gen) bidDeal(b *genBid) {
	b.Closed = true
	if b.Domain != nil {
		b.Domain.Owner = b.Bidder
	}
}

func (g *Gen) bidDecisionValue() (bid_data.BidDecision, string) {
	switch g.R.Intn(8) {
	case 0:
		return bid_data.BidDecision(0), "decision-0"
	case 1:
		return bid_data.BidDecision(3 + g.R.Intn(250)), "decision-unknown"
	}
	return bid_data.AcceptBid, ""
}

// bidAfterBidOffer: the active offer is the bidder's (its amount is locked).
func (g *Gen) bidAfterBidOffer(b *genBid) GenTx {
	switch g.R.Intn(13) {
	case 0, 1, 2, 11, 12:
		who, note, right := g.bidParty(b.Owner)
		n := b.Last + 1 + int64(g.R.Intn(20))
		if right {
			b.Counter, b.Last = true, n
		}
		return g.mk("BID_CONTER_OFFER", note, &bid_action.CounterOffer{BidConvId: b.ID, AssetOwner: who.Addr, Amount: OLT(n)}, who)
	case 3:
		n := b.Last - int64(g.R.Intn(2))
		return g.mk("BID_CONTER_OFFER", "not-above-the-offer", &bid_action.CounterOffer{BidConvId: b.ID, AssetOwner: b.Owner.Addr, Amount: OLT(n)}, b.Owner)
	case 4, 5:
		who, note, right := g.bidParty(b.Owner)
		if right {
			g.bidDeal(b)
		}
		return g.mk("BID_OWNER_DECISION", note+"-accept", &bid_action.OwnerDecision{BidConvId: b.ID, Owner: who.Addr, Decision: bid_data.AcceptBid}, who)
	case 6:
		who, note, right := g.bidParty(b.Owner)
		if right {
			b.Closed = true
		}
		return g.mk("BID_OWNER_DECISION", note+"-reject", &bid_action.OwnerDecision{BidConvId: b.ID, Owner: who.Addr, Decision: bid_data.RejectBid}, who)
	case 7:
		who, note, right := g.bidParty(b.Bidder)
		if right {
			b.Closed = true
		}
		return g.mk("BID_CANCEL", note, &bid_action.CancelBid{BidConvId: b.ID, Bidder: who.Addr}, who)
	case 8:
		return g.bidExpire(b)
	case 9:
		d, note := g.bidDecisionValue()
		if note == "" {
			note = "no-counter-offer"
		}
		return g.mk("BID_BIDDER_DECISION", note, &bid_action.BidderDecision{BidConvId: b.ID, Bidder: b.Bidder.Addr, Decision: d}, b.Bidder)
	default: // a second offer of the bidder while the first is still the active one
		return g.mk("BID_OFFER", "no-counter-offer", &bid_action.CreateBid{BidConvId: b.ID, Bidder: b.Bidder.Addr, Amount: OLT(b.Last + 1)}, b.Bidder)
	}
}

// bidAfterCounterOffer: the active offer is the owner's counter offer (nothing is locked).
func (g *Gen) bidAfterCounterOffer(b *genBid) GenTx {
	switch g.R.Intn(11) {
	case 0, 1, 2:
		who, note, right := g.bidParty(b.Bidder)
		n := b.Last - 1 - int64(g.R.Intn(10))
		if n < 1 {
			n = 1
		}
		if right && n < b.Last {
			b.Counter, b.Last = false, n
		}
		// a further offer names the conversation, the bidder and the amount only
		return g.mk("BID_OFFER", note, &bid_action.CreateBid{BidConvId: b.ID, Bidder: who.Addr, Amount: OLT(n)}, who)
	case 3:
		n := b.Last + int64(g.R.Intn(2))
		return g.mk("BID_OFFER", "not-below-the-counter-offer", &bid_action.CreateBid{BidConvId: b.ID, Bidder: b.Bidder.Addr, Amount: OLT(n)}, b.Bidder)
	case 4, 5:
		who, note, right := g.bidParty(b.Bidder)
		if right {
			g.bidDeal(b)
		}
		return g.mk("BID_BIDDER_DECISION", note+"-accept", &bid_action.BidderDecision{BidConvId: b.ID, Bidder: who.Addr, Decision: bid_data.AcceptBid}, who)
	case 6:
		who, note, right := g.bidParty(b.Bidder)
		if right {
			b.Closed = true
		}
		return g.mk("BID_BIDDER_DECISION", note+"-reject", &bid_action.BidderDecision{BidConvId: b.ID, Bidder: who.Addr, Decision: bid_data.RejectBid}, who)
	case 7:
		who, note, right := g.bidParty(b.Bidder)
		if right {
			b.Closed = true
		}
		return g.mk("BID_CANCEL", note, &bid_action.CancelBid{BidConvId: b.ID, Bidder: who.Addr}, who)
	case 8:
		return g.bidExpire(b)
	case 9:
		d, note := g.bidDecisionValue()
		if note == "" {
			note = "no-bid-offer"
		}
		return g.mk("BID_OWNER_DECISION", note, &bid_action.OwnerDecision{BidConvId: b.ID, Owner: b.Owner.Addr, Decision: d}, b.Owner)
	default: // a second counter offer while the first is still the active one
		return g.mk("BID_CONTER_OFFER", "no-bid-offer", &bid_action.CounterOffer{BidConvId: b.ID, AssetOwner: b.Owner.Addr, Amount: OLT(b.Last + 1)}, b.Owner)
	}
}

// bidExpire: BID_EXPIRE is the transaction the block hook runs for conversations past their
// deadline; it is also on the public router, signed by whoever names itself as the validator.
func (g *Gen) bidExpire(b *genBid) GenTx {
	who, note := g.acct(), "outsider"
	if g.R.Intn(6) == 0 {
		// the hook names the node's validator address; that account holds nothing to pay a fee with
		who, note = g.W.Vals[g.R.Intn(len(g.W.Vals))].Key, "validator"
	}
	b.Closed = true
	return g.mk("BID_EXPIRE", note, &bid_action.ExpireBid{BidConvId: b.ID, ValidatorAddress: who.Addr}, who)
}

// anyBid is a conversation for the hostile and stranger streams (open ones first).
func (g *Gen) anyBid() *genBid {
	if open := g.openBids(); len(open) > 0 {
		return open[g.R.Intn(len(open))]
	}
	if len(g.Bids) > 0 {
		return g.Bids[g.R.Intn(len(g.Bids))]
	}
	return nil
}

// hostileBidTx: correctly signed bid transactions that carry a hostile amount: a first offer on a
// name (or on the example asset, which needs no state), a further offer, a counter offer.
func (g *Gen) hostileBidTx(n *big.Int, note string) GenTx {
	b := g.anyBid()
	ds := g.topDomains()
	_, hi := g.bidTimeBounds()
	switch x := g.R.Intn(4); {
	case x == 0 && b != nil:
		return g.mk("BID_CONTER_OFFER", note, &bid_action.CounterOffer{BidConvId: b.ID, AssetOwner: b.Owner.Addr, Amount: amtOf("OLT", n)}, b.Owner)
	case x == 1 && b != nil:
		return g.mk("BID_OFFER", note, &bid_action.CreateBid{BidConvId: b.ID, Bidder: b.Bidder.Addr, Amount: amtOf("OLT", n)}, b.Bidder)
	case x == 2 || len(ds) == 0:
		owner := g.acct()
		bidder := g.otherAcct(owner)
		name := "example-h" + strconv.Itoa(len(g.Bids))
		if n.Sign() >= 0 {
			g.Bids = append(g.Bids, &genBid{ID: bidConvID(owner.Addr, name, bidder.Addr, g.Height), Owner: owner, Bidder: bidder, Asset: name,
				Type: bid_data.BidAssetExample, Created: g.Height, Last: 19})
		}
		return g.mk("BID_CREATE", note, &bid_action.CreateBid{AssetOwner: owner.Addr, AssetName: name, AssetType: bid_data.BidAssetExample,
			Bidder: bidder.Addr, Amount: amtOf("OLT", n), Deadline: hi + 1000}, bidder)
	}
	d := ds[g.R.Intn(len(ds))]
	bidder := g.otherAcct(d.Owner)
	if n.Sign() >= 0 {
		g.Bids = append(g.Bids, &genBid{ID: bidConvID(d.Owner.Addr, d.Name, bidder.Addr, g.Height), Owner: d.Owner, Bidder: bidder, Asset: d.Name,
			Type: bid_data.BidAssetOns, Domain: d, Created: g.Height, Last: 19})
	}
	return g.mk("BID_CREATE", note, &bid_action.CreateBid{AssetOwner: d.Owner.Addr, AssetName: d.Name, AssetType: bid_data.BidAssetOns,
		Bidder: bidder.Addr, Amount: amtOf("OLT", n), Deadline: hi + 1000}, bidder)
}

// strangerBidTx: the attacker signs, the party field of the payload names the bidder or the
// owner of a conversation (or, for a first offer, a victim whose funds would be locked).
func (g *Gen) strangerBidTx(att, victim *Acct) GenTx {
	b := g.anyBid()
	if b == nil || g.R.Intn(6) == 0 {
		ds := g.topDomains()
		_, hi := g.bidTimeBounds()
		if len(ds) > 0 && g.R.Bool() {
			d := ds[g.R.Intn(len(ds))]
			return g.mk("BID_CREATE", "stranger", &bid_action.CreateBid{AssetOwner: d.Owner.Addr, AssetName: d.Name, AssetType: bid_data.BidAssetOns,
				Bidder: victim.Addr, Amount: OLT(9), Deadline: hi + 1000}, att)
		}
		// the attacker names itself as the owner of an example asset and has the victim bid for it
		return g.mk("BID_CREATE", "stranger", &bid_action.CreateBid{AssetOwner: att.Addr, AssetName: "example-s", AssetType: bid_data.BidAssetExample,
			Bidder: victim.Addr, Amount: OLT(9), Deadline: hi + 1000}, att)
	}
	switch g.R.Intn(6) {
	case 0:
		return g.mk("BID_OFFER", "stranger", &bid_action.CreateBid{BidConvId: b.ID, Bidder: b.Bidder.Addr, Amount: OLT(1)}, att)
	case 1:
		return g.mk("BID_CONTER_OFFER", "stranger", &bid_action.CounterOffer{BidConvId: b.ID, AssetOwner: b.Owner.Addr, Amount: OLT(b.Last + 5)}, att)
	case 2:
		return g.mk("BID_BIDDER_DECISION", "stranger", &bid_action.BidderDecision{BidConvId: b.ID, Bidder: b.Bidder.Addr, Decision: bid_data.AcceptBid}, att)
	case 3:
		return g.mk("BID_OWNER_DECISION", "stranger", &bid_action.OwnerDecision{BidConvId: b.ID, Owner: b.Owner.Addr, Decision: bid_data.AcceptBid}, att)
	case 4:
		return g.mk("BID_CANCEL", "stranger", &bid_action.CancelBid{BidConvId: b.ID, Bidder: b.Bidder.Addr}, att)
	default:
		// the payload names a validator, the attacker signs
		v := g.W.Vals[g.R.Intn(len(g.W.Vals))]
		return g.mk("BID_EXPIRE", "stranger", &bid_action.ExpireBid{BidConvId: b.ID, ValidatorAddress: v.Key.Addr}, att)
	}
}

// bidCrashTable: correctly signed bid transactions aimed at what the handlers take for granted:
// a known asset type, a conversation id of the right shape, addresses, decisions 1 and 2, a known
// currency, an amount. The example asset type needs no state, so a whole conversation on it is
// part of the table: its id is computed for the height the child executes the input at when it
// starts from the first input (five warm-up blocks, then two blocks per input); after a restart
// behind a crash the follow-ups meet "no such conversation" instead.
func (g *Gen) bidCrashTable(first int) []HostileInput {
	var out []HostileInput
	add := func(label string, t GenTx) { out = append(out, HostileInput{label, t.Bytes}) }
	a := g.acct()
	o := g.otherAcct(a)
	far := g.W.GenesisTime.Unix() + 100000000
	create := func(t bid_data.BidAssetType, name string, am action.Amount) *bid_action.CreateBid {
		return &bid_action.CreateBid{AssetOwner: o.Addr, AssetName: name, AssetType: t, Bidder: a.Addr, Amount: am, Deadline: far}
	}
	heightOf := func() int64 { return 6 + 2*int64(first+len(out)) }
	// whole conversations on the example asset, ended by hostile decisions and amounts
	conv := func(name string) bid_data.BidConvId {
		id := bidConvID(o.Addr, name, a.Addr, heightOf())
		add("BID_CREATE example-asset "+name, g.mk("BID_CREATE", "crash-table", create(bid_data.BidAssetExample, name, OLT(10)), a))
		return id
	}
	for _, d := range []int{0, -1, 3, 255, -9223372036854775808} {
		id := conv("ex-owner-decision-" + strconv.Itoa(d))
		add("BID_OWNER_DECISION decision "+strconv.Itoa(d), g.mk("BID_OWNER_DECISION", "crash-table", &bid_action.OwnerDecision{BidConvId: id, Owner: o.Addr, Decision: bid_data.BidDecision(d)}, o))
		add("BID_BIDDER_DECISION no-counter-offer decision "+strconv.Itoa(d), g.mk("BID_BIDDER_DECISION", "crash-table", &bid_action.BidderDecision{BidConvId: id, Bidder: a.Addr, Decision: bid_data.BidDecision(d)}, a))
		add("BID_CONTER_OFFER on example-asset", g.mk("BID_CONTER_OFFER", "crash-table", &bid_action.CounterOffer{BidConvId: id, AssetOwner: o.Addr, Amount: OLT(20)}, o))
		add("BID_BIDDER_DECISION decision "+strconv.Itoa(d), g.mk("BID_BIDDER_DECISION", "crash-table", &bid_action.BidderDecision{BidConvId: id, Bidder: a.Addr, Decision: bid_data.BidDecision(d)}, a))
		add("BID_CANCEL after counter offer", g.mk("BID_CANCEL", "crash-table", &bid_action.CancelBid{BidConvId: id, Bidder: a.Addr}, a))
		add("BID_CANCEL twice", g.mk("BID_CANCEL", "crash-table", &bid_action.CancelBid{BidConvId: id, Bidder: a.Addr}, a))
		add("BID_EXPIRE after cancel", g.mk("BID_EXPIRE", "crash-table", &bid_action.ExpireBid{BidConvId: id, ValidatorAddress: a.Addr}, a))
	}
	id := conv("ex-amounts")
	for _, n := range []*big.Int{big.NewInt(-1), big.NewInt(0), new(big.Int).Lsh(big.NewInt(1), 300)} {
		add("BID_CONTER_OFFER amount "+short(n.String()), g.mk("BID_CONTER_OFFER", "crash-table", &bid_action.CounterOffer{BidConvId: id, AssetOwner: o.Addr, Amount: amtOf("OLT", n)}, o))
	}
	add("BID_BIDDER_DECISION accept 2^300", g.mk("BID_BIDDER_DECISION", "crash-table", &bid_action.BidderDecision{BidConvId: id, Bidder: a.Addr, Decision: bid_data.AcceptBid}, a))
	add("BID_OFFER negative below the counter offer", g.mk("BID_OFFER", "crash-table", &bid_action.CreateBid{BidConvId: id, Bidder: a.Addr, Amount: amtOf("OLT", big.NewInt(-7))}, a))
	add("BID_OWNER_DECISION accept negative", g.mk("BID_OWNER_DECISION", "crash-table", &bid_action.OwnerDecision{BidConvId: id, Owner: o.Addr, Decision: bid_data.AcceptBid}, o))
	// asset types
	for _, t := range []int{99, 0, -1, 0xEE, 0x23, 1 << 40} {
		add("BID_CREATE asset-type "+strconv.Itoa(t), g.mk("BID_CREATE", "crash-table", create(bid_data.BidAssetType(t), "d0.ol", OLT(1)), a))
	}
	add("BID_CREATE example-asset empty-name", g.mk("BID_CREATE", "crash-table", create(bid_data.BidAssetExample, "", OLT(1)), a))
	for _, name := range []string{"", "ol", ".ol", "a..ol", "s0.d0.ol", strings.Repeat("a", 3000) + ".ol", "\u0000.ol"} {
		add("BID_CREATE ons-name "+short(strconv.Quote(name)), g.mk("BID_CREATE", "crash-table", create(bid_data.BidAssetOns, name, OLT(1)), a))
	}
	// amounts and currencies
	for _, am := range []struct {
		n string
		a action.Amount
	}{{"unknown-currency", action.Amount{Currency: "XYZ", Value: OLT(1).Value}}, {"empty-currency", action.Amount{Currency: "", Value: OLT(1).Value}},
		{"other-currency", action.Amount{Currency: "VT", Value: OLT(1).Value}}, {"negative", amtOf("OLT", big.NewInt(-5))}, {"zero", amtOf("OLT", big.NewInt(0))},
		{"huge", amtOf("OLT", new(big.Int).Lsh(big.NewInt(1), 300))}} {
		add("BID_CREATE example-asset amount "+am.n, g.mk("BID_CREATE", "crash-table", create(bid_data.BidAssetExample, "ex-"+am.n, am.a), a))
		add("BID_CONTER_OFFER no-conversation amount "+am.n, g.mk("BID_CONTER_OFFER", "crash-table", &bid_action.CounterOffer{BidConvId: bidConvID(o.Addr, "x", a.Addr, 1), AssetOwner: o.Addr, Amount: am.a}, o))
	}
	// deadlines
	for _, dl := range []int64{0, -1, -9223372036854775808, 9223372036854775807, 253402300800, 1 << 55} {
		c := create(bid_data.BidAssetExample, "ex-deadline-"+strconv.FormatInt(dl, 10), OLT(1))
		c.Deadline = dl
		add("BID_CREATE example-asset deadline "+strconv.FormatInt(dl, 10), g.mk("BID_CREATE", "crash-table", c, a))
	}
	// addresses
	for _, ad := range []struct {
		n string
		a keys.Address
	}{{"nil", nil}, {"empty", keys.Address{}}, {"short", keys.Address{1, 2, 3}}, {"long", keys.Address(make([]byte, 33))}} {
		c := create(bid_data.BidAssetExample, "ex-owner-"+ad.n, OLT(1))
		c.AssetOwner = ad.a
		add("BID_CREATE owner-address "+ad.n, g.mk("BID_CREATE", "crash-table", c, a))
		c = create(bid_data.BidAssetExample, "ex-bidder-"+ad.n, OLT(1))
		c.Bidder = ad.a
		add("BID_CREATE bidder-address "+ad.n, g.mk("BID_CREATE", "crash-table", c, a))
		// with a conversation id the address checks of BID_CREATE are skipped
		add("BID_OFFER bidder-address "+ad.n, g.mk("BID_OFFER", "crash-table", &bid_action.CreateBid{BidConvId: bidConvID(o.Addr, "x", a.Addr, 1), Bidder: ad.a, Amount: OLT(1)}, a))
		add("BID_CANCEL bidder-address "+ad.n, g.mk("BID_CANCEL", "crash-table", &bid_action.CancelBid{BidConvId: bidConvID(o.Addr, "x", a.Addr, 1), Bidder: ad.a}, a))
		add("BID_EXPIRE validator-address "+ad.n, g.mk("BID_EXPIRE", "crash-table", &bid_action.ExpireBid{BidConvId: bidConvID(o.Addr, "x", a.Addr, 1), ValidatorAddress: ad.a}, a))
		add("BID_OWNER_DECISION owner-address "+ad.n, g.mk("BID_OWNER_DECISION", "crash-table", &bid_action.OwnerDecision{BidConvId: bidConvID(o.Addr, "x", a.Addr, 1), Owner: ad.a, Decision: bid_data.AcceptBid}, a))
	}
	// conversation ids of every kind but the right one
	for _, id := range []string{"", "x", strings.Repeat("0", 63), strings.Repeat("0", 65), strings.Repeat("z", 64), strings.Repeat("_", 64),
		strings.Repeat("\u0000", 64), "ACTIVE_" + strings.Repeat("0", 57), strings.Repeat("é", 32), strings.Repeat("f", 5000)} {
		cid := bid_data.BidConvId(id)
		l := short(strconv.Quote(id))
		add("BID_OFFER id "+l, g.mk("BID_OFFER", "crash-table", &bid_action.CreateBid{BidConvId: cid, Bidder: a.Addr, Amount: OLT(1)}, a))
		add("BID_CONTER_OFFER id "+l, g.mk("BID_CONTER_OFFER", "crash-table", &bid_action.CounterOffer{BidConvId: cid, AssetOwner: o.Addr, Amount: OLT(2)}, o))
		add("BID_CANCEL id "+l, g.mk("BID_CANCEL", "crash-table", &bid_action.CancelBid{BidConvId: cid, Bidder: a.Addr}, a))
		add("BID_BIDDER_DECISION id "+l, g.mk("BID_BIDDER_DECISION", "crash-table", &bid_action.BidderDecision{BidConvId: cid, Bidder: a.Addr, Decision: bid_data.AcceptBid}, a))
		add("BID_OWNER_DECISION id "+l, g.mk("BID_OWNER_DECISION", "crash-table", &bid_action.OwnerDecision{BidConvId: cid, Owner: o.Addr, Decision: bid_data.RejectBid}, o))
		add("BID_EXPIRE id "+l, g.mk("BID_EXPIRE", "crash-table", &bid_action.ExpireBid{BidConvId: cid, ValidatorAddress: a.Addr}, a))
	}
	// payloads whose JSON leaves parts out (amount null, no amount at all, null everywhere)
	rawMsg := func(kind string, typ action.Type, data string, signer *Acct) {
		raw := action.RawTx{Type: typ, Data: []byte(data), Fee: DefaultFee(), Memo: g.nextMemo()}
		out = append(out, HostileInput{kind + " payload " + short(data), Sign(raw, signer)})
	}
	aj, _ := json.Marshal(a.Addr)
	oj, _ := json.Marshal(o.Addr)
	for _, p := range []string{
		`{"assetOwner":` + string(oj) + `,"assetName":"n","assetType":34,"bidder":` + string(aj) + `,"amount":null,"deadline":99999999999}`,
		`{"assetOwner":` + string(oj) + `,"assetName":"n","assetType":34,"bidder":` + string(aj) + `,"deadline":99999999999}`,
		`{"assetOwner":` + string(oj) + `,"assetName":"n","assetType":34,"bidder":` + string(aj) + `,"amount":{"currency":"OLT"},"deadline":99999999999}`,
		`{"assetOwner":` + string(oj) + `,"assetName":"n","assetType":34,"bidder":` + string(aj) + `,"amount":{"currency":"OLT","value":null},"deadline":99999999999}`,
		`{"assetOwner":` + string(oj) + `,"assetName":"n","assetType":34,"bidder":` + string(aj) + `,"amount":{"currency":"OLT","value":"0x10"},"deadline":99999999999}`,
		`{"assetOwner":null,"assetName":null,"assetType":null,"bidder":` + string(aj) + `,"amount":{"currency":"OLT","value":"1"},"deadline":null}`,
		`{"bidder":` + string(aj) + `}`, `{}`, `null`, `[]`, `{"bidConvId":7,"bidder":` + string(aj) + `}`,
	} {
		rawMsg("BID_CREATE", bid_action.BID_CREATE, p, a)
	}
	for _, typ := range []action.Type{bid_action.BID_CONTER_OFFER, bid_action.BID_CANCEL, bid_action.BID_BIDDER_DECISION, bid_action.BID_EXPIRE, bid_action.BID_OWNER_DECISION} {
		for _, p := range []string{`{}`, `null`, `{"bidConvId":null}`} {
			rawMsg(typ.String(), typ, p, a)
		}
	}
	return out
}

// addBidEscrow adds the OLT locked in active bid offers to the ledger: a record
// extBidOffer_ACTIVE_<conversation> whose offer is the bidder's (offerType 1) with amount status
// "locked" (1) holds the amount MinusFromAddress took from the bidder, until a reject / cancel /
// expiry gives it back or a deal pays it to the owner. The bidder is read from the conversation
// record extBidConvActive<conversation>. Counter offers hold nothing; inactive offers are history.
func (l *Ledger) addBidEscrow(m map[string]string, k, v string) {
	const pre = "extBidOffer_ACTIVE_"
	var off struct {
		BidConvId    string `json:"bidConvId"`
		OfferType    int    `json:"offerType"`
		AmountStatus int    `json:"amountStatus"`
		Amount       struct {
			Currency string `json:"currency"`
			Value    string `json:"value"`
		} `json:"amount"`
	}
	if err := json.Unmarshal([]byte(v), &off); err != nil {
		l.Undecoded = append(l.Undecoded, k)
		return
	}
	n, ok := new(big.Int).SetString(off.Amount.Value, 10)
	if !ok {
		l.Undecoded = append(l.Undecoded, k)
		return
	}
	if off.OfferType != int(bid_data.TypeBidOffer) || off.AmountStatus != int(bid_data.BidAmountLocked) {
		// a counter offer: an amount that is named, not held; still never below zero
		if n.Sign() < 0 {
			l.Negative = append(l.Negative, strconv.Quote(k)+"="+n.String())
		}
		return
	}
	owner := ""
	if c := bidConvOf(m, "extBidConvActive", k[len(pre):]); c != nil && len(c.Bidder) > 0 {
		owner = c.Bidder.String()
	}
	cur := off.Amount.Currency
	if cur == "" {
		cur = "OLT"
	}
	l.add(owner, cur, n, k)
}

// bidConvOf reads a conversation record (the store's own serializer: these records are not JSON).
func bidConvOf(m map[string]string, prefix, id string) *bid_data.BidConv {
	v, ok := m[prefix+id]
	if !ok {
		return nil
	}
	c := &bid_data.BidConv{}
	if serialize.GetSerializer(serialize.LOCAL).Deserialize([]byte(v), c) != nil {
		return nil
	}
	return c
}

// bidDealDebits: what the holdings of a bidder may fall by in a block it signed nothing in. The
// amount locked in its offer is paid to the owner when the owner accepts: the bidder signed the
// offer, the owner the acceptance. Such a deal shows in the committed tree as a conversation that
// is new in the store of the succeeded ones together with a new inactive record of the bidder's
// offer (type 1) whose amount status is "transferred" (4).
func bidDealDebits(prev, cur map[string]string) map[string]*big.Int {
	out := map[string]*big.Int{}
	const pre = "extBidOffer_INACTIVE_"
	for k, v := range cur {
		if !strings.HasPrefix(k, pre) {
			continue
		}
		// the key of an inactive offer is conversation + offer type + the header time the offer was
		// made at: two offers of one type made in one block share it, and the later one overwrites the
		// record of the earlier. A record whose VALUE changed is a new inactive offer too (seed 2 of
		// the sweep after the generator change: offer 31, counter offer, offer 40 in one block, the 40
		// accepted in the next — the allowance was missed and the payout reported as unauthorised)
		if pv, was := prev[k]; was && pv == v {
			continue
		}
		var off struct {
			BidConvId    string `json:"bidConvId"`
			OfferType    int    `json:"offerType"`
			AmountStatus int    `json:"amountStatus"`
			Amount       struct {
				Value string `json:"value"`
			} `json:"amount"`
		}
		if json.Unmarshal([]byte(v), &off) != nil || off.OfferType != int(bid_data.TypeBidOffer) || off.AmountStatus != int(bid_data.BidAmountTransferred) {
			continue
		}
		if _, was := prev["extBidConvSucceed"+off.BidConvId]; was {
			continue
		}
		c := bidConvOf(cur, "extBidConvSucceed", off.BidConvId)
		n, ok := new(big.Int).SetString(off.Amount.Value, 10)
		if c == nil || !ok || n.Sign() <= 0 {
			continue
		}
		b := c.Bidder.String()
		if out[b] == nil {
			out[b] = new(big.Int)
		}
		out[b].Add(out[b], n)
	}
	return out
}

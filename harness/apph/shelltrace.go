package apph

import (
	"bytes"
	"crypto/sha256"
	"encoding/hex"
	"fmt"
	"strings"

	"github.com/tendermint/iavl"
	tmdb "github.com/tendermint/tm-db"

	"github.com/Oneledger/protocol/storage"

	"olverif/harness/kv"
	"olverif/harness/rng"
)

type kvp struct{ k, v []byte }

func pendingOf(st *storage.State) []kvp {
	var out []kvp
	st.GetGasStore().GetIterable().Iterate(func(k, v []byte) bool {
		out = append(out, kvp{append([]byte{}, k...), append([]byte{}, v...)})
		return false
	})
	return out
}

func fnvStr(h uint64, s string) uint64 {
	for _, c := range []byte(s) {
		h = (h ^ uint64(c)) * 1099511628211
	}
	return h
}

func hexv(b []byte) string {
	if len(b) == 0 {
		return "-"
	}
	return hex.EncodeToString(b)
}

func digest(c []kvp) uint64 {
	h := uint64(14695981039346656037)
	for _, p := range c {
		v := hex.EncodeToString(p.v)
		h = fnvStr(fnvStr(fnvStr(fnvStr(h, hex.EncodeToString(p.k)), "="), v), ",")
	}
	return h
}

// delta returns the writes that turn cache `old` into cache `cur`: changed keys in their cache
// position, then new keys, which is what replaying a session into the block cache produces.
func delta(old, cur []kvp) []kvp {
	m := map[string][]byte{}
	for _, p := range old {
		m[string(p.k)] = p.v
	}
	var out []kvp
	for _, p := range cur {
		if v, ok := m[string(p.k)]; !ok || !bytes.Equal(v, p.v) {
			out = append(out, p)
		}
	}
	return out
}

func kvList(c []kvp) string {
	if len(c) == 0 {
		return "-"
	}
	var sb strings.Builder
	for i, p := range c {
		if i > 0 {
			sb.WriteByte(',')
		}
		sb.WriteString(hex.EncodeToString(p.k))
		sb.WriteByte('=')
		sb.WriteString(hexv(p.v))
	}
	return sb.String()
}

func txID(tx []byte) string {
	h := sha256.Sum256(tx)
	return hex.EncodeToString(h[:8])
}

// RunShellTrace ties the shell model to the real controller: histories with CheckTx calls and
// restarts are executed on one replica while every call is recorded with the writes it was
// observed to perform; the Lean shell model re-runs the same calls with handlers abstracted to
// those writes and must predict every block-cache digest, every result, every commit (its write
// log replayed into a fresh IAVL tree must give the real application hash) and Info after restarts.
func RunShellTrace(driver string, seed uint64, histories, blocks, maxTxs int) (*Result, error) {
	res := NewResult("shell", seed, "case = one generated block history on one replica with CheckTx calls and restarts mixed in; every ABCI call is recorded with the ordered writes it was observed to leave in the block cache and re-run by the Lean shell model (handlers abstracted to 'perform these writes, then succeed/fail'); compared: block-cache digest after every call, results, index short-circuits, commit versions and write logs (replayed into IAVL against the real app hash), Info after restart; non-trivial = at least one failed tx after partial writes or one resubmission, and one successful tx; distinct = SHA-256 of the trace")
	root := rng.New(seed*31 + 5)
	seen := map[[32]byte]bool{}
	for c := 0; c < histories; c++ {
		r := root.Fork()
		lines, impl, nontriv, err := oneShellTrace(seed, c, r, blocks, maxTxs)
		if err != nil {
			return nil, err
		}
		res.Evaluations++
		h := sha256.Sum256([]byte(strings.Join(lines, "\n")))
		if !seen[h] {
			seen[h] = true
			if nontriv {
				res.DistinctNontrivial++
			}
		}
		model, err := kv.RunDriver(driver, "shell", lines)
		if err != nil {
			return nil, err
		}
		shadow, _ := iavl.NewMutableTree(tmdb.NewDB("shadow", tmdb.MemDBBackend, ""), 100)
		for i := range lines {
			res.Distribution[strings.Fields(lines[i] + " x")[0]]++
			a, b := impl[i], model[i]
			if strings.HasPrefix(a, "commit ") && strings.HasPrefix(b, "commit ") {
				pa, pb := strings.SplitN(a, " ", 3), strings.SplitN(b, " ", 3)
				hh, err := kv.ReplayLog(shadow, strings.TrimPrefix(pb[2], "log="))
				res.Counters["hash_replays"]++
				if pa[1] != pb[1] || err != nil || "hash="+hex.EncodeToString(hh) != pa[2] {
					res.DisagreementCount++
					if len(res.Disagreements) < 5 {
						res.Disagreements = append(res.Disagreements, Disagreement{"shell-commit", c, short(lines[i]), a, short(b) + " => " + hex.EncodeToString(hh), shortAll(lines[:i+1])})
					}
					break
				}
				continue
			}
			if a != b {
				res.DisagreementCount++
				if len(res.Disagreements) < 5 {
					res.Disagreements = append(res.Disagreements, Disagreement{"shell-output", c, short(lines[i]), a, b, shortAll(lines[:i+1])})
				}
				break
			}
		}
		if len(res.Samples) < 2 && nontriv {
			res.Samples = append(res.Samples, shortAll(lines[:min(len(lines), 30)]))
		}
		TruncateAppLog()
	}
	return res, nil
}

func min(a, b int) int {
	if a < b {
		return a
	}
	return b
}

func short(s string) string {
	if len(s) > 160 {
		return s[:160] + "…"
	}
	return s
}

func shortAll(ls []string) []string {
	out := make([]string, len(ls))
	for i, l := range ls {
		out[i] = short(l)
	}
	return out
}

func oneShellTrace(seed uint64, c int, r *rng.R, blocks, maxTxs int) (lines, impl []string, nontriv bool, err error) {
	p := paramsFor(r, seed*1000+uint64(c))
	w := NewWorld(p)
	A, err := NewReplica(w, Identity{Name: "A", Val: w.Vals[0]})
	if err != nil {
		return nil, nil, false, err
	}
	defer A.Close()
	emit := func(l, i string) { lines = append(lines, l); impl = append(impl, i) }
	emit(fmt.Sprintf("# case %d", c), fmt.Sprintf("# case %d", c))
	emit("new 10 100 10 9223372036854775807", "ok")
	A.InitChain()
	gc := pendingOf(A.App.VerifDeliverState())
	emit("write "+kvList(gc), fmt.Sprintf("cache %d", digest(gc)))
	sim := NewSim(w)
	g := NewGen(w, r.Fork())
	wt := AllWeights()
	var old [][]byte
	partialFail, resub, okTx := 0, 0, 0
	check := func() {
		k := r.Intn(3)
		for i := 0; i < k; i++ {
			var tx []byte
			if len(old) > 0 && r.Intn(3) == 0 {
				tx = old[r.Intn(len(old))]
			} else {
				tx = g.Next(wt).Bytes
			}
			before := pendingOf(A.App.VerifCheckState())
			cr := A.CheckTx(tx)
			after := pendingOf(A.App.VerifCheckState())
			ok := 0
			if cr.Code == 0 {
				ok = 1
			}
			emit(fmt.Sprintf("check %s %d %s", txID(tx), ok, kvList(delta(before, after))),
				fmt.Sprintf("checked %d cache %d ccache %d", ok, digest(pendingOf(A.App.VerifDeliverState())), digest(after)))
		}
	}
	for bi := 0; bi < blocks; bi++ {
		g.Height = sim.Height + 1
		var txs [][]byte
		n := r.Intn(maxTxs + 1)
		for i := 0; i < n; i++ {
			txs = append(txs, g.Next(wt).Bytes)
		}
		if len(old) > 0 && r.Intn(4) == 0 {
			txs = append(txs, old[r.Intn(len(old))])
			resub++
		}
		b := sim.NextBlock(txs, genBlockOpts(r, p.NVals))
		restartAt := -1
		if r.Intn(4) == 0 {
			restartAt = r.Intn(len(txs) + 2)
		}
	again:
		A.SaveBlock(b)
		check()
		A.BeginBlock(b)
		bc := pendingOf(A.App.VerifDeliverState())
		emit("begin "+kvList(bc), fmt.Sprintf("cache %d", digest(bc)))
		if restartAt == 0 {
			if err := A.Restart(); err != nil {
				return nil, nil, false, err
			}
			emit("crash", "ok")
			info := A.Info()
			if info.LastBlockHeight == 0 {
				A.InitChain()
				gc := pendingOf(A.App.VerifDeliverState())
				emit("write "+kvList(gc), fmt.Sprintf("cache %d", digest(gc)))
			}
			emit("info", fmt.Sprintf("info %d", info.LastBlockHeight))
			restartAt = -1
			goto again
		}
		br := &BlockResult{Height: b.Height}
		for i, tx := range txs {
			before := pendingOf(A.App.VerifDeliverState())
			tr := A.DeliverTx(tx)
			after := pendingOf(A.App.VerifDeliverState())
			br.Txs = append(br.Txs, tr)
			ok := 0
			if tr.Code == 0 {
				ok = 1
				okTx++
			} else if len(tr.Log) > 0 {
				partialFail++
			}
			emit(fmt.Sprintf("tx %s %d %d %s", txID(tx), ok, tr.GasUsed, kvList(delta(before, after))),
				fmt.Sprintf("res %d %d cache %d", ok, tr.GasUsed, digest(after)))
			if r.Intn(3) == 0 {
				check()
			}
			if restartAt == i+1 {
				if err := A.Restart(); err != nil {
					return nil, nil, false, err
				}
				emit("crash", "ok")
				info := A.Info()
				if info.LastBlockHeight == 0 {
					A.InitChain()
					gc := pendingOf(A.App.VerifDeliverState())
					emit("write "+kvList(gc), fmt.Sprintf("cache %d", digest(gc)))
				}
				emit("info", fmt.Sprintf("info %d", info.LastBlockHeight))
				restartAt = -1
				goto again
			}
		}
		before := pendingOf(A.App.VerifDeliverState())
		eb := A.EndBlock(b.Height)
		after := pendingOf(A.App.VerifDeliverState())
		br.Updates = eb.ValidatorUpdates
		emit("end "+kvList(delta(before, after)), fmt.Sprintf("cache %d", digest(after)))
		check()
		br.AppHash = A.Commit()
		emit("commit", fmt.Sprintf("commit %d hash=%s", b.Height, hex.EncodeToString(br.AppHash)))
		A.IndexBlock(b, br)
		check()
		if A.Crashed {
			return lines, impl, false, nil
		}
		old = append(old, txs...)
		sim.Absorb(b, br)
	}
	return lines, impl, (partialFail > 0 || resub > 0) && okTx > 0, nil
}

package apph

// C11 property monitors: the property's own predicates evaluated on the decoded state of the real
// application (no reference to the Lean model).  Signatures:
//
//   locked-total-ne-sum-of-delegations      st__t_<v>   != sum_d st__e_<v>_<d>
//   effective-ne-sum-of-delegations         st__d_e_<d> != sum_v st__e_<v>_<d>
//   negative-stake-record                   any of tot / vd / eff / bnd / maturing amount < 0
//   validator-record-missing-with-locked-stake   committed: no v_ record but st__t_<v> != 0
//   validator-stake-ne-locked-total         committed: v_.staking - (slash postponed to next block) != st__t_<v>
//   slash-not-applied-to-validator-record   BeginBlock dropped the postponed unstake of a slashed validator
//   operation-on-frozen-validator-succeeded STAKE/UNSTAKE/WITHDRAW naming a frozen validator returned code 0
//   withdraw-by-stake-account-of-frozen-validator-succeeded   WITHDRAW by the stake address of a frozen validator's record, whatever validator it names
//   slash-charged-previous-stake-address    a verdict in the block in which the stake address changed did not charge the current stake address
//   unstake-with-pending-allegation-succeeded   UNSTAKE returned code 0 while an allegation request against the validator exists
//                                           (also one opened earlier in the same block: d2f2af2)
//   bounded-credit-not-from-matured-unstake withdrawable amount grew at EndBlock h by more than the
//                                           unstakes made at h - maturityThen (early or double unlock)
//   matured-unstake-not-credited            ... or by less
//   bounded-changed-outside-lifecycle       withdrawable amount changed in any other step than
//                                           EndBlock (credit) / the delegator's own successful WITHDRAW (debit of exactly the amount)
//   matured-entries-not-reset               st__m_<h> still holds amounts after EndBlock h
//   stake-records-delta-wrong               a successful STAKE/UNSTAKE did not move exactly the amount in all three records
//   stake-debit-ne-recorded-amount / withdraw-credit-ne-recorded-amount   balance side != record side * 10^18
//   stake-conservation-broken               eff + maturing + bounded + withdrawn + slashed != staked (per delegator)
//   withdrawn-exceeds-staked-minus-penalties  balance side, per delegator
//   stake-records-changed-by-<step>         a step that must not touch the stake records did
//   failed-tx-changed-state                 a failed staking transaction left a trace
//
// When the history already contains a *successful* transaction whose amount is outside [0, 2^63)
// every hit is reported under the single signature int64-wrap-amount-admitted (the original
// predicate is kept in the detail): Amount.ToCoinWithBase truncates with Int64() on the balance
// side while the records use the full value (suspect S4).

import (
	"fmt"
	"math/big"
	"os"
	"sort"
)

func (s *sview) delegatorsOf() map[int]bool {
	m := map[int]bool{}
	for k := range s.Eff {
		m[k] = true
	}
	for k := range s.Bnd {
		m[k] = true
	}
	for k := range s.VD {
		m[k[1]] = true
	}
	for _, l := range s.Mat {
		for _, e := range l {
			m[e.Addr] = true
		}
	}
	return m
}

func (s *sview) maturingOf(d int) *big.Int {
	t := new(big.Int)
	for _, l := range s.Mat {
		for _, e := range l {
			if e.Addr == d {
				t.Add(t, e.Amt)
			}
		}
	}
	return t
}

// monitorSums: the two sum invariants and non-negativity, on any observed state.
func (e *stakeExec) monitorSums(where string, s *sview) {
	sv := map[int]*big.Int{}
	sd := map[int]*big.Int{}
	for k, a := range s.VD {
		addAmt(sv, k[0], a)
		addAmt(sd, k[1], a)
		if a.Sign() < 0 {
			e.hit("negative-stake-record", fmt.Sprintf("%s: delegation of %d with validator %d is %s", where, k[1], k[0], a))
			return
		}
	}
	for _, m := range []map[int]*big.Int{s.Tot, sv} {
		for v := range m {
			if bz(s.Tot, v).Cmp(bz(sv, v)) != 0 {
				e.hit("locked-total-ne-sum-of-delegations", fmt.Sprintf("%s: validator %d locked total %s, sum of its delegators' amounts %s", where, v, bz(s.Tot, v), bz(sv, v)))
				return
			}
		}
	}
	for _, m := range []map[int]*big.Int{s.Eff, sd} {
		for d := range m {
			if bz(s.Eff, d).Cmp(bz(sd, d)) != 0 {
				e.hit("effective-ne-sum-of-delegations", fmt.Sprintf("%s: delegator %d effective %s, sum over validators %s", where, d, bz(s.Eff, d), bz(sd, d)))
				return
			}
		}
	}
	for _, m := range []map[int]*big.Int{s.Tot, s.Eff, s.Bnd} {
		for k, a := range m {
			if a.Sign() < 0 {
				e.hit("negative-stake-record", fmt.Sprintf("%s: record of %d is %s", where, k, a))
				return
			}
		}
	}
	for h, l := range s.Mat {
		for _, x := range l {
			if x.Amt.Sign() < 0 {
				e.hit("negative-stake-record", fmt.Sprintf("%s: maturing amount of %d at height %d is %s", where, x.Addr, h, x.Amt))
				return
			}
		}
	}
}

// monitorConservation: per delegator, record side and balance side.
func (e *stakeExec) monitorConservation(where string, s *sview) {
	ds := s.delegatorsOf()
	for d := range e.stakedRec {
		ds[d] = true
	}
	for d := range e.withdRec {
		ds[d] = true
	}
	var order []int
	for d := range ds {
		order = append(order, d)
	}
	sort.Ints(order)
	for _, d := range order {
		lhs := new(big.Int).Add(bz(s.Eff, d), s.maturingOf(d))
		lhs.Add(lhs, bz(s.Bnd, d))
		lhs.Add(lhs, bz(e.withdRec, d))
		lhs.Add(lhs, bz(e.penalRec, d))
		if lhs.Cmp(bz(e.stakedRec, d)) != 0 {
			e.hit("stake-conservation-broken", fmt.Sprintf("%s: delegator %d: effective %s + maturing %s + withdrawable %s + withdrawn %s + slashed %s != staked %s",
				where, d, bz(s.Eff, d), s.maturingOf(d), bz(s.Bnd, d), bz(e.withdRec, d), bz(e.penalRec, d), bz(e.stakedRec, d)))
			return
		}
		lim := new(big.Int).Sub(bz(e.paidIn, d), new(big.Int).Mul(bz(e.penalRec, d), ten18))
		if bz(e.paidOut, d).Cmp(lim) > 0 {
			e.hit("withdrawn-exceeds-staked-minus-penalties", fmt.Sprintf("%s: delegator %d was paid out %s, paid in %s, slashed %s (whole tokens)", where, d, bz(e.paidOut, d), bz(e.paidIn, d), bz(e.penalRec, d)))
			return
		}
	}
}

func sameAmt(a, b map[int]*big.Int) (int, bool) {
	for _, m := range []map[int]*big.Int{a, b} {
		for k := range m {
			if bz(a, k).Cmp(bz(b, k)) != 0 {
				return k, false
			}
		}
	}
	return 0, true
}

// stakeRecordsEqual compares tot/vd/eff/bnd/mat of two views.
func stakeRecordsEqual(a, b *sview) string {
	if k, ok := sameAmt(a.Tot, b.Tot); !ok {
		return fmt.Sprintf("locked total of %d: %s -> %s", k, bz(a.Tot, k), bz(b.Tot, k))
	}
	if k, ok := sameAmt(a.Eff, b.Eff); !ok {
		return fmt.Sprintf("effective of %d: %s -> %s", k, bz(a.Eff, k), bz(b.Eff, k))
	}
	if k, ok := sameAmt(a.Bnd, b.Bnd); !ok {
		return fmt.Sprintf("withdrawable of %d: %s -> %s", k, bz(a.Bnd, k), bz(b.Bnd, k))
	}
	if secVD(a.VD) != secVD(b.VD) {
		return fmt.Sprintf("delegations: %s -> %s", secVD(a.VD), secVD(b.VD))
	}
	if secMat(a.Mat) != secMat(b.Mat) {
		return fmt.Sprintf("maturing: %s -> %s", secMat(a.Mat), secMat(b.Mat))
	}
	return ""
}

// monitorHook: BeginBlock and the evidence transactions must not touch the stake records.
func (e *stakeExec) monitorHook(name string, h int64, pre, post *sview) {
	if e.monOff {
		return
	}
	if d := stakeRecordsEqual(pre, post); d != "" {
		e.hit("stake-records-changed-by-"+name, fmt.Sprintf("height %d: %s", h, d))
		return
	}
	if name == "BeginBlock" {
		// the slash decided at the end of block h-1 must now reach the validator record
		for v, p := range pre.Delayed[h-1] {
			if p.Sign() == 0 {
				continue
			}
			a, b := pre.Vals[v], post.Vals[v]
			if a != nil && b != nil && a.Staking.Cmp(b.Staking) == 0 {
				e.hit("slash-not-applied-to-validator-record", fmt.Sprintf("height %d: validator %d was slashed by %s at the end of block %d (locked total now %s) but its record keeps staking %s (purge height %d)",
					h, v, p, h-1, bz(post.Tot, v), b.Staking, post.Purge[v]))
				return
			}
		}
	}
}

// dropProvenanceOfDeleted: once the record of a validator is gone (no stake left, purged), what was
// unstaked from it belongs to an incarnation that no longer exists; a validator created later
// under the same address is another one, with its own stake address
func (e *stakeExec) dropProvenanceOfDeleted(s *sview) {
	for _, m := range e.unstakedFrom {
		for vv := range m {
			if s.Vals[vv] == nil {
				delete(m, vv)
			}
		}
	}
}

func (e *stakeExec) monitorTx(c stakeCmd, h int64, v, d int, tr TxResult, fee *big.Int, pre, post *sview) {
	where := fmt.Sprintf("height %d %s", h, c)
	e.dropProvenanceOfDeleted(pre)
	if tr.Code != 0 {
		if diff := stakeRecordsEqual(pre, post); diff != "" || secVals("val", pre.Vals) != secVals("val", post.Vals) || bz(pre.Bal, d).Cmp(bz(post.Bal, d)) != 0 {
			e.hit("failed-tx-changed-state", where+": "+diff)
			return
		}
		switch stakeClassify(tr) {
		case "frozen":
			e.nFrozenRej++
			e.nGuarded++
		case "insufficient", "inuse", "purge", "reqexists", "balance", "novalidator":
			e.nGuarded++
		}
		return
	}
	if !inInt64Range(c.Amt) {
		e.tainted = true
		e.Res.Counters["successful_tx_with_amount_outside_int64"]++
	}
	if pre.Frozen[v] {
		e.hit("operation-on-frozen-validator-succeeded", where)
		return
	}
	if c.Kind == "unstake" && pre.Req[v] {
		e.hit("unstake-with-pending-allegation-succeeded", where)
		return
	}
	// the withdrawable amount is kept per stake address: the stake account of a frozen validator
	// must not withdraw whatever validator the message names (df2e1ab)
	if c.Kind == "withdraw" {
		for vv, rec := range pre.Vals {
			if rec.SA == d && pre.Frozen[vv] {
				e.hit("withdraw-by-stake-account-of-frozen-validator-succeeded", fmt.Sprintf("%s: delegator %d is the stake address of validator %d, which is frozen (record enumerated by the store iteration: %v)", where, d, vv, pre.IterVals[vv]))
				return
			}
		}
	}
	// "nothing can be withdrawn ... while the validator is frozen", by provenance: what a delegator
	// has unstaked and not yet withdrawn is remembered per validator it was staked with; a
	// withdrawal larger than everything that came from validators that are not frozen now has
	// paid out stake of a frozen validator, whoever is that validator's stake address by now
	if c.Kind == "withdraw" && c.Amt.Sign() > 0 {
		if os.Getenv("OLH_DEBUG_STAKE") != "" {
			fmt.Fprintf(os.Stderr, "DEBUG %s d=%d frozen=%v unstakedFrom=%v\n", where, d, pre.Frozen, e.unstakedFrom[d])
		}
		free, frozenPart := new(big.Int), new(big.Int)
		var frozenVs []int
		for vv, a := range e.unstakedFrom[d] {
			if pre.Frozen[vv] {
				frozenPart.Add(frozenPart, a)
				frozenVs = append(frozenVs, vv)
			} else {
				free.Add(free, a)
			}
		}
		if !e.tainted && frozenPart.Sign() > 0 && c.Amt.Cmp(free) > 0 {
			sort.Ints(frozenVs)
			e.hit("withdrawn-stake-of-frozen-validator", fmt.Sprintf("%s: delegator %d withdrew %s; of what it has unstaked and not yet withdrawn only %s came from validators that are not frozen, %s from frozen validators %v", where, d, c.Amt, free, frozenPart, frozenVs))
			return
		}
		// pay the withdrawal out of the provenance record: unfrozen sources first
		left := new(big.Int).Set(c.Amt)
		for pass := 0; pass < 2 && left.Sign() > 0; pass++ {
			for _, vv := range sortedInts(e.unstakedFrom[d]) {
				if (pass == 0) == pre.Frozen[vv] {
					continue
				}
				a := e.unstakedFrom[d][vv]
				take := a
				if left.Cmp(a) < 0 {
					take = left
				}
				e.unstakedFrom[d][vv] = new(big.Int).Sub(a, take)
				left = new(big.Int).Sub(left, take)
			}
		}
	}
	if c.Kind == "unstake" && c.Amt.Sign() > 0 {
		if e.unstakedFrom[d] == nil {
			e.unstakedFrom[d] = map[int]*big.Int{}
		}
		addAmt(e.unstakedFrom[d], v, c.Amt)
	}
	bd := new(big.Int).Sub(bz(post.Bal, d), bz(pre.Bal, d))
	bd.Add(bd, fee)
	whole := new(big.Int).Mul(c.Amt, ten18)
	dT := new(big.Int).Sub(bz(post.Tot, v), bz(pre.Tot, v))
	dVD := new(big.Int).Sub(bzv(post.VD, v, d), bzv(pre.VD, v, d))
	dE := new(big.Int).Sub(bz(post.Eff, d), bz(pre.Eff, d))
	dB := new(big.Int).Sub(bz(post.Bnd, d), bz(pre.Bnd, d))
	neg := new(big.Int).Neg(c.Amt)
	expRec, expB := new(big.Int), new(big.Int)
	switch c.Kind {
	case "stake":
		expRec = c.Amt
		addAmt(e.stakedRec, d, c.Amt)
		addAmt(e.paidIn, d, new(big.Int).Neg(bd))
	case "unstake":
		expRec = neg
		e.credits[h+e.Maturity] = append(e.credits[h+e.Maturity], pendingCredit{d, new(big.Int).Set(c.Amt)})
	case "withdraw":
		expB = neg
		addAmt(e.withdRec, d, c.Amt)
		addAmt(e.paidOut, d, bd)
		e.nWithdrawOK++
	}
	if dT.Cmp(expRec) != 0 || dVD.Cmp(expRec) != 0 || dE.Cmp(expRec) != 0 {
		e.hit("stake-records-delta-wrong", fmt.Sprintf("%s: locked total %+d, delegation %+d, effective %+d, expected %s each", where, dT, dVD, dE, expRec))
		return
	}
	if dB.Cmp(expB) != 0 {
		e.hit("bounded-changed-outside-lifecycle", fmt.Sprintf("%s: withdrawable amount of %d changed by %s, expected %s", where, d, dB, expB))
		return
	}
	// nobody else's records move
	chk := &sview{Tot: cloneAmt(pre.Tot), VD: cloneVD(pre.VD), Eff: cloneAmt(pre.Eff), Bnd: cloneAmt(pre.Bnd), Mat: post.Mat}
	addAmt(chk.Tot, v, expRec)
	addAmtVD(chk.VD, v, d, expRec)
	addAmt(chk.Eff, d, expRec)
	addAmt(chk.Bnd, d, expB)
	if diff := stakeRecordsEqual(chk, post); diff != "" {
		e.hit("stake-records-delta-wrong", where+": beyond the named pair: "+diff)
		return
	}
	switch c.Kind {
	case "stake":
		if new(big.Int).Neg(bd).Cmp(whole) != 0 {
			e.hit("stake-debit-ne-recorded-amount", fmt.Sprintf("%s: balance debited %s, recorded stake %s x 10^18", where, new(big.Int).Neg(bd), c.Amt))
			return
		}
	case "unstake":
		if bd.Sign() != 0 {
			e.hit("bounded-changed-outside-lifecycle", fmt.Sprintf("%s: balance moved by %s at unstake", where, bd))
			return
		}
	case "withdraw":
		if bd.Cmp(whole) != 0 {
			e.hit("withdraw-credit-ne-recorded-amount", fmt.Sprintf("%s: balance credited %s, recorded withdrawal %s x 10^18", where, bd, c.Amt))
			return
		}
	}
	e.monitorSums(where, post)
	if !e.monOff {
		e.monitorConservation(where, post)
	}
}

func bzv(m map[[2]int]*big.Int, v, d int) *big.Int {
	if x, ok := m[[2]int{v, d}]; ok {
		return x
	}
	return new(big.Int)
}

func addAmtVD(m map[[2]int]*big.Int, v, d int, a *big.Int) {
	k := [2]int{v, d}
	if m[k] == nil {
		m[k] = new(big.Int)
	}
	m[k] = new(big.Int).Add(m[k], a)
}

func cloneAmt(m map[int]*big.Int) map[int]*big.Int {
	o := map[int]*big.Int{}
	for k, v := range m {
		o[k] = new(big.Int).Set(v)
	}
	return o
}

func cloneVD(m map[[2]int]*big.Int) map[[2]int]*big.Int {
	o := map[[2]int]*big.Int{}
	for k, v := range m {
		o[k] = new(big.Int).Set(v)
	}
	return o
}

func (e *stakeExec) monitorEnd(h int64, pre, post *sview, guilty []int) {
	defer e.dropProvenanceOfDeleted(post)
	where := fmt.Sprintf("EndBlock %d", h)
	// 0. root cause first: a validator record deleted in this EndBlock while stake is locked with
	// the validator (a verdict in the same EndBlock would then slash the locked total only and
	// break the sums as a consequence)
	for v := range pre.Vals {
		if post.Vals[v] == nil && bz(pre.Tot, v).Sign() != 0 {
			e.hit("validator-record-missing-with-locked-stake", fmt.Sprintf("%s deleted the record of validator %d while its delegators' locked total is %s", where, v, bz(pre.Tot, v)))
			return
		}
	}
	// root cause first: a verdict charges the stake address of the record of the previous block
	for _, g := range guilty {
		was, now := e.prev.Vals[g], pre.Vals[g]
		dTot := new(big.Int).Sub(bz(pre.Tot, g), bz(post.Tot, g))
		if was != nil && now != nil && was.SA != now.SA && dTot.Sign() > 0 {
			dVD := new(big.Int).Sub(bzv(pre.VD, g, now.SA), bzv(post.VD, g, now.SA))
			if dVD.Cmp(dTot) != 0 {
				e.hit("slash-charged-previous-stake-address", fmt.Sprintf("%s: validator %d was found guilty in the block in which its stake address changed from %d to %d; locked total %s -> %s, delegation of %d: %s -> %s", where, g, was.SA, now.SA, bz(pre.Tot, g), bz(post.Tot, g), now.SA, bzv(pre.VD, g, now.SA), bzv(post.VD, g, now.SA)))
				return
			}
		}
	}
	// 1. unlocks: exactly the unstakes that reach maturity now
	exp := map[int]*big.Int{}
	for _, c := range e.credits[h] {
		addAmt(exp, c.D, c.Amt)
	}
	delete(e.credits, h)
	ds := post.delegatorsOf()
	for d := range pre.delegatorsOf() {
		ds[d] = true
	}
	for d := range exp {
		ds[d] = true
	}
	var order []int
	for d := range ds {
		order = append(order, d)
	}
	sort.Ints(order)
	for _, d := range order {
		got := new(big.Int).Sub(bz(post.Bnd, d), bz(pre.Bnd, d))
		switch got.Cmp(bz(exp, d)) {
		case 1:
			e.hit("bounded-credit-not-from-matured-unstake", fmt.Sprintf("%s: withdrawable amount of delegator %d grew by %s, unstakes maturing now: %s", where, d, got, bz(exp, d)))
			return
		case -1:
			e.hit("matured-unstake-not-credited", fmt.Sprintf("%s: withdrawable amount of delegator %d grew by %s, unstakes maturing now: %s", where, d, got, bz(exp, d)))
			return
		}
		if got.Sign() > 0 {
			e.nUnlock++
		}
	}
	if len(post.Mat[h]) != 0 {
		e.hit("matured-entries-not-reset", fmt.Sprintf("%s: %s", where, secMat(post.Mat)))
		return
	}
	// 2. locked amounts move only by slashing of validators found guilty now
	isG := map[int]bool{}
	for _, g := range guilty {
		isG[g] = true
	}
	for _, m := range []map[int]*big.Int{pre.Tot, post.Tot} {
		for v := range m {
			c := bz(post.Tot, v).Cmp(bz(pre.Tot, v))
			if c > 0 || (c < 0 && !isG[v]) {
				e.hit("stake-records-changed-by-EndBlock", fmt.Sprintf("%s: locked total of validator %d: %s -> %s (guilty now: %v)", where, v, bz(pre.Tot, v), bz(post.Tot, v), guilty))
				return
			}
		}
	}
	for _, d := range order {
		drop := new(big.Int).Sub(bz(pre.Eff, d), bz(post.Eff, d))
		if drop.Sign() < 0 || (drop.Sign() > 0 && len(guilty) == 0) {
			e.hit("stake-records-changed-by-EndBlock", fmt.Sprintf("%s: effective amount of delegator %d: %s -> %s (guilty now: %v)", where, d, bz(pre.Eff, d), bz(post.Eff, d), guilty))
			return
		}
		if drop.Sign() > 0 {
			addAmt(e.penalRec, d, drop)
		}
	}
	e.monitorSums(where, post)
	if !e.monOff {
		e.monitorConservation(where, post)
	}
}

// monitorCommit: the validator's recorded stake equals the locked total of its delegators (the
// slash decided in this block reaches the record at the next BeginBlock, which is made explicit).
func (e *stakeExec) monitorCommit(h int64, s *sview) {
	vs := map[int]bool{}
	for v := range s.Vals {
		vs[v] = true
	}
	for v, a := range s.Tot {
		if a.Sign() != 0 {
			vs[v] = true
		}
	}
	var order []int
	for v := range vs {
		order = append(order, v)
	}
	sort.Ints(order)
	for _, v := range order {
		rec := s.Vals[v]
		if rec == nil {
			e.hit("validator-record-missing-with-locked-stake", fmt.Sprintf("after block %d: validator %d has no record but its delegators' locked total is %s", h, v, bz(s.Tot, v)))
			return
		}
		want := new(big.Int).Set(rec.Staking)
		if p, ok := s.Delayed[h][v]; ok {
			want.Sub(want, p)
		}
		if want.Cmp(bz(s.Tot, v)) != 0 {
			e.hit("validator-stake-ne-locked-total", fmt.Sprintf("after block %d: validator %d record staking %s (slash pending %v), delegators' locked total %s", h, v, rec.Staking, s.Delayed[h][v], bz(s.Tot, v)))
			return
		}
	}
}

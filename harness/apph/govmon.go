package apph

// Property monitor for C14, evaluated on the decoded records of the real application only
// (it never looks at the Lean model): a reference lifecycle automaton on the committed dump of
// every block, and per-step checks on the decoded state around every governance transaction
// and every EndBlock.

import (
	"fmt"
	"math/big"
	"sort"
	"strings"

	"github.com/Oneledger/protocol/data/governance"
)

type govMon struct {
	res       *Result
	c         int
	hl        *HistoryLog
	w         *World
	prev      *GState
	undecoded []string
	stop      bool

	contributed map[string]map[string]*big.Int // pid -> funder -> paid in
	withdrawn   map[string]map[string]*big.Int
	distributed map[string]bool
	cfgApplied  map[string]bool
	snapshot    map[string]map[string]int64

	reachedVoting, internalFinal, internalExpiry, refunds int
	expiredAt                                             map[string]int64 // height at which a proposal was first seen expired
}

// an expired proposal is queued at the next BeginBlock and finalised (failed distribution) at that
// block's end; holding escrow this many blocks after the expiry is a violation
const govExpiredEscrowGrace = 3

func newGovMon(res *Result, c int, hl *HistoryLog, w *World) *govMon {
	return &govMon{res: res, c: c, hl: hl, w: w, contributed: map[string]map[string]*big.Int{}, withdrawn: map[string]map[string]*big.Int{},
		distributed: map[string]bool{}, cfgApplied: map[string]bool{}, snapshot: map[string]map[string]int64{}, expiredAt: map[string]int64{}}
}

func (m *govMon) hit(sig, format string, a ...interface{}) {
	m.res.Hit(sig, m.c, fmt.Sprintf(format, a...), m.hl.Lines)
}

const (
	stFunding   = int(governance.ProposalStatusFunding)
	stVoting    = int(governance.ProposalStatusVoting)
	stCompleted = int(governance.ProposalStatusCompleted)
	ocInsFunds  = int(governance.ProposalOutcomeInsufficientFunds)
	ocInsVotes  = int(governance.ProposalOutcomeInsufficientVotes)
	ocNo        = int(governance.ProposalOutcomeCompletedNo)
	ocCancelled = int(governance.ProposalOutcomeCancelled)
	ocYes       = int(governance.ProposalOutcomeCompletedYes)
	tyConfig    = int(governance.ProposalTypeConfigUpdate)
)

// where: the store of the (first) copy, the copy, and the number of copies
func (it *GItem) where() (int, *GProp, int) {
	st, n := -1, 0
	var p *GProp
	if it == nil {
		return st, nil, 0
	}
	for i, c := range it.Copies {
		if c != nil {
			if p == nil {
				st, p = i, c
			}
			n++
		}
	}
	return st, p, n
}

func rankOf(it *GItem) int {
	st, p, _ := it.where()
	switch {
	case p == nil:
		return 0
	case st == 0 && p.Status == stFunding:
		return 1
	case st == 0 && p.Status == stVoting:
		return 2
	case st == 0 || st == 1 || st == 2:
		return 3
	}
	return 4
}

func describe(it *GItem) string {
	st, p, _ := it.where()
	if p == nil {
		return "absent"
	}
	return fmt.Sprintf("%s/%s/%s fd=%d vd=%d total=%s", storeNames[st], statusName[p.Status], outcomeName[p.Outcome], p.FD, p.VD, it.Total)
}

// exact tally over the vote records (rational arithmetic, no floats)
func tallyExact(votes []GVote) (yes, no, total int64) {
	var all, give int64
	for _, v := range votes {
		all += v.Power
		switch v.Opinion {
		case 1:
			yes += v.Power
		case 2:
			no += v.Power
		case 3:
			give += v.Power
		}
	}
	return yes, no, all - give
}

func passHolds(yes, total int64, pass int) bool {
	if total <= 0 {
		return pass <= 0
	}
	return yes*100 >= int64(pass)*total
}

func failHolds(no, total int64, pass int) bool {
	if total <= 0 {
		return pass > 100
	}
	return (total-no)*100 < int64(pass)*total
}

func (m *govMon) checkDecision(where string, height int64, id string, it *GItem, p *GProp) {
	yes, no, total := tallyExact(it.Votes)
	switch p.Outcome {
	case ocYes:
		if !passHolds(yes, total, p.Pass) {
			m.hit("passed-without-enough-yes-votes", "%s height %d proposal %s: outcome yes with yes=%d of %d, pass=%d%%", where, height, id[:8], yes, total, p.Pass)
		}
	case ocNo:
		if !failHolds(no, total, p.Pass) {
			m.hit("failed-while-pass-still-possible", "%s height %d proposal %s: outcome no with no=%d of %d, pass=%d%%: (total-no)/total = %d/%d is not below %d/100, the remaining validators could still pass it", where, height, id[:8], no, total, p.Pass, total-no, total, p.Pass)
		}
	}
}

func optSig(o GOpts) string {
	return fmt.Sprintf("%d/%s/%s/%d/%d/%s", o.MinFeeDecimal, o.PerBlockFees, o.BaseDomainPrice, o.LuhFee, o.LuhOns, o.OtherDigest)
}

func gvAddTo(m map[string]map[string]*big.Int, id, f string, v *big.Int) {
	if m[id] == nil {
		m[id] = map[string]*big.Int{}
	}
	if m[id][f] == nil {
		m[id][f] = new(big.Int)
	}
	m[id][f].Add(m[id][f], v)
}

// block: the automaton step on the committed dump of block `height`.
func (m *govMon) block(height int64, cur *GState, okTxs []govTx) {
	defer func() { m.prev = cur }()
	if len(m.undecoded) > 0 {
		m.hit("undecodable-governance-record", "height %d: %s", height, strings.Join(m.undecoded, "; "))
		m.undecoded = nil
		m.stop = true
	}
	for _, t := range okTxs {
		switch t.Kind {
		case "PROPOSAL_CREATE", "PROPOSAL_FUND":
			gvAddTo(m.contributed, t.PID, t.Funder, t.Value)
		case "PROPOSAL_WITHDRAW_FUNDS":
			gvAddTo(m.withdrawn, t.PID, t.Funder, t.Value)
		}
	}
	if m.prev == nil {
		return
	}
	var ids []string
	for id := range cur.Items {
		ids = append(ids, id)
	}
	sort.Strings(ids)
	var newlyFinalCfg []string
	for _, id := range ids {
		it, old := cur.Items[id], m.prev.Items[id]
		st, p, n := it.where()
		ost, op, _ := old.where()
		if p == nil {
			if op != nil {
				m.hit("proposal-vanished", "height %d proposal %s was %s", height, id[:8], describe(old))
			}
			continue
		}
		if n > 1 {
			m.hit("proposal-in-two-stores", "height %d proposal %s has %d copies", height, id[:8], n)
		}
		if rankOf(it) < rankOf(old) {
			m.hit("stage-went-backwards", "height %d proposal %s: %s -> %s", height, id[:8], describe(old), describe(it))
		}
		if op != nil && (ost == 1 || ost == 2) && (st == 1 || st == 2) && st != ost {
			m.hit("decision-changed", "height %d proposal %s: %s -> %s", height, id[:8], describe(old), describe(it))
		}
		// funding -> voting
		wasVoting := op != nil && (op.Status != stFunding)
		if !wasVoting && p.Status != stFunding && len(it.Votes) > 0 {
			m.reachedVoting++
		}
		if !wasVoting && st == 0 && p.Status == stVoting {
			if it.Total.Cmp(p.Goal) < 0 {
				m.hit("voting-without-goal", "height %d proposal %s: voting with total %s below goal %s", height, id[:8], it.Total, p.Goal)
			}
			if height > p.FD {
				m.hit("voting-after-funding-deadline", "height %d proposal %s: entered voting after funding deadline %d", height, id[:8], p.FD)
			}
		}
		// expiry
		if p.Outcome == ocInsVotes && (op == nil || op.Outcome != ocInsVotes) {
			legit := op != nil && ost == 0 && op.Status == stVoting && op.VD < height
			if !legit {
				m.hit("expired-before-voting-deadline", "height %d proposal %s expired (insufficient votes) from %s", height, id[:8], describe(old))
			}
		}
		// decisions must follow the recorded votes
		if (p.Outcome == ocYes || p.Outcome == ocNo) && (op == nil || op.Outcome != p.Outcome) {
			m.checkDecision("block", height, id, it, p)
			if op == nil || ost != 0 || op.Status != stVoting {
				// a vote in the block in which voting began is refused, so a decision needs a voting stage before
				m.hit("decided-without-voting-stage", "height %d proposal %s: %s -> %s", height, id[:8], describe(old), describe(it))
			}
		}
		// snapshot: validator set and powers of the vote records never change once written
		if len(it.Votes) > 0 {
			snap := m.snapshot[id]
			if snap == nil {
				snap = map[string]int64{}
				for _, v := range it.Votes {
					snap[v.Addr] = v.Power
				}
				m.snapshot[id] = snap
			} else {
				same := len(snap) == len(it.Votes)
				for _, v := range it.Votes {
					if pw, ok := snap[v.Addr]; !ok || pw != v.Power {
						same = false
					}
				}
				if !same {
					m.hit("snapshot-changed", "height %d proposal %s: vote records %v differ from the snapshot %v", height, id[:8], it.Votes, snap)
				}
			}
		} else if m.snapshot[id] != nil {
			m.hit("snapshot-changed", "height %d proposal %s: vote records disappeared", height, id[:8])
		}
		// votes change only while voting is open
		if old != nil && len(old.Votes) > 0 {
			ov := map[string]int{}
			for _, v := range old.Votes {
				ov[v.Addr] = v.Opinion
			}
			changed := false
			for _, v := range it.Votes {
				if o, ok := ov[v.Addr]; ok && o != v.Opinion {
					changed = true
				}
			}
			if changed {
				if ost != 0 || op.Status != stVoting {
					m.hit("vote-outside-voting-stage", "height %d proposal %s: opinions changed while %s", height, id[:8], describe(old))
				} else if height > op.VD {
					m.hit("vote-after-deadline-accepted", "height %d proposal %s: opinions changed after voting deadline %d", height, id[:8], op.VD)
				}
			}
		}
		// finalisation
		if (st == 3 || st == 4) && !(ost == 3 || ost == 4) {
			if op == nil || !(ost == 1 || ost == 2 || (ost == 0 && op.Status == stVoting)) {
				m.hit("finalised-without-decision", "height %d proposal %s: %s -> %s", height, id[:8], describe(old), describe(it))
			}
			if st == 3 && (len(it.Funds) > 0 || it.Total.Sign() != 0) {
				m.hit("escrow-left-after-finalisation", "height %d proposal %s: %d fund records, total %s", height, id[:8], len(it.Funds), it.Total)
			}
			if p.Type == tyConfig && p.Outcome == ocYes {
				newlyFinalCfg = append(newlyFinalCfg, id)
			}
		}
		// an expired proposal does not keep its escrow: it is finalised like a failed one
		if st == 2 && p.Outcome == ocInsVotes {
			if _, seen := m.expiredAt[id]; !seen {
				m.expiredAt[id] = height
			}
			if height >= m.expiredAt[id]+govExpiredEscrowGrace && it.Total.Sign() > 0 {
				if len(it.Votes) == 0 {
					m.res.Counters["locked_with_empty_snapshot"]++
				} else {
					m.res.Counters["locked_with_votes"]++
				}
				m.hit("expired-escrow-still-locked", "height %d proposal %s expired at height %d and still holds %s (%d vote records, %d validator records)", height, id[:8], m.expiredAt[id], it.Total, len(it.Votes), len(cur.Vals))
			}
		}
		// escrow bookkeeping: records move only by create / fund / withdraw, until a distribution
		if !m.distributed[id] {
			sum := new(big.Int)
			for _, f := range it.Funds {
				sum.Add(sum, f.Amount)
				exp := new(big.Int)
				if c := m.contributed[id][f.Addr]; c != nil {
					exp.Add(exp, c)
				}
				if w := m.withdrawn[id][f.Addr]; w != nil {
					exp.Sub(exp, w)
				}
				if exp.Cmp(f.Amount) != 0 {
					m.hit("escrow-record-unexpected", "height %d proposal %s (%s): record of %s is %s, contributed minus withdrawn is %s", height, id[:8], describe(it), f.Addr, f.Amount, exp)
				}
				if f.Amount.Sign() < 0 {
					m.hit("escrow-record-negative", "height %d proposal %s: record of %s is %s", height, id[:8], f.Addr, f.Amount)
				}
			}
			for f, c := range m.contributed[id] {
				found := false
				for _, fr := range it.Funds {
					found = found || fr.Addr == f
				}
				if !found && c.Sign() != 0 {
					m.hit("escrow-record-unexpected", "height %d proposal %s (%s): record of %s is missing, contributed %s", height, id[:8], describe(it), f, c)
				}
			}
			if sum.Cmp(it.Total) != 0 {
				m.hit("escrow-total-differs-from-records", "height %d proposal %s: total %s, records sum to %s", height, id[:8], it.Total, sum)
			}
		}
	}
	// option records change only when a passed configuration proposal is finalised, once each
	if optSig(cur.Opts) != optSig(m.prev.Opts) {
		if len(newlyFinalCfg) == 0 {
			m.hit("option-changed-without-passed-proposal", "height %d: options %s -> %s", height, optSig(m.prev.Opts), optSig(cur.Opts))
		}
		if cur.Opts.OtherDigest != m.prev.Opts.OtherDigest {
			m.res.Counters["other_option_group_changed"]++
		}
	}
	for _, id := range newlyFinalCfg {
		if m.cfgApplied[id] {
			m.hit("config-applied-twice", "height %d proposal %s", height, id[:8])
		}
		m.cfgApplied[id] = true
		it := cur.Items[id]
		st, p, _ := it.where()
		if st != 3 {
			m.res.Counters["config_update_failed_at_finalisation"]++
			continue
		}
		kv := strings.Split(p.Cfg, ":")
		if len(kv) != 2 {
			m.hit("config-not-applied", "height %d proposal %s finalised with malformed update %q", height, id[:8], p.Cfg)
			continue
		}
		ok := true
		switch kv[0] {
		case "feeOption.minFeeDecimal":
			ok = cur.Opts.LuhFee == height && (len(newlyFinalCfg) > 1 || fmt.Sprint(cur.Opts.MinFeeDecimal) == kv[1])
		case "onsOptions.perBlockFees":
			ok = cur.Opts.LuhOns == height && (len(newlyFinalCfg) > 1 || cur.Opts.PerBlockFees.String() == kv[1])
		case "onsOptions.baseDomainPrice":
			ok = cur.Opts.LuhOns == height && (len(newlyFinalCfg) > 1 || cur.Opts.BaseDomainPrice.String() == kv[1])
		}
		if !ok {
			m.hit("config-not-applied", "height %d proposal %s finalised (passed) but %q is not in force: %s", height, id[:8], p.Cfg, optSig(cur.Opts))
		}
		m.res.Counters["config_updates_applied"]++
	}
}

func itemSig(it *GItem) string { return it.line("item", "x") }

func gvBalDelta(pre, post *GState, a string) *big.Int {
	x, y := pre.Bal[a], post.Bal[a]
	d := new(big.Int)
	if y != nil {
		d.Add(d, y)
	}
	if x != nil {
		d.Sub(d, x)
	}
	return d
}

// creditsOf: sum of the positive balance changes of the watched accounts
func creditsOf(pre, post *GState, watch []string) *big.Int {
	t := new(big.Int)
	for _, a := range watch {
		if d := gvBalDelta(pre, post, a); d.Sign() > 0 {
			t.Add(t, d)
		}
	}
	return t
}

// settle: checks every finalisation that happened between pre and post (a public finalize step
// or an EndBlock): distributed once, never more than the escrow total, nothing left behind.
func (m *govMon) settle(where string, height int64, pre, post *GState, watch []string, payer string) {
	escrow := new(big.Int)
	var ids, all []string
	for id, it := range post.Items {
		all = append(all, id)
		st, _, _ := it.where()
		ost, _, _ := pre.Items[id].where()
		if (st == 3 || st == 4) && !(ost == 3 || ost == 4) {
			ids = append(ids, id)
			old := pre.Items[id]
			if old != nil && st == 3 {
				escrow.Add(escrow, old.Total)
				if m.distributed[id] {
					m.hit("distributed-twice", "%s height %d proposal %s", where, height, id[:8])
				}
				m.distributed[id] = true
			}
		}
	}
	vPre, vPost := govValue(pre, watch, all), govValue(post, watch, all)
	if vPost.Cmp(vPre) > 0 {
		m.hit("value-created", "%s height %d: balances + escrow %s -> %s", where, height, vPre, vPost)
	}
	credits := creditsOf(pre, post, watch)
	if credits.Cmp(escrow) > 0 {
		m.hit("distributed-more-than-contributed", "%s height %d: accounts were credited %s, escrow of the finalised proposals %v was %s", where, height, credits, ids, escrow)
	}
	if len(ids) == 0 && vPost.Cmp(vPre) != 0 && where == "endblock" {
		m.hit("value-changed-without-finalisation", "%s height %d: balances + escrow %s -> %s", where, height, vPre, vPost)
	}
	for _, a := range watch {
		if a != payer && gvBalDelta(pre, post, a).Sign() < 0 {
			m.hit("account-debited-by-finalisation", "%s height %d: %s lost %s", where, height, a, gvBalDelta(pre, post, a))
		}
	}
}

// step: checks on one governance transaction.
func (m *govMon) step(height int64, t govTx, ok bool, pre, post *GState, watch []string) {
	a, b := pre.Items[t.PID], post.Items[t.PID]
	if !ok {
		if itemSig(a) != itemSig(b) || optSig(pre.Opts) != optSig(post.Opts) {
			m.hit("failed-tx-changed-state", "height %d %s (%s): %s -> %s", height, t.Kind, t.Note, itemSig(a), itemSig(b))
		}
		return
	}
	ost, op, _ := a.where()
	st, p, _ := b.where()
	ids := []string{t.PID}
	if t.Kind != "PROPOSAL_FINALIZE" {
		if vp, vq := govValue(pre, watch, ids), govValue(post, watch, ids); vp.Cmp(vq) != 0 {
			m.hit("value-not-conserved", "height %d %s (%s): balances + escrow %s -> %s", height, t.Kind, t.Note, vp, vq)
		}
		if optSig(pre.Opts) != optSig(post.Opts) {
			m.hit("option-changed-without-passed-proposal", "height %d %s changed the options", height, t.Kind)
		}
	}
	fee := gvBalDelta(pre, post, "feepool")
	switch t.Kind {
	case "PROPOSAL_CREATE":
		if op != nil {
			m.hit("created-over-existing-proposal", "height %d proposal %s was %s", height, t.PID[:8], describe(a))
		}
		if p == nil || st != 0 || p.Status != stFunding || height >= p.FD {
			m.hit("created-in-wrong-stage", "height %d proposal %s is %s", height, t.PID[:8], describe(b))
		}
	case "PROPOSAL_FUND":
		if op == nil || ost != 0 || op.Status != stFunding || height > op.FD {
			m.hit("fund-outside-funding-stage", "height %d proposal %s was %s", height, t.PID[:8], describe(a))
		}
		// "then voting once its goal is met before the funding deadline": a contribution that was
		// accepted and takes the escrow to the goal starts the vote, in the same transaction
		if p != nil && st == 0 && p.Status == stFunding && b != nil && p.Goal != nil {
			sum := new(big.Int)
			for _, f := range b.Funds {
				if f.Amount != nil {
					sum.Add(sum, f.Amount)
				}
			}
			if sum.Cmp(p.Goal) >= 0 && height <= p.FD {
				m.hit("goal-met-but-still-funding", "height %d proposal %s: contributions %s have reached the goal %s (funding deadline %d) and the proposal is still %s", height, t.PID[:8], sum, p.Goal, p.FD, describe(b))
			}
		}
		if p != nil && p.Status == stVoting && op != nil && op.Status == stFunding {
			// the snapshot: exactly the committed active validators with their current power
			want := map[string]int64{}
			for _, v := range pre.Vals {
				if v.Committed && v.Active {
					want[v.Addr] = v.Power
				}
			}
			same := len(want) == len(b.Votes)
			for _, v := range b.Votes {
				if pw, ok := want[v.Addr]; !ok || pw != v.Power || v.Opinion != 0 {
					same = false
				}
			}
			if !same {
				m.hit("snapshot-differs-from-validator-set", "height %d proposal %s: vote records %v, active validators %v", height, t.PID[:8], b.Votes, want)
			}
			if b.Total.Cmp(p.Goal) < 0 {
				m.hit("voting-without-goal", "height %d proposal %s: voting with total %s below goal %s", height, t.PID[:8], b.Total, p.Goal)
			}
		}
	case "PROPOSAL_VOTE":
		if op == nil || ost != 0 || op.Status != stVoting {
			m.hit("vote-outside-voting-stage", "height %d proposal %s was %s", height, t.PID[:8], describe(a))
		} else if height > op.VD {
			m.hit("vote-after-deadline-accepted", "height %d proposal %s: vote accepted after voting deadline %d", height, t.PID[:8], op.VD)
		}
		if p != nil && (p.Outcome == ocYes || p.Outcome == ocNo) {
			m.checkDecision("vote", height, t.PID, b, p)
		} else if p != nil && op != nil {
			// still open: neither threshold may have been crossed (exact arithmetic)
			yes, no, total := tallyExact(b.Votes)
			if passHolds(yes, total, op.Pass) || failHolds(no, total, op.Pass) {
				m.hit("decision-missed", "height %d proposal %s stays open with yes=%d no=%d of %d, pass=%d%%", height, t.PID[:8], yes, no, total, op.Pass)
			}
		}
	case "PROPOSAL_CANCEL":
		if op == nil || ost != 0 || op.Status != stFunding || height > op.FD || op.Proposer != t.Signer {
			m.hit("cancel-not-allowed", "height %d proposal %s was %s, signer %s, proposer %v", height, t.PID[:8], describe(a), t.Signer, op)
		}
		if p == nil || p.Outcome != ocCancelled || itemSigFunds(a) != itemSigFunds(b) {
			m.hit("cancel-touched-escrow", "height %d proposal %s: %s -> %s", height, t.PID[:8], itemSig(a), itemSig(b))
		}
	case "PROPOSAL_WITHDRAW_FUNDS":
		elig := op != nil && (op.Outcome == ocCancelled || op.Outcome == ocInsFunds || (a.Total.Cmp(op.Goal) < 0 && height > op.FD))
		if !elig {
			m.hit("withdraw-before-cancel-or-fail", "height %d proposal %s was %s (goal %v)", height, t.PID[:8], describe(a), op)
		}
		want := new(big.Int).Set(t.Value)
		if t.Benef == t.Signer {
			want.Sub(want, fee)
		}
		if d := gvBalDelta(pre, post, t.Benef); d.Cmp(want) != 0 {
			m.hit("withdrawal-not-paid-in-full", "height %d proposal %s: beneficiary %s received %s for a withdrawal of %s", height, t.PID[:8], t.Benef, d, t.Value)
		}
		m.refunds++
	case "EXPIRE_VOTES":
		m.res.Counters["public_expiries_after_deadline"]++
		if op == nil || ost != 0 || op.Status != stVoting || !(op.VD < height) {
			m.hit("expired-before-voting-deadline", "height %d proposal %s expired by a transaction of %s while %s", height, t.PID[:8], t.Signer, describe(a))
		}
	case "PROPOSAL_FINALIZE":
		m.settle("finalize-tx", height, pre, post, watch, "")
		if st == 3 && !(ost == 3) {
			m.res.Counters["public_finalisations"]++
		}
	}
	_ = p
}

func itemSigFunds(it *GItem) string {
	if it == nil {
		return "-"
	}
	c := &GItem{Funds: it.Funds, Votes: it.Votes, Total: it.Total}
	return c.line("item", "x")
}

// endBlock: expiry and finalisation run by the application itself.
func (m *govMon) endBlock(height int64, pre, post *GState, watch []string) {
	for id, it := range post.Items {
		old := pre.Items[id]
		st, p, _ := it.where()
		ost, op, _ := old.where()
		if p == nil || op == nil || st == ost {
			continue
		}
		switch {
		case ost == 0 && st == 2 && p.Outcome == ocInsVotes:
			m.internalExpiry++
			if op.Status != stVoting || !(op.VD < height) {
				m.hit("expired-before-voting-deadline", "EndBlock %d expired proposal %s while %s", height, id[:8], describe(old))
			}
		case (ost == 1 || ost == 2) && (st == 3 || st == 4):
			m.internalFinal++
			if !(op.Status == stCompleted && (op.Outcome == ocYes || op.Outcome == ocNo || op.Outcome == ocInsVotes)) {
				m.hit("finalised-without-decision", "EndBlock %d finalised proposal %s from %s", height, id[:8], describe(old))
			}
		default:
			m.hit("unexpected-endblock-move", "EndBlock %d proposal %s: %s -> %s", height, id[:8], describe(old), describe(it))
		}
	}
	m.settle("endblock", height, pre, post, watch, "")
}

func (m *govMon) finish() {}

package apph

import (
	"bytes"
	"crypto/sha256"
	"encoding/base64"
	"encoding/hex"
	"encoding/json"
	"fmt"
	"io"
	"io/ioutil"
	"math/big"
	"os"
	"sort"
	"strconv"
	"strings"

	ethcmn "github.com/ethereum/go-ethereum/common"
	ethtypes "github.com/ethereum/go-ethereum/core/types"
	ethcrypto "github.com/ethereum/go-ethereum/crypto"
	abci "github.com/tendermint/tendermint/abci/types"

	"github.com/Oneledger/protocol/action/transfer"
	"github.com/Oneledger/protocol/data/keys"

	"olverif/harness/kv"
	"olverif/harness/rng"
)

// ---------------------------------------------------------------- generated operations

type contractInfo struct {
	Kind    string // toggle | revert | loop | forward | payback | destruct | paydead
	Runtime []byte
	Target  keys.Address // forward target / selfdestruct beneficiary
}

// olvmOp is one transaction of a generated block: a native one or an OLVM one with everything the
// monitor needs to know about how it was built.
type olvmOp struct {
	Native *GenTx
	From   *EthAcct
	To     *keys.Address
	Nonce  uint64
	Value  *big.Int
	Data   []byte
	Gas    int64
	Price  *big.Int
	Tw     OlvmTweak
	Deploy *contractInfo // creation whose init code returns this runtime (nil: init code fails or no creation)
	Note   string
	Bytes  []byte
}

func (o *olvmOp) kind() string {
	if o.Native != nil {
		return o.Native.Kind
	}
	return "OLVM"
}

var defaultPrice = big.NewInt(10000000000)

type olvmGen struct {
	W         *OlvmWorld
	R         *rng.R
	N         *Gen                     // native generator (memo counter, SEND builders)
	Nonce     map[string]uint64        // expected state nonce per Ethereum account (re-synced every block)
	Contracts map[string]*contractInfo // known and predicted contracts by hex address
	Order     []string                 // contract addresses in creation order
	Target    keys.Address             // forward target (does not exist at genesis)
	Benef     keys.Address             // selfdestruct beneficiary
	Fresh     int
	Gapped    []*olvmOp // executed-or-not transactions that used a nonce above the state nonce
	Tight     bool      // finite block gas family
}

func fixedAddr(name string) keys.Address {
	h := sha256.Sum256([]byte("olverif-c17-" + name))
	return keys.Address(h[:20])
}

func newOlvmGen(w *OlvmWorld, r *rng.R) *olvmGen {
	return &olvmGen{W: w, R: r, N: NewGen(w.World, r.Fork()), Nonce: map[string]uint64{}, Contracts: map[string]*contractInfo{},
		Target: fixedAddr("forward-target"), Benef: fixedAddr("beneficiary")}
}

func (g *olvmGen) eth() *EthAcct { return g.W.Eth[g.R.Intn(len(g.W.Eth))] }

func (g *olvmGen) mkOlvm(from *EthAcct, to *keys.Address, nonce uint64, value *big.Int, data []byte, gas int64, price *big.Int, tw OlvmTweak, note string) *olvmOp {
	g.N.Kinds["OLVM"]++
	if g.Tight && gas >= 21000 && gas < 1000000 && !strings.Contains(note, "tight") && !strings.Contains(note, "deposit") && g.R.Intn(3) == 0 {
		gas += int64(60000 + g.R.Intn(400000)) // finite block gas family: limits around what the block has left
	}
	return &olvmOp{From: from, To: to, Nonce: nonce, Value: value, Data: data, Gas: gas, Price: price, Tw: tw, Note: note,
		Bytes: g.W.OlvmTx(from, to, nonce, value, data, gas, price, tw)}
}

func (g *olvmGen) recipient() keys.Address {
	switch g.R.Intn(6) {
	case 0, 1:
		return g.eth().Addr
	case 2:
		return g.W.Accts[g.R.Intn(len(g.W.Accts))].Addr
	case 3:
		g.Fresh++
		return fixedAddr(fmt.Sprintf("fresh-%d-%d", g.W.P.Seed, g.Fresh))
	case 4:
		return g.Target
	default:
		if len(g.Order) > 0 {
			b, _ := hex.DecodeString(g.Order[g.R.Intn(len(g.Order))])
			return keys.Address(b)
		}
		return g.eth().Addr
	}
}

func (g *olvmGen) smallValue() *big.Int {
	switch g.R.Intn(6) {
	case 0:
		return big.NewInt(0)
	case 1:
		return big.NewInt(1)
	case 2:
		return new(big.Int).Mul(big.NewInt(int64(1+g.R.Intn(9))), big.NewInt(1000000000000000000))
	}
	return big.NewInt(int64(1 + g.R.Intn(1000000)))
}

func (g *olvmGen) deployable() *contractInfo {
	// pay-the-dead: calls a destruct contract with data (it selfdestructs) and then pays it 1
	if g.R.Intn(9) == 0 {
		for _, a := range g.Order {
			if g.Contracts[a].Kind == "destruct" {
				b, _ := hex.DecodeString(a)
				return &contractInfo{Kind: "paydead", Runtime: rtPayDead(keys.Address(b)), Target: keys.Address(b)}
			}
		}
	}
	switch g.R.Intn(7) {
	case 0, 1:
		return &contractInfo{Kind: "toggle", Runtime: rtToggle()}
	case 2:
		return &contractInfo{Kind: "revert", Runtime: rtRevert()}
	case 3:
		return &contractInfo{Kind: "loop", Runtime: rtLoop()}
	case 4:
		// forward to a plain address, or (when one is known) to a contract that reverts: the inner
		// call then fails, its value transfer is undone, and the forwarder keeps the value
		t := g.Target
		for _, a := range g.Order {
			if g.Contracts[a].Kind == "revert" && g.R.Intn(2) == 0 {
				b, _ := hex.DecodeString(a)
				t = keys.Address(b)
			}
		}
		return &contractInfo{Kind: "forward", Runtime: rtForward(t), Target: t}
	case 5:
		return &contractInfo{Kind: "payback", Runtime: rtPayback()}
	default:
		return &contractInfo{Kind: "destruct", Runtime: rtDestruct(g.Benef), Target: g.Benef}
	}
}

// valid builds a transaction meant to pass every check and bumps the expected nonce.
func (g *olvmGen) next(balanceOf func([]byte) *big.Int) *olvmOp {
	from := g.eth()
	n := g.Nonce[hexAddr(from.Addr)]
	bump := func() { g.Nonce[hexAddr(from.Addr)] = n + 1 }
	x := g.R.Intn(100)
	switch {
	case x < 22: // plain value transfer
		to := g.recipient()
		if g.R.Intn(8) == 0 {
			to = from.Addr
		}
		bump()
		return g.mkOlvm(from, &to, n, g.smallValue(), nil, int64(21000+g.R.Intn(3)*4000), defaultPrice, OlvmTweak{}, "transfer")
	case x < 34: // contract creation
		ci := g.deployable()
		code := initCode(ci.Runtime)
		note := "create:" + ci.Kind
		gas := int64(53000 + 16*len(code) + 200*len(ci.Runtime) + 20000)
		var dep *contractInfo = ci
		switch g.R.Intn(8) {
		case 0:
			code, note, dep = rtRevert(), "create:init-reverts", nil
		case 1:
			code, note, dep = rtLoop(), "create:init-loops", nil
			gas = 90000
		case 2:
			gas = int64(53000 + 16*len(code) + 30) // runs the init code but cannot pay the code deposit
			note += ":no-deposit-gas"
			dep = nil
		}
		v := big.NewInt(0)
		if g.R.Intn(3) == 0 {
			v = g.smallValue()
		}
		op := g.mkOlvm(from, nil, n, v, code, gas, defaultPrice, OlvmTweak{}, note)
		op.Deploy = dep
		if dep != nil {
			a := hexAddr(ethcrypto.CreateAddress(from.Eth(), n).Bytes())
			if _, ok := g.Contracts[a]; !ok {
				g.Contracts[a] = dep
				g.Order = append(g.Order, a)
			}
		}
		bump()
		return op
	case x < 58: // call a contract
		if len(g.Order) == 0 {
			return g.next(balanceOf)
		}
		a := g.Order[len(g.Order)-1-g.R.Intn(min(len(g.Order), 6))]
		ci := g.Contracts[a]
		ab, _ := hex.DecodeString(a)
		to := keys.Address(ab)
		var data []byte
		if g.R.Intn(2) == 0 {
			data = []byte{1}
			if g.R.Intn(3) == 0 {
				data = []byte{0, 7, 0}
			}
		}
		v := big.NewInt(0)
		if g.R.Intn(2) == 0 {
			v = g.smallValue()
		}
		gas := int64(120000)
		note := "call:" + ci.Kind
		switch g.R.Intn(7) {
		case 0:
			gas = int64(21000 + 16*len(data) + 40) // out of gas inside the code
			note += ":tight"
		case 1:
			gas = 30000
		}
		bump()
		return g.mkOlvm(from, &to, n, v, data, gas, defaultPrice, OlvmTweak{}, note)
	case x < 66: // nonce above the state nonce (S12)
		to := g.recipient()
		k := uint64(1 + g.R.Intn(3))
		if len(g.Gapped) > 0 && g.R.Intn(2) == 0 {
			// a DIFFERENT transaction re-using the nonce of an earlier gapped one
			old := g.Gapped[g.R.Intn(len(g.Gapped))]
			if old.Nonce >= g.Nonce[hexAddr(old.From.Addr)] {
				from = old.From
				n = g.Nonce[hexAddr(from.Addr)]
				g.Nonce[hexAddr(from.Addr)] = n + 1
				op := g.mkOlvm(from, &to, old.Nonce, big.NewInt(int64(2+g.R.Intn(1000))), nil, 21000, defaultPrice, OlvmTweak{}, "nonce-reuse")
				g.Gapped = append(g.Gapped, op)
				return op
			}
		}
		bump()
		op := g.mkOlvm(from, &to, n+k, g.smallValue(), nil, 21000, defaultPrice, OlvmTweak{}, fmt.Sprintf("nonce-gap+%d", k))
		g.Gapped = append(g.Gapped, op)
		return op
	case x < 70: // nonce below the state nonce
		if n == 0 {
			return g.next(balanceOf)
		}
		to := g.recipient()
		return g.mkOlvm(from, &to, n-1-uint64(g.R.Intn(int(n))), g.smallValue(), nil, 21000, defaultPrice, OlvmTweak{}, "nonce-low")
	case x < 78: // funds
		to := g.recipient()
		have := balanceOf(from.Addr)
		fee := new(big.Int).Mul(defaultPrice, big.NewInt(21000))
		v := new(big.Int).Sub(have, fee) // exactly affordable if nothing else of this sender precedes in the block
		note := "funds:exact"
		switch g.R.Intn(3) {
		case 0:
			v.Add(v, big.NewInt(1))
			note = "funds:one-short"
		case 1:
			v.Add(have, big.NewInt(int64(g.R.Intn(5))))
			note = "funds:value-above-balance"
		}
		if v.Sign() < 0 {
			v, note = big.NewInt(0), "funds:cannot-pay-gas"
		}
		if note == "funds:exact" {
			bump()
		}
		return g.mkOlvm(from, &to, n, v, nil, 21000, defaultPrice, OlvmTweak{}, note)
	case x < 82: // the poor account (genesis: 90000 gas worth)
		poor := g.W.Eth[len(g.W.Eth)-1]
		pn := g.Nonce[hexAddr(poor.Addr)]
		to := g.recipient()
		gas := int64(21000 + g.R.Intn(4)*30000)
		g.Nonce[hexAddr(poor.Addr)] = pn + 1
		return g.mkOlvm(poor, &to, pn, big.NewInt(int64(g.R.Intn(3))), nil, gas, defaultPrice, OlvmTweak{}, "poor-sender")
	}
	// broken in exactly one way: none of these may change anything
	to := g.recipient()
	v := g.smallValue()
	gas := int64(21000)
	price := defaultPrice
	tw := OlvmTweak{}
	note := ""
	data := []byte(nil)
	switch g.R.Intn(27) {
	case 21:
		tw.TxType, note = 1, "payload-type-not-legacy"
	case 22:
		tw.AccessList, note = true, "payload-with-access-list"
	case 23:
		other := g.eth()
		for other == from {
			other = g.eth()
		}
		tw.EnvelopeKey, note = other, "envelope-key-of-somebody-else"
	case 24:
		tw.PayloadSpace, note = true, "payload-not-canonical"
	case 25:
		m := "0" + fmt.Sprint(n)
		tw.Memo, note = &m, "memo-leading-zero"
	case 26:
		m := "+" + fmt.Sprint(n)
		tw.Memo, note = &m, "memo-plus-sign"
	case 18:
		tw.SigLen, note = 64+2*g.R.Intn(2), "signature-not-65-bytes" // 64 or 66
	case 19:
		tw.NilChainID, note = true, "payload-without-chain-id"
	case 20:
		tw.NilChainID, tw.SigLen, note = true, 64, "no-chain-id-and-short-signature"
	case 15:
		short := keys.Address(to[:19])
		to, note = short, "recipient-address-19-bytes"
	case 16:
		if g.R.Intn(4) == 0 {
			data = bytes.Repeat([]byte{7}, 131100) // above txMaxSize
			gas, note = 3000000, "oversized-data"
		} else {
			tw.PayloadChainID, note = big.NewInt(0), "payload-chain-id-zero"
		}
	case 17:
		m := "-" + fmt.Sprint(n)
		tw.Memo, note = &m, "memo-negative"
	case 0:
		tw.PayloadChainID, note = big.NewInt(1), "payload-chain-id"
	case 1:
		tw.SignChainID, note = big.NewInt(1), "signed-for-other-chain"
	case 2:
		m := fmt.Sprint(n + 1)
		tw.Memo, note = &m, "memo-not-nonce"
	case 3:
		m := "m" + fmt.Sprint(n)
		tw.Memo, note = &m, "memo-unparsable"
	case 4:
		other := g.eth()
		for other == from {
			other = g.eth()
		}
		tw.SignKey, note = other, "signed-by-other-key"
	case 5:
		tw.ExtraSig, note = true, "two-signatures"
	case 6:
		price, note = big.NewInt(999999999), "price-below-min"
	case 7:
		tw.FeeCurrency, note = "VT", "fee-currency"
	case 8:
		tw.Currency, note = "VT", "amount-currency"
	case 9:
		gas, note = 20999, "gas-below-intrinsic"
	case 10:
		gas, note = 100000001, "gas-above-simulation-limit"
	case 11:
		gas, note = -5, "negative-gas"
	case 12:
		victim := g.eth()
		for victim == from {
			victim = g.eth()
		}
		tw.From, note = &victim.Addr, "from-is-somebody-else"
	case 13:
		tw.Currency, note = "NOPE", "amount-currency-unknown"
	default:
		v, note = big.NewInt(-1), "negative-value"
	}
	return g.mkOlvm(from, &to, n, v, data, gas, price, tw, "broken:"+note)
}

// nativeTouch is a native SEND whose recipient is an account the EVM also knows.
func (g *olvmGen) nativeTouch() *olvmOp {
	a := g.W.Accts[g.R.Intn(len(g.W.Accts))]
	var to keys.Address
	note := ""
	switch g.R.Intn(6) {
	case 0, 1:
		to, note = g.eth().Addr, "to-eth-account"
	case 2:
		if len(g.Order) > 0 {
			b, _ := hex.DecodeString(g.Order[g.R.Intn(len(g.Order))])
			to, note = keys.Address(b), "to-contract"
		} else {
			to, note = g.eth().Addr, "to-eth-account"
		}
	case 3: // pre-fund the address the next creation of some account will get
		e := g.eth()
		to, note = keys.Address(ethcrypto.CreateAddress(e.Eth(), g.Nonce[hexAddr(e.Addr)]).Bytes()), "to-future-contract"
	case 4:
		to, note = g.Target, "to-forward-target"
	default:
		to, note = g.W.Accts[g.R.Intn(len(g.W.Accts))].Addr, "native-to-native"
	}
	amt := OLT(int64(1 + g.R.Intn(20)))
	if g.R.Intn(6) == 0 {
		amt = OLT(50000000) // more than the balance: fails
		note += ":insufficient"
	}
	t := g.N.mk("SEND", note, &transfer.Send{From: a.Addr, To: to, Amount: amt}, a)
	return &olvmOp{Native: &t, Note: note, Bytes: t.Bytes}
}

// ---------------------------------------------------------------- decoded views of the state

const emptyCodeHashB64 = "xdJGAYb3IzySfn2y3McDwOUAtlPKgic7e/rYBF2FpHA="

type keeperRec struct {
	Present bool
	Nonce   uint64
	Code    bool
}

type stateView struct{ m map[string]string }

// olvmViewOf overlays the pending block cache of the deliver state on the last committed dump.
func olvmViewOf(base map[string]string, r *Replica) *stateView {
	return overlay(base, pendingOf(r.App.VerifDeliverState()))
}

// checkViewOf is the same for the check state (it accumulates the effects of admitted CheckTx calls).
func checkViewOf(base map[string]string, r *Replica) *stateView {
	return overlay(base, pendingOf(r.App.VerifCheckState()))
}

func overlay(base map[string]string, pend []kvp) *stateView {
	m := make(map[string]string, len(base)+16)
	for k, v := range base {
		m[k] = v
	}
	for _, p := range pend {
		if string(p.v) == "\xe2\x9b\xbc" {
			delete(m, string(p.k))
		} else {
			m[string(p.k)] = string(p.v)
		}
	}
	return &stateView{m}
}

func (v *stateView) balance(addr []byte) *big.Int { return BalanceOf(v.m, addr, "OLT") }

func (v *stateView) pool() *big.Int {
	if s, ok := v.m["f_00000000000000000000"]; ok {
		if n := AmountOf(s); n != nil {
			return n
		}
	}
	return new(big.Int)
}

func (v *stateView) keeper(addr []byte) keeperRec {
	s, ok := v.m["keeper_"+string(addr)]
	if !ok {
		return keeperRec{}
	}
	var rec struct {
		CodeHash string `json:"codeHash"`
		Sequence uint64 `json:"sequence"`
	}
	if err := json.Unmarshal([]byte(s), &rec); err != nil {
		return keeperRec{}
	}
	return keeperRec{Present: true, Nonce: rec.Sequence, Code: rec.CodeHash != "" && rec.CodeHash != emptyCodeHashB64}
}

// totalOLT sums every OLT balance record and every fee record (pool and validator shares).
func (v *stateView) totalOLT() *big.Int {
	t := new(big.Int)
	for k, s := range v.m {
		if (strings.HasPrefix(k, "b_") && strings.HasSuffix(k, "_OLT")) || strings.HasPrefix(k, "f_") {
			if n := amountAny(s); n != nil {
				t.Add(t, n)
			}
		}
	}
	return t
}

func (v *stateView) acctToken(addr []byte) string {
	k := v.keeper(addr)
	if !k.Present {
		return fmt.Sprintf("%s=%s:~", hexAddr(addr), v.balance(addr))
	}
	return fmt.Sprintf("%s=%s:%d:%s", hexAddr(addr), v.balance(addr), k.Nonce, olvmB01(k.Code))
}

// changedKeys lists the keys whose value differs between two views (sorted).
func changedKeys(a, b *stateView) []string {
	var out []string
	for k, v := range b.m {
		if w, ok := a.m[k]; !ok || w != v {
			out = append(out, k)
		}
	}
	for k := range a.m {
		if _, ok := b.m[k]; !ok {
			out = append(out, k)
		}
	}
	sort.Strings(out)
	return out
}

func printableKey(k string) string {
	if strings.HasPrefix(k, "keeper_") {
		return "keeper_" + hex.EncodeToString([]byte(k[7:]))
	}
	if strings.HasPrefix(k, "contracts_") {
		return "contracts_" + hex.EncodeToString([]byte(k[10:]))
	}
	return k
}

// ---------------------------------------------------------------- implementation results, canonicalised

func deliverFull(r *Replica, tx []byte) abci.ResponseDeliverTx {
	r.aim()
	off := appLogSize()
	defer r.watch(off)
	return r.App.ABCI().DeliverTx(abci.RequestDeliverTx{Tx: tx})
}

func eventAttr(evs []abci.Event, typ, key string) ([]byte, bool) {
	for _, e := range evs {
		if e.Type != typ {
			continue
		}
		for _, a := range e.Attributes {
			if string(a.Key) == key {
				return a.Value, true
			}
		}
	}
	return nil, false
}

// vErrClass maps the log text of a refused OLVM transaction to the model's error enum.
func vErrClass(log string) string {
	tests := []struct{ sub, name string }{
		{"not enabled", "notEnabled"},
		{"payload is not in canonical encoding", "payloadEnc"},
		{"mismatch signer public key", "signerKey"},
		{"transaction type not supported", "txType"},
		{"invalid signatures count", "sigCount"},
		{"invalid chain id", "chainId"},
		{"mismatch sender", "sender"},
		{"invalid sender", "sender"},
		{"invalid fees currency", "feeCurrency"},
		{"fee price is smaller", "feePrice"},
		{"invalid fee currency", "currency"},
		{"address is the incorrect length", "address"},
		{"address is empty", "address"},
		{"address incorrect", "address"},
		{"oversized data", "oversized"},
		{"negative value", "negative"},
		{"exceeds block gas limit", "gasLimit"},
		{"nonce too low", "nonceLow"},
		{"insufficient funds for gas * price + value", "funds"},
		{"insufficient funds for transfer", "fundsTransfer"},
		{"intrinsic gas too low", "intrinsic"},
		{"wrong memo for nonce", "memoNonce"},
		{"strconv.ParseUint", "memoParse"},
		{"gas limit reached", "gasPool"},
		{"gas exceeds limit", "meter"},
		{"commit aborted due to earlier error", "meter"},
		{"sender not an eoa", "notEOA"},
		{"gas used exceed limit", "gasOverflow"},
		{"invalid signature length", "sigBad"},
		{"wrong signature length", "sigBad"},
		{"invalid transaction v, r, s values", "sigBad"},
	}
	for _, t := range tests {
		if strings.Contains(log, t.sub) {
			return t.name
		}
	}
	return "unclassified"
}

func implStage(code uint32, log string, gasWanted int64, evs []abci.Event) string {
	if code == 0 {
		if st, ok := eventAttr(evs, "olvm", "tx.status"); ok && string(st) == "1" {
			return "success"
		}
		return "reverted"
	}
	if strings.Contains(log, "vm execution error") {
		c := vErrClass(log)
		if c == "gasOverflow" {
			return c
		}
		if c == "meter" && strings.Contains(log, "fee response log") && !strings.Contains(log, "commit aborted") {
			return "feeRefused"
		}
		return "consensus:" + c
	}
	return "invalid:" + vErrClass(log)
}

// ---------------------------------------------------------------- the engine

type OlvmOptions struct {
	Driver    string
	Seed      uint64
	Histories int
	Blocks    int
	MaxTxs    int
	Only      int // >= 0: run only this case
}

const olvmRule = "case = one generated block history on the fork genesis family (Frankenstein block 1 or 2, 3 Ethereum-keyed accounts of which one nearly empty, 3 native accounts; every 6th case with a finite block gas limit, run through meter overflow (refused reads, transactions on a shut meter, fee step refused); cases 0-4 are scripted (4: in a block with a finite gas limit an OLVM tx of A is refused by the block gas pool after Validate passed, then a native SEND credits A, then an OLVM tx from A / to A executes: views, sender debit and total must be exact); the selfdestruct regression scenario (create / fund / trigger: beneficiary +5070, contract record 0, total unchanged), nonce re-use (S12), inner revert (nothing but the sender changes), pay-the-dead (P calls A which selfdestructs, then pays A 1: A gone, exactly 1 burnt)): mixes of OLVM transactions (plain transfers incl. to self / fresh / native-keyed addresses, creations of 6 hand-assembled contracts with and without value incl. failing init code and missing deposit gas, calls that succeed / revert / run out of gas / forward value / pay the caller back / selfdestruct, nonces above and below the state nonce and re-used, exact / one-short / absent funds, 27 ways of breaking a transaction) with native SENDs to the same accounts, contracts and future contract addresses, each offered to CheckTx first. Per transaction on the real application: native view == EVM view (balance, nonce) for every tracked account before and after; for an executed OLVM tx sender / recipient / contract-kind flows, fee pool += gasUsed*price, nonce+1, no other balance record changes, sum of all OLT records unchanged; for a refused one no key of the tree changes; per block a twin replica that never saw the refused transactions or any CheckTx has the same application hash. Correspondence: every DeliverTx / CheckTx of an OLVM tx is re-computed by the Lean model from the decoded pre-state records and the reference interpreter's outputs (go-ethereum EVM on go-ethereum's own state) and must give the same code, stage, gas used / wanted, fee pool and account records. non-trivial = at least one executed value transfer, one executed-but-reverted tx, one refused tx and one native transfer to an EVM-known account; distinct = SHA-256 of the history lines"

type olvmCase struct {
	opt    OlvmOptions
	c      int
	res    *Result
	hl     *HistoryLog
	ops    []string // model input lines
	impl   []string // implementation's canonical lines
	labels []string
}

// RunOlvm is the C17 engine.
func RunOlvm(opt OlvmOptions) (*Result, error) {
	res := NewResult("olvm", opt.Seed, olvmRule)
	root := rng.New(opt.Seed*977 + 41)
	seen := map[[32]byte]bool{}
	for c := 0; c < opt.Histories; c++ {
		r := root.Fork()
		if opt.Only >= 0 && c != opt.Only {
			continue
		}
		oc := &olvmCase{opt: opt, c: c, res: res, hl: &HistoryLog{}}
		oc.hl.Add("# replay: olh olvm -seed %d -histories %d -blocks %d -maxtxs %d -only %d", opt.Seed, opt.Histories, opt.Blocks, opt.MaxTxs, c)
		nontriv, err := oc.run(r)
		if err != nil {
			return nil, err
		}
		if err := oc.compare(); err != nil {
			return nil, err
		}
		res.Evaluations++
		h := sha256.Sum256([]byte(strings.Join(oc.hl.Lines, "\n")))
		if !seen[h] {
			seen[h] = true
			if nontriv {
				res.DistinctNontrivial++
			}
		}
		if len(res.Samples) < 2 && nontriv {
			res.Samples = append(res.Samples, shortAll(oc.ops[:min(len(oc.ops), 12)]))
		}
		TruncateAppLog()
	}
	return res, nil
}

func (oc *olvmCase) compare() error {
	if len(oc.ops) == 0 {
		return nil
	}
	model, err := kv.RunDriver(oc.opt.Driver, "olvm", oc.ops)
	if err != nil {
		return err
	}
	for i := range oc.ops {
		oc.res.Counters["lines_compared"]++
		path := ""
		if j := strings.Index(model[i], " path "); j >= 0 {
			path = model[i][j+6:]
			model[i] = model[i][:j]
			oc.res.Distribution["path:"+path]++
		}
		if model[i] != oc.impl[i] {
			oc.res.DisagreementCount++
			if len(oc.res.Disagreements) < 12 {
				oc.res.Disagreements = append(oc.res.Disagreements, Disagreement{Kind: "olvm-step", Case: oc.c, Op: oc.labels[i] + " | " + oc.ops[i], Impl: oc.impl[i], Model: model[i], Ops: oc.hl.Lines})
			}
		}
		f := strings.Fields(model[i])
		if len(f) >= 4 {
			oc.res.Distribution["model:"+strings.Fields(oc.ops[i])[0]+":"+f[3]]++
		}
	}
	return nil
}

func (oc *olvmCase) hit(sig, detail string) {
	oc.res.Hit(sig, oc.c, detail, oc.hl.Lines)
}

func (oc *olvmCase) run(r *rng.R) (bool, error) {
	res := oc.res
	fork := int64(1 + r.Intn(2))
	p := OlvmParams(oc.opt.Seed*1000+uint64(oc.c), fork)
	tight := oc.c%6 == 5 || oc.c == 4
	if tight {
		p.MaxGas = int64(150000 + r.Intn(450000))
		if oc.c == 4 {
			p.MaxGas = 400000
		}
	}
	w := NewOlvmWorld(p, 3)
	oc.hl.Add("genesis seed=%d fork=%d maxgas=%d eth=%d", p.Seed, fork, p.MaxGas, len(w.Eth))
	A, err := NewReplica(w.World, Identity{Name: "A", Val: w.Vals[0]})
	if err != nil {
		return false, err
	}
	defer A.Close()
	B, err := NewReplica(w.World, Identity{Name: "B", Val: w.Vals[0]})
	if err != nil {
		return false, err
	}
	defer B.Close()
	A.InitChain()
	B.InitChain()
	sim := NewSim(w.World)
	g := newOlvmGen(w, r.Fork())
	g.Tight = tight
	var script func(g *olvmGen, h int64) []*olvmOp
	switch oc.c {
	case 0:
		script = scriptSelfdestruct
	case 1:
		script = scriptNonceReuse
	case 2:
		script = scriptInnerRevert
	case 3:
		script = scriptPayTheDead
	case 4:
		script = scriptRefusedByGasPool
	}

	// tracked addresses: both views are compared for each of them around every transaction
	var tracked [][]byte
	trackedSet := map[string]bool{}
	track := func(a []byte) {
		if len(a) == 20 && !trackedSet[string(a)] {
			trackedSet[string(a)] = true
			tracked = append(tracked, append([]byte{}, a...))
		}
	}
	for _, e := range w.Eth {
		track(e.Addr)
	}
	for _, a := range w.Accts {
		track(a.Addr)
	}
	track(g.Target)
	track(g.Benef)
	confirmed := map[string]*contractInfo{} // contracts that really exist, by hex address

	base := A.DumpMap()
	executedValue, executedReverted, refused, nativeTouch := 0, 0, 0, 0
	usedNonces := map[string]map[uint64]string{} // sender -> nonce -> tx id of an EXECUTED tx (S12 observation)
	included := map[string]bool{}                // ids of transactions of earlier blocks: their bytes are answered from the tx index (C05)

	checkViews := func(when string, v *stateView) bool {
		ok := true
		for _, a := range tracked {
			nb, err := A.App.VerifNativeBalance(a, "OLT")
			if err != nil {
				continue
			}
			eb, en, _, live := A.App.VerifEVMAccount(a)
			res.Counters["view_comparisons"]++
			if nb.Cmp(eb) != 0 {
				oc.hit("native-and-evm-balance-differ", fmt.Sprintf("%s: account %x native view %s, EVM view %s (from live object: %v)", when, a, nb, eb, live))
				ok = false
			}
			if rec := v.balance(a); rec.Cmp(nb) != 0 {
				oc.hit("native-view-is-not-the-balance-record", fmt.Sprintf("%s: account %x native view %s, record b_..._OLT %s", when, a, nb, rec))
				ok = false
			}
			if k := v.keeper(a); k.Nonce != en {
				oc.hit("evm-nonce-is-not-the-keeper-record", fmt.Sprintf("%s: account %x EVM nonce %d, keeper record %d (present %v)", when, a, en, k.Nonce, k.Present))
				ok = false
			}
		}
		return ok
	}

	for bi := 0; bi < oc.opt.Blocks; bi++ {
		h := sim.Height + 1
		g.N.Height = h
		// re-sync the generator with the real state
		v0 := &stateView{base}
		for _, e := range w.Eth {
			g.Nonce[hexAddr(e.Addr)] = v0.keeper(e.Addr).Nonce
		}
		var ops []*olvmOp
		if script != nil {
			ops = script(g, h)
		}
		if script == nil || h > 8 {
			for i, n := 0, r.Intn(oc.opt.MaxTxs+1); i < n; i++ {
				if r.Intn(4) == 0 {
					ops = append(ops, g.nativeTouch())
				} else {
					ops = append(ops, g.next(v0.balance))
				}
			}
		}
		if tight && script == nil && h >= fork && r.Intn(3) == 0 {
			ops = append(ops, g.refusedByGasPoolPattern(r.Intn(2) == 0)...)
		}
		var txs [][]byte
		for _, o := range ops {
			txs = append(txs, o.Bytes)
			if o.Native == nil {
				track(o.From.Addr)
				if o.To != nil {
					track(*o.To)
				}
			}
		}
		b := sim.NextBlock(txs, BlockOpts{DtSeconds: int64(1 + r.Intn(5))})
		oc.hl.Add("block %d txs=%d", h, len(txs))

		// CheckTx first (mempool), on A only: correspondence of Validate, and isolation via the twin
		for i, o := range ops {
			if o.Native != nil {
				A.CheckTx(o.Bytes)
				continue
			}
			pre := checkViewOf(base, A) // the check state: last commit + what admitted CheckTx calls wrote
			checkShut, checkCrossing := false, false
			if tight {
				cl := p.MaxGas - int64(A.App.VerifCheckState().GetCalculator().GetConsumed())
				checkShut, checkCrossing = cl <= 0, cl > 0 && cl < 2500
			}
			line, _ := oc.modelLine("check", w, g, o, pre, h-1 >= fork, tracked, confirmed, b, p, A, false, checkShut)
			cr := A.CheckTx(o.Bytes)
			if checkShut {
				res.Counters["checktx_on_shut_meter"]++
			}
			if checkCrossing {
				res.Counters["check_meter_crossing_not_compared"]++
				continue
			}
			st := "accepted"
			if cr.Code != 0 {
				st = "invalid:" + vErrClass(cr.Log)
				if strings.Contains(cr.Log, "duplicated tx") {
					continue
				}
			}
			oc.ops = append(oc.ops, line)
			oc.impl = append(oc.impl, fmt.Sprintf("code %d stage %s", cr.Code, st))
			oc.labels = append(oc.labels, fmt.Sprintf("case %d block %d check %d (%s)", oc.c, h, i, o.Note))
			res.Distribution["check:"+st]++
		}
		if A.Crashed {
			oc.hit("app-closed-by-panic", fmt.Sprintf("CheckTx before block %d", h))
			return false, nil
		}

		A.SaveBlock(b)
		A.BeginBlock(b)
		br := &BlockResult{Height: h}
		var keepB [][]byte
		var keepRes []TxResult
		for i, o := range ops {
			// finite-block-gas family: the history runs through meter overflow. A transaction that
			// arrives on a shut meter (left <= 0) is modelled (Env.meterShut); while the meter crosses
			// its limit in the middle of Validate (0 < left < 2500) the outcome depends on which read is
			// the first refused one: monitors stay on, the model comparison is skipped.
			exhausted := false
			meterShut := false
			if tight {
				left := p.MaxGas - A.App.VerifConsumedGas()
				meterShut = left <= 0
				exhausted = left > 0 && left < 2500
				if meterShut {
					res.Counters["tight_tx_on_shut_meter"]++
				}
			}
			pre := olvmViewOf(base, A)
			if o.Native == nil && o.To == nil {
				fa := o.From.Addr
				if o.Tw.From != nil {
					fa = *o.Tw.From
				}
				track(ethcrypto.CreateAddress(ethcmn.BytesToAddress(fa), pre.keeper(fa).Nonce).Bytes())
			}
			checkViews(fmt.Sprintf("block %d before tx %d", h, i), pre)
			var line string
			var vm VmOut
			borderline := false
			if o.Native == nil {
				line, vm = oc.modelLine("deliver", w, g, o, pre, h >= fork, tracked, confirmed, b, p, A, true, meterShut)
				if tight {
					left := p.MaxGas - A.App.VerifConsumedGas()
					d := left - o.Gas
					// within 5000 of the limit the pool test, a refused read during Apply or the fee step
					// (contract gas takes the meter to its limit) decide; the harness cannot observe
					// the meter at those instants
					borderline = (d > -5000 && d < 5000 && !meterShut) || exhausted
					if d < 0 {
						res.Counters["tight_gas_pool_below_tx_gas"]++
					}
					if os.Getenv("OLH_DEBUG_GAS") != "" {
						fmt.Fprintf(os.Stderr, "case %d block %d tx %d left %d gas %d\n", oc.c, h, i, left, o.Gas)
					}
				}
			}
			rd := deliverFull(A, o.Bytes)
			if A.Crashed {
				oc.hit("app-closed-by-panic", fmt.Sprintf("block %d tx %d (%s)", h, i, o.Note))
				return false, nil
			}
			tr := TxResult{Code: rd.Code, Data: rd.Data, GasWanted: rd.GasWanted, GasUsed: rd.GasUsed, Log: rd.Log}
			br.Txs = append(br.Txs, tr)
			if rd.Code == 0 {
				keepB = append(keepB, o.Bytes)
				keepRes = append(keepRes, tr)
			}
			post := olvmViewOf(base, A)
			checkViews(fmt.Sprintf("block %d after tx %d (%s %s code %d)", h, i, o.kind(), o.Note, rd.Code), post)
			if n := A.App.VerifEVMLiveObjects(); n != 0 {
				res.Counters["live_objects_left_after_tx"] += n
			}
			oc.hl.Add("  tx %d %s (%s) code=%d gasUsed=%d %s", i, o.kind(), o.Note, rd.Code, rd.GasUsed, hex.EncodeToString(o.Bytes))
			if included[txID(o.Bytes)] {
				// byte-identical to a transaction of an earlier block: DeliverTx returns the indexed
				// response without executing (at-most-once, C05); it must not change anything
				res.Counters["byte_identical_resubmissions"]++
				if ck := changedKeys(pre, post); len(ck) > 0 {
					oc.hit("resubmitted-bytes-changed-state", fmt.Sprintf("block %d tx %d (%s): %d keys changed", h, i, o.Note, len(ck)))
				}
				continue
			}
			if o.Native != nil {
				res.Distribution[fmt.Sprintf("native:%s:%d", o.Native.Kind, rd.Code)]++
				if rd.Code == 0 && strings.HasPrefix(o.Note, "to-") {
					nativeTouch++
				}
				continue
			}
			stage := implStage(rd.Code, rd.Log, rd.GasWanted, rd.Events)
			res.Distribution["deliver:"+stage]++
			res.Distribution["note:"+strings.SplitN(o.Note, "+", 2)[0]+fmt.Sprintf(":%d", rd.Code)]++
			// correspondence line
			if !borderline {
				var toks []string
				for _, a := range tracked {
					toks = append(toks, post.acctToken(a))
				}
				oc.ops = append(oc.ops, line)
				burntImpl := new(big.Int).Sub(pre.totalOLT(), post.totalOLT()) // what left the ledger, from the records
				oc.impl = append(oc.impl, fmt.Sprintf("code %d stage %s used %d wanted %d pool %s burnt %s live %d accts %s", rd.Code, stage, rd.GasUsed, rd.GasWanted, post.pool(), burntImpl, A.App.VerifEVMLiveObjects(), strings.Join(toks, ",")))
				oc.labels = append(oc.labels, fmt.Sprintf("case %d block %d tx %d (%s) shadow-err=%q", oc.c, h, i, o.Note, vm.Err))
			} else {
				res.Counters["borderline_gas_pool_not_compared"]++
			}
			// the property monitor
			oc.monitorTx(w, g, o, rd, stage, pre, post, confirmed, usedNonces, fmt.Sprintf("block %d tx %d (%s)", h, i, o.Note))
			if rd.Code != 0 {
				refused++
			} else if stage == "reverted" {
				executedReverted++
			} else if o.Value.Sign() > 0 {
				executedValue++
			}
			// contracts that now exist
			if rd.Code == 0 && stage == "success" && o.To == nil {
				if ca, ok := eventAttr(rd.Events, "olvm", "tx.contract"); ok {
					track(ca)
					if o.Deploy != nil {
						confirmed[hexAddr(ca)] = o.Deploy
					}
				}
			}
		}
		eb := A.EndBlock(h)
		br.Updates = eb.ValidatorUpdates
		br.AppHash = A.Commit()
		A.IndexBlock(b, br)
		if A.Crashed {
			oc.hit("app-closed-by-panic", fmt.Sprintf("end of block %d", h))
			return false, nil
		}
		for _, tx := range txs {
			included[txID(tx)] = true
		}
		base = A.DumpMap()
		checkViews(fmt.Sprintf("after commit of block %d", h), &stateView{base})
		// twin: same block without the refused transactions, no CheckTx, no observation
		if !tight {
			b2 := *b
			b2.Txs = keepB
			rb := B.ExecBlock(&b2)
			exp := &BlockResult{Height: h, Txs: keepRes, Updates: br.Updates, AppHash: br.AppHash}
			res.Counters["twin_blocks"]++
			if rb.Transcript() != exp.Transcript() {
				oc.hit("refused-or-checked-tx-left-a-trace", fmt.Sprintf("block %d: %s | with refused txs and CheckTx: %.300s | without: %.300s", h, diffDumps(A.Dump(), B.Dump()), exp.Transcript(), rb.Transcript()))
				return true, nil
			}
		}
		sim.Absorb(b, br)
	}
	if len(sim.TMErrors) > 0 {
		res.Counters["tm_rejected_updates"] += len(sim.TMErrors)
	}
	return executedValue > 0 && executedReverted > 0 && refused > 0 && nativeTouch > 0, nil
}

// modelLine builds the input line of the Lean model for one OLVM transaction from the decoded
// pre-state records, the way the transaction was built, and the reference interpreter's outputs.
func (oc *olvmCase) modelLine(verb string, w *OlvmWorld, g *olvmGen, o *olvmOp, pre *stateView, enabled bool, tracked [][]byte, confirmed map[string]*contractInfo, b *Block, p Params, A *Replica, runShadow bool, meterShut bool) (string, VmOut) {
	var nz, z int
	for _, c := range o.Data {
		if c != 0 {
			nz++
		} else {
			z++
		}
	}
	var ethTo *ethcmn.Address
	if o.To != nil {
		a := ethcmn.BytesToAddress(*o.To)
		ethTo = &a
	}
	val := new(big.Int).Set(o.Value)
	size := 0
	if val.Sign() >= 0 {
		size = int(ethtypes.NewTx(&ethtypes.LegacyTx{Nonce: o.Nonce, To: ethTo, Value: val, Gas: uint64(o.Gas), GasPrice: o.Price, Data: o.Data}).Size())
	}
	memo := fmt.Sprint(o.Nonce)
	memoCanon := o.Tw.Memo == nil || *o.Tw.Memo == strconv.FormatUint(o.Nonce, 10)
	if o.Tw.Memo != nil {
		memo = "x"
		if n, err := strconv.ParseUint(*o.Tw.Memo, 10, 0); err == nil {
			memo = fmt.Sprint(n)
		}
	}
	sigs := 1
	if o.Tw.ExtraSig {
		sigs = 2
	}
	chainOk := !o.Tw.NilChainID && (o.Tw.PayloadChainID == nil || o.Tw.PayloadChainID.Cmp(w.EvmID) == 0)
	sigOk := o.Tw.SigLen == 0 || o.Tw.SigLen == 65
	signer := o.From
	if o.Tw.SignKey != nil {
		signer = o.Tw.SignKey
	}
	fromAddr := o.From.Addr
	if o.Tw.From != nil {
		fromAddr = *o.Tw.From
	}
	senderOk := bytes.Equal(signer.Addr, fromAddr) && (o.Tw.SignChainID == nil || o.Tw.SignChainID.Cmp(w.EvmID) == 0)
	envKey := signer
	if o.Tw.EnvelopeKey != nil {
		envKey = o.Tw.EnvelopeKey
	}
	signerKeyOk := bytes.Equal(envKey.Addr, fromAddr)
	typeOk := o.Tw.TxType == 0 && !o.Tw.AccessList
	feeCurOk := o.Tw.FeeCurrency == "" || o.Tw.FeeCurrency == "OLT"
	amtCurOk := o.Tw.Currency == "" || o.Tw.Currency == "OLT"
	stNonce := pre.keeper(fromAddr).Nonce
	newAddr := "~"
	if o.To == nil {
		newAddr = hexAddr(ethcrypto.CreateAddress(ethcmn.BytesToAddress(fromAddr), stNonce).Bytes())
	}
	gasPool := uint64(1) << 62
	if p.MaxGas >= 0 {
		left := p.MaxGas - A.App.VerifConsumedGas()
		if left < 0 {
			left = 0
		}
		gasPool = uint64(left)
	}
	// reference interpreter
	var vm VmOut
	intrinsic := uint64(21000)
	if o.To == nil {
		intrinsic = 53000
	}
	intrinsic += uint64(16*nz + 4*z)
	cost := new(big.Int).Mul(big.NewInt(o.Gas), o.Price)
	if runShadow && o.Gas > 0 && uint64(o.Gas) >= intrinsic && o.Gas <= 100000000 && val.Sign() >= 0 && pre.balance(fromAddr).Cmp(new(big.Int).Add(cost, val)) >= 0 {
		var accts []ShadowAcct
		add := func(a []byte) {
			k := pre.keeper(a)
			bal := pre.balance(a)
			if !k.Present && bal.Sign() == 0 {
				return
			}
			sa := ShadowAcct{Addr: a, Balance: bal, Nonce: k.Nonce}
			if k.Code {
				if ci := confirmed[hexAddr(a)]; ci != nil {
					sa.Code = ci.Runtime
					if ci.Kind == "toggle" {
						sa.Slot0 = A.App.VerifEVMStorage(a, ethcmn.Hash{})
					}
				}
			}
			accts = append(accts, sa)
		}
		for _, a := range tracked {
			add(a)
		}
		var to *[]byte
		if o.To != nil {
			t := []byte(*o.To)
			to = &t
		}
		var err error
		vm, err = ShadowRun(w.ChainID, b.Height, b.Time, b.Proposer, accts, fromAddr, to, val, o.Data, uint64(o.Gas), intrinsic, o.Price)
		if err != nil {
			vm.Err = err.Error()
			oc.res.Counters["shadow_errors"]++
		}
	}
	toTok := "~"
	if o.To != nil {
		toTok = hexAddr(*o.To)
	}
	var toks []string
	for _, a := range tracked {
		toks = append(toks, pre.acctToken(a))
	}
	addrOk := o.To == nil || len(*o.To) == 20
	line := fmt.Sprintf("%s %s 1000000000 %d %s %s %d %s %s %d %s %d %s %d %d %d %s %d %s %s %s %s %s %s %s %s %s %s %s %s %s %s",
		verb, olvmB01(enabled), gasPool, newAddr, olvmB01(meterShut), gasPool,
		hexAddr(fromAddr), toTok, o.Nonce, val, o.Gas, o.Price, nz, z, size, memo,
		sigs, olvmB01(sigOk), olvmB01(chainOk), olvmB01(senderOk), olvmB01(feeCurOk), olvmB01(amtCurOk), olvmB01(addrOk), olvmB01(o.Tw.NilChainID),
		olvmB01(!o.Tw.PayloadSpace), olvmB01(signerKeyOk), olvmB01(typeOk), olvmB01(memoCanon),
		vm.tokens(), pre.pool(), strings.Join(toks, ","))
	return line, vm
}

// monitorTx evaluates the property's own predicate for one delivered OLVM transaction on the
// implementation's observed records (independent of the Lean model and of the shadow interpreter).
func (oc *olvmCase) monitorTx(w *OlvmWorld, g *olvmGen, o *olvmOp, rd abci.ResponseDeliverTx, stage string, pre, post *stateView, confirmed map[string]*contractInfo, usedNonces map[string]map[uint64]string, where string) {
	res := oc.res
	changed := changedKeys(pre, post)
	fromAddr := o.From.Addr
	if o.Tw.From != nil {
		fromAddr = *o.Tw.From
	}
	if rd.Code != 0 {
		// a refused transaction changes nothing
		if len(changed) > 0 {
			var pk []string
			for _, k := range changed {
				pk = append(pk, printableKey(k))
			}
			oc.hit("refused-olvm-tx-changed-state", fmt.Sprintf("%s: code %d stage %s but keys changed: %s", where, rd.Code, stage, strings.Join(pk, " ")))
		}
		if rd.GasUsed != 0 {
			oc.hit("refused-olvm-tx-reports-gas", fmt.Sprintf("%s: code %d gas used %d", where, rd.Code, rd.GasUsed))
		}
		return
	}
	res.Counters["executed_olvm_txs"]++
	delta := func(a []byte) *big.Int { return new(big.Int).Sub(post.balance(a), pre.balance(a)) }
	fee := new(big.Int).Mul(big.NewInt(rd.GasUsed), o.Price)
	moved := stage == "success"
	value := new(big.Int).Set(o.Value)
	if !moved {
		value = new(big.Int)
	}
	// expected flows, per address, from the kind of the recipient
	exp := map[string]*big.Int{}
	addExp := func(a []byte, n *big.Int) {
		k := string(a)
		if exp[k] == nil {
			exp[k] = new(big.Int)
		}
		exp[k].Add(exp[k], n)
	}
	addExp(fromAddr, new(big.Int).Neg(fee))
	addExp(fromAddr, new(big.Int).Neg(value))
	selfdestructed := []byte(nil)
	burn := new(big.Int) // what the transaction is expected to take out of the ledger
	var rcpt []byte
	if o.To != nil {
		rcpt = *o.To
	} else if ca, ok := eventAttr(rd.Events, "olvm", "tx.contract"); ok {
		rcpt = ca
	} else {
		rcpt = ethcrypto.CreateAddress(ethcmn.BytesToAddress(fromAddr), pre.keeper(fromAddr).Nonce).Bytes()
	}
	ci := (*contractInfo)(nil)
	if o.To != nil && pre.keeper(rcpt).Code {
		ci = confirmed[hexAddr(rcpt)]
	}
	switch {
	case ci == nil || !moved:
		addExp(rcpt, value)
	case ci.Kind == "forward":
		if tc := confirmed[hexAddr(ci.Target)]; tc != nil && tc.Kind == "revert" && pre.keeper(ci.Target).Code {
			addExp(rcpt, value) // the inner call reverts: the forwarder keeps what it received
		} else {
			addExp(ci.Target, value)
		}
	case ci.Kind == "payback":
		half := new(big.Int).Div(value, big.NewInt(2))
		addExp(rcpt, new(big.Int).Sub(value, half))
		addExp(fromAddr, half)
	case ci.Kind == "destruct" && len(o.Data) > 0:
		// SELFDESTRUCT: everything the contract holds (old balance + value) goes to the beneficiary
		old := pre.balance(rcpt)
		addExp(rcpt, new(big.Int).Neg(old))
		addExp(ci.Target, new(big.Int).Add(old, value))
		selfdestructed = rcpt
		res.Counters["selfdestructs_checked"]++
	case ci.Kind == "paydead":
		// P calls A with data (A pays its beneficiary everything and selfdestructs), then pays A 1:
		// A is deleted with that 1, which is burnt. If A is no contract (any more) it just gets the 1.
		addExp(rcpt, value)
		one := big.NewInt(1)
		funded := new(big.Int).Add(pre.balance(rcpt), value).Sign() > 0
		ta := confirmed[hexAddr(ci.Target)]
		if ta != nil && ta.Kind == "destruct" && pre.keeper(ci.Target).Code {
			old := pre.balance(ci.Target)
			addExp(ci.Target, new(big.Int).Neg(old))
			addExp(ta.Target, old)
			selfdestructed = ci.Target
			if funded {
				addExp(rcpt, new(big.Int).Neg(one))
				burn = one
			}
			res.Counters["pay_the_dead_checked"]++
		} else if funded {
			addExp(rcpt, new(big.Int).Neg(one))
			addExp(ci.Target, one)
		}
	default:
		addExp(rcpt, value)
	}
	// 1. fee pool credited exactly gasUsed * price
	if d := new(big.Int).Sub(post.pool(), pre.pool()); d.Cmp(fee) != 0 {
		oc.hit("fee-pool-credit-is-not-gas-used-times-price", fmt.Sprintf("%s: gas used %d x price %s = %s, fee pool changed by %s", where, rd.GasUsed, o.Price, fee, d))
	}
	if rd.GasUsed <= 0 || rd.GasUsed > o.Gas {
		oc.hit("gas-used-outside-limit", fmt.Sprintf("%s: gas used %d, limit %d", where, rd.GasUsed, o.Gas))
	}
	// 2. sender, recipient and everybody named by the contract kind
	sd := selfdestructed != nil && post.balance(selfdestructed).Sign() != 0 && !post.keeper(selfdestructed).Present
	for k, e := range exp {
		a := []byte(k)
		d := delta(a)
		if d.Cmp(e) == 0 {
			continue
		}
		switch {
		case sd && bytes.Equal(a, selfdestructed):
			// reported once below under its own signature
		case bytes.Equal(a, fromAddr):
			oc.hit("sender-debit-is-not-gas-plus-value", fmt.Sprintf("%s: sender %s balance changed by %s, expected %s (gas used %d x price %s, value moved %s, stage %s)", where, hexAddr(a), d, e, rd.GasUsed, o.Price, value, stage))
		default:
			oc.hit("recipient-credit-is-not-the-transferred-value", fmt.Sprintf("%s: account %s balance changed by %s, expected %s (value %s, stage %s, recipient kind %v)", where, hexAddr(a), d, e, o.Value, stage, ci))
		}
	}
	if sd {
		oc.hit("selfdestructed-contract-keeps-its-balance-record", fmt.Sprintf("%s: contract %s selfdestructed (keeper record removed, %s sent to the beneficiary) but its record b_..._OLT still holds %s", where, hexAddr(selfdestructed), new(big.Int).Add(pre.balance(selfdestructed), value), post.balance(selfdestructed)))
		res.Counters["s8_selfdestruct_balance_survives"]++
	}
	// 3. nobody else
	for _, k := range changed {
		if strings.HasPrefix(k, "b_") {
			known := false
			for a := range exp {
				if k == "b_"+AddrStr([]byte(a))+"_OLT" {
					known = true
				}
			}
			if !known {
				oc.hit("unrelated-balance-record-changed", fmt.Sprintf("%s: %s %q -> %q", where, k, pre.m[k], post.m[k]))
			}
		} else if !strings.HasPrefix(k, "keeper_") && !strings.HasPrefix(k, "contracts_") && k != "f_00000000000000000000" {
			oc.hit("unrelated-record-changed", fmt.Sprintf("%s: %s", where, printableKey(k)))
		}
	}
	// 4. nothing created, nothing lost
	if t0, t1 := pre.totalOLT(), post.totalOLT(); new(big.Int).Sub(t0, burn).Cmp(t1) != 0 && !sd {
		oc.hit("olvm-tx-changed-the-total", fmt.Sprintf("%s: sum of all OLT balance and fee records %s -> %s (%s), expected to shrink by %s (paid to a contract after its selfdestruct)", where, t0, t1, new(big.Int).Sub(t1, t0), burn))
	}
	if selfdestructed != nil && stage == "success" && (post.keeper(selfdestructed).Present || post.balance(selfdestructed).Sign() != 0) && !sd {
		oc.hit("selfdestructed-contract-not-deleted", fmt.Sprintf("%s: contract %s after its SELFDESTRUCT: keeper record present %v, balance record %s", where, hexAddr(selfdestructed), post.keeper(selfdestructed).Present, post.balance(selfdestructed)))
	}
	// 5. nonce + 1
	n0, n1 := pre.keeper(fromAddr).Nonce, post.keeper(fromAddr).Nonce
	if n1 != n0+1 {
		oc.hit("nonce-not-raised-by-one", fmt.Sprintf("%s: sender %s nonce %d -> %d (tx nonce %d, stage %s)", where, hexAddr(fromAddr), n0, n1, o.Nonce, stage))
	}
	// S12 (observation, outside the statement of C17): executed although the nonce is not the state nonce / nonce used twice
	if o.Nonce != n0 {
		res.Counters["s12_executed_with_nonce_above_state"]++
	}
	sk := hexAddr(fromAddr)
	if usedNonces[sk] == nil {
		usedNonces[sk] = map[uint64]string{}
	}
	id := txID(o.Bytes)
	if prev, ok := usedNonces[sk][o.Nonce]; ok && prev != id {
		res.Counters["s12_nonce_used_by_two_different_executed_txs"]++
	}
	usedNonces[sk][o.Nonce] = id
}

// ---------------------------------------------------------------- scripted scenarios (witnesses of the Lean counterexamples)

// scriptSelfdestruct: create the destruct contract, fund it (plain call with value), then trigger
// SELFDESTRUCT with more value (S8; Lean: selfdestruct_creates_value).
func scriptSelfdestruct(g *olvmGen, h int64) []*olvmOp {
	e := g.W.Eth[0]
	n := g.Nonce[hexAddr(e.Addr)]
	ci := &contractInfo{Kind: "destruct", Runtime: rtDestruct(g.Benef), Target: g.Benef}
	switch h {
	case 3:
		op := g.mkOlvm(e, nil, n, big.NewInt(0), initCode(ci.Runtime), 200000, defaultPrice, OlvmTweak{}, "script:create-destruct")
		op.Deploy = ci
		a := hexAddr(ethcrypto.CreateAddress(e.Eth(), n).Bytes())
		g.Contracts[a] = ci
		g.Order = append(g.Order, a)
		return []*olvmOp{op}
	case 4, 5:
		if len(g.Order) == 0 {
			return nil
		}
		ab, _ := hex.DecodeString(g.Order[0])
		to := keys.Address(ab)
		if h == 4 {
			return []*olvmOp{g.mkOlvm(e, &to, n, big.NewInt(5000), nil, 100000, defaultPrice, OlvmTweak{}, "script:fund-destruct")}
		}
		return []*olvmOp{g.mkOlvm(e, &to, n, big.NewInt(70), []byte{1}, 100000, defaultPrice, OlvmTweak{}, "script:trigger-destruct")}
	}
	return nil
}

// scriptNonceReuse: nonce state+2 executes, then a different transaction with the same nonce
// executes as well (S12).
func scriptNonceReuse(g *olvmGen, h int64) []*olvmOp {
	e, t := g.W.Eth[0], g.W.Eth[1]
	n := g.Nonce[hexAddr(e.Addr)]
	switch h {
	case 3:
		return []*olvmOp{g.mkOlvm(e, &t.Addr, n+2, big.NewInt(11), nil, 21000, defaultPrice, OlvmTweak{}, "script:nonce-gap+2")}
	case 4:
		return []*olvmOp{g.mkOlvm(e, &t.Addr, 2, big.NewInt(22), nil, 21000, defaultPrice, OlvmTweak{}, "script:nonce-reuse")}
	}
	return nil
}

// scriptInnerRevert: a forwarder whose target is a contract that reverts: the inner call fails,
// its value transfer is undone (the journal keeps the two addresses dirty), the outer call succeeds
// and the forwarder keeps the value. Then a creation at a pre-funded address whose init code reverts.
func scriptInnerRevert(g *olvmGen, h int64) []*olvmOp {
	e := g.W.Eth[0]
	n := g.Nonce[hexAddr(e.Addr)]
	reg := func(n uint64, ci *contractInfo) keys.Address {
		a := ethcrypto.CreateAddress(e.Eth(), n).Bytes()
		if _, ok := g.Contracts[hexAddr(a)]; !ok {
			g.Contracts[hexAddr(a)] = ci
			g.Order = append(g.Order, hexAddr(a))
		}
		return keys.Address(a)
	}
	switch h {
	case 3:
		rv := &contractInfo{Kind: "revert", Runtime: rtRevert()}
		ra := reg(n, rv)
		fw := &contractInfo{Kind: "forward", Runtime: rtForward(ra), Target: ra}
		reg(n+1, fw)
		o1 := g.mkOlvm(e, nil, n, big.NewInt(0), initCode(rv.Runtime), 200000, defaultPrice, OlvmTweak{}, "script:create-reverter")
		o1.Deploy = rv
		o2 := g.mkOlvm(e, nil, n+1, big.NewInt(0), initCode(fw.Runtime), 200000, defaultPrice, OlvmTweak{}, "script:create-forwarder-to-reverter")
		o2.Deploy = fw
		return []*olvmOp{o1, o2}
	case 4:
		if len(g.Order) < 2 {
			return nil
		}
		ab, _ := hex.DecodeString(g.Order[1])
		to := keys.Address(ab)
		return []*olvmOp{g.mkOlvm(e, &to, n, big.NewInt(900), nil, 150000, defaultPrice, OlvmTweak{}, "script:call-forwarder-inner-revert")}
	case 5:
		a := g.W.Accts[0]
		fut := keys.Address(ethcrypto.CreateAddress(e.Eth(), n).Bytes())
		t := g.N.mk("SEND", "to-future-contract", &transfer.Send{From: a.Addr, To: fut, Amount: OLT(2)}, a)
		return []*olvmOp{{Native: &t, Note: "to-future-contract", Bytes: t.Bytes},
			g.mkOlvm(e, nil, n, big.NewInt(3), rtRevert(), 100000, defaultPrice, OlvmTweak{}, "script:create-at-prefunded-address-init-reverts")}
	}
	return nil
}

// refusedByGasPoolPattern: three transactions for one block of the finite-block-gas family. (1) an
// OLVM transfer of X whose gas limit is far above what the block has left: Validate passes, the
// state transition refuses it at the block gas pool ("gas limit reached") after it has read X
// through the EVM adapter; it must change nothing. (2) a native SEND that credits X. (3) an OLVM
// transfer from X (or to X) that executes: it must see the credited balance.
func (g *olvmGen) refusedByGasPoolPattern(fromX bool) []*olvmOp {
	x, y := g.W.Eth[0], g.W.Eth[1]
	if g.R.Intn(2) == 0 {
		x, y = y, x
	}
	n := g.Nonce[hexAddr(x.Addr)]
	o1 := g.mkOlvm(x, &y.Addr, n, big.NewInt(5), nil, 50000000, defaultPrice, OlvmTweak{}, "gas-limit-above-block-gas-left:tight")
	a := g.W.Accts[g.R.Intn(len(g.W.Accts))]
	t := g.N.mk("SEND", "to-eth-account", &transfer.Send{From: a.Addr, To: x.Addr, Amount: OLT(int64(1 + g.R.Intn(5)))}, a)
	o2 := &olvmOp{Native: &t, Note: "to-eth-account", Bytes: t.Bytes}
	var o3 *olvmOp
	if fromX {
		o3 = g.mkOlvm(x, &y.Addr, n, big.NewInt(int64(1+g.R.Intn(1000))), nil, 21000, defaultPrice, OlvmTweak{}, "transfer-after-pool-refusal:tight")
		g.Nonce[hexAddr(x.Addr)] = n + 1
	} else {
		m := g.Nonce[hexAddr(y.Addr)]
		o3 = g.mkOlvm(y, &x.Addr, m, big.NewInt(int64(1+g.R.Intn(1000))), nil, 21000, defaultPrice, OlvmTweak{}, "transfer-to-account-of-pool-refusal:tight")
		g.Nonce[hexAddr(y.Addr)] = m + 1
	}
	return []*olvmOp{o1, o2, o3}
}

// scriptRefusedByGasPool: block 3 the pattern with the executed transfer FROM the refused sender,
// block 4 with the executed transfer TO it (finite block gas limit 400000).
func scriptRefusedByGasPool(g *olvmGen, h int64) []*olvmOp {
	switch h {
	case 3:
		return g.refusedByGasPoolPattern(true)
	case 4:
		return g.refusedByGasPoolPattern(false)
	}
	return nil
}

// scriptPayTheDead: A is a destruct contract holding 5000; P calls A with data (A pays its
// beneficiary and selfdestructs) and then pays A 1 out of the 10 it was sent: A is deleted with
// that 1 (keeper and balance record gone), the beneficiary has +5000, P +9, the total shrinks by 1.
func scriptPayTheDead(g *olvmGen, h int64) []*olvmOp {
	e := g.W.Eth[0]
	n := g.Nonce[hexAddr(e.Addr)]
	switch h {
	case 3:
		ca := &contractInfo{Kind: "destruct", Runtime: rtDestruct(g.Benef), Target: g.Benef}
		aa := ethcrypto.CreateAddress(e.Eth(), n).Bytes()
		cp := &contractInfo{Kind: "paydead", Runtime: rtPayDead(keys.Address(aa)), Target: keys.Address(aa)}
		pa := ethcrypto.CreateAddress(e.Eth(), n+1).Bytes()
		for _, x := range []struct {
			a []byte
			c *contractInfo
		}{{aa, ca}, {pa, cp}} {
			if _, ok := g.Contracts[hexAddr(x.a)]; !ok {
				g.Contracts[hexAddr(x.a)] = x.c
				g.Order = append(g.Order, hexAddr(x.a))
			}
		}
		o1 := g.mkOlvm(e, nil, n, big.NewInt(0), initCode(ca.Runtime), 200000, defaultPrice, OlvmTweak{}, "script:create-destruct")
		o1.Deploy = ca
		o2 := g.mkOlvm(e, nil, n+1, big.NewInt(0), initCode(cp.Runtime), 250000, defaultPrice, OlvmTweak{}, "script:create-paydead")
		o2.Deploy = cp
		return []*olvmOp{o1, o2}
	case 4, 5:
		if len(g.Order) < 2 {
			return nil
		}
		ab, _ := hex.DecodeString(g.Order[0])
		pb, _ := hex.DecodeString(g.Order[1])
		a, p := keys.Address(ab), keys.Address(pb)
		if h == 4 {
			return []*olvmOp{g.mkOlvm(e, &a, n, big.NewInt(5000), nil, 100000, defaultPrice, OlvmTweak{}, "script:fund-destruct")}
		}
		return []*olvmOp{g.mkOlvm(e, &p, n, big.NewInt(10), nil, 250000, defaultPrice, OlvmTweak{}, "script:pay-the-dead")}
	}
	return nil
}

var _ = base64.StdEncoding

// OlvmReplayOptions reads the "# replay: olh olvm -seed S -histories H -blocks B -maxtxs M -only C"
// line of a replay file (every history of this engine is a function of those numbers).
func OlvmReplayOptions(path string, opt *OlvmOptions) error {
	b, err := ioutil.ReadFile(path)
	if err != nil {
		return err
	}
	for _, l := range strings.Split(string(b), "\n") {
		if i := strings.Index(l, "# replay: olh olvm "); i >= 0 {
			var s uint64
			var hh, bb, mm, cc int
			if _, err := fmt.Sscanf(l[i:], "# replay: olh olvm -seed %d -histories %d -blocks %d -maxtxs %d -only %d", &s, &hh, &bb, &mm, &cc); err != nil {
				return err
			}
			opt.Seed, opt.Histories, opt.Blocks, opt.MaxTxs, opt.Only = s, hh, bb, mm, cc
			return nil
		}
	}
	return fmt.Errorf("%s: no '# replay: olh olvm' line", path)
}

// OlvmPrintFindings prints monitor hits and disagreements of a replayed case.
func OlvmPrintFindings(out io.Writer, res *Result) {
	for _, h := range res.MonitorHits {
		fmt.Fprintf(out, "MONITOR %s case %d: %s\n", h.Signature, h.Case, h.Detail)
	}
	for _, d := range res.Disagreements {
		fmt.Fprintf(out, "DISAGREEMENT %s\n  op    %s\n  impl  %s\n  model %s\n", d.Kind, d.Op, d.Impl, d.Model)
	}
}

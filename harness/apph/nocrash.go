package apph

import (
	"bufio"
	"bytes"
	"encoding/hex"
	"encoding/json"
	"fmt"
	aeth "github.com/Oneledger/protocol/action/eth"
	"github.com/ethereum/go-ethereum/common"
	"github.com/ethereum/go-ethereum/core/types"
	"github.com/ethereum/go-ethereum/rlp"
	"io/ioutil"
	"math/big"
	"os"
	"os/exec"
	"sort"
	"strings"
	"sync"
	"time"

	"github.com/Oneledger/protocol/action"
	agov "github.com/Oneledger/protocol/action/governance"
	adeleg "github.com/Oneledger/protocol/action/network_delegation"
	aolvm "github.com/Oneledger/protocol/action/olvm"
	"github.com/Oneledger/protocol/action/transfer"
	"github.com/Oneledger/protocol/data/balance"
	"github.com/Oneledger/protocol/data/keys"
	"github.com/Oneledger/protocol/utils"

	"olverif/harness/rng"
)

// C18: no transaction input can crash or halt the node. Inputs are executed in CHILD processes so
// that os.Exit (logger.Fatal), runtime panics swallowed by handlePanic (the application closes
// itself) and hangs are observed from outside; after every input a probe SEND must still succeed.

// HostileInput is one labelled byte string.
type HostileInput struct {
	Label string
	Tx    []byte
}

func (w *World) acctOf(a keys.Address) *Acct {
	for _, x := range w.Accts {
		if x.Addr.Equal(a) {
			return x
		}
	}
	for _, v := range w.Vals {
		if v.Key.Addr.Equal(a) {
			return v.Key
		}
		if v.Owner.Addr.Equal(a) {
			return v.Owner
		}
	}
	return nil
}

var hostileStrings = []string{"", "XYZ", "OLT ", "olt", strings.Repeat("A", 5000), "\u0000", "a.b.c.d.e.ol", ".ol", "ol", "0lt", "0ltzz", "💣.ol", "\"", "\\"}
var hostileNumbers = []string{"-1", "0", "9223372036854775807", "9223372036854775808", "-9223372036854775809", "1e40", "1.5", "18446744073709551617", "-18446744073709551616"}

// mutateJSON walks a decoded JSON value and replaces one randomly chosen leaf (or object) by a
// hostile value of the same or a different type.
func mutateJSON(v interface{}, r *rng.R, path string, out *string) interface{} {
	type slot struct {
		set  func(interface{})
		cur  interface{}
		path string
	}
	var slots []slot
	var walk func(x interface{}, p string, set func(interface{}))
	walk = func(x interface{}, p string, set func(interface{})) {
		slots = append(slots, slot{set, x, p})
		switch t := x.(type) {
		case map[string]interface{}:
			ks := make([]string, 0, len(t))
			for k := range t {
				ks = append(ks, k)
			}
			sort.Strings(ks)
			for _, k := range ks {
				k := k
				walk(t[k], p+"."+k, func(n interface{}) { t[k] = n })
			}
		case []interface{}:
			for i := range t {
				i := i
				walk(t[i], fmt.Sprintf("%s[%d]", p, i), func(n interface{}) { t[i] = n })
			}
		}
	}
	root := v
	walk(v, path, func(n interface{}) { root = n })
	s := slots[r.Intn(len(slots))]
	var nv interface{}
	switch s.cur.(type) {
	case string:
		switch r.Intn(4) {
		case 0:
			nv = nil
		case 1:
			nv = json.Number(hostileNumbers[r.Intn(len(hostileNumbers))])
		default:
			nv = hostileStrings[r.Intn(len(hostileStrings))]
		}
	case json.Number:
		switch r.Intn(4) {
		case 0:
			nv = hostileStrings[r.Intn(len(hostileStrings))]
		case 1:
			nv = nil
		default:
			nv = json.Number(hostileNumbers[r.Intn(len(hostileNumbers))])
		}
	case bool:
		nv = "true"
	case map[string]interface{}:
		switch r.Intn(3) {
		case 0:
			nv = nil
		case 1:
			nv = map[string]interface{}{}
		default:
			nv = []interface{}{}
		}
	default:
		nv = map[string]interface{}{"x": json.Number("1")}
	}
	*out = fmt.Sprintf("%s:=%v", s.path, short(fmt.Sprint(nv)))
	if len(*out) > 80 {
		*out = (*out)[:80]
	}
	s.set(nv)
	return root
}

// HostileFrom derives a correctly signed transaction whose payload has one hostile field.
func (g *Gen) HostileFrom(base GenTx) (HostileInput, bool) {
	st, ok := parseSigned(base.Bytes)
	if !ok {
		return HostileInput{}, false
	}
	dec := json.NewDecoder(bytes.NewReader(st.Data))
	dec.UseNumber()
	var m interface{}
	if dec.Decode(&m) != nil {
		return HostileInput{}, false
	}
	var what string
	m = mutateJSON(m, g.R, "", &what)
	nd, err := json.Marshal(m)
	if err != nil {
		return HostileInput{}, false
	}
	raw := st.RawTx
	raw.Data = nd
	raw.Memo = g.nextMemo()
	var signers []*Acct
	for _, s := range base.Signer {
		if a := g.W.acctOf(s); a != nil {
			signers = append(signers, a)
		}
	}
	return HostileInput{Label: base.Kind + " " + what, Tx: Sign(raw, signers...)}, true
}

// crashTable: the model-guided inputs (DESIGN §6 C18 crash-site table): correctly signed
// transactions aimed at every crash site found by reading.
func (g *Gen) crashTable() []HostileInput {
	var out []HostileInput
	add := func(label string, t GenTx) { out = append(out, HostileInput{label, t.Bytes}) }
	a := g.acct()
	unk := func(n int64) action.Amount { return action.Amount{Currency: "XYZ", Value: *balance.NewAmount(n)} }
	empty := func(n int64) action.Amount { return action.Amount{Currency: "", Value: *balance.NewAmount(n)} }
	vt := func(n int64) action.Amount { return action.Amount{Currency: "VT", Value: *balance.NewAmount(n)} }
	for _, am := range []struct {
		n string
		a action.Amount
	}{{"unknown-currency", unk(5)}, {"empty-currency", empty(5)}, {"other-currency", vt(5)}, {"negative", amtOf("OLT", big.NewInt(-5))}} {
		add("DELEGATE "+am.n, g.mk("DELEGATE", "crash-table", &adeleg.AddNetworkDelegation{DelegationAddress: a.Addr, Amount: am.a}, a))
		add("UNDELEGATE "+am.n, g.mk("UNDELEGATE", "crash-table", &adeleg.Undelegate{Delegator: a.Addr, Amount: am.a}, a))
		add("DELEG_WITHDRAW "+am.n, g.mk("DELEG_WITHDRAW", "crash-table", &adeleg.Withdraw{Delegator: a.Addr, Amount: am.a}, a))
		add("DELEG_REINVEST "+am.n, g.mk("DELEG_REINVEST", "crash-table", &adeleg.Reinvest{Delegator: a.Addr, Amount: am.a}, a))
		add("SEND "+am.n, g.mk("SEND", "crash-table", &transfer.Send{From: a.Addr, To: g.acct().Addr, Amount: am.a}, a))
		add("SENDPOOL "+am.n, g.mk("SENDPOOL", "crash-table", &transfer.SendPool{From: a.Addr, PoolName: "BountyPool", Amount: am.a}, a))
	}
	// fee in an unknown currency / empty signer list / nil funding goal
	f := DefaultFee()
	f.Price.Currency = "XYZ"
	add("SEND fee-unknown-currency", GenTx{Bytes: Sign(RawOf(&transfer.Send{From: a.Addr, To: a.Addr, Amount: OLT(1)}, f, g.nextMemo()), a)})
	add("SEND no-signatures", GenTx{Bytes: Sign(RawOf(&transfer.Send{From: a.Addr, To: a.Addr, Amount: OLT(1)}, DefaultFee(), g.nextMemo()))})
	add("PROPOSAL_CREATE nil-funding-goal", g.mk("PROPOSAL_CREATE", "crash-table", &agov.CreateProposal{ProposalID: pid("crash"), ProposalType: 0x22, Headline: "h", Description: "d",
		Proposer: a.Addr, InitialFunding: action.Amount{Currency: "OLT", Value: *balance.NewAmount(1000000000)}, FundingDeadline: g.Height + 3, FundingGoal: nil, VotingDeadline: g.Height + 7, PassPercentage: 51}, a))
	// raw byte strings
	for _, raw := range []string{"", "{}", "null", "[]", "\"x\"", "{\"type\":1}", "{\"type\":1,\"data\":\"e30=\",\"fee\":{},\"memo\":\"m\",\"signatures\":null}",
		"{\"type\":257,\"data\":\"AAAA\",\"fee\":{\"price\":{\"currency\":\"OLT\",\"value\":\"1\"},\"gas\":1},\"memo\":\"0\",\"signatures\":[]}",
		strings.Repeat("[", 2000), strings.Repeat("{\"a\":", 500) + "1" + strings.Repeat("}", 500)} {
		out = append(out, HostileInput{"raw " + short(raw), []byte(raw)})
	}
	for i := 0; i < 6; i++ {
		out = append(out, HostileInput{fmt.Sprintf("random-bytes-%d", i), g.R.Bytes(1 + g.R.Intn(300))})
	}
	// OLVM payloads (the fork is active from block 1 in this world): hostile envelope parts that
	// are consumed before any signature or balance check
	olvm := func(label string, chain *big.Int, sig []byte, nsig int, amount action.Amount) {
		to := g.acct().Addr
		msg := aolvm.Transaction{Nonce: 0, From: a.Addr, To: &to, Amount: amount, Data: nil, ChainID: chain}
		data, _ := msg.Marshal()
		st := action.SignedTx{RawTx: action.RawTx{Type: action.OLVM, Data: data, Fee: DefaultFee(), Memo: "0"}}
		for i := 0; i < nsig; i++ {
			st.Signatures = append(st.Signatures, action.Signature{Signer: a.Pub, Signed: sig})
		}
		out = append(out, HostileInput{"OLVM " + label, serSigned(&st)})
	}
	cid := utils.HashToBigInt(g.W.ChainID)
	olvm("nil-chain-id", nil, make([]byte, 65), 1, OLT(1))
	olvm("short-signature", cid, make([]byte, 64), 1, OLT(1))
	olvm("empty-signature", cid, nil, 1, OLT(1))
	olvm("long-signature", cid, make([]byte, 66), 1, OLT(1))
	olvm("no-signatures", cid, nil, 0, OLT(1))
	olvm("two-signatures", cid, make([]byte, 65), 2, OLT(1))
	olvm("zero-signature", cid, make([]byte, 65), 1, OLT(1))
	olvm("unknown-currency", cid, make([]byte, 65), 1, action.Amount{Currency: "XYZ", Value: *balance.NewAmount(1)})
	olvm("negative-chain-id", big.NewInt(-1), make([]byte, 65), 1, OLT(1))
	return out
}

// NoCrashInputs builds the deterministic input list for a seed.
func NoCrashInputs(seed uint64, fuzz int) (*OlvmWorld, []HostileInput) {
	p := SmallParams(seed)
	p.NVals, p.TopValidators = 4, 4
	// fork family: OLVM is enabled from block 1, genesis validators stake enough to survive it
	p.Frankenstein = 1
	p.GenesisStake = []int64{600000, 500000, 700000, 500001, 500002, 500003}
	// Ethereum lock/redeem handlers are reachable (chain-driver option, two witnesses) and two
	// Ethereum-keyed accounts are funded, so that correctly signed OLVM transactions execute
	p.Witnesses = 2
	p.ETH = EthOption(100000, 100000)
	// every fourth seed: a finite block gas limit in the consensus parameters; the child then fills
	// each block the way Tendermint's mempool does (gas wanted, as answered by CheckTx, summed up
	// to the limit), so that the block hooks meet a block gas meter that is used up
	if seed%4 == 3 {
		p.MaxGas = int64(120000 + 40000*(seed%5))
	}
	ow := NewOlvmWorld(p, 3)
	w := ow.World
	r := rng.New(seed*7 + 1)
	g := NewGen(w, r)
	g.Height = 6
	in := g.crashTable()
	in = append(in, g.bidCrashTable(len(in))...)
	in = append(in, g.ethCrashTable()...)
	in = append(in, olvmCrashTable(ow, r)...)
	// seed some objects so that kinds referring to proposals / domains / requests have targets
	for i := 0; i < 40; i++ {
		g.Next(AllWeights())
	}
	for n0 := len(in); len(in) < n0+fuzz; {
		base := g.Next(AllWeights())
		if h, ok := g.HostileFrom(base); ok {
			in = append(in, h)
		}
	}
	return ow, in
}

// NoCrashChild executes inputs[from:] in this process: each through CheckTx and in a block,
// followed by a probe; prints one DONE line per input. Never returns on a crash (that is the point).
func NoCrashChild(seed uint64, fuzz, from int, out *os.File) {
	ow, inputs := NoCrashInputs(seed, fuzz)
	w := ow.World
	loopNonce := uint64(0)
	A, err := NewReplica(w, Identity{Name: "A", Val: w.Vals[0]})
	if err != nil {
		fmt.Fprintln(out, "SETUP-ERROR", err)
		return
	}
	A.InitChain()
	sim := NewSim(w)
	r := rng.New(seed*13 + 5)
	g := NewGen(w, r)
	// warm-up: a few busy blocks so that every subsystem has state
	for i := 0; i < 5; i++ {
		g.Height = sim.Height + 1
		var txs [][]byte
		for j := 0; j < 6; j++ {
			txs = append(txs, g.Next(AllWeights()).Bytes)
		}
		b := sim.NextBlock(txs, BlockOpts{})
		sim.Absorb(b, A.ExecBlock(b))
	}
	fmt.Fprintln(out, "READY", len(inputs))
	probeN := 0
	for i := from; i < len(inputs); i++ {
		in := inputs[i]
		fmt.Fprintf(out, "START %d %s\n", i, strings.ReplaceAll(short(in.Label), "\n", " "))
		cr := A.CheckTx(in.Tx)
		g.Height = sim.Height + 1
		blockTxs := [][]byte{in.Tx}
		if w.P.MaxGas > 0 {
			// fill the block as the mempool reaps it: admitted transactions, gas wanted within the limit
			total := cr.GasWanted
			// OLVM transactions answer CheckTx with gas wanted 0, so the mempool takes any number
			// of them: three that burn their whole gas limit (a creation that loops)
			for k := 0; k < 3; k++ {
				t := ow.OlvmTx(ow.Eth[1], nil, loopNonce, big.NewInt(0), []byte{0x5b, 0x60, 0x00, 0x56}, 100000, big.NewInt(10000000000), OlvmTweak{})
				if c := A.CheckTx(t); c.Code == 0 && total+c.GasWanted <= w.P.MaxGas {
					total += c.GasWanted
					blockTxs = append(blockTxs, t)
					loopNonce++
				}
			}
			for k := 0; k < 40; k++ {
				t := g.Next(AllWeights())
				c := A.CheckTx(t.Bytes)
				if c.Code != 0 {
					continue
				}
				if total+c.GasWanted > w.P.MaxGas {
					break
				}
				total += c.GasWanted
				blockTxs = append(blockTxs, t.Bytes)
			}
		}
		b := sim.NextBlock(blockTxs, BlockOpts{})
		res := A.ExecBlock(b)
		if A.Crashed {
			fmt.Fprintf(out, "CLOSED %d application closed itself after a panic\n", i)
			return
		}
		sim.Absorb(b, res)
		// probe
		probeN++
		x, y := w.Accts[probeN%len(w.Accts)], w.Accts[(probeN+1)%len(w.Accts)]
		ptx := Sign(RawOf(&transfer.Send{From: x.Addr, To: y.Addr, Amount: OLT(1)}, DefaultFee(), fmt.Sprintf("probe-%d-%d", from, i)), x)
		pc := A.CheckTx(ptx)
		g.Height = sim.Height + 1
		pb := sim.NextBlock([][]byte{ptx}, BlockOpts{})
		pr := A.ExecBlock(pb)
		if A.Crashed {
			fmt.Fprintf(out, "CLOSED %d application closed itself during the probe\n", i)
			return
		}
		sim.Absorb(pb, pr)
		ok := pc.Code == 0 && len(pr.Txs) == 1 && pr.Txs[0].Code == 0
		if os.Getenv("NOCRASH_DEBUG") != "" {
			fmt.Fprintf(out, "GAS %d txs=%d consumed=%d limit=%d\n", i, len(blockTxs), A.App.VerifConsumedGas(), w.P.MaxGas)
		}
		fmt.Fprintf(out, "DONE %d check=%d deliver=%d probe=%v\n", i, cr.Code, res.Txs[0].Code, ok)
		TruncateAppLog()
	}
	fmt.Fprintln(out, "END")
	A.Close()
}

// RunNoCrash is the parent: runs children in parallel over disjoint seeds, restarting a child
// after the input that killed it, and classifies every abnormal end.
func RunNoCrash(self string, seed uint64, seeds, fuzz, parallel int) (*Result, error) {
	res := NewResult("nocrash", seed, "case = one input (crash-site table: correctly signed transactions with unknown / empty / other currency, negative amounts, nil optional parts, no signatures, bid transactions with unknown asset types, malformed conversation ids and addresses, unknown decisions and whole conversations on the example asset, plus raw byte strings; and JSON-field mutations of valid transactions of every kind, re-signed by the right keys) executed in a child process through CheckTx and inside a delivered block, followed by a probe SEND that must be admitted and succeed; monitors: child exit status (os.Exit from logger.Fatal, runtime panic), application closed by handlePanic, hang (timeout), probe failure; non-trivial = the input reached a handler (CheckTx or DeliverTx returned a result) and the probe ran; distinct = distinct input bytes")
	type job struct{ seed uint64 }
	var mu sync.Mutex
	var wg sync.WaitGroup
	jobs := make(chan job, seeds)
	for i := 0; i < seeds; i++ {
		jobs <- job{seed*100 + uint64(i)}
	}
	close(jobs)
	seen := map[string]bool{}
	for p := 0; p < parallel; p++ {
		wg.Add(1)
		go func() {
			defer wg.Done()
			for j := range jobs {
				_, inputs := NoCrashInputs(j.seed, fuzz)
				from := 0
				for from < len(inputs) {
					cmd := exec.Command(self, "nocrash-child", "-seed", fmt.Sprint(j.seed), "-fuzz", fmt.Sprint(fuzz), "-from", fmt.Sprint(from))
					cmd.Env = append(os.Environ(), "GOMEMLIMIT=1500MiB")
					var ob bytes.Buffer
					cmd.Stdout = &ob
					cmd.Stderr = ioutil.Discard
					done := make(chan error, 1)
					if err := cmd.Start(); err != nil {
						mu.Lock()
						res.Hit("harness-error", 0, err.Error(), nil)
						mu.Unlock()
						return
					}
					go func() { done <- cmd.Wait() }()
					timedOut := false
					select {
					case <-done:
					case <-time.After(time.Duration(60+len(inputs)-from) * time.Second):
						cmd.Process.Kill()
						<-done
						timedOut = true
					}
					last, started, ended := from-1, -1, false
					closedMsg := ""
					sc := bufio.NewScanner(&ob)
					sc.Buffer(make([]byte, 1<<20), 1<<22)
					mu.Lock()
					for sc.Scan() {
						l := sc.Text()
						switch {
						case strings.HasPrefix(l, "DONE "):
							var i, c, d int
							var pr bool
							fmt.Sscanf(l, "DONE %d check=%d deliver=%d probe=%v", &i, &c, &d, &pr)
							last = i
							res.Evaluations++
							key := string(inputs[i].Tx)
							if !seen[key] {
								seen[key] = true
								res.DistinctNontrivial++
							}
							res.Distribution[fmt.Sprintf("check=%d deliver=%d", c, d)]++
							if !pr {
								res.Hit("probe-failed-after-input", int(j.seed), fmt.Sprintf("seed %d input %d (%s): the probe SEND no longer succeeds", j.seed, i, inputs[i].Label), []string{hex.EncodeToString(inputs[i].Tx)})
							}
						case strings.HasPrefix(l, "START "):
							fmt.Sscanf(l, "START %d", &started)
						case strings.HasPrefix(l, "CLOSED "):
							closedMsg = l
						case l == "END":
							ended = true
						case strings.HasPrefix(l, "SETUP-ERROR"):
							res.Hit("harness-error", int(j.seed), l, nil)
							ended = true
						}
					}
					if !ended {
						culprit := last + 1
						if started > last {
							culprit = started
						}
						if culprit < len(inputs) {
							sig := "node-exited"
							switch {
							case timedOut:
								sig = "node-hung"
							case closedMsg != "":
								sig = "node-closed-by-panic"
							}
							lab := inputs[culprit].Label
							kind := strings.Fields(lab + " x")[0]
							res.Hit(sig+":"+kind, int(j.seed), fmt.Sprintf("seed %d input %d (%s) %s", j.seed, culprit, lab, closedMsg), []string{"# replay: olh nocrash-child -seed " + fmt.Sprint(j.seed) + " -fuzz " + fmt.Sprint(fuzz) + " -from " + fmt.Sprint(culprit), hex.EncodeToString(inputs[culprit].Tx)})
							res.Evaluations++
							res.Distribution["crashed"]++
						}
						from = culprit + 1
					} else {
						from = len(inputs)
					}
					mu.Unlock()
				}
			}
		}()
	}
	wg.Wait()
	if len(res.Samples) == 0 {
		_, in := NoCrashInputs(seed*100, 5)
		for i := 0; i < 3 && i < len(in); i++ {
			res.Samples = append(res.Samples, []string{in[i].Label, short(hex.EncodeToString(in[i].Tx))})
		}
	}
	return res, nil
}

// ethCrashTable: Ethereum lock / redeem submissions whose embedded external transaction is aimed
// at the hex-splitting parsers of chains/ethereum (selector missing, arguments cut short, contract
// creation, not RLP at all), and finality reports with indices outside the witness list.
func (g *Gen) ethCrashTable() []HostileInput {
	ethLoadABIs()
	var out []HostileInput
	a := g.acct()
	ext := func(to *common.Address, value int64, data []byte) []byte {
		var tx *types.Transaction
		if to == nil {
			tx = types.NewContractCreation(1, big.NewInt(value), 100000, big.NewInt(1), data)
		} else {
			tx = types.NewTransaction(1, *to, big.NewInt(value), 100000, big.NewInt(1), data)
		}
		signed, err := types.SignTx(tx, types.NewEIP155Signer(big.NewInt(1)), ethUserKey(g.W.P.Seed, 0))
		if err != nil {
			panic(err)
		}
		raw, err := rlp.EncodeToBytes(signed)
		if err != nil {
			panic(err)
		}
		return raw
	}
	lockSel, _ := ethABIs.lr.Pack("lock")
	redeemSel, _ := ethABIs.lr.Pack("redeem", big.NewInt(5))
	transfer20, _ := ethABIs.erc20.Pack("transfer", ethERCAddr, big.NewInt(5))
	redeem20, _ := ethABIs.lrerc.Pack("redeem", big.NewInt(5), ethTokenAddr)
	transfer20wrong, _ := ethABIs.erc20.Pack("transfer", ethOtherAddr, big.NewInt(5))
	payloads := []struct {
		n string
		b []byte
	}{
		{"valid-lock", ext(&ethContractAddr, 7, lockSel)},
		{"contract-creation", ext(nil, 7, lockSel)},
		{"no-call-data", ext(&ethContractAddr, 7, nil)},
		{"selector-only-redeem", ext(&ethContractAddr, 0, redeemSel[:4])},
		{"redeem-args-cut", ext(&ethContractAddr, 0, redeemSel[:20])},
		{"redeem-full", ext(&ethContractAddr, 10, redeemSel)},
		{"erc20-transfer-selector-only", ext(&ethTokenAddr, 0, transfer20[:4])},
		{"erc20-transfer-args-cut", ext(&ethTokenAddr, 0, transfer20[:40])},
		{"erc20-transfer-full", ext(&ethTokenAddr, 0, transfer20)},
		{"erc20-transfer-to-other-contract", ext(&ethOtherAddr, 0, transfer20)},
		{"erc20-transfer-wrong-receiver", ext(&ethTokenAddr, 0, transfer20wrong)},
		{"erc20-redeem-selector-only", ext(&ethERCAddr, 0, redeem20[:4])},
		{"erc20-redeem-args-cut", ext(&ethERCAddr, 0, redeem20[:50])},
		{"erc20-redeem-full", ext(&ethERCAddr, 0, redeem20)},
		{"not-rlp", []byte("this is not an ethereum transaction")},
		{"empty", nil},
		{"rlp-empty-list", []byte{0xc0}},
	}
	for _, p := range payloads {
		out = append(out, HostileInput{"ETH_LOCK " + p.n, g.mk("ETH_LOCK", "crash-table", &aeth.Lock{Locker: a.Addr, ETHTxn: p.b}, a).Bytes})
		out = append(out, HostileInput{"ETH_REDEEM " + p.n, g.mk("ETH_REDEEM", "crash-table", &aeth.Redeem{Owner: a.Addr, To: ethContractAddr, ETHTxn: p.b}, a).Bytes})
		out = append(out, HostileInput{"ERC20_LOCK " + p.n, g.mk("ERC20_LOCK", "crash-table", &aeth.ERC20Lock{Locker: a.Addr, ETHTxn: p.b}, a).Bytes})
		out = append(out, HostileInput{"ERC20_REDEEM " + p.n, g.mk("ERC20_REDEEM", "crash-table", &aeth.ERC20Redeem{Owner: a.Addr, To: ethERCAddr, ETHTxn: p.b}, a).Bytes})
	}
	// reports on the tracker of the valid lock above, by a witness, with hostile vote indices
	ws := g.ethWitnesses()
	name := common.BytesToHash(payloads[0].b)
	for _, idx := range []int64{-1, -9223372036854775808, 2, 1000000, 9223372036854775807, 0} {
		if len(ws) == 0 {
			break
		}
		msg := &aeth.ReportFinality{TrackerName: name, Locker: a.Addr, ValidatorAddress: ws[0].Key.Addr, VoteIndex: idx, Success: true}
		out = append(out, HostileInput{fmt.Sprintf("ETH_REPORT vote-index %d", idx), g.mk("ETH_REPORT", "crash-table", msg, ws[0].Key).Bytes})
	}
	msg := &aeth.ReportFinality{TrackerName: common.Hash{}, Locker: nil, ValidatorAddress: nil, VoteIndex: 0, Success: false}
	out = append(out, HostileInput{"ETH_REPORT empty", g.mk("ETH_REPORT", "crash-table", msg, a).Bytes})
	return out
}

// olvmCrashTable: correctly signed OLVM transactions whose code is aimed at the interpreter and
// the state adapter: every opcode once as the first instruction of a creation, a few known
// troublemakers (BASEFEE, self destruct, deep recursion, huge memory), and random byte code.
func olvmCrashTable(ow *OlvmWorld, r *rng.R) []HostileInput {
	var out []HostileInput
	from := ow.Eth[0]
	nonce := uint64(0)
	price := big.NewInt(10000000000)
	add := func(label string, to *keys.Address, value int64, data []byte, gas int64) {
		out = append(out, HostileInput{"OLVM " + label, ow.OlvmTx(from, to, nonce, big.NewInt(value), data, gas, price, OlvmTweak{})})
		nonce++
	}
	for op := 0; op < 256; op++ {
		// the opcode with a few zero words on the stack where it needs arguments
		code := []byte{0x5f, 0x5f, 0x5f, 0x5f, 0x5f, 0x5f, 0x5f, byte(op), 0x00}
		if op >= 0x60 && op <= 0x7f {
			code = append([]byte{byte(op)}, make([]byte, op-0x5f)...)
		}
		add(fmt.Sprintf("create opcode-%02x", op), nil, 0, code, 200000)
		// PUSH0 is not in this fork: the same with PUSH1 0
		code2 := []byte{0x60, 0, 0x60, 0, 0x60, 0, 0x60, 0, 0x60, 0, 0x60, 0, 0x60, 0, byte(op), 0x00}
		add(fmt.Sprintf("create push-args opcode-%02x", op), nil, 1, code2, 200000)
	}
	self := keys.Address(from.Addr)
	add("create selfdestruct-to-self", nil, 5, []byte{0x30, 0xff}, 100000)
	add("create selfdestruct-to-sender", nil, 5, []byte{0x33, 0xff}, 100000)
	add("create huge-memory", nil, 0, []byte{0x7f, 0xff, 0xff, 0xff, 0xff, 0xff, 0xff, 0xff, 0xff, 0xff, 0xff, 0xff, 0xff, 0xff, 0xff, 0xff, 0xff, 0xff, 0xff, 0xff, 0xff, 0xff, 0xff, 0xff, 0xff, 0xff, 0xff, 0xff, 0xff, 0xff, 0xff, 0xff, 0xff, 0x51}, 300000)
	add("create returns-24577-bytes", nil, 0, []byte{0x61, 0x60, 0x01, 0x60, 0x00, 0xf3}, 8000000)
	add("create returns-ef", nil, 0, []byte{0x60, 0xef, 0x60, 0x00, 0x53, 0x60, 0x01, 0x60, 0x00, 0xf3}, 200000)
	add("create returns-tombstone-code", nil, 0, []byte{0x62, 0xe2, 0x9b, 0xbc, 0x60, 0x00, 0x52, 0x60, 0x03, 0x60, 0x1d, 0xf3}, 200000)
	add("create recursive-create", nil, 0, []byte{0x38, 0x60, 0x00, 0x60, 0x00, 0x39, 0x38, 0x60, 0x00, 0x60, 0x00, 0xf0, 0x00}, 3000000)
	add("call to-self with-value", &self, 3, nil, 30000)
	add("call precompile-9 junk", addrPtr(9), 0, r.Bytes(213), 300000)
	for i := 1; i <= 9; i++ {
		add(fmt.Sprintf("call precompile-%d empty", i), addrPtr(byte(i)), 1, nil, 100000)
		add(fmt.Sprintf("call precompile-%d random", i), addrPtr(byte(i)), 0, r.Bytes(1+r.Intn(300)), 300000)
	}
	for i := 0; i < 60; i++ {
		add(fmt.Sprintf("create random-code-%d", i), nil, int64(r.Intn(3)), r.Bytes(1+r.Intn(60)), 400000)
	}
	return out
}

func addrPtr(last byte) *keys.Address {
	a := make(keys.Address, 20)
	a[19] = last
	return &a
}

package apph

// The `funcs` engine: the Lean definitions the function translator (extract/funcs.go) generates
// from the Go source are executed by a small Lean executable (olpfuncs<group>) on the same inputs
// as the Go functions themselves, called here directly (exported API, and go:linkname for the three
// unexported price functions of action/ons). This validates what the translator is trusted for:
// the meaning it gives to math/big's Div / Mod / Cmp / Int64 / IsInt64, to dropped crash guards, to
// loops as folds, to receiver fields as parameters. Inputs are boundary-heavy: 0, +-1, +-2^63,
// 2^64 and neighbours, negative dividends and divisors, empty and long vote lists.

import (
	"fmt"
	"math/big"
	"strconv"
	"strings"
	_ "unsafe" // go:linkname

	"github.com/Oneledger/protocol/data/balance"
	ethdata "github.com/Oneledger/protocol/data/ethereum"
	"github.com/Oneledger/protocol/data/keys"
	"github.com/Oneledger/protocol/data/ons"
	"github.com/Oneledger/protocol/storage"
	"github.com/Oneledger/protocol/vm"

	_ "github.com/Oneledger/protocol/action/ons" // the linknamed functions live here

	"olverif/harness/kv"
	"olverif/harness/rng"
)

//go:linkname funcsBlocksFor github.com/Oneledger/protocol/action/ons.blocksFor
func funcsBlocksFor(amount *big.Int, pricePerBlock *big.Int, from int64) (int64, error)

//go:linkname funcsCalculateExpiry github.com/Oneledger/protocol/action/ons.calculateExpiry
func funcsCalculateExpiry(buyingPrice, basePrice, pricePerBlock *balance.Amount, from int64) (int64, error)

//go:linkname funcsCalculateRenewal github.com/Oneledger/protocol/action/ons.calculateRenewal
func funcsCalculateRenewal(buyingPrice, pricePerBlock *balance.Amount, from int64) (int64, error)

type FuncsOptions struct {
	Driver string // path of the olpfuncs<group> executable
	Group  string // 02 | 09 | 15 | 17 | 20
	Seed   uint64
	Cases  int
}

func funcsBig(r *rng.R) *big.Int {
	two63 := new(big.Int).Lsh(big.NewInt(1), 63)
	two64 := new(big.Int).Lsh(big.NewInt(1), 64)
	base := []*big.Int{big.NewInt(0), big.NewInt(1), big.NewInt(-1), big.NewInt(2), big.NewInt(7), big.NewInt(-7), big.NewInt(100),
		new(big.Int).Sub(two63, big.NewInt(1)), two63, new(big.Int).Neg(two63), new(big.Int).Sub(new(big.Int).Neg(two63), big.NewInt(1)),
		two64, new(big.Int).Add(two64, big.NewInt(1)), new(big.Int).Neg(two64), new(big.Int).Mul(two64, big.NewInt(1000003))}
	switch r.Intn(4) {
	case 0:
		return new(big.Int).Set(base[r.Intn(len(base))])
	case 1:
		return big.NewInt(int64(r.Intn(2001) - 1000))
	case 2:
		x := new(big.Int).Set(base[r.Intn(len(base))])
		return x.Add(x, big.NewInt(int64(r.Intn(7)-3)))
	}
	x := new(big.Int).Lsh(big.NewInt(int64(r.Intn(1<<30))), uint(r.Intn(70)))
	if r.Intn(2) == 0 {
		x.Neg(x)
	}
	return x
}

func funcsI64(r *rng.R) int64 {
	switch r.Intn(4) {
	case 0:
		return []int64{0, 1, -1, 2, 100, 9223372036854775807, -9223372036854775808, 9223372036854775806}[r.Intn(8)]
	case 1:
		return int64(r.Intn(2001) - 1000)
	}
	x := int64(r.Intn(1<<30)) << uint(r.Intn(33))
	if r.Intn(3) == 0 {
		x = -x
	}
	return x
}

func fb(b bool) string {
	if b {
		return "1"
	}
	return "0"
}

func ferr(e error) string { return fb(e != nil) }

func funcsAmt(x *big.Int) *balance.Amount { return balance.NewAmountFromBigInt(new(big.Int).Set(x)) }

// funcsCase draws one input line of the group and evaluates the Go function on it.
func funcsCase(group string, r *rng.R) (line, impl string) {
	defer func() {
		if p := recover(); p != nil {
			impl = fmt.Sprintf("panic:%v", p)
		}
	}()
	cur := balance.Currency{Name: "OLT", Chain: 0, Decimal: 18}
	switch group {
	case "02":
		a, v := funcsBig(r), funcsBig(r)
		switch r.Intn(13) {
		case 12:
			k, d := funcsI64(r), int64(r.Intn(25))
			c2 := balance.Currency{Name: "X", Chain: 0, Decimal: d}
			return fmt.Sprintf("newCoinFromInt %d %d", k, d), c2.NewCoinFromInt(k).Amount.BigInt().String()
		case 10:
			if r.Intn(3) == 0 {
				v = new(big.Int).Set(a)
			}
			return fmt.Sprintf("coinLessThan %s %s", a, v), fb(balance.Coin{Currency: cur, Amount: funcsAmt(a)}.LessThanCoin(balance.Coin{Currency: cur, Amount: funcsAmt(v)}))
		case 11:
			if r.Intn(3) == 0 {
				v = new(big.Int).Set(a)
			}
			return fmt.Sprintf("coinLessThanEqual %s %s", a, v), fb(balance.Coin{Currency: cur, Amount: funcsAmt(a)}.LessThanEqualCoin(balance.Coin{Currency: cur, Amount: funcsAmt(v)}))
		case 0:
			return fmt.Sprintf("amountPlus %s %s", a, v), funcsAmt(a).Plus(*funcsAmt(v)).BigInt().String()
		case 1:
			x, err := funcsAmt(a).Minus(*funcsAmt(v))
			return fmt.Sprintf("amountMinus %s %s", a, v), x.BigInt().String() + " " + ferr(err)
		case 2:
			return fmt.Sprintf("amountIsZero %s", a), fb(funcsAmt(a).IsZero())
		case 3:
			if r.Intn(3) == 0 {
				v = new(big.Int).Set(a)
			}
			return fmt.Sprintf("amountEquals %s %s", a, v), fb(funcsAmt(a).Equals(*funcsAmt(v)))
		case 4:
			return fmt.Sprintf("amountLessThan %s %s", a, v), fb(funcsAmt(a).LessThan(*funcsAmt(v)))
		case 5:
			hi := funcsBig(r)
			ok, err := funcsAmt(a).CheckInRange(*funcsAmt(v), *funcsAmt(hi))
			return fmt.Sprintf("amountCheckInRange %s %s %s", a, v, hi), fb(ok) + " " + ferr(err)
		case 6:
			c := balance.Coin{Currency: cur, Amount: funcsAmt(a)}
			return fmt.Sprintf("coinPlus %s %s", a, v), c.Plus(balance.Coin{Currency: cur, Amount: funcsAmt(v)}).Amount.BigInt().String()
		case 7:
			c := balance.Coin{Currency: cur, Amount: funcsAmt(a)}
			nilAmt := r.Intn(5) == 0
			if nilAmt {
				c.Amount = nil
			}
			x, err := c.Minus(balance.Coin{Currency: cur, Amount: funcsAmt(v)})
			return fmt.Sprintf("coinMinus %s %s %s", a, fb(nilAmt), v), x.Amount.BigInt().String() + " " + ferr(err)
		case 8:
			k := funcsI64(r)
			if k == 0 {
				k = 3
			}
			c := balance.Coin{Currency: cur, Amount: funcsAmt(a)}
			nilAmt := r.Intn(5) == 0
			if nilAmt {
				c.Amount = nil
			}
			return fmt.Sprintf("coinDivideInt64 %s %s %d", a, fb(nilAmt), k), c.DivideInt64(k).Amount.BigInt().String()
		default:
			k := funcsI64(r)
			c := balance.Coin{Currency: cur, Amount: funcsAmt(a)}
			nilAmt := r.Intn(5) == 0
			if nilAmt {
				c.Amount = nil
			}
			return fmt.Sprintf("coinMultiplyInt64 %s %s %d", a, fb(nilAmt), k), c.MultiplyInt64(k).Amount.BigInt().String()
		}
	case "09":
		limit := int64(r.Intn(3000)) - 200
		g := storage.NewGasCalculator(storage.Gas(limit))
		pre := int64(r.Intn(3000))
		if r.Intn(3) == 0 {
			pre = limit + int64(r.Intn(3)) - 1
			if pre < 0 {
				pre = 0
			}
		}
		g.Consume(storage.Gas(pre), 1, true)
		switch r.Intn(3) {
		case 0:
			a, k, ov := int64(r.Intn(200)), int64(r.Intn(40)), r.Intn(4) == 0
			ok := g.Consume(storage.Gas(a), storage.Gas(k), ov)
			return fmt.Sprintf("gasConsume %d %d %d %d %s", limit, pre, a, k, fb(ov)), fb(ok) + " " + strconv.FormatInt(int64(g.GetConsumed()), 10)
		case 1:
			return fmt.Sprintf("gasIsEnough %d %d", limit, pre), fb(g.IsEnough())
		default:
			return fmt.Sprintf("gasGetLeft %d %d", limit, pre), strconv.FormatUint(g.GetLeft(), 10)
		}
	case "15":
		n := r.Intn(9)
		ws := make([]keys.Address, n)
		for i := range ws {
			ws[i] = keys.Address{byte(i + 1)}
		}
		t := ethdata.NewTracker(ethdata.ProcessTypeLock, keys.Address{9}, nil, [32]byte{1}, ws)
		var vs []string
		for i := range t.FinalityVotes {
			t.FinalityVotes[i] = ethdata.Vote(r.Intn(4)) // 0 = not voted, 1 = yes, 2 = no, 3 = a value nobody writes
			vs = append(vs, strconv.Itoa(int(t.FinalityVotes[i])))
		}
		l := strings.Join(vs, ",")
		if l == "" {
			l = "-"
		}
		switch r.Intn(3) {
		case 0:
			y, no := t.GetVotes()
			return "getVotes " + l, fmt.Sprintf("%d %d", y, no)
		case 1:
			return fmt.Sprintf("finalized %d %s", n, l), fb(t.Finalized())
		default:
			return fmt.Sprintf("failed %d %s", n, l), fb(t.Failed())
		}
	case "17":
		n := r.Intn(60)
		if r.Intn(6) == 0 {
			n = 0
		}
		data := make([]byte, n)
		var toks []string
		for i := range data {
			if r.Intn(3) != 0 {
				data[i] = byte(r.Intn(256))
			}
			toks = append(toks, strconv.Itoa(int(data[i])))
		}
		l := strings.Join(toks, ",")
		if l == "" {
			l = "-"
		}
		create := r.Intn(2) == 0
		g, err := vm.IntrinsicGas(data, nil, create)
		return fmt.Sprintf("intrinsicGas %s %s", l, fb(create)), fmt.Sprintf("%d %s", g, ferr(err))
	case "20":
		switch r.Intn(9) {
		case 0:
			a, p, f := funcsBig(r), funcsBig(r), funcsI64(r)
			if p.Sign() == 0 {
				p = big.NewInt(3)
			}
			q, err := funcsBlocksFor(a, p, f)
			return fmt.Sprintf("blocksFor %s %s %d", a, p, f), fmt.Sprintf("%d %s", q, ferr(err))
		case 1:
			b, base, p, f := funcsBig(r), funcsBig(r), funcsBig(r), funcsI64(r)
			if p.Sign() == 0 {
				p = big.NewInt(5)
			}
			q, err := funcsCalculateExpiry(funcsAmt(b), funcsAmt(base), funcsAmt(p), f)
			return fmt.Sprintf("calculateExpiry %s %s %s %d", b, base, p, f), fmt.Sprintf("%d %s", q, ferr(err))
		case 2:
			b, p, f := funcsBig(r), funcsBig(r), funcsI64(r)
			if p.Sign() == 0 {
				p = big.NewInt(5)
			}
			q, err := funcsCalculateRenewal(funcsAmt(b), funcsAmt(p), f)
			return fmt.Sprintf("calculateRenewal %s %s %d", b, p, f), fmt.Sprintf("%d %s", q, ferr(err))
		}
		small := func() int64 { return int64(r.Intn(2000)) - 300 }
		d := &ons.Domain{LastUpdateHeight: small(), ExpireHeight: small(), ActiveFlag: r.Intn(2) == 0, OnSaleFlag: r.Intn(2) == 0}
		h := small()
		switch r.Intn(6) {
		case 0:
			return fmt.Sprintf("isChangeable %d %d", d.LastUpdateHeight, h), fb(d.IsChangeable(h))
		case 1:
			return fmt.Sprintf("isActive %d %s %d", d.ExpireHeight, fb(d.ActiveFlag), h), fb(d.IsActive(h))
		case 2:
			return fmt.Sprintf("isExpired %d %d", d.ExpireHeight, h), fb(d.IsExpired(h))
		case 3:
			l := fmt.Sprintf("addToExpire %d %d", d.ExpireHeight, h)
			d.AddToExpire(h)
			return l, strconv.FormatInt(d.ExpireHeight, 10)
		case 4:
			n := small()
			l := fmt.Sprintf("resetAfterSale %d %d %s %s %d %d", d.LastUpdateHeight, d.ExpireHeight, fb(d.ActiveFlag), fb(d.OnSaleFlag), n, h)
			d.ResetAfterSale(keys.Address{1}, keys.Address{2}, n, h)
			return l, fmt.Sprintf("%s %d %d %s", fb(d.ActiveFlag), d.ExpireHeight, d.LastUpdateHeight, fb(d.OnSaleFlag))
		default:
			a := funcsBig(r)
			p := funcsI64(r)
			if p == 0 {
				p = 9
			}
			return fmt.Sprintf("domainExpiry %s %d", a, p), strconv.FormatUint(ons.CalculateDomainExpiry(*funcsAmt(a), p), 10)
		}
	}
	return "bad-group", ""
}

// RunFuncs compares the generated Lean definitions of a group with the Go functions.
func RunFuncs(opt FuncsOptions) (*Result, error) {
	res := NewResult("funcs"+opt.Group, opt.Seed, "case = one call of a translated Go function (group "+opt.Group+") on generated arguments (0, +-1, +-2^63, 2^64 and neighbours, negative dividends and divisors, random magnitudes up to 2^100, empty and full vote lists); the Go function is called directly and the Lean definition generated from its source is executed by olpfuncs"+opt.Group+" on the same line; non-trivial = every case; distinct = distinct input lines")
	r := rng.New(opt.Seed*131 + 17)
	var lines, impls []string
	seen := map[string]bool{}
	for i := 0; i < opt.Cases; i++ {
		l, im := funcsCase(opt.Group, r)
		lines = append(lines, l)
		impls = append(impls, im)
		res.Distribution[strings.SplitN(l, " ", 2)[0]]++
		if !seen[l] {
			seen[l] = true
			res.DistinctNontrivial++
		}
	}
	res.Evaluations = len(lines)
	outs, err := kv.RunDriver(opt.Driver, "", lines)
	if err != nil {
		return nil, err
	}
	for i := range lines {
		if outs[i] != impls[i] {
			res.DisagreementCount++
			if len(res.Disagreements) < 10 {
				res.Disagreements = append(res.Disagreements, Disagreement{Kind: "generated-definition-differs-from-go-function", Case: i, Op: lines[i], Impl: impls[i], Model: outs[i], Ops: []string{lines[i]}})
			}
		}
	}
	if len(lines) > 6 {
		res.Samples = append(res.Samples, lines[:6])
	}
	return res, nil
}

package apph

// C17 — OLVM transactions keep one ledger and charge exactly the gas used.
//
// This file holds the fork-family world (DESIGN App. C), Ethereum-keyed accounts, builders for
// OLVM SignedTx values (valid and deliberately broken ones), a menu of hand-assembled contracts,
// the per-transaction property monitor and the correspondence with the Lean model
// (lean/OLP/Olvm/Model.lean, driver engine "olvm").

import (
	"crypto/ecdsa"
	"crypto/sha256"
	"fmt"
	"math/big"
	"strconv"

	ethcmn "github.com/ethereum/go-ethereum/common"
	ethtypes "github.com/ethereum/go-ethereum/core/types"
	ethcrypto "github.com/ethereum/go-ethereum/crypto"

	"github.com/Oneledger/protocol/action"
	aolvm "github.com/Oneledger/protocol/action/olvm"
	"github.com/Oneledger/protocol/config"
	"github.com/Oneledger/protocol/consensus"
	"github.com/Oneledger/protocol/data/balance"
	"github.com/Oneledger/protocol/data/keys"
	"github.com/Oneledger/protocol/serialize"
	"github.com/Oneledger/protocol/utils"
)

// EthAcct is an account whose address is derived the Ethereum way (keccak of the uncompressed
// secp256k1 public key). Such a key can sign OLVM transactions only: keys.PublicKeyETHSECP
// verifies 32-byte digests, and a native transaction is signed over its full serialisation.
type EthAcct struct {
	Name string
	Key  *ecdsa.PrivateKey
	Pub  keys.PublicKey
	Addr keys.Address
}

func NewEthAcct(seed uint64, name string) *EthAcct {
	for i := 0; ; i++ {
		h := sha256.Sum256([]byte(fmt.Sprintf("olverif-eth-%d-%s-%d", seed, name, i)))
		k, err := ethcrypto.ToECDSA(h[:])
		if err != nil {
			continue
		}
		pub, err := keys.GetPublicKeyFromBytes(ethcrypto.CompressPubkey(&k.PublicKey), keys.ETHSECP)
		if err != nil {
			panic(err)
		}
		return &EthAcct{Name: name, Key: k, Pub: pub, Addr: keys.Address(ethcrypto.PubkeyToAddress(k.PublicKey).Bytes())}
	}
}

func (e *EthAcct) Eth() ethcmn.Address { return ethcmn.BytesToAddress(e.Addr) }

// OlvmParams is a member of the "fork" genesis family: as small, but the Frankenstein update
// (OLVM on, TopValidatorCount 64, MinSelfDelegation 500000) happens at block `fork`, and the
// genesis validators stake enough to survive it.
func OlvmParams(seed uint64, fork int64) Params {
	p := SmallParams(seed)
	p.Frankenstein = fork
	p.NVals, p.NCandidates, p.NAccts = 2, 0, 3
	p.TopValidators = 4
	p.GenesisStake = []int64{600000, 500000, 700000, 500001}
	p.AcctFunds = 1000000
	return p
}

// OlvmWorld is a World plus Ethereum-keyed accounts funded at genesis.
type OlvmWorld struct {
	*World
	Eth     []*EthAcct
	EvmID   *big.Int // EIP-155 chain id the node derives from the Tendermint chain id
	EthFund *big.Int
}

// NewOlvmWorld funds nEth Ethereum-keyed accounts; the last one only with a small amount (a few
// transactions' worth of gas) so that low-balance branches are reached.
func NewOlvmWorld(p Params, nEth int) *OlvmWorld {
	w := NewWorld(p)
	ow := &OlvmWorld{World: w, EvmID: utils.HashToBigInt(w.ChainID)}
	fund := oltUnits(1000)
	ow.EthFund = fund.BigInt()
	for i := 0; i < nEth; i++ {
		e := NewEthAcct(p.Seed, fmt.Sprintf("eth%d", i))
		ow.Eth = append(ow.Eth, e)
		f := fund
		if i == nEth-1 && nEth > 2 {
			f = *balance.NewAmountFromBigInt(new(big.Int).Mul(big.NewInt(10000000000), big.NewInt(90000))) // 90000 gas at the default price
		}
		w.State.Balances = append(w.State.Balances, consensus.BalanceState{Address: e.Addr, Currency: "OLT", Amount: f})
	}
	gd, err := consensus.NewGenesisDoc(w.ChainID, w.State)
	if err != nil {
		panic(err)
	}
	gd.GenesisTime = w.GenesisTime
	gd.Validators = w.Genesis.Validators
	gd.ForkParams = &config.ForkParams{FrankensteinBlock: p.Frankenstein}
	gd.ConsensusParams.Block.MaxGas = p.MaxGas
	w.Genesis = gd
	return ow
}

// OlvmTweak breaks one aspect of an otherwise well-formed OLVM transaction.
type OlvmTweak struct {
	PayloadChainID *big.Int      // chain id written into the payload (default: the node's)
	SignChainID    *big.Int      // chain id used for the EIP-155 signature (default: the node's)
	Memo           *string       // memo (default: the nonce in decimal)
	SignKey        *EthAcct      // key that signs (default: the sender)
	From           *keys.Address // From field (default: the sender's address)
	Currency       string        // amount currency (default OLT)
	FeeCurrency    string        // fee currency (default OLT)
	ExtraSig       bool          // a second signature
	NilChainID     bool          // payload without chain id
	SigLen         int           // length of the signature field (default 65)
	TxType         int64         // payload "type" (default 0 = legacy)
	AccessList     bool          // payload carries an (empty) access list
	EnvelopeKey    *EthAcct      // public key put into Signatures[0].Signer (default: the signing key)
	PayloadSpace   bool          // payload bytes = canonical encoding + one space
}

// OlvmTx builds the network bytes of an OLVM transaction the way web3/utils.EthToOLSignedTx does:
// payload action/olvm.Transaction, fee = (gas price, gas limit), memo = nonce, one signature
// holding the EIP-155 signature bytes R||S||V over the legacy Ethereum transaction.
func (w *OlvmWorld) OlvmTx(from *EthAcct, to *keys.Address, nonce uint64, value *big.Int, data []byte, gas int64, price *big.Int, tw OlvmTweak) []byte {
	pcid, scid := w.EvmID, w.EvmID
	if tw.PayloadChainID != nil {
		pcid = tw.PayloadChainID
	}
	if tw.SignChainID != nil {
		scid = tw.SignChainID
	}
	cur, fcur := "OLT", "OLT"
	if tw.Currency != "" {
		cur = tw.Currency
	}
	if tw.FeeCurrency != "" {
		fcur = tw.FeeCurrency
	}
	fromAddr := from.Addr
	if tw.From != nil {
		fromAddr = *tw.From
	}
	msg := aolvm.Transaction{Nonce: nonce, From: fromAddr, To: to, Amount: action.Amount{Currency: cur, Value: *balance.NewAmountFromBigInt(new(big.Int).Set(value))},
		Data: data, ChainID: new(big.Int).Set(pcid)}
	if tw.NilChainID {
		msg.ChainID = nil
	}
	msg.TxType = tw.TxType
	if tw.AccessList {
		msg.AccessList = &ethtypes.AccessList{}
	}
	payload, err := msg.Marshal()
	if err != nil {
		panic(err)
	}
	if tw.PayloadSpace {
		payload = append(payload, ' ')
	}
	memo := strconv.FormatUint(nonce, 10)
	if tw.Memo != nil {
		memo = *tw.Memo
	}
	raw := action.RawTx{Type: action.OLVM, Data: payload, Memo: memo,
		Fee: action.Fee{Price: action.Amount{Currency: fcur, Value: *balance.NewAmountFromBigInt(new(big.Int).Set(price))}, Gas: gas}}
	var ethTo *ethcmn.Address
	if to != nil {
		a := ethcmn.BytesToAddress(*to)
		ethTo = &a
	}
	ethTx := ethtypes.NewTx(&ethtypes.LegacyTx{Nonce: nonce, To: ethTo, Value: new(big.Int).Set(value), Gas: uint64(gas), GasPrice: new(big.Int).Set(price), Data: data})
	key := from
	if tw.SignKey != nil {
		key = tw.SignKey
	}
	h := ethtypes.NewEIP155Signer(scid).Hash(ethTx)
	sig, err := ethcrypto.Sign(h[:], key.Key)
	if err != nil {
		panic(err)
	}
	if tw.SigLen > 0 && tw.SigLen != len(sig) {
		sig = append(sig, make([]byte, 8)...)[:tw.SigLen]
	}
	envKey := key.Pub
	if tw.EnvelopeKey != nil {
		envKey = tw.EnvelopeKey.Pub
	}
	st := action.SignedTx{RawTx: raw, Signatures: []action.Signature{{Signer: envKey, Signed: sig}}}
	if tw.ExtraSig {
		st.Signatures = append(st.Signatures, action.Signature{Signer: envKey, Signed: sig})
	}
	b, err := serialize.GetSerializer(serialize.NETWORK).Serialize(&st)
	if err != nil {
		panic(err)
	}
	return b
}

// ---------------------------------------------------------------- hand-assembled contracts

// initCode wraps runtime code into creation code: CODECOPY the runtime to memory and RETURN it.
func initCode(runtime []byte) []byte {
	if len(runtime) > 255 {
		panic("runtime too long")
	}
	l := byte(len(runtime))
	return append([]byte{0x60, l, 0x60, 0x0c, 0x60, 0x00, 0x39, 0x60, l, 0x60, 0x00, 0xf3}, runtime...)
}

// rtToggle: slot0 := (calldatasize == 0) ? 1 : 0 — a call with data clears the slot (refund counter).
func rtToggle() []byte { return []byte{0x36, 0x15, 0x60, 0x00, 0x55, 0x00} }

// rtRevert: REVERT(0,0)
func rtRevert() []byte { return []byte{0x60, 0x00, 0x60, 0x00, 0xfd} }

// rtLoop: JUMPDEST PUSH1 0 JUMP — runs out of gas
func rtLoop() []byte { return []byte{0x5b, 0x60, 0x00, 0x56} }

// rtForward: CALL(gas, T, callvalue, 0,0,0,0); STOP — forwards the received value to T
func rtForward(t keys.Address) []byte {
	c := []byte{0x60, 0x00, 0x60, 0x00, 0x60, 0x00, 0x60, 0x00, 0x34, 0x73}
	c = append(c, ethcmn.BytesToAddress(t).Bytes()...)
	return append(c, 0x5a, 0xf1, 0x00)
}

// rtPayback: CALL(gas, caller, callvalue/2, 0,0,0,0); STOP — half of the value returns to the caller
func rtPayback() []byte {
	return []byte{0x60, 0x00, 0x60, 0x00, 0x60, 0x00, 0x60, 0x00, 0x60, 0x02, 0x34, 0x04, 0x33, 0x5a, 0xf1, 0x00}
}

// rtDestruct: without calldata accept the value; with calldata SELFDESTRUCT(beneficiary)
func rtDestruct(b keys.Address) []byte {
	c := []byte{0x36, 0x60, 0x05, 0x57, 0x00, 0x5b, 0x73}
	c = append(c, ethcmn.BytesToAddress(b).Bytes()...)
	return append(c, 0xff)
}

// rtPayDead: CALL(gas, A, 0, in 0..1) — one byte of call data makes the destruct contract A
// selfdestruct — then CALL(gas, A, 1, no data): pays the dead contract 1; STOP
func rtPayDead(a keys.Address) []byte {
	aa := ethcmn.BytesToAddress(a).Bytes()
	c := []byte{0x60, 0x00, 0x60, 0x00, 0x60, 0x01, 0x60, 0x00, 0x60, 0x00, 0x73}
	c = append(c, aa...)
	c = append(c, 0x5a, 0xf1, 0x50, 0x60, 0x00, 0x60, 0x00, 0x60, 0x00, 0x60, 0x00, 0x60, 0x01, 0x73)
	c = append(c, aa...)
	return append(c, 0x5a, 0xf1, 0x50, 0x00)
}

// CodeStore42 is creation code of the toggle contract (development aid).
func CodeStore42() []byte { return initCode(rtToggle()) }

// olvmTxShortSig is a development aid (see OlvmSmoke): a well-formed transfer whose signature
// field holds 64 instead of 65 bytes.
func (w *OlvmWorld) olvmTxShortSig(from *EthAcct, to *keys.Address, sigLen int, nilChain bool) []byte {
	msg := aolvm.Transaction{Nonce: 0, From: from.Addr, To: to, Amount: action.Amount{Currency: "OLT", Value: *balance.NewAmount(5)}, ChainID: new(big.Int).Set(w.EvmID)}
	if nilChain {
		msg.ChainID = nil
	}
	payload, _ := msg.Marshal()
	raw := action.RawTx{Type: action.OLVM, Data: payload, Memo: "0", Fee: action.Fee{Price: action.Amount{Currency: "OLT", Value: *balance.NewAmount(10000000000)}, Gas: 21000}}
	st := action.SignedTx{RawTx: raw, Signatures: []action.Signature{{Signer: from.Pub, Signed: make([]byte, sigLen)}}}
	b, _ := serialize.GetSerializer(serialize.NETWORK).Serialize(&st)
	return b
}

package apph

import (
	"crypto/sha256"
	"fmt"
	"time"

	abci "github.com/tendermint/tendermint/abci/types"
	tmtypes "github.com/tendermint/tendermint/types"
)

// Sim is the simulated Tendermint: it owns the validator sets (updates returned at the end of
// block H take effect for block H+2, applied with the real types.ValidatorSet.UpdateWithChangeSet),
// produces headers and last-commit votes, and records every update list Tendermint would reject.
type Sim struct {
	W           *World
	Height      int64 // last executed height
	Time        time.Time
	Sets        map[int64]*tmtypes.ValidatorSet // validator set of block h
	LastAppHash []byte
	TMErrors    []string
}

func NewSim(w *World) *Sim {
	s := &Sim{W: w, Time: w.GenesisTime, Sets: map[int64]*tmtypes.ValidatorSet{}}
	var vals []*tmtypes.Validator
	for _, gv := range w.Genesis.Validators {
		vals = append(vals, tmtypes.NewValidator(gv.PubKey, gv.Power))
	}
	vs := tmtypes.NewValidatorSet(vals)
	s.Sets[1] = vs
	s.Sets[2] = vs.CopyIncrementProposerPriority(1)
	return s
}

// BlockOpts are the generator's choices for one block.
type BlockOpts struct {
	DtSeconds int64        // time since the previous block
	Absent    map[int]bool // indices (in the previous set) of validators that did not sign
	Byzantine []int        // indices (in the previous set) reported as byzantine
}

// NextBlock builds block Height+1.
func (s *Sim) NextBlock(txs [][]byte, o BlockOpts) *Block {
	h := s.Height + 1
	if o.DtSeconds <= 0 {
		o.DtSeconds = 1
	}
	t := s.Time.Add(time.Duration(o.DtSeconds) * time.Second)
	cur := s.Sets[h]
	b := &Block{Height: h, Time: t, Txs: txs, LastAppHash: s.LastAppHash}
	if cur != nil && cur.Size() > 0 {
		b.Proposer = cur.GetProposer().Address
	}
	if h > 1 {
		prev := s.Sets[h-1]
		for i, v := range prev.Validators {
			b.Votes = append(b.Votes, abci.VoteInfo{Validator: abci.Validator{Address: v.Address, Power: v.VotingPower}, SignedLastBlock: !o.Absent[i]})
		}
		for _, i := range o.Byzantine {
			if i < len(prev.Validators) {
				v := prev.Validators[i]
				b.Evidence = append(b.Evidence, abci.Evidence{Type: "duplicate/vote", Validator: abci.Validator{Address: v.Address, Power: v.VotingPower}, Height: h - 1, Time: s.Time, TotalVotingPower: prev.TotalVotingPower()})
			}
		}
	}
	hh := sha256.Sum256([]byte(fmt.Sprintf("block-%d-%d-%x", h, t.Unix(), s.LastAppHash)))
	b.Hash = hh[:]
	return b
}

// Absorb advances the simulated chain with the result of the block (taken from the reference replica).
func (s *Sim) Absorb(b *Block, res *BlockResult) {
	s.Height = b.Height
	s.Time = b.Time
	s.LastAppHash = res.AppHash
	next := s.Sets[b.Height+1]
	if next == nil {
		next = s.Sets[b.Height].CopyIncrementProposerPriority(1)
		s.Sets[b.Height+1] = next
	}
	nn := next.Copy()
	if err := s.applyUpdates(nn, res.Updates); err != nil {
		s.TMErrors = append(s.TMErrors, fmt.Sprintf("height %d: %v", b.Height, err))
		nn = next.Copy()
	}
	nn.IncrementProposerPriority(1)
	s.Sets[b.Height+2] = nn
	delete(s.Sets, b.Height-3)
}

// applyUpdates is Tendermint's state.validateValidatorUpdates + updateState rule.
func (s *Sim) applyUpdates(set *tmtypes.ValidatorSet, ups []abci.ValidatorUpdate) (err error) {
	defer func() {
		if r := recover(); r != nil {
			err = fmt.Errorf("panic applying updates: %v", r)
		}
	}()
	for _, u := range ups {
		if u.Power < 0 {
			return fmt.Errorf("voting power can't be negative %v", u)
		}
		if u.Power == 0 {
			continue // validateValidatorUpdates: "this is deleting the validator, and thus there is no pubkey to check"
		}
		if u.PubKey.Type != tmtypes.ABCIPubKeyTypeEd25519 {
			return fmt.Errorf("validator %v is using pubkey %s, which is unsupported for consensus", u, u.PubKey.Type)
		}
	}
	tmUps, err := tmtypes.PB2TM.ValidatorUpdates(ups)
	if err != nil {
		return err
	}
	if len(tmUps) == 0 {
		return nil
	}
	return set.UpdateWithChangeSet(tmUps)
}

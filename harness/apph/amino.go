package apph

import (
	amino "github.com/tendermint/go-amino"
	cryptoAmino "github.com/tendermint/tendermint/crypto/encoding/amino"
)

var cdc = amino.NewCodec()

func init() { cryptoAmino.RegisterAmino(cdc) }

func cdcMarshal(v interface{}) ([]byte, error) { return cdc.MarshalJSON(v) }

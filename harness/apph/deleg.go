package apph

// Engine "deleg" (property C12: delegation pool consistency and undelegation maturity).
//
// Histories of DELEGATE / UNDELEGATE / DELEG_WITHDRAW / DELEG_REINVEST by several delegators with
// donations to the pool (SENDPOOL DelegationPool, SEND to the pool address) and unrelated balance
// traffic are executed on the real application.  For every BeginBlock and every DeliverTx the
// decoded records of the subsystem are read before and after the call (committed tree overlaid
// with the deliver state's block cache) and
//   * the MONITOR evaluates the property's own predicate on them (independent of the Lean model),
//   * the CORRESPONDENCE sends "pre-state records + operation" to the Lean model (`olpdriver deleg`)
//     and compares its predicted result code / post-state records with the observed ones.
// A third kind of step runs the real pending stores on a bare storage.State and compares the keys
// their range iterators report with the model's (`piter` / `rwiter`; S17, fixed by 4adafc1: a
// reported key of another height is a violation).
//
// A history is logged as a small script (`genesis` / `block` / `tx` lines) that `-replay` and the
// corpus (corpus/C12/*.hist) re-execute.

import (
	"crypto/sha256"
	"encoding/json"
	"fmt"
	"io/ioutil"
	"math/big"
	"os"
	"path/filepath"
	"sort"
	"strconv"
	"strings"

	tmdb "github.com/tendermint/tm-db"

	"github.com/Oneledger/protocol/action"
	adeleg "github.com/Oneledger/protocol/action/network_delegation"
	"github.com/Oneledger/protocol/action/transfer"
	"github.com/Oneledger/protocol/data/balance"
	"github.com/Oneledger/protocol/data/keys"
	netdeleg "github.com/Oneledger/protocol/data/network_delegation"
	"github.com/Oneledger/protocol/serialize"
	codes "github.com/Oneledger/protocol/status_codes"
	"github.com/Oneledger/protocol/storage"

	"olverif/harness/kv"
	"olverif/harness/rng"
)

const delegRule = "case = one block history (4-6 delegators, 0-8 delegation transactions per block incl. several per delegator and block, boundary amounts: 0, 1, exact/one-above active amount, reward balance and account balance; donations; 1 in 5 histories carries a hostile stream of negative amounts) on the real application, every BeginBlock and DeliverTx re-run by the Lean model from the decoded pre-state records; plus scripted corpus histories and range-iterator cases on the real pending stores; non-trivial = at least one matured undelegation credited by BeginBlock and one successful state-changing delegation transaction; distinct = SHA-256 of the history script"

var (
	delegPoolAddr = keys.Address(netdeleg.DELEGATION_POOL_KEY)
	big0          = new(big.Int)
	olt18         = new(big.Int).Exp(big.NewInt(10), big.NewInt(18), nil)
)

const (
	delegGasPrice = 10000000000 // nue per gas unit
	delegGasLimit = 400000
)

// ---------------------------------------------------------------- decoded views

// dview is the state a handler sees: committed tree overlaid with the block cache.
type dview struct {
	base map[string]string
	ov   map[string]string
}

func (v *dview) get(k string) (string, bool) {
	if x, ok := v.ov[k]; ok {
		if x == storage.TOMBSTONE {
			return "", false
		}
		return x, true
	}
	x, ok := v.base[k]
	return x, ok
}

func (v *dview) keys(prefix string) []string {
	seen := map[string]bool{}
	var out []string
	for k := range v.base {
		if strings.HasPrefix(k, prefix) {
			seen[k] = true
		}
	}
	for k := range v.ov {
		if strings.HasPrefix(k, prefix) {
			seen[k] = true
		}
	}
	for k := range seen {
		if _, ok := v.get(k); ok {
			out = append(out, k)
		}
	}
	sort.Strings(out)
	return out
}

func viewOf(r *Replica, base map[string]string) *dview {
	ov := map[string]string{}
	for _, p := range pendingOf(r.App.VerifDeliverState()) {
		ov[string(p.k)] = string(p.v)
	}
	return &dview{base: base, ov: ov}
}

var persist = serialize.GetSerializer(serialize.PERSISTENT)

// decAmount decodes a stored balance.Amount with the repo's own serializer.
func decAmount(v string) (*big.Int, error) {
	a := balance.NewAmount(0)
	if err := persist.Deserialize([]byte(v), a); err != nil {
		return nil, err
	}
	return new(big.Int).Set(a.BigInt()), nil
}

// decCoin decodes a stored balance.Coin with the repo's own serializer.
func decCoin(v string) (*big.Int, error) {
	c := &balance.Coin{}
	if err := persist.Deserialize([]byte(v), c); err != nil {
		return nil, err
	}
	if c.Amount == nil {
		return nil, fmt.Errorf("coin without amount")
	}
	if c.Currency.Name != "OLT" {
		return nil, fmt.Errorf("coin currency %q", c.Currency.Name)
	}
	return new(big.Int).Set(c.Amount.BigInt()), nil
}

type recKind int

const (
	recBal recKind = iota
	recActive
	recPending
	recRw
	recRwPending
)

func recKey(k recKind, addr string, h int64) string {
	switch k {
	case recBal:
		return "b_" + addr + "_OLT"
	case recActive:
		return "deleg_a_" + addr
	case recPending:
		return "deleg_p_" + strconv.FormatInt(h, 10) + "_" + addr
	case recRw:
		return "delegRwz_balance_" + addr
	default:
		return "delegRwz_pending_" + strconv.FormatInt(h, 10) + "_" + addr
	}
}

// rec reads one record; nil = absent. A record that does not decode is reported through bad.
func (v *dview) rec(k recKind, addr string, h int64, bad *[]string) *big.Int {
	key := recKey(k, addr, h)
	s, ok := v.get(key)
	if !ok {
		return nil
	}
	var n *big.Int
	var err error
	if k == recActive || k == recPending {
		n, err = decCoin(s)
	} else {
		n, err = decAmount(s)
	}
	if err != nil {
		*bad = append(*bad, fmt.Sprintf("%s: %v", key, err))
		return nil
	}
	return n
}

func tok(n *big.Int) string {
	if n == nil {
		return "~"
	}
	return n.String()
}

func orZero(n *big.Int) *big.Int {
	if n == nil {
		return big0
	}
	return n
}

type hav struct {
	h    int64
	addr string
	v    *big.Int
}

// listHA decodes every record `<prefix><height>_<addr>` in key order.
func (v *dview) listHA(prefix string, coin bool, bad *[]string) []hav {
	var out []hav
	for _, k := range v.keys(prefix) {
		rest := strings.TrimPrefix(k, prefix)
		i := strings.Index(rest, "_")
		if i < 0 {
			*bad = append(*bad, "key without separator: "+k)
			continue
		}
		h, err := strconv.ParseInt(rest[:i], 10, 64)
		addr := rest[i+1:]
		if err != nil || !strings.HasPrefix(addr, "0lt") || len(addr) != 43 {
			*bad = append(*bad, "malformed key: "+k)
			continue
		}
		s, _ := v.get(k)
		var n *big.Int
		if coin {
			n, err = decCoin(s)
		} else {
			n, err = decAmount(s)
		}
		if err != nil {
			*bad = append(*bad, fmt.Sprintf("%s: %v", k, err))
			continue
		}
		out = append(out, hav{h, addr, n})
	}
	return out
}

// listA decodes every record `<prefix><addr>` in key order.
func (v *dview) listA(prefix string, coin bool, bad *[]string) []hav {
	var out []hav
	for _, k := range v.keys(prefix) {
		addr := strings.TrimPrefix(k, prefix)
		if !strings.HasPrefix(addr, "0lt") || len(addr) != 43 {
			*bad = append(*bad, "malformed key: "+k)
			continue
		}
		s, _ := v.get(k)
		var n *big.Int
		var err error
		if coin {
			n, err = decCoin(s)
		} else {
			n, err = decAmount(s)
		}
		if err != nil {
			*bad = append(*bad, fmt.Sprintf("%s: %v", k, err))
			continue
		}
		out = append(out, hav{0, addr, n})
	}
	return out
}

func showHAVs(l []hav) string {
	if len(l) == 0 {
		return "-"
	}
	s := make([]string, len(l))
	for i, e := range l {
		s[i] = fmt.Sprintf("%d:%s:%s", e.h, e.addr, e.v)
	}
	return strings.Join(s, ",")
}

func showAVs(l []hav) string {
	if len(l) == 0 {
		return "-"
	}
	s := make([]string, len(l))
	for i, e := range l {
		s[i] = fmt.Sprintf("%s:%s", e.addr, e.v)
	}
	return strings.Join(s, ",")
}

// maturityOf reads RewardsMaturityTime from the governance option record of the state.
func (v *dview) maturityOf() (int64, error) {
	for _, k := range v.keys("g_") {
		if strings.HasSuffix(k, "_networkdelegopt") {
			s, _ := v.get(k)
			var o struct {
				M int64 `json:"rewardsMaturityTime"`
			}
			if err := json.Unmarshal([]byte(s), &o); err != nil {
				return 0, err
			}
			return o.M, nil
		}
	}
	return 0, fmt.Errorf("network delegation option record not found")
}

// ---------------------------------------------------------------- scripts

// dTx is one scripted transaction.
type dTx struct {
	Kind string // delegate undelegate withdraw reinvest sendpool send transfer otherpool
	Who  int
	Amt  *big.Int
	To   int    // transfer
	Pool string // otherpool
}

func (t dTx) line() string {
	switch t.Kind {
	case "transfer":
		return fmt.Sprintf("tx transfer %d %s %d", t.Who, t.Amt, t.To)
	case "otherpool":
		return fmt.Sprintf("tx otherpool %d %s %s", t.Who, t.Amt, t.Pool)
	}
	return fmt.Sprintf("tx %s %d %s", t.Kind, t.Who, t.Amt)
}

func parseAmt(s string) (*big.Int, bool) {
	mul := big.NewInt(1)
	if strings.HasSuffix(s, "e18") {
		s = strings.TrimSuffix(s, "e18")
		mul = olt18
	}
	n, ok := new(big.Int).SetString(s, 10)
	if !ok {
		return nil, false
	}
	return n.Mul(n, mul), true
}

func parseDTx(f []string) (dTx, error) {
	if len(f) < 4 {
		return dTx{}, fmt.Errorf("short tx line %v", f)
	}
	who, err := strconv.Atoi(f[2])
	if err != nil {
		return dTx{}, err
	}
	amt, ok := parseAmt(f[3])
	if !ok {
		return dTx{}, fmt.Errorf("bad amount %q", f[3])
	}
	t := dTx{Kind: f[1], Who: who, Amt: amt}
	switch t.Kind {
	case "delegate", "undelegate", "withdraw", "reinvest", "sendpool", "send":
	case "transfer":
		if len(f) < 5 {
			return t, fmt.Errorf("transfer needs a recipient")
		}
		t.To, err = strconv.Atoi(f[4])
		if err != nil {
			return t, err
		}
	case "otherpool":
		if len(f) < 5 {
			return t, fmt.Errorf("otherpool needs a pool name")
		}
		t.Pool = f[4]
	default:
		return t, fmt.Errorf("unknown tx kind %q", t.Kind)
	}
	return t, nil
}

func amountOf(n *big.Int) action.Amount {
	return action.Amount{Currency: "OLT", Value: *balance.NewAmountFromBigInt(new(big.Int).Set(n))}
}

func (t dTx) build(w *World, memo string) []byte {
	a := w.Accts[t.Who%len(w.Accts)]
	fee := action.Fee{Price: action.Amount{Currency: "OLT", Value: *balance.NewAmount(delegGasPrice)}, Gas: delegGasLimit}
	var msg action.Msg
	switch t.Kind {
	case "delegate":
		msg = &adeleg.AddNetworkDelegation{DelegationAddress: a.Addr, Amount: amountOf(t.Amt)}
	case "undelegate":
		msg = &adeleg.Undelegate{Delegator: a.Addr, Amount: amountOf(t.Amt)}
	case "withdraw":
		msg = &adeleg.Withdraw{Delegator: a.Addr, Amount: amountOf(t.Amt)}
	case "reinvest":
		msg = &adeleg.Reinvest{Delegator: a.Addr, Amount: amountOf(t.Amt)}
	case "sendpool":
		msg = &transfer.SendPool{From: a.Addr, PoolName: "DelegationPool", Amount: amountOf(t.Amt)}
	case "send":
		msg = &transfer.Send{From: a.Addr, To: delegPoolAddr, Amount: amountOf(t.Amt)}
	case "transfer":
		msg = &transfer.Send{From: a.Addr, To: w.Accts[t.To%len(w.Accts)].Addr, Amount: amountOf(t.Amt)}
	case "otherpool":
		msg = &transfer.SendPool{From: a.Addr, PoolName: t.Pool, Amount: amountOf(t.Amt)}
	}
	return Sign(RawOf(msg, fee, memo), a)
}

// ---------------------------------------------------------------- result codes

// delegCode maps a DeliverTx response to the model's small enum (numeric protocol codes, never
// message text; the fee stage is recognised by "handler reported no error but the tx failed").
func delegCode(kind string, tr TxResult) string {
	if tr.Code == 0 {
		return "ok"
	}
	var pe struct {
		Code int    `json:"code"`
		Msg  string `json:"msg"`
	}
	transferKind := kind == "sendpool" || kind == "send" || kind == "transfer" || kind == "otherpool"
	if err := json.Unmarshal([]byte(tr.Log), &pe); err != nil {
		if transferKind {
			// plain-text logs: runTx's own messages, or the error of Validate (run by DeliverTx)
			return "sendFail"
		}
		return "unparsed-log"
	}
	if pe.Code == 0 {
		return "feeFail"
	}
	if transferKind {
		return "sendFail"
	}
	switch pe.Code {
	case codes.TxErrInvalidAmount:
		return "invalidAmount"
	case codes.TxErrInsufficientFunds:
		return "notEnoughFund"
	case codes.NetDelgErrDeductingActiveDelgAmount:
		return "deductActive"
	case codes.BalanceErrorAddFailed:
		return "poolMinus"
	case codes.NetDelgErrWithdraw:
		return "withdrawFail"
	case codes.NetDelgErrReinvest:
		return "reinvestFail"
	}
	return fmt.Sprintf("err%d", pe.Code)
}

// ---------------------------------------------------------------- one history

type delegRun struct {
	res   *Result
	c     int
	w     *World
	A     *Replica
	sim   *Sim
	hl    *HistoryLog
	lines []string // op lines for the driver
	impl  []string // what the implementation did, same format as the model's answers
	memo  int

	pool  string
	addrs []string // account addresses (delegators), by index

	// block in progress
	blk  *Block
	txs  [][]byte
	trs  []TxResult
	base map[string]string
	M    int64

	// monitor ghosts
	expU, expW   map[int64]map[string]*big.Int // maturity height -> addr -> amount owed
	donated      *big.Int
	accrued      map[string]*big.Int
	taken        map[string]*big.Int // withdrawn + reinvested
	negAccepted  bool                // an accepted negative-amount tx is in the history (S5 family)
	okTx, payout int
	stopped      bool
}

func newDelegRun(res *Result, c int, seed uint64, naccts int, hl *HistoryLog) (*delegRun, error) {
	p := SmallParams(seed)
	p.NAccts = naccts
	p.NVals = 3
	p.NCandidates = 0
	w := NewWorld(p)
	A, err := NewReplica(w, Identity{Name: "A", Val: w.Vals[0]})
	if err != nil {
		return nil, err
	}
	A.InitChain()
	d := &delegRun{res: res, c: c, w: w, A: A, sim: NewSim(w), hl: hl, pool: delegPoolAddr.String(),
		expU: map[int64]map[string]*big.Int{}, expW: map[int64]map[string]*big.Int{}, donated: new(big.Int),
		accrued: map[string]*big.Int{}, taken: map[string]*big.Int{}}
	for _, a := range w.Accts {
		d.addrs = append(d.addrs, a.Addr.String())
	}
	hl.Add("genesis seed=%d accts=%d", seed, naccts)
	return d, nil
}

func (d *delegRun) close() { d.A.Close() }

func (d *delegRun) hit(sig, detail string) {
	d.res.Hit(sig, d.c, detail, d.hl.Lines)
}

func (d *delegRun) emit(line, impl string) {
	d.lines = append(d.lines, line)
	d.impl = append(d.impl, impl)
}

func addTo(m map[int64]map[string]*big.Int, h int64, a string, x *big.Int) {
	if m[h] == nil {
		m[h] = map[string]*big.Int{}
	}
	if m[h][a] == nil {
		m[h][a] = new(big.Int)
	}
	m[h][a].Add(m[h][a], x)
}

func addA(m map[string]*big.Int, a string, x *big.Int) {
	if m[a] == nil {
		m[a] = new(big.Int)
	}
	m[a].Add(m[a], x)
}

// beginBlock starts the next block: BeginBlock on the implementation, the `begin` correspondence
// step and the maturity monitor.
func (d *delegRun) beginBlock(dt int64) {
	d.hl.Add("block dt=%d", dt)
	b := d.sim.NextBlock(nil, BlockOpts{DtSeconds: dt})
	d.blk, d.txs, d.trs = b, nil, nil
	d.A.SaveBlock(b)
	d.base = d.A.DumpMap()
	pre := &dview{base: d.base, ov: map[string]string{}}
	var bad []string
	if m, err := pre.maturityOf(); err != nil {
		bad = append(bad, err.Error())
	} else {
		d.M = m
	}
	bb := d.A.BeginBlock(b)
	if d.A.Crashed {
		d.hit("app-closed-by-panic", fmt.Sprintf("BeginBlock %d", b.Height))
		d.stopped = true
		return
	}
	post := viewOf(d.A, d.base)
	h := b.Height

	// --- observed: events
	var paidOrder, rwPaid []string
	T := "~"
	for _, e := range bb.Events {
		switch e.Type {
		case "deleg_undelegate":
			for _, at := range e.Attributes {
				if string(at.Key) != "height" {
					paidOrder = append(paidOrder, string(at.Key))
				}
			}
		case "block_rewards":
			for _, at := range e.Attributes {
				k := string(at.Key)
				if k == d.pool {
					T = string(at.Value)
				}
				if strings.HasPrefix(k, "deleg_rewards_mature_") {
					rwPaid = append(rwPaid, strings.TrimPrefix(k, "deleg_rewards_mature_"))
				}
			}
		}
	}
	sort.Strings(rwPaid)

	// --- correspondence line
	prePend := pre.listHA("deleg_p_", true, &bad)
	preRwp := pre.listHA("delegRwz_pending_", false, &bad)
	preAct := pre.listA("deleg_a_", true, &bad)
	preRw := pre.listA("delegRwz_balance_", false, &bad)
	addrSet := map[string]bool{d.pool: true}
	for _, a := range d.addrs {
		addrSet[a] = true
	}
	for _, e := range prePend {
		addrSet[e.addr] = true
	}
	for _, e := range preRwp {
		addrSet[e.addr] = true
	}
	var addrList []string
	for a := range addrSet {
		addrList = append(addrList, a)
	}
	sort.Strings(addrList)
	balList := func(v *dview) []hav {
		var out []hav
		for _, a := range addrList {
			if n := v.rec(recBal, a, 0, &bad); n != nil {
				out = append(out, hav{0, a, n})
			}
		}
		return out
	}
	rwtot := func(v *dview) string {
		s, ok := v.get("delegRwz_total_rewards")
		if !ok {
			return "~"
		}
		n, err := decAmount(s)
		if err != nil {
			bad = append(bad, "delegRwz_total_rewards: "+err.Error())
			return "~"
		}
		return n.String()
	}
	line := fmt.Sprintf("begin %s %d %s %s %s %s %s %s %s", d.pool, h, T, showHAVs(prePend), showHAVs(preRwp),
		showAVs(preAct), showAVs(preRw), rwtot(pre), showAVs(balList(pre)))
	postPend := post.listHA("deleg_p_", true, &bad)
	postRwp := post.listHA("delegRwz_pending_", false, &bad)
	postRw := post.listA("delegRwz_balance_", false, &bad)
	join := func(l []string) string {
		if len(l) == 0 {
			return "-"
		}
		return strings.Join(l, ",")
	}
	impl := fmt.Sprintf("begun paid=%s rwpaid=%s pend=%s rwp=%s rw=%s rwtot=%s bal=%s", join(paidOrder), join(rwPaid),
		showHAVs(postPend), showHAVs(postRwp), showAVs(postRw), rwtot(post), showAVs(balList(post)))
	d.emit(line, impl)

	// --- monitor: every OLT balance written by BeginBlock must be a maturity payment owed now
	owed := map[string]*big.Int{}
	for a, x := range d.expU[h] {
		addA(owed, a, x)
	}
	for a, x := range d.expW[h] {
		addA(owed, a, x)
	}
	touched := map[string]bool{}
	for k := range post.ov {
		if strings.HasPrefix(k, "b_") && strings.HasSuffix(k, "_OLT") {
			touched[strings.TrimSuffix(strings.TrimPrefix(k, "b_"), "_OLT")] = true
		}
	}
	for a := range owed {
		touched[a] = true
	}
	paidNow := 0
	for a := range touched {
		before := orZero(pre.rec(recBal, a, 0, &bad))
		after := orZero(post.rec(recBal, a, 0, &bad))
		delta := new(big.Int).Sub(after, before)
		want := orZero(owed[a])
		det := fmt.Sprintf("BeginBlock %d: balance of %s changed by %s, owed at this height (undelegated/withdrawn in block %d): %s", h, a, delta, h-d.M, want)
		switch {
		case delta.Cmp(want) == 0:
			if delta.Sign() > 0 {
				paidNow++
			}
			if delta.Sign() < 0 {
				if d.negAccepted {
					d.hit("maturity-debits-delegator-after-negative-amount", det)
				} else {
					d.hit("maturity-debits-delegator", det)
				}
			}
		case want.Sign() == 0:
			d.hit("maturity-credit-unexpected", det+" (paid early, twice or to somebody else)")
		case delta.Sign() == 0:
			d.hit("maturity-credit-missing", det)
		default:
			d.hit("maturity-credit-wrong-amount", det)
		}
	}
	if paidNow > 0 {
		d.payout++
		d.res.Distribution["begin:payout"]++
	} else {
		d.res.Distribution["begin:no-payout"]++
	}
	if T != "~" {
		d.res.Distribution["begin:accrual"]++
	}
	delete(d.expU, h)
	delete(d.expW, h)
	// entries of this height are cleared
	for _, e := range postPend {
		if e.h == h && e.v.Sign() != 0 {
			d.hit("pending-not-zeroed", fmt.Sprintf("after BeginBlock %d deleg_p_%d_%s still holds %s", h, e.h, e.addr, e.v))
		}
	}
	for _, e := range postRwp {
		if e.h == h && e.v.Sign() != 0 {
			d.hit("pending-not-zeroed", fmt.Sprintf("after BeginBlock %d delegRwz_pending_%d_%s still holds %s", h, e.h, e.addr, e.v))
		}
	}
	// accrual ghost: reward balances only grow here
	preRwM := map[string]*big.Int{}
	for _, e := range preRw {
		preRwM[e.addr] = e.v
	}
	for _, e := range postRw {
		dlt := new(big.Int).Sub(e.v, orZero(preRwM[e.addr]))
		addA(d.accrued, e.addr, dlt)
	}
	for _, m := range bad {
		d.hit("undecodable-record", fmt.Sprintf("BeginBlock %d: %s", h, m))
	}
}

// deliver executes one scripted transaction: DeliverTx on the implementation, the `tx`
// correspondence step and the transaction-level monitor.
func (d *delegRun) deliver(t dTx) {
	d.hl.Add("%s", t.line())
	d.memo++
	raw := t.build(d.w, fmt.Sprintf("c%d-%d", d.c, d.memo))
	h := d.blk.Height
	a := d.addrs[t.Who%len(d.addrs)]
	var bad []string
	pre := viewOf(d.A, d.base)
	mh := h + d.M
	type six struct{ bal, pool, act, pend, rw, rwp *big.Int }
	read := func(v *dview) six {
		return six{v.rec(recBal, a, 0, &bad), v.rec(recBal, d.pool, 0, &bad), v.rec(recActive, a, 0, &bad),
			v.rec(recPending, a, mh, &bad), v.rec(recRw, a, 0, &bad), v.rec(recRwPending, a, mh, &bad)}
	}
	p0 := read(pre)
	// hostile amounts are also offered to the mempool check: S5 matters because they are admitted
	if t.Amt.Sign() < 0 {
		cr := d.A.CheckTx(raw)
		d.res.Counters["negative_amount_checktx"]++
		if cr.Code == 0 {
			d.res.Counters["negative_amount_checktx_admitted"]++
		}
	}
	tr := d.A.DeliverTx(raw)
	d.txs = append(d.txs, raw)
	d.trs = append(d.trs, tr)
	if d.A.Crashed {
		d.hit("app-closed-by-panic", fmt.Sprintf("DeliverTx %s in block %d", t.line(), h))
		d.stopped = true
		return
	}
	post := viewOf(d.A, d.base)
	p1 := read(post)
	code := delegCode(t.Kind, tr)
	d.res.Distribution[strings.ToUpper(t.Kind)+":"+code]++
	fee := new(big.Int)
	if tr.Code == 0 {
		fee.Mul(big.NewInt(delegGasPrice), big.NewInt(tr.GasUsed))
		d.okTx++
	}
	show := func(s six) string {
		return fmt.Sprintf("%s %s %s %s %s %s", tok(s.bal), tok(s.pool), tok(s.act), tok(s.pend), tok(s.rw), tok(s.rwp))
	}
	if t.Kind != "transfer" && t.Kind != "otherpool" {
		feeok := 1
		if code == "feeFail" {
			feeok = 0
		}
		d.emit(fmt.Sprintf("tx %s %s %d %d %s %s %s %d %s", t.Kind, d.pool, d.M, h, a, t.Amt, show(p0), feeok, fee),
			code+" "+show(p1))
	}
	// --- monitor
	x := t.Amt
	eq := func(got, was *big.Int, diff *big.Int) bool { // got == was + diff
		return orZero(got).Cmp(new(big.Int).Add(orZero(was), diff)) == 0
	}
	neg := new(big.Int).Neg(x)
	negFee := new(big.Int).Neg(fee)
	ctx := fmt.Sprintf("block %d %s (code %s): before [bal pool active pending(%d) rewards rwPending(%d)] = %s, after = %s", h, t.line(), code, mh, mh, show(p0), show(p1))
	if tr.Code != 0 {
		if show(p0) != show(p1) {
			d.hit("failed-tx-changed-state", ctx)
		}
	} else {
		if x.Sign() < 0 && (t.Kind == "undelegate" || t.Kind == "withdraw" || t.Kind == "reinvest") {
			// S5 family: a negative amount was accepted (the IsValid check of commit 1db1c08 is gone)
			d.negAccepted = true
			d.hit(t.Kind+"-negative-amount-accepted", ctx)
		}
		switch t.Kind {
		case "delegate":
			if !eq(p1.act, p0.act, x) || !eq(p1.pool, p0.pool, x) || !eq(p1.bal, p0.bal, new(big.Int).Sub(negFee, x)) || x.Sign() < 0 {
				d.hit("delegate-effect-mismatch", ctx)
			}
		case "undelegate":
			if !eq(p1.act, p0.act, neg) {
				d.hit("undelegate-active-not-reduced", ctx)
			}
			if !eq(p1.pool, p0.pool, neg) {
				d.hit("undelegate-pool-not-debited", ctx)
			}
			if !eq(p1.bal, p0.bal, negFee) {
				d.hit("undelegate-paid-immediately", ctx)
			}
			if !eq(p1.pend, p0.pend, x) {
				d.hit("undelegate-pending-not-recorded", ctx)
			}
			if x.Cmp(orZero(p0.act)) > 0 {
				d.hit("undelegate-exceeds-active", ctx)
			}
			addTo(d.expU, mh, a, x)
		case "withdraw":
			if x.Cmp(orZero(p0.rw)) > 0 {
				d.hit("withdraw-exceeds-reward-balance", ctx)
			}
			if !eq(p1.rw, p0.rw, neg) {
				d.hit("withdraw-rewards-not-debited", ctx)
			}
			if !eq(p1.rwp, p0.rwp, x) {
				d.hit("withdraw-pending-not-recorded", ctx)
			}
			if !eq(p1.bal, p0.bal, negFee) {
				d.hit("withdraw-paid-immediately", ctx)
			}
			addTo(d.expW, mh, a, x)
			addA(d.taken, a, x)
		case "reinvest":
			if x.Cmp(orZero(p0.rw)) > 0 {
				d.hit("reinvest-exceeds-reward-balance", ctx)
			}
			if !eq(p1.rw, p0.rw, neg) {
				d.hit("reinvest-rewards-not-debited", ctx)
			}
			if !eq(p1.act, p0.act, x) || !eq(p1.pool, p0.pool, x) || !eq(p1.bal, p0.bal, negFee) {
				d.hit("reinvest-effect-mismatch", ctx)
			}
			addA(d.taken, a, x)
		case "sendpool", "send":
			if !eq(p1.pool, p0.pool, x) || !eq(p1.bal, p0.bal, new(big.Int).Sub(negFee, x)) {
				d.hit("donation-effect-mismatch", ctx)
			}
			d.donated.Add(d.donated, x)
		default: // unrelated traffic must not touch the subsystem
			if tok(p0.pool) != tok(p1.pool) || tok(p0.act) != tok(p1.act) || tok(p0.pend) != tok(p1.pend) || tok(p0.rw) != tok(p1.rw) || tok(p0.rwp) != tok(p1.rwp) {
				d.hit("unrelated-tx-touched-delegation", ctx)
			}
		}
	}
	for _, m := range bad {
		d.hit("undecodable-record", fmt.Sprintf("block %d %s: %s", h, t.line(), m))
	}
}

// endBlock finishes the block and evaluates the block-boundary predicate on the committed state.
func (d *delegRun) endBlock() {
	b := d.blk
	b.Txs = d.txs
	br := &BlockResult{Height: b.Height, Txs: d.trs}
	eb := d.A.EndBlock(b.Height)
	br.Updates = eb.ValidatorUpdates
	br.AppHash = d.A.Commit()
	d.A.IndexBlock(b, br)
	d.sim.Absorb(b, br)
	d.blk = nil
	if d.A.Crashed {
		d.hit("app-closed-by-panic", fmt.Sprintf("EndBlock/Commit %d", b.Height))
		d.stopped = true
		return
	}
	h := b.Height
	v := &dview{base: d.A.DumpMap(), ov: map[string]string{}}
	var bad []string
	pool := orZero(v.rec(recBal, d.pool, 0, &bad))
	sum := new(big.Int)
	for _, e := range v.listA("deleg_a_", true, &bad) {
		sum.Add(sum, e.v)
		if e.v.Sign() < 0 {
			if d.negAccepted {
				d.hit("negative-active-delegation-after-negative-amount", fmt.Sprintf("height %d: deleg_a_%s = %s", h, e.addr, e.v))
			} else {
				d.hit("negative-active-delegation", fmt.Sprintf("height %d: deleg_a_%s = %s", h, e.addr, e.v))
			}
		}
	}
	det := fmt.Sprintf("height %d: pool balance %s, sum of active delegations %s, donated so far %s", h, pool, sum, d.donated)
	if pool.Cmp(sum) < 0 {
		d.hit("pool-below-active", det)
	} else if pool.Cmp(new(big.Int).Add(sum, d.donated)) != 0 {
		d.hit("pool-ne-active-plus-donations", det)
	}
	// balances of the delegators and the pool never go below zero
	for _, a := range append([]string{d.pool}, d.addrs...) {
		if n := v.rec(recBal, a, 0, &bad); n != nil && n.Sign() < 0 {
			if d.negAccepted {
				d.hit("negative-balance-after-negative-amount", fmt.Sprintf("height %d: b_%s_OLT = %s", h, a, n))
			} else {
				d.hit("negative-balance", fmt.Sprintf("height %d: b_%s_OLT = %s", h, a, n))
			}
		}
	}
	// outstanding pending records are exactly what is owed, keyed by maturity height and address
	chk := func(name string, l []hav, exp map[int64]map[string]*big.Int) {
		seen := map[string]bool{}
		for _, e := range l {
			if e.h <= h {
				if e.v.Sign() != 0 {
					d.hit("pending-not-zeroed", fmt.Sprintf("height %d: matured %s_%d_%s still holds %s", h, name, e.h, e.addr, e.v))
				}
				continue
			}
			seen[fmt.Sprintf("%d/%s", e.h, e.addr)] = true
			want := big0
			if exp[e.h] != nil {
				want = orZero(exp[e.h][e.addr])
			}
			if e.v.Cmp(want) != 0 || e.h > h+d.M {
				d.hit("pending-record-mismatch", fmt.Sprintf("height %d: %s_%d_%s holds %s, owed %s (maturity %d)", h, name, e.h, e.addr, e.v, want, d.M))
			}
		}
		for mh, m := range exp {
			for a, x := range m {
				if !seen[fmt.Sprintf("%d/%s", mh, a)] {
					d.hit("pending-record-missing", fmt.Sprintf("height %d: no record %s_%d_%s for the owed amount %s", h, name, mh, a, x))
				}
			}
		}
	}
	chk("deleg_p", v.listHA("deleg_p_", true, &bad), d.expU)
	chk("delegRwz_pending", v.listHA("delegRwz_pending_", false, &bad), d.expW)
	// reward balances: accrued minus taken, never negative, never more taken than accrued
	for _, e := range v.listA("delegRwz_balance_", false, &bad) {
		acc, tk := orZero(d.accrued[e.addr]), orZero(d.taken[e.addr])
		if e.v.Cmp(new(big.Int).Sub(acc, tk)) != 0 {
			d.hit("reward-balance-unaccounted", fmt.Sprintf("height %d: delegRwz_balance_%s = %s, accrued %s, withdrawn+reinvested %s", h, e.addr, e.v, acc, tk))
		}
		if e.v.Sign() < 0 {
			if d.negAccepted {
				d.hit("negative-reward-balance-after-negative-amount", fmt.Sprintf("height %d: delegRwz_balance_%s = %s", h, e.addr, e.v))
			} else {
				d.hit("negative-reward-balance", fmt.Sprintf("height %d: delegRwz_balance_%s = %s", h, e.addr, e.v))
			}
		}
	}
	for _, m := range bad {
		d.hit("undecodable-record", fmt.Sprintf("height %d: %s", h, m))
	}
}

// compare runs the Lean model on the op lines and records disagreements.
func (d *delegRun) compare(driver string) error {
	if len(d.lines) == 0 {
		return nil
	}
	model, err := kv.RunDriver(driver, "deleg", d.lines)
	if err != nil {
		return err
	}
	maxFee := new(big.Int).Mul(big.NewInt(delegGasPrice), big.NewInt(delegGasLimit))
	for i := range d.lines {
		a, b := d.impl[i], model[i]
		d.res.Counters[strings.Fields(d.lines[i])[0]+"_steps"]++
		if j := strings.Index(b, " resid="); j >= 0 {
			// fee stage: the charge is not part of this model; the failure must at least be possible
			resid, ok := new(big.Int).SetString(b[j+7:], 10)
			b = b[:j]
			if !ok || resid.Cmp(maxFee) >= 0 {
				b += " (fee failure implausible: balance after the handler " + tok(resid) + ")"
			}
		}
		if a != b {
			d.res.DisagreementCount++
			if len(d.res.Disagreements) < 6 {
				d.res.Disagreements = append(d.res.Disagreements, Disagreement{"deleg-step", d.c, short(d.lines[i]), a, b, d.hl.Lines})
			}
		}
	}
	return nil
}

// ---------------------------------------------------------------- generator

type delegGen struct {
	r       *rng.R
	hostile bool
	n       int
	// exit family: from block exitAt on every delegator first asks for a reward withdrawal and then
	// undelegates everything, and nobody delegates or donates any more: the pool runs empty while
	// withdrawals and undelegations are still pending (0 = not an exit history)
	exitAt int
	block  int
	asked  map[int]bool
}

func pickAmt(r *rng.R, ref *big.Int) *big.Int {
	// boundary amounts around a reference value (active amount, reward balance, account balance)
	ref = orZero(ref)
	switch r.Intn(9) {
	case 0:
		return new(big.Int).Set(ref)
	case 1:
		return new(big.Int).Add(ref, big.NewInt(1))
	case 2:
		return big.NewInt(0)
	case 3:
		return big.NewInt(1)
	case 4:
		if ref.Sign() > 0 {
			return new(big.Int).Sub(ref, big.NewInt(1))
		}
	}
	if ref.Sign() <= 0 {
		return new(big.Int).Mul(big.NewInt(int64(1+r.Intn(20))), olt18)
	}
	// a fraction of the reference
	q := new(big.Int).Mul(ref, big.NewInt(int64(1+r.Intn(9))))
	return q.Div(q, big.NewInt(int64(10+r.Intn(30))))
}

// halfOrOne is an amount a withdrawal of the reward balance x will accept
func halfOrOne(x *big.Int) *big.Int {
	h := new(big.Int).Rsh(x, 1)
	if h.Sign() == 0 {
		return big.NewInt(1)
	}
	return h
}

func (g *delegGen) next(d *delegRun) dTx {
	r := g.r
	// few actors so that one delegator acts several times per block
	who := r.Intn(g.n)
	if r.Intn(3) == 0 {
		who = 0
	}
	a := d.addrs[who]
	v := viewOf(d.A, d.base)
	var bad []string
	bal := v.rec(recBal, a, 0, &bad)
	act := v.rec(recActive, a, 0, &bad)
	rw := v.rec(recRw, a, 0, &bad)
	if g.exitAt > 0 && g.block >= g.exitAt {
		// everything out first, the reward withdrawal afterwards: the pool is debited when an
		// undelegation matures, so it is empty at the maturity of a withdrawal only if that was
		// asked for in the same block as the last undelegation or later
		step := func(i int) *dTx {
			x := v.rec(recActive, d.addrs[i], 0, &bad)
			if x != nil && x.Sign() > 0 {
				return &dTx{Kind: "undelegate", Who: i, Amt: new(big.Int).Set(x)}
			}
			if xr := v.rec(recRw, d.addrs[i], 0, &bad); xr != nil && xr.Sign() > 0 && !g.asked[i] {
				g.asked[i] = true
				return &dTx{Kind: "withdraw", Who: i, Amt: halfOrOne(xr)}
			}
			return nil
		}
		if t := step(who); t != nil {
			return *t
		}
		for i := 0; i < g.n; i++ {
			if t := step(i); t != nil {
				return *t
			}
		}
		d.res.Counters["exit_everybody_out_txs"]++
		return dTx{Kind: "transfer", Who: who, Amt: big.NewInt(int64(r.Intn(1000000))), To: r.Intn(g.n)}
	}
	if g.hostile && r.Intn(6) == 0 {
		x := new(big.Int).Mul(big.NewInt(int64(-1-r.Intn(300))), olt18)
		if r.Intn(4) == 0 {
			x = big.NewInt(-1)
		}
		kinds := []string{"undelegate", "undelegate", "withdraw", "reinvest", "reinvest", "delegate"}
		return dTx{Kind: kinds[r.Intn(len(kinds))], Who: who, Amt: x}
	}
	switch x := r.Intn(100); {
	case x < 26:
		amt := new(big.Int).Mul(big.NewInt(int64(1+r.Intn(500))), olt18)
		switch r.Intn(12) {
		case 0:
			amt = pickAmt(r, bal) // whole balance, one above, …: the handler or the fee step refuses
		case 1:
			amt = big.NewInt(int64(r.Intn(3)))
		case 2:
			if bal != nil && bal.Cmp(olt18) > 0 { // leaves less than any fee
				amt = new(big.Int).Sub(bal, big.NewInt(int64(1+r.Intn(1000000))))
			}
		}
		return dTx{Kind: "delegate", Who: who, Amt: amt}
	case x < 52:
		return dTx{Kind: "undelegate", Who: who, Amt: pickAmt(r, act)}
	case x < 66:
		return dTx{Kind: "withdraw", Who: who, Amt: pickAmt(r, rw)}
	case x < 80:
		return dTx{Kind: "reinvest", Who: who, Amt: pickAmt(r, rw)}
	case x < 86:
		amt := new(big.Int).Mul(big.NewInt(int64(r.Intn(40))), olt18)
		if r.Intn(6) == 0 {
			amt = pickAmt(r, bal) // whole balance / one above: the debit or the fee step refuses
		}
		if g.exitAt > 0 {
			// a donation (SENDPOOL, or a plain SEND to the pool address) never leaves the pool again:
			// an exit history has none, so that the pool balance really reaches zero
			return dTx{Kind: "transfer", Who: who, Amt: big.NewInt(int64(r.Intn(1000000))), To: r.Intn(g.n)}
		}
		return dTx{Kind: "sendpool", Who: who, Amt: amt}
	case x < 90:
		amt := big.NewInt(int64(r.Intn(1000000)))
		switch r.Intn(8) {
		case 0:
			amt = pickAmt(r, bal)
		case 1:
			if g.hostile { // SEND checks the sign on the deliver path: refused
				amt = big.NewInt(int64(-1 - r.Intn(1000)))
			}
		}
		if g.exitAt > 0 { // "send" pays the pool address directly: a donation too
			return dTx{Kind: "transfer", Who: who, Amt: big.NewInt(int64(r.Intn(1000000))), To: r.Intn(g.n)}
		}
		return dTx{Kind: "send", Who: who, Amt: amt}
	case x < 96:
		amt := new(big.Int).Mul(big.NewInt(int64(1+r.Intn(1000))), olt18)
		if r.Intn(8) == 0 {
			amt = pickAmt(r, bal)
		}
		return dTx{Kind: "transfer", Who: who, Amt: amt, To: r.Intn(g.n)}
	default:
		pools := []string{"RewardsPool", "BountyPool", "FeePool", "NoSuchPool"}
		return dTx{Kind: "otherpool", Who: who, Amt: new(big.Int).Mul(big.NewInt(int64(1+r.Intn(30))), olt18), Pool: pools[r.Intn(len(pools))]}
	}
}

// ---------------------------------------------------------------- scripts from files

// runScript executes a scripted history (corpus / replay).
func runScript(res *Result, c int, lines []string, driver string) (*delegRun, error) {
	hl := &HistoryLog{}
	var d *delegRun
	defer func() {
		if d != nil {
			d.close()
		}
	}()
	for _, l := range lines {
		l = strings.TrimSpace(l)
		if l == "" || strings.HasPrefix(l, "#") {
			continue
		}
		f := strings.Fields(l)
		switch f[0] {
		case "genesis":
			seed, n := uint64(1), 4
			for _, kvp := range f[1:] {
				p := strings.SplitN(kvp, "=", 2)
				if len(p) == 2 && p[0] == "seed" {
					seed, _ = strconv.ParseUint(p[1], 10, 64)
				}
				if len(p) == 2 && p[0] == "accts" {
					n, _ = strconv.Atoi(p[1])
				}
			}
			var err error
			d, err = newDelegRun(res, c, seed, n, hl)
			if err != nil {
				return nil, err
			}
		case "block":
			if d == nil {
				return nil, fmt.Errorf("script: block before genesis")
			}
			if d.stopped {
				continue
			}
			if d.blk != nil {
				d.endBlock()
			}
			dt := int64(1)
			if len(f) > 1 && strings.HasPrefix(f[1], "dt=") {
				dt, _ = strconv.ParseInt(f[1][3:], 10, 64)
			}
			if !d.stopped {
				d.beginBlock(dt)
			}
		case "tx":
			if d == nil || d.blk == nil {
				return nil, fmt.Errorf("script: tx outside a block")
			}
			if d.stopped {
				continue
			}
			t, err := parseDTx(f)
			if err != nil {
				return nil, err
			}
			d.deliver(t)
		default:
			return nil, fmt.Errorf("script: unknown line %q", l)
		}
	}
	if d == nil {
		return nil, fmt.Errorf("script without genesis line")
	}
	if d.blk != nil && !d.stopped {
		d.endBlock()
	}
	if err := d.compare(driver); err != nil {
		return nil, err
	}
	return d, nil
}

func loadScript(path string) ([]string, error) {
	b, err := ioutil.ReadFile(path)
	if err != nil {
		return nil, err
	}
	return strings.Split(string(b), "\n"), nil
}

// ---------------------------------------------------------------- range iterators on the real stores (S17)

// execIter builds the real pending store on a bare storage.State holding exactly the given keys,
// commits, and returns the keys its range iterator reports for height h (in order) and how many
// of them belong to another height.
func execIter(rewards bool, h int64, toks []string) (string, int, error) {
	type key struct {
		h    int64
		addr keys.Address
	}
	var ks []key
	for _, t := range toks {
		p := strings.SplitN(t, ":", 2)
		if len(p) != 2 {
			return "", 0, fmt.Errorf("bad key token %q", t)
		}
		hh, err := strconv.ParseInt(p[0], 10, 64)
		if err != nil {
			return "", 0, err
		}
		var a keys.Address
		if err := a.UnmarshalText([]byte(p[1])); err != nil {
			return "", 0, err
		}
		ks = append(ks, key{hh, a})
	}
	cs := storage.NewChainState("chainstate", tmdb.NewDB("deleg-iter", tmdb.MemDBBackend, ""))
	st := storage.NewState(cs)
	olt := balance.Currency{Id: 0, Name: "OLT", Chain: 0, Decimal: 18, Unit: "nue"}
	ds := netdeleg.NewStore("deleg", st)
	rs := netdeleg.NewDelegRewardStore("delegRwz", st)
	for i, k := range ks {
		amt := balance.NewAmount(int64(i + 1)) // the amount identifies the entry in the callback
		var err error
		if rewards {
			err = rs.SetPendingRewards(k.addr, amt, k.h)
		} else {
			coin := olt.NewCoinFromAmount(*amt)
			err = ds.SetPendingAmount(k.addr, k.h, &coin)
		}
		if err != nil {
			return "", 0, err
		}
	}
	st.Commit()
	var visited []string
	other := 0
	visit := func(addr string, amt *big.Int) {
		i := int(amt.Int64()) - 1
		if i < 0 || i >= len(ks) || ks[i].addr.String() != addr {
			visited = append(visited, "?:"+addr)
			return
		}
		if ks[i].h != h {
			other++
		}
		visited = append(visited, fmt.Sprintf("%d:%s", ks[i].h, addr))
	}
	if rewards {
		rs.IteratePD(h, func(a keys.Address, amt *balance.Amount) bool { visit(a.String(), amt.BigInt()); return false })
	} else {
		ds.IteratePendingAmounts(h, func(a *keys.Address, coin *balance.Coin) bool {
			visit(a.String(), coin.Amount.BigInt())
			return false
		})
	}
	if len(visited) == 0 {
		return "visit -", other, nil
	}
	return "visit " + strings.Join(visited, ","), other, nil
}

func execIterLine(l string) (string, error) {
	f := strings.Fields(l)
	if len(f) != 3 {
		return "", fmt.Errorf("bad iterator line %q", l)
	}
	h, err := strconv.ParseInt(f[1], 10, 64)
	if err != nil {
		return "", err
	}
	var toks []string
	if f[2] != "-" {
		toks = strings.Split(f[2], ",")
	}
	out, _, err := execIter(f[0] == "rwiter", h, toks)
	return out, err
}

func runDelegIter(res *Result, r *rng.R, driver string, cases int) error {
	var lines, impl []string
	accts := []*Acct{NewAcct(99, "it0"), NewAcct(99, "it1"), NewAcct(99, "it2")}
	for c := 0; c < cases; c++ {
		h := int64(1 + r.Intn(40))
		if r.Intn(4) == 0 {
			h = int64(1 + r.Intn(12000))
		}
		var toks []string
		seen := map[string]bool{}
		n := 1 + r.Intn(7)
		for i := 0; i < n; i++ {
			var hh int64
			switch r.Intn(7) {
			case 0, 1:
				hh = h
			case 2:
				hh = h*10 + int64(r.Intn(10))
			case 3:
				hh = h*100 + int64(r.Intn(100))
			case 4:
				hh = h + int64(1+r.Intn(4))
			case 5:
				hh = h / 10
			default:
				hh = int64(1 + r.Intn(500))
			}
			if hh < 1 {
				hh = 1
			}
			t := fmt.Sprintf("%d:%s", hh, accts[r.Intn(len(accts))].Addr.String())
			if !seen[t] {
				seen[t] = true
				toks = append(toks, t)
			}
		}
		rewards := r.Intn(3) == 0
		out, other, err := execIter(rewards, h, toks)
		if err != nil {
			return err
		}
		op := "piter"
		if rewards {
			op = "rwiter"
		}
		lines = append(lines, fmt.Sprintf("%s %d %s", op, h, strings.Join(toks, ",")))
		impl = append(impl, out)
		res.Distribution[op]++
		if other > 0 {
			// since commit 4adafc1 the range prefix ends with the separator: a key of another height
			// (15 -> 150..159, S17) must never be reported again
			res.Distribution[op+":reported-other-height"]++
			l := lines[len(lines)-1]
			res.Hit("pending-range-reports-other-height", c, fmt.Sprintf("%s -> %s", l, out), []string{l})
		}
	}
	model, err := kv.RunDriver(driver, "deleg", lines)
	if err != nil {
		return err
	}
	for i := range lines {
		res.Counters["iter_steps"]++
		if impl[i] != model[i] {
			res.DisagreementCount++
			if len(res.Disagreements) < 6 {
				res.Disagreements = append(res.Disagreements, Disagreement{"deleg-iter", i, lines[i], impl[i], model[i], []string{lines[i]}})
			}
		}
	}
	return nil
}

// ---------------------------------------------------------------- engine

type DelegOptions struct {
	Driver    string
	Seed      uint64
	Histories int
	Blocks    int
	MaxTxs    int
	IterCases int
	Corpus    string
}

func RunDeleg(opt DelegOptions) (*Result, error) {
	res := NewResult("deleg", opt.Seed, delegRule)
	seen := map[[32]byte]bool{}
	finish := func(d *delegRun) {
		res.Evaluations++
		h := sha256.Sum256([]byte(strings.Join(d.hl.Lines, "\n")))
		nontriv := d.okTx > 0 && d.payout > 0
		if !seen[h] {
			seen[h] = true
			if nontriv {
				res.DistinctNontrivial++
			}
		}
		if len(res.Samples) < 2 && nontriv {
			res.Samples = append(res.Samples, shortAll(d.hl.Lines[:min(len(d.hl.Lines), 40)]))
		}
		if os.Getenv("DELEG_DUMP") == fmt.Sprint(d.c) { // diagnosis aid: the whole history of one case
			res.Samples = append(res.Samples, d.hl.Lines)
		}
		TruncateAppLog()
	}
	// corpus first
	c := 0
	if opt.Corpus != "" {
		files, _ := filepath.Glob(filepath.Join(opt.Corpus, "*.hist"))
		sort.Strings(files)
		for _, f := range files {
			lines, err := loadScript(f)
			if err != nil {
				return nil, err
			}
			d, err := runScript(res, c, lines, opt.Driver)
			if err != nil {
				return nil, fmt.Errorf("%s: %v", f, err)
			}
			res.Counters["corpus_histories"]++
			finish(d)
			c++
		}
	}
	root := rng.New(opt.Seed*131 + 17)
	for i := 0; i < opt.Histories; i++ {
		r := root.Fork()
		hl := &HistoryLog{}
		n := 4 + r.Intn(3)
		d, err := newDelegRun(res, c, opt.Seed*1000+uint64(i), n, hl)
		if err != nil {
			return nil, err
		}
		g := &delegGen{r: r.Fork(), hostile: i%5 == 4, n: n, asked: map[int]bool{}}
		if g.hostile {
			res.Counters["hostile_histories"]++
		}
		if i%6 == 3 {
			g.exitAt = 3 + i%4
			res.Counters["exit_histories"]++
		}
		for bi := 0; bi < opt.Blocks && !d.stopped; bi++ {
			g.block = bi
			dt := int64(1 + r.Intn(5))
			if r.Intn(6) == 0 {
				dt = int64(500 + r.Intn(3000))
			}
			d.beginBlock(dt)
			k := r.Intn(opt.MaxTxs + 1)
			if bi < 2 && k < 3 {
				k = 3
			}
			for j := 0; j < k && !d.stopped; j++ {
				d.deliver(g.next(d))
			}
			if !d.stopped {
				d.endBlock()
			}
		}
		err = d.compare(opt.Driver)
		d.close()
		if err != nil {
			return nil, err
		}
		finish(d)
		c++
	}
	if err := runDelegIter(res, root.Fork(), opt.Driver, opt.IterCases); err != nil {
		return nil, err
	}
	return res, nil
}

// ReplayDeleg re-executes one history script (a replay file written by ./check or a corpus file)
// and prints what the monitor and the correspondence say about it.
func ReplayDeleg(driver, path string, out func(string, ...interface{})) (int, error) {
	lines, err := loadScript(path)
	if err != nil {
		return 2, err
	}
	res := NewResult("deleg", 0, delegRule)
	for _, l := range lines {
		if strings.HasPrefix(l, "piter ") || strings.HasPrefix(l, "rwiter ") {
			implOut, err := execIterLine(l)
			if err != nil {
				return 2, err
			}
			model, err := kv.RunDriver(driver, "deleg", []string{l})
			if err != nil {
				return 2, err
			}
			out("%s\n   impl : %s\n   model: %s\n", l, implOut, model[0])
			if implOut != model[0] {
				return 1, nil
			}
			return 0, nil
		}
	}
	d, err := runScript(res, 0, lines, driver)
	if err != nil {
		return 2, err
	}
	for i, l := range d.lines {
		out("%s\n   impl : %s\n", short(l), d.impl[i])
	}
	for _, h := range res.MonitorHits {
		out("MONITOR %s: %s\n", h.Signature, h.Detail)
	}
	for _, dg := range res.Disagreements {
		out("DISAGREEMENT %s\n   impl : %s\n   model: %s\n", dg.Op, dg.Impl, dg.Model)
	}
	out("replay: monitor=%v disagreements=%d\n", res.MonitorHitCount, res.DisagreementCount)
	if len(res.MonitorHits) > 0 || res.DisagreementCount > 0 {
		return 1, nil
	}
	return 0, nil
}

// Package apph drives the whole Oneledger application through its ABCI interface
// (app.NewVerifApp, build tag verif) from generated genesis documents, with a simulated
// Tendermint around it (validator set with the +2 delay, last-commit votes, a real BlockStore
// and a per-replica in-memory tx indexer).
package apph

import (
	"crypto/sha256"
	"encoding/base64"
	"fmt"
	"github.com/Oneledger/protocol/utils"
	"io/ioutil"
	"math/big"
	"os"
	"path/filepath"
	"time"

	"github.com/btcsuite/btcd/btcec"
	"github.com/tendermint/tendermint/crypto/ed25519"
	"github.com/tendermint/tendermint/p2p"
	"github.com/tendermint/tendermint/privval"
	tmtypes "github.com/tendermint/tendermint/types"

	"github.com/Oneledger/protocol/app/node"
	"github.com/Oneledger/protocol/chains/bitcoin"
	ethchain "github.com/Oneledger/protocol/chains/ethereum"
	"github.com/Oneledger/protocol/config"
	"github.com/Oneledger/protocol/consensus"
	"github.com/Oneledger/protocol/data/balance"
	"github.com/Oneledger/protocol/data/chain"
	"github.com/Oneledger/protocol/data/delegation"
	"github.com/Oneledger/protocol/data/evidence"
	"github.com/Oneledger/protocol/data/fees"
	"github.com/Oneledger/protocol/data/governance"
	"github.com/Oneledger/protocol/data/keys"
	"github.com/Oneledger/protocol/data/network_delegation"
	"github.com/Oneledger/protocol/data/ons"
	"github.com/Oneledger/protocol/data/rewards"
)

// Acct is a key pair in the repo's own key types.
type Acct struct {
	Name string
	Priv keys.PrivateKey
	Pub  keys.PublicKey
	Addr keys.Address
	tm   ed25519.PrivKeyEd25519
	// signWith, when set, signs instead of the repo's private-key handler (accounts of the other
	// key algorithms built by the C04 engines sign with the libraries directly)
	signWith func([]byte) []byte
}

func detKey(seed uint64, name string) ed25519.PrivKeyEd25519 {
	h := sha256.Sum256([]byte(fmt.Sprintf("olverif-%d-%s", seed, name)))
	return ed25519.GenPrivKeyFromSecret(h[:])
}

func NewAcct(seed uint64, name string) *Acct {
	tm := detKey(seed, name)
	priv, err := keys.GetPrivateKeyFromBytes(tm[:], keys.ED25519)
	if err != nil {
		panic(err)
	}
	ph, err := priv.GetHandler()
	if err != nil {
		panic(err)
	}
	pub := ph.PubKey()
	h, err := pub.GetHandler()
	if err != nil {
		panic(err)
	}
	return &Acct{Name: name, Priv: priv, Pub: pub, Addr: h.Address(), tm: tm}
}

func (a *Acct) Sign(msg []byte) []byte {
	if a.signWith != nil {
		return a.signWith(msg)
	}
	h, _ := a.Priv.GetHandler()
	s, err := h.Sign(msg)
	if err != nil {
		panic(err)
	}
	return s
}

// Val is a validator identity: Tendermint consensus key, stake (owner) account, ECDSA key.
type Val struct {
	Name    string
	Key     *Acct // consensus key; Key.Addr is the validator address
	Owner   *Acct // stake address
	Ecdsa   keys.PrivateKey
	EcPub   keys.PublicKey
	ecRaw   []byte
	Stake   int64 // whole OLT
	Genesis bool
}

func NewVal(seed uint64, name string, stake int64, genesis bool) *Val {
	v := &Val{Name: name, Key: NewAcct(seed, "valkey-"+name), Owner: NewAcct(seed, "valowner-"+name), Stake: stake, Genesis: genesis}
	h := sha256.Sum256([]byte(fmt.Sprintf("olverif-ecdsa-%d-%s", seed, name)))
	pk, _ := btcec.PrivKeyFromBytes(btcec.S256(), h[:])
	v.ecRaw = pk.Serialize()
	ec, err := keys.GetPrivateKeyFromBytes(v.ecRaw, keys.SECP256K1)
	if err != nil {
		panic(err)
	}
	v.Ecdsa = ec
	eh, _ := ec.GetHandler()
	v.EcPub = eh.PubKey()
	return v
}

// Params selects a genesis family member (DESIGN App. C).
type Params struct {
	Seed            uint64
	NVals           int // genesis validators
	NCandidates     int // extra validator identities that may stake later
	NAccts          int // funded user accounts
	TopValidators   int64
	MinSelfDeleg    int64
	StakeMaturity   int64
	FundingDeadline int64
	VotingDeadline  int64
	RewardInterval  int64
	BlockSpeedCycle int64
	BlockVotesDiff  int64
	MinVotesReq     int64
	ReleaseTimeDays int64
	Frankenstein    int64
	MaxGas          int64 // consensus params block max gas (-1 = unlimited)
	Witnesses       int   // how many genesis validators are ETH witnesses
	GenesisStake    []int64
	AcctFunds       int64                       // whole OLT per account
	PoolFunds       int64                       // whole OLT in the rewards pool
	GenesisMatures  int                         // number of distinct maturity heights carried by the genesis delegation state (exported-state genesis)
	ETH             *ethchain.ChainDriverOption // ETH chain-driver option of the genesis (nil = empty, as before)
	NEth            int                         // Ethereum-keyed accounts funded at genesis (OLVM senders; needs Frankenstein > 0)
}

func SmallParams(seed uint64) Params {
	return Params{Seed: seed, NVals: 4, NCandidates: 2, NAccts: 4, TopValidators: 4, MinSelfDeleg: 5, StakeMaturity: 2,
		FundingDeadline: 3, VotingDeadline: 4, RewardInterval: 1, BlockSpeedCycle: 2, BlockVotesDiff: 3, MinVotesReq: 1,
		ReleaseTimeDays: 0, Frankenstein: 0, MaxGas: -1, Witnesses: 0, AcctFunds: 1000000, PoolFunds: 100000000}
}

// World is everything a history generator needs to know: identities and the genesis document.
type World struct {
	P           Params
	Vals        []*Val
	Accts       []*Acct
	Genesis     *config.GenesisDoc
	Olvm        *OlvmWorld // set when P.NEth > 0: the Ethereum-keyed accounts and the OLVM transaction builder
	State       consensus.AppState
	OLT         balance.Currency
	ChainID     string
	GenesisTime time.Time
}

func amt(s string) *balance.Amount {
	a, err := balance.NewAmountFromString(s, 10)
	if err != nil {
		panic(err)
	}
	return a
}

func oltUnits(whole int64) balance.Amount {
	b := new(big.Int).Mul(big.NewInt(whole), new(big.Int).Exp(big.NewInt(10), big.NewInt(18), nil))
	return *balance.NewAmountFromBigInt(b)
}

func NewWorld(p Params) *World {
	w := &World{P: p, ChainID: "olverif", GenesisTime: time.Unix(1600000000, 0).UTC()}
	olt := balance.Currency{Id: 0, Name: "OLT", Chain: chain.ONELEDGER, Decimal: 18, Unit: "nue"}
	vt := balance.Currency{Id: 1, Name: "VT", Chain: chain.ONELEDGER, Unit: "vt"}
	obtc := balance.Currency{Id: 2, Name: "BTC", Chain: chain.BITCOIN, Decimal: 8, Unit: "satoshi"}
	oeth := balance.Currency{Id: 3, Name: "ETH", Chain: chain.ETHEREUM, Decimal: 18, Unit: "wei"}
	ottc := balance.Currency{Id: 4, Name: "TTC", Chain: chain.TESTTOKEN, Decimal: 18, Unit: "testUnits"}
	w.OLT = olt
	for i := 0; i < p.NVals+p.NCandidates; i++ {
		st := int64(10 + 3*i)
		if i < len(p.GenesisStake) {
			st = p.GenesisStake[i]
		}
		w.Vals = append(w.Vals, NewVal(p.Seed, fmt.Sprintf("v%d", i), st, i < p.NVals))
	}
	for i := 0; i < p.NAccts; i++ {
		w.Accts = append(w.Accts, NewAcct(p.Seed, fmt.Sprintf("acct%d", i)))
	}
	var balances []consensus.BalanceState
	var staking, witness []consensus.Stake
	var gvals []tmtypes.GenesisValidator
	for i, v := range w.Vals {
		balances = append(balances, consensus.BalanceState{Address: v.Owner.Addr, Currency: "OLT", Amount: oltUnits(p.AcctFunds)})
		if !v.Genesis {
			continue
		}
		st := consensus.Stake{ValidatorAddress: v.Key.Addr, StakeAddress: v.Owner.Addr, Pubkey: v.Key.Pub, ECDSAPubKey: v.EcPub,
			Name: v.Name, Amount: *balance.NewAmountFromInt(v.Stake)}
		staking = append(staking, st)
		if i < p.Witnesses {
			witness = append(witness, st)
		}
		gvals = append(gvals, tmtypes.GenesisValidator{Address: v.Key.tm.PubKey().Address(), PubKey: v.Key.tm.PubKey(), Power: v.Stake, Name: v.Name})
	}
	for _, a := range w.Accts {
		balances = append(balances, consensus.BalanceState{Address: a.Addr, Currency: "OLT", Amount: oltUnits(p.AcctFunds)})
		balances = append(balances, consensus.BalanceState{Address: a.Addr, Currency: "VT", Amount: *balance.NewAmountFromInt(1000)})
	}
	balances = append(balances, consensus.BalanceState{Address: keys.Address("rewardpool"), Currency: "OLT", Amount: oltUnits(p.PoolFunds)})

	dist := func(v, f, b, e, bp, pr float64) governance.ProposalFundDistribution {
		return governance.ProposalFundDistribution{Validators: v, FeePool: f, Burn: b, ExecutionCost: e, BountyPool: bp, ProposerReward: pr}
	}
	popt := func(exec string) governance.ProposalOption {
		return governance.ProposalOption{InitialFunding: amt("1000000000"), FundingGoal: amt("10000000000"),
			FundingDeadline: p.FundingDeadline, VotingDeadline: p.VotingDeadline, PassPercentage: 51,
			PassedFundDistribution: dist(18, 18, 18, 18, 10, 18), FailedFundDistribution: dist(10, 10, 10, 20, 50, 0),
			ProposalExecutionCost: exec}
	}
	ethOpt := ethchain.ChainDriverOption{}
	if p.ETH != nil {
		ethOpt = *p.ETH
	}
	gov := governance.GovernanceState{
		FeeOption:   fees.FeeOption{FeeCurrency: olt, MinFeeDecimal: 9},
		ETHCDOption: ethOpt,
		BTCCDOption: bitcoin.ChainDriverOption{ChainType: "testnet3", TotalSupply: "2100000000000000", TotalSupplyAddr: "oneledgerSupplyAddress", BlockConfirmation: 6},
		ONSOptions: ons.Options{Currency: "OLT", PerBlockFees: *amt("100000000000000"), FirstLevelDomains: []string{"ol"},
			BaseDomainPrice: *amt("1000000000000000000000")},
		PropOptions: governance.ProposalOptionSet{ConfigUpdate: popt("executionCostConfig"), CodeChange: popt("executionCostCodeChange"),
			General: popt("executionCostGeneral"), BountyProgramAddr: "oneledgerBountyProgram"},
		StakingOptions: delegation.Options{MinSelfDelegationAmount: *balance.NewAmount(p.MinSelfDeleg), MinDelegationAmount: *balance.NewAmount(1),
			TopValidatorCount: p.TopValidators, MaturityTime: p.StakeMaturity},
		DelegOptions: network_delegation.Options{RewardsMaturityTime: 4},
		EvidenceOptions: evidence.Options{MinVotesRequired: p.MinVotesReq, BlockVotesDiff: p.BlockVotesDiff,
			PenaltyBasePercentage: 30, PenaltyBaseDecimals: 100, PenaltyBountyPercentage: 50, PenaltyBountyDecimals: 100,
			PenaltyBurnPercentage: 50, PenaltyBurnDecimals: 100, ValidatorReleaseTime: p.ReleaseTimeDays,
			ValidatorVotePercentage: 50, ValidatorVoteDecimals: 100, AllegationPercentage: 50, AllegationDecimals: 100},
		RewardOptions: rewards.Options{RewardInterval: p.RewardInterval, RewardPoolAddress: "rewardpool", RewardCurrency: "OLT",
			EstimatedSecondsPerCycle: 1728, BlockSpeedCalculateCycle: p.BlockSpeedCycle, YearCloseWindow: 3600 * 24,
			YearBlockRewardShares: []balance.Amount{*amt("70000000000000000000000000"), *amt("70000000000000000000000000"),
				*amt("40000000000000000000000000"), *amt("40000000000000000000000000"), *amt("30000000000000000000000000")},
			BurnoutRate: *amt("5000000000000000000")},
	}
	var ethAccts []*EthAcct
	for i := 0; i < p.NEth; i++ {
		e := NewEthAcct(p.Seed, fmt.Sprintf("eth%d", i))
		ethAccts = append(ethAccts, e)
		f := oltUnits(1000)
		if i == p.NEth-1 && p.NEth > 2 {
			f = *balance.NewAmountFromBigInt(new(big.Int).Mul(big.NewInt(10000000000), big.NewInt(90000))) // 90000 gas at the default price
		}
		balances = append(balances, consensus.BalanceState{Address: e.Addr, Currency: "OLT", Amount: f})
	}
	w.State = consensus.AppState{
		Currencies: []balance.Currency{olt, vt, obtc, oeth, ottc},
		Balances:   balances, Staking: staking, Witness: witness,
		Rewards: rewards.RewardMasterState{RewardState: rewards.NewRewardState(), CumuState: rewards.NewRewardCumuState()},
		Domains: []consensus.DomainState{}, Fees: []consensus.BalanceState{}, Governance: gov,
	}
	// an exported-state genesis: stake that is still maturing at several heights
	for i := 0; i < p.GenesisMatures; i++ {
		o := w.Vals[i%len(w.Vals)].Owner
		w.State.Delegation.MatureAmounts = append(w.State.Delegation.MatureAmounts,
			&delegation.MatureData{Address: o.Addr, Amount: *balance.NewAmount(int64(1 + i)), Height: int64(3 + 2*i)})
	}
	gd, err := consensus.NewGenesisDoc(w.ChainID, w.State)
	if err != nil {
		panic(err)
	}
	gd.GenesisTime = w.GenesisTime
	gd.Validators = gvals
	gd.ForkParams = &config.ForkParams{FrankensteinBlock: p.Frankenstein}
	gd.ConsensusParams.Block.MaxGas = p.MaxGas
	w.Genesis = gd
	if p.NEth > 0 {
		w.Olvm = &OlvmWorld{World: w, Eth: ethAccts, EvmID: utils.HashToBigInt(w.ChainID), EthFund: func() *big.Int { f := oltUnits(1000); return f.BigInt() }()}
	}
	return w
}

// Identity is what makes one node different from another (C01): its own keys and role.
type Identity struct {
	Name string
	Val  *Val // the node's validator key (may be a genesis validator, a candidate, or an outsider)
}

// writeNodeFiles creates the key files node.NewNodeContext needs and returns the context.
// node_key.json is removed again afterwards so that app.Prepare() stops before creating a node.
func writeNodeFiles(dir string, id Identity, cfg *config.Server) (*node.Context, error) {
	cdir := filepath.Join(dir, "consensus", "config")
	ddir := filepath.Join(dir, "consensus", "data")
	for _, d := range []string{cdir, ddir, filepath.Join(dir, "nodedata")} {
		if err := os.MkdirAll(d, 0755); err != nil {
			return nil, err
		}
	}
	nk := &p2p.NodeKey{PrivKey: detKey(7, "nodekey-"+id.Name)}
	nkPath := filepath.Join(cdir, "node_key.json")
	bz, err := cdcMarshal(nk)
	if err != nil {
		return nil, err
	}
	if err := ioutil.WriteFile(nkPath, bz, 0600); err != nil {
		return nil, err
	}
	pv := privval.GenFilePV(filepath.Join(cdir, "priv_validator_key.json"), filepath.Join(ddir, "priv_validator_state.json"))
	pv.Key.PrivKey = id.Val.Key.tm
	pv.Key.PubKey = id.Val.Key.tm.PubKey()
	pv.Key.Address = pv.Key.PubKey.Address()
	pv.Save()
	if err := ioutil.WriteFile(filepath.Join(cdir, "priv_validator_key_ecdsa.json"), []byte(base64.StdEncoding.EncodeToString(id.Val.ecRaw)), 0600); err != nil {
		return nil, err
	}
	nctx, err := node.NewNodeContext(cfg)
	os.Remove(nkPath)
	return nctx, err
}

package apph

// C14 — governance proposal lifecycle and funds: decoder of the governance records, the
// correspondence with the Lean model (stateless steps) and the engine loop.
// The generator lives in govgen.go, the property monitor in govmon.go.

import (
	"crypto/sha256"
	"encoding/binary"
	"encoding/hex"
	"encoding/json"
	"fmt"
	"io/ioutil"
	"math/big"
	"os"
	"regexp"
	"sort"
	"strings"

	"github.com/Oneledger/protocol/action"
	agov "github.com/Oneledger/protocol/action/governance"
	"github.com/Oneledger/protocol/serialize"

	"github.com/Oneledger/protocol/consensus"
	"github.com/Oneledger/protocol/data/governance"
	codes "github.com/Oneledger/protocol/status_codes"

	"olverif/harness/kv"
	"olverif/harness/rng"
)

const gvTombstone = "\xe2\x9b\xbc"

// govView is what a handler running now would read: the committed tree overlaid with the block
// cache of the deliver state. Iteration in the application enumerates committed keys only.
type govView struct {
	committed map[string]string
	pend      map[string]string // gvTombstone value = deleted in this block
}

func newGovView(committed map[string]string, pending []kvp) *govView {
	v := &govView{committed: committed, pend: map[string]string{}}
	for _, p := range pending {
		v.pend[string(p.k)] = string(p.v)
	}
	return v
}

func (v *govView) get(k string) (string, bool) {
	if x, ok := v.pend[k]; ok {
		if x == gvTombstone {
			return "", false
		}
		return x, true
	}
	x, ok := v.committed[k]
	return x, ok
}

func (v *govView) isCommitted(k string) bool { _, ok := v.committed[k]; return ok }

// liveKeys: every key with the prefix that reads as present, sorted.
func (v *govView) liveKeys(prefix string) []string {
	seen := map[string]bool{}
	var out []string
	for k := range v.committed {
		if strings.HasPrefix(k, prefix) {
			if _, ok := v.get(k); ok {
				out = append(out, k)
			}
			seen[k] = true
		}
	}
	for k := range v.pend {
		if strings.HasPrefix(k, prefix) && !seen[k] {
			if _, ok := v.get(k); ok {
				out = append(out, k)
			}
		}
	}
	sort.Strings(out)
	return out
}

// ---- decoded records

type GProp struct {
	Type, Status, Outcome int
	Proposer              string
	FD, VD                int64
	Goal                  *big.Int
	Pass                  int
	Cfg                   string
}

type GVote struct {
	Addr      string
	Opinion   int
	Power     int64
	Committed bool
}

type GFund struct {
	Addr      string
	Amount    *big.Int
	Committed bool
}

type GItem struct {
	Copies [5]*GProp // active, passed, failed, finalized, finalizeFailed
	Votes  []GVote
	Funds  []GFund
	Total  *big.Int
}

type GVal struct {
	Addr      string
	Power     int64
	Active    bool
	Committed bool
}

type GDist struct{ V, P, B, E, U int64 }

type GPOpt struct {
	Initial, Goal  *big.Int
	VotingDeadline int64
	Pass           int
	Passed, Failed GDist
	Exec           string
}

type GOpts struct {
	P                             [3]GPOpt // config, code, general
	Bounty                        string
	MinFeeDecimal                 int64
	PerBlockFees, BaseDomainPrice *big.Int
	LuhFee, LuhOns                int64
	OtherDigest                   string // every other g_ record
}

type GState struct {
	Items map[string]*GItem
	Opts  GOpts
	Vals  []GVal
	Bal   map[string]*big.Int
}

var storePrefixes = []string{"propActive", "propPassed", "propFailed", "propFinalized", "propFinalizeFailed"}
var storeNames = []string{"active", "passed", "failed", "finalized", "finalizeFailed"}

func propKeyParts(k string) (store int, id string, ok bool) {
	// longest prefixes first: propFinalizeFailed / propFinalized / propFailed share heads
	for _, i := range []int{4, 3, 2, 1, 0} {
		p := storePrefixes[i]
		if strings.HasPrefix(k, p) && len(k) == len(p)+64 {
			return i, k[len(p):], true
		}
	}
	return 0, "", false
}

func gvBigOf(s string) *big.Int {
	n, ok := new(big.Int).SetString(s, 10)
	if !ok {
		return nil
	}
	return n
}

func decodeProp(v string) (*GProp, error) {
	var p struct {
		Type     int    `json:"proposalType"`
		Status   int    `json:"status"`
		Outcome  int    `json:"outcome"`
		Proposer string `json:"proposer"`
		FD       int64  `json:"fundingDeadline"`
		Goal     string `json:"fundingGoal"`
		VD       int64  `json:"votingDeadline"`
		Pass     int    `json:"passPercent"`
		Cfg      string `json:"updateGovernanace"`
	}
	if err := json.Unmarshal([]byte(v), &p); err != nil {
		return nil, err
	}
	g := gvBigOf(p.Goal)
	if g == nil {
		return nil, fmt.Errorf("goal %q", p.Goal)
	}
	return &GProp{Type: p.Type, Status: p.Status, Outcome: p.Outcome, Proposer: p.Proposer, FD: p.FD, VD: p.VD, Goal: g, Pass: p.Pass, Cfg: p.Cfg}, nil
}

func (s *GState) item(id string) *GItem {
	it := s.Items[id]
	if it == nil {
		it = &GItem{Total: new(big.Int)}
		s.Items[id] = it
	}
	return it
}

var govSpecialAddrs = []string{"oneledgerBountyProgram", "executionCostConfig", "executionCostCodeChange", "executionCostGeneral"}

// decodeGov decodes every governance record of the view, the validator records and the balances
// of the watched accounts (nil = all accounts).
func decodeGov(v *govView, undecoded *[]string) *GState {
	s := &GState{Items: map[string]*GItem{}, Bal: map[string]*big.Int{}}
	bad := func(k string, err interface{}) {
		if undecoded != nil {
			*undecoded = append(*undecoded, fmt.Sprintf("%q: %v", k, err))
		}
	}
	for _, k := range v.liveKeys("prop") {
		val, _ := v.get(k)
		switch {
		case strings.HasPrefix(k, "propFunds_t_"):
			id := k[len("propFunds_t_"):]
			n := AmountOf(val)
			if n == nil {
				bad(k, "amount")
				continue
			}
			s.item(id).Total = n
		case strings.HasPrefix(k, "propFunds_i_"):
			rest := k[len("propFunds_i_"):]
			if len(rest) < 66 || rest[64] != '_' {
				bad(k, "key shape")
				continue
			}
			n := AmountOf(val)
			if n == nil {
				bad(k, "amount")
				continue
			}
			it := s.item(rest[:64])
			it.Funds = append(it.Funds, GFund{Addr: rest[65:], Amount: n, Committed: v.isCommitted(k)})
		case strings.HasPrefix(k, "propVotes_"):
			rest := k[len("propVotes_"):]
			if len(rest) < 66 || rest[64] != '_' {
				bad(k, "key shape")
				continue
			}
			var pv struct {
				Validator string `json:"validator"`
				Opinion   int    `json:"opinion"`
				Power     int64  `json:"power"`
			}
			if err := json.Unmarshal([]byte(val), &pv); err != nil {
				bad(k, err)
				continue
			}
			addr := AddrStr([]byte(rest[65:]))
			if addr != pv.Validator {
				bad(k, "validator field differs from key")
			}
			it := s.item(rest[:64])
			it.Votes = append(it.Votes, GVote{Addr: addr, Opinion: pv.Opinion, Power: pv.Power, Committed: v.isCommitted(k)})
		default:
			st, id, ok := propKeyParts(k)
			if !ok {
				bad(k, "unknown prop key")
				continue
			}
			p, err := decodeProp(val)
			if err != nil {
				bad(k, err)
				continue
			}
			s.item(id).Copies[st] = p
		}
	}
	// validators: committed v_ keys are what GetValidatorSet sees; active = evidence status record
	active := map[string]bool{}
	for _, k := range v.liveKeys("es__vss_") {
		if !v.isCommitted(k) {
			continue
		}
		val, _ := v.get(k)
		var vs struct {
			Address  string `json:"address"`
			IsActive bool   `json:"isActive"`
		}
		if err := json.Unmarshal([]byte(val), &vs); err != nil {
			bad(k, err)
			continue
		}
		if vs.IsActive {
			active[vs.Address] = true
		}
	}
	for _, k := range v.liveKeys("v_") {
		val, _ := v.get(k)
		var vr struct {
			Address string `json:"address"`
			Power   int64  `json:"power"`
		}
		if err := json.Unmarshal([]byte(val), &vr); err != nil {
			bad(k, err)
			continue
		}
		addr := AddrStr([]byte(k[2:]))
		s.Vals = append(s.Vals, GVal{Addr: addr, Power: vr.Power, Active: active[addr], Committed: v.isCommitted(k)})
	}
	// balances
	for _, k := range v.liveKeys("b_") {
		if !strings.HasSuffix(k, "_OLT") {
			continue
		}
		val, _ := v.get(k)
		n := AmountOf(val)
		if n == nil {
			bad(k, "amount")
			continue
		}
		s.Bal[k[2:len(k)-4]] = n
	}
	// the fee pool and the per-validator fee shares it is split into at every EndBlock: one holder
	pool := new(big.Int)
	for _, k := range v.liveKeys("f_") {
		val, _ := v.get(k)
		if n := amountAny(val); n != nil {
			pool.Add(pool, n)
		} else {
			bad(k, "amount")
		}
	}
	s.Bal["feepool"] = pool
	s.Opts = decodeGovOpts(v, bad)
	return s
}

func luhOf(v *govView, group string) int64 {
	val, ok := v.get("g_" + group + "_defaultOptions")
	if !ok || len(val) != 8 {
		return -1
	}
	return int64(binary.LittleEndian.Uint64([]byte(val)))
}

func optRecord(v *govView, group, key string) (string, bool) {
	h := luhOf(v, group)
	if h < 0 {
		return "", false
	}
	return v.get("g_" + string(rune(h)) + "_" + key)
}

func decodeGovOpts(v *govView, bad func(string, interface{})) GOpts {
	var o GOpts
	if raw, ok := optRecord(v, "proposalOptions", "proposal"); ok {
		var ps governance.ProposalOptionSet
		if err := json.Unmarshal([]byte(raw), &ps); err != nil {
			bad("g_proposal", err)
		} else {
			cv := func(po governance.ProposalOption) GPOpt {
				d := func(x governance.ProposalFundDistribution) GDist {
					// getPercentageCoin: int64(percentage * 10000)
					return GDist{V: int64(x.Validators * 10000), P: int64(x.ProposerReward * 10000), B: int64(x.BountyPool * 10000), E: int64(x.ExecutionCost * 10000), U: int64(x.Burn * 10000)}
				}
				return GPOpt{Initial: po.InitialFunding.BigInt(), Goal: po.FundingGoal.BigInt(), VotingDeadline: po.VotingDeadline, Pass: po.PassPercentage,
					Passed: d(po.PassedFundDistribution), Failed: d(po.FailedFundDistribution), Exec: AddrStr([]byte(po.ProposalExecutionCost))}
			}
			o.P = [3]GPOpt{cv(ps.ConfigUpdate), cv(ps.CodeChange), cv(ps.General)}
			o.Bounty = AddrStr([]byte(ps.BountyProgramAddr))
		}
	} else {
		bad("g_proposal", "missing")
	}
	if raw, ok := optRecord(v, "feeOptions", "feeopt"); ok {
		var f struct {
			MinFeeDecimal int64 `json:"minFeeDecimal"`
		}
		if err := json.Unmarshal([]byte(raw), &f); err != nil {
			bad("g_feeopt", err)
		}
		o.MinFeeDecimal = f.MinFeeDecimal
	} else {
		bad("g_feeopt", "missing")
	}
	if raw, ok := optRecord(v, "onsOptions", "onsopt"); ok {
		var f struct {
			PerBlockFees    string `json:"perBlockFees"`
			BaseDomainPrice string `json:"baseDomainPrice"`
		}
		if err := json.Unmarshal([]byte(raw), &f); err != nil {
			bad("g_onsopt", err)
		}
		o.PerBlockFees, o.BaseDomainPrice = gvBigOf(f.PerBlockFees), gvBigOf(f.BaseDomainPrice)
	} else {
		bad("g_onsopt", "missing")
	}
	if o.PerBlockFees == nil {
		o.PerBlockFees = new(big.Int)
	}
	if o.BaseDomainPrice == nil {
		o.BaseDomainPrice = new(big.Int)
	}
	o.LuhFee, o.LuhOns = luhOf(v, "feeOptions"), luhOf(v, "onsOptions")
	// everything else under g_: digest (the un-modelled option groups)
	h := sha256.New()
	for _, k := range v.liveKeys("g_") {
		if strings.HasSuffix(k, "_feeopt") || strings.HasSuffix(k, "_onsopt") || k == "g_feeOptions_defaultOptions" || k == "g_onsOptions_defaultOptions" {
			continue
		}
		val, _ := v.get(k)
		fmt.Fprintf(h, "%q=%q;", k, val)
	}
	o.OtherDigest = hex.EncodeToString(h.Sum(nil)[:8])
	return o
}

// ---- the line notation shared with lean/Driver/Gov.lean

var ptypeName = map[int]string{int(governance.ProposalTypeConfigUpdate): "config", int(governance.ProposalTypeCodeChange): "code", int(governance.ProposalTypeGeneral): "general"}
var statusName = map[int]string{int(governance.ProposalStatusFunding): "funding", int(governance.ProposalStatusVoting): "voting", int(governance.ProposalStatusCompleted): "completed"}
var outcomeName = map[int]string{int(governance.ProposalOutcomeInProgress): "inProgress", int(governance.ProposalOutcomeInsufficientFunds): "insFunds",
	int(governance.ProposalOutcomeInsufficientVotes): "insVotes", int(governance.ProposalOutcomeCompletedNo): "no",
	int(governance.ProposalOutcomeCancelled): "cancelled", int(governance.ProposalOutcomeCompletedYes): "yes"}
var opinionName = map[int]string{0: "u", 1: "y", 2: "n", 3: "g"}

func hexOrDash(s string) string {
	if s == "" {
		return "-"
	}
	return hex.EncodeToString([]byte(s))
}

func (p *GProp) tok() string {
	if p == nil {
		return "~"
	}
	return strings.Join([]string{ptypeName[p.Type], statusName[p.Status], outcomeName[p.Outcome], p.Proposer,
		fmt.Sprint(p.FD), p.Goal.String(), fmt.Sprint(p.VD), fmt.Sprint(p.Pass), hexOrDash(p.Cfg)}, ".")
}

func sortedJoin(l []string, sep string) string {
	if len(l) == 0 {
		return "-"
	}
	l = append([]string{}, l...)
	sort.Strings(l)
	return strings.Join(l, sep)
}

func gvB01(b bool) string {
	if b {
		return "1"
	}
	return "0"
}

func (it *GItem) line(tag, id string) string {
	if it == nil {
		it = &GItem{Total: new(big.Int)}
	}
	var vs, fs []string
	for _, v := range it.Votes {
		vs = append(vs, fmt.Sprintf("%s:%s:%d:%s", v.Addr, opinionName[v.Opinion], v.Power, gvB01(v.Committed)))
	}
	for _, f := range it.Funds {
		fs = append(fs, fmt.Sprintf("%s:%s:%s", f.Addr, f.Amount, gvB01(f.Committed)))
	}
	return strings.Join([]string{tag, id, it.Copies[0].tok(), it.Copies[1].tok(), it.Copies[2].tok(), it.Copies[3].tok(), it.Copies[4].tok(),
		sortedJoin(vs, ","), sortedJoin(fs, ","), it.Total.String()}, " ")
}

func (d GDist) tok() string { return fmt.Sprintf("%d/%d/%d/%d/%d", d.V, d.P, d.B, d.E, d.U) }

func (p GPOpt) tok() string {
	return fmt.Sprintf("%s,%s,%d,%d,%s,%s,%s", p.Initial, p.Goal, p.VotingDeadline, p.Pass, p.Passed.tok(), p.Failed.tok(), p.Exec)
}

func (o GOpts) inLine() string {
	return fmt.Sprintf("opts %s %s %s %s %d %s %s %d %d", o.P[0].tok(), o.P[1].tok(), o.P[2].tok(), o.Bounty, o.MinFeeDecimal, o.PerBlockFees, o.BaseDomainPrice, o.LuhFee, o.LuhOns)
}

func (o GOpts) outLine(pre GOpts) string {
	other := 0
	if o.OtherDigest != pre.OtherDigest {
		other = 1
	}
	return fmt.Sprintf("optv %d %s %s %d %d %d", o.MinFeeDecimal, o.PerBlockFees, o.BaseDomainPrice, o.LuhFee, o.LuhOns, other)
}

func valsLine(vs []GVal) string {
	var l []string
	for _, v := range vs {
		l = append(l, fmt.Sprintf("%s:%d:%s:%s", v.Addr, v.Power, gvB01(v.Active), gvB01(v.Committed)))
	}
	return "vals " + sortedJoin(l, ",")
}

func balLine(s *GState, watch []string) string {
	var l []string
	for _, a := range watch {
		n := s.Bal[a]
		if n == nil {
			continue // absent reads as zero on both sides; the model creates the entry when it writes
		}
		l = append(l, a+"="+n.String())
	}
	return "bal " + sortedJoin(l, ",")
}

// balOutLine prints the post balances of the watched accounts; an account absent before and
// after is omitted, one that appeared is printed (the model upserts it).
func balOutLine(pre, post *GState, watch []string) string {
	var l []string
	for _, a := range watch {
		n := post.Bal[a]
		if n == nil {
			if pre.Bal[a] == nil {
				continue
			}
			n = new(big.Int)
		}
		l = append(l, a+"="+n.String())
	}
	return "bal " + sortedJoin(l, ",")
}

// govValue: watched balances + escrow totals of the listed proposals.
func govValue(s *GState, watch []string, ids []string) *big.Int {
	t := new(big.Int)
	for _, a := range watch {
		if n := s.Bal[a]; n != nil {
			t.Add(t, n)
		}
	}
	for _, id := range ids {
		if it := s.Items[id]; it != nil {
			t.Add(t, it.Total)
		}
	}
	return t
}

// govErrName maps the protocol error code in a DeliverTx log to the model's error enum.
var govErrName = map[int]string{
	codes.TxErrInvalidAmount: "invalidAmount", codes.GovErrInvalidFundingGoal: "invalidFundingGoal", codes.GovErrInvalidPassPercentage: "invalidPassPercentage",
	codes.GovErrInvalidVotingDeadline: "invalidVotingDeadline", codes.GovErrInvalidFundingDeadline: "invalidFundingDeadline", codes.TxErrInvalidOptions: "invalidOptions",
	codes.TxErrValidateGovState: "validateGovState", codes.GovErrProposalExists: "proposalExists", codes.GovErrDeductFunding: "deductFunding",
	codes.GovErrProposalNotExists: "proposalNotExists", codes.GovErrFundingDeadlineCrossed: "fundingDeadlineCrossed", codes.GovErrStatusNotFunding: "statusNotFunding",
	codes.BalanceErrorMinusFailed: "balanceMinusFailed", codes.GovErrStatusNotVoting: "statusNotVoting", codes.GovErrVotingHeightReached: "votingHeightReached",
	codes.GovErrGettingValidatorList: "gettingValidatorList", codes.GovErrAddingVoteToVoteStore: "addingVoteToVoteStore", codes.GovErrPeekingVoteResult: "peekingVoteResult",
	codes.GovErrUnmatchedProposer: "unmatchedProposer", codes.GovErrProposalWithdrawNotEligible: "withdrawNotEligible", codes.GovErrNoSuchFunder: "noSuchFunder",
	codes.GovErrStatusNotCompleted: "statusNotCompleted", codes.GovErrUnabletoQueryVoteResult: "unableToQueryVoteResult", codes.GovErrVotingTBD: "votingTBD",
	codes.GovErrFinalizeConfigUpdateFailed: "finalizeConfigUpdateFailed",
}

func govResOf(tr TxResult) string {
	if tr.Code == 0 {
		return "res ok"
	}
	var pe struct {
		Code int    `json:"code"`
		Msg  string `json:"msg"`
	}
	if err := json.Unmarshal([]byte(tr.Log), &pe); err == nil && pe.Code != 0 {
		if n, ok := govErrName[pe.Code]; ok {
			return "res err:" + n
		}
		return fmt.Sprintf("res err:code%d", pe.Code)
	}
	if strings.Contains(tr.Log, "fee response log") {
		return "res err:feeFailed"
	}
	return "res err:invalid"
}

// govStepLines builds the model input line and the line the model must answer, from the
// decoded states around one step.
func govStepLines(op string, height int64, pre, post *GState, begin *GState, ids []string, watch []string, res string) (string, string) {
	secs := []string{op, fmt.Sprintf("h %d", height), pre.Opts.inLine(), valsLine(pre.Vals), balLine(pre, watch)}
	sort.Strings(ids)
	for _, id := range ids {
		secs = append(secs, pre.Items[id].line("item", id))
	}
	if begin != nil {
		for _, id := range ids {
			secs = append(secs, begin.Items[id].line("bitem", id))
		}
	}
	out := []string{res, post.Opts.outLine(pre.Opts), balOutLine(pre, post, watch)}
	for _, id := range ids {
		out = append(out, post.Items[id].line("item", id))
	}
	burned := new(big.Int).Sub(govValue(pre, watch, ids), govValue(post, watch, ids))
	out = append(out, "burned "+burned.String())
	return strings.Join(secs, " | "), strings.Join(out, " | ")
}

// ---- engine

type GovOptions struct {
	Driver    string
	Seed      uint64
	Histories int
	Blocks    int
	MaxTxs    int
	Replay    string
}

// govWorld builds a member of the small genesis family with the proposal options of the history.
func govWorld(p Params, pass int, awkward bool) *World {
	w := NewWorld(p)
	po := &w.State.Governance.PropOptions
	for _, o := range []*governance.ProposalOption{&po.ConfigUpdate, &po.CodeChange, &po.General} {
		o.PassPercentage = pass
		if awkward {
			// percentages whose products with 10000 are not integers in binary floating point
			o.PassedFundDistribution = governance.ProposalFundDistribution{Validators: 33.33, FeePool: 0.01, Burn: 16.67, ExecutionCost: 16.66, BountyPool: 16.66, ProposerReward: 16.67}
			o.FailedFundDistribution = governance.ProposalFundDistribution{Validators: 12.5, FeePool: 12.5, Burn: 0.07, ExecutionCost: 24.93, BountyPool: 50, ProposerReward: 0}
		}
	}
	gd, err := consensus.NewGenesisDoc(w.ChainID, w.State)
	if err != nil {
		panic(err)
	}
	gd.GenesisTime = w.GenesisTime
	gd.Validators = w.Genesis.Validators
	gd.ForkParams = w.Genesis.ForkParams
	gd.ConsensusParams.Block.MaxGas = p.MaxGas
	w.Genesis = gd
	return w
}

const govRule = "case = one generated block history of the whole application (small genesis family, 2-5 validators + candidates, pass percentage 51 or 67, plain or awkward distribution percentages): several proposals of all three types in parallel driven by scenario (pass / fail / expire / cancel / miss goal / chaos) with funders incl. the proposer, votes before/at/after the deadlines, withdrawals before/after cancel and fail, outsiders sending EXPIRE_VOTES / PROPOSAL_FINALIZE at every stage, accepted and rejected configuration updates, stake changes and hostile amounts; every governance transaction and every EndBlock is one stateless model step (decoded pre-state + op -> result code + post-state) compared literally with the Lean model; the lifecycle automaton, tally, snapshot, option-record and escrow monitors run on the decoded dumps of every block and on every step; non-trivial = at least one proposal reached voting AND (one internal finalisation or expiry, or one withdrawal after cancel/miss) happened; distinct = SHA-256 of the op lines"

// RunGov is the C14 engine.
func RunGov(opt GovOptions) (*Result, error) {
	res := NewResult("gov", opt.Seed, govRule)
	if opt.Replay != "" {
		return res, replayGov(opt, res)
	}
	root := rng.New(opt.Seed*7919 + 14)
	seen := map[[32]byte]bool{}
	var allOps, allImpl []string
	var caseOf []int
	var caseHL = map[int][]string{}
	tallyRuleSweep(res)
	only := os.Getenv("OLH_GOV_ONLY")
	for c := 0; c < opt.Histories; c++ {
		r := root.Fork()
		if only != "" && only != fmt.Sprint(c) {
			continue // development aid: run one case of the sequence
		}
		h := runGovHistory(opt, c, r, res, nil)
		if h.err != nil {
			return nil, h.err
		}
		res.Evaluations++
		sum := sha256.Sum256([]byte(strings.Join(h.ops, "\n")))
		if !seen[sum] {
			seen[sum] = true
			if h.nontrivial {
				res.DistinctNontrivial++
			}
		}
		if len(res.Samples) < 2 && h.nontrivial {
			res.Samples = append(res.Samples, shortAll(h.ops[:min(len(h.ops), 12)]))
		}
		for i := range h.ops {
			allOps = append(allOps, h.ops[i])
			allImpl = append(allImpl, h.impl[i])
			caseOf = append(caseOf, c)
		}
		caseHL[c] = h.hl.Lines
		TruncateAppLog()
	}
	// correspondence: one driver run over all steps
	if opt.Driver != "" && len(allOps) > 0 {
		model, err := kv.RunDriver(opt.Driver, "gov", allOps)
		if err != nil {
			return nil, err
		}
		for i := range allOps {
			res.Counters["steps_compared"]++
			if model[i] != allImpl[i] {
				res.DisagreementCount++
				if len(res.Disagreements) < 5 {
					res.Disagreements = append(res.Disagreements, Disagreement{Kind: "gov-step", Case: caseOf[i], Op: short(allOps[i]), Impl: diffSections(allImpl[i], model[i], true), Model: diffSections(allImpl[i], model[i], false),
						Ops: append(append([]string{}, caseHL[caseOf[i]]...), "# op: "+allOps[i], "# impl: "+allImpl[i], "# model: "+model[i])})
				}
			}
		}
	}
	return res, nil
}

// diffSections returns the sections that differ, from the chosen side.
func diffSections(impl, model string, implSide bool) string {
	a, b := strings.Split(impl, " | "), strings.Split(model, " | ")
	var out []string
	for i := 0; i < len(a) || i < len(b); i++ {
		x, y := "", ""
		if i < len(a) {
			x = a[i]
		}
		if i < len(b) {
			y = b[i]
		}
		if x != y {
			if implSide {
				out = append(out, x)
			} else {
				out = append(out, y)
			}
		}
	}
	return strings.Join(out, " | ")
}

// tallyRuleSweep evaluates the two integer decisions of ResultSoFar exactly as the Go code writes
// them (int64) against the rationals yes/total >= pass/100 and (total-no)/total < pass/100
// (math/big) on all small inputs, and records for reference where the float64 expressions the
// code used before the repair aed50ba differ from them.
func tallyRuleSweep(res *Result) {
	for pass := int64(1); pass <= 100; pass++ {
		pp := float64(pass) / 100.0
		rp := big.NewRat(pass, 100)
		for total := int64(1); total <= 120; total++ {
			for x := int64(0); x <= total; x++ {
				passed := x*100 >= pass*total
				failed := (total-x)*100 < pass*total
				if passed != (big.NewRat(x, total).Cmp(rp) >= 0) || failed != (big.NewRat(total-x, total).Cmp(rp) < 0) {
					res.Counters["tally_rule_differs_from_rationals"]++
				}
				q := float64(x) / float64(total)
				if ((1.0-q) < pp) != failed || (q >= pp) != passed {
					res.Counters["old_float_expression_differs"]++
				}
				res.Counters["tally_rule_sweep_points"]++
			}
		}
	}
	if n := res.Counters["tally_rule_differs_from_rationals"]; n > 0 {
		res.DisagreementCount++
		res.Disagreements = append(res.Disagreements, Disagreement{Kind: "tally-rule", Op: "sweep", Impl: fmt.Sprintf("%d points differ from the rationals", n), Model: "0"})
	}
}

type govHistory struct {
	ops, impl  []string
	hl         *HistoryLog
	nontrivial bool
	err        error
}

// govRecording is a history read back from a replay file.
type govRecording struct {
	P       Params
	Pass    int
	Awkward bool
	Blocks  []govRecBlock
}

type govRecBlock struct {
	Opts BlockOpts
	Txs  [][]byte
}

func runGovHistory(opt GovOptions, c int, r *rng.R, res *Result, rec *govRecording) govHistory {
	h := govHistory{hl: &HistoryLog{}}
	var p Params
	pass, awkward := 51, c%3 == 1
	script := ""
	if rec != nil {
		p, pass, awkward = rec.P, rec.Pass, rec.Awkward
	} else {
		p = paramsBase(r, opt.Seed*1000+uint64(c))
		p.GenesisMatures = 0
		p.Witnesses = 0
		switch {
		case c%8 == 5:
			// regression family (repaired KF-C14-2): powers 33/33/34, pass percentage 67
			pass = 67
			p.NVals, p.NCandidates, p.TopValidators, p.MinSelfDeleg = 3, 1, 4, 1
			p.GenesisStake = []int64{33, 33, 34}
			script = "boundary"
		case c%8 == 2:
			script = "s19"
		}
	}
	w := govWorld(p, pass, awkward)
	pj, _ := json.Marshal(p)
	h.hl.Add("genesis pass=%d awkward=%v script=%s params=%s", pass, awkward, script, pj)
	A, err := NewReplica(w, Identity{Name: "A", Val: w.Vals[0]})
	if err != nil {
		h.err = err
		return h
	}
	defer A.Close()
	A.InitChain()
	sim := NewSim(w)
	g := newGovGen(w, r.Fork(), pass, script)
	mon := newGovMon(res, c, h.hl, w)
	watch := g.watchList()
	committed := A.DumpMap()
	mon.block(0, decodeGov(newGovView(committed, nil), &mon.undecoded), nil)
	nBlocks := opt.Blocks
	if rec != nil {
		nBlocks = len(rec.Blocks)
	}
	for bi := 0; bi < nBlocks; bi++ {
		height := sim.Height + 1
		begin := decodeGov(newGovView(committed, nil), nil)
		var gts []govTx
		var bo BlockOpts
		if rec != nil {
			bo = rec.Blocks[bi].Opts
			for _, b := range rec.Blocks[bi].Txs {
				gts = append(gts, govTxFromBytes(b))
			}
		} else {
			gts = g.block(height, begin, opt.MaxTxs)
			bo = genBlockOpts(r, p.NVals)
			if script != "" {
				bo = BlockOpts{DtSeconds: 1}
			}
		}
		var txs [][]byte
		for _, t := range gts {
			txs = append(txs, t.Bytes)
		}
		b := sim.NextBlock(txs, bo)
		logGovBlock(h.hl, b, gts, bo)
		A.SaveBlock(b)
		A.BeginBlock(b)
		br := &BlockResult{Height: b.Height}
		pre := decodeGov(newGovView(committed, pendingOf(A.App.VerifDeliverState())), nil)
		var okTxs []govTx
		for _, t := range gts {
			tr := A.DeliverTx(t.Bytes)
			br.Txs = append(br.Txs, tr)
			if A.Crashed {
				break
			}
			post := decodeGov(newGovView(committed, pendingOf(A.App.VerifDeliverState())), &mon.undecoded)
			rs := govResOf(tr)
			res.Distribution[t.Kind+" "+strings.TrimPrefix(rs, "res ")]++
			if t.Op != "" {
				// fee actually charged: price x gas used. A failed transaction does not report its gas:
				// the price of one gas unit is a lower bound of what the fee step tried to charge,
				// enough for the model to reproduce a fee failure of an (almost) empty account
				fee := new(big.Int)
				if t.Fee {
					fee.SetInt64(govFeePrice)
					if tr.Code == 0 {
						fee.Mul(fee, big.NewInt(tr.GasUsed))
					}
				}
				op := t.Op
				if t.Fee {
					op += " " + fee.String()
				}
				in, out := govStepLines(op, height, pre, post, nil, []string{t.PID}, watch, rs)
				h.ops = append(h.ops, in)
				h.impl = append(h.impl, out)
				mon.step(height, t, tr.Code == 0, pre, post, watch)
				// the two repaired defects as scripted regression scenarios
				switch {
				case script == "s19" && height == 4 && t.Kind == "EXPIRE_VOTES":
					res.Counters["regression_outsider_expiry_runs"]++
					if rs != "res err:statusNotVoting" || itemSig(pre.Items[t.PID]) != itemSig(post.Items[t.PID]) || balLine(pre, watch) != balLine(post, watch) {
						res.Hit("regression-outsider-expiry-not-refused", c, fmt.Sprintf("height %d: %s; %s -> %s", height, rs, itemSig(pre.Items[t.PID]), itemSig(post.Items[t.PID])), h.hl.Lines)
					}
				case script == "boundary" && height == 5 && t.Kind == "PROPOSAL_VOTE":
					res.Counters["regression_boundary_vote_runs"]++
					if st, p, _ := post.Items[t.PID].where(); rs != "res ok" || p == nil || st != 0 || p.Status != stVoting {
						res.Hit("regression-boundary-vote-decided", c, fmt.Sprintf("height %d: %s; %s", height, rs, describe(post.Items[t.PID])), h.hl.Lines)
					}
				}
			}
			if tr.Code == 0 {
				okTxs = append(okTxs, t)
			}
			pre = post
		}
		if A.Crashed {
			res.Hit("app-closed-by-panic", c, fmt.Sprintf("block %d", b.Height), h.hl.Lines)
			return h
		}
		eb := A.EndBlock(b.Height)
		br.Updates = eb.ValidatorUpdates
		if A.Crashed {
			res.Hit("app-closed-by-panic", c, fmt.Sprintf("EndBlock %d", b.Height), h.hl.Lines)
			return h
		}
		post := decodeGov(newGovView(committed, pendingOf(A.App.VerifDeliverState())), &mon.undecoded)
		// the `end` step: every proposal that is not finally settled at block begin or now
		var ids []string
		for id, it := range pre.Items {
			if it.Copies[3] == nil && it.Copies[4] == nil {
				ids = append(ids, id)
			}
		}
		if len(ids) > 0 {
			// EndBlock first computes the validator updates (which may delete validator records)
			// and only then runs the queued expiries / finalisations: the validator records the
			// distribution iterates are the ones still present afterwards
			preEnd := *pre
			preEnd.Vals = post.Vals
			in, out := govStepLines("end", height, &preEnd, post, begin, ids, watch, "res ok")
			h.ops = append(h.ops, in)
			h.impl = append(h.impl, out)
			res.Distribution["end"]++
		}
		mon.endBlock(height, pre, post, watch)
		br.AppHash = A.Commit()
		A.IndexBlock(b, br)
		if A.Crashed {
			res.Hit("app-closed-by-panic", c, fmt.Sprintf("Commit %d", b.Height), h.hl.Lines)
			return h
		}
		sim.Absorb(b, br)
		committed = A.DumpMap()
		mon.block(height, decodeGov(newGovView(committed, nil), &mon.undecoded), okTxs)
		if mon.stop {
			break
		}
	}
	mon.finish()
	res.Counters["proposals_reached_voting"] += mon.reachedVoting
	res.Counters["internal_finalisations"] += mon.internalFinal
	res.Counters["internal_expiries"] += mon.internalExpiry
	res.Counters["withdrawals"] += mon.refunds
	if os.Getenv("OLH_GOV_DEBUG") == fmt.Sprint(c) {
		for i := range h.ops {
			fmt.Fprintln(realStdout, "OP  ", short(h.ops[i]))
			x := strings.Split(h.impl[i], " | ")
			fmt.Fprintln(realStdout, "   =>", x[0], "|", short(strings.Join(x[3:], " | ")))
		}
	}
	h.nontrivial = mon.reachedVoting > 0 && (mon.internalFinal+mon.internalExpiry+mon.refunds > 0)
	return h
}

func logGovBlock(h *HistoryLog, b *Block, gts []govTx, o BlockOpts) {
	var ab []string
	for i := range o.Absent {
		ab = append(ab, fmt.Sprint(i))
	}
	sort.Strings(ab)
	h.Add("block %d dt=%d absent=[%s] byz=%v txs=%d", b.Height, o.DtSeconds, strings.Join(ab, ","), o.Byzantine, len(b.Txs))
	for i, t := range gts {
		h.Add("  tx %d %s (%s) %s", i, t.Kind, t.Note, hex.EncodeToString(t.Bytes))
	}
}

// govTxFromBytes rebuilds the description of a governance transaction (model operation, ids,
// amounts) from its network bytes; other kinds come back as environment transactions.
func govTxFromBytes(b []byte) govTx {
	t := govTx{Kind: "OTHER", Note: "replayed", Bytes: b}
	var st action.SignedTx
	if err := serialize.GetSerializer(serialize.NETWORK).Deserialize(b, &st); err != nil {
		return t
	}
	t.Kind = st.Type.String()
	if len(st.Signatures) > 0 {
		if hd, err := st.Signatures[0].Signer.GetHandler(); err == nil {
			t.Signer = AddrStr(hd.Address())
		}
	}
	switch st.Type {
	case action.PROPOSAL_CREATE:
		m := &agov.CreateProposal{}
		if m.Unmarshal(st.Data) != nil || m.FundingGoal == nil {
			return t
		}
		t.Kind, t.PID, t.Fee, t.Funder, t.Value = "PROPOSAL_CREATE", string(m.ProposalID), true, AddrStr(m.Proposer), m.InitialFunding.Value.BigInt()
		t.Op = fmt.Sprintf("create %s %s %s %s %d %s %d %d %s", m.ProposalID, ptypeName[int(m.ProposalType)], AddrStr(m.Proposer), m.InitialFunding.Value.BigInt(), m.FundingDeadline,
			m.FundingGoal.BigInt(), m.VotingDeadline, m.PassPercentage, hexOrDash(m.ConfigUpdate))
	case action.PROPOSAL_FUND:
		m := &agov.FundProposal{}
		if m.Unmarshal(st.Data) != nil {
			return t
		}
		t.Kind, t.PID, t.Fee, t.Funder, t.Value = "PROPOSAL_FUND", string(m.ProposalId), true, AddrStr(m.FunderAddress), m.FundValue.Value.BigInt()
		t.Op = fmt.Sprintf("fund %s %s %s", m.ProposalId, AddrStr(m.FunderAddress), t.Value)
	case action.PROPOSAL_VOTE:
		m := &agov.VoteProposal{}
		if m.Unmarshal(st.Data) != nil {
			return t
		}
		t.Kind, t.PID, t.Fee, t.Validator, t.Opinion = "PROPOSAL_VOTE", string(m.ProposalID), true, AddrStr(m.ValidatorAddress), int(m.Opinion)
		t.Op = fmt.Sprintf("vote %s %s %s %s", m.ProposalID, AddrStr(m.Address), AddrStr(m.ValidatorAddress), opinionName[int(m.Opinion)])
	case action.PROPOSAL_CANCEL:
		m := &agov.CancelProposal{}
		if m.Unmarshal(st.Data) != nil {
			return t
		}
		t.Kind, t.PID, t.Fee = "PROPOSAL_CANCEL", string(m.ProposalId), true
		t.Op = fmt.Sprintf("cancel %s %s", m.ProposalId, AddrStr(m.Proposer))
	case action.PROPOSAL_WITHDRAW_FUNDS:
		m := &agov.WithdrawFunds{}
		if m.Unmarshal(st.Data) != nil {
			return t
		}
		t.Kind, t.PID, t.Fee, t.Funder, t.Benef, t.Value = "PROPOSAL_WITHDRAW_FUNDS", string(m.ProposalID), true, AddrStr(m.Funder), AddrStr(m.Beneficiary), m.WithdrawValue.Value.BigInt()
		t.Op = fmt.Sprintf("withdraw %s %s %s %s", m.ProposalID, AddrStr(m.Funder), t.Value, AddrStr(m.Beneficiary))
	case action.EXPIRE_VOTES:
		m := &agov.ExpireVotes{}
		if m.Unmarshal(st.Data) != nil {
			return t
		}
		t.Kind, t.PID, t.Op = "EXPIRE_VOTES", string(m.ProposalID), "expire "+string(m.ProposalID)
	case action.PROPOSAL_FINALIZE:
		m := &agov.FinalizeProposal{}
		if m.Unmarshal(st.Data) != nil {
			return t
		}
		t.Kind, t.PID, t.Op = "PROPOSAL_FINALIZE", string(m.ProposalID), "finalize "+string(m.ProposalID)
	}
	return t
}

var reGovBlock = regexp.MustCompile(`^block (\d+) dt=(\d+) absent=\[([0-9,]*)\] byz=\[([0-9 ]*)\] txs=(\d+)`)

// parseGovRecording reads the `genesis …`, `block …`, `tx … <hex>` lines of a replay file
// (lines starting with '#' are the header ./check writes and the model / implementation lines).
func parseGovRecording(path string) (*govRecording, error) {
	raw, err := ioutil.ReadFile(path)
	if err != nil {
		return nil, err
	}
	rec := &govRecording{}
	for _, line := range strings.Split(string(raw), "\n") {
		switch {
		case strings.HasPrefix(line, "genesis "):
			i := strings.Index(line, "params=")
			if i < 0 {
				return nil, fmt.Errorf("genesis line without params")
			}
			if err := json.Unmarshal([]byte(line[i+len("params="):]), &rec.P); err != nil {
				return nil, err
			}
			fmt.Sscanf(line, "genesis pass=%d awkward=%t", &rec.Pass, &rec.Awkward)
		case strings.HasPrefix(line, "block "):
			m := reGovBlock.FindStringSubmatch(line)
			if m == nil {
				return nil, fmt.Errorf("bad block line %q", line)
			}
			var bo BlockOpts
			fmt.Sscan(m[2], &bo.DtSeconds)
			for _, x := range strings.Split(m[3], ",") {
				if x != "" {
					var i int
					fmt.Sscan(x, &i)
					if bo.Absent == nil {
						bo.Absent = map[int]bool{}
					}
					bo.Absent[i] = true
				}
			}
			for _, x := range strings.Fields(m[4]) {
				var i int
				fmt.Sscan(x, &i)
				bo.Byzantine = append(bo.Byzantine, i)
			}
			rec.Blocks = append(rec.Blocks, govRecBlock{Opts: bo})
		case strings.HasPrefix(line, "  tx "):
			f := strings.Fields(line)
			b, err := hex.DecodeString(f[len(f)-1])
			if err != nil || len(rec.Blocks) == 0 {
				return nil, fmt.Errorf("bad tx line %.60q", line)
			}
			rec.Blocks[len(rec.Blocks)-1].Txs = append(rec.Blocks[len(rec.Blocks)-1].Txs, b)
		}
	}
	if rec.P.NVals == 0 {
		return nil, fmt.Errorf("no genesis line in %s", path)
	}
	return rec, nil
}

// replayGov re-executes a recorded history on a fresh application with the monitors and the
// correspondence (exit status 1 of `olh gov -replay` = something fired).
func replayGov(opt GovOptions, res *Result) error {
	rec, err := parseGovRecording(opt.Replay)
	if err != nil {
		return err
	}
	h := runGovHistory(opt, 0, rng.New(1), res, rec)
	if h.err != nil {
		return h.err
	}
	res.Evaluations = 1
	if opt.Driver != "" && len(h.ops) > 0 {
		model, err := kv.RunDriver(opt.Driver, "gov", h.ops)
		if err != nil {
			return err
		}
		for i := range h.ops {
			res.Counters["steps_compared"]++
			if model[i] != h.impl[i] {
				res.DisagreementCount++
				if len(res.Disagreements) < 5 {
					res.Disagreements = append(res.Disagreements, Disagreement{Kind: "gov-step", Op: short(h.ops[i]), Impl: diffSections(h.impl[i], model[i], true), Model: diffSections(h.impl[i], model[i], false)})
				}
			}
		}
	}
	return nil
}

package apph

// OLVM part of the sigm engine (C04): an EIP-155 signed OLVM transaction and its single-field
// mutants on a fork-family chain (FrankensteinBlock = 1). Monitor: the original is admitted,
// every mutant must be refused by CheckTx and, delivered directly in a block on replica A only,
// must fail and leave A equal to B. Correspondence: for the mutants that touch nothing but what
// `validateSigner`, the envelope rules and the memo rule look at, the CheckTx verdict against
// `olvmSig`, with the sender recovery answered by go-ethereum called directly. The scenarios of
// the repaired defects (access list / type field / memo spelling / public key alterable after
// signing; payload JSON re-spelled after signing; wrong signature length or missing chain id
// closing the node) are ordinary mutant classes here: refused, without effect, application open.

import (
	"bytes"
	"crypto/ecdsa"
	"crypto/sha256"
	"fmt"
	"math/big"
	"strconv"

	ethcmn "github.com/ethereum/go-ethereum/common"
	ethtypes "github.com/ethereum/go-ethereum/core/types"
	ethcrypto "github.com/ethereum/go-ethereum/crypto"

	"github.com/Oneledger/protocol/action"
	"github.com/Oneledger/protocol/action/olvm"
	"github.com/Oneledger/protocol/config"
	"github.com/Oneledger/protocol/consensus"
	"github.com/Oneledger/protocol/data/balance"
	"github.com/Oneledger/protocol/data/keys"
	"github.com/Oneledger/protocol/utils"

	"olverif/harness/rng"
)

type olvmAcct struct {
	key  *ecdsa.PrivateKey
	addr []byte
	pub  keys.PublicKey
}

func newOlvmAcct(seed uint64, name string) *olvmAcct {
	h := sha256.Sum256([]byte(fmt.Sprintf("olverif-olvm-%d-%s", seed, name)))
	k, err := ethcrypto.ToECDSA(h[:])
	if err != nil {
		panic(err)
	}
	return &olvmAcct{key: k, addr: ethcrypto.PubkeyToAddress(k.PublicKey).Bytes(),
		pub: keys.PublicKey{KeyType: keys.ETHSECP, Data: ethcrypto.CompressPubkey(&k.PublicKey)}}
}

// olvmTxn is an OLVM transaction in pieces, so that single pieces can be mutated.
type olvmTxn struct {
	P    olvm.Transaction
	Type action.Type
	Fee  action.Fee
	Memo string
	Sigs []action.Signature
	// RawData, when set, is sent as the payload instead of P.Marshal() (other spellings of the same JSON value)
	RawData []byte
}

func (t *olvmTxn) ethTx() *ethtypes.Transaction {
	var to *ethcmn.Address
	if t.P.To != nil {
		a := ethcmn.BytesToAddress(t.P.To.Bytes())
		to = &a
	}
	return ethtypes.NewTx(&ethtypes.LegacyTx{Nonce: t.P.Nonce, To: to, Value: t.P.Amount.Value.BigInt(), Gas: uint64(t.Fee.Gas),
		GasPrice: t.Fee.Price.Value.BigInt(), Data: t.P.Data})
}

func (t *olvmTxn) sign(chainID *big.Int, a *olvmAcct) []byte {
	s, err := ethcrypto.Sign(ethtypes.NewEIP155Signer(chainID).Hash(t.ethTx()).Bytes(), a.key)
	if err != nil {
		panic(err)
	}
	return s
}

func (t *olvmTxn) bytes() []byte {
	d, err := t.P.Marshal()
	if err != nil {
		panic(err)
	}
	if t.RawData != nil {
		d = t.RawData
	}
	st := action.SignedTx{RawTx: action.RawTx{Type: t.Type, Data: d, Fee: t.Fee, Memo: t.Memo}, Signatures: t.Sigs}
	return serSigned(&st)
}

func (t *olvmTxn) clone() *olvmTxn {
	c := *t
	c.P.From = append(keys.Address{}, t.P.From...)
	if t.P.To != nil {
		to := append(keys.Address{}, (*t.P.To)...)
		c.P.To = &to
	}
	c.P.Data = append([]byte{}, t.P.Data...)
	if len(c.P.Data) == 0 {
		c.P.Data = nil
	}
	c.P.ChainID = new(big.Int).Set(t.P.ChainID)
	c.P.Amount.Value = *balance.NewAmountFromBigInt(new(big.Int).Set(t.P.Amount.Value.BigInt()))
	c.Fee.Price.Value = *balance.NewAmountFromBigInt(new(big.Int).Set(t.Fee.Price.Value.BigInt()))
	c.Sigs = nil
	for _, g := range t.Sigs {
		c.Sigs = append(c.Sigs, action.Signature{Signer: keys.PublicKey{KeyType: g.Signer.KeyType, Data: append([]byte{}, g.Signer.Data...)}, Signed: append([]byte{}, g.Signed...)})
	}
	return &c
}

func newOlvmTxn(chainID *big.Int, from *olvmAcct, nonce uint64, to []byte, value int64, data []byte) *olvmTxn {
	toA := keys.Address(append([]byte{}, to...))
	t := &olvmTxn{P: olvm.Transaction{Nonce: nonce, From: append(keys.Address{}, from.addr...), To: &toA,
		Amount: action.Amount{Currency: "OLT", Value: *balance.NewAmount(value)}, Data: data, ChainID: new(big.Int).Set(chainID)},
		Type: action.OLVM, Fee: action.Fee{Price: action.Amount{Currency: "OLT", Value: *balance.NewAmount(10000000000)}, Gas: 100000},
		Memo: strconv.FormatUint(nonce, 10)}
	t.Sigs = []action.Signature{{Signer: from.pub, Signed: t.sign(chainID, from)}}
	return t
}

// olvmClass: sigOnly = the mutation touches nothing but what validateSigner / the memo rule
// examine, so the CheckTx verdict IS the verdict of that part (correspondence line emitted).
type olvmClass struct {
	Name    string
	SigOnly bool
	Apply   func(t *olvmTxn, r *rng.R, chainID *big.Int, victim, attacker *olvmAcct)
}

var olvmClasses = []olvmClass{
	{"nonce+1-memo-kept", true, func(t *olvmTxn, r *rng.R, c *big.Int, v, a *olvmAcct) { t.P.Nonce++ }},
	{"nonce+1-memo-updated", true, func(t *olvmTxn, r *rng.R, c *big.Int, v, a *olvmAcct) {
		t.P.Nonce++
		t.Memo = strconv.FormatUint(t.P.Nonce, 10)
	}},
	{"to-changed", true, func(t *olvmTxn, r *rng.R, c *big.Int, v, a *olvmAcct) {
		to := keys.Address(append([]byte{}, a.addr...))
		t.P.To = &to
	}},
	{"to-removed", false, func(t *olvmTxn, r *rng.R, c *big.Int, v, a *olvmAcct) { t.P.To = nil }},
	{"value-changed", true, func(t *olvmTxn, r *rng.R, c *big.Int, v, a *olvmAcct) {
		t.P.Amount.Value = *balance.NewAmountFromBigInt(new(big.Int).Add(t.P.Amount.Value.BigInt(), big.NewInt(1)))
	}},
	{"data-changed", false, func(t *olvmTxn, r *rng.R, c *big.Int, v, a *olvmAcct) { t.P.Data = append(t.P.Data, 0x01) }},
	{"payload-chainid-changed", true, func(t *olvmTxn, r *rng.R, c *big.Int, v, a *olvmAcct) { t.P.ChainID.Add(t.P.ChainID, big.NewInt(1)) }},
	{"from-changed", true, func(t *olvmTxn, r *rng.R, c *big.Int, v, a *olvmAcct) { t.P.From = append(keys.Address{}, a.addr...) }},
	{"fee-gas-changed", true, func(t *olvmTxn, r *rng.R, c *big.Int, v, a *olvmAcct) { t.Fee.Gas++ }},
	{"fee-price-changed", true, func(t *olvmTxn, r *rng.R, c *big.Int, v, a *olvmAcct) {
		t.Fee.Price.Value = *balance.NewAmountFromBigInt(new(big.Int).Add(t.Fee.Price.Value.BigInt(), big.NewInt(1)))
	}},
	{"fee-currency-changed", false, func(t *olvmTxn, r *rng.R, c *big.Int, v, a *olvmAcct) { t.Fee.Price.Currency = "VT" }},
	{"amount-currency-changed", false, func(t *olvmTxn, r *rng.R, c *big.Int, v, a *olvmAcct) { t.P.Amount.Currency = "VT" }},
	{"memo-other-number", true, func(t *olvmTxn, r *rng.R, c *big.Int, v, a *olvmAcct) { t.Memo = strconv.FormatUint(t.P.Nonce+1, 10) }},
	{"memo-leading-zero", true, func(t *olvmTxn, r *rng.R, c *big.Int, v, a *olvmAcct) { t.Memo = "0" + t.Memo }},
	{"memo-suffix", true, func(t *olvmTxn, r *rng.R, c *big.Int, v, a *olvmAcct) { t.Memo = t.Memo + "x" }},
	{"memo-plus-sign", true, func(t *olvmTxn, r *rng.R, c *big.Int, v, a *olvmAcct) { t.Memo = "+" + t.Memo }},
	{"memo-empty", true, func(t *olvmTxn, r *rng.R, c *big.Int, v, a *olvmAcct) { t.Memo = "" }},
	{"memo-space", true, func(t *olvmTxn, r *rng.R, c *big.Int, v, a *olvmAcct) { t.Memo = t.Memo + " " }},
	{"type-changed", false, func(t *olvmTxn, r *rng.R, c *big.Int, v, a *olvmAcct) { t.Type = action.SEND }},
	{"payload-type-field-changed", true, func(t *olvmTxn, r *rng.R, c *big.Int, v, a *olvmAcct) { t.P.TxType = 1 + int64(r.Intn(3)) }},
	{"access-list-added", true, func(t *olvmTxn, r *rng.R, c *big.Int, v, a *olvmAcct) {
		al := ethtypes.AccessList{}
		for i, n := 0, 1+r.Intn(3); i < n; i++ {
			// StorageKeys must not be nil: AccessTuple's JSON decoder requires the field
			tup := ethtypes.AccessTuple{Address: ethcmn.BytesToAddress(r.Bytes(20)), StorageKeys: []ethcmn.Hash{}}
			for j, m := 0, r.Intn(3); j < m; j++ {
				tup.StorageKeys = append(tup.StorageKeys, ethcmn.BytesToHash(r.Bytes(32)))
			}
			al = append(al, tup)
		}
		t.P.AccessList = &al
	}},
	{"sig-byte-flipped", true, func(t *olvmTxn, r *rng.R, c *big.Int, v, a *olvmAcct) {
		t.Sigs[0].Signed[r.Intn(64)] ^= 1 << uint(r.Intn(8))
	}},
	{"sig-recovery-id-flipped", true, func(t *olvmTxn, r *rng.R, c *big.Int, v, a *olvmAcct) { t.Sigs[0].Signed[64] ^= 1 }},
	{"sig-r-zero", true, func(t *olvmTxn, r *rng.R, c *big.Int, v, a *olvmAcct) {
		for i := 0; i < 32; i++ {
			t.Sigs[0].Signed[i] = 0 // r = 0: Sender reports invalid signature values
		}
	}},
	{"sig-recovery-id-5", true, func(t *olvmTxn, r *rng.R, c *big.Int, v, a *olvmAcct) { t.Sigs[0].Signed[64] = 5 }}, // V then encodes another chain id
	{"sig-truncated", true, func(t *olvmTxn, r *rng.R, c *big.Int, v, a *olvmAcct) { t.Sigs[0].Signed = t.Sigs[0].Signed[:64] }},
	{"sig-empty", true, func(t *olvmTxn, r *rng.R, c *big.Int, v, a *olvmAcct) { t.Sigs[0].Signed = nil }},
	{"sig-extended", true, func(t *olvmTxn, r *rng.R, c *big.Int, v, a *olvmAcct) { t.Sigs[0].Signed = append(t.Sigs[0].Signed, 0) }},
	{"payload-chainid-null", true, func(t *olvmTxn, r *rng.R, c *big.Int, v, a *olvmAcct) { t.P.ChainID = nil }},
	{"access-list-empty", true, func(t *olvmTxn, r *rng.R, c *big.Int, v, a *olvmAcct) { t.P.AccessList = &ethtypes.AccessList{} }},
	{"signer-pubkey-alg-changed", true, func(t *olvmTxn, r *rng.R, c *big.Int, v, a *olvmAcct) { t.Sigs[0].Signer.KeyType = keys.SECP256K1 }},
	{"signer-pubkey-unknown-alg", true, func(t *olvmTxn, r *rng.R, c *big.Int, v, a *olvmAcct) { t.Sigs[0].Signer.KeyType = 0 }},
	{"signer-pubkey-empty", true, func(t *olvmTxn, r *rng.R, c *big.Int, v, a *olvmAcct) { t.Sigs[0].Signer = keys.PublicKey{} }},
	{"payload-json-respaced", true, func(t *olvmTxn, r *rng.R, c *big.Int, v, a *olvmAcct) {
		d, _ := t.P.Marshal()
		t.RawData = append([]byte("{ "), d[1:]...)
	}},
	{"payload-json-unknown-field", true, func(t *olvmTxn, r *rng.R, c *big.Int, v, a *olvmAcct) {
		d, _ := t.P.Marshal()
		t.RawData = append([]byte(`{"x":1,`), d[1:]...)
	}},
	{"payload-json-trailing-space", true, func(t *olvmTxn, r *rng.R, c *big.Int, v, a *olvmAcct) {
		d, _ := t.P.Marshal()
		t.RawData = append(d, ' ')
	}},
	{"payload-json-key-moved", true, func(t *olvmTxn, r *rng.R, c *big.Int, v, a *olvmAcct) {
		// `"nonce":N,` moved behind the next key
		d, _ := t.P.Marshal()
		head := fmt.Sprintf(`{"nonce":%d,`, t.P.Nonce)
		if bytes.HasPrefix(d, []byte(head)) {
			rest := d[len(head):]
			if i := bytes.IndexByte(rest, ','); i > 0 {
				t.RawData = []byte("{" + string(rest[:i+1]) + head[1:] + string(rest[i+1:]))
				return
			}
		}
		t.RawData = append([]byte("{\n"), d[1:]...)
	}},
	{"no-signatures", true, func(t *olvmTxn, r *rng.R, c *big.Int, v, a *olvmAcct) { t.Sigs = []action.Signature{} }},
	{"two-signatures", true, func(t *olvmTxn, r *rng.R, c *big.Int, v, a *olvmAcct) { t.Sigs = append(t.Sigs, t.Sigs[0]) }},
	{"resigned-by-other-key", true, func(t *olvmTxn, r *rng.R, c *big.Int, v, a *olvmAcct) {
		t.Sigs = []action.Signature{{Signer: a.pub, Signed: t.sign(c, a)}}
	}},
	{"signed-for-other-chain", true, func(t *olvmTxn, r *rng.R, c *big.Int, v, a *olvmAcct) {
		t.Sigs[0].Signed = t.sign(new(big.Int).Add(c, big.NewInt(1)), v)
	}},
	{"signer-pubkey-replaced", true, func(t *olvmTxn, r *rng.R, c *big.Int, v, a *olvmAcct) { t.Sigs[0].Signer = a.pub }},
}

// olvmLine: what the model needs; signature decoding and sender recovery are go-ethereum's,
// called directly (and only when it would not panic).
func olvmLine(t *olvmTxn, headerChainID *big.Int) string {
	sl, dc, rs := 0, "~", "~"
	if len(t.Sigs) == 1 {
		sl = len(t.Sigs[0].Signed)
		if sl == 65 {
			signer := ethtypes.NewEIP155Signer(headerChainID)
			if stx, err := t.ethTx().WithSignature(signer, t.Sigs[0].Signed); err == nil {
				dc = stx.ChainId().String()
				if a, err := signer.Sender(stx); err == nil {
					rs = hexTok(a.Bytes())
				}
			}
		}
	}
	pc := "~"
	if t.P.ChainID != nil {
		pc = t.P.ChainID.String()
	}
	ka := "~"
	if len(t.Sigs) == 1 {
		if a, ok := primAddr(t.Sigs[0].Signer); ok {
			ka = hexTok(a)
		}
	}
	// is the payload as sent the encoding Marshal gives to what it decodes to?
	sent, _ := t.P.Marshal()
	if t.RawData != nil {
		sent = t.RawData
	}
	canon := false
	var back olvm.Transaction
	if back.Unmarshal(sent) == nil {
		if c, err := back.Marshal(); err == nil {
			canon = bytes.Equal(c, sent)
		}
	}
	return fmt.Sprintf("olvm %d %d %s %s %s %s %d %s %s %d %s %s", len(t.Sigs), sl, dc, rs, pc, hexTok(t.P.From), t.P.Nonce, hexTok([]byte(t.Memo)), ka, t.P.TxType, b01(t.P.AccessList != nil), b01(canon))
}

func olvmVerdict(code uint32, crashed bool) string {
	switch {
	case crashed:
		return "olvm panic"
	case code == 0:
		return "olvm ok"
	}
	return "olvm reject"
}

func olvmWorld(seed uint64, accts ...*olvmAcct) *World {
	p := SmallParams(seed)
	p.Frankenstein = 1
	p.NVals, p.NCandidates = 2, 0
	p.GenesisStake = []int64{600000, 600000}
	p.AcctFunds = 2000000
	w := NewWorld(p)
	for _, a := range accts {
		w.State.Balances = append(w.State.Balances, consensus.BalanceState{Address: a.addr, Currency: "OLT", Amount: oltUnits(1000)})
	}
	rebuildGenesis(w)
	return w
}

// rebuildGenesis regenerates the genesis document after w.State was changed (as NewWorld does).
func rebuildGenesis(w *World) {
	gd, err := consensus.NewGenesisDoc(w.ChainID, w.State)
	if err != nil {
		panic(err)
	}
	gd.GenesisTime = w.GenesisTime
	gd.Validators = w.Genesis.Validators
	gd.ForkParams = &config.ForkParams{FrankensteinBlock: w.P.Frankenstein}
	gd.ConsensusParams.Block.MaxGas = w.P.MaxGas
	w.Genesis = gd
}

// mixAccountAlgorithms replaces three of the funded user accounts by accounts holding a
// SECP256K1 key and two BTCEC keys (one signing with the libraries directly as the scheme is
// specified, one with the repo's own private-key handler), so that the generated originals — and
// with them every mutant class — meet the key algorithms a client can sign a transaction with
// (ETHSECP cannot: go-ethereum verifies 32-byte digests only, RawBytes() never is one).
func mixAccountAlgorithms(w *World) {
	for _, x := range []struct {
		i    int
		alg  keys.Algorithm
		repo bool
	}{{1, keys.SECP256K1, false}, {2, keys.BTCECSECP, false}, {3, keys.BTCECSECP, true}} {
		if x.i >= len(w.Accts) {
			continue
		}
		a := newSigKey(w.P.Seed, fmt.Sprintf("acct%d", x.i), x.alg).acct(fmt.Sprintf("acct%d-%s", x.i, algNames[x.alg]), x.repo)
		w.Accts[x.i] = a
		w.State.Balances = append(w.State.Balances,
			consensus.BalanceState{Address: a.Addr, Currency: "OLT", Amount: oltUnits(w.P.AcctFunds)},
			consensus.BalanceState{Address: a.Addr, Currency: "VT", Amount: *balance.NewAmountFromInt(1000)})
	}
	rebuildGenesis(w)
}

func runSigOlvm(opt SigmOptions, res *Result, add func(op, im string, nt bool)) error {
	for c := 0; c < opt.OlvmCases; c++ {
		if err := runSigOlvmCase(opt.Seed, c, res, add); err != nil {
			return err
		}
	}
	return nil
}

// runSigOlvmCase is self-contained (its randomness derives from the engine seed and the case
// number only), so `olvm case <c> engine-seed=<s>` replays it.
func runSigOlvmCase(engineSeed uint64, c int, res *Result, add func(op, im string, nt bool)) error {
	{
		hl := &HistoryLog{}
		seed := engineSeed*100000 + uint64(c)
		r := rng.New(seed*31 + 7)
		victim, attacker, third := newOlvmAcct(seed, "victim"), newOlvmAcct(seed, "attacker"), newOlvmAcct(seed, "third")
		w := olvmWorld(seed, victim, attacker)
		chainID := utils.HashToBigInt(w.ChainID)
		A, err := NewReplica(w, Identity{Name: "A", Val: w.Vals[0]})
		if err != nil {
			return err
		}
		B, err := NewReplica(w, Identity{Name: "B", Val: w.Vals[0]})
		if err != nil {
			return err
		}
		A.InitChain()
		B.InitChain()
		sim := NewSim(w)
		both := func(txs [][]byte) (*BlockResult, *BlockResult) {
			b := sim.NextBlock(txs, BlockOpts{DtSeconds: 1})
			ra, rb := A.ExecBlock(b), B.ExecBlock(b)
			sim.Absorb(b, rb)
			return ra, rb
		}
		both(nil) // height 1: the fork is applied, the OLVM is enabled from here on
		// a first transfer makes the account exist with nonce 1 (control for the deliver path)
		first := newOlvmTxn(chainID, victim, 0, third.addr, int64(1+r.Intn(1000)), nil)
		hl.Add("olvm case %d engine-seed=%d chainID=%s victim=%x attacker=%x", c, engineSeed, chainID, victim.addr, attacker.addr)
		hl.Add("block 2 tx OLVM (valid, nonce 0) %x", first.bytes())
		if cr := A.CheckTx(first.bytes()); cr.Code != 0 {
			A.Close()
			B.Close()
			return fmt.Errorf("olvm control: a correctly signed OLVM transaction was refused by CheckTx: %s", cr.Log)
		}
		ra, _ := both([][]byte{first.bytes()})
		if ra.Txs[0].Code != 0 {
			A.Close()
			B.Close()
			return fmt.Errorf("olvm control: a correctly signed OLVM transaction failed in DeliverTx: %s", ra.Txs[0].Log)
		}
		res.Counters["olvm-originals-executed"]++
		var data []byte
		if r.Intn(3) == 0 {
			data = r.Bytes(1 + r.Intn(8)) // calldata to an account without code: a plain transfer with payload
		}
		orig := newOlvmTxn(chainID, victim, 1, third.addr, int64(1+r.Intn(1000)), data)
		ob := orig.bytes()
		hl.Add("original OLVM (nonce 1) %x", ob)
		c0 := A.CheckTx(ob)
		replayOp = hl.Lines[0]
		add(olvmLine(orig, chainID), olvmVerdict(c0.Code, A.Crashed), true)
		res.Distribution[fmt.Sprintf("olvm:original:check:%d", c0.Code)]++
		if c0.Code != 0 {
			hitOnce(res, "olvm-original-refused", c, c0.Log, hl.Lines)
		}
		deliverClass := c % len(olvmClasses)
		var delivered *olvmTxn
		for i, cl := range olvmClasses {
			m := orig.clone()
			cl.Apply(m, r, chainID, victim, attacker)
			mb := m.bytes()
			cr := A.CheckTx(mb)
			hl.Add("  mutant %s checktx=%d %x", cl.Name, cr.Code, mb)
			res.Distribution[fmt.Sprintf("olvm:%s:check:%d", cl.Name, cr.Code)]++
			if cl.SigOnly {
				replayOp = hl.Lines[0]
				add(olvmLine(m, chainID), olvmVerdict(cr.Code, A.Crashed), true)
			}
			if A.Crashed {
				hitOnce(res, "olvm-mutant-closed-node-in-checktx:"+cl.Name, c, "CheckTx of an OLVM transaction with "+cl.Name+": panic in the handler, handlePanic closed the application", hl.Lines)
				A.Close()
				B.Close()
				return nil
			}
			if cr.Code == 0 {
				hitOnce(res, "olvm-mutant-admitted-by-checktx:"+cl.Name, c, fmt.Sprintf("OLVM transaction with %s after signing: CheckTx code 0", cl.Name), hl.Lines)
			}
			if i == deliverClass {
				delivered = m
			}
		}
		// block 3: the chosen mutant is delivered directly on A only (must fail and be a no-op);
		// block 4: both replicas execute the original, so that an executed mutant shows next to
		// the original what the unsigned change did to the sender
		cl := olvmClasses[deliverClass]
		b3 := sim.NextBlock(nil, BlockOpts{DtSeconds: 1})
		ba := *b3
		ba.Txs = [][]byte{delivered.bytes()}
		hl.Add("block 3: replica A only delivers the mutant %s", cl.Name)
		ra3 := A.ExecBlock(&ba)
		rb3 := B.ExecBlock(b3)
		sim.Absorb(b3, rb3)
		res.Distribution[fmt.Sprintf("olvm:%s:deliver:%d", cl.Name, ra3.Txs[0].Code)]++
		if A.Crashed {
			hitOnce(res, "olvm-mutant-closed-node-in-delivertx:"+cl.Name, c, "DeliverTx of an OLVM transaction with "+cl.Name+": panic in the handler, handlePanic closed the application (every node executing the block stops)", hl.Lines)
			A.Close()
			B.Close()
			return nil
		}
		executed := ra3.Txs[0].Code == 0
		if !executed {
			cmp := &BlockResult{Height: ra3.Height, Txs: nil, Updates: ra3.Updates, AppHash: ra3.AppHash}
			if cmp.Transcript() != rb3.Transcript() {
				hitOnce(res, "olvm-mutant-changed-state:"+cl.Name, c, "a failed mutant changed the state: "+diffDumps(A.Dump(), B.Dump()), hl.Lines)
			}
		}
		b4 := sim.NextBlock([][]byte{ob}, BlockOpts{DtSeconds: 1})
		hl.Add("block 4: both replicas deliver the original")
		ra4, rb4 := A.ExecBlock(b4), B.ExecBlock(b4)
		if rb4.Txs[0].Code != 0 {
			hitOnce(res, "olvm-original-failed-in-block", c, rb4.Txs[0].Log, hl.Lines)
		}
		if executed {
			da, db := A.DumpMap(), B.DumpMap()
			hitOnce(res, "olvm-mutant-executed-by-delivertx:"+cl.Name, c, fmt.Sprintf("OLVM transaction with %s after signing executed in a block: gas used %d (the original on the twin: %d); the original afterwards on A: code %d; sender balance A %s, twin %s",
				cl.Name, ra3.Txs[0].GasUsed, rb4.Txs[0].GasUsed, ra4.Txs[0].Code, BalanceOf(da, victim.addr, "OLT"), BalanceOf(db, victim.addr, "OLT")), hl.Lines)
		} else if ra4.Transcript() != rb4.Transcript() {
			hitOnce(res, "olvm-mutant-changed-state:"+cl.Name, c, "after a failed mutant the original behaves differently: "+diffDumps(A.Dump(), B.Dump()), hl.Lines)
		}
		A.Close()
		B.Close()
		TruncateAppLog()
	}
	return nil
}

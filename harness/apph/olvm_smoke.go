package apph

import (
	"fmt"
	"io"
	"math/big"
)

// OlvmSmoke is a development aid: the two inputs that used to panic in validateSigner (a signature
// that is not 65 bytes long, a payload without chain id; repaired by d9b5b70, C18) are offered to
// CheckTx of a fresh node after the fork height; both must be refused with the node still open.
// The generator of the olvm engine produces both as ordinary broken transactions.
func OlvmSmoke(out io.Writer) {
	for _, which := range []string{"short-signature", "null-chain-id"} {
		p := OlvmParams(1, 1)
		w := NewOlvmWorld(p, 3)
		r, err := NewReplica(w.World, Identity{Name: "A", Val: w.Vals[0]})
		if err != nil {
			fmt.Fprintln(out, "replica:", err)
			return
		}
		r.InitChain()
		sim := NewSim(w.World)
		for h := 1; h <= 2; h++ {
			b := sim.NextBlock(nil, BlockOpts{})
			sim.Absorb(b, r.ExecBlock(b))
		}
		e0, e1 := w.Eth[0], w.Eth[1]
		tx := w.OlvmTx(e0, &e1.Addr, 0, big.NewInt(5), nil, 21000, big.NewInt(10000000000), OlvmTweak{})
		switch which {
		case "short-signature":
			// drop the last byte of the base64 signature field: re-build with a 64-byte signature
			tx = w.olvmTxShortSig(e0, &e1.Addr, 64, false)
		case "null-chain-id":
			tx = w.olvmTxShortSig(e0, &e1.Addr, 65, true)
		}
		c := r.CheckTx(tx)
		fmt.Fprintf(out, "%s: CheckTx code=%d log=%.120q application closed by panic=%v\n", which, c.Code, c.Log, r.Crashed)
		r.Close()
	}
}

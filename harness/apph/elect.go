package apph

// The `elect` engine (C10): validator-set updates are well formed and follow the staking rule.
//
// Generated block histories (stake / unstake around the minimum self delegation and the top-count
// boundary, withdraw, allegation -> votes -> verdict -> release, missed votes, byzantine evidence,
// the staking-option change of the fork block and of a passed proposal, stakes carrying a foreign
// or non-ed25519 key - refused since the repair) run on the real application; every ResponseEndBlock.ValidatorUpdates is applied to the real
// types.ValidatorSet.UpdateWithChangeSet with the +2 delay (Sim).
//
// MONITOR (independent of the Lean model), per block, on the decoded dump of the previous block:
//   * Tendermint accepts the list (one signature per rejection reason),
//   * the list is sorted by public key and names no key twice,
//   * every positive update names a record of the previous block with power >= minimum self
//     delegation, not frozen / flagged, carrying that power; at most TopValidatorCount of them;
//     no eligible record with a higher power is left out,
//   * after a quiet tail the Tendermint set is exactly the election of the (constant) records,
//   * the handler facts the multi-block theorems assume: no record changes its consensus key, a
//     new record carries the ed25519 key of its address, a deleted record belongs to no pending set.
// Round 1 found six defects with these monitors (known_findings.json, "fixed:" lines of C10); the
// scripted histories that exposed them stay as regression scenarios and must produce no hit.
// CORRESPONDENCE: the Lean model of GetEndBlockUpdate is run on the decoded hook inputs of every
// block (records of version h-1, votes, malicious set, purge heights, statuses, options) and its
// updates / status writes / deletions / purge writes are compared with the implementation's; the
// Lean port of container/heap is compared with the real ValidatorQueue on priority lists with
// many ties; the Lean port of Tendermint's change-set rule is compared with the real one.

import (
	"bytes"
	"crypto/sha256"
	"encoding/binary"
	"encoding/hex"
	"fmt"
	"io/ioutil"
	"os"
	"sort"
	"strconv"
	"strings"

	"github.com/btcsuite/btcd/btcec"
	abci "github.com/tendermint/tendermint/abci/types"
	tmtypes "github.com/tendermint/tendermint/types"

	"github.com/Oneledger/protocol/action"
	aevid "github.com/Oneledger/protocol/action/evidence"
	agov "github.com/Oneledger/protocol/action/governance"
	"github.com/Oneledger/protocol/action/staking"
	"github.com/Oneledger/protocol/action/transfer"
	"github.com/Oneledger/protocol/data/balance"
	"github.com/Oneledger/protocol/data/delegation"
	"github.com/Oneledger/protocol/data/evidence"
	"github.com/Oneledger/protocol/data/governance"
	"github.com/Oneledger/protocol/data/keys"
	"github.com/Oneledger/protocol/identity"
	"github.com/Oneledger/protocol/serialize"
	"github.com/Oneledger/protocol/utils"

	"olverif/harness/kv"
	"olverif/harness/rng"
)

// ---------------------------------------------------------------- decoded view of a dump

type eRec struct {
	Addr  []byte // key suffix (raw address)
	RAddr []byte // Validator.Address inside the record
	Pub   []byte
	KType int // 0 ed25519, 1 secp256k1, 2 anything else
	Power int64
}

type eStatus struct {
	Active bool
	Height int64
}

type eView struct {
	Recs    []eRec             // key order
	Purge   map[string]int64   // hex addr -> height
	Status  map[string]eStatus // hex addr
	Frozen  map[string]bool    // hex addr -> IsFrozen()
	MinSelf int64
	Top     int64
	OptsOK  bool
}

func ktypeOf(p keys.PublicKey) int {
	switch p.KeyType {
	case keys.ED25519:
		return 0
	case keys.SECP256K1:
		return 1
	}
	return 2
}

func rawAddr(s string) []byte {
	var a keys.Address
	if err := a.UnmarshalText([]byte(s)); err != nil {
		return nil
	}
	return a
}

// stakingOptsOf follows governance.Store.Get: last update height -> versioned option key.
func stakingOptsOf(m map[string]string) (minSelf, top int64, ok bool) {
	luhB, has := m["g_stakingOptions_defaultOptions"]
	if !has || len(luhB) != 8 {
		return 0, 0, false
	}
	luh := int64(binary.LittleEndian.Uint64([]byte(luhB)))
	v, has := m["g_"+string(rune(luh))+"_stakingopt"]
	if !has {
		return 0, 0, false
	}
	o := &delegation.Options{}
	if err := serialize.GetSerializer(serialize.PERSISTENT).Deserialize([]byte(v), o); err != nil {
		return 0, 0, false
	}
	return o.MinSelfDelegationAmount.BigInt().Int64(), o.TopValidatorCount, true
}

func decodeElect(m map[string]string) *eView {
	v := &eView{Purge: map[string]int64{}, Status: map[string]eStatus{}, Frozen: map[string]bool{}}
	ks := make([]string, 0, len(m))
	for k := range m {
		ks = append(ks, k)
	}
	sort.Strings(ks)
	for _, k := range ks {
		val := m[k]
		switch {
		case strings.HasPrefix(k, "v_"):
			rec, err := (&identity.Validator{}).FromBytes([]byte(val))
			if err != nil {
				continue
			}
			v.Recs = append(v.Recs, eRec{Addr: []byte(k[2:]), RAddr: rec.Address, Pub: rec.PubKey.Data, KType: ktypeOf(rec.PubKey), Power: rec.Power})
		case strings.HasPrefix(k, "purged_") && len(k) == len("purged_")+20:
			var h int64
			if err := serialize.GetSerializer(serialize.PERSISTENT).Deserialize([]byte(val), &h); err == nil {
				v.Purge[hex.EncodeToString([]byte(k[len("purged_"):]))] = h
			}
		case strings.HasPrefix(k, "es__vss_"):
			st, err := (&evidence.ValidatorStatus{}).FromBytes([]byte(val))
			if err == nil {
				v.Status[hex.EncodeToString(st.Address)] = eStatus{st.IsActive, st.Height}
			}
		case strings.HasPrefix(k, "es__ssvk_"):
			lvh, err := (&evidence.LastValidatorHistory{}).FromBytes([]byte(val))
			if err == nil {
				v.Frozen[hex.EncodeToString(lvh.Address)] = lvh.IsFrozen()
			}
		}
	}
	v.MinSelf, v.Top, v.OptsOK = stakingOptsOf(m)
	return v
}

// overlay applies the pending writes of the deliver state to a dump map.
func elOverlay(m map[string]string, pend []kvp) map[string]string {
	out := make(map[string]string, len(m)+len(pend))
	for k, v := range m {
		out[k] = v
	}
	for _, p := range pend {
		if string(p.v) == "\xe2\x9b\xbc" {
			delete(out, string(p.k))
		} else {
			out[string(p.k)] = string(p.v)
		}
	}
	return out
}

// ---------------------------------------------------------------- history plans

// eBlock is what a plan wants in one block.
type eBlock struct {
	Txs    []GenTx
	Absent []*Val // validators that do not sign the previous block
	Byz    []*Val
	Dt     int64
}

type ePlan struct {
	Name   string
	P      Params
	Blocks int
	Next   func(h int64, v *eView, g *Gen, sim *Sim) eBlock
}

func stakeMsg(v *Val, n int64, pub keys.PublicKey) *staking.Stake {
	return &staking.Stake{ValidatorAddress: v.Key.Addr, StakeAddress: v.Owner.Addr, ValidatorPubKey: pub,
		ValidatorECDSAPubKey: v.EcPub, NodeName: v.Name, Stake: OLTInt(n)}
}

func (g *Gen) eStake(v *Val, n int64, note string) GenTx {
	return g.mkPlain("STAKE", note, stakeMsg(v, n, v.Key.Pub), v.Owner, v.Key)
}

func (g *Gen) eStakeKey(v *Val, n int64, pub keys.PublicKey, note string) GenTx {
	return g.mkPlain("STAKE", note, stakeMsg(v, n, pub), v.Owner, v.Key)
}

func (g *Gen) eUnstake(v *Val, n int64, note string) GenTx {
	return g.mkPlain("UNSTAKE", note, &staking.Unstake{ValidatorAddress: v.Key.Addr, StakeAddress: v.Owner.Addr, Stake: OLTInt(n)}, v.Owner, v.Key)
}

// mkPlain is Gen.mk without the random low-gas variants (the scripted histories must be exact).
func (g *Gen) mkPlain(kind, note string, msg action.Msg, signers ...*Acct) GenTx {
	raw := RawOf(msg, DefaultFee(), g.nextMemo())
	var sa []keys.Address
	for _, s := range signers {
		sa = append(sa, s.Addr)
	}
	g.Kinds[kind]++
	return GenTx{Kind: kind, Note: note, Bytes: Sign(raw, signers...), Signer: sa}
}

// secpKeyOf is a well-formed 33-byte secp256k1 public key in the repo's own key type.
func secpKeyOf(v *Val) keys.PublicKey {
	_, pub := btcec.PrivKeyFromBytes(btcec.S256(), v.ecRaw)
	pk, err := keys.GetPublicKeyFromBytes(pub.SerializeCompressed(), keys.SECP256K1)
	if err != nil {
		panic(err)
	}
	return pk
}

func powerOf(v *eView, val *Val) int64 {
	for _, r := range v.Recs {
		if bytes.Equal(r.Addr, val.Key.Addr) {
			return r.Power
		}
	}
	return 0
}

func hasRec(v *eView, val *Val) bool {
	for _, r := range v.Recs {
		if bytes.Equal(r.Addr, val.Key.Addr) {
			return true
		}
	}
	return false
}

// scripted minimal histories (they are also the replays of the known findings)
func scriptedPlans(seed uint64) []ePlan {
	base := func(nv, nc int, top, min int64, stakes ...int64) Params {
		p := SmallParams(seed)
		p.NVals, p.NCandidates, p.TopValidators, p.MinSelfDeleg, p.GenesisStake = nv, nc, top, min, stakes
		p.NAccts = 2
		p.BlockVotesDiff, p.MinVotesReq = 4, 1
		return p
	}
	var out []ePlan
	// 1. every validator unstakes below the minimum self delegation
	out = append(out, ePlan{Name: "script-all-below-min", P: base(2, 0, 4, 5, 10, 10), Blocks: 14,
		Next: func(h int64, v *eView, g *Gen, sim *Sim) eBlock {
			if h == 2 {
				return eBlock{Txs: []GenTx{g.eUnstake(g.W.Vals[0], 6, "below-min"), g.eUnstake(g.W.Vals[1], 6, "below-min")}}
			}
			return eBlock{}
		}})
	// 2. S16: a candidate stakes with another validator's consensus key
	out = append(out, ePlan{Name: "script-foreign-pubkey", P: base(2, 1, 4, 5, 10, 12), Blocks: 14,
		Next: func(h int64, v *eView, g *Gen, sim *Sim) eBlock {
			if h == 2 {
				return eBlock{Txs: []GenTx{g.eStakeKey(g.W.Vals[2], 8, g.W.Vals[0].Key.Pub, "foreign-pubkey")}}
			}
			return eBlock{}
		}})
	// 3. a candidate stakes with a secp256k1 key as its consensus key
	out = append(out, ePlan{Name: "script-secp-pubkey", P: base(2, 1, 4, 5, 10, 12), Blocks: 14,
		Next: func(h int64, v *eView, g *Gen, sim *Sim) eBlock {
			if h == 2 {
				return eBlock{Txs: []GenTx{g.eStakeKey(g.W.Vals[2], 8, secpKeyOf(g.W.Vals[2]), "secp-pubkey")}}
			}
			return eBlock{}
		}})
	// 4. a fresh validator unstakes everything before it enters the set
	out = append(out, ePlan{Name: "script-stake-then-unstake-all", P: base(2, 1, 4, 5, 10, 12), Blocks: 18,
		Next: func(h int64, v *eView, g *Gen, sim *Sim) eBlock {
			switch h {
			case 2:
				return eBlock{Txs: []GenTx{g.eStake(g.W.Vals[2], 8, "fresh")}}
			case 3:
				return eBlock{Txs: []GenTx{g.eUnstake(g.W.Vals[2], 8, "all")}}
			}
			return eBlock{}
		}})
	// 5. allegation -> guilty -> frozen -> release, with the top count at the boundary
	out = append(out, ePlan{Name: "script-guilty-release", P: base(4, 1, 3, 5, 10, 12, 14, 16), Blocks: 16,
		Next: func(h int64, v *eView, g *Gen, sim *Sim) eBlock {
			vs := g.W.Vals
			switch h {
			case 4:
				return eBlock{Txs: []GenTx{g.mkPlain("ALLEGATION", "script", &aevid.Allegation{RequestID: "sg-1", ValidatorAddress: vs[1].Key.Addr, MaliciousAddress: vs[3].Key.Addr, BlockHeight: 3, ProofMsg: "p"}, vs[1].Key)}}
			case 5:
				var t []GenTx
				for _, i := range []int{1, 2, 3} {
					t = append(t, g.mkPlain("ALLEGATION_VOTE", "script", &aevid.AllegationVote{RequestID: "sg-1", Address: vs[i].Key.Addr, Choice: 1}, vs[i].Key))
				}
				return eBlock{Txs: t}
			case 9:
				return eBlock{Txs: []GenTx{g.mkPlain("RELEASE", "script", &aevid.Release{ValidatorAddress: vs[3].Key.Addr}, vs[3].Key)}, Dt: 90000}
			}
			return eBlock{}
		}})
	// 6. many equal stakes around the top-count boundary (heap tie-breaking decides)
	out = append(out, ePlan{Name: "script-ties", P: base(5, 2, 2, 5, 10, 10, 10, 10, 10), Blocks: 12,
		Next: func(h int64, v *eView, g *Gen, sim *Sim) eBlock {
			switch h {
			case 2:
				return eBlock{Txs: []GenTx{g.eStake(g.W.Vals[5], 10, "tie"), g.eStake(g.W.Vals[6], 10, "tie")}}
			case 4:
				return eBlock{Txs: []GenTx{g.eUnstake(g.W.Vals[0], 5, "to-min"), g.eStake(g.W.Vals[3], 1, "above")}}
			}
			return eBlock{}
		}})
	// 7. the fork block raises the minimum self delegation above every stake but one
	fp := base(3, 0, 3, 5, 500000, 499999, 10)
	fp.Frankenstein = 4
	out = append(out, ePlan{Name: "script-fork-options", P: fp, Blocks: 12,
		Next: func(h int64, v *eView, g *Gen, sim *Sim) eBlock { return eBlock{} }})
	// 8. a frozen validator while the height is still inside the first vote window
	lp := base(4, 0, 4, 5, 10, 12, 14, 16)
	lp.BlockVotesDiff = 50
	out = append(out, ePlan{Name: "script-frozen-early", P: lp, Blocks: 12,
		Next: func(h int64, v *eView, g *Gen, sim *Sim) eBlock {
			vs := g.W.Vals
			switch h {
			case 4:
				return eBlock{Txs: []GenTx{g.mkPlain("ALLEGATION", "script", &aevid.Allegation{RequestID: "sf-1", ValidatorAddress: vs[1].Key.Addr, MaliciousAddress: vs[3].Key.Addr, BlockHeight: 3, ProofMsg: "p"}, vs[1].Key)}}
			case 5:
				var t []GenTx
				for _, i := range []int{0, 1, 2} {
					t = append(t, g.mkPlain("ALLEGATION_VOTE", "script", &aevid.AllegationVote{RequestID: "sf-1", Address: vs[i].Key.Addr, Choice: 1}, vs[i].Key))
				}
				return eBlock{Txs: t}
			}
			return eBlock{}
		}})
	// 10. governance changes of the staking options (valid-range family: the update functions
	// validate the whole group): nine staked validators for eight seats, then the minimum self
	// delegation is raised by a passed CONFIG_UPDATE proposal, then the top count
	gp := base(5, 4, 8, 500000, 700000, 650000, 600000, 550000, 500000)
	gp.StakeMaturity, gp.AcctFunds, gp.NAccts = 109200, 3000000, 3
	mkProp := func(g *Gen, h int64, id string, cu string) GenTx {
		a := g.W.Accts[0]
		return g.mkPlain("PROPOSAL_CREATE", "script", &agov.CreateProposal{ProposalID: pid(id), ProposalType: governance.ProposalTypeConfigUpdate,
			Headline: "h", Description: "d", Proposer: a.Addr, InitialFunding: action.Amount{Currency: "OLT", Value: *balance.NewAmount(1000000000)},
			FundingDeadline: h + gp.FundingDeadline, FundingGoal: balance.NewAmount(10000000000), VotingDeadline: h + gp.FundingDeadline + gp.VotingDeadline,
			PassPercentage: 51, ConfigUpdate: cu}, a)
	}
	fundProp := func(g *Gen, id string) GenTx {
		a := g.W.Accts[1]
		return g.mkPlain("PROPOSAL_FUND", "script", &agov.FundProposal{ProposalId: pid(id), FunderAddress: a.Addr,
			FundValue: action.Amount{Currency: "OLT", Value: *balance.NewAmount(9000000000)}}, a)
	}
	voteProp := func(g *Gen, id string) []GenTx {
		var t []GenTx
		for i := 0; i < 5; i++ {
			v := g.W.Vals[i]
			t = append(t, g.mkPlain("PROPOSAL_VOTE", "script", &agov.VoteProposal{ProposalID: pid(id), Address: v.Owner.Addr, ValidatorAddress: v.Key.Addr, Opinion: governance.OPIN_POSITIVE}, v.Owner, v.Key))
		}
		return t
	}
	out = append(out, ePlan{Name: "script-governance-staking-options", P: gp, Blocks: 30,
		Next: func(h int64, v *eView, g *Gen, sim *Sim) eBlock {
			switch h {
			case 2:
				var t []GenTx
				for i, amt := range []int64{520000, 560000, 610000, 660000} {
					t = append(t, g.eStake(g.W.Vals[5+i], amt, "candidate"))
				}
				return eBlock{Txs: t}
			case 6:
				return eBlock{Txs: []GenTx{mkProp(g, h, "gov-min", "stakingOptions.minSelfDelegationAmount:600000")}}
			case 7:
				return eBlock{Txs: []GenTx{fundProp(g, "gov-min")}}
			case 8:
				return eBlock{Txs: voteProp(g, "gov-min")}
			case 14:
				return eBlock{Txs: []GenTx{mkProp(g, h, "gov-top", "stakingOptions.topValidatorCount:9")}}
			case 15:
				return eBlock{Txs: []GenTx{fundProp(g, "gov-top")}}
			case 16:
				return eBlock{Txs: voteProp(g, "gov-top")}
			case 20: // back under the raised minimum: 610000 -> 590000
				return eBlock{Txs: []GenTx{g.eUnstake(g.W.Vals[7], 20000, "below-new-min")}}
			}
			return eBlock{}
		}})
	// 9. S20: the only validator unstakes everything; the next end block divides by total power 0
	out = append(out, ePlan{Name: "script-zero-total-power", P: base(1, 0, 4, 5, 10), Blocks: 14,
		Next: func(h int64, v *eView, g *Gen, sim *Sim) eBlock {
			switch h {
			case 2:
				return eBlock{Txs: []GenTx{g.eUnstake(g.W.Vals[0], 10, "all")}}
			case 3: // any fee-paying transaction: the pool must hold more than the minimum fee
				a, c := g.W.Accts[0], g.W.Accts[1]
				return eBlock{Txs: []GenTx{g.mkPlain("SEND", "valid", &transfer.Send{From: a.Addr, To: c.Addr, Amount: OLT(1)}, a)}}
			}
			return eBlock{}
		}})
	return out
}

// randomPlan is the generated family: the focus is the staking rule around both boundaries.
func randomPlan(seed uint64, c int, r *rng.R, blocks, maxTxs int) ePlan {
	p := SmallParams(seed*1000 + uint64(c))
	p.NVals = 1 + r.Intn(5)
	p.NCandidates = 1 + r.Intn(4)
	p.NAccts = 2
	p.TopValidators = []int64{1, 2, 4, 4}[r.Intn(4)]
	p.MinSelfDeleg = int64(1 + r.Intn(10))
	p.StakeMaturity = int64(1 + r.Intn(3))
	p.BlockVotesDiff = int64(2 + r.Intn(4))
	p.MinVotesReq = int64(1 + r.Intn(2))
	p.AcctFunds = 3000000
	anchoredVotes := func() {
		// a validator elected at height s first votes in block s+3 and is first examined at
		// s+BlockVotesDiff with BlockVotesDiff-2 votes: keep MinVotesRequired at or below that, or
		// every newly elected validator is flagged for missed votes although it signed everything
		p.BlockVotesDiff = int64(4 + r.Intn(2))
		p.MinVotesReq = int64(1 + r.Intn(int(p.BlockVotesDiff)-2))
	}
	// one history in four is "wild": nobody may be left to elect, stakes carry foreign / secp256k1
	// consensus keys (refused by STAKE since the repair), the whole history may stay inside the
	// first vote window, honest validators may be flagged for missed votes. The others keep
	// validator 0 as an untouched anchor so that somebody is always eligible.
	wild := r.Intn(4) == 0
	fork := r.Intn(6) == 0
	scale := int64(1)
	if fork {
		p.Frankenstein = int64(3 + r.Intn(5))
		scale = 500000
	}
	if !wild {
		anchoredVotes()
	}
	if wild && r.Intn(3) == 0 {
		p.BlockVotesDiff = 50 // production uses 1000: the whole history stays inside the first window
	}
	equal := r.Intn(3) == 0
	for i := 0; i < p.NVals; i++ {
		st := p.MinSelfDeleg + int64(r.Intn(6))
		if equal {
			st = p.MinSelfDeleg + 3
		}
		if fork {
			st = scale - 2 + int64(r.Intn(5))
			if i == 0 {
				st = scale + int64(r.Intn(3)) // somebody survives the fork (most of the time)
			}
		}
		p.GenesisStake = append(p.GenesisStake, st)
	}
	tail := 10
	lazy := -1
	lazyFrom, lazyTo := int64(0), int64(0)
	if r.Intn(3) == 0 {
		lazy = r.Intn(p.NVals + p.NCandidates)
		lazyFrom = int64(3 + r.Intn(6))
		lazyTo = lazyFrom + int64(1+r.Intn(5))
	}
	reqN := 0
	var openReq []string
	name := "random-anchored"
	if wild {
		name = "random-wild"
	}
	if fork {
		name += "-fork"
	}
	pick := func(g *Gen) (*Val, bool) {
		i := r.Intn(len(g.W.Vals))
		if !wild && i == 0 {
			i = 1 + r.Intn(len(g.W.Vals)-1)
		}
		return g.W.Vals[i], i == 0
	}
	return ePlan{Name: name, P: p, Blocks: blocks, Next: func(h int64, v *eView, g *Gen, sim *Sim) eBlock {
		var b eBlock
		b.Dt = int64(1 + r.Intn(5))
		if h > int64(blocks-tail) {
			return b // quiet tail
		}
		if lazy >= 0 && (wild || lazy > 0) && h >= lazyFrom && h < lazyTo {
			b.Absent = append(b.Absent, g.W.Vals[lazy])
		}
		if r.Intn(12) == 0 {
			if x, anchor := pick(g); !anchor {
				b.Absent = append(b.Absent, x)
			}
		}
		if r.Intn(20) == 0 {
			b.Byz = append(b.Byz, g.W.Vals[r.Intn(len(g.W.Vals))])
		}
		min := v.MinSelf
		if !v.OptsOK {
			min = p.MinSelfDeleg
		}
		n := r.Intn(maxTxs + 1)
		pendingOut := map[string]int64{} // stake already asked back in this block, per validator
		for i := 0; i < n; i++ {
			val, _ := pick(g)
			cur := powerOf(v, val) - pendingOut[string(val.Key.Addr)]
			switch x := r.Intn(100); {
			case x < 28: // stake
				amt := []int64{1, min, min - 1, min + 1, int64(1 + r.Intn(12))}[r.Intn(5)]
				if fork && r.Intn(2) == 0 {
					amt = []int64{scale, scale - cur, scale - cur - 1, scale + 1}[r.Intn(4)]
				}
				if amt <= 0 {
					amt = 1
				}
				b.Txs = append(b.Txs, g.eStake(val, amt, "stake"))
			case x < 56: // unstake: to the minimum, one below, everything, one, random
				amt := []int64{cur - min, cur - min + 1, cur, 1, int64(1 + r.Intn(8))}[r.Intn(5)]
				if amt <= 0 {
					amt = 1
				}
				pendingOut[string(val.Key.Addr)] += amt
				b.Txs = append(b.Txs, g.eUnstake(val, amt, "unstake"))
			case x < 60:
				b.Txs = append(b.Txs, g.mkPlain("WITHDRAW", "maybe", &staking.Withdraw{ValidatorAddress: val.Key.Addr, StakeAddress: val.Owner.Addr, Stake: OLTInt(int64(1 + r.Intn(6)))}, val.Owner, val.Key))
			case x < 64: // S16: somebody else's consensus key (refused since the repair)
				if !hasRec(v, val) {
					other := g.W.Vals[r.Intn(len(g.W.Vals))]
					b.Txs = append(b.Txs, g.eStakeKey(val, min+int64(r.Intn(4)), other.Key.Pub, "foreign-pubkey"))
				}
			case x < 66: // secp256k1 consensus key (refused since the repair)
				if !hasRec(v, val) {
					b.Txs = append(b.Txs, g.eStakeKey(val, min+int64(r.Intn(4)), secpKeyOf(val), "secp-pubkey"))
				}
			case x < 74: // allegation by an active validator
				m, _ := pick(g)
				reqN++
				id := fmt.Sprintf("er-%d-%d", p.Seed, reqN)
				openReq = append(openReq, id)
				b.Txs = append(b.Txs, g.mkPlain("ALLEGATION", "maybe", &aevid.Allegation{RequestID: id, ValidatorAddress: val.Key.Addr, MaliciousAddress: m.Key.Addr, BlockHeight: h - 1, ProofMsg: "p"}, val.Key))
			case x < 90: // votes: mostly yes so that verdicts are reached
				if len(openReq) > 0 {
					id := openReq[len(openReq)-1-r.Intn(min2(len(openReq), 2))]
					ch := int8(1)
					if r.Intn(5) == 0 {
						ch = 2
					}
					b.Txs = append(b.Txs, g.mkPlain("ALLEGATION_VOTE", "maybe", &aevid.AllegationVote{RequestID: id, Address: val.Key.Addr, Choice: ch}, val.Key))
				}
			case x < 95:
				if r.Intn(2) == 0 {
					b.Dt = 90000
				}
				b.Txs = append(b.Txs, g.mkPlain("RELEASE", "maybe", &aevid.Release{ValidatorAddress: val.Key.Addr}, val.Key))
			default:
				a, c2 := g.acct(), g.acct()
				b.Txs = append(b.Txs, g.mkPlain("SEND", "valid", &transfer.Send{From: a.Addr, To: c2.Addr, Amount: OLT(int64(1 + r.Intn(100)))}, a))
			}
		}
		return b
	}}
}

func min2(a, b int) int {
	if a < b {
		return a
	}
	return b
}

// ---------------------------------------------------------------- canonical lines

func hx(b []byte) string {
	if len(b) == 0 {
		return "-"
	}
	return hex.EncodeToString(b)
}

func elJoinOrDash(l []string) string {
	if len(l) == 0 {
		return "-"
	}
	return strings.Join(l, ",")
}

// electOpLine renders the decoded hook inputs of block h.
func electOpLine(h int64, minSelf, top int64, prev, pre *eView, votes []abci.VoteInfo, frozen, flagged []string) string {
	var recs, act, pur, st []string
	for _, r := range prev.Recs {
		recs = append(recs, fmt.Sprintf("%s:%s:%d:%d", hx(r.Addr), hx(r.Pub), r.KType, r.Power))
	}
	for _, v := range votes {
		act = append(act, hx(v.Validator.Address))
	}
	var pk []string
	for k := range prev.Purge {
		pk = append(pk, k)
	}
	sort.Strings(pk)
	for _, k := range pk {
		pur = append(pur, fmt.Sprintf("%s:%d", k, prev.Purge[k]))
	}
	var sk []string
	for k := range prev.Status {
		sk = append(sk, k)
	}
	sort.Strings(sk)
	for _, k := range sk {
		b := 0
		if prev.Status[k].Active {
			b = 1
		}
		st = append(st, fmt.Sprintf("%s:%d:%d", k, b, prev.Status[k].Height))
	}
	var cur []string
	for _, r := range pre.Recs { // the records of the deliver state when EndBlock starts (vs.Get)
		cur = append(cur, fmt.Sprintf("%s:%d", hx(r.Addr), r.Power))
	}
	return fmt.Sprintf("elect %d %d %d recs=%s act=%s frozen=%s flagged=%s purge=%s st=%s cur=%s", h, minSelf, top, elJoinOrDash(recs), elJoinOrDash(act), elJoinOrDash(frozen), elJoinOrDash(flagged), elJoinOrDash(pur), elJoinOrDash(st), elJoinOrDash(cur))
}

func ktypeOfABCI(t string) int {
	switch t {
	case "ed25519":
		return 0
	case "secp256k1":
		return 1
	}
	return 2
}

// electImplLine renders what the implementation did in block h: the returned updates and the
// delta of status / record / purge keys between the two dumps.
func electImplLine(ups []abci.ValidatorUpdate, prev, cur *eView) string {
	var u, st, del, pur []string
	for _, x := range ups {
		u = append(u, fmt.Sprintf("%s:%d:%d", hx(x.PubKey.Data), ktypeOfABCI(x.PubKey.Type), x.Power))
	}
	var sk []string
	for k := range cur.Status {
		sk = append(sk, k)
	}
	sort.Strings(sk)
	for _, k := range sk {
		if p, ok := prev.Status[k]; !ok || p != cur.Status[k] {
			b := 0
			if cur.Status[k].Active {
				b = 1
			}
			st = append(st, fmt.Sprintf("%s:%d:%d", k, b, cur.Status[k].Height))
		}
	}
	have := map[string]bool{}
	for _, r := range cur.Recs {
		have[string(r.Addr)] = true
	}
	for _, r := range prev.Recs {
		if !have[string(r.Addr)] {
			del = append(del, hx(r.Addr))
		}
	}
	var pk []string
	for k := range cur.Purge {
		pk = append(pk, k)
	}
	sort.Strings(pk)
	for _, k := range pk {
		if p, ok := prev.Purge[k]; !ok || p != cur.Purge[k] {
			pur = append(pur, fmt.Sprintf("%s:%d", k, cur.Purge[k]))
		}
	}
	return fmt.Sprintf("upd=%s st=%s del=%s purge=%s", elJoinOrDash(u), elJoinOrDash(st), elJoinOrDash(del), elJoinOrDash(pur))
}

// canonUpd orders runs of equal public keys by power (sort.Slice is not stable; only reachable
// with duplicate keys) and drops the trailing n= field of the model line.
func canonElectLine(s string) string {
	f := strings.Fields(s)
	var out []string
	for _, t := range f {
		if strings.HasPrefix(t, "n=") {
			continue
		}
		if strings.HasPrefix(t, "upd=") && t != "upd=-" {
			items := strings.Split(t[4:], ",")
			sort.SliceStable(items, func(i, j int) bool {
				a, b := strings.SplitN(items[i], ":", 2), strings.SplitN(items[j], ":", 2)
				if a[0] != b[0] {
					return false
				}
				return a[1] < b[1]
			})
			t = "upd=" + strings.Join(items, ",")
		}
		out = append(out, t)
	}
	return strings.Join(out, " ")
}

func tmSetStr(vs *tmtypes.ValidatorSet) string {
	var l []string
	vals := append([]*tmtypes.Validator{}, vs.Validators...)
	sort.Slice(vals, func(i, j int) bool { return bytes.Compare(vals[i].Address, vals[j].Address) < 0 })
	for _, v := range vals {
		l = append(l, fmt.Sprintf("%s:%d", hx(v.Address), v.VotingPower))
	}
	return elJoinOrDash(l)
}

func tmAddrOf(u abci.ValidatorUpdate) []byte {
	// the address Tendermint derives for the key; for key types PB2TM cannot convert the raw
	// bytes' hash stands in (the list is rejected before addresses matter)
	if ups, err := tmtypes.PB2TM.ValidatorUpdates([]abci.ValidatorUpdate{u}); err == nil && len(ups) == 1 {
		return ups[0].Address
	}
	h := sha256.Sum256(u.PubKey.Data)
	return h[:20]
}

func tmErrClass(err string) string {
	switch {
	case strings.Contains(err, "would result in empty set"):
		return "emptyset"
	case strings.Contains(err, "duplicate entry"):
		return "duplicate"
	case strings.Contains(err, "failed to find validator"):
		return "removeabsent"
	case strings.Contains(err, "total voting power would exceed"):
		return "totalpower"
	case strings.Contains(err, "voting power can't be higher"):
		return "toohigh"
	case strings.Contains(err, "can't be negative"):
		return "negative"
	case strings.Contains(err, "unsupported for consensus"):
		return "keytype"
	}
	return "other"
}

// ---------------------------------------------------------------- heap component

// realPopOrder builds the queue exactly as InitValidatorQueue does and pops it empty.
func realPopOrder(prios []int64) []int {
	q := identity.ValidatorQueue{PriorityQueue: make(utils.PriorityQueue, 0, 100)}
	for i, p := range prios {
		b := make([]byte, 4)
		binary.BigEndian.PutUint32(b, uint32(i))
		q.Push(utils.NewQueued(b, p, i))
	}
	q.Init()
	var out []int
	for q.Len() > 0 {
		it := q.Pop()
		out = append(out, int(binary.BigEndian.Uint32(it.Value())))
	}
	return out
}

func heapCases(r *rng.R, random int) [][]int64 {
	var out [][]int64
	// exhaustive: all lists of length <= 6 over three priorities
	var rec func(cur []int64, n int)
	rec = func(cur []int64, n int) {
		if len(cur) == n {
			out = append(out, append([]int64{}, cur...))
			return
		}
		for p := int64(0); p < 3; p++ {
			rec(append(cur, p), n)
		}
	}
	for n := 0; n <= 6; n++ {
		rec(nil, n)
	}
	for i := 0; i < random; i++ {
		n := 1 + r.Intn(40)
		span := 1 + r.Intn(6)
		l := make([]int64, n)
		for j := range l {
			l[j] = int64(r.Intn(span)) - 1
		}
		out = append(out, l)
	}
	return out
}

// ---------------------------------------------------------------- Tendermint rule component

// tmComponentCases applies random change lists (small key universe, boundary powers, both key
// types) to random validator sets with the real rule and renders them as `tm` lines.
func tmComponentCases(r *rng.R, n int, res *Result) (ops, impl []string) {
	const maxTotal = int64(1152921504606846975)
	var ed []*Val
	for i := 0; i < 5; i++ {
		ed = append(ed, NewVal(4242, fmt.Sprintf("tmc%d", i), 1, false))
	}
	powers := []int64{0, 0, 1, 5, 7, maxTotal / 4, maxTotal/2 + 1, maxTotal, maxTotal + 1, -1}
	sim := &Sim{}
	for c := 0; c < n; c++ {
		var vals []*tmtypes.Validator
		perm := r.Intn(120)
		for i := 0; i < 5; i++ {
			if (perm>>uint(i))&1 == 1 || (i == 0 && perm%32 == 0) {
				pw := []int64{1, 5, 9, maxTotal / 8}[r.Intn(4)] // five members stay below the maximum
				vals = append(vals, tmtypes.NewValidator(ed[i].Key.tm.PubKey(), pw))
			}
		}
		if len(vals) == 0 {
			vals = append(vals, tmtypes.NewValidator(ed[0].Key.tm.PubKey(), 3))
		}
		set := tmtypes.NewValidatorSet(vals)
		before := tmSetStr(set)
		var ups []abci.ValidatorUpdate
		var ul []string
		for i, k := 0, r.Intn(5); i < k; i++ {
			v := ed[r.Intn(5)]
			pw := powers[r.Intn(len(powers))]
			u := abci.ValidatorUpdate{PubKey: v.Key.Pub.GetABCIPubKey(), Power: pw}
			if r.Intn(8) == 0 {
				u.PubKey = secpKeyOf(v).GetABCIPubKey()
			}
			ups = append(ups, u)
			ul = append(ul, fmt.Sprintf("%s:%d:%d", hx(tmAddrOf(u)), ktypeOfABCI(u.PubKey.Type), u.Power))
		}
		ops = append(ops, fmt.Sprintf("tm set=%s upd=%s", before, elJoinOrDash(ul)))
		cp := set.Copy()
		if err := sim.applyUpdates(cp, ups); err != nil {
			cls := tmErrClass(err.Error())
			impl = append(impl, "err "+cls)
			res.Distribution["tmc:err-"+cls]++
		} else {
			impl = append(impl, "ok "+tmSetStr(cp))
			res.Distribution["tmc:ok"]++
		}
		res.Counters["tm_component_cases"]++
	}
	return
}

// ---------------------------------------------------------------- the engine

type ElectOptions struct {
	Corpus    string // directory of *.replay files run before everything else
	Driver    string
	Seed      uint64
	Histories int
	Blocks    int
	MaxTxs    int
	HeapCases int
	Replay    string
}

type electCase struct {
	ops, impl []string
	lines     []string
}

func RunElect(opt ElectOptions) (*Result, error) {
	res := NewResult("elect", opt.Seed, "case = one block history on the real application: 10 scripted minimal histories (the regression scenarios of the six repaired defects, equal stakes at the top-count boundary, verdict and release, the fork block's option change, a passed CONFIG_UPDATE proposal raising the minimum self delegation and the top count) and generated ones (1-5 genesis validators + 1-4 candidates around TopValidatorCount in {1,2,4} and the minimum self delegation; stake / unstake to the boundary / unstake all / withdraw / allegation-vote-release / absent signers / byzantine evidence / fork-block option change; foreign and secp256k1 consensus keys (refused), leaving inside two blocks; one in four may leave nobody eligible or stay inside the first vote window; 10 quiet blocks at the end). Every update list is applied to the real ValidatorSet.UpdateWithChangeSet with the +2 delay; per block the Lean election is run on the decoded hook inputs and compared with the returned updates and the status / record / purge deltas, and the Lean port of the Tendermint rule with the real outcome. non-trivial = at least one successful STAKE or UNSTAKE, one power-0 update and one record not named by a positive update; distinct = SHA-256 of the history lines. Plus component cases: all priority lists of length <= 6 over 3 values and random lists with ties against the real ValidatorQueue (pop order compared exactly), random change lists with boundary powers and both key types against the real UpdateWithChangeSet (every rejection reason)")
	if opt.Replay != "" {
		return replayElect(opt, res)
	}
	root := rng.New(opt.Seed*2654435761 + 99)
	seen := map[[32]byte]bool{}
	var all []electCase
	// corpus first: minimised past failures (the known-finding replays)
	if opt.Corpus != "" {
		fis, _ := ioutil.ReadDir(opt.Corpus)
		for _, fi := range fis {
			if !strings.HasSuffix(fi.Name(), ".replay") {
				continue
			}
			p, blocks, err := parseReplay(opt.Corpus + "/" + fi.Name())
			if err != nil {
				return nil, err
			}
			hl := &HistoryLog{}
			ec, _, err := runElectHistory(opt, -1, ePlan{Name: "corpus:" + strings.TrimSuffix(fi.Name(), ".replay"), P: p}, rng.New(1), res, hl, blocks)
			if err != nil {
				return nil, err
			}
			all = append(all, *ec)
			res.Counters["corpus_histories"]++
			TruncateAppLog()
		}
	}
	plans := scriptedPlans(opt.Seed)
	for c := 0; c < len(plans)+opt.Histories; c++ {
		r := root.Fork()
		var plan ePlan
		if c < len(plans) {
			plan = plans[c]
		} else {
			plan = randomPlan(opt.Seed, c, r, opt.Blocks, opt.MaxTxs)
		}
		if f := os.Getenv("OLH_ELECT_PLANS"); f != "" && !strings.Contains(plan.Name, f) {
			continue // development aid: run only the plans whose name contains the filter
		}
		if f := os.Getenv("OLH_ELECT_CASE"); f != "" && f != strconv.Itoa(c) {
			continue
		}
		if os.Getenv("OLH_ELECT_PROGRESS") != "" {
			fmt.Fprintf(os.Stderr, "case %d %s\n", c, plan.Name)
		}
		hl := &HistoryLog{}
		ec, nontriv, err := runElectHistory(opt, c, plan, r, res, hl, nil)
		if err != nil {
			return nil, err
		}
		all = append(all, *ec)
		res.Evaluations++
		if d := os.Getenv("OLH_ELECT_SAVE"); d != "" && strings.HasPrefix(plan.Name, "script-") {
			ioutil.WriteFile(d+"/"+plan.Name+".replay", []byte(strings.Join(hl.Lines, "\n")+"\n"), 0644) // development aid: refresh corpus/C10
		}
		h := sha256.Sum256([]byte(strings.Join(hl.Lines, "\n")))
		if !seen[h] {
			seen[h] = true
			if nontriv {
				res.DistinctNontrivial++
			}
		}
		if len(res.Samples) < 2 && nontriv {
			res.Samples = append(res.Samples, shortAll(hl.Lines[:min2(len(hl.Lines), 30)]))
		}
		TruncateAppLog()
	}
	// heap component cases
	hr := root.Fork()
	var hc electCase
	for _, pr := range heapCases(hr, opt.HeapCases) {
		var ps, po []string
		for _, p := range pr {
			ps = append(ps, strconv.FormatInt(p, 10))
		}
		for _, i := range realPopOrder(pr) {
			po = append(po, strconv.Itoa(i))
		}
		hc.ops = append(hc.ops, "heap "+elJoinOrDash(ps))
		hc.impl = append(hc.impl, "pop "+elJoinOrDash(po))
		res.Counters["heap_cases"]++
		distinctP := map[int64]bool{}
		for _, p := range pr {
			distinctP[p] = true
		}
		if len(distinctP) < len(pr) {
			res.Counters["heap_cases_with_ties"]++
		}
	}
	all = append(all, hc)
	var tc electCase
	tc.ops, tc.impl = tmComponentCases(root.Fork(), opt.HeapCases*4, res)
	all = append(all, tc)
	// correspondence: one driver run over everything
	var ops []string
	for i, c := range all {
		ops = append(ops, fmt.Sprintf("# case %d", i))
		ops = append(ops, c.ops...)
	}
	model, err := kv.RunDriver(opt.Driver, "elect", ops)
	if err != nil {
		return nil, err
	}
	if d := os.Getenv("OLH_ELECT_DUMP"); d != "" {
		var sb strings.Builder
		kk := 0
		for i, c := range all {
			kk++
			fmt.Fprintf(&sb, "# case %d\n", i)
			for j := range c.ops {
				fmt.Fprintf(&sb, "op    %s\nimpl  %s\nmodel %s\n", c.ops[j], c.impl[j], model[kk])
				kk++
			}
		}
		ioutil.WriteFile(d, []byte(sb.String()), 0644)
	}
	k := 0
	for i, c := range all {
		k++ // the comment line
		for j := range c.ops {
			m := model[k]
			k++
			want := c.impl[j]
			got := m
			if strings.HasPrefix(c.ops[j], "elect ") {
				got = canonElectLine(m)
				want = canonElectLine(want)
			}
			res.Counters["lines_compared"]++
			if got != want {
				res.DisagreementCount++
				if len(res.Disagreements) < 10 {
					res.Disagreements = append(res.Disagreements, Disagreement{Kind: strings.Fields(c.ops[j])[0], Case: i, Op: c.ops[j], Impl: want, Model: got, Ops: c.lines})
				}
			}
		}
	}
	return res, nil
}

// runElectHistory executes one plan (or, with `fixed` set, a recorded history) with monitors and
// collects the correspondence lines.
func runElectHistory(opt ElectOptions, c int, plan ePlan, r *rng.R, res *Result, hl *HistoryLog, fixed []fixedBlock) (*electCase, bool, error) {
	p := plan.P
	w := NewWorld(p)
	hl.Add("genesis %s", paramsLine(p))
	hl.Add("plan %s", plan.Name)
	res.Distribution["plan:"+plan.Name]++
	A, err := NewReplica(w, Identity{Name: "A", Val: w.Vals[0]})
	if err != nil {
		return nil, false, err
	}
	defer A.Close()
	A.InitChain()
	sim := NewSim(w)
	g := NewGen(w, r.Fork())
	ec := &electCase{}
	prevDump := map[string]string{}
	prev := decodeElect(prevDump)
	okStakeTx, zeroUpd, leftOut := 0, 0, 0
	var dumps []*eView // decoded dump after each block (index = height)
	dumps = append(dumps, prev)
	blocks := plan.Blocks
	if fixed != nil {
		blocks = len(fixed)
	}
	stopped := false
	hit := func(sig, detail string) {
		res.Hit(sig, c, detail, hl.Lines)
		res.Counters["hit@"+plan.Name+":"+sig]++
	}
	for bi := 0; bi < blocks && !stopped; bi++ {
		h := sim.Height + 1
		g.Height = h
		var eb eBlock
		var bo BlockOpts
		if fixed != nil {
			eb.Txs = fixed[bi].Txs
			bo = fixed[bi].Opts
		} else {
			eb = plan.Next(h, prev, g, sim)
			bo = BlockOpts{DtSeconds: eb.Dt}
			if h > 1 {
				ps := sim.Sets[h-1]
				for _, v := range eb.Absent {
					if i, _ := ps.GetByAddress(v.Key.tm.PubKey().Address()); i >= 0 {
						if bo.Absent == nil {
							bo.Absent = map[int]bool{}
						}
						bo.Absent[i] = true
					}
				}
				for _, v := range eb.Byz {
					if i, _ := ps.GetByAddress(v.Key.tm.PubKey().Address()); i >= 0 {
						bo.Byzantine = append(bo.Byzantine, i)
					}
				}
			}
		}
		var txs [][]byte
		for _, t := range eb.Txs {
			txs = append(txs, t.Bytes)
		}
		b := sim.NextBlock(txs, bo)
		logBlock(hl, b, eb.Txs, bo)
		A.SaveBlock(b)
		A.BeginBlock(b)
		pendBegin := pendingOf(A.App.VerifDeliverState())
		br := &BlockResult{Height: h}
		for _, tx := range b.Txs {
			br.Txs = append(br.Txs, A.DeliverTx(tx))
		}
		pendPre := pendingOf(A.App.VerifDeliverState())
		if os.Getenv("OLH_ELECT_TRACE") != "" {
			var tl []string
			for i, t := range eb.Txs {
				tl = append(tl, fmt.Sprintf("%s(%s)=%d", t.Kind, t.Note, br.Txs[i].Code))
			}
			fmt.Fprintf(os.Stderr, "before EndBlock %d: txs=%v prevrecs=%s feepool=%s\n", h, tl, recStr(prev), elOverlay(prevDump, pendPre)["f_00000000000000000000"])
			for k, v := range elOverlay(prevDump, pendPre) {
				if strings.HasPrefix(k, "f_") {
					fmt.Fprintf(os.Stderr, "    %q = %s\n", k, v)
				}
			}
		}
		ebr := A.EndBlock(h)
		br.Updates = ebr.ValidatorUpdates
		if A.Crashed {
			tot := int64(0)
			for _, rcd := range prev.Recs {
				tot += rcd.Power
			}
			if tot == 0 && len(prev.Recs) > 0 {
				// S20: feeShare = total * power / vs.totalPower with vs.totalPower == 0
				hit("endblock-panics-zero-total-power", fmt.Sprintf("block %d: every record of block %d has power 0, the fee distribution of GetEndBlockUpdate divides by the total power; handlePanic closed the application; records: %s", h, h-1, recStr(prev)))
			} else {
				hit("app-closed-by-panic", fmt.Sprintf("block %d; records: %s", h, recStr(prev)))
			}
			stopped = true
			break
		}
		br.AppHash = A.Commit()
		A.IndexBlock(b, br)
		for i, t := range eb.Txs {
			res.Distribution[fmt.Sprintf("%s(%s):%d", t.Kind, t.Note, br.Txs[i].Code)]++
			if os.Getenv("OLH_ELECT_TXLOG") != "" && br.Txs[i].Code != 0 {
				hl.Add("    -> code %d log %.300s", br.Txs[i].Code, br.Txs[i].Log)
				fmt.Fprintf(os.Stderr, "txlog %s(%s) h=%d code=%d %.300s\n", t.Kind, t.Note, h, br.Txs[i].Code, br.Txs[i].Log)
			}
			if br.Txs[i].Code == 0 && (t.Kind == "STAKE" || t.Kind == "UNSTAKE") {
				okStakeTx++
			}
		}
		dump := A.DumpMap()
		cur := decodeElect(dump)
		dumps = append(dumps, cur)

		// ---- hook inputs as the implementation saw them
		pre := elOverlay(prevDump, pendPre) // deliver state just before EndBlock
		minSelf, top, optsOK := stakingOptsOf(pre)
		if !optsOK {
			minSelf, top = p.MinSelfDeleg, p.TopValidators
		}
		// malicious set of the block = frozen records at BeginBlock + records BeginBlock created itself
		// (missed votes; none while the height is inside the first vote window)
		flagged := map[string]bool{} // hex addr: written by BeginBlock
		for _, kvp := range pendBegin {
			if strings.HasPrefix(string(kvp.k), "es__ssvk_") {
				if lvh, err := (&evidence.LastValidatorHistory{}).FromBytes(kvp.v); err == nil && lvh.IsFrozen() {
					flagged[hex.EncodeToString(lvh.Address)] = true
				}
			}
		}
		evOptB := elOverlay(prevDump, pendBegin)
		votesDiff := evidenceVotesDiff(evOptB, p.BlockVotesDiff)
		var frozenL, flaggedL, mal []string
		for a, f := range prev.Frozen {
			if f {
				frozenL = append(frozenL, a)
			}
		}
		for a := range flagged {
			flaggedL = append(flaggedL, a)
		}
		sort.Strings(frozenL)
		sort.Strings(flaggedL)
		mal = append(append(mal, frozenL...), flaggedL...)
		preView := decodeElect(pre)

		// ---- correspondence lines
		if h >= 1 {
			ec.ops = append(ec.ops, electOpLine(h, minSelf, top, prev, preView, b.Votes, frozenL, flaggedL))
			ec.impl = append(ec.impl, electImplLine(br.Updates, prev, cur))
		}

		// ---- monitors
		frozenOrFlagged := func(a string) bool { return prev.Frozen[a] || flagged[a] }
		// sortedness and duplicates
		for i := 1; i < len(br.Updates); i++ {
			cmp := bytes.Compare(br.Updates[i-1].PubKey.Data, br.Updates[i].PubKey.Data)
			if cmp > 0 {
				hit("updates-not-sorted-by-pubkey", fmt.Sprintf("block %d: %s", h, updStr(br.Updates)))
			}
			if cmp == 0 {
				hit("duplicate-key-in-update-list", fmt.Sprintf("block %d: key %x named twice: %s; records: %s", h, br.Updates[i].PubKey.Data, updStr(br.Updates), recStr(prev)))
			}
		}
		minPrev, topPrev := prev.MinSelf, prev.Top
		if !prev.OptsOK {
			minPrev, topPrev = minSelf, top
		}
		lowMin, hiTop := minSelf, top
		if minPrev < lowMin {
			lowMin = minPrev
		}
		if topPrev > hiTop {
			hiTop = topPrev
		}
		positives := 0
		minPos := int64(-1)
		named := map[string]bool{}
		dupPub := false
		pubSeen := map[string]bool{}
		for _, rcd := range prev.Recs {
			if pubSeen[string(rcd.Pub)] {
				dupPub = true
			}
			pubSeen[string(rcd.Pub)] = true
		}
		for _, u := range br.Updates {
			if u.Power == 0 {
				zeroUpd++
				continue
			}
			positives++
			if minPos < 0 || u.Power < minPos {
				minPos = u.Power
			}
			ok, frozenHit := false, false
			for _, rcd := range prev.Recs {
				if bytes.Equal(rcd.Pub, u.PubKey.Data) && rcd.KType == ktypeOfABCI(u.PubKey.Type) && rcd.Power == u.Power && rcd.Power >= lowMin {
					if frozenOrFlagged(hex.EncodeToString(rcd.RAddr)) {
						frozenHit = true
						continue
					}
					ok = true
					named[string(rcd.Addr)] = true
					break
				}
			}
			if !ok {
				if frozenHit {
					hit("frozen-validator-elected", fmt.Sprintf("block %d: update %x:%d names a validator that is frozen or flagged in the records of block %d (blockVotesDiff %d)", h, u.PubKey.Data, u.Power, h-1, votesDiff))
				} else {
					hit("positive-update-violates-staking-rule", fmt.Sprintf("block %d: update %x:%d has no record of block %d with that key, that power and power >= %d; records: %s", h, u.PubKey.Data, u.Power, h-1, lowMin, recStr(prev)))
				}
			}
		}
		if int64(positives) > hiTop && hiTop >= 0 {
			hit("more-than-top-count", fmt.Sprintf("block %d: %d positive updates, TopValidatorCount %d", h, positives, hiTop))
		}
		if h > 1 && !dupPub {
			for _, rcd := range prev.Recs {
				a := hex.EncodeToString(rcd.RAddr)
				hiMin := minSelf
				if minPrev > hiMin {
					hiMin = minPrev
				}
				loTop := top
				if topPrev < loTop {
					loTop = topPrev
				}
				if rcd.Power >= hiMin && !frozenOrFlagged(a) && !named[string(rcd.Addr)] {
					leftOut++
					if int64(positives) < loTop {
						hit("eligible-validator-not-elected", fmt.Sprintf("block %d: record %x power %d is eligible (min %d), only %d of %d seats taken: %s", h, rcd.Addr, rcd.Power, hiMin, positives, loTop, updStr(br.Updates)))
					} else if minPos >= 0 && rcd.Power > minPos {
						hit("higher-stake-not-preferred", fmt.Sprintf("block %d: record %x power %d left out while an update has power %d: %s", h, rcd.Addr, rcd.Power, minPos, updStr(br.Updates)))
					}
				} else if !named[string(rcd.Addr)] {
					leftOut++
				}
			}
		}

		// ---- which branches of the mechanism this block went through (distribution only)
		if len(bo.Byzantine) > 0 {
			res.Distribution["input:blocks-with-byzantine-evidence"]++
		}
		if len(bo.Absent) > 0 {
			res.Distribution["input:blocks-with-absent-signer"]++
		}
		if minSelf != minPrev || top != topPrev {
			res.Distribution["input:blocks-with-changed-staking-options"]++
		}
		if h <= 1 {
			res.Distribution["branch:height-1-no-election"]++
		} else {
			posKeys := map[string]bool{}
			for _, u := range br.Updates {
				if u.Power > 0 {
					posKeys[string(u.PubKey.Data)] = true
				}
			}
			voters := map[string]bool{}
			for _, vt := range b.Votes {
				voters[string(vt.Validator.Address)] = true
			}
			inMal := map[string]bool{}
			for _, a := range mal {
				inMal[a] = true
			}
			if h <= votesDiff && len(frozenL) > 0 {
				res.Distribution["branch:frozen-kept-out-inside-first-window"]++
			}
			for _, rcd := range prev.Recs {
				a := hex.EncodeToString(rcd.RAddr)
				elected := false
				switch {
				case rcd.Power < minSelf:
					res.Distribution["branch:below-minimum"]++
				case inMal[a]:
					res.Distribution["branch:malicious-skipped"]++
				case posKeys[string(rcd.Pub)]:
					res.Distribution["branch:elected"]++
					elected = true
				default:
					res.Distribution["branch:seats-full"]++
					if rcd.Power == minPos {
						res.Distribution["branch:tie-at-the-top-count-boundary"]++
					}
				}
				if rcd.Power <= 0 {
					res.Distribution["branch:record-without-power"]++
				}
				if !elected {
					ph := prev.Purge[hex.EncodeToString(rcd.Addr)]
					switch {
					case positives == 0:
						res.Distribution["branch:nobody-elected-purge-held-back"]++
					case !voters[string(rcd.Addr)]:
						res.Distribution["branch:non-top-not-in-last-commit"]++
					case ph > 0 && h <= ph+2:
						res.Distribution["branch:non-top-purge-guarded"]++
					default:
						res.Distribution["branch:non-top-purged"]++
					}
				}
			}
			for k, st := range cur.Status {
				if pst, ok := prev.Status[k]; !ok {
					res.Distribution["branch:status-created"]++
				} else if pst != st {
					res.Distribution["branch:status-flipped"]++
				}
			}
		}
		if os.Getenv("OLH_ELECT_TRACE") != "" {
			var tl []string
			for i, t := range eb.Txs {
				tl = append(tl, fmt.Sprintf("%s(%s)=%d", t.Kind, t.Note, br.Txs[i].Code))
			}
			fmt.Fprintf(os.Stderr, "h=%d txs=%v\n   prevrecs=%s\n   votes=%d mal=%v purge=%v\n   updates=%s\n   set(h+1)=%s\n", h, tl, recStr(prev), len(b.Votes), mal, prev.Purge, updStr(br.Updates), tmSetStr(sim.Sets[h+1]))
		}
		// ---- Tendermint: the real rule, and the Lean port of the rule on the same inputs
		next := sim.Sets[h+1]
		if next == nil {
			next = sim.Sets[h].CopyIncrementProposerPriority(1)
		}
		setBefore := tmSetStr(next)
		nerr := len(sim.TMErrors)
		sim.Absorb(b, br)
		var ul []string
		for _, u := range br.Updates {
			ul = append(ul, fmt.Sprintf("%s:%d:%d", hx(tmAddrOf(u)), ktypeOfABCI(u.PubKey.Type), u.Power))
		}
		ec.ops = append(ec.ops, fmt.Sprintf("tm set=%s upd=%s", setBefore, elJoinOrDash(ul)))
		if len(sim.TMErrors) > nerr {
			e := sim.TMErrors[len(sim.TMErrors)-1]
			cls := tmErrClass(e)
			ec.impl = append(ec.impl, "err "+cls)
			res.Distribution["tm:err-"+cls]++
			sig := "tm-rejects-" + cls
			if cls == "removeabsent" && hasUnboundKey(prev) {
				// S16 again: the purge loop looks a voter up by the record address and removes the
				// record's key, which belongs to somebody else
				sig = "tm-rejects-removeabsent-unbound-consensus-key"
			}
			hit(sig, fmt.Sprintf("%s; updates %s; set of block %d: %s; records of block %d: %s", e, updStr(br.Updates), h+1, setBefore, h-1, recStr(prev)))
			stopped = true // a real chain halts here
		} else {
			after := sim.Sets[h+2].Copy()
			ec.impl = append(ec.impl, "ok "+tmSetStr(after))
			res.Distribution["tm:ok"]++
		}
		// ---- the facts about the records the multi-block theorems take as side conditions
		if !stopped {
			prevByAddr := map[string]eRec{}
			for _, rcd := range prev.Recs {
				prevByAddr[string(rcd.Addr)] = rcd
			}
			for _, rcd := range cur.Recs {
				if old, ok := prevByAddr[string(rcd.Addr)]; ok {
					if !bytes.Equal(old.Pub, rcd.Pub) || old.KType != rcd.KType {
						hit("record-consensus-key-changed", fmt.Sprintf("block %d: record %x had key %x, now %x", h, rcd.Addr, old.Pub, rcd.Pub))
					}
				} else if h > 1 && (rcd.KType != 0 || !bytes.Equal(keyAddr(rcd.Pub), rcd.Addr)) {
					hit("unbound-consensus-key-staked", fmt.Sprintf("block %d: new record %x carries key %x (type %d), which is not the ed25519 key of that address", h, rcd.Addr, rcd.Pub, rcd.KType))
				}
			}
			have := map[string]bool{}
			for _, rcd := range cur.Recs {
				have[string(rcd.Addr)] = true
			}
			for _, rcd := range prev.Recs {
				if have[string(rcd.Addr)] {
					continue
				}
				res.Distribution["branch:record-vanished"]++
				for d := int64(-1); d <= 2; d++ {
					if set := sim.Sets[h+d]; set != nil && set.HasAddress(rcd.Addr) {
						hit("deleted-record-of-pending-validator", fmt.Sprintf("block %d deleted the record of %x, which is in the Tendermint set of block %d: %s", h, rcd.Addr, h+d, tmSetStr(set)))
					}
				}
			}
		}
		prevDump, prev = dump, cur
	}
	// ---- convergence after the quiet tail
	if !stopped && len(dumps) >= 8 {
		L := len(dumps) - 1
		last := dumps[L]
		q := L
		for q > 0 && sameElectInputs(dumps[q-1], last) {
			q--
		}
		// records of versions q..L are identical
		if L-q >= 5 {
			res.Counters["convergence_checked"]++
			msg, sig := convergenceCheck(last, sim.Sets[int64(L)+1], int64(L), evidenceVotesDiff(prevDump, p.BlockVotesDiff))
			if sig == "nobody-eligible" {
				res.Counters["convergence_nobody_eligible"]++
			}
			if msg != "" {
				hit(sig, fmt.Sprintf("records constant since block %d, Tendermint set of block %d: %s; %s; records: %s", q, L+1, tmSetStr(sim.Sets[int64(L)+1]), msg, recStr(last)))
			}
		} else {
			res.Counters["convergence_not_quiet"]++
		}
	}
	ec.lines = hl.Lines
	return ec, okStakeTx > 0 && zeroUpd > 0 && leftOut > 0, nil
}

func evidenceVotesDiff(m map[string]string, dflt int64) int64 {
	luhB, has := m["g_evidenceOptions_defaultOptions"]
	if !has || len(luhB) != 8 {
		return dflt
	}
	luh := int64(binary.LittleEndian.Uint64([]byte(luhB)))
	v, has := m["g_"+string(rune(luh))+"_evidenceopt"]
	if !has {
		return dflt
	}
	o := &evidence.Options{}
	if err := serialize.GetSerializer(serialize.PERSISTENT).Deserialize([]byte(v), o); err != nil {
		return dflt
	}
	return o.BlockVotesDiff
}

func updStr(ups []abci.ValidatorUpdate) string {
	var l []string
	for _, u := range ups {
		l = append(l, fmt.Sprintf("%.8x…:%d", u.PubKey.Data, u.Power))
	}
	return "[" + strings.Join(l, " ") + "]"
}

func recStr(v *eView) string {
	var l []string
	for _, r := range v.Recs {
		f := ""
		if v.Frozen[hex.EncodeToString(r.RAddr)] {
			f = " frozen"
		}
		l = append(l, fmt.Sprintf("%.6x… key %.8x… power %d%s", r.Addr, r.Pub, r.Power, f))
	}
	return fmt.Sprintf("[%s] min %d top %d", strings.Join(l, "; "), v.MinSelf, v.Top)
}

func sameElectInputs(a, b *eView) bool {
	if len(a.Recs) != len(b.Recs) || a.MinSelf != b.MinSelf || a.Top != b.Top || a.OptsOK != b.OptsOK {
		return false
	}
	for i := range a.Recs {
		x, y := a.Recs[i], b.Recs[i]
		if !bytes.Equal(x.Addr, y.Addr) || !bytes.Equal(x.Pub, y.Pub) || x.Power != y.Power || x.KType != y.KType {
			return false
		}
	}
	fa, fb := 0, 0
	for k, f := range a.Frozen {
		if f {
			fa++
			if !b.Frozen[k] {
				return false
			}
		}
	}
	for _, f := range b.Frozen {
		if f {
			fb++
		}
	}
	return fa == fb
}

// hasUnboundKey: some record's consensus key is not the ed25519 key of the record's address (S16).
func hasUnboundKey(v *eView) bool {
	for _, r := range v.Recs {
		if r.KType != 0 || !bytes.Equal(keyAddr(r.Pub), r.Addr) {
			return true
		}
	}
	return false
}

// keyAddr is the address the application and Tendermint derive from an ed25519 consensus key.
func keyAddr(pub []byte) []byte {
	pk, err := keys.GetPublicKeyFromBytes(pub, keys.ED25519)
	if err != nil {
		return nil
	}
	hd, err := pk.GetHandler()
	if err != nil {
		return nil
	}
	return hd.Address()
}

// convergenceCheck: the Tendermint set must be an election of the records: every member is an
// eligible record carrying its power, min(top, #eligible) members, no eligible non-member with
// more power than a member. Returns (description, signature); the signature names the cause where
// the state shows it.
func convergenceCheck(v *eView, set *tmtypes.ValidatorSet, height, votesDiff int64) (string, string) {
	elig := map[string]int64{}  // tendermint address (hex) -> power
	byKey := map[string]*eRec{} // tendermint address (hex) of the record's key -> record
	unbound := false
	for i := range v.Recs {
		r := &v.Recs[i]
		ka := keyAddr(r.Pub)
		if r.KType != 0 || !bytes.Equal(ka, r.Addr) {
			unbound = true // S16: the key does not belong to the record's address
		}
		if ka == nil || r.KType != 0 {
			continue
		}
		byKey[hex.EncodeToString(ka)] = r
		if r.Power >= v.MinSelf && !v.Frozen[hex.EncodeToString(r.RAddr)] {
			elig[hex.EncodeToString(ka)] = r.Power
		}
	}
	sigOf := func(dflt string) string {
		if unbound {
			return "active-set-diverges-with-unbound-consensus-key"
		}
		return dflt
	}
	if len(elig) == 0 {
		// nobody can be elected: the application returns no updates at all and the last set stays
		// (Tendermint has no empty validator set); there is no election to converge to
		return "", "nobody-eligible"
	}
	want := int64(len(elig))
	if v.Top < want {
		want = v.Top
	}
	minMember := int64(-1)
	members := map[string]bool{}
	for _, m := range set.Validators {
		a := hex.EncodeToString(m.Address)
		members[a] = true
		pw, ok := elig[a]
		if !ok {
			rec := byKey[a]
			switch {
			case rec == nil:
				return fmt.Sprintf("member %s (power %d) has no stake record at all", a, m.VotingPower), sigOf("active-validator-without-stake-record")
			}
			return fmt.Sprintf("member %s (power %d) has a record that is not eligible (power %d, min %d, frozen %v)", a, m.VotingPower, rec.Power, v.MinSelf, v.Frozen[hex.EncodeToString(rec.RAddr)]), sigOf("ineligible-validator-stays-active")
		}
		if pw != m.VotingPower {
			return fmt.Sprintf("member %s has power %d, its record says %d", a, m.VotingPower, pw), sigOf("active-set-power-differs-from-stake")
		}
		if minMember < 0 || pw < minMember {
			minMember = pw
		}
	}
	if int64(len(set.Validators)) != want {
		return fmt.Sprintf("%d members, the election has %d (eligible %d, top %d)", len(set.Validators), want, len(elig), v.Top), sigOf("active-set-size-differs-from-election")
	}
	for a, pw := range elig {
		if !members[a] && pw > minMember {
			return fmt.Sprintf("eligible %s power %d is outside while a member has %d", a, pw, minMember), sigOf("active-set-not-top-stakes")
		}
	}
	return "", ""
}

// ---------------------------------------------------------------- replay files

type fixedBlock struct {
	Txs  []GenTx
	Opts BlockOpts
}

func paramsLine(p Params) string {
	var st []string
	for _, s := range p.GenesisStake {
		st = append(st, strconv.FormatInt(s, 10))
	}
	return fmt.Sprintf("seed=%d vals=%d cand=%d accts=%d top=%d minself=%d maturity=%d vdiff=%d minvotes=%d fork=%d funds=%d stakes=%s",
		p.Seed, p.NVals, p.NCandidates, p.NAccts, p.TopValidators, p.MinSelfDeleg, p.StakeMaturity, p.BlockVotesDiff, p.MinVotesReq, p.Frankenstein, p.AcctFunds, elJoinOrDash(st))
}

func parseParamsLine(s string) (Params, error) {
	p := SmallParams(1)
	for _, f := range strings.Fields(s) {
		kvs := strings.SplitN(f, "=", 2)
		if len(kvs) != 2 {
			continue
		}
		if kvs[0] == "stakes" {
			p.GenesisStake = nil
			if kvs[1] != "-" {
				for _, x := range strings.Split(kvs[1], ",") {
					n, err := strconv.ParseInt(x, 10, 64)
					if err != nil {
						return p, err
					}
					p.GenesisStake = append(p.GenesisStake, n)
				}
			}
			continue
		}
		n, err := strconv.ParseInt(kvs[1], 10, 64)
		if err != nil {
			return p, err
		}
		switch kvs[0] {
		case "seed":
			p.Seed = uint64(n)
		case "vals":
			p.NVals = int(n)
		case "cand":
			p.NCandidates = int(n)
		case "accts":
			p.NAccts = int(n)
		case "top":
			p.TopValidators = n
		case "minself":
			p.MinSelfDeleg = n
		case "maturity":
			p.StakeMaturity = n
		case "vdiff":
			p.BlockVotesDiff = n
		case "minvotes":
			p.MinVotesReq = n
		case "fork":
			p.Frankenstein = n
		case "funds":
			p.AcctFunds = n
		}
	}
	return p, nil
}

// parseReplay reads a history file written by this engine (the lines of a Hit).
func parseReplay(path string) (Params, []fixedBlock, error) {
	var p Params
	data, err := ioutil.ReadFile(path)
	if err != nil {
		return p, nil, err
	}
	var blocks []fixedBlock
	have := false
	for _, line := range strings.Split(string(data), "\n") {
		t := strings.TrimSpace(line)
		switch {
		case strings.HasPrefix(t, "genesis "):
			p, err = parseParamsLine(t[len("genesis "):])
			if err != nil {
				return p, nil, err
			}
			have = true
		case strings.HasPrefix(t, "block "):
			fb := fixedBlock{}
			for _, f := range strings.Fields(t) {
				switch {
				case strings.HasPrefix(f, "dt="):
					fb.Opts.DtSeconds, _ = strconv.ParseInt(f[3:], 10, 64)
				case strings.HasPrefix(f, "absent=["):
					in := strings.TrimSuffix(f[len("absent=["):], "]")
					if in != "" {
						fb.Opts.Absent = map[int]bool{}
						for _, x := range strings.Split(in, ",") {
							i, _ := strconv.Atoi(x)
							fb.Opts.Absent[i] = true
						}
					}
				}
			}
			if i := strings.Index(t, "byz=["); i >= 0 { // printed with %v: byz=[1 2]
				in := t[i+5:]
				in = in[:strings.Index(in, "]")]
				for _, x := range strings.Fields(in) {
					n, _ := strconv.Atoi(x)
					fb.Opts.Byzantine = append(fb.Opts.Byzantine, n)
				}
			}
			blocks = append(blocks, fb)
		case strings.HasPrefix(t, "tx "):
			f := strings.Fields(t)
			if len(blocks) == 0 || len(f) < 5 {
				continue
			}
			bz, err := hex.DecodeString(f[len(f)-1])
			if err != nil {
				return p, nil, err
			}
			blocks[len(blocks)-1].Txs = append(blocks[len(blocks)-1].Txs, GenTx{Kind: f[2], Note: strings.Trim(f[3], "()"), Bytes: bz})
		}
	}
	if !have {
		return p, nil, fmt.Errorf("%s has no genesis line", path)
	}
	return p, blocks, nil
}

// replayElect re-executes one history file.
func replayElect(opt ElectOptions, res *Result) (*Result, error) {
	p, blocks, err := parseReplay(opt.Replay)
	if err != nil {
		return nil, err
	}
	hl := &HistoryLog{}
	ec, _, err := runElectHistory(opt, 0, ePlan{Name: "replay", P: p}, rng.New(1), res, hl, blocks)
	if err != nil {
		return nil, err
	}
	res.Evaluations = 1
	if opt.Driver != "" {
		model, err := kv.RunDriver(opt.Driver, "elect", ec.ops)
		if err != nil {
			return nil, err
		}
		for j := range ec.ops {
			got, want := model[j], ec.impl[j]
			if strings.HasPrefix(ec.ops[j], "elect ") {
				got, want = canonElectLine(got), canonElectLine(want)
			}
			if got != want {
				res.DisagreementCount++
				res.Disagreements = append(res.Disagreements, Disagreement{Kind: strings.Fields(ec.ops[j])[0], Op: ec.ops[j], Impl: want, Model: got})
			}
		}
	}
	return res, nil
}

package apph

// ethtrk — the C15 engine: Ethereum lock/redeem trackers.
//
// Histories of ETH_LOCK / ERC20_LOCK / ETH_REDEEM / ERC20_REDEEM / ETH_REPORT_FINALITY_MINT / SEND
// transactions (real signed Ethereum payloads built with go-ethereum against the genesis
// ContractABI, finality reports signed by validator keys) are executed through ABCI on the real
// application.  Before and after every DeliverTx and every EndBlock the tracker records of the
// three stores and the wrapped-currency balances are decoded from the committed tree overlaid
// with the block cache.
//   * MONITOR: the property's own predicates are evaluated on those observations (independent of
//     the Lean model): vote-slot integrity, threshold at mint/refund, exact amount, beneficiary,
//     at-most-once per external transaction, one tracker per external transaction, debit with
//     the redeem tracker, supply counter = circulation, block-end moves.
//   * CORRESPONDENCE: every step is written as a stateless line (pre-state records + operation) and
//     re-run by the Lean model (olpdriver ethtrk); the post-state records / result code must agree.
//   * a component part enumerates vote sequences on a bare data/ethereum.Tracker (AddVote,
//     Finalized, Failed, GetVotes) exhaustively for small witness counts against the same model.

import (
	"bytes"
	"crypto/ecdsa"
	"crypto/sha256"
	"encoding/hex"
	"fmt"
	"io/ioutil"
	"math/big"
	"os"
	"sort"
	"strings"

	"github.com/ethereum/go-ethereum/accounts/abi"
	"github.com/ethereum/go-ethereum/common"
	"github.com/ethereum/go-ethereum/core/types"
	"github.com/ethereum/go-ethereum/crypto"
	"github.com/ethereum/go-ethereum/rlp"

	"github.com/Oneledger/protocol/action"
	aeth "github.com/Oneledger/protocol/action/eth"
	"github.com/Oneledger/protocol/action/transfer"
	ethchain "github.com/Oneledger/protocol/chains/ethereum"
	"github.com/Oneledger/protocol/chains/ethereum/contract"
	"github.com/Oneledger/protocol/data/balance"
	"github.com/Oneledger/protocol/data/ethereum"
	"github.com/Oneledger/protocol/data/keys"
	"github.com/Oneledger/protocol/serialize"

	"olverif/harness/kv"
	"olverif/harness/rng"
)

const ethSupplyAddr = "oneledgerSupplyAddress" // cmd/olfullnode/devnet.go lockBalanceAddress

var (
	ethContractAddr = common.HexToAddress("0x1111111111111111111111111111111111111111")
	ethTokenAddr    = common.HexToAddress("0x2222222222222222222222222222222222222222")
	ethERCAddr      = common.HexToAddress("0x3333333333333333333333333333333333333333")
	ethOtherAddr    = common.HexToAddress("0x4444444444444444444444444444444444444444")
	ethCurNames     = []string{"ETH", "TTC"}
)

var ethABIs struct {
	lr, erc20, lrerc abi.ABI
	ok               bool
}

func ethLoadABIs() {
	if ethABIs.ok {
		return
	}
	var err error
	if ethABIs.lr, err = abi.JSON(strings.NewReader(contract.LockRedeemABI)); err != nil {
		panic(err)
	}
	if ethABIs.erc20, err = abi.JSON(strings.NewReader(contract.ERC20BasicABI)); err != nil {
		panic(err)
	}
	if ethABIs.lrerc, err = abi.JSON(strings.NewReader(contract.LockRedeemERCABI)); err != nil {
		panic(err)
	}
	ethABIs.ok = true
}

// EthOption is the ETH chain-driver option the ethtrk genesis carries: the repo's own contract
// ABIs, fixed contract addresses, one ERC20 token booked in the genesis currency TTC, small caps.
func EthOption(ethCap, tokCap int64) *ethchain.ChainDriverOption {
	return &ethchain.ChainDriverOption{
		ContractABI:        contract.LockRedeemABI,
		ContractAddress:    ethContractAddr,
		TokenList:          []ethchain.ERC20Token{{TokName: "TTC", TokAddr: ethTokenAddr, TokAbi: contract.ERC20BasicABI, TokTotalSupply: fmt.Sprint(tokCap)}},
		ERCContractABI:     contract.LockRedeemERCABI,
		ERCContractAddress: ethERCAddr,
		TotalSupply:        fmt.Sprint(ethCap),
		TotalSupplyAddr:    ethSupplyAddr,
		BlockConfirmation:  12,
	}
}

// extTx is one external (Ethereum-side) transaction prepared by the generator.
type extTx struct {
	Kind   int // 1 lock, 2 redeem, 3 lockERC, 4 redeemERC (data/ethereum ProcessType)
	Pre    int // 0 well formed, 1 not decodable, 2 wrong call data / unlisted token, 3 wrong contract address / receiver, 9 selector missing
	Raw    []byte
	NameB  common.Hash
	Amount *big.Int
	ToTok  bool // the transaction is addressed to the listed token contract
	Orig   *extTx // set on a second spelling of an external transaction: the same RLP with bytes after it
}

func (x *extTx) Name() string { return new(big.Int).SetBytes(x.NameB[:]).String() }

func ethUserKey(seed uint64, i int) *ecdsa.PrivateKey {
	h := sha256.Sum256([]byte(fmt.Sprintf("olverif-ethuser-%d-%d", seed, i)))
	k, err := crypto.ToECDSA(h[:])
	if err != nil {
		panic(err)
	}
	return k
}

// buildExt builds and signs the Ethereum transaction the way scripts/ethereum/main.go does.
func buildExt(seed uint64, nonce uint64, kind, pre int, amount *big.Int, toTok bool) *extTx {
	ethLoadABIs()
	key := ethUserKey(seed, int(nonce%3))
	var to common.Address
	var data []byte
	var err error
	value := big.NewInt(0)
	switch kind {
	case 1:
		to, value = ethContractAddr, amount
		data, err = ethABIs.lr.Pack("lock")
		if pre == 2 {
			data, err = ethABIs.lr.Pack("redeem", big.NewInt(1))
		}
		if pre == 3 {
			to = ethOtherAddr
		}
	case 2:
		to, value = ethContractAddr, big.NewInt(10)
		data, err = ethABIs.lr.Pack("redeem", amount)
		if pre == 9 {
			data, err = ethABIs.lr.Pack("lock") // no redeem selector in the payload
		}
	case 3:
		to = ethTokenAddr
		recv := ethERCAddr
		if pre == 3 {
			recv = ethOtherAddr // the transfer does not go to the ERC lock contract
		}
		data, err = ethABIs.erc20.Pack("transfer", recv, amount)
		if pre == 2 {
			to = ethOtherAddr
		}
	case 4:
		to = ethERCAddr
		if toTok {
			to = ethTokenAddr // unusual: burnERC20Tokens looks the token up by tx.To()
		}
		tok := ethTokenAddr
		if pre == 2 {
			tok = ethOtherAddr
		}
		data, err = ethABIs.lrerc.Pack("redeem", amount, tok)
		if pre == 9 {
			data, err = ethABIs.lr.Pack("lock")
		}
	}
	if err != nil {
		panic(err)
	}
	tx := types.NewTransaction(nonce, to, value, 100000, big.NewInt(18000000000), data)
	signed, err := types.SignTx(tx, types.NewEIP155Signer(big.NewInt(1)), key)
	if err != nil {
		panic(err)
	}
	raw, err := rlp.EncodeToBytes(signed)
	if err != nil {
		panic(err)
	}
	if pre == 1 {
		raw = raw[1:] // no longer one RLP list; the trailing 32 bytes (the tracker name) stay
	}
	x := &extTx{Kind: kind, Pre: pre, Raw: raw, Amount: new(big.Int).Set(amount), ToTok: to == ethTokenAddr}
	x.NameB = common.BytesToHash(raw)
	return x
}

// extAmount is the harness's own reading of the amount a stored external transaction carries
// (go-ethereum's decoder and the ABI layout, not the repo's hex-splitting parsers).
func extAmount(kind int, raw []byte) string {
	if len(raw) == 0 {
		return "0"
	}
	tx := new(types.Transaction)
	if err := rlp.DecodeBytes(raw, tx); err != nil {
		return "0"
	}
	d := tx.Data()
	word := func(i int) string {
		if len(d) < 4+32*(i+1) {
			return "0"
		}
		return new(big.Int).SetBytes(d[4+32*i : 4+32*(i+1)]).String()
	}
	switch kind {
	case 1:
		return tx.Value().String()
	case 2, 4:
		return word(0)
	case 3:
		return word(1)
	}
	return "0"
}

// extToTok: is the stored external transaction addressed to the listed token contract?
func extToTok(raw []byte) int {
	tx := new(types.Transaction)
	if len(raw) == 0 || rlp.DecodeBytes(raw, tx) != nil || tx.To() == nil || *tx.To() != ethTokenAddr {
		return 0
	}
	return 1
}

func addrNum(a []byte) string { return new(big.Int).SetBytes(a).String() }

// ethView is the decoded state of the subsystem at one observation point.
type ethView struct {
	Store [3]map[string]*ethereum.Tracker // 0 ongoing, 1 passed, 2 failed; key = tracker name (decimal)
	Bal   map[string]*big.Int             // key = addrNum|cur
	Raw   map[string]string
}

var ethPrefixes = [3]string{"etht_", "ethsuccess_", "ethfailed_"}

func decodeEthView(m map[string]string) (*ethView, error) {
	v := &ethView{Bal: map[string]*big.Int{}, Raw: m}
	for i := range v.Store {
		v.Store[i] = map[string]*ethereum.Tracker{}
	}
	szr := serialize.GetSerializer(serialize.PERSISTENT)
	for k, val := range m {
		for i, p := range ethPrefixes {
			if strings.HasPrefix(k, p) {
				t := &ethereum.Tracker{}
				if err := szr.Deserialize([]byte(val), t); err != nil {
					return nil, fmt.Errorf("tracker record %q: %v", k, err)
				}
				name := new(big.Int).SetBytes([]byte(k[len(p):])).String()
				v.Store[i][name] = t
			}
		}
		if strings.HasPrefix(k, "b_0lt") {
			for ci, cn := range ethCurNames {
				if strings.HasSuffix(k, "_"+cn) {
					ah := k[len("b_0lt") : len(k)-len(cn)-1]
					ab, err := hex.DecodeString(ah)
					if err != nil {
						return nil, fmt.Errorf("balance key %q", k)
					}
					n := AmountOf(val)
					if n == nil {
						return nil, fmt.Errorf("balance value %q=%q", k, val)
					}
					v.Bal[addrNum(ab)+"|"+fmt.Sprint(ci)] = n
				}
			}
		}
	}
	return v, nil
}

func (v *ethView) bal(addr []byte, cur int) *big.Int {
	if n, ok := v.Bal[addrNum(addr)+"|"+fmt.Sprint(cur)]; ok {
		return n
	}
	return new(big.Int)
}

func trackerText(t *ethereum.Tracker) string {
	var ws []string
	for _, w := range t.Witnesses {
		ws = append(ws, addrNum(w))
	}
	wt := "-"
	if len(ws) > 0 {
		wt = strings.Join(ws, ",")
	}
	vt := "-"
	if len(t.FinalityVotes) > 0 {
		vt = ""
		for _, x := range t.FinalityVotes {
			vt += fmt.Sprint(int(x))
		}
	}
	return fmt.Sprintf("%d/%d/%s/%s/%s/%d/%s/%s", int(t.Type), int(t.State), new(big.Int).SetBytes(t.TrackerName[:]).String(),
		addrNum(t.ProcessOwner), extAmount(int(t.Type), t.SignedETHTx), extToTok(t.SignedETHTx), wt, vt)
}

func storeText(m map[string]*ethereum.Tracker, only map[string]bool) string {
	var names []*big.Int
	for n := range m {
		if only != nil && !only[n] {
			continue
		}
		b, _ := new(big.Int).SetString(n, 10)
		names = append(names, b)
	}
	if len(names) == 0 {
		return "-"
	}
	sort.Slice(names, func(i, j int) bool { return names[i].Cmp(names[j]) < 0 })
	var out []string
	for _, n := range names {
		out = append(out, trackerText(m[n.String()]))
	}
	return strings.Join(out, ";")
}

type balKey struct {
	addr []byte
	cur  int
}

func (v *ethView) balText(ks []balKey) string {
	if len(ks) == 0 {
		return "-"
	}
	var out []string
	seen := map[string]bool{}
	for _, k := range ks {
		id := addrNum(k.addr) + ":" + fmt.Sprint(k.cur)
		if seen[id] {
			continue
		}
		seen[id] = true
		out = append(out, id+":"+v.bal(k.addr, k.cur).String())
	}
	return strings.Join(out, ",")
}

func yesNo(t *ethereum.Tracker) (y, n int) {
	for _, x := range t.FinalityVotes {
		if x == 1 {
			y++
		}
		if x == 2 {
			n++
		}
	}
	return
}

// ethOp is one generated transaction with everything the monitor may know about it.
type ethOp struct {
	Kind   string // lock, lockerc, redeem, redeemerc, report, send
	Note   string
	Ext    *extTx
	Signer *Acct
	Name   string      // tracker name (decimal)
	NameB  common.Hash // report
	Locker keys.Address
	Voter  keys.Address
	Idx    int64
	OK     bool
	From   keys.Address
	To     keys.Address
	Cur    int
	Amount *big.Int
	Bytes  []byte
}

// ethInst is what the generator knows about the current tracker instance of a name.
type ethInst struct {
	Ext       *extTx
	Submitter keys.Address
	Lean      bool // this tracker's witnesses mostly report success
	Voted     map[string]bool
}

type ethRun struct {
	c       int
	w       *World
	A       *Replica
	r       *rng.R
	res     *Result
	hl      *HistoryLog
	wits    []*Val // genesis witnesses in store order (ascending address bytes)
	nonWit  []*Val
	supply  keys.Address
	ethCap  int64
	tokCap  int64
	commit  map[string]string // committed tree at the start of the block
	exts    []*extTx
	inst    map[string]*ethInst
	mints   map[string]int
	refunds map[string]int
	taint   map[string]bool // names for which an ERC20 lock was accepted although a tracker existed
	supLie  bool            // a mint was observed that credited the supply address named by the report
	nonce   uint64
	memo    int
	ops     []string // correspondence op lines
	impl    []string // implementation's canonical answers
	crossed int
	okTx    int
	stop    bool
}

func (e *ethRun) cfgText() string {
	var ws []string
	for _, v := range e.wits {
		ws = append(ws, addrNum(v.Key.Addr))
	}
	wt := "-"
	if len(ws) > 0 {
		wt = strings.Join(ws, ",")
	}
	return fmt.Sprintf("W=%s S=%s EC=%d TC=%d", wt, addrNum(e.supply), e.ethCap, e.tokCap)
}

// view = committed tree overlaid with the block cache (tombstones delete).
func (e *ethRun) view() (*ethView, error) {
	m := make(map[string]string, len(e.commit)+8)
	for k, v := range e.commit {
		m[k] = v
	}
	for _, p := range pendingOf(e.A.App.VerifDeliverState()) {
		if string(p.v) == "⛼" {
			delete(m, string(p.k))
		} else {
			m[string(p.k)] = string(p.v)
		}
	}
	return decodeEthView(m)
}

func (e *ethRun) hit(sig, detail string) {
	e.res.Hit(sig, e.c, detail, append([]string{}, e.hl.Lines...))
}

func (e *ethRun) nextMemo() string {
	e.memo++
	return fmt.Sprintf("e%d-%d", e.c, e.memo)
}

func (e *ethRun) witnessIndex(a keys.Address) int {
	for i, v := range e.wits {
		if bytes.Equal(v.Key.Addr, a) {
			return i
		}
	}
	return -1
}

func (e *ethRun) amountChoice(cur int, supplyBal *big.Int) *big.Int {
	cap := e.ethCap
	if cur == 1 {
		cap = e.tokCap
	}
	room := new(big.Int).Sub(big.NewInt(cap), supplyBal)
	switch e.r.Intn(12) {
	case 0:
		return big.NewInt(0)
	case 1:
		return big.NewInt(1)
	case 2:
		if room.Sign() >= 0 {
			return room // exactly fills the cap
		}
	case 3:
		if room.Sign() >= 0 {
			return new(big.Int).Add(room, big.NewInt(1)) // one above the cap
		}
	case 4:
		return new(big.Int).Add(big.NewInt(cap), big.NewInt(int64(e.r.Intn(5))))
	case 5:
		if e.r.Intn(3) == 0 {
			return new(big.Int).Sub(new(big.Int).Lsh(big.NewInt(1), 256), big.NewInt(1)) // max uint256
		}
	}
	return big.NewInt(int64(1 + e.r.Intn(int(cap/6)+1)))
}

// gen produces the next transaction from what the generator has seen so far.
func (e *ethRun) gen(v *ethView) *ethOp {
	x := e.r.Intn(100)
	var ongoing []string
	for n := range v.Store[0] {
		ongoing = append(ongoing, n)
	}
	sort.Strings(ongoing)
	switch {
	case x < 50 && len(ongoing) > 0:
		return e.genReport(v, ongoing)
	case x < 58 && len(e.exts) > 0:
		return e.genDuplicate()
	case x < 64:
		return e.genSend(v)
	case x < 70 && len(e.exts) > 0:
		return e.genReport(v, nil) // a report on a finished / unknown tracker
	default:
		return e.genSubmit(v)
	}
}

func (e *ethRun) submitOp(x *extTx, who *Acct, note string) *ethOp {
	op := &ethOp{Ext: x, Signer: who, Name: x.Name(), NameB: x.NameB, Note: note, Amount: x.Amount}
	var msg action.Msg
	switch x.Kind {
	case 1:
		op.Kind = "lock"
		msg = &aeth.Lock{Locker: who.Addr, ETHTxn: x.Raw}
	case 2:
		op.Kind = "redeem"
		msg = &aeth.Redeem{Owner: who.Addr, To: ethContractAddr, ETHTxn: x.Raw}
	case 3:
		op.Kind = "lockerc"
		msg = &aeth.ERC20Lock{Locker: who.Addr, ETHTxn: x.Raw}
	case 4:
		op.Kind = "redeemerc"
		msg = &aeth.ERC20Redeem{Owner: who.Addr, To: ethERCAddr, ETHTxn: x.Raw}
	}
	op.Bytes = Sign(RawOf(msg, DefaultFee(), e.nextMemo()), who)
	return op
}

func (e *ethRun) genSubmit(v *ethView) *ethOp {
	who := e.w.Accts[e.r.Intn(len(e.w.Accts))]
	kind := []int{1, 1, 1, 3, 3, 2, 2, 4}[e.r.Intn(8)]
	// redeem only makes sense for somebody who holds wrapped tokens; otherwise mostly lock
	cur := 0
	if kind >= 3 {
		cur = 1
	}
	pre := 0
	var amount *big.Int
	if kind == 2 || kind == 4 {
		var holders []*Acct
		for _, a := range e.w.Accts {
			if v.bal(a.Addr, cur).Sign() > 0 {
				holders = append(holders, a)
			}
		}
		if len(holders) == 0 && e.r.Intn(4) != 0 {
			kind-- // nobody holds wrapped tokens yet: lock instead (2 -> 1, 4 -> 3)
		} else {
			if len(holders) > 0 {
				who = holders[e.r.Intn(len(holders))]
			}
			b := v.bal(who.Addr, cur)
			switch e.r.Intn(6) {
			case 0:
				amount = new(big.Int).Add(b, big.NewInt(1)) // one more than held
			case 1:
				amount = new(big.Int).Set(b) // everything
			case 2:
				amount = big.NewInt(0)
			default:
				amount = big.NewInt(int64(1 + e.r.Intn(int(b.Int64())+1)))
			}
			if kind == 4 && e.r.Intn(10) == 0 {
				pre = 2
			}
			if e.r.Intn(12) == 0 {
				pre = 9
			}
		}
	}
	if kind == 1 || kind == 3 {
		amount = e.amountChoice(cur, v.bal(e.supply, cur))
		switch e.r.Intn(14) {
		case 0:
			pre = 1
		case 1:
			pre = 2
		case 2:
			pre = 3 // wrong contract (ETH) / wrong transfer receiver (ERC20; refused since 11ae9db)
		}
	}
	e.nonce++
	x := buildExt(e.w.P.Seed, e.nonce, kind, pre, amount, kind == 4 && e.r.Intn(3) == 0)
	e.exts = append(e.exts, x)
	return e.submitOp(x, who, fmt.Sprintf("new pre=%d", pre))
}

func (e *ethRun) genDuplicate() *ethOp {
	x := e.exts[e.r.Intn(len(e.exts))]
	if x.Orig == nil && x.Pre == 0 && (x.Kind == 1 || x.Kind == 3) && e.r.Intn(3) == 0 {
		// the same external transaction under another spelling of the payload: the tracker is named
		// after the payload BYTES, so a payload that decodes to the same Ethereum transaction but is
		// not byte-identical would be a second tracker for it (the strict RLP decoder refuses it).
		// Locks only: the redeem handlers never decode the payload as a transaction (they look for
		// the method selector in the bytes), so for them the bytes ARE the external transaction and a
		// padded payload is simply another, undecodable one that the witnesses will fail.
		raw := append(append([]byte{}, x.Raw...), e.r.Bytes(1+e.r.Intn(33))...)
		y := &extTx{Kind: x.Kind, Pre: 1 /* not decodable: what the model expects the strict decoder to say */, Raw: raw, NameB: common.BytesToHash(raw), Amount: x.Amount, ToTok: x.ToTok, Orig: x}
		who := e.w.Accts[e.r.Intn(len(e.w.Accts))]
		return e.submitOp(y, who, "duplicate-respelled")
	}
	who := e.w.Accts[e.r.Intn(len(e.w.Accts))]
	if in, ok := e.inst[x.Name()]; ok && e.r.Bool() {
		for _, a := range e.w.Accts {
			if bytes.Equal(a.Addr, in.Submitter) {
				who = a
			}
		}
	}
	return e.submitOp(x, who, "duplicate")
}

func (e *ethRun) genSend(v *ethView) *ethOp {
	cur := e.r.Intn(2)
	from := e.w.Accts[e.r.Intn(len(e.w.Accts))]
	for _, a := range e.w.Accts {
		if v.bal(a.Addr, cur).Sign() > 0 && e.r.Intn(3) != 0 {
			from = a
		}
	}
	to := e.w.Accts[e.r.Intn(len(e.w.Accts))]
	b := v.bal(from.Addr, cur)
	amt := big.NewInt(int64(1 + e.r.Intn(int(b.Int64())+1)))
	switch e.r.Intn(8) {
	case 0:
		amt = new(big.Int).Add(b, big.NewInt(1))
	case 1:
		amt = new(big.Int).Set(b)
	}
	op := &ethOp{Kind: "send", Signer: from, From: from.Addr, To: to.Addr, Cur: cur, Amount: amt, Note: "wrapped"}
	msg := &transfer.Send{From: from.Addr, To: to.Addr, Amount: action.Amount{Currency: ethCurNames[cur], Value: *balance.NewAmountFromBigInt(amt)}}
	op.Bytes = Sign(RawOf(msg, DefaultFee(), e.nextMemo()), from)
	return op
}

func (e *ethRun) genReport(v *ethView, ongoing []string) *ethOp {
	op := &ethOp{Kind: "report"}
	var t *ethereum.Tracker
	if len(ongoing) > 0 {
		// prefer the tracker closest to a decision so that thresholds are crossed
		op.Name = ongoing[e.r.Intn(len(ongoing))]
		for _, n := range ongoing {
			if e.r.Intn(3) == 0 {
				continue
			}
			tt := v.Store[0][n]
			y, no := yesNo(tt)
			if tt.State < 5 && (t == nil || y+no > 0) {
				t, op.Name = tt, n
			}
		}
		t = v.Store[0][op.Name]
		op.NameB = t.TrackerName
	} else {
		x := e.exts[e.r.Intn(len(e.exts))]
		op.Name, op.NameB = x.Name(), x.NameB
		if e.r.Intn(4) == 0 {
			op.NameB = common.BytesToHash([]byte(fmt.Sprintf("nosuch-%d", e.r.Intn(1000))))
			op.Name = new(big.Int).SetBytes(op.NameB[:]).String()
		}
	}
	in := e.inst[op.Name]
	// who reports
	var voter *Val
	nW := len(e.wits)
	pickUnvoted := func() *Val {
		var cand []*Val
		for _, w := range e.wits {
			if in == nil || !in.Voted[string(w.Key.Addr)] {
				cand = append(cand, w)
			}
		}
		if len(cand) == 0 {
			return nil
		}
		return cand[e.r.Intn(len(cand))]
	}
	y := e.r.Intn(100)
	switch {
	case y < 66:
		voter = pickUnvoted()
		op.Note = "witness"
	case y < 76 && nW > 0:
		voter = e.wits[e.r.Intn(nW)]
		op.Note = "witness-any"
	case y < 88 && len(e.nonWit) > 0:
		voter = e.nonWit[e.r.Intn(len(e.nonWit))]
		op.Note = "non-witness-validator"
	}
	var signer *Acct
	if voter != nil {
		signer = voter.Key
		op.Idx = int64(e.witnessIndex(voter.Key.Addr))
		if op.Idx < 0 {
			op.Idx = int64(e.r.Intn(nW + 1)) // a non-witness claims somebody's slot
		}
	} else {
		signer = e.w.Accts[e.r.Intn(len(e.w.Accts))]
		op.Idx = int64(e.r.Intn(nW + 1))
		op.Note = "account"
	}
	// wrong index now and then (never negative: that panics, C18)
	switch e.r.Intn(14) {
	case 0:
		op.Idx = int64(e.r.Intn(nW + 1))
		op.Note += "+other-index"
	case 1:
		op.Idx = int64(nW + e.r.Intn(3))
		op.Note += "+index-out-of-range"
	}
	op.Voter = signer.Addr
	op.Signer = signer
	lean := true
	if in != nil {
		lean = in.Lean
	}
	op.OK = lean
	if e.r.Intn(6) == 0 {
		op.OK = !lean
	}
	// the beneficiary named by the report: the submitter, or a lie
	op.Locker = e.w.Accts[0].Addr
	if in != nil {
		op.Locker = in.Submitter
	} else if t != nil {
		op.Locker = t.ProcessOwner
	}
	if e.r.Intn(7) == 0 {
		op.Locker = e.w.Accts[e.r.Intn(len(e.w.Accts))].Addr
		if e.r.Intn(6) == 0 {
			op.Locker = e.supply
		}
		if in != nil && !bytes.Equal(op.Locker, in.Submitter) {
			op.Note += "+lying-locker"
		}
	}
	msg := &aeth.ReportFinality{TrackerName: op.NameB, Locker: op.Locker, ValidatorAddress: op.Voter, VoteIndex: op.Idx, Success: op.OK}
	op.Bytes = Sign(RawOf(msg, DefaultFee(), e.nextMemo()), signer)
	return op
}

func ethReason(kind, log string) string {
	has := func(s string) bool { return strings.Contains(log, s) }
	switch {
	case has("unable to burn tokens"):
		return "burn-failed"
	case has("unable to mint tokens"):
		return "mint-failed"
	case has("To field of Transaction does not match"):
		return "receiver"
	case has("invalid external tx"):
		return "parse"
	case has("decode eth txn"):
		return "decode"
	case has("Bytes data does not match"):
		return "calldata"
	case has("Contract address does not match"):
		return "contract"
	case has("exceeded limit"):
		return "cap"
	case has("Token not supported"), has("Token Not Supported"), has("oken not supported"):
		return "token"
	case has("lready exists"), has("lready Exists"):
		return "exists"
	case has("err getting tracker"):
		return "no-tracker"
	case has("failed to add vote"):
		return "bad-vote"
	case has("error debiting balance"), has("Not Enough Fund"), has("ot enough fund"), has("inus"), has("nsufficient"):
		return "insufficient"
	}
	return "other:" + kind
}

// opLine renders the stateless correspondence line of an operation against a pre-state view.
func (e *ethRun) opLine(op *ethOp, v *ethView) (string, []balKey) {
	only := map[string]bool{op.Name: true}
	stores := func() string {
		return fmt.Sprintf("ON=%s PA=%s FA=%s", storeText(v.Store[0], only), storeText(v.Store[1], only), storeText(v.Store[2], only))
	}
	var ks []balKey
	var head string
	switch op.Kind {
	case "lock", "lockerc", "redeem", "redeemerc":
		erc, cur := 0, 0
		if op.Kind == "lockerc" || op.Kind == "redeemerc" {
			erc, cur = 1, 1
		}
		ks = []balKey{{op.Signer.Addr, cur}, {e.supply, cur}}
		if op.Ext.Kind == 2 || op.Ext.Kind == 4 {
			tt := 0
			if op.Ext.ToTok {
				tt = 1
			}
			head = fmt.Sprintf("redeem %d %d %d %s %s %s", erc, op.Ext.Pre, tt, addrNum(op.Signer.Addr), op.Name, op.Ext.Amount)
		} else {
			head = fmt.Sprintf("lock %d %d %s %s %s", erc, op.Ext.Pre, addrNum(op.Signer.Addr), op.Name, op.Ext.Amount)
		}
	case "report":
		ok := 0
		if op.OK {
			ok = 1
		}
		cur := 0
		var owner []byte
		if t := v.Store[0][op.Name]; t != nil {
			if t.Type >= 3 {
				cur = 1
			}
			owner = t.ProcessOwner
		}
		ks = []balKey{{op.Locker, cur}, {e.supply, cur}}
		if owner != nil {
			ks = append(ks, balKey{owner, cur})
		}
		head = fmt.Sprintf("report %s %s %s %d %d", op.Name, addrNum(op.Locker), addrNum(op.Voter), op.Idx, ok)
	case "send":
		ks = []balKey{{op.From, op.Cur}, {op.To, op.Cur}}
		head = fmt.Sprintf("send %s %s %d %s", addrNum(op.From), addrNum(op.To), op.Cur, op.Amount)
		return fmt.Sprintf("%s %s ON=- PA=- FA=- B=%s", head, e.cfgText(), v.balText(ks)), ks
	}
	return fmt.Sprintf("%s %s %s B=%s", head, e.cfgText(), stores(), v.balText(ks)), ks
}

func (e *ethRun) implLine(op *ethOp, code uint32, log string, v *ethView, ks []balKey) string {
	only := map[string]bool{op.Name: true}
	st := fmt.Sprintf("ON=%s PA=%s FA=%s", storeText(v.Store[0], only), storeText(v.Store[1], only), storeText(v.Store[2], only))
	if op.Kind == "send" {
		st = "ON=- PA=- FA=-"
	}
	tag := "-"
	if code != 0 {
		tag = ethReason(op.Kind, log)
	}
	return fmt.Sprintf("res %d %s %s B=%s", code, tag, st, v.balText(ks))
}

// normModel makes the model's answer comparable: success tags are the model's own branch names
// (the implementation does not expose them) and the two "insufficient" reasons print alike.
func normModel(l string) (cmp, tag string) {
	f := strings.SplitN(l, " ", 4)
	if len(f) < 4 || f[0] != "res" {
		return l, "?"
	}
	tag = f[2]
	t := tag
	if f[1] == "0" {
		t = "-"
	} else if tag == "insufficient-supply" {
		t = "insufficient"
	}
	return f[0] + " " + f[1] + " " + t + " " + f[3], tag
}

// ---------------------------------------------------------------- monitor

func trackerSame(a, b *ethereum.Tracker) string {
	switch {
	case a.Type != b.Type:
		return "type"
	case !bytes.Equal(a.ProcessOwner, b.ProcessOwner):
		return "owner"
	case !bytes.Equal(a.SignedETHTx, b.SignedETHTx):
		return "external-tx"
	case len(a.Witnesses) != len(b.Witnesses) || len(a.FinalityVotes) != len(b.FinalityVotes):
		return "witness-list"
	}
	for i := range a.Witnesses {
		if !bytes.Equal(a.Witnesses[i], b.Witnesses[i]) {
			return "witness-list"
		}
	}
	return ""
}

func (e *ethRun) thresholdOf(t *ethereum.Tracker) int { return len(t.Witnesses)*2/3 + 1 }

// balDelta lists the wrapped balances that differ between two views.
func balDelta(pre, post *ethView) map[string]*big.Int {
	d := map[string]*big.Int{}
	for k, v := range post.Bal {
		o := pre.Bal[k]
		if o == nil {
			o = new(big.Int)
		}
		if v.Cmp(o) != 0 {
			d[k] = new(big.Int).Sub(v, o)
		}
	}
	for k, o := range pre.Bal {
		if _, ok := post.Bal[k]; !ok && o.Sign() != 0 {
			d[k] = new(big.Int).Neg(o)
		}
	}
	return d
}

func deltaText(d map[string]*big.Int) string {
	var ks []string
	for k := range d {
		ks = append(ks, k)
	}
	sort.Strings(ks)
	var out []string
	for _, k := range ks {
		out = append(out, k+":"+d[k].String())
	}
	return strings.Join(out, " ")
}

// expectDelta compares an observed balance delta with the only one the property allows.
func sameDelta(d map[string]*big.Int, want map[string]*big.Int) bool {
	n := 0
	for k, v := range want {
		if v.Sign() == 0 {
			continue
		}
		n++
		if d[k] == nil || d[k].Cmp(v) != 0 {
			return false
		}
	}
	return n == len(d)
}

func addDelta(m map[string]*big.Int, addr []byte, cur int, x *big.Int) {
	k := addrNum(addr) + "|" + fmt.Sprint(cur)
	if m[k] == nil {
		m[k] = new(big.Int)
	}
	m[k].Add(m[k], x)
}

// invariants that must hold in every observed state
func (e *ethRun) monitorState(v *ethView, where string) {
	// one tracker per external transaction: a name lives in at most one store
	two := func(n, which string) {
		if e.taint[n] {
			e.res.Counters["erc20_resubmission_name_in_two_stores"]++
			e.hit("erc20-lock-resubmission-accepted", fmt.Sprintf("%s: consequence: tracker %s is in %s", where, n, which))
		} else {
			e.hit("name-in-two-stores", fmt.Sprintf("%s: tracker %s is in %s", where, n, which))
		}
	}
	for n := range v.Store[0] {
		if v.Store[1][n] != nil {
			two(n, "the ongoing and the passed store")
		}
		if v.Store[2][n] != nil {
			two(n, "the ongoing and the failed store")
		}
	}
	for n := range v.Store[1] {
		if v.Store[2][n] != nil {
			two(n, "the passed and the failed store")
		}
	}
	// supply counter = wrapped tokens in circulation
	for cur := range ethCurNames {
		circ := new(big.Int)
		sk := addrNum(e.supply) + "|" + fmt.Sprint(cur)
		for k, b := range v.Bal {
			if k != sk && strings.HasSuffix(k, "|"+fmt.Sprint(cur)) {
				circ.Add(circ, b)
			}
			if b.Sign() < 0 {
				e.hit("negative-wrapped-balance", fmt.Sprintf("%s: %s = %s", where, k, b))
			}
		}
		if circ.Cmp(v.bal(e.supply, cur)) != 0 {
			if e.supLie {
				e.res.Counters["S21_supply_counter_double_counted"]++
				e.hit("mint-credits-reports-locker-not-submitter", fmt.Sprintf("%s: consequence: the report named the supply address; currency %s counter %s, in circulation %s", where, ethCurNames[cur], v.bal(e.supply, cur), circ))
			} else {
				e.hit("supply-counter-ne-circulation", fmt.Sprintf("%s: currency %s counter %s, in circulation %s", where, ethCurNames[cur], v.bal(e.supply, cur), circ))
			}
		}
	}
}

// monitorTx evaluates the property's predicates on one executed transaction.
func (e *ethRun) monitorTx(op *ethOp, code uint32, pre, post *ethView) {
	d := balDelta(pre, post)
	where := fmt.Sprintf("%s(%s) name=%s code=%d", op.Kind, op.Note, op.Name, code)
	// trackers of other names never change in a transaction
	for i := 0; i < 3; i++ {
		for n, t := range pre.Store[i] {
			if n == op.Name {
				continue
			}
			if u := post.Store[i][n]; u == nil || trackerText(u) != trackerText(t) {
				e.hit("unrelated-tracker-changed", fmt.Sprintf("%s: store %d tracker %s", where, i, n))
			}
		}
		for n := range post.Store[i] {
			if n != op.Name && pre.Store[i][n] == nil {
				e.hit("unrelated-tracker-changed", fmt.Sprintf("%s: store %d tracker %s appeared", where, i, n))
			}
		}
	}
	if code != 0 {
		same := len(d) == 0
		for i := 0; i < 3 && same; i++ {
			same = storeText(pre.Store[i], nil) == storeText(post.Store[i], nil)
		}
		if !same {
			e.hit("failed-tx-changed-eth-state", where+" delta "+deltaText(d))
		}
		return
	}
	tPre, tPost := pre.Store[0][op.Name], post.Store[0][op.Name]
	want := map[string]*big.Int{}
	switch op.Kind {
	case "send":
		addDelta(want, op.From, op.Cur, new(big.Int).Neg(op.Amount))
		addDelta(want, op.To, op.Cur, op.Amount)
		if !sameDelta(d, want) {
			e.hit("unexplained-wrapped-balance-change", where+" delta "+deltaText(d))
		}
	case "lock", "lockerc", "redeem", "redeemerc":
		// an accepted submission: the external transaction must not already back a tracker
		dup := func(sig, detail string) {
			if op.Kind == "lockerc" {
				e.taint[op.Name] = true
				e.res.Counters["erc20_resubmission_"+sig]++
				e.hit("erc20-lock-resubmission-accepted", where+": "+detail)
			} else {
				e.hit("duplicate-submission-accepted-"+sig, where+": "+detail)
			}
		}
		if o := op.Ext.Orig; o != nil {
			for i, st := range []string{"ongoing", "passed", "failed"} {
				if pre.Store[i][o.Name()] != nil || post.Store[i][o.Name()] != nil {
					e.hit("same-external-transaction-backs-second-tracker", fmt.Sprintf("%s: a payload that is the RLP of an already submitted external transaction followed by %d more bytes was accepted under another tracker name while the %s store holds the first", where, len(op.Ext.Raw)-len(o.Raw), st))
				}
			}
			e.res.Counters["respelled_payload_accepted"]++
		}
		if tPre != nil {
			dup("while-ongoing", fmt.Sprintf("an ongoing tracker (type %d, owner %s, votes %v, state %d) was replaced", tPre.Type, addrNum(tPre.ProcessOwner), tPre.FinalityVotes, tPre.State))
		}
		if pre.Store[1][op.Name] != nil {
			dup("after-success", "the passed store already holds this external transaction")
		}
		if pre.Store[2][op.Name] != nil && op.Ext.Kind != 1 && op.Ext.Kind != 3 {
			e.hit("duplicate-submission-accepted-after-failure", fmt.Sprintf("%s: the failed store already holds this external transaction", where))
		}
		if tPost == nil {
			e.hit("tracker-created-malformed", where+": accepted but no ongoing tracker")
			return
		}
		bad := ""
		switch {
		case int(tPost.Type) != op.Ext.Kind:
			bad = "type"
		case tPost.State != ethereum.New:
			bad = "state"
		case !bytes.Equal(tPost.ProcessOwner, op.Signer.Addr):
			bad = "owner is not the submitter"
		case !bytes.Equal(tPost.SignedETHTx, op.Ext.Raw):
			bad = "external transaction"
		case len(tPost.Witnesses) != len(e.wits) || len(tPost.FinalityVotes) != len(e.wits):
			bad = "witness list length"
		case op.Ext.Pre != 0:
			bad = "malformed payload accepted"
		}
		for i := range tPost.Witnesses {
			if bad == "" && (!bytes.Equal(tPost.Witnesses[i], e.wits[i].Key.Addr) || tPost.FinalityVotes[i] != 0) {
				bad = "witness list / votes"
			}
		}
		if bad != "" {
			e.hit("tracker-created-malformed", where+": "+bad)
		}
		cur := 0
		if op.Ext.Kind >= 3 {
			cur = 1
		}
		if op.Ext.Kind == 2 || op.Ext.Kind == 4 {
			// the tokens are debited in the transaction that creates the tracker
			addDelta(want, op.Signer.Addr, cur, new(big.Int).Neg(op.Ext.Amount))
			addDelta(want, e.supply, cur, new(big.Int).Neg(op.Ext.Amount))
			if !sameDelta(d, want) {
				e.hit("redeem-tracker-without-exact-debit", where+" delta "+deltaText(d))
			}
		} else if len(d) != 0 {
			e.hit("unexplained-wrapped-balance-change", where+" delta "+deltaText(d))
		}
		e.inst[op.Name] = &ethInst{Ext: op.Ext, Submitter: op.Signer.Addr, Lean: e.r.Intn(10) < 7, Voted: map[string]bool{}}
	case "report":
		if tPre == nil {
			if tPost != nil || len(d) != 0 {
				e.hit("report-without-tracker-had-effect", where)
			}
			return
		}
		if tPost == nil {
			e.hit("tracker-vanished-in-report", where)
			return
		}
		if s := trackerSame(tPre, tPost); s != "" {
			e.hit("tracker-identity-changed", where+": "+s)
			return
		}
		// vote slots: only the slot of the reporting witness, at its own index, once
		for i := range tPre.FinalityVotes {
			a, b := tPre.FinalityVotes[i], tPost.FinalityVotes[i]
			if a == b {
				continue
			}
			wantV := ethereum.Vote(2)
			if op.OK {
				wantV = 1
			}
			switch {
			case !bytes.Equal(tPre.Witnesses[i], op.Voter):
				e.hit("vote-slot-filled-by-other-address", fmt.Sprintf("%s: slot %d of witness %s changed %d->%d by %s", where, i, addrNum(tPre.Witnesses[i]), a, b, addrNum(op.Voter)))
			case int64(i) != op.Idx:
				e.hit("vote-counted-at-wrong-index", fmt.Sprintf("%s: slot %d changed by a report with VoteIndex %d", where, i, op.Idx))
			case a != 0:
				e.hit("second-vote-counted", fmt.Sprintf("%s: slot %d changed %d->%d", where, i, a, b))
			case b != wantV:
				e.hit("vote-recorded-with-wrong-value", fmt.Sprintf("%s: slot %d = %d", where, i, b))
			}
		}
		if in := e.inst[op.Name]; in != nil && fmt.Sprint(tPre.FinalityVotes) != fmt.Sprint(tPost.FinalityVotes) {
			in.Voted[string(op.Voter)] = true
		}
		yp, np := yesNo(tPre)
		yq, nq := yesNo(tPost)
		if yq < yp || nq < np {
			e.hit("vote-count-decreased", fmt.Sprintf("%s: yes %d->%d no %d->%d", where, yp, yq, np, nq))
		}
		thr := e.thresholdOf(tPre)
		cur := 0
		if tPre.Type >= 3 {
			cur = 1
		}
		in := e.inst[op.Name]
		crossYes := yp < thr && yq >= thr
		crossNo := np < thr && nq >= thr && !crossYes
		if crossYes || crossNo {
			e.crossed++
		}
		if len(d) == 0 {
			return
		}
		// a wrapped balance moved in a report: it must be the one mint / refund the property allows
		credited := ""
		for k, x := range d {
			if k != addrNum(e.supply)+"|"+fmt.Sprint(cur) && x.Sign() > 0 {
				credited = k
			}
		}
		isLock := tPre.Type == ethereum.ProcessTypeLock || tPre.Type == ethereum.ProcessTypeLockERC
		switch {
		case isLock:
			if !crossYes {
				e.hit("mint-without-two-thirds-yes", fmt.Sprintf("%s: yes %d->%d of %d witnesses (needs %d) delta %s", where, yp, yq, len(tPre.Witnesses), thr, deltaText(d)))
				return
			}
			e.mints[op.Name]++
			if e.mints[op.Name] > 1 {
				if e.taint[op.Name] {
					e.res.Counters["erc20_resubmission_minted_again"]++
					e.hit("erc20-lock-resubmission-accepted", fmt.Sprintf("%s: consequence: mint number %d for the same external transaction, delta %s", where, e.mints[op.Name], deltaText(d)))
				} else {
					e.hit("minted-twice-for-one-external-tx", fmt.Sprintf("%s: mint number %d delta %s", where, e.mints[op.Name], deltaText(d)))
				}
			}
			if in == nil {
				e.hit("mint-for-unknown-instance", where)
				return
			}
			addDelta(want, in.Submitter, cur, in.Ext.Amount)
			addDelta(want, e.supply, cur, in.Ext.Amount)
			if !sameDelta(d, want) {
				twice := map[string]*big.Int{}
				addDelta(twice, e.supply, cur, in.Ext.Amount)
				addDelta(twice, e.supply, cur, in.Ext.Amount)
				if bytes.Equal(op.Locker, e.supply) && sameDelta(d, twice) {
					e.supLie = true
					e.hit("mint-credits-reports-locker-not-submitter", fmt.Sprintf("%s: submitter %s, the crossing report named the supply address, delta %s", where, addrNum(in.Submitter), deltaText(d)))
				} else if credited != "" && credited != addrNum(in.Submitter)+"|"+fmt.Sprint(cur) {
					if credited == addrNum(op.Locker)+"|"+fmt.Sprint(cur) {
						e.hit("mint-credits-reports-locker-not-submitter", fmt.Sprintf("%s: submitter %s, the crossing report named %s, delta %s", where, addrNum(in.Submitter), addrNum(op.Locker), deltaText(d)))
					} else {
						e.hit("mint-beneficiary-wrong", fmt.Sprintf("%s: submitter %s, report named %s, delta %s", where, addrNum(in.Submitter), addrNum(op.Locker), deltaText(d)))
					}
				} else {
					e.hit("mint-amount-not-locked-amount", fmt.Sprintf("%s: locked %s delta %s", where, in.Ext.Amount, deltaText(d)))
				}
			}
		case tPre.Type == ethereum.ProcessTypeRedeem || tPre.Type == ethereum.ProcessTypeRedeemERC:
			if !crossNo {
				e.hit("refund-without-two-thirds-no", fmt.Sprintf("%s: no %d->%d of %d witnesses (needs %d) delta %s", where, np, nq, len(tPre.Witnesses), thr, deltaText(d)))
				return
			}
			e.refunds[op.Name]++
			if e.refunds[op.Name] > 1 {
				e.hit("refunded-twice-for-one-external-tx", fmt.Sprintf("%s: refund number %d", where, e.refunds[op.Name]))
			}
			if in == nil {
				e.hit("refund-for-unknown-instance", where)
				return
			}
			addDelta(want, in.Submitter, cur, in.Ext.Amount)
			addDelta(want, e.supply, cur, in.Ext.Amount)
			if !sameDelta(d, want) {
				e.hit("refund-not-exact-to-owner", fmt.Sprintf("%s: owner %s amount %s delta %s", where, addrNum(in.Submitter), in.Ext.Amount, deltaText(d)))
			}
		}
	}
}

// monitorEnd checks the block-end transitions: every visited (committed) Released tracker is moved
// to the passed store and every visited Failed one to the failed store, nothing else moves, no
// value moves.
func (e *ethRun) monitorEnd(pre, post *ethView, iterated map[string]bool) {
	if d := balDelta(pre, post); len(d) != 0 {
		e.hit("wrapped-balance-changed-at-block-end", deltaText(d))
	}
	for n, t := range pre.Store[0] {
		u := post.Store[0][n]
		moved := -1
		if iterated[n] && t.State == ethereum.Released {
			moved = 1
		}
		if iterated[n] && t.State == ethereum.Failed {
			moved = 2
		}
		if moved < 0 {
			if u == nil {
				e.hit("tracker-vanished-at-block-end", fmt.Sprintf("tracker %s state %d", n, t.State))
			} else if s := trackerSame(t, u); s != "" || fmt.Sprint(t.FinalityVotes) != fmt.Sprint(u.FinalityVotes) {
				e.hit("tracker-changed-at-block-end", fmt.Sprintf("tracker %s: %s", n, s))
			} else if u.State >= ethereum.Released && u.State != t.State {
				e.hit("tracker-decided-at-block-end", fmt.Sprintf("tracker %s state %d->%d", n, t.State, u.State))
			}
			continue
		}
		if u != nil || post.Store[moved][n] == nil {
			e.hit("decided-tracker-not-moved", fmt.Sprintf("tracker %s state %d: ongoing=%v target=%v", n, t.State, u != nil, post.Store[moved][n] != nil))
		}
	}
	for i := 1; i < 3; i++ {
		for n := range post.Store[i] {
			if pre.Store[i][n] == nil {
				t := pre.Store[0][n]
				want := ethereum.Released
				if i == 2 {
					want = ethereum.Failed
				}
				if t == nil || t.State != want {
					e.hit("undecided-tracker-archived", fmt.Sprintf("store %d tracker %s", i, n))
				}
			}
		}
		for n := range pre.Store[i] {
			if post.Store[i][n] == nil {
				e.hit("archived-tracker-vanished", fmt.Sprintf("store %d tracker %s", i, n))
			}
		}
	}
}

// ---------------------------------------------------------------- one history

type EthOptions struct {
	Driver     string
	Seed       uint64
	Histories  int
	Blocks     int
	MaxTxs     int
	MaxWit     int // witnesses are drawn from 1..MaxWit (and 0 now and then)
	Exhaustive int // component part: all vote sequences up to this length
	ExhWit     int // … for every witness count up to this
	Only       int // -1000: everything; otherwise run only this case (>= 0 generated, < 0 scripted scenario)
}

func (e *ethRun) deliver(op *ethOp) (code uint32, err error) {
	pre, err := e.view()
	if err != nil {
		return 1, err
	}
	line, ks := e.opLine(op, pre)
	tr := e.A.DeliverTx(op.Bytes)
	if e.A.Crashed {
		e.hit("app-closed-by-panic", fmt.Sprintf("%s(%s) name=%s", op.Kind, op.Note, op.Name))
		e.stop = true
		return 1, nil
	}
	post, err := e.view()
	if err != nil {
		return 1, err
	}
	e.hl.Add("  tx %s (%s) code=%d %s", op.Kind, op.Note, tr.Code, line)
	e.ops = append(e.ops, line)
	e.impl = append(e.impl, e.implLine(op, tr.Code, tr.Log, post, ks))
	if tr.Code == 0 {
		e.okTx++
	}
	e.monitorTx(op, tr.Code, pre, post)
	e.monitorState(post, fmt.Sprintf("after %s(%s)", op.Kind, op.Note))
	return tr.Code, nil
}

// ethScenario is a scripted history.  Cases -2, -3, -4 were the witnesses of the two defects this
// slice found (KF-C15-1 mint credited the report's Locker, KF-C15-2 runERC20Lock without existence
// check); both are repaired in /repo (0a509b2, 9de5f06) and the scenarios are now REGRESSION
// scenarios: they must end in the stated harmless outcome with no monitor hit (OLP/Props/C15.lean:
// lying_report_is_harmless, lying_report_cannot_touch_the_supply, erc20_lock_resubmission_is_refused).
// Case -5 was the witness of a third, smaller gap (runERC20Reddem ignored the failed store, repaired
// by efdfa81) and is a regression scenario too (erc20_redeem_after_failed_redeem_is_refused).
// A Manual scenario would run only when selected with -only (none at present).
type ethScenario struct {
	Name   string
	Blocks [][]func(e *ethRun, v *ethView) *ethOp
	Expect func(e *ethRun, v *ethView) string // "" = the expected outcome was observed
	Manual bool
}

// buildDualRedeem: one Ethereum transaction whose call data holds a LockRedeem redeem(uint256) call
// followed by a LockRedeemERC redeem(uint256,address) call; the repo's two redeem parsers (which
// search the raw bytes for their selector and do not decode the transaction) both accept it.
func buildDualRedeem(seed uint64, nonce uint64, amount *big.Int) (*extTx, *extTx) {
	ethLoadABIs()
	d1, err := ethABIs.lr.Pack("redeem", amount)
	if err != nil {
		panic(err)
	}
	d2, err := ethABIs.lrerc.Pack("redeem", amount, ethTokenAddr)
	if err != nil {
		panic(err)
	}
	tx := types.NewTransaction(nonce, ethContractAddr, big.NewInt(10), 100000, big.NewInt(18000000000), append(d1, d2...))
	signed, err := types.SignTx(tx, types.NewEIP155Signer(big.NewInt(1)), ethUserKey(seed, int(nonce%3)))
	if err != nil {
		panic(err)
	}
	raw, err := rlp.EncodeToBytes(signed)
	if err != nil {
		panic(err)
	}
	a := &extTx{Kind: 2, Raw: raw, Amount: new(big.Int).Set(amount), NameB: common.BytesToHash(raw)}
	b := &extTx{Kind: 4, Raw: raw, Amount: new(big.Int).Set(amount), NameB: common.BytesToHash(raw)}
	return a, b
}

func scDualRedeem(acct int, amount int64) func(e *ethRun, v *ethView) *ethOp {
	return func(e *ethRun, v *ethView) *ethOp {
		e.nonce++
		a, b := buildDualRedeem(e.w.P.Seed, e.nonce, big.NewInt(amount))
		e.exts = append(e.exts, a, b)
		return e.submitOp(a, e.w.Accts[acct], "scripted")
	}
}

func scSubmit(kind int, acct int, amount int64) func(e *ethRun, v *ethView) *ethOp {
	return func(e *ethRun, v *ethView) *ethOp {
		e.nonce++
		x := buildExt(e.w.P.Seed, e.nonce, kind, 0, big.NewInt(amount), false)
		e.exts = append(e.exts, x)
		return e.submitOp(x, e.w.Accts[acct], "scripted")
	}
}

func scResubmit(ext int, acct int) func(e *ethRun, v *ethView) *ethOp {
	return func(e *ethRun, v *ethView) *ethOp { return e.submitOp(e.exts[ext], e.w.Accts[acct], "scripted-duplicate") }
}

// scReport: witness `wit` reports on external transaction `ext`, naming account `locker`
// (-1 = the supply address) as the beneficiary.
func scReport(ext, wit int, ok bool, locker int) func(e *ethRun, v *ethView) *ethOp {
	return func(e *ethRun, v *ethView) *ethOp {
		x := e.exts[ext]
		w := e.wits[wit]
		op := &ethOp{Kind: "report", Note: "scripted", Name: x.Name(), NameB: x.NameB, Voter: w.Key.Addr, Signer: w.Key, Idx: int64(wit), OK: ok}
		if locker < 0 {
			op.Locker = e.supply
		} else {
			op.Locker = e.w.Accts[locker].Addr
		}
		msg := &aeth.ReportFinality{TrackerName: op.NameB, Locker: op.Locker, ValidatorAddress: op.Voter, VoteIndex: op.Idx, Success: op.OK}
		op.Bytes = Sign(RawOf(msg, DefaultFee(), e.nextMemo()), w.Key)
		return op
	}
}

type scOp = func(e *ethRun, v *ethView) *ethOp

func ethScenarios() []*ethScenario {
	yes3 := func(ext, lastLocker int) []scOp {
		return []scOp{scReport(ext, 0, true, 0), scReport(ext, 1, true, 0), scReport(ext, 2, true, lastLocker)}
	}
	no3 := func(ext int) []scOp {
		return []scOp{scReport(ext, 0, false, 0), scReport(ext, 1, false, 0), scReport(ext, 2, false, 0)}
	}
	// expected final wrapped balances: account 0, account 1, supply counter
	want := func(cur int, a0, a1, sup int64) func(e *ethRun, v *ethView) string {
		return func(e *ethRun, v *ethView) string {
			g0, g1, gs := v.bal(e.w.Accts[0].Addr, cur), v.bal(e.w.Accts[1].Addr, cur), v.bal(e.supply, cur)
			if g0.Cmp(big.NewInt(a0)) != 0 || g1.Cmp(big.NewInt(a1)) != 0 || gs.Cmp(big.NewInt(sup)) != 0 {
				return fmt.Sprintf("currency %s: account0 %s (want %d), account1 %s (want %d), supply counter %s (want %d)", ethCurNames[cur], g0, a0, g1, a1, gs, sup)
			}
			return ""
		}
	}
	return []*ethScenario{
		{Name: "honest-lock-redeem-refund", Blocks: [][]scOp{{scSubmit(1, 0, 40)}, yes3(0, 0), {scSubmit(2, 0, 25)}, no3(1), {}, {}},
			Expect: want(0, 40, 0, 40)},
		{Name: "regression-0a509b2-crossing-report-names-another-account", Blocks: [][]scOp{{scSubmit(1, 0, 40)}, yes3(0, 1), {}},
			Expect: want(0, 40, 0, 40)},
		{Name: "regression-0a509b2-crossing-report-names-the-supply-address", Blocks: [][]scOp{{scSubmit(1, 0, 40)}, yes3(0, -1), {}},
			Expect: want(0, 40, 0, 40)},
		{Name: "regression-9de5f06-erc20-lock-resubmitted-after-completion", Blocks: [][]scOp{{scSubmit(3, 0, 30)}, yes3(0, 0), {scResubmit(0, 0)}, yes3(0, 0), {}},
			Expect: func(e *ethRun, v *ethView) string {
				if s := want(1, 30, 0, 30)(e, v); s != "" {
					return s
				}
				if v.Store[0][e.exts[0].Name()] != nil || v.Store[1][e.exts[0].Name()] == nil {
					return "the resubmitted ERC20 lock has an ongoing tracker / no passed record"
				}
				return ""
			}},
		{Name: "regression-efdfa81-erc20-redeem-after-failed-eth-redeem-same-payload", Blocks: [][]scOp{
			{scSubmit(1, 0, 40), scSubmit(3, 0, 30)}, append(yes3(0, 0), yes3(1, 0)...), {scDualRedeem(0, 5)}, no3(2), {}, {scResubmit(3, 0)}, {}},
			Expect: func(e *ethRun, v *ethView) string {
				if s := want(0, 40, 0, 40)(e, v); s != "" {
					return s // the ETH redeem of 5 was refunded
				}
				if s := want(1, 30, 0, 30)(e, v); s != "" {
					return s // no token was debited by the refused ERC20 redeem
				}
				n := e.exts[2].Name()
				if v.Store[0][n] != nil || v.Store[1][n] != nil || v.Store[2][n] == nil {
					return "the payload of the failed ETH redeem is not in the failed store only"
				}
				return ""
			}},
	}
}

func runEthHistory(opt EthOptions, c int, r *rng.R, res *Result, scn *ethScenario) (lines []string, nontriv bool, err error) {
	p := SmallParams(opt.Seed*1000 + uint64(c))
	nW := 1 + r.Intn(opt.MaxWit)
	if r.Intn(25) == 0 {
		nW = 0
	}
	if scn != nil {
		nW = 3
	}
	p.NVals = nW + r.Intn(3)
	if p.NVals < 1 {
		p.NVals = 1
	}
	p.NCandidates = 1
	p.TopValidators = int64(p.NVals)
	p.Witnesses = nW
	ethCap, tokCap := int64(600+r.Intn(600)), int64(300+r.Intn(600))
	if scn != nil {
		ethCap, tokCap = 1000, 1000
	}
	p.ETH = EthOption(ethCap, tokCap)
	w := NewWorld(p)
	A, err := NewReplica(w, Identity{Name: "A", Val: w.Vals[0]})
	if err != nil {
		return nil, false, err
	}
	defer A.Close()
	A.InitChain()
	A.IsWitness = nW > 0 && r.Bool()
	e := &ethRun{c: c, w: w, A: A, r: r, res: res, hl: &HistoryLog{}, supply: keys.Address(ethSupplyAddr), ethCap: ethCap, tokCap: tokCap,
		inst: map[string]*ethInst{}, mints: map[string]int{}, refunds: map[string]int{}, taint: map[string]bool{}}
	for i, v := range w.Vals {
		if !v.Genesis {
			continue
		}
		if i < nW {
			e.wits = append(e.wits, v)
		} else {
			e.nonWit = append(e.nonWit, v)
		}
	}
	sort.Slice(e.wits, func(i, j int) bool { return bytes.Compare(e.wits[i].Key.Addr, e.wits[j].Key.Addr) < 0 })
	e.hl.Add("genesis seed=%d case=%d vals=%d witnesses=%d nodeIsWitness=%v ethCap=%d tokCap=%d (rerun: olh ethtrk -seed %d -only %d -histories %d -blocks %d -maxtxs %d -maxwit %d)",
		p.Seed, c, p.NVals, nW, A.IsWitness, ethCap, tokCap, opt.Seed, c, opt.Histories, opt.Blocks, opt.MaxTxs, opt.MaxWit)
	nBlocks := opt.Blocks
	if scn != nil {
		e.hl.Add("scripted scenario %s", scn.Name)
		nBlocks = len(scn.Blocks)
	}
	e.ops = append(e.ops, fmt.Sprintf("# case %d", c))
	e.impl = append(e.impl, fmt.Sprintf("# case %d", c))
	sim := NewSim(w)
	for bi := 0; bi < nBlocks && !e.stop; bi++ {
		e.commit = A.DumpMap()
		if scn == nil && nW > 0 && r.Intn(6) == 0 {
			// the node's witness role changes as it does at a restart: its job store then lacks the
			// jobs of the trackers in flight (the block end must not depend on it: 7ff9062)
			A.IsWitness = !A.IsWitness
			e.hl.Add("node witness role -> %v", A.IsWitness)
			res.Counters["witness_role_flips"]++
		}
		b := sim.NextBlock(nil, BlockOpts{DtSeconds: int64(1 + r.Intn(5))})
		A.SaveBlock(b)
		A.BeginBlock(b)
		e.hl.Add("block %d", b.Height)
		br := &BlockResult{Height: b.Height}
		n := r.Intn(opt.MaxTxs + 1)
		if scn != nil {
			n = len(scn.Blocks[bi])
		}
		for i := 0; i < n && !e.stop; i++ {
			v, err := e.view()
			if err != nil {
				return nil, false, err
			}
			var op *ethOp
			if scn != nil {
				op = scn.Blocks[bi][i](e, v)
				// every transaction of a scripted replay is first offered to the mempool check
				cr := A.CheckTx(op.Bytes)
				res.Counters[fmt.Sprintf("scenario_checktx_code_%d", cr.Code)]++
				e.hl.Add("  checktx %s code=%d", op.Kind, cr.Code)
			} else {
				op = e.gen(v)
			}
			code, err := e.deliver(op)
			if err != nil {
				return nil, false, err
			}
			b.Txs = append(b.Txs, op.Bytes)
			br.Txs = append(br.Txs, TxResult{Code: code})
		}
		if e.stop {
			break
		}
		// block end
		pre, err := e.view()
		if err != nil {
			return nil, false, err
		}
		// doEthTransitions visits the trackers whose key is in the committed tree (State.IterateRange
		// enumerates committed keys only) and is not deleted in the block cache
		iter := map[string]bool{}
		var names []*big.Int
		for k := range e.commit {
			if strings.HasPrefix(k, ethPrefixes[0]) {
				n := new(big.Int).SetBytes([]byte(k[len(ethPrefixes[0]):]))
				if pre.Store[0][n.String()] != nil {
					iter[n.String()] = true
					names = append(names, n)
				}
			}
		}
		sort.Slice(names, func(i, j int) bool { return names[i].Cmp(names[j]) < 0 })
		var ns []string
		for _, n := range names {
			ns = append(ns, n.String())
		}
		nt := "-"
		if len(ns) > 0 {
			nt = strings.Join(ns, ",")
		}
		line := fmt.Sprintf("end %s ON=%s PA=%s FA=%s B=- N=%s", e.cfgText(), storeText(pre.Store[0], nil), storeText(pre.Store[1], nil), storeText(pre.Store[2], nil), nt)
		logOff := appLogSize()
		eb := A.EndBlock(b.Height)
		if os.Getenv("OLH_ETH_DEBUG") != "" {
			for _, l := range strings.Split(appLogSince(logOff), "\n") {
				if strings.Contains(l, "failed") || strings.Contains(l, "rror") {
					fmt.Fprintf(realStdout, "DEBUG block %d: %.300s\n", b.Height, l)
				}
			}
		}
		if A.Crashed {
			e.hit("app-closed-by-panic", fmt.Sprintf("EndBlock %d", b.Height))
			break
		}
		post, err := e.view()
		if err != nil {
			return nil, false, err
		}
		e.ops = append(e.ops, line)
		e.impl = append(e.impl, fmt.Sprintf("res 0 - ON=%s PA=%s FA=%s B=-", storeText(post.Store[0], nil), storeText(post.Store[1], nil), storeText(post.Store[2], nil)))
		e.hl.Add("  end %s", line)
		for n := range iter {
			t := pre.Store[0][n]
			to := "gone"
			switch {
			case post.Store[0][n] != nil:
				to = fmt.Sprint(int(post.Store[0][n].State))
			case post.Store[1][n] != nil && pre.Store[1][n] == nil:
				to = "passed"
			case post.Store[2][n] != nil && pre.Store[2][n] == nil:
				to = "failed"
			case post.Store[1][n] != nil:
				to = "passed-again"
			}
			res.Distribution[fmt.Sprintf("transition:type%d:%d->%s", int(t.Type), int(t.State), to)]++
		}
		e.monitorEnd(pre, post, iter)
		e.monitorState(post, fmt.Sprintf("after EndBlock %d", b.Height))
		br.Updates = eb.ValidatorUpdates
		br.AppHash = A.Commit()
		// the committed tree must be exactly what was observed through the overlay
		cm := A.DumpMap()
		cv, err := decodeEthView(cm)
		if err != nil {
			return nil, false, err
		}
		for i := 0; i < 3; i++ {
			if storeText(cv.Store[i], nil) != storeText(post.Store[i], nil) {
				e.hit("committed-trackers-differ-from-block-cache", fmt.Sprintf("block %d store %d", b.Height, i))
			}
		}
		A.IndexBlock(b, br)
		sim.Absorb(b, br)
	}
	if scn != nil && scn.Expect != nil && !e.stop {
		e.commit = A.DumpMap()
		v, err := e.view()
		if err != nil {
			return nil, false, err
		}
		if msg := scn.Expect(e, v); msg != "" {
			e.hit("regression-scenario-outcome", scn.Name+": "+msg)
		} else {
			res.Counters["scenario:"+scn.Name+":expected-outcome"]++
		}
	}
	// correspondence
	model, err := kv.RunDriver(opt.Driver, "ethtrk", e.ops)
	if err != nil {
		return nil, false, err
	}
	for i := range e.ops {
		if strings.HasPrefix(e.ops[i], "#") {
			continue
		}
		cmp, tag := normModel(model[i])
		word := strings.Fields(e.ops[i])[0]
		if word == "lock" || word == "redeem" {
			if strings.Fields(e.ops[i])[1] == "1" {
				word += "erc"
			}
		}
		res.Distribution[word+":"+tag]++
		res.Counters["steps"]++
		if cmp != e.impl[i] {
			res.DisagreementCount++
			if len(res.Disagreements) < 5 {
				res.Disagreements = append(res.Disagreements, Disagreement{"ethtrk-step", c, e.ops[i], e.impl[i], model[i], append([]string{}, e.hl.Lines...)})
			}
			break
		}
	}
	return e.hl.Lines, e.crossed > 0 && e.okTx > 0, nil
}

// ---------------------------------------------------------------- component part

// runEthComponent enumerates every sequence of votes up to the given length on a bare
// data/ethereum.Tracker for n = 1..maxWit witnesses (voters: every witness and one stranger;
// indexes: own, another, n; yes/no) and compares AddVote / GetVotes / Finalized / Failed with the
// Lean model (a `report` line on a redeem tracker of amount 0 exercises exactly AddVote and the
// two threshold tests); the monitor checks the slot rule and the threshold
// floor(2n/3)+1 directly.
func runEthComponent(opt EthOptions, res *Result) error {
	type vote struct {
		voter int // index into addrs; n = stranger
		idx   int
		ok    bool
	}
	var ops, impl []string
	flush := func() error {
		if len(ops) == 0 {
			return nil
		}
		model, err := kv.RunDriver(opt.Driver, "ethtrk", ops)
		if err != nil {
			return err
		}
		for i := range ops {
			res.Counters["component_steps"]++
			if model[i] != impl[i] {
				res.DisagreementCount++
				if len(res.Disagreements) < 5 {
					res.Disagreements = append(res.Disagreements, Disagreement{"ethtrk-component", -1, ops[i], impl[i], model[i], []string{ops[i]}})
				}
			}
		}
		ops, impl = nil, nil
		return nil
	}
	for n := 1; n <= opt.ExhWit; n++ {
		var addrs []keys.Address
		for i := 0; i <= n; i++ {
			addrs = append(addrs, keys.Address(fmt.Sprintf("witness-address-%02d--", i))) // 20 bytes
		}
		var alphabet []vote
		for v := 0; v <= n; v++ {
			idxs := map[int]bool{v % n: true, (v + 1) % n: true, n: true}
			if v == n {
				idxs = map[int]bool{0: true, n: true}
			}
			for ix := 0; ix <= n; ix++ {
				if !idxs[ix] {
					continue
				}
				alphabet = append(alphabet, vote{v, ix, true}, vote{v, ix, false})
			}
		}
		maxLen := opt.Exhaustive
		// keep the enumeration bounded: alphabet^len grows fast
		for maxLen > 1 && pow(len(alphabet), maxLen) > 400000 {
			maxLen--
		}
		var rec func(t *ethereum.Tracker, depth int, hist string) error
		rec = func(t *ethereum.Tracker, depth int, hist string) error {
			if depth == maxLen {
				res.Counters["component_sequences"]++
				return nil
			}
			for _, v := range alphabet {
				c := *t
				c.FinalityVotes = append([]ethereum.Vote{}, t.FinalityVotes...)
				pre := trackerText(&c)
				ok01 := 0
				if v.ok {
					ok01 = 1
				}
				line := fmt.Sprintf("report 7 1 %s %d %d W=- S=0 EC=0 TC=0 ON=%s PA=- FA=- B=-", addrNum(addrs[v.voter]), v.idx, ok01, pre)
				var out string
				cont := true
				switch {
				case c.Finalized() || c.Failed():
					out = "res 0 " + map[bool]string{true: "already-finalized", false: "already-failed"}[c.Finalized()] + " ON=" + pre + " PA=- FA=- B=-"
					cont = false
				default:
					py, pn := c.GetVotes()
					err := c.AddVote(addrs[v.voter], int64(v.idx), v.ok)
					y, no := c.GetVotes()
					thr := n*2/3 + 1
					// monitor: slot rule and threshold
					changed := -1
					for i := range c.FinalityVotes {
						if c.FinalityVotes[i] != t.FinalityVotes[i] {
							if changed >= 0 || t.FinalityVotes[i] != 0 || i != v.idx || v.voter != i {
								res.Hit("component-vote-slot-rule", -1, hist+" "+line, []string{line})
							}
							changed = i
						}
					}
					if err != nil && changed >= 0 {
						res.Hit("component-vote-slot-rule", -1, "error but slot changed: "+line, []string{line})
					}
					if y < py || no < pn || c.Finalized() != (y >= thr) || c.Failed() != (no >= thr) || 3*thr <= 2*n || 3*(thr-1) > 2*n {
						res.Hit("component-threshold", -1, fmt.Sprintf("n=%d yes=%d no=%d finalized=%v failed=%v: %s", n, y, no, c.Finalized(), c.Failed(), line), []string{line})
					}
					switch {
					case err != nil:
						out = "res 1 bad-vote ON=" + pre + " PA=- FA=- B=-"
					case c.Finalized():
						c.State = ethereum.Released
						out = "res 0 burned ON=" + trackerText(&c) + " PA=- FA=- B=-"
					case c.Failed():
						c.State = ethereum.Failed
						out = "res 0 refunded ON=" + trackerText(&c) + " PA=- FA=- B=0:0:0"
					default:
						out = "res 0 voted ON=" + trackerText(&c) + " PA=- FA=- B=-"
					}
				}
				ops = append(ops, line)
				impl = append(impl, out)
				res.Distribution["component:"+strings.Fields(out)[2]]++
				if len(ops) >= 20000 {
					if err := flush(); err != nil {
						return err
					}
				}
				if cont && c.State != ethereum.Released && c.State != ethereum.Failed {
					if err := rec(&c, depth+1, hist+fmt.Sprintf(" %d/%d/%v", v.voter, v.idx, v.ok)); err != nil {
						return err
					}
				} else {
					res.Counters["component_sequences"]++
				}
			}
			return nil
		}
		h := common.BytesToHash([]byte{7})
		t0 := ethereum.NewTracker(ethereum.ProcessTypeRedeem, nil, nil, h, addrs[:n])
		if err := rec(t0, 0, fmt.Sprintf("n=%d", n)); err != nil {
			return err
		}
	}
	return flush()
}

func pow(a, b int) int {
	r := 1
	for i := 0; i < b; i++ {
		r *= a
		if r > 1<<40 {
			return r
		}
	}
	return r
}

// RunEthTrk is the C15 engine.
func RunEthTrk(opt EthOptions) (*Result, error) {
	res := NewResult("ethtrk", opt.Seed, "case = one generated history on the real application (genesis with the repo's LockRedeem/ERC20 ABIs, 0-7 ETH witnesses, extra non-witness validators; ETH/ERC20 lock and redeem with real signed Ethereum payloads incl. undecodable / wrong call data / wrong contract / unlisted token / duplicates by the same and by other accounts, boundary amounts around the supply cap and the holder's balance; finality reports yes/no in generated orders from witnesses, non-witness validators and accounts, wrong and out-of-range indexes, repeated votes, lying Locker; wrapped-currency SENDs; several transactions per block; block-end transitions on witness and non-witness nodes), observed before/after every DeliverTx and EndBlock; non-trivial = at least one successful transaction and at least one threshold crossing (yes or no) observed on the implementation; distinct = SHA-256 of the history lines; plus the component part: every vote sequence up to the stated length on a bare data/ethereum.Tracker for n <= ExhWit witnesses")
	root := rng.New(opt.Seed*131 + 17)
	seen := map[[32]byte]bool{}
	// the scripted scenarios (cases -1, -2, …) run first: the Lean counterexamples on the implementation
	for i, scn := range ethScenarios() {
		c := -1 - i
		if (opt.Only != -1000 && opt.Only != c) || (scn.Manual && opt.Only != c) {
			continue
		}
		before := map[string]int{}
		for k, v := range res.MonitorHitCount {
			before[k] = v
		}
		lines, _, err := runEthHistory(opt, c, rng.New(uint64(1000+i)), res, scn)
		if err != nil {
			return nil, fmt.Errorf("scenario %s: %v", scn.Name, err)
		}
		res.Evaluations++
		res.DistinctNontrivial++
		seen[sha256.Sum256([]byte(strings.Join(lines, "\n")))] = true
		fired := "none"
		for k, v := range res.MonitorHitCount {
			if v > before[k] {
				fired = k
				res.Counters["scenario:"+scn.Name+":"+k] += v - before[k]
			}
		}
		if fired == "none" {
			res.Counters["scenario:"+scn.Name+":no-monitor-hit"]++
		}
		TruncateAppLog()
	}
	for c := 0; c < opt.Histories; c++ {
		r := root.Fork()
		if opt.Only != -1000 && c != opt.Only {
			continue
		}
		lines, nontriv, err := runEthHistory(opt, c, r, res, nil)
		if err != nil {
			return nil, fmt.Errorf("case %d: %v", c, err)
		}
		res.Evaluations++
		h := sha256.Sum256([]byte(strings.Join(lines, "\n")))
		if !seen[h] {
			seen[h] = true
			if nontriv {
				res.DistinctNontrivial++
			}
		}
		if len(res.Samples) < 2 && nontriv {
			res.Samples = append(res.Samples, shortAll(lines[:min(len(lines), 30)]))
		}
		TruncateAppLog()
	}
	if opt.Exhaustive > 0 && opt.Only == -1000 {
		if err := runEthComponent(opt, res); err != nil {
			return nil, err
		}
		res.Exhaustive = true
	}
	return res, nil
}

// EthReplayOptions reads the "rerun:" parameters from a replay file written by ./check (the
// generator is deterministic in the seed, so the recorded case is regenerated and re-executed).
func EthReplayOptions(path string, opt *EthOptions) error {
	b, err := ioutil.ReadFile(path)
	if err != nil {
		return err
	}
	i := strings.Index(string(b), "rerun: olh ethtrk ")
	if i < 0 {
		return fmt.Errorf("%s: no rerun line", path)
	}
	rest := string(b)[i+len("rerun: olh ethtrk "):]
	if j := strings.Index(rest, ")"); j >= 0 {
		rest = rest[:j]
	}
	f := strings.Fields(rest)
	for k := 0; k+1 < len(f); k += 2 {
		var n int64
		fmt.Sscan(f[k+1], &n)
		switch f[k] {
		case "-seed":
			opt.Seed = uint64(n)
		case "-only":
			opt.Only = int(n)
		case "-histories":
			opt.Histories = int(n)
		case "-blocks":
			opt.Blocks = int(n)
		case "-maxtxs":
			opt.MaxTxs = int(n)
		case "-maxwit":
			opt.MaxWit = int(n)
		}
	}
	opt.Exhaustive = 0
	return nil
}

package apph

import (
	"encoding/json"
	"math/big"
	"strings"
)

// DumpMap returns the committed tree as a map (keys are raw bytes as a Go string).
func (r *Replica) DumpMap() map[string]string {
	m := map[string]string{}
	for _, kv := range r.Dump() {
		m[string(kv[0])] = string(kv[1])
	}
	return m
}

// AmountOf decodes a stored amount: either a JSON string holding a decimal integer
// (balance.Amount) or a JSON coin {"currency":{…},"amount":"…"}; nil when undecodable.
func AmountOf(v string) *big.Int {
	var s string
	if err := json.Unmarshal([]byte(v), &s); err == nil {
		if n, ok := new(big.Int).SetString(s, 10); ok {
			return n
		}
		return nil
	}
	var c struct {
		Amount string `json:"amount"`
	}
	if err := json.Unmarshal([]byte(v), &c); err == nil && c.Amount != "" {
		if n, ok := new(big.Int).SetString(c.Amount, 10); ok {
			return n
		}
	}
	return nil
}

// WithPrefix returns the entries of a dump map whose key starts with the prefix, keyed by the rest.
func WithPrefix(m map[string]string, prefix string) map[string]string {
	out := map[string]string{}
	for k, v := range m {
		if strings.HasPrefix(k, prefix) {
			out[strings.TrimPrefix(k, prefix)] = v
		}
	}
	return out
}

// BalanceOf reads b_<addr>_<cur> from a dump map (0 when absent).
func BalanceOf(m map[string]string, addr []byte, cur string) *big.Int {
	k := "b_" + AddrStr(addr) + "_" + cur
	if v, ok := m[k]; ok {
		if n := AmountOf(v); n != nil {
			return n
		}
	}
	return new(big.Int)
}

// AddrStr renders an address the way keys.Address.String() does ("0lt" + hex).
func AddrStr(a []byte) string {
	const hexd = "0123456789abcdef"
	b := make([]byte, 0, 3+2*len(a))
	b = append(b, "0lt"...)
	for _, c := range a {
		b = append(b, hexd[c>>4], hexd[c&15])
	}
	return string(b)
}

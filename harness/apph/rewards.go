package apph

// The `rewards` engine (C13): block rewards stay within the pulled amount and the yearly
// schedule; a validator never withdraws more than has matured; the per-block amount does not
// depend on when a node was restarted.
//
// Every generated history is executed on replica A (never restarted) and on its twin B, which is
// restarted (application closed and reopened from disk, calculator cache lost) before generated
// blocks. After every BeginBlock the reward records are decoded from the committed dump overlaid
// with the block's pending writes, the block_rewards event is decoded, and the amount the
// application's own calculator pulled for the block is read back.
//   MONITOR  (independent of the Lean model): the property's own predicates, see monitorBlock.
//   CORRESPONDENCE: one `blk` line per BeginBlock and replica and one `wd` line per
//   WITHDRAW_REWARD transaction (decoded pre-state records + operation) are run through the Lean
//   model (`olpdriver rewards`); the predicted record writes / event / pulled amount / result must
//   equal what the implementation did.

import (
	"crypto/sha256"
	"encoding/hex"
	"encoding/json"
	"fmt"
	"io/ioutil"
	"math/big"
	"os"
	"sort"
	"strconv"
	"strings"
	"time"

	abci "github.com/tendermint/tendermint/abci/types"

	"github.com/Oneledger/protocol/action"
	adeleg "github.com/Oneledger/protocol/action/network_delegation"
	arew "github.com/Oneledger/protocol/action/rewards"
	"github.com/Oneledger/protocol/action/staking"
	"github.com/Oneledger/protocol/action/transfer"
	"github.com/Oneledger/protocol/data/balance"
	"github.com/Oneledger/protocol/data/keys"
	"github.com/Oneledger/protocol/data/network_delegation"
	"github.com/Oneledger/protocol/data/rewards"
	"github.com/Oneledger/protocol/storage"

	"olverif/harness/kv"
	"olverif/harness/rng"
)

type RewardsOptions struct {
	Driver    string
	Seed      uint64
	Histories int
	Blocks    int
	MaxTxs    int
	OnlyCase  int // >= 0: run only this case (replay)
	Verbose   bool
}

// ---------------------------------------------------------------- decoding

func overlayView(dump map[string]string, pend []kvp) map[string]string {
	m := make(map[string]string, len(dump)+len(pend))
	for k, v := range dump {
		m[k] = v
	}
	for _, p := range pend {
		if string(p.v) == storage.TOMBSTONE {
			delete(m, string(p.k))
		} else {
			m[string(p.k)] = string(p.v)
		}
	}
	return m
}

func bigOf(m map[string]string, key string) *big.Int {
	if v, ok := m[key]; ok {
		if n := amountAny(v); n != nil {
			return n
		}
	}
	return new(big.Int)
}

type yearRec struct {
	Close      int64
	Dist, Till *big.Int
}

func decodeYdist(v string) ([]yearRec, error) {
	var y struct {
		Years []struct {
			CloseTime     time.Time
			Distributed   string
			TillLastCycle string
		}
	}
	if err := json.Unmarshal([]byte(v), &y); err != nil {
		return nil, err
	}
	var out []yearRec
	for _, r := range y.Years {
		d, ok1 := new(big.Int).SetString(r.Distributed, 10)
		t, ok2 := new(big.Int).SetString(r.TillLastCycle, 10)
		if !ok1 || !ok2 {
			return nil, fmt.Errorf("bad year amounts %q %q", r.Distributed, r.TillLastCycle)
		}
		out = append(out, yearRec{r.CloseTime.Unix(), d, t})
	}
	return out, nil
}

func showYdist(m map[string]string) string {
	v, ok := m["rwcum_ydist"]
	if !ok {
		return "~"
	}
	ys, err := decodeYdist(v)
	if err != nil {
		return "undecodable"
	}
	if len(ys) == 0 {
		return "-"
	}
	var p []string
	for _, y := range ys {
		p = append(p, fmt.Sprintf("%d:%s:%s", y.Close, y.Dist, y.Till))
	}
	return strings.Join(p, "/")
}

func sortedKeysWithPrefix(m map[string]string, prefix string) []string {
	var ks []string
	for k := range m {
		if strings.HasPrefix(k, prefix) {
			ks = append(ks, k)
		}
	}
	sort.Strings(ks)
	return ks
}

func joinOrDash(p []string, sep string) string {
	if len(p) == 0 {
		return "-"
	}
	return strings.Join(p, sep)
}

var (
	rwDelegPoolAddr = AddrStr([]byte(network_delegation.DELEGATION_POOL_KEY))
)

// rwEvent is the decoded block_rewards event.
type rwEvent struct {
	Present  bool
	Vals     map[string]*big.Int // validator address -> amount (all validators, zeros included)
	Proposer *big.Int            // nil when the attribute is absent
	Pool     *big.Int            // nil when absent
	Matured  map[string]string   // deleg_rewards_mature_<addr>
}

func decodeRewardEvent(events []abci.Event) rwEvent {
	ev := rwEvent{Vals: map[string]*big.Int{}, Matured: map[string]string{}}
	for _, e := range events {
		if e.Type != "block_rewards" {
			continue
		}
		ev.Present = true
		for _, a := range e.Attributes {
			k, v := string(a.Key), string(a.Value)
			switch {
			case k == "height":
			case strings.HasPrefix(k, "proposer_"):
				ev.Proposer, _ = new(big.Int).SetString(v, 10)
			case k == rwDelegPoolAddr:
				ev.Pool, _ = new(big.Int).SetString(v, 10)
			case strings.HasPrefix(k, "deleg_rewards_mature_"):
				ev.Matured[strings.TrimPrefix(k, "deleg_rewards_mature_")] = v
			case strings.HasPrefix(k, "0lt"):
				n, _ := new(big.Int).SetString(v, 10)
				ev.Vals[k] = n
			}
		}
	}
	return ev
}

func (ev rwEvent) canon() string {
	if !ev.Present {
		return "none"
	}
	var p []string
	for a, n := range ev.Vals {
		if n != nil && n.Sign() != 0 {
			p = append(p, a+":"+n.String())
		}
	}
	sort.Strings(p)
	pr, pl := "~", "~"
	if ev.Proposer != nil {
		pr = ev.Proposer.String()
	}
	if ev.Pool != nil {
		pl = ev.Pool.String()
	}
	return fmt.Sprintf("ev=%s prop=%s dpool=%s", joinOrDash(p, "/"), pr, pl)
}

// probePulled asks the application's own calculator (the very object BeginBlock uses, cache
// included) for the amount of this height, immediately BEFORE BeginBlock and on a throw-away State
// over the committed tree, i.e. with exactly the inputs BeginBlock is about to see. Two
// consecutive PullRewards calls with the same height and records give the same answer and leave
// the same cache (first block of a cycle: both recompute from the same records; otherwise the
// second returns what the first cached or found cached), so the call does not disturb the
// application; an unprobed third replica checks this in every 5th history.
func probePulled(r *Replica, h int64, pool *big.Int) (amt *big.Int, ok bool) {
	defer func() {
		if x := recover(); x != nil {
			amt, ok = nil, false
		}
	}()
	rm := r.App.Context.Storage().RewardMaster
	scratch := storage.NewState(r.App.VerifChainState())
	a, err := rm.RewardCm.WithState(scratch).PullRewards(h, balance.NewAmountFromBigInt(new(big.Int).Set(pool)))
	if err != nil || a == nil {
		return nil, false
	}
	return new(big.Int).Set(a.BigInt()), true
}

// ---------------------------------------------------------------- one observed BeginBlock

type rwBlockObs struct {
	OpLine   string
	ImplLine string
	Pulled   *big.Int // nil: PullRewards failed
	Event    rwEvent
	Pre      map[string]string // committed state before the block
	Post     map[string]string // after BeginBlock
	Pend     []kvp
}

type rwCtx struct {
	w      *World
	opts   rewards.Options
	times  map[int64]int64 // block times (unix) by height, as saved into the block store
	closes []int64
}

func (c *rwCtx) setCloses() {
	t := time.Unix(c.times[1], 0).UTC()
	c.closes = nil
	for range c.opts.YearBlockRewardShares {
		t = t.AddDate(1, 0, 0).UTC()
		c.closes = append(c.closes, t.Unix())
	}
}

func (c *rwCtx) optsTok() string {
	var sh []string
	for _, s := range c.opts.YearBlockRewardShares {
		sh = append(sh, s.String())
	}
	return fmt.Sprintf("o=%d,%d,%d,%d,%s,%s", c.opts.RewardInterval, c.opts.EstimatedSecondsPerCycle, c.opts.BlockSpeedCalculateCycle,
		c.opts.YearCloseWindow, c.opts.BurnoutRate.String(), strings.Join(sh, "/"))
}

func (c *rwCtx) tmTok(h int64) string {
	cyc := c.opts.BlockSpeedCalculateCycle
	hs := []int64{1}
	if h > cyc {
		end := (h-1)/cyc*cyc + 1
		hs = append(hs, end, end-cyc)
	}
	var p []string
	for _, x := range hs {
		p = append(p, fmt.Sprintf("%d:%d", x, c.times[x]))
	}
	return "tm=" + strings.Join(p, "/")
}

func rawAddrKey(prefix string, addr []byte) string { return prefix + string(addr) }

// observeBegin runs SaveBlock + BeginBlock on the replica and decodes everything.
func (c *rwCtx) observeBegin(r *Replica, rep string, b *Block, pre map[string]string) *rwBlockObs {
	o := &rwBlockObs{Pre: pre}
	r.SaveBlock(b)
	poolKey := "b_" + AddrStr([]byte(c.opts.RewardPoolAddress)) + "_OLT"
	if amt, ok := probePulled(r, b.Height, bigOf(pre, poolKey)); ok {
		o.Pulled = amt
	}
	bb := r.BeginBlock(b)
	if r.Crashed {
		o.ImplLine = "crash"
		return o
	}
	o.Pend = pendingOf(r.App.VerifDeliverState())
	o.Post = overlayView(pre, o.Pend)
	o.Event = decodeRewardEvent(bb.Events)
	h := b.Height
	pool := bigOf(o.Post, poolKey)
	D := bigOf(o.Post, "b_"+rwDelegPoolAddr+"_OLT")
	// ---- op line (pre-state records)
	var votes []string
	for _, v := range b.Votes {
		known := 0
		if val, ok := o.Post[rawAddrKey("v_", v.Validator.Address)]; ok && len(val) > 0 {
			known = 1
		}
		sg := 0
		if v.SignedLastBlock {
			sg = 1
		}
		votes = append(votes, fmt.Sprintf("%s:%d:%d:%d", AddrStr(v.Validator.Address), v.Validator.Power, sg, known))
	}
	prop := "-"
	if len(b.Proposer) > 0 {
		prop = AddrStr(b.Proposer)
	}
	var active, chunks, addrs, ivs, mat, dbal, pendTok []string
	for _, k := range sortedKeysWithPrefix(pre, "deleg_a_") {
		active = append(active, strings.TrimPrefix(k, "deleg_a_")+":"+bigOf(o.Post, k).String())
	}
	for _, k := range sortedKeysWithPrefix(pre, "rwz_") {
		p := strings.Split(strings.TrimPrefix(k, "rwz_"), "_")
		if len(p) == 2 {
			chunks = append(chunks, p[0]+":"+p[1]+":"+bigOf(pre, k).String())
		}
	}
	for _, k := range sortedKeysWithPrefix(pre, "rwaddr_") {
		addrs = append(addrs, strings.TrimPrefix(k, "rwaddr_"))
	}
	for _, k := range sortedKeysWithPrefix(pre, "ri_") {
		var iv rewards.Interval
		if json.Unmarshal([]byte(pre[k]), &iv) == nil {
			ivs = append(ivs, fmt.Sprintf("%d:%d", iv.LastIndex, iv.LastHeight))
		}
	}
	for _, k := range sortedKeysWithPrefix(pre, "rwcum_balance_") {
		mat = append(mat, strings.TrimPrefix(k, "rwcum_balance_")+":"+bigOf(pre, k).String())
	}
	for _, k := range sortedKeysWithPrefix(pre, "delegRwz_balance_") {
		dbal = append(dbal, strings.TrimPrefix(k, "delegRwz_balance_")+":"+bigOf(pre, k).String())
	}
	pendPrefix := fmt.Sprintf("delegRwz_pending_%d_", h)
	pendAddrs := map[string]bool{}
	for _, k := range sortedKeysWithPrefix(pre, pendPrefix) {
		a := strings.TrimPrefix(k, pendPrefix)
		pendAddrs[a] = true
		// balance before the reward part of BeginBlock: committed balance plus the undelegation
		// that matured at this height (paid by addMaturedAmountsToBalance earlier in BeginBlock)
		bal := bigOf(pre, "b_"+a+"_OLT")
		bal.Add(bal, bigOf(pre, fmt.Sprintf("deleg_p_%d_%s", h, a)))
		pendTok = append(pendTok, a+":"+bigOf(pre, k).String()+":"+bal.String())
	}
	o.OpLine = fmt.Sprintf("blk %s %s h=%d %s closes=%s ydist=%s tdist=%s votes=%s prop=%s D=%s pool=%s active=%s chunks=%s addrs=%s ivs=%s mat=%s dbal=%s dtot=%s pend=%s",
		rep, c.optsTok(), h, c.tmTok(h), joinInts(c.closes), showYdist(pre), bigOf(pre, "rwcum_tdist"), joinOrDash(votes, "/"), prop, D, pool,
		joinOrDash(active, "/"), joinOrDash(chunks, "/"), joinOrDash(addrs, "/"), joinOrDash(ivs, "/"), joinOrDash(mat, "/"), joinOrDash(dbal, "/"),
		bigOf(pre, "delegRwz_total_rewards"), joinOrDash(pendTok, "/"))
	// ---- impl line (what BeginBlock wrote)
	if !o.Event.Present {
		o.ImplLine = "skip ydist=" + showYdist(o.Post)
		return o
	}
	last := map[string]string{}
	for _, p := range o.Pend {
		k, v := string(p.k), string(p.v)
		switch {
		case strings.HasPrefix(k, "rwz_"):
			q := strings.Split(strings.TrimPrefix(k, "rwz_"), "_")
			if len(q) == 2 {
				last["rwz:"+q[0]+":"+q[1]] = bigOf(o.Post, k).String()
			}
		case strings.HasPrefix(k, "rwaddr_"):
			last["rwaddr:"+strings.TrimPrefix(k, "rwaddr_")] = v
		case strings.HasPrefix(k, "rwcum_balance_"):
			last["bal:"+strings.TrimPrefix(k, "rwcum_balance_")] = bigOf(o.Post, k).String()
		case strings.HasPrefix(k, "delegRwz_balance_"):
			last["dbal:"+strings.TrimPrefix(k, "delegRwz_balance_")] = bigOf(o.Post, k).String()
		case k == "delegRwz_total_rewards":
			last["dtot"] = bigOf(o.Post, k).String()
		case strings.HasPrefix(k, pendPrefix):
			last["pend:"+strings.TrimPrefix(k, pendPrefix)] = bigOf(o.Post, k).String()
		case strings.HasPrefix(k, "b_") && strings.HasSuffix(k, "_OLT"):
			a := strings.TrimSuffix(strings.TrimPrefix(k, "b_"), "_OLT")
			if pendAddrs[a] {
				last["b:"+a] = bigOf(o.Post, k).String()
			}
		}
	}
	var ws []string
	for k, v := range last {
		ws = append(ws, k+"="+v)
	}
	sort.Strings(ws)
	pulled := "err"
	if o.Pulled != nil {
		pulled = o.Pulled.String()
	}
	o.ImplLine = fmt.Sprintf("done pulled=%s ydist=%s tdist=%s w=%s %s", pulled, showYdist(o.Post), bigOf(o.Post, "rwcum_tdist"), joinOrDash(ws, ";"), o.Event.canon())
	return o
}

func joinInts(a []int64) string {
	var p []string
	for _, x := range a {
		p = append(p, strconv.FormatInt(x, 10))
	}
	return joinOrDash(p, "/")
}

// ---------------------------------------------------------------- monitor

type rwMon struct {
	cycleStartDist []*big.Int          // Distributed of every year in the committed state before the first block of the current cycle
	cumCredited    map[string]*big.Int // validator -> sum of chunk credits
	cumMatured     map[string]*big.Int // validator -> matured balance at genesis + sum of maturity credits
	init           bool
	failedCycle    int64 // number of the cycle whose first block's PullRewards failed on this replica (0: none)
	reported       map[string]bool
}

func newRwMon() *rwMon {
	return &rwMon{cumCredited: map[string]*big.Int{}, cumMatured: map[string]*big.Int{}, reported: map[string]bool{}}
}

func rwAddTo(m map[string]*big.Int, k string, d *big.Int) {
	if m[k] == nil {
		m[k] = new(big.Int)
	}
	m[k].Add(m[k], d)
}

// monitorBlock evaluates the property's predicates on one observed BeginBlock. It returns
// (signature, detail) of the first violated predicate, or "".
func (c *rwCtx) monitorBlock(mon *rwMon, o *rwBlockObs, b *Block, st map[string]int) (string, string) {
	h := b.Height
	cyc := c.opts.BlockSpeedCalculateCycle
	signedBy := map[string]bool{}
	for _, v := range b.Votes {
		if v.SignedLastBlock {
			signedBy[AddrStr(v.Validator.Address)] = true
		}
	}
	pre, post := o.Pre, o.Post
	if !mon.init {
		// whatever the genesis carries counts as matured
		for _, k := range sortedKeysWithPrefix(pre, "rwcum_balance_") {
			rwAddTo(mon.cumMatured, strings.TrimPrefix(k, "rwcum_balance_"), bigOf(pre, k))
			rwAddTo(mon.cumCredited, strings.TrimPrefix(k, "rwcum_balance_"), bigOf(pre, k))
		}
		for _, k := range sortedKeysWithPrefix(pre, "rwcum_withdrawn_") {
			rwAddTo(mon.cumMatured, strings.TrimPrefix(k, "rwcum_withdrawn_"), bigOf(pre, k))
			rwAddTo(mon.cumCredited, strings.TrimPrefix(k, "rwcum_withdrawn_"), bigOf(pre, k))
		}
		for _, k := range sortedKeysWithPrefix(pre, "rwz_") {
			p := strings.Split(strings.TrimPrefix(k, "rwz_"), "_")
			rwAddTo(mon.cumCredited, p[0], bigOf(pre, k))
		}
		mon.init = true
	}
	preYears, _ := decodeYdist(pre["rwcum_ydist"])
	postYears, _ := decodeYdist(post["rwcum_ydist"])
	if (h-1)%cyc == 0 || mon.cycleStartDist == nil {
		mon.cycleStartDist = nil
		src := preYears
		if src == nil {
			src = postYears // block 1: the record is created by the block itself with zeros
			for range src {
				mon.cycleStartDist = append(mon.cycleStartDist, new(big.Int))
			}
		} else {
			for _, y := range src {
				mon.cycleStartDist = append(mon.cycleStartDist, new(big.Int).Set(y.Dist))
			}
		}
	}
	// credits actually written
	valCred, delCred := new(big.Int), new(big.Int)
	for _, p := range o.Pend {
		k := string(p.k)
		switch {
		case strings.HasPrefix(k, "rwz_"):
			d := new(big.Int).Sub(bigOf(post, k), bigOf(pre, k))
			if d.Sign() < 0 {
				return "negative-reward-credit", fmt.Sprintf("height %d: %s changed by %s", h, k, d)
			}
			valCred.Add(valCred, d)
			va := strings.Split(strings.TrimPrefix(k, "rwz_"), "_")[0]
			if d.Sign() > 0 && !signedBy[va] {
				return "credit-to-absent-validator", fmt.Sprintf("height %d: %s was credited %s but did not sign the last block", h, va, d)
			}
			rwAddTo(mon.cumCredited, va, d)
		case strings.HasPrefix(k, "delegRwz_balance_"):
			d := new(big.Int).Sub(bigOf(post, k), bigOf(pre, k))
			if d.Sign() < 0 {
				return "negative-reward-credit", fmt.Sprintf("height %d: %s changed by %s", h, k, d)
			}
			delCred.Add(delCred, d)
		case strings.HasPrefix(k, "rwcum_balance_"):
			d := new(big.Int).Sub(bigOf(post, k), bigOf(pre, k))
			a := strings.TrimPrefix(k, "rwcum_balance_")
			if d.Sign() < 0 {
				return "matured-balance-decreased-in-beginblock", fmt.Sprintf("height %d: %s changed by %s", h, k, d)
			}
			if d.Sign() > 0 {
				st["matured-credits"]++
			}
			rwAddTo(mon.cumMatured, a, d)
		}
	}
	total := new(big.Int).Add(valCred, delCred)
	consumed := new(big.Int).Sub(bigOf(post, "rwcum_tdist"), bigOf(pre, "rwcum_tdist"))
	if o.Pulled == nil {
		// PullRewards failed: nothing may be handed out
		if total.Sign() != 0 || consumed.Sign() != 0 || o.Event.Present {
			return "credits-without-pull", fmt.Sprintf("height %d: PullRewards fails but credits=%s consumed=%s event=%v", h, total, consumed, o.Event.Present)
		}
		st["pull-failed"]++
		if (h-1)%cyc == 0 {
			mon.failedCycle = (h-1)/cyc + 1
		}
		// since fix 2606b58 no reward year can be over-distributed, so `Year rewards burned out
		// unexpectedly` is dead code (Lean: pull_never_fails)
		return "pull-failed", fmt.Sprintf("height %d: PullRewards returned an error (no rewards in this block)", h)
	}
	T := o.Pulled
	if T.Sign() < 0 {
		return "negative-pull", fmt.Sprintf("height %d: pulled %s", h, T)
	}
	if !o.Event.Present {
		return "pull-without-event", fmt.Sprintf("height %d: calculator returns %s but BeginBlock emitted no block_rewards event", h, T)
	}
	// clause 1: credits (records) and the event's own numbers stay within the pulled amount
	if total.Cmp(T) > 0 {
		return "credits-exceed-pulled", fmt.Sprintf("height %d: validator credits %s + delegator credits %s = %s > pulled %s", h, valCred, delCred, total, T)
	}
	evSum := new(big.Int)
	for _, n := range o.Event.Vals {
		if n != nil {
			evSum.Add(evSum, n)
		}
	}
	if evSum.Cmp(valCred) != 0 {
		return "event-differs-from-records", fmt.Sprintf("height %d: event validator amounts sum %s, chunk records grew by %s", h, evSum, valCred)
	}
	evTotal := new(big.Int).Set(evSum)
	if o.Event.Pool != nil {
		evTotal.Add(evTotal, o.Event.Pool)
		if delCred.Cmp(o.Event.Pool) > 0 {
			return "delegator-credits-exceed-pool-share", fmt.Sprintf("height %d: delegators credited %s, delegation pool share %s", h, delCred, o.Event.Pool)
		}
	}
	if evTotal.Cmp(T) > 0 {
		return "event-exceeds-pulled", fmt.Sprintf("height %d: event validators %s + delegation pool %v = %s > pulled %s", h, evSum, o.Event.Pool, evTotal, T)
	}
	if consumed.Cmp(T) > 0 {
		return "consumed-exceeds-pulled", fmt.Sprintf("height %d: tdist grew by %s > pulled %s", h, consumed, T)
	}
	if consumed.Cmp(evTotal) != 0 {
		return "consumed-differs-from-event", fmt.Sprintf("height %d: tdist grew by %s, event total %s", h, consumed, evTotal)
	}
	if total.Sign() > 0 {
		st["blocks-with-credits"]++
	}
	if delCred.Sign() > 0 {
		st["blocks-with-delegator-credits"]++
	}
	// clause 2: the schedule
	year := -1
	for i := range postYears {
		var before *big.Int = new(big.Int)
		if i < len(preYears) {
			before = preYears[i].Dist
		}
		if postYears[i].Dist.Cmp(before) != 0 {
			if year >= 0 {
				return "two-years-charged", fmt.Sprintf("height %d: years %d and %d both changed", h, year, i)
			}
			year = i
			if d := new(big.Int).Sub(postYears[i].Dist, before); d.Cmp(consumed) != 0 {
				return "year-record-differs-from-consumed", fmt.Sprintf("height %d: year %d grew by %s, tdist by %s", h, i, d, consumed)
			}
		}
	}
	for i := range postYears {
		if i < len(c.opts.YearBlockRewardShares) && postYears[i].Dist.Cmp(c.opts.YearBlockRewardShares[i].BigInt()) > 0 {
			return "year-over-distributed", fmt.Sprintf("height %d: year %d distributed %s of a supply of %s", h, i+1, postYears[i].Dist, c.opts.YearBlockRewardShares[i].String())
		}
	}
	pool := bigOf(post, "b_"+AddrStr([]byte(c.opts.RewardPoolAddress))+"_OLT")
	switch {
	case year >= 0:
		if year >= len(c.opts.YearBlockRewardShares) || year >= len(mon.cycleStartDist) {
			return "year-out-of-range", fmt.Sprintf("height %d: year %d", h, year)
		}
		left := new(big.Int).Sub(c.opts.YearBlockRewardShares[year].BigInt(), mon.cycleStartDist[year])
		if T.Cmp(left) > 0 {
			sig := "pulled-exceeds-year-left"
			if mon.failedCycle == (h-1)/cyc+1 {
				// the first block of this cycle failed with "year rewards burned out unexpectedly"; the
				// node now hands out the amount it cached in an earlier cycle
				sig = "pulled-exceeds-year-left-after-failed-pull"
			}
			return sig, fmt.Sprintf("height %d (cycle %d): pulled %s > %s left of year %d when the cycle began (supply %s, distributed then %s)",
				h, (h-1)/cyc+1, T, left, year+1, c.opts.YearBlockRewardShares[year].String(), mon.cycleStartDist[year])
		}
		st["schedule-blocks"]++
		if year > 0 {
			st["later-year-blocks"]++
		}
	case consumed.Sign() > 0:
		// no year record moved although something was consumed: the burnout regime
		if T.Cmp(c.opts.BurnoutRate.BigInt()) > 0 || T.Cmp(pool) > 0 {
			return "burnout-exceeds-cap", fmt.Sprintf("height %d: pulled %s, burnout rate %s, rewards pool %s", h, T, c.opts.BurnoutRate.String(), pool)
		}
		// the schedule must really be over: measured from the end of the last complete cycle (the
		// schedule's own clock) every reward year is inside or past its close window
		tEnd := c.times[1]
		if h > cyc {
			tEnd = c.times[(h-1)/cyc*cyc+1]
		}
		for i, cl := range c.closes {
			if cl-tEnd >= c.opts.YearCloseWindow {
				return "burnout-while-year-open", fmt.Sprintf("height %d: the burnout rate %s is paid although reward year %d closes %d s after the end of the last cycle (close window %d s)", h, T, i+1, cl-tEnd, c.opts.YearCloseWindow)
			}
		}
		st["burnout-blocks"]++
		if T.Cmp(pool) == 0 && pool.Cmp(c.opts.BurnoutRate.BigInt()) < 0 {
			st["burnout-capped-by-pool"]++
		}
	default:
		st["blocks-nothing-consumed"]++
	}
	return "", ""
}

// branchStats counts which branches of the mechanism (and of the model) a block exercised.
func (c *rwCtx) branchStats(res *Result, b *Block, o *rwBlockObs, midCycleRestart bool) {
	d := res.Distribution
	h := b.Height
	if o.Post == nil {
		return
	}
	if bigOf(o.Post, "b_"+rwDelegPoolAddr+"_OLT").Sign() > 0 {
		d["deleg-pool:positive"]++
	} else {
		d["deleg-pool:zero"]++
	}
	signed, absent, unknown, propSigned, propInVotes := 0, 0, 0, false, false
	for _, v := range b.Votes {
		if val, ok := o.Post[rawAddrKey("v_", v.Validator.Address)]; !ok || len(val) == 0 {
			unknown++
		}
		if v.SignedLastBlock {
			signed++
		} else {
			absent++
		}
		if string(v.Validator.Address) == string(b.Proposer) {
			propInVotes = true
			propSigned = v.SignedLastBlock
		}
	}
	switch {
	case len(b.Votes) == 0:
		d["votes:none"]++
	case signed == 0:
		d["votes:all-absent"]++
	case absent == 0:
		d["votes:all-signed"]++
	default:
		d["votes:some-absent"]++
	}
	if unknown > 0 {
		d["votes:without-validator-record"]++
	}
	switch {
	case !propInVotes:
		d["proposer:not-in-last-commit"]++
	case propSigned:
		d["proposer:signed"]++
	default:
		d["proposer:absent"]++
	}
	if h%c.opts.RewardInterval == 0 {
		d["maturity-height"]++
	}
	if (h-1)%c.opts.BlockSpeedCalculateCycle == 0 {
		d["calc:first-in-cycle"]++
	} else {
		d["calc:cached-or-restarted"]++
	}
	if midCycleRestart {
		d["calc:recomputed-mid-cycle-on-twin"]++
	}
	if len(sortedKeysWithPrefix(o.Pre, "ri_")) > 0 {
		d["interval-record-present"]++
	}
	if len(sortedKeysWithPrefix(o.Pre, fmt.Sprintf("delegRwz_pending_%d_", h))) > 0 {
		d["delegator-reward-matured"]++
	}
}

// maxCycleSpan: seconds between the end of the last complete cycle and block h (informational).
func (c *rwCtx) maxCycleSpan(h int64) int64 {
	cyc := c.opts.BlockSpeedCalculateCycle
	end := int64(1)
	if h > cyc {
		end = (h-1)/cyc*cyc + 1
	}
	return c.times[h] - c.times[end]
}

// monitorCommitted checks the validator-side invariants on a committed state.
func (c *rwCtx) monitorCommitted(mon *rwMon, m map[string]string, h int64) (string, string) {
	for _, k := range sortedKeysWithPrefix(m, "rwcum_balance_") {
		a := strings.TrimPrefix(k, "rwcum_balance_")
		bal := bigOf(m, k)
		wd := bigOf(m, "rwcum_withdrawn_"+a)
		if bal.Sign() < 0 {
			return "matured-balance-negative", fmt.Sprintf("height %d: %s = %s", h, k, bal)
		}
		cm := mon.cumMatured[a]
		if cm == nil {
			cm = new(big.Int)
		}
		if wd.Cmp(cm) > 0 {
			return "withdrawn-exceeds-matured", fmt.Sprintf("height %d: validator %s withdrew %s in total, only %s ever matured", h, a, wd, cm)
		}
		if new(big.Int).Add(bal, wd).Cmp(cm) != 0 {
			return "matured-balance-unaccounted", fmt.Sprintf("height %d: validator %s balance %s + withdrawn %s != matured so far %s", h, a, bal, wd, cm)
		}
		cc := mon.cumCredited[a]
		if cc == nil {
			cc = new(big.Int)
		}
		if cm.Cmp(cc) > 0 {
			return "matured-exceeds-credited", fmt.Sprintf("height %d: validator %s matured %s, credited %s", h, a, cm, cc)
		}
	}
	return "", ""
}

// ---------------------------------------------------------------- generator

// timePlan chooses block time deltas: regular traffic, cycle-crossing gaps, month and year
// jumps, and stalls that eat most of what is left of a reward year.
type timePlan struct {
	mode int
	r    *rng.R
}

const day = int64(86400)

func (tp *timePlan) next(c *rwCtx, now int64, h int64) int64 {
	r := tp.r
	small := int64(1 + r.Intn(5))
	// next close still ahead (minus the close window)
	var nextClose, lastClose int64
	for _, cl := range c.closes {
		if cl-c.opts.YearCloseWindow > now && nextClose == 0 {
			nextClose = cl
		}
		lastClose = cl
	}
	switch tp.mode {
	case 0: // regular
		if r.Intn(5) == 0 {
			return int64(500 + r.Intn(3000))
		}
	case 1: // months
		if r.Intn(3) == 0 {
			return (20 + int64(r.Intn(130))) * day
		}
		if r.Intn(6) == 0 {
			return int64(500 + r.Intn(3000))
		}
	case 2: // years: reaches the burnout regime
		if r.Intn(2) == 0 {
			return (100 + int64(r.Intn(300))) * day
		}
	case 3: // stalls inside a year: a gap that eats 55..99% of what is left before the close window
		if h >= 3 && nextClose != 0 && r.Intn(4) == 0 {
			rem := nextClose - c.opts.YearCloseWindow - now
			if rem > 10*day {
				return rem * int64(55+r.Intn(45)) / 100
			}
		}
	case 4: // jump close to the end of the schedule, then stall until just before the last close window
		if h == 2 && lastClose != 0 {
			return lastClose - now - (20+int64(r.Intn(60)))*day
		}
		if h >= 4 && lastClose != 0 && r.Intn(4) == 0 {
			rem := lastClose - c.opts.YearCloseWindow - now
			if rem > 4*day {
				return rem - int64(r.Intn(int(day)))
			}
		}
		if r.Intn(8) == 0 {
			return (1 + int64(r.Intn(20))) * day
		}
	}
	return small
}

type rwGen struct {
	g        *Gen
	r        *rng.R
	unstaked map[int]int
}

// tx produces one transaction aimed at the reward mechanism, given the committed state.
func (rg *rwGen) tx(dump map[string]string) GenTx {
	g, r := rg.g, rg.r
	w := g.W
	switch x := r.Intn(20); {
	case x < 5: // delegate
		a := g.acct()
		return g.mkDefault("DELEGATE", "valid", &adeleg.AddNetworkDelegation{DelegationAddress: a.Addr, Amount: OLT(int64(1 + r.Intn(3000)))}, a)
	case x < 7: // undelegate part or all of the active amount
		a := g.acct()
		act := bigOf(dump, "deleg_a_"+AddrStr(a.Addr))
		whole := new(big.Int).Div(act, e18).Int64()
		n := int64(1 + r.Intn(50))
		if whole > 0 && r.Intn(3) > 0 {
			n = 1 + int64(r.Intn(int(whole)))
		}
		return g.mkDefault("UNDELEGATE", "maybe", &adeleg.Undelegate{Delegator: a.Addr, Amount: OLT(n)}, a)
	case x < 9: // delegator withdraws part of its reward balance (matures 4 blocks later)
		a := g.acct()
		bal := bigOf(dump, "delegRwz_balance_"+AddrStr(a.Addr))
		n := new(big.Int).Div(bal, big.NewInt(int64(1+r.Intn(4))))
		if r.Intn(5) == 0 {
			n.Add(bal, big.NewInt(1))
		}
		return g.mkDefault("DELEG_WITHDRAW", "maybe", &adeleg.Withdraw{Delegator: a.Addr, Amount: amtOf("OLT", n)}, a)
	case x < 15: // validator reward withdrawal around the matured balance
		v := w.Vals[r.Intn(len(w.Vals))]
		bal := bigOf(dump, "rwcum_balance_"+AddrStr(v.Key.Addr))
		whole := new(big.Int).Div(bal, e18)
		var n *big.Int
		note := "around-matured"
		switch r.Intn(10) {
		case 0:
			n = new(big.Int).Add(whole, big.NewInt(1)) // one token too many
			note = "matured+1"
		case 1:
			n = big.NewInt(0)
			note = "zero"
		case 2:
			hv := hostileValues()
			hv = append(hv, new(big.Int).Sub(new(big.Int).Lsh(big.NewInt(1), 64), big.NewInt(1)), // 2^64-1
				new(big.Int).Sub(new(big.Int).Lsh(big.NewInt(1), 64), big.NewInt(int64(1+r.Intn(3)))))
			n = hv[r.Intn(len(hv))]
			note = "hostile:" + n.String()
		case 3: // somebody else signs
			s := g.acct()
			return g.mkDefault("WITHDRAW_REWARD", "not-owner", &arew.Withdraw{ValidatorAddress: v.Key.Addr, SignerAddress: s.Addr, WithdrawAmount: amtOf("OLT", big.NewInt(1))}, s)
		case 4: // an address that is no validator: anybody may withdraw its (empty) matured balance
			s := g.acct()
			return g.mkDefault("WITHDRAW_REWARD", "no-validator", &arew.Withdraw{ValidatorAddress: s.Addr, SignerAddress: s.Addr, WithdrawAmount: amtOf("OLT", big.NewInt(int64(r.Intn(2))))}, s)
		case 5:
			n = new(big.Int).Set(whole) // everything
			note = "all"
		default:
			if whole.Sign() > 0 {
				n = big.NewInt(1 + int64(r.Intn(int(min64(whole.Int64(), 1000000)))))
			} else {
				n = big.NewInt(1)
			}
		}
		return g.mkDefault("WITHDRAW_REWARD", note, &arew.Withdraw{ValidatorAddress: v.Key.Addr, SignerAddress: v.Owner.Addr, WithdrawAmount: amtOf("OLT", n)}, v.Owner)
	case x < 17: // change voting powers
		i := r.Intn(len(w.Vals))
		v := w.Vals[i]
		if r.Intn(3) > 0 {
			g.Staked[i] = true
			return g.mkDefault("STAKE", "valid", &staking.Stake{ValidatorAddress: v.Key.Addr, StakeAddress: v.Owner.Addr, ValidatorPubKey: v.Key.Pub,
				ValidatorECDSAPubKey: v.EcPub, NodeName: v.Name, Stake: OLTInt(int64(1 + r.Intn(40)))}, v.Owner, v.Key)
		}
		// never unstake a validator down to nothing: an empty validator set / zero total power crashes
		// EndBlock (suspect S20, property C18), which is not this engine's subject
		if v.Stake >= 10 && rg.unstaked[i] < 3 {
			rg.unstaked[i]++
			return g.mkDefault("UNSTAKE", "maybe", &staking.Unstake{ValidatorAddress: v.Key.Addr, StakeAddress: v.Owner.Addr, Stake: OLTInt(int64(1 + r.Intn(2)))}, v.Owner, v.Key)
		}
		g.Staked[i] = true
		return g.mkDefault("STAKE", "valid", &staking.Stake{ValidatorAddress: v.Key.Addr, StakeAddress: v.Owner.Addr, ValidatorPubKey: v.Key.Pub,
			ValidatorECDSAPubKey: v.EcPub, NodeName: v.Name, Stake: OLTInt(int64(1 + r.Intn(40)))}, v.Owner, v.Key)
	case x < 18: // value sent straight into a pool (pool balance above the active delegations)
		a := g.acct()
		pools := []string{"DelegationPool", "RewardsPool"}
		return g.mkDefault("SENDPOOL", "pool", &transfer.SendPool{From: a.Addr, PoolName: pools[r.Intn(2)], Amount: OLT(int64(1 + r.Intn(200)))}, a)
	default:
		a, b := g.acct(), g.acct()
		return g.mkDefault("SEND", "valid", &transfer.Send{From: a.Addr, To: b.Addr, Amount: OLT(int64(1 + r.Intn(100)))}, a)
	}
}

func min64(a, b int64) int64 {
	if a < b {
		return a
	}
	return b
}

// mkDefault is Gen.mk with the default fee always (no low-gas variant: the fee step of the
// withdrawal model needs the gas to be ample).
func (g *Gen) mkDefault(kind, note string, msg action.Msg, signers ...*Acct) GenTx {
	raw := RawOf(msg, DefaultFee(), g.nextMemo())
	var sa []keys.Address
	for _, s := range signers {
		sa = append(sa, s.Addr)
	}
	g.Kinds[kind]++
	return GenTx{Kind: kind, Note: note, Bytes: Sign(raw, signers...), Signer: sa}
}

func genAbsent(r *rng.R, n int) map[int]bool {
	ab := map[int]bool{}
	switch r.Intn(8) {
	case 0, 1, 2:
	case 3, 4:
		ab[r.Intn(n+1)] = true
	case 5:
		for i := 0; i < n; i++ {
			if r.Bool() {
				ab[i] = true
			}
		}
	case 6: // everybody absent
		for i := 0; i < n+2; i++ {
			ab[i] = true
		}
	default:
		ab[0] = true
	}
	return ab
}

// rewardsParams: genesis family "small" with the voting-power patterns of DESIGN §6 C13.
func rewardsParams(r *rng.R, seed uint64) (Params, string) {
	p := SmallParams(seed)
	p.NVals = 1 + r.Intn(5)
	p.NCandidates = 1 + r.Intn(2)
	p.TopValidators = int64(p.NVals + p.NCandidates)
	p.MinSelfDeleg = 1
	p.StakeMaturity = int64(1 + r.Intn(3))
	p.RewardInterval = int64(1 + r.Intn(3))
	p.BlockSpeedCycle = int64(2 + r.Intn(2))
	p.NAccts = 4
	pattern := "varied"
	switch r.Intn(4) {
	case 0:
		pattern = "dominant"
		p.GenesisStake = []int64{int64(100000 + r.Intn(900000))}
		for i := 1; i < p.NVals; i++ {
			p.GenesisStake = append(p.GenesisStake, int64(1+r.Intn(3)))
		}
	case 1:
		pattern = "equal"
		s := int64(1 + r.Intn(50))
		for i := 0; i < p.NVals; i++ {
			p.GenesisStake = append(p.GenesisStake, s)
		}
	case 2:
		pattern = "primes"
		for i := 0; i < p.NVals; i++ {
			p.GenesisStake = append(p.GenesisStake, []int64{7, 11, 13, 17, 19, 23}[r.Intn(6)])
		}
	}
	if r.Intn(4) == 0 {
		p.PoolFunds = int64(1 + r.Intn(4)) // fewer tokens in the pool than the burnout rate
	}
	return p, pattern
}

// ---------------------------------------------------------------- scripted witnesses

// rwScript is a fixed minimal history: the regression scenarios of the defects this engine found
// (the shapes of the regression examples of OLP/Props/C13.lean), replayed on the implementation at
// the start of every run (one validator of
// power 10, no delegations, cycle 2, reward interval 1, everybody signs).
type rwScript struct {
	name    string
	blocks  int
	dt      func(c *rwCtx, now int64, h int64) int64
	restart func(h int64) bool
	txs     func(g *Gen, h int64) []GenTx
	// mustRefuse: every scripted transaction has to fail in CheckTx and in DeliverTx
	mustRefuse bool
	// expect: the amount both nodes must pull at a height (regression scenarios of repaired defects)
	expect map[int64]string
}

var rwScripts = []*rwScript{
	{ // stall_regression_example (KF-C13-1/2, repaired by 729d203 + 2606b58): a stall of 200 days inside
		// the first reward year. The forecast is clamped to one cycle: blocks 3 and 4 share exactly what
		// is left of the year, blocks 5 and 6 pull 0, nothing fails, the twin restarted before block 6 agrees.
		name: "stall-then-stale-cache", blocks: 6,
		expect: map[int64]string{1: "1917808219178082191780", 2: "1917808219178082191780", 3: "34999041095890410958904110",
			4: "34999041095890410958904110", 5: "0", 6: "0"},
		dt: func(c *rwCtx, now, h int64) int64 {
			if h == 3 {
				return 200 * day
			}
			return 1
		},
		restart: func(h int64) bool { return h == 6 },
	},
	{ // slow_cycle_regression_example (KF-C13-3, repaired by 729d203 + 2606b58): a cycle that ends two
		// days before the last year's close. The last year stays open (no burnout rate while the
		// schedule runs): blocks 3 and 4 share its supply, block 5 pulls 0, the twin restarted before
		// block 5 agrees.
		name: "slow-cycle-then-sticky-burnout", blocks: 5,
		expect: map[int64]string{1: "1917808219178082191780", 2: "1917808219178082191780", 3: "15000000000000000000000000",
			4: "15000000000000000000000000", 5: "0"},
		dt: func(c *rwCtx, now, h int64) int64 {
			last := c.closes[len(c.closes)-1]
			switch h {
			case 2:
				return last - 30*day - now
			case 3:
				return 28 * day
			}
			return 1
		},
		restart: func(h int64) bool { return h == 5 },
	},
	{ // wrapped_withdraw_raises_matured: WithdrawAmount 2^64-1 — repaired by /repo commit d8159a7, kept
		// as a regression scenario: the transaction must be refused by CheckTx AND by DeliverTx
		name: "withdraw-2^64-1", blocks: 2, mustRefuse: true,
		dt:      func(c *rwCtx, now, h int64) int64 { return 1 },
		restart: func(h int64) bool { return false },
		txs: func(g *Gen, h int64) []GenTx {
			if h != 2 {
				return nil
			}
			v := g.W.Vals[0]
			n := new(big.Int).Sub(new(big.Int).Lsh(big.NewInt(1), 64), big.NewInt(1))
			return []GenTx{g.mkDefault("WITHDRAW_REWARD", "hostile:"+n.String(), &arew.Withdraw{ValidatorAddress: v.Key.Addr, SignerAddress: v.Owner.Addr, WithdrawAmount: amtOf("OLT", n)}, v.Owner)}
		},
	},
}

// ---------------------------------------------------------------- the engine

func RunRewards(opt RewardsOptions) (*Result, error) {
	res := NewResult("rewards", opt.Seed, "case = one generated block history (1-5 genesis validators with dominant / equal / coprime / varied powers plus candidates, delegations and undelegations by 4 accounts incl. an empty delegation pool, direct pool transfers, stake changes, validator and delegator reward withdrawals around the matured balance incl. hostile amounts and foreign signers, absent signers incl. the proposer and everybody, block-time plans: regular, cycle gaps, month jumps, year jumps into the burnout regime, stalls eating most of a reward year, stalls before the last close window; cycle 2-3, reward interval 1-3, optional genesis interval / matured balance) executed on replica A and on twin B that is restarted before generated blocks; non-trivial = delegators were credited in some block AND B was restarted in the middle of a calculation cycle AND a reward chunk matured AND the per-block amount changed at a cycle boundary; distinct = SHA-256 of the history lines")
	root := rng.New(opt.Seed*2654435761 + 97)
	seen := map[[32]byte]bool{}
	for c := 0; c < opt.Histories; c++ {
		r := root.Fork()
		if opt.OnlyCase >= 0 && c != opt.OnlyCase {
			continue
		}
		hl := &HistoryLog{}
		hl.Add("replay engine=rewards seed=%d case=%d blocks=%d maxtxs=%d", opt.Seed, c, opt.Blocks, opt.MaxTxs)
		var script *rwScript
		if c < len(rwScripts) {
			script = rwScripts[c]
		}
		nontriv, err := runRewardsHistory(opt, c, r, res, hl, script)
		if err != nil {
			return nil, err
		}
		res.Evaluations++
		h := sha256.Sum256([]byte(strings.Join(hl.Lines, "\n")))
		if !seen[h] {
			seen[h] = true
			if nontriv {
				res.DistinctNontrivial++
			}
		}
		if len(res.Samples) < 2 && nontriv {
			res.Samples = append(res.Samples, shortAll(hl.Lines[:min(len(hl.Lines), 30)]))
		}
		TruncateAppLog()
	}
	return res, nil
}

func runRewardsHistory(opt RewardsOptions, c int, r *rng.R, res *Result, hl *HistoryLog, script *rwScript) (bool, error) {
	p, pattern := rewardsParams(r, opt.Seed*1000+uint64(c))
	nblocks := opt.Blocks
	if script != nil {
		p = SmallParams(opt.Seed*1000 + uint64(c))
		p.NVals, p.NCandidates, p.TopValidators, p.MinSelfDeleg, p.RewardInterval, p.BlockSpeedCycle, p.GenesisStake = 1, 1, 2, 1, 1, 2, []int64{10}
		pattern = "script:" + script.name
		nblocks = script.blocks
	}
	w := NewWorld(p)
	ctx := &rwCtx{w: w, opts: w.State.Governance.RewardOptions, times: map[int64]int64{}}
	// optional exported-state genesis: an interval record and a matured balance
	genIv, genMat := int64(0), int64(0)
	if r.Intn(4) == 0 && script == nil {
		genIv = int64(1 + r.Intn(5))
		w.State.Rewards.RewardState.Intervals = []rewards.Interval{{LastIndex: genIv, LastHeight: 2}}
	}
	if r.Intn(3) == 0 && script == nil {
		genMat = int64(1 + r.Intn(50))
		w.State.Rewards.CumuState.MaturedBalances = []rewards.RewardAmount{{Address: w.Vals[0].Key.Addr, Amount: balance.NewAmountFromBigInt(new(big.Int).Mul(big.NewInt(genMat), e18))}}
	}
	if genIv != 0 || genMat != 0 {
		bz, err := w.State.RawJSON()
		if err != nil {
			return false, err
		}
		w.Genesis.AppState = json.RawMessage(bz)
	}
	tp := &timePlan{mode: []int{0, 0, 1, 2, 3, 3, 4}[r.Intn(7)], r: r.Fork()}
	hl.Add("genesis seed=%d vals=%d cand=%d stakes=%v(%s) rint=%d cycle=%d poolfunds=%d genesis-interval=%d genesis-matured=%d timeplan=%d",
		p.Seed, p.NVals, p.NCandidates, p.GenesisStake, pattern, p.RewardInterval, p.BlockSpeedCycle, p.PoolFunds, genIv, genMat, tp.mode)
	res.Distribution[fmt.Sprintf("timeplan:%d", tp.mode)]++
	res.Distribution["powers:"+pattern]++
	res.Distribution[fmt.Sprintf("cycle:%d", p.BlockSpeedCycle)]++
	res.Distribution[fmt.Sprintf("interval:%d", p.RewardInterval)]++

	A, err := NewReplica(w, Identity{Name: "A", Val: w.Vals[0]})
	if err != nil {
		return false, err
	}
	defer A.Close()
	B, err := NewReplica(w, Identity{Name: "B", Val: w.Vals[0]})
	if err != nil {
		return false, err
	}
	defer B.Close()
	A.InitChain()
	B.InitChain()
	// every 5th history: a third replica that is neither probed nor restarted checks that reading
	// the calculator back does not disturb the application
	var C *Replica
	if c%5 == 0 {
		C, err = NewReplica(w, Identity{Name: "C", Val: w.Vals[0]})
		if err != nil {
			return false, err
		}
		defer C.Close()
		C.InitChain()
	}
	sim := NewSim(w)
	g := NewGen(w, r.Fork())
	rg := &rwGen{g: g, r: r.Fork(), unstaked: map[int]int{}}
	monA, monB := newRwMon(), newRwMon()
	st := map[string]int{}
	var ops, impl []string
	ops = append(ops, fmt.Sprintf("# case %d seed %d", c, opt.Seed))
	impl = append(impl, ops[0])
	midCycleRestarts, amountChanges := 0, 0
	var lastPulled *big.Int
	dumpA := A.DumpMap()
	cyc := p.BlockSpeedCycle
	hit := func(sig, detail string) {
		lines := append(append([]string{}, hl.Lines...), "--- correspondence lines ---")
		lines = append(lines, lastN(ops, 6)...)
		res.Hit(sig, c, detail, lines)
		if script != nil {
			res.Counters["witness:"+script.name+":"+sig]++
		}
	}
	stop := false
	for bi := 0; bi < nblocks && !stop; bi++ {
		h := sim.Height + 1
		g.Height = h
		var gts []GenTx
		for i, n := 0, r.Intn(opt.MaxTxs+1); i < n && script == nil; i++ {
			gts = append(gts, rg.tx(dumpA))
		}
		if script != nil && script.txs != nil {
			gts = script.txs(g, h)
			if script.mustRefuse {
				for _, t := range gts {
					if cr := A.CheckTx(t.Bytes); cr.Code == 0 {
						hl.Add("  CheckTx admitted %s (%s)", t.Kind, t.Note)
						hit("regression-"+script.name+"-admitted-by-checktx", fmt.Sprintf("block %d: CheckTx returned code 0 for %s (%s)", h, t.Kind, t.Note))
					} else {
						res.Counters["regression:"+script.name+":refused-by-checktx"]++
					}
				}
			}
		}
		var txs [][]byte
		for _, t := range gts {
			txs = append(txs, t.Bytes)
		}
		nprev := 0
		if s := sim.Sets[h-1]; s != nil {
			nprev = s.Size()
		}
		bo := BlockOpts{DtSeconds: 1, Absent: genAbsent(r, nprev)}
		if script != nil {
			bo.Absent = nil
		}
		if h == 1 {
			bo.DtSeconds = int64(1 + r.Intn(5))
		} else {
			bo.DtSeconds = tp.next(ctx, sim.Time.Unix(), h)
			if script != nil {
				bo.DtSeconds = script.dt(ctx, sim.Time.Unix(), h)
			}
		}
		b := sim.NextBlock(txs, bo)
		ctx.times[h] = b.Time.Unix()
		if h == 1 {
			ctx.setCloses()
		}
		logBlock(hl, b, gts, bo)
		// ---- twin B: restart first?
		restartB := h > 1 && r.Intn(3) == 0
		if script != nil {
			restartB = script.restart(h)
		}
		if restartB {
			if err := B.Restart(); err != nil {
				return false, fmt.Errorf("restart: %v", err)
			}
			hl.Add("  restart B before block %d (first-in-cycle=%v)", h, (h-1)%cyc == 0)
			ops = append(ops, "restart B")
			impl = append(impl, "ok")
			res.Counters["restarts"]++
			if (h-1)%cyc != 0 {
				midCycleRestarts++
				res.Counters["mid_cycle_restarts"]++
			}
		}
		// ---- BeginBlock on both, observed
		oa := ctx.observeBegin(A, "A", b, dumpA)
		ob := ctx.observeBegin(B, "B", b, dumpA)
		if A.Crashed || B.Crashed {
			hit("app-closed-by-panic", fmt.Sprintf("block %d BeginBlock", h))
			return false, nil
		}
		ops = append(ops, oa.OpLine, ob.OpLine)
		impl = append(impl, oa.ImplLine, ob.ImplLine)
		res.Distribution["blk:"+strings.Fields(oa.ImplLine)[0]]++
		ctx.branchStats(res, b, oa, restartB && (h-1)%cyc != 0)
		if sig, detail := ctx.monitorBlock(monA, oa, b, st); sig != "" {
			hit(sig, "replica A (never restarted): "+detail)
			stop = true
		}
		if sig, detail := ctx.monitorBlock(monB, ob, b, map[string]int{}); sig != "" && !stop {
			hit(sig, "replica B (restarted): "+detail)
			stop = true
		}
		// clause 4: the restarted twin hands out the same amounts
		pa, pb := "err", "err"
		if oa.Pulled != nil {
			pa = oa.Pulled.String()
		}
		if ob.Pulled != nil {
			pb = ob.Pulled.String()
		}
		if script != nil && script.expect != nil && !stop {
			if want := script.expect[h]; want != "" {
				if pa != want || pb != want {
					hit("regression-"+script.name+"-unexpected-amount", fmt.Sprintf("block %d: expected both nodes to pull %s, running node pulls %s, restarted twin %s", h, want, pa, pb))
					stop = true
				} else {
					res.Counters["regression:"+script.name+":amount-as-expected"]++
				}
			}
		}
		if (pa != pb || oa.Event.canon() != ob.Event.canon()) && !stop {
			sig := "restart-changed-rewards"
			poolNow := bigOf(oa.Post, "b_"+AddrStr([]byte(ctx.opts.RewardPoolAddress))+"_OLT")
			capped := ctx.opts.BurnoutRate.BigInt()
			if poolNow.Cmp(capped) < 0 {
				capped = poolNow
			}
			switch {
			case monA.failedCycle == (h-1)/cyc+1 && pb == "err" && pa != "err":
				// A keeps handing out a stale cached amount after the failed first block of the cycle
				sig = "restart-changed-rewards-after-failed-pull"
			case oa.Pulled != nil && oa.Pulled.Cmp(capped) == 0 && pa != pb:
				// A cached "burned out" for ever and pays min(BurnoutRate, pool); the restarted twin
				// finds a reward year still open (and pays from it, or fails because that year is
				// over-distributed)
				sig = "restart-changed-rewards-sticky-burnout"
			}
			hit(sig, fmt.Sprintf("block %d (cycle %d, first-in-cycle=%v): never-restarted node pulls %s [%s], restarted twin pulls %s [%s]",
				h, (h-1)/cyc+1, (h-1)%cyc == 0, pa, oa.Event.canon(), pb, ob.Event.canon()))
			stop = true
		}
		if oa.Pulled != nil {
			if lastPulled != nil && lastPulled.Cmp(oa.Pulled) != 0 && (h-1)%cyc == 0 {
				amountChanges++
			}
			if lastPulled != nil && lastPulled.Cmp(oa.Pulled) != 0 && (h-1)%cyc != 0 {
				res.Counters["amount-changed-inside-cycle"]++ // legitimate only in the burnout regime (pool cap moves)
			}
			lastPulled = oa.Pulled
		}
		// ---- transactions (A observed per tx, B plain)
		ra := &BlockResult{Height: h}
		rb := &BlockResult{Height: h}
		for i, tx := range b.Txs {
			var before map[string]string
			if gts[i].Kind == "WITHDRAW_REWARD" {
				before = overlayView(dumpA, pendingOf(A.App.VerifDeliverState()))
			}
			tr := A.DeliverTx(tx)
			ra.Txs = append(ra.Txs, tr)
			rb.Txs = append(rb.Txs, B.DeliverTx(tx))
			res.Distribution[fmt.Sprintf("%s:%d", gts[i].Kind, tr.Code)]++
			if A.Crashed || B.Crashed {
				hit("app-closed-by-panic", fmt.Sprintf("block %d tx %d %s(%s)", h, i, gts[i].Kind, gts[i].Note))
				return false, nil
			}
			if script != nil && script.mustRefuse {
				if tr.Code == 0 {
					hit("regression-"+script.name+"-executed", fmt.Sprintf("block %d tx %d: DeliverTx returned code 0 for %s (%s)", h, i, gts[i].Kind, gts[i].Note))
				} else {
					res.Counters["regression:"+script.name+":refused-by-delivertx"]++
				}
			}
			if before != nil {
				after := overlayView(dumpA, pendingOf(A.App.VerifDeliverState()))
				op, im, sig, detail := ctx.observeWithdraw(tx, tr, before, after, st)
				if op != "" {
					ops = append(ops, op)
					impl = append(impl, im)
				}
				if sig != "" && !stop {
					hit(sig, fmt.Sprintf("block %d tx %d (%s): %s", h, i, gts[i].Note, detail))
					stop = true
				}
			}
		}
		ea := A.EndBlock(h)
		eb := B.EndBlock(h)
		if A.Crashed || B.Crashed {
			hit("app-closed-by-panic", fmt.Sprintf("block %d EndBlock", h))
			return false, nil
		}
		ra.Updates = ea.ValidatorUpdates
		ra.AppHash = A.Commit()
		A.IndexBlock(b, ra)
		rb.Updates = eb.ValidatorUpdates
		rb.AppHash = B.Commit()
		B.IndexBlock(b, rb)
		if A.Crashed || B.Crashed {
			hit("app-closed-by-panic", fmt.Sprintf("block %d Commit", h))
			return false, nil
		}
		if ra.Transcript() != rb.Transcript() && !stop {
			hit("restart-twin-diverged", fmt.Sprintf("block %d: %s | A: %.300s | B: %.300s", h, diffDumps(A.Dump(), B.Dump()), ra.Transcript(), rb.Transcript()))
			stop = true
		}
		if C != nil {
			rc := C.ExecBlock(b)
			if rc.Transcript() != ra.Transcript() {
				return false, fmt.Errorf("harness self-check: reading the calculator back disturbed replica A at block %d: %s", h, diffDumps(A.Dump(), C.Dump()))
			}
		}
		sim.Absorb(b, ra)
		dumpA = A.DumpMap()
		if sig, detail := ctx.monitorCommitted(monA, dumpA, h); sig != "" && !stop {
			hit(sig, detail)
			stop = true
		}
	}
	for k, v := range st {
		res.Counters[k] += v
	}
	// ---- correspondence
	res.Counters["correspondence_lines"] += len(ops)
	model, err := kv.RunDriver(opt.Driver, "rewards", ops)
	if err != nil {
		return false, err
	}
	for i := range ops {
		a, m := impl[i], model[i]
		if strings.HasPrefix(ops[i], "wd ") {
			f := strings.Fields(m + " -")
			if f[0] == "fail" {
				res.Distribution["wd:fail-"+f[1]]++
			} else {
				res.Distribution["wd:"+f[0]]++
			}
			if a == "fail" && strings.HasPrefix(m, "fail") {
				continue
			}
		}
		if a != m {
			res.DisagreementCount++
			if len(res.Disagreements) < 5 {
				lines := append(append([]string{}, hl.Lines...), "--- op ---", ops[i])
				res.Disagreements = append(res.Disagreements, Disagreement{Kind: "rewards-model", Case: c, Op: firstDiff(a, m), Impl: a, Model: m, Ops: lines})
			}
		}
	}
	if opt.Verbose {
		for i := range ops {
			fmt.Fprintf(realOut(), "OP    %s\nIMPL  %s\nMODEL %s\n", ops[i], impl[i], model[i])
		}
	}
	nontriv := st["blocks-with-delegator-credits"] > 0 && midCycleRestarts > 0 && st["matured-credits"] > 0 && amountChanges > 0
	return nontriv, nil
}

func realOut() *os.File {
	if realStdout != nil {
		return realStdout
	}
	return os.Stdout
}

func lastN(a []string, n int) []string {
	if len(a) > n {
		a = a[len(a)-n:]
	}
	out := make([]string, len(a))
	for i, l := range a {
		if len(l) > 3000 {
			l = l[:3000] + "…"
		}
		out[i] = l
	}
	return out
}

func firstDiff(a, b string) string {
	fa, fb := strings.Fields(a), strings.Fields(b)
	for i := 0; i < len(fa) || i < len(fb); i++ {
		var x, y string
		if i < len(fa) {
			x = fa[i]
		}
		if i < len(fb) {
			y = fb[i]
		}
		if x != y {
			if len(x) > 300 {
				x = x[:300]
			}
			if len(y) > 300 {
				y = y[:300]
			}
			return fmt.Sprintf("field %d: impl %s | model %s", i, x, y)
		}
	}
	return "equal"
}

// observeWithdraw builds the wd correspondence lines of one WITHDRAW_REWARD transaction and
// evaluates clause 3 on it.
func (c *rwCtx) observeWithdraw(tx []byte, tr TxResult, before, after map[string]string, st map[string]int) (op, im, sig, detail string) {
	var stx action.SignedTx
	if err := json.Unmarshal(tx, &stx); err != nil {
		return
	}
	var wd arew.Withdraw
	if err := wd.Unmarshal(stx.Data); err != nil {
		return
	}
	val := AddrStr(wd.ValidatorAddress)
	signer := AddrStr(wd.SignerAddress)
	poolKey := "b_" + AddrStr([]byte(c.opts.RewardPoolAddress)) + "_OLT"
	stake := "~"
	if v, ok := before[rawAddrKey("v_", wd.ValidatorAddress)]; ok && len(v) > 0 {
		var rec struct {
			StakeAddress string `json:"stakeAddress"`
		}
		if json.Unmarshal([]byte(v), &rec) == nil {
			stake = rec.StakeAddress
		}
	}
	cur := 0
	if wd.WithdrawAmount.Currency == "OLT" && wd.ValidatorAddress.Err() == nil {
		cur = 1
	}
	charge := "~"
	if tr.Code == 0 {
		charge = new(big.Int).Mul(stx.Fee.Price.Value.BigInt(), big.NewInt(tr.GasUsed)).String()
	}
	mb, wb := bigOf(before, "rwcum_balance_"+val), bigOf(before, "rwcum_withdrawn_"+val)
	pb, sb := bigOf(before, poolKey), bigOf(before, "b_"+signer+"_OLT")
	op = fmt.Sprintf("wd mat=%s wdn=%s pool=%s sb=%s cur=%d stake=%s signer=%s value=%s charge=%s", mb, wb, pb, sb, cur, stake, signer, wd.WithdrawAmount.Value.String(), charge)
	ma, wa := bigOf(after, "rwcum_balance_"+val), bigOf(after, "rwcum_withdrawn_"+val)
	pa, sa := bigOf(after, poolKey), bigOf(after, "b_"+signer+"_OLT")
	if tr.Code != 0 {
		im = "fail"
		if ma.Cmp(mb) != 0 || wa.Cmp(wb) != 0 || pa.Cmp(pb) != 0 {
			sig, detail = "failed-withdraw-left-a-trace", fmt.Sprintf("matured %s -> %s, withdrawn %s -> %s, pool %s -> %s", mb, ma, wb, wa, pb, pa)
		}
		st["withdraw-failed"]++
		return
	}
	im = fmt.Sprintf("ok mat=%s wdn=%s pool=%s sb=%s", ma, wa, pa, sa)
	st["withdraw-ok"]++
	coin := new(big.Int).Sub(wa, wb) // what the transaction added to the withdrawn total
	paid := new(big.Int).Sub(pb, pa) // what left the rewards pool
	switch {
	case ma.Sign() < 0:
		sig, detail = "matured-balance-negative", fmt.Sprintf("validator %s matured balance %s after withdrawing %s", val, ma, coin)
	case coin.Cmp(mb) > 0 || paid.Cmp(mb) > 0:
		sig, detail = "withdraw-exceeds-matured", fmt.Sprintf("validator %s: withdrew %s (pool paid %s) with only %s matured", val, coin, paid, mb)
	case ma.Cmp(mb) > 0:
		sig = "withdraw-raised-matured-balance"
		if wd.WithdrawAmount.Value.BigInt().Cmp(new(big.Int).Lsh(big.NewInt(1), 63)) >= 0 {
			sig = "withdraw-raised-matured-balance-int64-wrap" // Validate checks Value, the handler uses Value.Int64()
		}
		detail = fmt.Sprintf("validator %s: WithdrawAmount %s accepted, matured balance %s -> %s, withdrawn total %s -> %s, rewards pool %s -> %s",
			val, wd.WithdrawAmount.Value.String(), mb, ma, wb, wa, pb, pa)
	case new(big.Int).Sub(mb, ma).Cmp(coin) != 0 || paid.Cmp(coin) != 0:
		sig, detail = "withdraw-books-disagree", fmt.Sprintf("matured fell by %s, withdrawn grew by %s, pool paid %s", new(big.Int).Sub(mb, ma), coin, paid)
	}
	if coin.Sign() > 0 {
		st["withdraw-positive"]++
	}
	return
}

// ReplayRewards re-executes the case named in the first line of a replay file.
func ReplayRewards(driver, path string) (*Result, error) {
	bz, err := ioutil.ReadFile(path)
	if err != nil {
		return nil, err
	}
	for _, l := range strings.Split(string(bz), "\n") {
		if !strings.HasPrefix(l, "replay engine=rewards ") {
			continue
		}
		kvs := map[string]uint64{}
		for _, f := range strings.Fields(l)[2:] {
			p := strings.SplitN(f, "=", 2)
			if len(p) == 2 {
				n, _ := strconv.ParseUint(p[1], 10, 64)
				kvs[p[0]] = n
			}
		}
		return RunRewards(RewardsOptions{Driver: driver, Seed: kvs["seed"], Histories: int(kvs["case"]) + 1, Blocks: int(kvs["blocks"]), MaxTxs: int(kvs["maxtxs"]), OnlyCase: int(kvs["case"]), Verbose: true})
	}
	return nil, fmt.Errorf("%s: no `replay engine=rewards …` line", path)
}

var _ = hex.EncodeToString

package apph

// C19 property monitor: the property's own predicate evaluated on the implementation's decoded
// state views. Nothing here calls the Lean model.
//
//   verdict iff threshold      reference tally (exact rationals) over the votes of DISTINCT
//                              validators that are CURRENTLY ACTIVE, each counted once
//   one vote per validator     no request ever holds two votes of one address; a successful vote
//                              adds exactly the signer's vote
//   only active allege/vote    a successful ALLEGATION / ALLEGATION_VOTE was signed by an address
//                              whose status record is active in the view it executed on
//   guilty => frozen           a guilty validator stays frozen in every later view until a
//                              successful RELEASE, which must come after verdict time + release days
//   frozen => no staking       STAKE / UNSTAKE / WITHDRAW naming or funded by a frozen validator fail
//   penalty                    stake records fall by exactly round(stake * base%), the bounty
//                              address gains floor(penalty * bounty%) <= penalty, nothing else moves
//   drops out                  a validator frozen at BeginBlock is not elected at that block's end

import (
	"fmt"
	"math/big"
	"sort"
	"strings"

	abci "github.com/tendermint/tendermint/abci/types"
)

type guiltyRec struct {
	Height int64
	Time   int64
}

type allegMonitor struct {
	x          *allegRun
	guilty     map[string]guiltyRec // found guilty and not yet released
	frozenRun  map[string]int       // consecutive blocks (height > window) the validator was frozen at BeginBlock
	expectDrop map[string]*big.Int  // validator -> penalty whose delayed power update is due in the next BeginBlock
	prevStake  map[string]*big.Int
}

func newAllegMonitor(x *allegRun) *allegMonitor {
	return &allegMonitor{x: x, guilty: map[string]guiltyRec{}, frozenRun: map[string]int{}, expectDrop: map[string]*big.Int{}}
}

func (m *allegMonitor) hit(sig string, f string, a ...interface{}) {
	m.x.res.Hit(sig, m.x.c, fmt.Sprintf(f, a...), m.x.hl.Lines)
}

func votersNodup(st *AState) (string, bool) {
	for id, q := range st.Reqs {
		seen := map[string]bool{}
		for _, v := range q.Votes {
			if seen[v.Addr] {
				return fmt.Sprintf("request %q holds two votes of %s", id, v.Addr), false
			}
			seen[v.Addr] = true
		}
	}
	return "", true
}

func (m *allegMonitor) afterBegin(h, now int64, pre, post *AState) {
	// delayed power update of a validator found guilty in the previous block
	for a, p := range m.expectDrop {
		b, c := pre.Vals[a], post.Vals[a]
		if b != nil && c != nil {
			want := new(big.Int).Sub(b.Staking, p)
			if c.Staking.Cmp(want) != 0 {
				m.hit("delayed-power-update-not-applied", "block %d: validator record of %s staking %s -> %s, the penalty of the previous block was %s", h, a, b.Staking, c.Staking, p)
			} else {
				m.x.res.Counters["delayed_power_update_applied"]++
			}
		}
		delete(m.expectDrop, a)
	}
	// who is frozen as of this BeginBlock (the election of this block must skip them)
	for a := range post.Susp {
		if !post.isFrozen(a) {
			delete(m.frozenRun, a)
		}
	}
}

func (m *allegMonitor) afterTx(h, now int64, t *aTx, tr TxResult, cls string, before, after *AState) {
	if msg, ok := votersNodup(after); !ok {
		m.hit("two-votes-of-one-validator", "block %d after %s(%s): %s", h, t.Kind, t.Note, msg)
	}
	ok := tr.Code == 0
	if !ok {
		if strings.Join(before.evTokens(), " ") != strings.Join(after.evTokens(), " ") {
			m.hit("failed-tx-changed-evidence-records", "block %d %s(%s) code %d", h, t.Kind, t.Note, tr.Code)
		}
		if t.Op == "vote" && (cls == "nonActive" || cls == "frozen" || cls == "dupVote" || cls == "rejected") ||
			t.Op == "allege" && (cls == "nonActive" || cls == "rejected") || t.Op == "release" && cls == "tooEarly" {
			m.x.guards++
		}
		return
	}
	switch t.Op {
	case "allege":
		if !before.isActive(t.Signer) {
			m.hit("allegation-by-non-active-account", "block %d: ALLEGATION by %s succeeded; its status record in the executing view: %+v", h, t.Signer, before.VStat[t.Signer])
		}
		if !t.SigOK {
			m.hit("allegation-without-valid-signature", "block %d", h)
		}
		q := after.Reqs[t.ID]
		if q == nil && t.ID == "" && after.Tracker[""] {
			m.hit("empty-id-request-dropped-by-tracker-cleanup", "block %d: successful ALLEGATION with an empty request id against %s left no request (deleted by CleanTracker inside PerformAllegation); tracker %v", h, t.Accused, sortedKeys(after.Tracker))
		} else if q == nil || q.Reporter != t.Signer || q.Accused != t.Accused || len(q.Votes) != 0 || !after.Tracker[t.ID] {
			m.hit("allegation-not-recorded", "block %d: successful ALLEGATION %q left request %+v tracker %v", h, t.ID, q, after.Tracker[t.ID])
		}
		if before.Reqs[t.ID] != nil {
			m.hit("allegation-overwrote-request", "block %d: id %q was in use", h, t.ID)
		}
		for id, o := range before.Reqs {
			if o.Accused == t.Accused {
				m.hit("second-allegation-against-accused-accepted", "block %d: %s already has the open request %q", h, t.Accused, id)
			}
		}
	case "vote":
		if !before.isActive(t.Signer) {
			m.hit("vote-by-non-active-account", "block %d: ALLEGATION_VOTE by %s succeeded; its status record in the executing view: %+v", h, t.Signer, before.VStat[t.Signer])
		}
		if before.isFrozen(t.Signer) {
			m.hit("vote-by-frozen-validator", "block %d: voter %s", h, t.Signer)
		}
		if !t.SigOK {
			m.hit("vote-without-valid-signature", "block %d", h)
		}
		b, a := before.Reqs[t.ID], after.Reqs[t.ID]
		if b == nil || a == nil {
			m.hit("vote-on-missing-request", "block %d id %q", h, t.ID)
			return
		}
		for _, v := range b.Votes {
			if v.Addr == t.Signer {
				m.hit("second-vote-accepted", "block %d: %s had already voted on %q", h, t.Signer, t.ID)
			}
		}
		if t.Choice != 1 && t.Choice != 2 {
			m.hit("vote-with-invalid-choice-accepted", "block %d choice %d", h, t.Choice)
		}
		n := 0
		for _, v := range a.Votes {
			if v.Addr == t.Signer && v.Choice == t.Choice {
				n++
			}
		}
		if len(a.Votes) != len(b.Votes)+1 || n != 1 {
			m.hit("vote-not-recorded-once", "block %d: votes %v -> %v", h, b.Votes, a.Votes)
		}
	case "release":
		s := before.Susp[t.Signer]
		if s == nil || !s.frozen() {
			m.hit("release-of-non-frozen", "block %d: %s", h, t.Signer)
		}
		if g, isG := m.guilty[t.Signer]; isG {
			if !(now > g.Time+86400*m.x.eo.ValidatorReleaseTime) {
				sig := "released-before-release-time"
				if s != nil && s.Status == 1 {
					// the guilty record was overwritten by a missed-votes record, which has no waiting time
					sig = "guilty-record-overwritten-by-missed-votes-then-released-early"
				}
				m.hit(sig, "block %d time %d: validator %s found guilty at height %d time %d released %d s later; release time is %d day(s); record before release %+v",
					h, now, t.Signer, g.Height, g.Time, now-g.Time, m.x.eo.ValidatorReleaseTime, *s)
			}
			if after.isFrozen(t.Signer) {
				// released in the same second it was (re)frozen: still frozen, keep it
				return
			}
			delete(m.guilty, t.Signer)
			m.x.res.Counters["guilty_released"]++
		}
	case "stake", "unstake", "withdraw":
		if before.isFrozen(t.Val) {
			m.hit("frozen-validator-"+t.Op+"-succeeded", "block %d: %s naming frozen validator %s succeeded", h, t.Kind, t.Val)
		}
		if t.Op == "withdraw" {
			for a, v := range before.Vals {
				if v.StakeAddr == t.StakeAddr && before.isFrozen(a) && a != t.Val {
					m.hit("frozen-validator-withdrew-naming-another-validator-address", "block %d: stake account %s of frozen validator %s withdrew %s naming validator address %s (no validator record: %v); bounded stake %v -> %v",
						h, t.StakeAddr, a, t.Amount, t.Val, before.Vals[t.Val] == nil, before.DB[t.StakeAddr], after.DB[t.StakeAddr])
				}
			}
		}
		if t.Op == "unstake" {
			for id, q := range before.Reqs {
				if q.Accused == t.Val {
					m.hit("unstake-while-accused-succeeded", "block %d: %s has the open request %q", h, t.Val, id)
				}
			}
		}
	}
}

func refVerdict(yes, no, required, ap, ad int64) string {
	if required <= 0 {
		return "none"
	}
	if xGuilty(yes, required, ap, ad) {
		return "guilty"
	}
	if xInnocent(no, required, ap, ad) {
		return "innocent"
	}
	return "none"
}

func (m *allegMonitor) afterEnd(h, now int64, pre, afterBegin, before, after *AState, elected []string, events []abci.Event) {
	o := m.x.eo
	if msg, ok := votersNodup(after); !ok {
		m.hit("two-votes-of-one-validator", "block %d after EndBlock: %s", h, msg)
	}
	// ---- drops out of the validator set
	isEl := map[string]bool{}
	for _, a := range elected {
		isEl[a] = true
	}
	for a := range afterBegin.Susp {
		if !afterBegin.isFrozen(a) {
			continue
		}
		if isEl[a] {
			sig := "frozen-validator-elected"
			if h <= o.BlockVotesDiff {
				sig = "frozen-validator-elected-inside-first-votes-window"
			}
			m.hit(sig, "block %d (missed-votes window %d): validator %s frozen since height %d is in the update list with positive power", h, o.BlockVotesDiff, a, afterBegin.Susp[a].FH)
		} else if h > 1 && pre.Vals[a] != nil {
			if after.isActive(a) {
				m.hit("frozen-validator-still-active-status", "block %d: %s", h, a)
			}
			m.x.res.Counters["frozen_not_elected"]++
		}
		if pre.Vals[a] != nil && len(elected) > 0 {
			// (with nobody elected the application keeps the last set: it never empties Tendermint's)
			m.frozenRun[a]++
		} else {
			// (a validator whose record was deleted is never purged again: C10, not this property)
			delete(m.frozenRun, a)
		}
	}
	// ---- verdicts
	active := int64(len(elected))
	if h <= 1 {
		active = 0
	}
	required := int64(0)
	if active > 0 {
		required = xRequired(active, o.ValidatorVotePercentage, o.ValidatorVoteDecimals)
	}
	expect := map[string]*big.Int{} // expected decrease per stake record key (T=, E=, D=)
	expBounty := new(big.Int)
	ids := sortedKeys(before.Tracker)
	seenAcc := map[string]bool{}
	evStatus := map[string]int{} // accused -> status byte of the allegation_tracker event of this block
	for _, ev := range events {
		if ev.Type != "allegation_tracker" {
			continue
		}
		m.x.res.Counters["verdict_events"]++
		var mal string
		st := 0
		for _, at := range ev.Attributes {
			switch string(at.Key) {
			case "block.malicious":
				mal = fmt.Sprintf("%x", at.Value)
			case "block.status":
				if len(at.Value) == 1 {
					st = int(at.Value[0])
				}
			}
		}
		evStatus[mal] = st
	}
	for _, id := range ids {
		q := before.Reqs[id]
		if q == nil {
			continue
		}
		var yesAll, noAll, yesAct, noAct int64
		cnt := map[string]bool{}
		for _, v := range q.Votes {
			if cnt[v.Addr] {
				continue
			}
			cnt[v.Addr] = true
			// currently active: the status record as rewritten by this block's election pass, the
			// same basis as the active count the required number of votes is computed from
			act := after.isActive(v.Addr)
			switch v.Choice {
			case 1:
				yesAll++
				if act {
					yesAct++
				}
			case 2:
				noAll++
				if act {
					noAct++
				}
			}
		}
		if seenAcc[q.Accused] {
			// the duplicate check of PerformAllegation sees every open request: this cannot happen
			m.hit("two-open-requests-against-one-address", "block %d: request %q against %s beside another open request", h, id, q.Accused)
			continue
		}
		post := after.Susp[q.Accused]
		implV := "none"
		if post != nil && post.Status == 2 && post.FH == h && post.FAt == now && post.RAt == nil {
			implV = "guilty"
			if after.Reqs[id] == nil && evStatus[q.Accused] != 3 {
				m.hit("guilty-verdict-without-event", "block %d request %q against %s", h, id, q.Accused)
			}
		} else if after.Reqs[id] == nil {
			if evStatus[q.Accused] == 2 {
				implV = "innocent"
			} else {
				implV = "dropped"
			}
		}
		seenAcc[q.Accused] = true
		if implV == "dropped" {
			// the only request against this address vanished without a verdict
			if e := before.Reqs[""]; e != nil && e.Accused == q.Accused {
				m.hit("empty-id-request-dropped-by-tracker-cleanup", "block %d: request %q against %s (votes %v) was deleted by CleanTracker without a verdict; tracker %v", h, id, q.Accused, q.Votes, sortedKeys(before.Tracker))
			} else {
				m.hit("request-dropped-without-verdict", "block %d: request %q against %s (votes %v) vanished; tracker %v", h, id, q.Accused, q.Votes, sortedKeys(before.Tracker))
			}
			continue
		}
		refAct := refVerdict(yesAct, noAct, required, o.AllegationPercentage, o.AllegationDecimals)
		refAll := refVerdict(yesAll, noAll, required, o.AllegationPercentage, o.AllegationDecimals)
		m.x.res.Distribution["verdict:"+implV]++
		if implV != "none" && len(q.Votes) > 0 {
			m.x.verdicts++
		}
		detail := fmt.Sprintf("block %d request %q against %s: implementation %s; active=%d required=%d share=%d/%d; all stored votes yes=%d no=%d -> %s; votes of currently active validators yes=%d no=%d -> %s; votes %v",
			h, id, q.Accused, implV, active, required, o.AllegationPercentage, o.AllegationDecimals, yesAll, noAll, refAll, yesAct, noAct, refAct, q.Votes)
		if implV != refAct {
			switch {
			case implV == refAll:
				m.hit("verdict-counts-votes-of-no-longer-active-validators", "%s", detail)
			case implV == "innocent" && refAll == "none" && noAll*o.AllegationDecimals == (o.AllegationDecimals-o.AllegationPercentage)*required &&
				fInnocent(int(noAll), int(required), o.AllegationPercentage, o.AllegationDecimals):
				m.hit("innocent-verdict-at-exactly-the-share-float-rounding", "%s; float64: %d/%d > 1-%d/%d is true", detail, noAll, required, o.AllegationPercentage, o.AllegationDecimals)
			default:
				m.hit("verdict-does-not-follow-votes", "%s", detail)
			}
		}
		// ---- consequences of a guilty verdict
		if implV == "guilty" {
			if !after.isFrozen(q.Accused) {
				m.hit("guilty-not-frozen", "%s", detail)
			}
			if _, was := m.guilty[q.Accused]; !was {
				m.guilty[q.Accused] = guiltyRec{h, now}
			}
			if after.Reqs[id] != nil {
				// no validator record one block ago: frozen, request stays open (decided again next block)
				m.x.res.Counters["guilty_without_validator_record"]++
				m.x.res.Distribution["tally:guilty-no-validator-record-request-stays"]++
				if pre.Vals[q.Accused] != nil {
					m.hit("guilty-request-left-open", "%s", detail)
				}
				continue
			}
			v := pre.Vals[q.Accused]
			if v == nil {
				m.hit("penalty-without-validator-record", "%s", detail)
				continue
			}
			if c := after.Vals[q.Accused]; c != nil {
				v = c // the slash charges the stake address the validator has now
			}
			stake := before.Total[q.Accused]
			if stake == nil {
				stake = new(big.Int)
			}
			p := xPenalty(stake, o.PenaltyBasePercentage, o.PenaltyBaseDecimals)
			m.x.res.Distribution[fmt.Sprintf("penalty:fraction-%s", fracClass(stake, o.PenaltyBasePercentage, o.PenaltyBaseDecimals))]++
			add := func(k string) {
				if expect[k] == nil {
					expect[k] = new(big.Int)
				}
				expect[k].Add(expect[k], p)
			}
			add("T=" + q.Accused)
			add("E=" + q.Accused + "/" + v.StakeAddr)
			add("D=" + v.StakeAddr)
			bnt := new(big.Int).Mul(p, e18)
			bnt.Mul(bnt, big.NewInt(o.PenaltyBountyPercentage))
			bnt.Div(bnt, big.NewInt(o.PenaltyBountyDecimals))
			expBounty.Add(expBounty, bnt)
			m.expectDrop[q.Accused] = p
			m.x.res.Distribution["tally:guilty-stake-debited"]++
			hasU := false
			for _, d := range after.Delayed {
				if d.Height == h && d.Addr == q.Accused && d.Amount.Cmp(p) == 0 {
					hasU = true
				}
			}
			if !hasU {
				m.hit("delayed-power-update-not-scheduled", "%s penalty %s", detail, p)
			}
		}
	}
	// stake records and bounty: exactly the expected movements, nothing else
	moved := map[string]bool{}
	chk := func(prefix string, b, a map[string]*big.Int) {
		for _, k := range unionKeys(b, a) {
			bv, av := b[k], a[k]
			if bv == nil {
				bv = new(big.Int)
			}
			if av == nil {
				av = new(big.Int)
			}
			d := new(big.Int).Sub(bv, av)
			e := expect[prefix+k]
			if e == nil {
				e = new(big.Int)
			}
			moved[prefix+k] = true
			if d.Cmp(e) != 0 {
				m.hit("penalty-not-exact", "block %d: stake record %s%s went %s -> %s (fell by %s), the verdicts of this block take exactly %s", h, prefix, k, bv, av, d, e)
			}
		}
	}
	chk("T=", before.Total, after.Total)
	chk("E=", before.VD, after.VD)
	chk("D=", before.DE, after.DE)
	for k, e := range expect {
		if !moved[k] && e.Sign() != 0 {
			m.hit("penalty-not-exact", "block %d: stake record %s absent, expected to fall by %s", h, k, e)
		}
	}
	gain := new(big.Int).Sub(after.Bounty, before.Bounty)
	if gain.Cmp(expBounty) != 0 {
		sig := "bounty-not-the-configured-share"
		tot := new(big.Int)
		for k, e := range expect {
			if strings.HasPrefix(k, "T=") {
				tot.Add(tot, e)
			}
		}
		if gain.Cmp(new(big.Int).Mul(tot, e18)) > 0 {
			sig = "bounty-exceeds-penalty"
		}
		m.hit(sig, "block %d: bounty address gained %s, the verdicts of this block give %s", h, gain, expBounty)
	}
}

func fracClass(stake *big.Int, bp, bd int64) string {
	n := new(big.Int).Mul(stake, big.NewInt(bp))
	r := new(big.Int).Mod(n, big.NewInt(bd))
	two := new(big.Int).Mul(r, big.NewInt(2))
	switch c := two.Cmp(big.NewInt(bd)); {
	case r.Sign() == 0:
		return "integer"
	case c == 0:
		return "exactly-half"
	case c < 0:
		return "below-half"
	default:
		return "above-half"
	}
}

func unionKeys(a, b map[string]*big.Int) []string {
	s := map[string]bool{}
	for k := range a {
		s[k] = true
	}
	for k := range b {
		s[k] = true
	}
	var out []string
	for k := range s {
		out = append(out, k)
	}
	sort.Strings(out)
	return out
}

func (m *allegMonitor) afterCommit(h, now int64, st *AState) {
	for a, g := range m.guilty {
		if !st.isFrozen(a) {
			m.hit("guilty-validator-unfrozen-without-release", "block %d: %s found guilty at height %d; record now %+v", h, a, g.Height, st.Susp[a])
			delete(m.guilty, a)
		}
	}
	// a validator frozen for 6 consecutive BeginBlocks must have left Tendermint's set
	if len(m.x.sim.TMErrors) == 0 {
		if set := m.x.sim.Sets[h+1]; set != nil {
			for a, n := range m.frozenRun {
				if n < 6 {
					continue
				}
				for _, v := range set.Validators {
					if fmt.Sprintf("%x", []byte(v.Address)) == a {
						m.hit("frozen-validator-still-in-tendermint-set", "block %d: %s frozen for %d blocks, still has voting power %d", h, a, n, v.VotingPower)
					}
				}
			}
		}
	}
}

package apph

import (
	"bytes"
	"encoding/json"
	"fmt"
	"math/big"
	"reflect"

	"github.com/Oneledger/protocol/action"
	"github.com/Oneledger/protocol/consensus"
	"github.com/Oneledger/protocol/data/balance"
	"github.com/Oneledger/protocol/data/keys"
	"github.com/btcsuite/btcd/btcec"

	"olverif/harness/rng"
)

// Reencode returns the same signed content in another JSON encoding (the parsed SignedTx is
// identical, the received bytes are not): 0 = indented, 1 = keys re-ordered (map order),
// 2 = an unknown top-level field added, 3 = trailing whitespace; 4..6 alter the part of the
// envelope no signature covers, the signature list itself, and are re-serialised canonically:
// 4 = first signature duplicated, 5 = an empty signature entry appended, 6 = a stranger's valid
// signature over the same content appended; 7 and 8 spell the first signer's public key differently
// (7 = the other customary spelling of the same key: tendermint's amino prefix in front of an
// ED25519 or SECP256K1 key, the uncompressed point for a BTCEC key; 8 = a zero byte appended);
// 9 and 10 spell the first signature differently (9 = a zero byte appended; 10 = the twin
// signature anybody can compute from a valid one: (r, N-s) for the two ECDSA algorithms, in the
// encoding of the original, and (R, s+L) for ED25519); 11 and 12 touch the last byte of the first
// signature (11 = dropped, 12 = changed: where a signature carries a byte the verification does not
// read — a recovery id — every value of it is another spelling); 13 names the other algorithm
// that accepts the same key bytes: a SECP256K1 entry as BTCEC with the DER encoding of the same
// (r, s), a BTCEC entry as SECP256K1 with r || s; 14 sets every DECLARED field of the envelope that
// is neither part of the signed content (the embedded RawTx) nor the signature list to a non-zero
// value: the canonical-encoding guard reproduces declared fields, so such a field would be a free
// parameter of every transaction (on the unchanged tree there is none and the class does not apply).
func Reencode(tx []byte, how int) []byte {
	if how == 3 {
		return append(append([]byte{}, tx...), ' ', '\n')
	}
	if how >= 4 {
		st, ok := parseSigned(tx)
		if !ok || len(st.Signatures) == 0 {
			return nil
		}
		switch how {
		case 4:
			st.Signatures = append(st.Signatures, st.Signatures[0])
		case 5:
			st.Signatures = append(st.Signatures, action.Signature{})
		case 7, 8:
			k := st.Signatures[0].Signer
			d := append([]byte{}, k.Data...)
			if how == 8 {
				d = append(d, 0)
			} else {
				switch k.KeyType {
				case keys.ED25519:
					d = append([]byte{0x16, 0x24, 0xDE, 0x64, 0x20}, d...)
				case keys.SECP256K1:
					d = append([]byte{0xEB, 0x5A, 0xE9, 0x87, 0x21}, d...)
				default:
					pk, err := btcec.ParsePubKey(d, btcec.S256())
					if err != nil {
						return nil
					}
					d = pk.SerializeUncompressed()
				}
			}
			st.Signatures[0].Signer = keys.PublicKey{KeyType: k.KeyType, Data: d}
		case 9:
			st.Signatures[0].Signed = append(append([]byte{}, st.Signatures[0].Signed...), 0)
		case 14:
			v := reflect.ValueOf(st).Elem()
			changed := false
			for i := 0; i < v.NumField(); i++ {
				f := v.Type().Field(i)
				if f.Anonymous || f.Name == "Signatures" || !v.Field(i).CanSet() {
					continue
				}
				switch v.Field(i).Kind() {
				case reflect.String:
					v.Field(i).SetString("x")
					changed = true
				case reflect.Int, reflect.Int8, reflect.Int16, reflect.Int32, reflect.Int64:
					v.Field(i).SetInt(1)
					changed = true
				case reflect.Uint, reflect.Uint8, reflect.Uint16, reflect.Uint32, reflect.Uint64:
					v.Field(i).SetUint(1)
					changed = true
				case reflect.Bool:
					v.Field(i).SetBool(true)
					changed = true
				case reflect.Slice:
					if f.Type.Elem().Kind() == reflect.Uint8 {
						v.Field(i).SetBytes([]byte{1})
						changed = true
					}
				}
			}
			if !changed {
				return nil
			}
		case 11:
			if n := len(st.Signatures[0].Signed); n > 1 {
				st.Signatures[0].Signed = append([]byte{}, st.Signatures[0].Signed[:n-1]...)
			} else {
				return nil
			}
		case 12:
			if n := len(st.Signatures[0].Signed); n > 0 {
				d := append([]byte{}, st.Signatures[0].Signed...)
				d[n-1] ^= 1
				st.Signatures[0].Signed = d
			} else {
				return nil
			}
		case 13:
			k := st.Signatures[0].Signer
			sig := st.Signatures[0].Signed
			switch k.KeyType {
			case keys.SECP256K1:
				if len(sig) != 64 {
					return nil
				}
				ds := btcec.Signature{R: new(big.Int).SetBytes(sig[:32]), S: new(big.Int).SetBytes(sig[32:])}
				st.Signatures[0] = action.Signature{Signer: keys.PublicKey{KeyType: keys.BTCECSECP, Data: k.Data}, Signed: ds.Serialize()}
			case keys.BTCECSECP:
				ds, err := btcec.ParseDERSignature(sig, btcec.S256())
				if err != nil {
					return nil
				}
				rs := make([]byte, 64)
				rb, sb := ds.R.Bytes(), ds.S.Bytes()
				copy(rs[32-len(rb):32], rb)
				copy(rs[64-len(sb):], sb)
				st.Signatures[0] = action.Signature{Signer: keys.PublicKey{KeyType: keys.SECP256K1, Data: k.Data}, Signed: rs}
			default:
				return nil
			}
		case 10:
			alt := twinSignature(st.Signatures[0].Signer.KeyType, st.Signatures[0].Signed)
			if alt == nil {
				return nil
			}
			st.Signatures[0].Signed = alt
		default:
			x := NewAcct(99, "replay-stranger")
			st.Signatures = append(st.Signatures, action.Signature{Signer: x.Pub, Signed: x.Sign(st.RawTx.RawBytes())})
		}
		return serSigned(st)
	}
	dec := json.NewDecoder(bytes.NewReader(tx))
	dec.UseNumber()
	var m map[string]interface{}
	if err := dec.Decode(&m); err != nil {
		return nil
	}
	switch how {
	case 0:
		b, _ := json.MarshalIndent(m, "", "  ")
		return b
	case 2:
		m["zz_unknown"] = 1
	}
	b, _ := json.Marshal(m)
	return b
}

// RunReplay is the C05 engine: every history is executed on replica A and its twin B; from time
// to time A's block additionally carries a resubmission of a transaction that already succeeded
// (byte-identical, or the same signed content re-encoded). The property holds iff the
// resubmission is rejected by CheckTx and A's results and application hash stay equal to B's.
func RunReplay(seed uint64, histories, blocks, maxTxs int) (*Result, error) {
	res := NewResult("replay", seed, "case = one generated block history on twin replicas; A's blocks additionally carry resubmissions (byte-identical, or re-encoded: indentation, key order, unknown field, trailing whitespace, and altered unsigned envelope parts: duplicated / empty / stranger's extra signature entry, first signer key re-spelled: amino-prefixed / uncompressed point / trailing zero byte, first signature re-spelled: trailing zero byte / the twin signature (r, N-s) resp. (R, s+L) / last byte dropped / last byte changed, first signature entry under the other algorithm that takes the same key bytes (SECP256K1 <-> BTCEC), every declared envelope field outside the signed content and the signature list set to a non-zero value; every second history has SECP256K1, BTCEC and ETHSECP signers besides ED25519) of transactions that succeeded earlier, each first offered to CheckTx; monitor: CheckTx code != 0 and A's application hash / other results equal B's; non-trivial = at least one resubmission of a successful state-changing tx delivered at a later height; distinct = SHA-256 of the lines")
	root := rng.New(seed*77 + 3)
	for c := 0; c < histories; c++ {
		r := root.Fork()
		hl := &HistoryLog{}
		p := paramsFor(r, seed*1000+uint64(c))
		w := NewWorld(p)
		if c%2 == 1 {
			mixAccountAlgorithms(w) // SECP256K1 and BTCEC signers too
			if c%4 == 3 {
				mixEthsecpAccount(w) // account 3 with an ETHSECP key instead (its native transactions verify only if the key handler hashes the message)
			}
		}
		A, err := NewReplica(w, Identity{Name: "A", Val: w.Vals[0]})
		if err != nil {
			return nil, err
		}
		B, err := NewReplica(w, Identity{Name: "B", Val: w.Vals[0]})
		if err != nil {
			return nil, err
		}
		A.InitChain()
		B.InitChain()
		sim := NewSim(w)
		g := NewGen(w, r.Fork())
		wt := AllWeights()
		type okTx struct {
			b    []byte
			kind string
		}
		var succeeded []okTx
		resubs := 0
	hist:
		for bi := 0; bi < blocks; bi++ {
			g.Height = sim.Height + 1
			var gts []GenTx
			var txs [][]byte
			for i, n := 0, r.Intn(maxTxs+1); i < n; i++ {
				t := g.Next(wt)
				gts = append(gts, t)
				txs = append(txs, t.Bytes)
			}
			bo := genBlockOpts(r, p.NVals)
			var extra, o0 []byte
			extraKind, how := "", -1
			if len(succeeded) > 0 && r.Intn(3) == 0 {
				o := succeeded[r.Intn(len(succeeded))]
				extraKind = o.kind
				o0 = o.b
				if r.Intn(3) == 0 {
					extra = o.b
				} else {
					how = r.Intn(15)
					extra = Reencode(o.b, how)
					if extra == nil {
						how = 3
						extra = Reencode(o.b, how)
					}
				}
			}
			b := sim.NextBlock(txs, bo)
			logBlock(hl, b, gts, bo)
			rb := B.ExecBlock(b)
			ba := *b
			if extra != nil {
				cr := A.CheckTx(extra)
				hl.Add("  resubmit %s reencode=%d checktx=%d %x", extraKind, how, cr.Code, extra)
				res.Counters[fmt.Sprintf("resubmit_reencode_%d", how)]++
				if st, ok := parseSigned(o0); ok && len(st.Signatures) > 0 {
					res.Counters["resubmit_first_signer_"+algNames[st.Signatures[0].Signer.KeyType]]++
				}
				if cr.Code == 0 {
					if how < 0 {
						res.Hit("identical-replay-admitted", c, fmt.Sprintf("CheckTx accepted a byte-identical resubmission of %s at height %d", extraKind, b.Height), hl.Lines)
					} else {
						res.Hit("reencoded-replay-admitted", c, fmt.Sprintf("CheckTx accepted a re-encoded (%d) resubmission of %s at height %d", how, extraKind, b.Height), hl.Lines)
					}
				}
				ba.Txs = append(append([][]byte{}, b.Txs...), extra)
				resubs++
			}
			ra := A.ExecBlock(&ba)
			for i, t := range rb.Txs {
				if t.Code == 0 {
					succeeded = append(succeeded, okTx{b.Txs[i], gts[i].Kind})
				}
				res.Distribution[gts[i].Kind+fmt.Sprintf(":%d", t.Code)]++
			}
			// compare A (with the resubmission) against B (without)
			cmp := &BlockResult{Height: ra.Height, Txs: ra.Txs[:len(rb.Txs)], Updates: ra.Updates, AppHash: ra.AppHash}
			if cmp.Transcript() != rb.Transcript() {
				sig := "identical-replay-took-effect"
				if how >= 0 {
					sig = "reencoded-replay-took-effect"
				}
				res.Hit(sig, c, fmt.Sprintf("block %d resubmitted %s (reencode=%d, deliver code %d): %s", b.Height, extraKind, how, ra.Txs[len(ra.Txs)-1].Code, diffDumps(B.Dump(), A.Dump())), hl.Lines)
				break hist
			}
			sim.Absorb(b, rb)
		}
		A.Close()
		B.Close()
		res.Evaluations++
		if resubs > 0 {
			res.DistinctNontrivial++
		}
		if len(res.Samples) < 2 && resubs > 0 {
			res.Samples = append(res.Samples, shortAll(hl.Lines[:min(len(hl.Lines), 30)]))
		}
		TruncateAppLog()
	}
	return res, nil
}

// mixEthsecpAccount replaces account 3 by one with an ETHSECP key that signs Keccak-256 of the
// message (go-ethereum signs 32-byte digests only).
func mixEthsecpAccount(w *World) {
	if len(w.Accts) <= 3 {
		return
	}
	a := newSigKey(w.P.Seed, "acct3", keys.ETHSECP).acct("acct3-ethsecp", false)
	w.Accts[3] = a
	w.State.Balances = append(w.State.Balances,
		consensus.BalanceState{Address: a.Addr, Currency: "OLT", Amount: oltUnits(w.P.AcctFunds)},
		consensus.BalanceState{Address: a.Addr, Currency: "VT", Amount: *balance.NewAmountFromInt(1000)})
	rebuildGenesis(w)
}

// twinSignature computes, without any key, the second signature that the bare verification
// equation accepts wherever it accepts sig.
func twinSignature(alg keys.Algorithm, sig []byte) []byte {
	derInt := func(b *big.Int) []byte {
		x := b.Bytes()
		if len(x) == 0 || x[0]&0x80 != 0 {
			x = append([]byte{0}, x...)
		}
		return append([]byte{0x02, byte(len(x))}, x...)
	}
	switch alg {
	case keys.BTCECSECP:
		s, err := btcec.ParseDERSignature(sig, btcec.S256())
		if err != nil {
			return nil
		}
		body := append(derInt(s.R), derInt(new(big.Int).Sub(btcec.S256().N, s.S))...)
		return append([]byte{0x30, byte(len(body))}, body...)
	case keys.SECP256K1, keys.ETHSECP:
		if len(sig) < 64 {
			return nil
		}
		out := append([]byte{}, sig...)
		t := new(big.Int).Sub(btcec.S256().N, new(big.Int).SetBytes(sig[32:64])).Bytes()
		for i := 32; i < 64; i++ {
			out[i] = 0
		}
		copy(out[64-len(t):64], t)
		return out
	case keys.ED25519:
		if len(sig) != 64 {
			return nil
		}
		l, _ := new(big.Int).SetString("7237005577332262213973186563042994240857116359379907606001950938285454250989", 10)
		le := make([]byte, 32)
		for i := 0; i < 32; i++ {
			le[i] = sig[63-i]
		}
		t := new(big.Int).Add(new(big.Int).SetBytes(le), l).Bytes()
		if len(t) > 32 {
			return nil
		}
		out := append([]byte{}, sig...)
		for i := 32; i < 64; i++ {
			out[i] = 0
		}
		for i, b := range t {
			out[32+len(t)-1-i] = b
		}
		return out
	}
	return nil
}

package apph

import (
	"bytes"
	"fmt"
	"io/ioutil"
	"os"
	"path/filepath"
	"sort"
	"strings"
	"syscall"
	"time"

	abci "github.com/tendermint/tendermint/abci/types"
	tmrpccore "github.com/tendermint/tendermint/rpc/core"
	"github.com/tendermint/tendermint/state/txindex"
	kvindex "github.com/tendermint/tendermint/state/txindex/kv"
	"github.com/tendermint/tendermint/store"
	tmtypes "github.com/tendermint/tendermint/types"
	tmdb "github.com/tendermint/tm-db"

	"github.com/Oneledger/protocol/app"
	"github.com/Oneledger/protocol/config"
	"github.com/Oneledger/protocol/identity"
)

var scratchBase string

// ScratchBase returns (creating it) the per-process scratch directory; removed by Cleanup.
func ScratchBase() string {
	if scratchBase == "" {
		base := os.Getenv("OLH_SCRATCH")
		if base == "" {
			if fi, err := os.Stat("/dev/shm"); err == nil && fi.IsDir() {
				base = "/dev/shm"
			} else {
				base = os.TempDir()
			}
		}
		d, err := ioutil.TempDir(base, "olh-")
		if err != nil {
			panic(err)
		}
		scratchBase = d
	}
	return scratchBase
}

func Cleanup() {
	if scratchBase != "" {
		os.RemoveAll(scratchBase)
		scratchBase = ""
	}
}

var realStdout *os.File
var appLog *os.File

// SilenceAppLogs points os.Stdout (where the repo's loggers write) at a scratch file; the
// harness keeps the real stdout for itself. The file is inspected for "panic in controller".
func SilenceAppLogs() *os.File {
	if realStdout != nil {
		return realStdout
	}
	f, err := os.Create(filepath.Join(ScratchBase(), "app.log"))
	if err != nil {
		panic(err)
	}
	appLog = f
	// the repo's package-level loggers captured os.Stdout at init time, so redirect the
	// descriptor itself and keep a duplicate of the original for the harness
	orig, err := syscall.Dup(1)
	if err != nil {
		panic(err)
	}
	if err := syscall.Dup2(int(f.Fd()), 1); err != nil {
		panic(err)
	}
	realStdout = os.NewFile(uintptr(orig), "harness-stdout")
	return realStdout
}

func appLogSize() int64 {
	if appLog == nil {
		return 0
	}
	fi, err := appLog.Stat()
	if err != nil {
		return 0
	}
	return fi.Size()
}

func appLogSince(off int64) string {
	if appLog == nil {
		return ""
	}
	b, _ := ioutil.ReadFile(appLog.Name())
	if int64(len(b)) <= off {
		return ""
	}
	return string(b[off:])
}

// TruncateAppLog keeps the scratch log from growing without bound.
func TruncateAppLog() {
	if appLog != nil {
		appLog.Truncate(0)
		appLog.Seek(0, 0)
	}
}

var replicaSeq int

// Replica is one application instance with its own data directory, identity, tx indexer and
// block store.
type Replica struct {
	W           *World
	ID          Identity
	Dir         string
	App         *app.App
	Indexer     txindex.TxIndexer
	BlockStore  *store.BlockStore
	bsDB        tmdb.DB
	IsWitness   bool
	Crashed     bool // a panic was swallowed by handlePanic (the application closed itself)
	KeepPending bool // remember the ordered block cache of the last executed block (diagnostics)
	LastPending []kvp
	cfg         *config.Server
}

// NewReplica creates a fresh node directory and application for the identity.
func NewReplica(w *World, id Identity) (*Replica, error) {
	replicaSeq++
	dir := filepath.Join(ScratchBase(), fmt.Sprintf("node-%d-%s", replicaSeq, id.Name))
	r := &Replica{W: w, ID: id, Dir: dir}
	r.bsDB = tmdb.NewDB("blockstore", tmdb.MemDBBackend, "")
	r.BlockStore = store.NewBlockStore(r.bsDB)
	r.Indexer = kvindex.NewTxIndex(tmdb.NewDB("txindex", tmdb.MemDBBackend, ""))
	if err := r.open(); err != nil {
		return nil, err
	}
	return r, nil
}

func (r *Replica) open() error {
	if err := os.MkdirAll(r.Dir, 0755); err != nil {
		return err
	}
	cfg := config.DefaultServerConfig()
	cfg.Node.NodeName = r.ID.Name
	cfg.Node.DB = "goleveldb"
	cfg.Node.DBDir = "nodedata"
	cfg.Node.LogLevel = 0
	cfgPath := filepath.Join(r.Dir, config.FileName)
	if err := cfg.SaveFile(cfgPath); err != nil {
		return err
	}
	if err := cfg.ReadFile(cfgPath); err != nil {
		return err
	}
	cfg.Node.LogLevel = 0
	r.cfg = cfg
	nctx, err := writeNodeFiles(r.Dir, r.ID, cfg)
	if err != nil {
		return err
	}
	tmrpccore.SetTxIndexer(r.Indexer)
	a, err := app.NewVerifApp(cfg, nctx, r.W.Genesis, r.BlockStore)
	if err != nil {
		return err
	}
	r.App = a
	r.IsWitness = identity.VerifIsETHWitness()
	r.Crashed = false
	return nil
}

// aim installs this replica's process-global pieces before every ABCI call.
func (r *Replica) aim() {
	tmrpccore.SetTxIndexer(r.Indexer)
	identity.VerifSetETHWitness(r.IsWitness)
}

func (r *Replica) watch(off int64) {
	if s := appLogSince(off); strings.Contains(s, "panic in controller") {
		r.Crashed = true
	}
}

// Close releases the databases and removes the directory.
func (r *Replica) Close() {
	if r.App != nil {
		r.App.VerifCloseDBs()
		r.App = nil
	}
	os.RemoveAll(r.Dir)
}

// Restart closes the application and reopens it from its on-disk data (same block store and
// index, which live in Tendermint's own databases and survive an application crash).
func (r *Replica) Restart() error {
	r.App.VerifCloseDBs()
	r.App = nil
	return r.open()
}

func (r *Replica) InitChain() abci.ResponseInitChain {
	r.aim()
	off := appLogSize()
	defer r.watch(off)
	var vals []abci.ValidatorUpdate
	for _, gv := range r.W.Genesis.Validators {
		vals = append(vals, tmtypes.TM2PB.ValidatorUpdate(tmtypes.NewValidator(gv.PubKey, gv.Power)))
	}
	res := r.App.ABCI().InitChain(abci.RequestInitChain{
		Time: r.W.GenesisTime, ChainId: r.W.ChainID, Validators: vals, AppStateBytes: r.W.Genesis.AppState,
	})
	// a freshly initialised node learns its witness role the way Prepare() would on next start;
	// the role of the running process is whatever Init computed before InitChain (false).
	return res
}

func (r *Replica) Info() abci.ResponseInfo {
	r.aim()
	return r.App.ABCI().Info(abci.RequestInfo{})
}

func (r *Replica) CheckTx(tx []byte) abci.ResponseCheckTx {
	r.aim()
	off := appLogSize()
	defer r.watch(off)
	return r.App.ABCI().CheckTx(abci.RequestCheckTx{Tx: tx})
}

// TxResult is the consensus-visible part of a DeliverTx response.
type TxResult struct {
	Code      uint32
	Data      []byte
	GasWanted int64
	GasUsed   int64
	Log       string
}

// Block is what the simulated Tendermint hands to every replica.
type Block struct {
	Height      int64
	Time        time.Time
	Proposer    []byte
	Votes       []abci.VoteInfo
	Evidence    []abci.Evidence
	Txs         [][]byte
	Hash        []byte
	LastAppHash []byte
}

// BlockResult is the consensus transcript of one block on one replica.
type BlockResult struct {
	Height      int64
	Txs         []TxResult
	Updates     []abci.ValidatorUpdate
	AppHash     []byte
	BeginEvents []abci.Event
	EndEvents   []abci.Event
}

func (r *Replica) BeginBlock(b *Block) abci.ResponseBeginBlock {
	r.aim()
	off := appLogSize()
	defer r.watch(off)
	return r.App.ABCI().BeginBlock(abci.RequestBeginBlock{
		Hash:                b.Hash,
		Header:              abci.Header{ChainID: r.W.ChainID, Height: b.Height, Time: b.Time, ProposerAddress: b.Proposer, AppHash: b.LastAppHash},
		LastCommitInfo:      abci.LastCommitInfo{Votes: b.Votes},
		ByzantineValidators: b.Evidence,
	})
}

func (r *Replica) DeliverTx(tx []byte) TxResult {
	r.aim()
	off := appLogSize()
	defer r.watch(off)
	res := r.App.ABCI().DeliverTx(abci.RequestDeliverTx{Tx: tx})
	return TxResult{Code: res.Code, Data: res.Data, GasWanted: res.GasWanted, GasUsed: res.GasUsed, Log: res.Log}
}

func (r *Replica) EndBlock(h int64) abci.ResponseEndBlock {
	r.aim()
	off := appLogSize()
	defer r.watch(off)
	return r.App.ABCI().EndBlock(abci.RequestEndBlock{Height: h})
}

func (r *Replica) Commit() []byte {
	r.aim()
	off := appLogSize()
	defer r.watch(off)
	return r.App.ABCI().Commit().Data
}

// SaveBlock stores the block's meta data in the replica's block store (Tendermint saves a
// block before applying it); idempotent for already stored heights.
func (r *Replica) SaveBlock(b *Block) {
	if r.BlockStore.Height() >= b.Height {
		return
	}
	var txs []tmtypes.Tx
	for _, t := range b.Txs {
		txs = append(txs, tmtypes.Tx(t))
	}
	last := tmtypes.NewCommit(b.Height-1, 0, tmtypes.BlockID{}, nil)
	blk := tmtypes.MakeBlock(b.Height, txs, last, nil)
	blk.Header.ChainID = r.W.ChainID
	blk.Header.Time = b.Time
	blk.Header.ProposerAddress = b.Proposer
	blk.Header.AppHash = b.LastAppHash
	parts := blk.MakePartSet(1 << 20)
	seen := tmtypes.NewCommit(b.Height, 0, tmtypes.BlockID{Hash: blk.Hash(), PartsHeader: parts.Header()}, nil)
	r.BlockStore.SaveBlock(blk, parts, seen)
}

// IndexBlock feeds the tx indexer as Tendermint's indexer service does after a block.
func (r *Replica) IndexBlock(b *Block, res *BlockResult) {
	batch := txindex.NewBatch(int64(len(b.Txs)))
	for i, tx := range b.Txs {
		tr := res.Txs[i]
		batch.Add(&tmtypes.TxResult{Height: b.Height, Index: uint32(i), Tx: tx,
			Result: abci.ResponseDeliverTx{Code: tr.Code, Data: tr.Data, GasWanted: tr.GasWanted, GasUsed: tr.GasUsed, Log: tr.Log}})
	}
	r.Indexer.AddBatch(batch)
}

// ExecBlock runs the full consensus call sequence for one block.
func (r *Replica) ExecBlock(b *Block) *BlockResult {
	r.SaveBlock(b)
	res := &BlockResult{Height: b.Height}
	bb := r.BeginBlock(b)
	res.BeginEvents = bb.Events
	for _, tx := range b.Txs {
		res.Txs = append(res.Txs, r.DeliverTx(tx))
		if r.Crashed {
			// handlePanic closed the application: every later call would die on the closed databases
			for len(res.Txs) < len(b.Txs) {
				res.Txs = append(res.Txs, TxResult{Code: 99, Log: "application closed"})
			}
			return res
		}
	}
	if r.Crashed {
		return res
	}
	eb := r.EndBlock(b.Height)
	res.Updates = eb.ValidatorUpdates
	res.EndEvents = eb.Events
	if r.Crashed {
		return res
	}
	if r.KeepPending {
		r.LastPending = pendingOf(r.App.VerifDeliverState())
	}
	res.AppHash = r.Commit()
	r.IndexBlock(b, res)
	return res
}

// Transcript renders the consensus-visible part of a block result canonically.
func (br *BlockResult) Transcript() string {
	var sb strings.Builder
	fmt.Fprintf(&sb, "blk %d hash %x", br.Height, br.AppHash)
	for _, u := range br.Updates {
		fmt.Fprintf(&sb, " upd %x:%d", u.PubKey.Data, u.Power)
	}
	for _, t := range br.Txs {
		fmt.Fprintf(&sb, " tx %d:%x:%d:%d", t.Code, t.Data, t.GasWanted, t.GasUsed)
	}
	return sb.String()
}

// Dump returns the committed tree as sorted key/value pairs.
func (r *Replica) Dump() [][2][]byte {
	var out [][2][]byte
	r.App.VerifChainState().Iterate(func(k, v []byte) bool {
		out = append(out, [2][]byte{append([]byte{}, k...), append([]byte{}, v...)})
		return false
	})
	sort.Slice(out, func(i, j int) bool { return bytes.Compare(out[i][0], out[j][0]) < 0 })
	return out
}

package apph

// The interpreter oracle of the C17 correspondence: go-ethereum's EVM run on go-ethereum's own
// reference state (core/state over a memory database), wrapped by a recorder that logs the
// balance-changing StateDB calls the interpreter makes while running code and drops the ones
// its own reverts undo. Nothing of Oneledger's adapter (vm/statedb*.go) is involved, so the Lean
// pipeline fed with this oracle's outputs is compared against the implementation end to end.

import (
	"fmt"
	"math/big"
	"time"

	ethcmn "github.com/ethereum/go-ethereum/common"
	"github.com/ethereum/go-ethereum/core"
	"github.com/ethereum/go-ethereum/core/rawdb"
	"github.com/ethereum/go-ethereum/core/state"
	ethvm "github.com/ethereum/go-ethereum/core/vm"

	olvm "github.com/Oneledger/protocol/vm"
)

type recDB struct {
	*state.StateDB
	on    bool
	log   []string
	marks map[int]int
}

func hexAddr(a []byte) string { return fmt.Sprintf("%x", a) }

func (r *recDB) SubBalance(a ethcmn.Address, n *big.Int) {
	if r.on {
		r.log = append(r.log, fmt.Sprintf("s:%s:%s", hexAddr(a.Bytes()), n.String()))
	}
	r.StateDB.SubBalance(a, n)
}

func (r *recDB) AddBalance(a ethcmn.Address, n *big.Int) {
	if r.on {
		r.log = append(r.log, fmt.Sprintf("a:%s:%s", hexAddr(a.Bytes()), n.String()))
	}
	r.StateDB.AddBalance(a, n)
}

func (r *recDB) Suicide(a ethcmn.Address) bool {
	if r.on {
		r.log = append(r.log, fmt.Sprintf("x:%s", hexAddr(a.Bytes())))
	}
	return r.StateDB.Suicide(a)
}

func (r *recDB) Snapshot() int {
	id := r.StateDB.Snapshot()
	r.marks[id] = len(r.log)
	return id
}

func (r *recDB) RevertToSnapshot(id int) {
	if n, ok := r.marks[id]; ok && n <= len(r.log) {
		r.log = r.log[:n]
	}
	r.StateDB.RevertToSnapshot(id)
}

// startMark switches the recorder on when the outer layer of Call / create hands over to the
// interpreter (CaptureStart sits exactly there in go-ethereum 1.10.8).
type startMark struct{ db *recDB }

func (t *startMark) CaptureStart(env *ethvm.EVM, from ethcmn.Address, to ethcmn.Address, create bool, input []byte, gas uint64, value *big.Int) {
	t.db.on = true
}
func (t *startMark) CaptureState(env *ethvm.EVM, pc uint64, op ethvm.OpCode, gas, cost uint64, scope *ethvm.ScopeContext, rData []byte, depth int, err error) {
}
func (t *startMark) CaptureFault(env *ethvm.EVM, pc uint64, op ethvm.OpCode, gas, cost uint64, scope *ethvm.ScopeContext, depth int, err error) {
}
func (t *startMark) CaptureEnd(output []byte, gasUsed uint64, tm time.Duration, err error) {}

// ShadowAcct is the pre-state of one existing account as the harness decoded it.
type ShadowAcct struct {
	Addr    []byte
	Balance *big.Int
	Nonce   uint64
	Code    []byte
	Slot0   ethcmn.Hash
}

// VmOut mirrors OLP.Olvm.VmOut.
type VmOut struct {
	GasLeft uint64
	Refund  uint64
	Failed  bool
	RetCode bool
	Effs    []string
	Err     string
}

func (v VmOut) tokens() string {
	e := "-"
	if len(v.Effs) > 0 {
		e = ""
		for i, x := range v.Effs {
			if i > 0 {
				e += ","
			}
			e += x
		}
	}
	return fmt.Sprintf("%d %d %s %s %s", v.GasLeft, v.Refund, olvmB01(v.Failed), olvmB01(v.RetCode), e)
}

func olvmB01(b bool) string {
	if b {
		return "1"
	}
	return "0"
}

// ShadowRun executes what TransitionDb hands to the interpreter: the sender has bought `gasLimit`
// gas at `price`, the access list is prepared, the nonce of a call is bumped, then EVM.Call /
// EVM.Create runs with `gasLimit - intrinsic` gas.
func ShadowRun(chainID string, height int64, ts time.Time, proposer []byte, accts []ShadowAcct, from []byte, to *[]byte, value *big.Int, data []byte, gasLimit, intrinsic uint64, price *big.Int) (out VmOut, err error) {
	defer func() {
		if r := recover(); r != nil {
			err = fmt.Errorf("shadow interpreter panicked: %v", r)
		}
	}()
	sdb, e := state.New(ethcmn.Hash{}, state.NewDatabase(rawdb.NewMemoryDatabase()), nil)
	if e != nil {
		return out, e
	}
	for _, a := range accts {
		addr := ethcmn.BytesToAddress(a.Addr)
		sdb.CreateAccount(addr)
		sdb.SetBalance(addr, new(big.Int).Set(a.Balance))
		sdb.SetNonce(addr, a.Nonce)
		if len(a.Code) > 0 {
			sdb.SetCode(addr, a.Code)
			if a.Slot0 != (ethcmn.Hash{}) {
				sdb.SetState(addr, ethcmn.Hash{}, a.Slot0)
			}
		}
	}
	if _, e := sdb.Commit(false); e != nil {
		return out, e
	}
	rec := &recDB{StateDB: sdb, marks: map[int]int{}}
	sender := ethcmn.BytesToAddress(from)
	rec.StateDB.SubBalance(sender, new(big.Int).Mul(new(big.Int).SetUint64(gasLimit), price))
	cfg := olvm.EthereumConfig(chainID)
	blockCtx := ethvm.BlockContext{
		CanTransfer: core.CanTransfer, Transfer: core.Transfer,
		GetHash:  func(uint64) ethcmn.Hash { return ethcmn.Hash{} },
		Coinbase: ethcmn.BytesToAddress(proposer), GasLimit: 1 << 62,
		BlockNumber: big.NewInt(height), Time: big.NewInt(ts.Unix()), Difficulty: big.NewInt(1), BaseFee: big.NewInt(0),
	}
	evm := ethvm.NewEVM(blockCtx, ethvm.TxContext{Origin: sender, GasPrice: price}, rec, cfg, ethvm.Config{Debug: true, Tracer: &startMark{rec}})
	rules := cfg.Rules(blockCtx.BlockNumber)
	var dst *ethcmn.Address
	if to != nil {
		d := ethcmn.BytesToAddress(*to)
		dst = &d
	}
	rec.PrepareAccessList(sender, dst, ethvm.ActivePrecompiles(rules), nil)
	gas := gasLimit - intrinsic
	var ret []byte
	var left uint64
	var verr error
	if to == nil {
		ret, _, left, verr = evm.Create(ethvm.AccountRef(sender), data, gas, value)
		out.RetCode = verr == nil && len(ret) > 0
	} else {
		rec.StateDB.SetNonce(sender, rec.GetNonce(sender)+1)
		ret, left, verr = evm.Call(ethvm.AccountRef(sender), *dst, data, gas, value)
	}
	out.GasLeft = left
	out.Refund = rec.GetRefund()
	out.Failed = verr != nil
	if verr != nil {
		out.Err = verr.Error()
	} else {
		out.Effs = rec.log
	}
	return out, nil
}
